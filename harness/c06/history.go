package c06

import (
	"fmt"
	"sort"
	"strings"

	"verif/harness/vh"
)

// History stream (script level, judged by the before/after oracle only).
//
// Every other stream copies a value that has just been built: the source array has no past.
// Whether a copy is independent of its source can, however, depend on STATE that an earlier
// operation left on the source: ZVal.RefSlotCount marks a slot as bound by `&`, CloneArrayValue
// keeps marked slots shared (and does not deep-copy an array held by one), storeSlot /
// SetIntKey / OwnSlot write marked slots in place. An operation that marks a slot although no
// reference outlives it — or forgets to unmark it — turns every LATER copy of the array into an
// alias for that slot; one-shot copy / mutate / snapshot cases cannot see it, because there the
// copy is made before anything touches the source.
//
// This stream enumerates the product
//     history prefix  (an operation on the source, finished before the copy, that leaves no
//                      reference behind: an element bound to a by-reference parameter of a
//                      function / method / static method / constructor / closure / generator /
//                      __invoke, named, second position, with default, forwarded, recursive,
//                      abandoned by an exception; every built-in with a by-reference parameter;
//                      foreach by reference; by-reference callbacks; destructuring with references;
//                      a reference in a by-value callee; aliases through `global` / `static`;
//                      and — the family where the binder is a VARIABLE that has since gone —
//                      `$r = &$a[j]; unset($r);`, rebinding, a reference local to a function that
//                      has returned, captured by a closure that has gone, to an array-valued slot,
//                      to a fresh slot `&$a[]`)
//   × placement       (the prefix acts on a variable `$h` that is then the value `{V}` of the
//                      route — the value passes TWO copy edges — or directly on the route's
//                      original name: variable, property, static property, element)
//   × element kind × container shape × copy route × mutation form × written side of payload.go
// and demands: every OTHER name — the route's other side, `$h`, the builder variable `$t` —
// prints the same before and after the mutation.
//
// On this tree RefSlotCount is incremented by `$r = &$a[j]` and never decremented: the prefixes
// of the variable-binder family leave the slot marked for good and later copies share it. That
// is a known finding (signature hstale:<prefix>, one per prefix: every leak after such a prefix
// is the same defect; the same routes and mutations are judged with fine signatures under all
// other prefixes). The by-reference-parameter family leaves nothing (the parameter binding does
// not mark the slot) and is judged with the signature hleak:<prefix>:<route>:<mutation>.

type hPre struct {
	Name        string
	Decl        string // declarations of the case ({F} = per-case suffix)
	Stmt        string // {N} = the source, {T} / {T1} = path to element 0 / 1, {P} = path to the array holding them
	Explicit    bool   // the binder was a variable (`$r = &…`) that has gone: stays marked on this tree (known)
	NeedP       bool   // addresses the holding array through an element path: nested shapes only
	Funcs       []string
	MayNotParse bool
	Global      bool // reaches the source through `global $h`: placement via, fresh interpreter
	ViaOnly     bool // names the source inside a closure's use clause: a plain variable only
}

// the three basic callees live in the prelude (loaded once per interpreter)
const hPrelude = `function hp_nop(&$x) { }
function hp_set(&$x) { $x = 'H'; }
function hp_same(&$x) { $x = $x; }
`
const hDecl = ""

func hp(name, stmt string) hPre { return hPre{Name: name, Decl: hDecl, Stmt: stmt} }
func hb(name, stmt string, funcs ...string) hPre {
	return hPre{Name: name, Decl: hDecl, Stmt: stmt, Funcs: funcs}
}

var hPres = []hPre{
	// ---- an element bound to a by-reference parameter of a user callable
	hp("fnNop", "hp_nop({N}{T});"),
	hp("fnSet", "hp_set({N}{T});"),
	hp("fnSame", "hp_same({N}{T});"),
	hp("fnTwice", "hp_set({N}{T}); hp_nop({N}{T});"),
	hp("fnBoth", "hp_nop({N}{T}); hp_nop({N}{T1});"),
	hp("fnNamed", "hp_set(x: {N}{T});"),
	hp("fnLoop", "for ($hi = 0; $hi < 3; $hi++) { hp_same({N}{T}); }"),
	{Name: "fnSecond", Decl: "function hp_2{F}($z, &$x) { $x = 'H'; }", Stmt: "hp_2{F}(0, {N}{T});"},
	{Name: "fnDefault", Decl: "function hp_d{F}(&$x = null, $z = 0) { $x = 'H'; }", Stmt: "hp_d{F}({N}{T});"},
	{Name: "fnTyped", Decl: "function hp_t{F}(mixed &$x) { $x = 'H'; }", Stmt: "hp_t{F}({N}{T});", MayNotParse: true},
	{Name: "fnVariadic", Decl: "function hp_v{F}(&...$xs) { $xs[0] = 'H'; }", Stmt: "hp_v{F}({N}{T}, {N}{T1});", MayNotParse: true},
	{Name: "fnForward", Decl: "function hp_f{F}(&$x) { hp_set($x); }", Stmt: "hp_f{F}({N}{T});"},
	{Name: "fnRecursive", Decl: "function hp_r{F}(&$x, $n) { if ($n > 0) { hp_r{F}($x, $n - 1); } else { $x = 'H'; } }", Stmt: "hp_r{F}({N}{T}, 2);"},
	{Name: "fnThrows", Decl: "function hp_x{F}(&$x) { $x = 'H'; throw new \\Exception('hx'); }", Stmt: "try { hp_x{F}({N}{T}); } catch (\\Exception $he) { }"},
	{Name: "fnReturnsRef", Decl: "function hp_rr{F}(&$x) { return $x; }", Stmt: "$hv = hp_rr{F}({N}{T});"},
	{Name: "fnTwoParams", Decl: "function hp_sw{F}(&$x, &$y) { $t = $x; $x = $y; $y = $t; }", Stmt: "hp_sw{F}({N}{T}, {N}{T1});"},
	{Name: "fnSameTwice", Decl: "function hp_st{F}(&$x, &$y) { $x = 'H'; $y = 'I'; }", Stmt: "hp_st{F}({N}{T}, {N}{T});"},
	{Name: "fnRefInCallee", Decl: "function hp_ri{F}(&$x) { $q = &$x; $q = 'H'; }", Stmt: "hp_ri{F}({N}{T});"},
	{Name: "fnInnerArray", Decl: "function hp_ia{F}(&$x) { $x[0] = $x[0]; }", Stmt: "hp_ia{F}({N}{P});"},
	{Name: "fnInnerAppendPop", Decl: "function hp_ap{F}(&$x) { $x[] = 'H'; array_pop($x); }", Stmt: "hp_ap{F}({N}{P});"},
	{Name: "fnInnerNop", NeedP: true, Decl: hDecl, Stmt: "hp_nop({N}{P});"},
	{Name: "method", Decl: "class HPC{F} { function m(&$x) { $x = 'H'; } }", Stmt: "(new HPC{F})->m({N}{T});"},
	{Name: "methodVar", Decl: "class HPC{F} { function m(&$x) { $x = 'H'; } }", Stmt: "$ho = new HPC{F}; $ho->m({N}{T});"},
	{Name: "methodThis", Decl: "class HPC{F} { function m(&$x) { $this->n($x); } function n(&$y) { $y = 'H'; } }", Stmt: "(new HPC{F})->m({N}{T});"},
	{Name: "staticMethod", Decl: "class HPC{F} { static function sm(&$x) { $x = 'H'; } }", Stmt: "HPC{F}::sm({N}{T});"},
	{Name: "ctor", Decl: "class HPC{F} { function __construct(&$x) { $x = 'H'; } }", Stmt: "new HPC{F}({N}{T});"},
	{Name: "ctorKeeps", Decl: "class HPC{F} { public $k; function __construct(&$x) { $this->k = $x; } }", Stmt: "$ho = new HPC{F}({N}{T}); unset($ho);"},
	{Name: "invoke", Decl: "class HPC{F} { function __invoke(&$x) { $x = 'H'; } }", Stmt: "$ho = new HPC{F}; $ho({N}{T});"},
	{Name: "magicCall", Decl: "class HPC{F} { function __call($n, $args) { return 0; } }", Stmt: "(new HPC{F})->nosuch({N}{T});"},
	{Name: "closureCall", Stmt: "(function(&$x) { $x = 'H'; })({N}{T});"},
	{Name: "closureVar", Stmt: "$hf = function(&$x) { $x = 'H'; }; $hf({N}{T}); unset($hf);"},
	{Name: "arrowFn", Stmt: "$hf = fn(&$x) => 0; $hf({N}{T});", MayNotParse: true},
	{Name: "callUserFunc", Decl: hDecl, Stmt: "call_user_func('hp_set', {N}{T});", Funcs: []string{"call_user_func"}},
	{Name: "callUserFuncArray", Decl: hDecl, Stmt: "call_user_func_array('hp_set', [&{N}{T}]);", Funcs: []string{"call_user_func_array"}, MayNotParse: true},
	{Name: "stringCallable", Decl: hDecl, Stmt: "$hf = 'hp_set'; $hf({N}{T});"},
	{Name: "generator", Decl: "function hp_g{F}(&$x) { $x = 'H'; yield 1; }", Stmt: "foreach (hp_g{F}({N}{T}) as $hy) { }"},
	{Name: "generatorAbandoned", Decl: "function hp_g{F}(&$x) { yield 1; $x = 'H'; yield 2; }", Stmt: "foreach (hp_g{F}({N}{T}) as $hy) { break; }"},
	// ---- every built-in with a by-reference parameter (std/: NewParameterReference), on the element / its array
	hb("sort", "sort({N}{P});", "sort"),
	hb("rsort", "rsort({N}{P});", "rsort"),
	hb("usort", "usort({N}{P}, function($x, $y) { return 0; });", "usort"),
	hb("ksort", "ksort({N}{P});", "ksort"),
	hb("krsort", "krsort({N}{P});", "krsort"),
	hb("arrayPushPop", "array_push({N}{P}, 'H'); array_pop({N}{P});", "array_push", "array_pop"),
	hb("arrayPush", "array_push({N}{P}, 'H');", "array_push"),
	hb("arrayShift", "array_shift({N}{P});", "array_shift"),
	hb("arraySplice", "array_splice({N}{P}, 0, 0);", "array_splice"),
	hb("arrayWalk", "array_walk({N}{P}, function(&$v, $k) { $v = $v; });", "array_walk"),
	hb("arrayWalkValue", "array_walk({N}{P}, function($v, $k) { return 0; });", "array_walk"),
	hb("pointer", "end({N}{P}); prev({N}{P}); reset({N}{P}); next({N}{P}); current({N}{P}); key({N}{P});", "end", "prev", "reset", "next", "current", "key"),
	hb("sortElem", "sort({N}{T});", "sort"),
	hb("arrayPushElem", "array_push({N}{T}, 8);", "array_push"),
	hb("arrayPopElem", "array_pop({N}{T});", "array_pop"),
	hb("endElem", "end({N}{T}); reset({N}{T});", "end", "reset"),
	hb("pregMatch", "preg_match('/b(c)/', 'abc', {N}{T});", "preg_match"),
	hb("pregMatchAll", "preg_match_all('/b/', 'abcb', {N}{T});", "preg_match_all"),
	hb("strIreplaceCount", "str_ireplace('a', 'b', 'aa', {N}{T});", "str_ireplace"),
	hb("strReplaceCount", "str_replace('a', 'b', 'aa', {N}{T});", "str_replace"),
	hb("settype", "settype({N}{T}, 'string');", "settype"),
	hb("arrayMapRef", "array_map(function(&$v) { return 0; }, {N}{P});", "array_map"),
	hb("arrayFilterRef", "array_filter({N}{P}, function(&$v) { return true; });", "array_filter"),
	// ---- iteration by reference, destructuring with references
	{Name: "foreachRefUnset", Stmt: "foreach ({N}{P} as &$hv) { $hv = $hv; } unset($hv);"},
	{Name: "foreachRefKeyUnset", Stmt: "foreach ({N}{P} as $hk => &$hv) { $hv = 'H'; } unset($hv);"},
	{Name: "foreachRefInFunc", Decl: "function hp_fe{F}(&$arr) { foreach ($arr{P} as &$v) { $v = $v; } }", Stmt: "hp_fe{F}({N});"},
	{Name: "foreachRefInClosure", ViaOnly: true, Stmt: "(function() use (&{R}) { foreach ({R}{P} as &$v) { $v = $v; } })();"},
	{Name: "destructureRef", Stmt: "[&$hx] = {N}{P}; $hx = 'H'; unset($hx);", MayNotParse: true},
	{Name: "listRef", Stmt: "list(&$hx) = {N}{P}; unset($hx);", MayNotParse: true},
	// ---- a reference that lives in a by-value callee / in an alias of the source
	{Name: "refInByValCallee", Decl: "function hp_bv{F}($p) { $q = &$p{T}; $q = 'H'; return 0; }", Stmt: "hp_bv{F}({N});"},
	{Name: "refParamInByValCallee", Decl: "function hp_bp{F}($p) { hp_set($p{T}); return 0; }", Stmt: "hp_bp{F}({N});"},
	{Name: "refParamOfCopy", Decl: hDecl, Stmt: "$hc = {N}; hp_set($hc{T}); unset($hc);"},
	{Name: "globalAlias", Global: true, Decl: "function hp_gl{F}() { global $h; hp_set($h{T}); }", Stmt: "hp_gl{F}();"},
	{Name: "globalAliasRead", Global: true, Decl: "function hp_gl{F}() { global $h; $x = $h; hp_set($x{T}); }", Stmt: "hp_gl{F}();"},
	{Name: "staticAlias", Decl: "function hp_sa{F}($set) { static $keep = null; $keep = $set; hp_set($keep{T}); return 0; }", Stmt: "hp_sa{F}({N});"},
	{Name: "wholeByRef", Decl: "function hp_w{F}(&$arr) { $arr{T} = $arr{T}; }", Stmt: "hp_w{F}({N});"},
	{Name: "wholeByRefParamElem", Decl: "function hp_w{F}(&$arr) { hp_set($arr{T}); }", Stmt: "hp_w{F}({N});"},
	// ---- the binder is a variable that has gone (known on this tree: RefSlotCount is never decremented)
	{Name: "refUnset", Explicit: true, Stmt: "$hr = &{N}{T}; unset($hr);"},
	{Name: "refWriteUnset", Explicit: true, Stmt: "$hr = &{N}{T}; $hr = 'H'; unset($hr);"},
	{Name: "refRebind", Explicit: true, Stmt: "$hr = &{N}{T}; $hz = 0; $hr = &$hz;"},
	{Name: "refRebindElem", Explicit: true, Stmt: "$hr = &{N}{T}; $hr = &{N}{T1}; $hz = 0; $hr = &$hz;"},
	{Name: "refTwoUnset", Explicit: true, Stmt: "$hr = &{N}{T}; $hs = &{N}{T}; unset($hr); unset($hs);"},
	{Name: "refInFunc", Explicit: true, Decl: "function hx_in{F}(&$arr) { $q = &$arr{T}; $q = 'H'; }", Stmt: "hx_in{F}({N});"},
	{Name: "refInMethod", Explicit: true, Decl: "class HXC{F} { function m(&$arr) { $q = &$arr{T}; $q = 'H'; } }", Stmt: "(new HXC{F})->m({N});"},
	{Name: "refInClosure", Explicit: true, Stmt: "$hf = function(&$arr) { $q = &$arr{T}; $q = 'H'; }; $hf({N}); unset($hf);"},
	{Name: "refCapturedClosureGone", Explicit: true, Stmt: "$hr = &{N}{T}; $hf = function() use (&$hr) { $hr = 'H'; }; $hf(); unset($hf); unset($hr);"},
	{Name: "refArraySlotUnset", Explicit: true, NeedP: true, Stmt: "$hr = &{N}{P}; unset($hr);"},
	{Name: "refArraySlotRebind", Explicit: true, NeedP: true, Stmt: "$hr = &{N}{P}; $hz = 0; $hr = &$hz;"},
	{Name: "refFreshSlotRebind", Explicit: true, Stmt: "$hr = &{N}{P}[]; $hr = 'H'; $hz = 0; $hr = &$hz;"},
	{Name: "refInLoopUnset", Explicit: true, Stmt: "foreach ([0, 1] as $hi) { $hr = &{N}{T}; } $hz = 0; $hr = &$hz;"},
	{Name: "refInGlobalFunc", Explicit: true, Global: true, Decl: "function hx_gl{F}() { global $h; $q = &$h{T}; $q = 'H'; }", Stmt: "hx_gl{F}();"},
}

func hPreByName(n string) (hPre, bool) {
	for _, h := range hPres {
		if h.Name == n {
			return h, true
		}
	}
	return hPre{}, false
}

var hCounter int

func hApplicable(h hPre, place string, s pShape, rt pRoute) bool {
	if rt.ScalarVar || rt.LitOnly || rt.FlatOnly {
		return false
	}
	if h.NeedP && s.P == "" {
		return false
	}
	switch place {
	case "via":
	case "direct":
		if h.Global || h.ViaOnly || rt.OrigRO || rt.OrigShow != "" || !strings.Contains(rt.Setup, "{V};") {
			return false
		}
	default:
		return false
	}
	return true
}

// hCase: plCase with a past. place = via | direct.
func hCase(h hPre, place string, k pKind, s pShape, rt pRoute, m pMut, side string, have map[string]bool) *Case {
	if !plApplicable(k, s, rt, m, side, have) || !hasAll(have, h.Funcs) || !hApplicable(h, place, s, rt) {
		return nil
	}
	hCounter++
	num := "h" + fmt.Sprint(hCounter)
	sub := func(t string) string { return strings.ReplaceAll(t, "{F}", num) }
	pre := fill3(s.Pre, k.E)
	val := fill3(s.Expr, k.E)
	wrap := func(stmt string) string { return "try { " + stmt + " } catch (\\Throwable $ex) { }" }
	onName := func(t, name string) string {
		root := name
		if i := strings.IndexAny(name, "[-"); i > 0 {
			root = name[:i] // the variable a closure can capture
		}
		return strings.NewReplacer("{N}", name, "{R}", root, "{T1}", s.T1, "{T}", s.T, "{P}", s.P).Replace(sub(t))
	}

	written, others, stmt := "", []string{}, ""
	switch {
	case rt.Callee != "":
		written = rt.Callee
		others = append(others, rt.Orig)
		stmt = sub(rt.Call)
	case side == "orig":
		written = sub(rt.Orig)
		if rt.CopyShow != "" {
			others = append(others, rt.CopyShow)
		} else {
			others = append(others, rt.Copy)
		}
	default:
		written = sub(rt.Copy)
		others = append(others, rt.Orig)
	}
	others = append(others, rt.Extra...)
	if place == "via" {
		others = append(others, "$h")
	}
	if pre != "" {
		others = append(others, "$t")
	}
	mutStmt := wrap(m.on(written, s))
	if rt.Callee == "" {
		stmt = mutStmt
	}
	var decl, body strings.Builder
	if h.Decl != "" {
		decl.WriteString(onName(h.Decl, "") + "\n")
	}
	if rt.Decl != "" {
		d := strings.ReplaceAll(rt.Decl, "{MUT}", mutStmt)
		decl.WriteString(sub(d) + "\n")
	} else if rt.Callee != "" {
		stmt = strings.ReplaceAll(stmt, "{MUT}", mutStmt)
	}
	if pre != "" {
		body.WriteString(pre + "\n")
	}
	histOn := func(name string) string {
		return "try { " + onName(h.Stmt, name) + " echo \"\\n@h ran\\n\"; } catch (\\Throwable $ex) { echo \"\\n@h threw\\n\"; }"
	}
	setup := sub(rt.Setup)
	source := ""
	if place == "via" {
		source = "$h"
		body.WriteString("$h = " + val + ";\n" + histOn("$h") + "\n")
		setup = strings.NewReplacer("{V}", "$h", "{T}", s.T, "{PRE}", "").Replace(setup)
	} else {
		source = sub(rt.Orig)
		i := strings.Index(setup, "{V};") + len("{V};")
		setup = setup[:i] + "\n" + histOn(source) + "\n" + strings.TrimLeft(setup[i:], " ")
		setup = strings.NewReplacer("{V}", val, "{T}", s.T, "{PRE}", "").Replace(setup)
	}
	body.WriteString(setup + "\n")
	var shows []string
	for _, o := range others {
		shows = append(shows, "pshow("+sub(o)+")")
	}
	snap := func(tag string) string {
		return "echo \"\\n" + tag + " \", " + strings.Join(shows, ", ' ', ") + ", \"\\n\";\n"
	}
	body.WriteString("plog(\"reset\");\n" + snap("@1") + stmt + "\n" + snap("@2"))
	if rt.Callee != "" {
		body.WriteString("echo \"\\n@3 \", plog(), \"\\n\";\n")
	} else {
		body.WriteString("echo \"\\n@3 \", pshow(" + written + "), \"\\n\";\n")
	}
	_ = source
	src := "<?php\n" + decl.String() + body.String()
	return &Case{Kind: "h", Src: src, Hist: h.Name + "@" + place, Shape: k.Name + "/" + s.Name, Route: rt.Name, Mut: m.Name, Side: side,
		Fresh: rt.Fresh || h.Global, NoEffect: true}
}

func hSig(cs *Case) string {
	name := cs.Hist
	if i := strings.IndexByte(name, '@'); i > 0 {
		name = name[:i]
	}
	if h, ok := hPreByName(name); ok && h.Explicit {
		return "hstale:" + name
	}
	return "hleak:" + name + ":" + cs.Route + ":" + cs.Mut
}

// runH: every other name must print the same before and after the statement.
func (r *runner) runH(cs *Case) {
	c := r.c
	r.fresh = cs.Fresh
	o := r.runScript(cs.Src)
	r.fresh = false
	if len(c.ReplayRaw) > 0 {
		c.Note("script:\n%s\noutcome: %s", cs.Src, o.String())
	}
	c.Eval("h|"+cs.Hist+"|"+cs.Shape+"|"+cs.Route+"|"+cs.Mut+"|"+cs.Side, true)
	hname, place := cs.Hist, ""
	if i := strings.IndexByte(cs.Hist, '@'); i > 0 {
		hname, place = cs.Hist[:i], cs.Hist[i+1:]
	}
	c.Hit("h:prefix:" + hname)
	c.Hit("h:place:" + place)
	c.Hit("h:route:" + cs.Route)
	c.Hit("h:mut:" + cs.Mut)
	c.Hit("h:side:" + cs.Side)
	if i := strings.IndexByte(cs.Shape, '/'); i > 0 {
		c.Hit("h:shape:" + cs.Shape[i+1:])
	}
	h, _ := hPreByName(hname)
	m, _ := pMutByName(cs.Mut)
	var lines []string
	ran := ""
	for _, l := range strings.Split(o.Out, "\n") {
		if strings.HasPrefix(l, "@h ") {
			ran = l[3:]
			continue
		}
		if want := fmt.Sprintf("@%d ", len(lines)+1); strings.HasPrefix(l, want) {
			lines = append(lines, l[len(want):])
		}
	}
	if o.Kind != "ok" || len(lines) != 3 {
		if (m.MayNotParse || h.MayNotParse) && o.Kind != "crash" && o.Kind != "hang" && !strings.Contains(o.Out, "@1 ") {
			c.Hit("h:rejected") // syntax the interpreter does not know: nothing ran
			r.hStat(hname, "rejected")
			return
		}
		sig := "hrun:" + hname + ":" + cs.Route + ":" + cs.Mut
		r.seen(sig, cs)
		c.Violation(sig, fmt.Sprintf("history %s (%s), route %s: program did not run to completion: %s", hname, place, cs.Route, o.String()), cs)
		return
	}
	if ran == "" {
		ran = "skipped" // the setup ended before the history statement
	}
	c.Hit("h:history-" + ran)
	r.hStat(hname, ran)
	if lines[0] != lines[1] {
		sig := hSig(cs)
		r.seen(sig, cs)
		what := fmt.Sprintf("after the history `%s` (%s) on the source, copy route %s, shape %s, written side %s: the statement changed a name it does not write through: %s -> %s",
			hname, place, cs.Route, cs.Shape, cs.Side, lines[0], lines[1])
		if h.Explicit {
			what = fmt.Sprintf("the variable bound by `&` to an element has gone (%s), the slot stays marked as reference-bound (RefSlotCount is never decremented) and a later copy shares it — route %s, mutation %s, side %s: %s -> %s",
				hname, cs.Route, cs.Mut, cs.Side, lines[0], lines[1])
		}
		c.Violation(sig, what, cs)
	}
}

func (r *runner) hStat(name, what string) {
	if r.hstats == nil {
		r.hstats = map[string]map[string]int{}
	}
	if r.hstats[name] == nil {
		r.hstats[name] = map[string]int{}
	}
	r.hstats[name][what]++
}

// hEnumerate runs the product.
// quick:    (A) every prefix × 5 kind/shape pairs × 6 mutation forms along plain assignment, the value passing through
//               `$h`, written through the copy (store: also through the original); placed directly on the route's
//               original under 3 forms on 3 shapes,
//           (B) (prefix × route) pairs, the value passing through `$h`, store written through the copy: all pairs for
//               8 representative prefixes (also written through the original and placed directly), a rotating third
//               of the pairs for the others,
//           (C) 3 representative prefixes × every mutation form along assignment (one also along the by-value
//               parameter and on a nested shape), both sides,
//           (D) a seeded sample of the rest.
// thorough: every (prefix × route) pair under 3 mutation forms on list and nested shapes, both placements, both
//           sides; every (prefix × mutation form × side) along assignment on 3 shapes; a larger sample.
func (r *runner) hEnumerate(full bool, rnd *vh.Rand, sample int) int {
	have := r.plProbeOnce()
	n := 0
	run := func(h hPre, place string, k pKind, s pShape, rt pRoute, m pMut, side string) {
		if cs := hCase(h, place, k, s, rt, m, side, have); cs != nil {
			n++
			r.runH(cs)
		}
	}
	kind := func(n string) pKind {
		for _, k := range pKinds {
			if k.Name == n {
				return k
			}
		}
		return pKinds[0]
	}
	shape := func(n string) pShape {
		for _, s := range pShapes {
			if s.Name == n {
				return s
			}
		}
		return pShapes[0]
	}
	mut := func(n string) pMut { m, _ := pMutByName(n); return m }
	route := func(n string) pRoute { rt, _ := pRouteByName(n); return rt }
	places := []string{"via", "direct"}
	sides := []string{"copy", "orig"}
	type ks struct{ k, s string }
	coreKS := []ks{{"str", "list"}, {"int", "list"}, {"str", "keyed"}, {"str", "nest"}, {"str", "kvlist"}}
	coreMuts := []string{"store", "cat", "unset", "append", "sortM", "refParamSet"}
	rep := map[string]bool{"fnSet": true, "fnNop": true, "ctor": true, "sortElem": true, "pregMatch": true,
		"foreachRefUnset": true, "wholeByRefParamElem": true, "refRebind": true}
	rep4 := []string{"fnSet", "arrayPushElem", "refRebind"}
	// (A)
	for _, h := range hPres {
		for _, x := range coreKS {
			for _, mn := range coreMuts {
				run(h, "via", kind(x.k), shape(x.s), route("assign"), mut(mn), "copy")
				if mn == "store" || full {
					run(h, "via", kind(x.k), shape(x.s), route("assign"), mut(mn), "orig")
				}
				if full || (x.k == "str" && x.s != "kvlist" && (mn == "store" || mn == "cat" || mn == "append")) {
					run(h, "direct", kind(x.k), shape(x.s), route("assign"), mut(mn), "copy")
					if full {
						run(h, "direct", kind(x.k), shape(x.s), route("assign"), mut(mn), "orig")
					}
				}
			}
		}
		if r.crashes >= 40 {
			return n
		}
	}
	// (B)
	for hi, h := range hPres {
		for ri, rt := range pRoutes {
			if rt.Name == "assign" {
				continue // (A)
			}
			// a fresh interpreter per case is slow: the `global` route for the representative prefixes,
			// the prefixes that use `global` themselves along three routes
			if rt.Fresh && (!rep[h.Name] || h.Global) {
				continue
			}
			if h.Global && rt.Name != "param" && rt.Name != "propstore" && rt.Name != "return" {
				continue
			}
			if !full && !rep[h.Name] && !h.Global && hi%3 != ri%3 {
				continue // quick: a third of the (prefix × route) pairs, rotating; all pairs for the representative prefixes
			}
			run(h, "via", kind("str"), shape("list"), rt, mut("store"), "copy")
			if rep[h.Name] || full {
				run(h, "via", kind("str"), shape("list"), rt, mut("store"), "orig")
				run(h, "direct", kind("str"), shape("list"), rt, mut("store"), "copy")
				run(h, "direct", kind("str"), shape("list"), rt, mut("store"), "orig")
			}
			if full {
				for _, place := range places {
					for _, side := range sides {
						if place == "direct" && side == "orig" {
							continue
						}
						for _, mn := range []string{"cat", "append", "store"} {
							for _, sn := range []string{"list", "nest"} {
								if mn == "store" && sn == "list" {
									continue
								}
								run(h, place, kind("str"), shape(sn), rt, mut(mn), side)
							}
						}
					}
				}
			}
		}
		if r.crashes >= 40 {
			return n
		}
	}
	// (C)
	for _, h := range hPres {
		isRep := false
		for _, x := range rep4 {
			isRep = isRep || x == h.Name
		}
		if !isRep && !full {
			continue
		}
		for _, m := range pMuts {
			for _, sn := range []string{"list", "nest", "keyed"} {
				for _, rn := range []string{"assign", "param"} {
					if rn != "assign" && (!isRep || (!full && h.Name != "fnSet")) {
						continue
					}
					if !full && sn != "list" && (sn != "nest" || h.Name != "fnSet") {
						continue
					}
					for _, side := range sides {
						run(h, "via", kind("str"), shape(sn), route(rn), m, side)
					}
				}
			}
		}
		if r.crashes >= 40 {
			return n
		}
	}
	// (D)
	for i := 0; i < sample; i++ {
		rt := vh.Pick(rnd, pRoutes)
		h := vh.Pick(rnd, hPres)
		if rt.Fresh || h.Global {
			continue
		}
		run(h, vh.Pick(rnd, places), vh.Pick(rnd, pKinds), vh.Pick(rnd, pShapes), rt, vh.Pick(rnd, pMuts), vh.Pick(rnd, sides))
	}
	// what the prefixes did (transparency: a prefix the interpreter rejects or that always throws exercises nothing)
	var names, dead []string
	for name := range r.hstats {
		names = append(names, name)
	}
	sort.Strings(names)
	for _, name := range names {
		st := r.hstats[name]
		if st["ran"] == 0 {
			dead = append(dead, fmt.Sprintf("%s(threw %d, rejected %d)", name, st["threw"], st["rejected"]))
		}
	}
	if len(dead) > 0 {
		c := r.c
		c.Note("history stream: prefixes that never ran to their end on this interpreter (raised an error or are not parsed; what they did before the error still counts): %s", strings.Join(dead, " "))
	}
	return n
}

func hByNames(hist, kindShape, route, mutName, side string) *Case {
	hname, place := hist, "via"
	if i := strings.IndexByte(hist, '@'); i > 0 {
		hname, place = hist[:i], hist[i+1:]
	}
	h, ok0 := hPreByName(hname)
	kn, sn := kindShape, ""
	if i := strings.IndexByte(kindShape, '/'); i > 0 {
		kn, sn = kindShape[:i], kindShape[i+1:]
	}
	rt, ok1 := pRouteByName(route)
	m, ok2 := pMutByName(mutName)
	if !ok0 || !ok1 || !ok2 {
		return nil
	}
	for _, k := range pKinds {
		for _, s := range pShapes {
			if k.Name == kn && s.Name == sn {
				return hCase(h, place, k, s, rt, m, side, nil)
			}
		}
	}
	return nil
}
