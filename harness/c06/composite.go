package c06

import (
	"fmt"
	"strings"
)

// Composite copy routes (script-level stream, judged by the before/after oracle only).
//
// The catalogue of gen.go copies an array along ONE edge at a time: variable → variable,
// variable → parameter, property → variable … — every value passes through a variable
// before it reaches the next by-value boundary. A program may also hand a value to a
// by-value boundary straight from an expression: `f($o->get())`, `$c[] = stat()`,
// `new K(ident($a))`. The value then travels owner → (expression) → boundary with no
// variable in between, and whether it is copied depends on the PAIR (what kind of
// expression produced it, which boundary consumes it): an optimisation that elides
// "the second copy" for one kind of argument expression is invisible to every
// single-edge route.
//
// This stream enumerates the product
//     owner (who still holds the array)  ×  producer (the expression that yields it)
//   × sink (the by-value boundary that receives it; the write happens behind it)
//   × mutation × shape × scope (top level / function body / method body)
// and demands: the owner prints the same before and after.

// ------------------------------------------------------------ shapes

type xShape struct {
	Name string
	Pre  string // statements that build the value in $t (when it cannot be written as a literal)
	Expr string // the expression that yields the value (a literal, or $t)
	KV   bool   // runtime type ObjectValue (keyed literal): no array methods, no append
	List bool   // positional keys only (spread is defined)
	Lit  bool   // Expr is a constant expression (may initialise a constant / a default value)
	// scalar-payload shape (string / mixed elements): only the mutations that name it apply (the full
	// mutation × element-kind product along single-edge routes is payload.go's)
	Payload bool
}

var xShapes = []xShape{
	{Name: "list", Expr: "[3, 1, 2]", List: true, Lit: true},
	{Name: "keyed", Pre: "$t = [3, 1]; $t['k0'] = 2;", Expr: "$t"},
	{Name: "kv", Expr: "['k0' => 3, 'b' => 1]", KV: true, Lit: true},
	{Name: "nest", Expr: "[[1, 2], 3, [4]]", List: true, Lit: true},
	// elements whose value object is shared by every copy and must never be mutated in place
	{Name: "strlist", Expr: "['abcdefghij', 'klmnopqrst', 'uv']", List: true, Lit: true, Payload: true},
	{Name: "strkeyed", Pre: "$t = ['abcdefghij', 'kl']; $t['k0'] = 'klmnopqrst';", Expr: "$t", Payload: true},
	{Name: "strkv", Expr: "['k0' => 'abcdefghij', 'b' => 'kl']", KV: true, Lit: true, Payload: true},
	{Name: "strnest", Expr: "[['abcdefghij', 'kl'], 'mn', ['op']]", List: true, Lit: true, Payload: true},
	{Name: "mixlist", Expr: "['abcdefghij', 2.5, true, 7]", List: true, Lit: true, Payload: true},
}

// ------------------------------------------------------------ mutations (flat: they write the array the name holds)

type xMut struct {
	Name string
	Stmt string // %s = the name written through
	KV   bool   // applicable to a keyed literal (ObjectValue)
	AV   bool   // applicable to an ArrayValue
	Func bool   // by-reference array_* function: the argument must be a variable or a property
	Kind string // store | unset | method | func — the runtime path of the write
	// compound assignments and in-place built-ins on scalar elements: applicable to exactly these shapes
	Shapes map[string]bool
}

func shapeSet(names ...string) map[string]bool {
	m := map[string]bool{}
	for _, n := range names {
		m[n] = true
	}
	return m
}

var xMuts = []xMut{
	{Name: "append", Stmt: "%s[] = 9;", AV: true, Kind: "store"},
	{Name: "storeIdx", Stmt: "%s[0] = 9;", AV: true, KV: true, Kind: "store"},
	{Name: "storeNew", Stmt: "%s[7] = 9;", AV: true, KV: true, Kind: "store"},
	{Name: "storeKey", Stmt: "%s['k0'] = 9;", AV: true, KV: true, Kind: "store"},
	{Name: "storeArr", Stmt: "%s[0] = [8];", AV: true, KV: true, Kind: "store"},
	{Name: "plusEq", Stmt: "%s[1] += 5;", AV: true, Kind: "store"},
	{Name: "unset", Stmt: "unset(%s[0]);", AV: true, Kind: "unset"},
	{Name: "unsetKey", Stmt: "unset(%s['k0']);", AV: true, KV: true, Kind: "unset"},
	{Name: "push", Stmt: "%s->push(9);", AV: true, Kind: "method"},
	{Name: "pop", Stmt: "%s->pop();", AV: true, Kind: "method"},
	{Name: "shift", Stmt: "%s->shift();", AV: true, Kind: "method"},
	{Name: "unshift", Stmt: "%s->unshift(9);", AV: true, Kind: "method"},
	{Name: "sort", Stmt: "%s->sort();", AV: true, Kind: "method"},
	{Name: "array_push", Stmt: "array_push(%s, 9);", AV: true, Func: true, Kind: "func"},
	{Name: "array_pop", Stmt: "array_pop(%s);", AV: true, Func: true, Kind: "func"},
	{Name: "array_shift", Stmt: "array_shift(%s);", AV: true, Func: true, Kind: "func"},
	{Name: "sortf", Stmt: "sort(%s);", AV: true, Func: true, Kind: "func"},
	// --- writes that compute the new element from the old one (the old value object must stay as it is)
	{Name: "catIdx", Stmt: "%s[0] .= 'XY';", Kind: "store", Shapes: shapeSet("list", "keyed", "strlist", "strkeyed", "mixlist")},
	{Name: "catKey", Stmt: "%s['k0'] .= 'XY';", Kind: "store", Shapes: shapeSet("keyed", "kv", "strkeyed", "strkv")},
	{Name: "catNested", Stmt: "%s[0][0] .= 'XY';", Kind: "store", Shapes: shapeSet("nest", "strnest")},
	{Name: "mulIdx", Stmt: "%s[1] *= 2;", Kind: "store", Shapes: shapeSet("list")},
	{Name: "walkRef", Stmt: "array_walk(%s, function(&$v, $k) { $v = $v . 'W'; });", Func: true, Kind: "func", Shapes: shapeSet("list", "strlist", "mixlist")},
	{Name: "usortf", Stmt: "usort(%s, function($x, $y) { return 0; });", Func: true, Kind: "func", Shapes: shapeSet("keyed", "strkeyed")},
}

func (m xMut) on(name string) string { return fmt.Sprintf(m.Stmt, name) }

func (m xMut) applies(s xShape) bool {
	if m.Shapes != nil {
		return m.Shapes[s.Name]
	}
	if s.Payload {
		return false
	}
	if s.KV {
		return m.KV
	}
	if !m.AV {
		return false
	}
	if s.Name == "nest" && (m.Name == "sort" || m.Name == "sortf" || m.Name == "plusEq") {
		return false // ordering / arithmetic on array-valued elements is not what C06 is about
	}
	return true
}

func xMutByName(n string) (xMut, bool) {
	for _, m := range xMuts {
		if m.Name == n {
			return m, true
		}
	}
	return xMut{}, false
}

// ------------------------------------------------------------ scopes

// where the whole case (setup, read, statement, read) is executed
var xScopes = []string{"top", "func", "method"}

// ------------------------------------------------------------ owners and producers

// a producer is an expression that evaluates to the array its owner holds
type xProd struct {
	Name   string
	Expr   string
	LValue bool // the expression is itself a name (a write through it is a write to the owner)
	ListOnly bool // a built-in that keeps the elements but not string keys: list shapes only
	// the array carries ArrayValue.IndirectOverloadClass (result of ArrayAccess::offsetGet): the
	// interpreter drops writes into it while it is an element of another array, even after it was
	// copied there — a lost write, not an aliasing matter; the effect check is not applied to
	// element-rooted names for this producer (see notes/C06.md, "seen on the way")
	Overloaded bool
}

type xOwner struct {
	Name    string
	Decl    string // top-level declaration ({N} = case number, %s = the shape expression)
	Setup   string // %s = the shape expression
	Read    string // pure expression that reads the owner
	LitOnly bool   // needs a constant expression
	Scope   string // "" any | top | method
	Fresh   bool   // run in a fresh interpreter: `global $a` is resolved per interpreter, not per script
	Prods   []xProd
}

var xOwners = []xOwner{
	{Name: "prop", Setup: "$o = new XO; $o->p0 = %s;", Read: "$o->p0", Prods: []xProd{
		{Name: "propread", Expr: "$o->p0", LValue: true},
		{Name: "getter", Expr: "$o->get0()"},
		{Name: "chained", Expr: "$o->self()->get0()"},
		{Name: "identGetter", Expr: "ident($o->get0())"},
		{Name: "identProp", Expr: "ident($o->p0)"},
		{Name: "methIdentGetter", Expr: "(new XO)->idm($o->get0())"},
		{Name: "staticIdentGetter", Expr: "XO::sid($o->get0())"},
		{Name: "funcOfObject", Expr: "xgetp($o)"},
		{Name: "staticOfObject", Expr: "XO::of($o)"},
		{Name: "magicGet", Expr: "$o->virt"},
		{Name: "offsetGet", Expr: "$o['k']", Overloaded: true},
		{Name: "invokeGetter", Expr: "$o()"},
		{Name: "ternaryGetter", Expr: "(true ? $o->get0() : null)"},
		{Name: "coalesceGetter", Expr: "($o->get0() ?? null)"},
		{Name: "matchGetter", Expr: "match(1) { 1 => $o->get0(), default => null }"},
		{Name: "ternaryProp", Expr: "(true ? $o->p0 : null)"},
		{Name: "coalesceProp", Expr: "($o->p0 ?? null)"},
		{Name: "closureGetter", Expr: "(function() use ($o) { return $o->p0; })()"},
		{Name: "arrowGetter", Expr: "(fn() => $o->p0)()"},
	}},
	{Name: "var", Setup: "$a = %s;", Read: "$a", Prods: []xProd{
		{Name: "var", Expr: "$a", LValue: true},
		{Name: "ident", Expr: "ident($a)"},
		{Name: "ident2", Expr: "ident(ident($a))"},
		{Name: "ternaryVar", Expr: "(true ? $a : null)"},
		{Name: "coalesceVar", Expr: "($a ?? null)"},
		{Name: "matchVar", Expr: "match(1) { 1 => $a, default => null }"},
		{Name: "closureUse", Expr: "(function() use ($a) { return $a; })()"},
		{Name: "arrowVar", Expr: "(fn() => $a)()"},
		// built-in functions whose result has the elements of their argument (these do not keep
		// the string keys of an ArrayValue on this tree: list shapes only)
		{Name: "mergeVar", Expr: "array_merge($a)", ListOnly: true},
		{Name: "sliceVar", Expr: "array_slice($a, 0)", ListOnly: true},
		{Name: "filterVar", Expr: "array_filter($a)", ListOnly: true},
		{Name: "unionVar", Expr: "($a + [])", ListOnly: true},
	}},
	// (`global $a` binds the global of the script that declares the function: declared per case)
	{Name: "global", Scope: "top", Fresh: true, Decl: "function xglob{N}() { global $a; return $a; }%.0s", Setup: "$a = %s;", Read: "$a", Prods: []xProd{
		{Name: "globalGetter", Expr: "xglob{N}()"},
		{Name: "identGlobalGetter", Expr: "ident(xglob{N}())"},
	}},
	{Name: "staticLocal", Setup: "xstat(%s);", Read: "xstat()", Prods: []xProd{
		{Name: "staticLocal", Expr: "xstat()"},
		{Name: "identStaticLocal", Expr: "ident(xstat())"},
	}},
	{Name: "staticProp", Setup: "XO::$sp = %s;", Read: "XO::$sp", Prods: []xProd{
		{Name: "staticPropRead", Expr: "XO::$sp", LValue: true},
		{Name: "staticGetter", Expr: "XO::sget()"},
		{Name: "selfStaticGetter", Expr: "XO::sget2()"},
	}},
	{Name: "elem", Setup: "$c = [0, 0]; $c[1] = %s;", Read: "$c[1]", Prods: []xProd{
		{Name: "elemread", Expr: "$c[1]", LValue: true},
		{Name: "elemOfCopy", Expr: "xat1($c)"},
		{Name: "elemOfCall", Expr: "ident($c)[1]"},
		{Name: "identElem", Expr: "ident($c[1])"},
		{Name: "endElem", Expr: "end($c)"},
	}},
	{Name: "const", Scope: "top", Decl: "const XC{N} = %s;", Read: "XC{N}", LitOnly: true, Prods: []xProd{
		{Name: "const", Expr: "XC{N}"},
		{Name: "identConst", Expr: "ident(XC{N})"},
	}},
	{Name: "classConst", Decl: "class XCC{N} { const CC = %s; static function cget() { return self::CC; } }", Read: "XCC{N}::CC", LitOnly: true, Prods: []xProd{
		{Name: "classConst", Expr: "XCC{N}::CC"},
		{Name: "classConstGetter", Expr: "XCC{N}::cget()"},
	}},
	{Name: "defaultParam", Decl: "function xdef{N}($x = %s) { return $x; }", Read: "xdef{N}()", LitOnly: true, Prods: []xProd{
		{Name: "defaultParam", Expr: "xdef{N}()"},
	}},
	{Name: "thisProp", Scope: "method", Setup: "$this->p0 = %s;", Read: "$this->p0", Prods: []xProd{
		{Name: "thisPropRead", Expr: "$this->p0", LValue: true},
		{Name: "thisGetter", Expr: "$this->get0()"},
		{Name: "thisChained", Expr: "$this->self()->get0()"},
		{Name: "identThisProp", Expr: "ident($this->p0)"},
	}},
	// (a static property of the class the method belongs to; the per-case class declares $ss / ssget())
	{Name: "selfStaticProp", Scope: "method", Setup: "self::$ss = %s;", Read: "self::$ss", Prods: []xProd{
		{Name: "selfStaticRead", Expr: "self::$ss", LValue: true},
		{Name: "lateStaticRead", Expr: "static::$ss", LValue: true},
		{Name: "selfStaticCall", Expr: "self::ssget()"},
		{Name: "lateStaticCall", Expr: "static::ssget()"},
	}},
}

// ------------------------------------------------------------ sinks

// a sink hands the expression to a by-value boundary; the mutation happens behind it
type xSink struct {
	Name     string
	Make     func(e string, m xMut) string
	ListOnly bool   // spread
	NonLV    bool   // only for producers that are not names (a write through a name is a write to the owner)
	ErrOK    bool   // the interpreter may reject the program (PHP does); only a changed owner is a violation
	NoFunc   bool   // the written name is not a plain variable / property: by-reference array_* functions are left out
	OnlyProd string // only for this producer
	OneMut   string // the sink has its own write; enumerate it under this mutation name only
	Scope    string // "" any | method
	Temp     bool   // the write is applied to the expression itself
	NoLog    bool   // there is no name behind the boundary whose value could be reported
	ElemTarget bool // the written name is an element of another array
}

// argument styles of a call: how the expression is written in the argument list,
// which callee signature receives it, and which name the callee writes
type xStyle struct {
	Name     string
	Callee   string // callee family (pos | named | variadic | spread)
	Args     string // %s = the expression
	ListOnly bool
	NoFunc   bool
}

var xStyles = []xStyle{
	{Name: "", Callee: "pos", Args: "%s"},
	{Name: "Named", Callee: "named", Args: "p: %s"},
	{Name: "Second", Callee: "named", Args: "0, %s"},
	{Name: "Variadic", Callee: "variadic", Args: "%s", NoFunc: true},
	{Name: "Spread", Callee: "spread", Args: "...%s", ListOnly: true},
	{Name: "SpreadItem", Callee: "pos", Args: "...[%s]"},
}

type xCallee struct{ Name, Params, Target string }

var xCallees = []xCallee{
	{"pos", "$p", "$p"},
	{"named", "$z = 0, $p = null", "$p"},
	{"variadic", "...$p", "$p[0]"},
	{"spread", "...$p", "$p"},
}

func xCalleeByName(n string) xCallee {
	for _, c := range xCallees {
		if c.Name == n {
			return c
		}
	}
	return xCallees[0]
}

// call forms that exist for every argument style; %[1]s = callee family, %[2]s = mutation, %[3]s = argument list
var xForms = []struct{ Name, Call, Scope string }{
	{"func", "xf_%[1]s_%[2]s(%[3]s);", ""},
	{"method", "$xs = new XS; $xs->m_%[1]s_%[2]s(%[3]s);", ""},
	{"staticMethod", "XS::s_%[1]s_%[2]s(%[3]s);", ""},
	{"ctor", "new XK_%[1]s_%[2]s(%[3]s);", ""},
	{"thisCall", "$this->m_%[1]s_%[2]s(%[3]s);", "method"},
	{"selfCall", "self::s_%[1]s_%[2]s(%[3]s);", "method"},
	{"lateStaticCall", "static::s_%[1]s_%[2]s(%[3]s);", "method"},
	{"parentCall", "parent::m_%[1]s_%[2]s(%[3]s);", "method"},
}

func one(pre string) func(e string, m xMut) string {
	return func(e string, m xMut) string { return fmt.Sprintf(pre, m.Name, e) }
}

func store(pre, name string) func(e string, m xMut) string {
	return func(e string, m xMut) string { return fmt.Sprintf(pre, e) + " " + m.on(name) + " xlog(" + name + ");" }
}

var xSinks = buildSinks()

func buildSinks() []xSink {
	var ss []xSink
	// --- call boundaries: the callee writes to its parameter
	for _, f := range xForms {
		for _, st := range xStyles {
			f, st := f, st
			ss = append(ss, xSink{Name: f.Name + st.Name, ListOnly: st.ListOnly, NoFunc: st.NoFunc, Scope: f.Scope, ElemTarget: st.Callee == "variadic",
				Make: func(e string, m xMut) string {
					return fmt.Sprintf(f.Call, st.Callee, m.Name, fmt.Sprintf(st.Args, e))
				}})
		}
	}
	for _, st := range xStyles {
		st := st
		cl := xCalleeByName(st.Callee)
		ss = append(ss, xSink{Name: "closure" + st.Name, ListOnly: st.ListOnly, NoFunc: st.NoFunc, ElemTarget: st.Callee == "variadic",
			Make: func(e string, m xMut) string {
				return fmt.Sprintf("(function(%s) { %s xlog(%s); return 0; })(%s);", cl.Params, m.on(cl.Target), cl.Target, fmt.Sprintf(st.Args, e))
			}})
		ss = append(ss, xSink{Name: "closureVar" + st.Name, ListOnly: st.ListOnly, NoFunc: st.NoFunc, ElemTarget: st.Callee == "variadic",
			Make: func(e string, m xMut) string {
				return fmt.Sprintf("$cl = function(%s) { %s xlog(%s); return 0; }; $cl(%s);", cl.Params, m.on(cl.Target), cl.Target, fmt.Sprintf(st.Args, e))
			}})
	}
	ss = append(ss, []xSink{
		{Name: "typedFunc", Make: one("xt_%s(%s);")},
		{Name: "passThrough", Make: one("xf2_%s(%s);")},
		{Name: "methodOfNew", Make: one("(new XS)->m_pos_%s(%s);")},
		{Name: "thisMethod", Make: one("(new XS)->this_%s(%s);")},
		{Name: "selfMethod", Make: one("(new XS)->self_%s(%s);")},
		{Name: "staticKeyword", Make: one("(new XS)->late_%s(%s);")},
		{Name: "parentMethod", Make: one("(new XP)->m_pos_%s(%s);")},
		// (`__call` receives its arguments re-packed without string keys — CloneArrayValueForCallArgs
		//  drops ZVal.Name —, a value change in transit that is not an aliasing matter: list shapes only)
		{Name: "magicCall", ListOnly: true, Make: one("(new XI_%s)->nosuch(%s);")},
		{Name: "invoke", Make: one("$xi = new XI_%s; $xi(%s);")},
		{Name: "ctorAssigned", Make: one("$k = new XK_pos_%s(%s);")},
		{Name: "promotedCtor", Make: store("$k = new XKP(%s);", "$k->items")},
		{Name: "arrowFn", Make: one("(fn($q) => xf_pos_%s($q))(%s);")},
		{Name: "arrayMapCallback", Make: func(e string, m xMut) string {
			return fmt.Sprintf("array_map(function($p) { %s xlog($p); return 0; }, [%s]);", m.on("$p"), e)
		}},
		{Name: "generatorParam", Make: one("foreach (xg_%s(%s) as $y) { }")},
		{Name: "yielded", Make: func(e string, m xMut) string {
			return fmt.Sprintf("foreach (xyield(%s) as $y) { %s xlog($y); }", e, m.on("$y"))
		}},
		{Name: "staticLocalStore", Make: one("xsl_%s(%s);")},
		// --- store boundaries
		{Name: "assign", Make: store("$b = %s;", "$b")},
		{Name: "propStore", Make: store("$o2 = new XO; $o2->p1 = %s;", "$o2->p1")},
		{Name: "setter", Make: store("$o2 = new XO; $o2->set1(%s);", "$o2->p1")},
		{Name: "staticPropStore", Make: store("XO::$sq = %s;", "XO::$sq")},
		{Name: "thisPropStore", Scope: "method", Make: store("$this->p1 = %s;", "$this->p1")},
		// (`array_push(self::$p, …)`: a by-reference argument written as self::$p ends the method
		//  silently on this tree — not an array matter; by-reference functions left out)
		{Name: "selfStaticStore", Scope: "method", NoFunc: true, Make: store("self::$st = %s;", "self::$st")},
		{Name: "lateStaticStore", Scope: "method", Make: store("static::$st = %s;", "static::$st")},
		{Name: "elemStore", NoFunc: true, ElemTarget: true, Make: store("$c2 = [0, 0]; $c2[1] = %s;", "$c2[1]")},
		{Name: "elemAppend", NoFunc: true, ElemTarget: true, Make: store("$c2 = [0]; $c2[] = %s;", "$c2[1]")},
		{Name: "elemKeyStore", NoFunc: true, ElemTarget: true, Make: store("$c2 = [0]; $c2['k'] = %s;", "$c2['k']")},
		{Name: "propElemStore", NoFunc: true, ElemTarget: true, Make: store("$o2 = new XO; $o2->p1 = [0, 0]; $o2->p1[1] = %s;", "$o2->p1[1]")},
		{Name: "pushStore", NoFunc: true, ElemTarget: true, Make: store("$c2 = [0]; $c2->push(%s);", "$c2[1]")},
		{Name: "arrayPushStore", NoFunc: true, ElemTarget: true, Make: store("$c2 = [0]; array_push($c2, %s);", "$c2[1]")},
		{Name: "literalItem", NoFunc: true, ElemTarget: true, Make: store("$c2 = [0, %s];", "$c2[1]")},
		{Name: "keyedLiteralItem", NoFunc: true, ElemTarget: true, Make: store("$c2 = ['k' => %s];", "$c2['k']")},
		{Name: "destructure", Make: store("[$b] = [%s];", "$b")},
		{Name: "closureCapture", OnlyProd: "var", Make: func(e string, m xMut) string {
			return fmt.Sprintf("$cl = function() use (%s) { %s xlog(%s); return 0; }; $cl();", e, m.on(e), e)
		}},
		// --- iteration, and writes applied to the expression itself (no name at all)
		{Name: "foreachValue", NoLog: true, OneMut: "storeIdx", Make: func(e string, m xMut) string {
			return fmt.Sprintf("foreach (%s as $fk => $fe) { $fe = 9; }", e)
		}},
		{Name: "foreachRef", NoLog: true, NonLV: true, ErrOK: true, OneMut: "storeIdx", Make: func(e string, m xMut) string {
			return fmt.Sprintf("foreach (%s as $fk => &$fe) { $fe = 9; }", e)
		}},
		{Name: "temp", NoLog: true, NonLV: true, ErrOK: true, NoFunc: true, Temp: true, Make: func(e string, m xMut) string { return m.on(e) }},
	}...)
	return ss
}

func xSinkByName(n string) (xSink, bool) {
	for _, s := range xSinks {
		if s.Name == n {
			return s, true
		}
	}
	return xSink{}, false
}

// ------------------------------------------------------------ prelude (loaded once per interpreter process)

// xPrelude defines the callees: one per (call form × callee family × mutation), so that a
// case is a three-line script.
func xPrelude() string {
	var sb strings.Builder
	var ms, ss, ps strings.Builder // methods of XS, static methods, overriding methods of XP
	for _, m := range xMuts {
		n := m.Name
		for _, cl := range xCallees {
			if cl.Name == "variadic" && m.Func {
				continue
			}
			body := m.on(cl.Target) + " xlog(" + cl.Target + ");"
			fmt.Fprintf(&sb, "function xf_%s_%s(%s) { %s return 0; }\n", cl.Name, n, cl.Params, body)
			fmt.Fprintf(&sb, "class XK_%s_%s { public $r = 0; function __construct(%s) { %s $this->r = 1; } }\n", cl.Name, n, cl.Params, body)
			fmt.Fprintf(&ms, "  function m_%s_%s(%s) { %s return 0; }\n", cl.Name, n, cl.Params, body)
			fmt.Fprintf(&ss, "  static function s_%s_%s(%s) { %s return 0; }\n", cl.Name, n, cl.Params, body)
		}
		fmt.Fprintf(&sb, "function xt_%s(array $p) { %s xlog($p); return $p; }\n", n, m.on("$p"))
		fmt.Fprintf(&sb, "function xf2_%s($q) { return xf_pos_%s($q); }\n", n, n)
		fmt.Fprintf(&sb, "function xg_%s($p) { %s xlog($p); yield $p; }\n", n, m.on("$p"))
		fmt.Fprintf(&sb, "function xsl_%s($x) { static $s = null; $s = $x; %s xlog($s); return $s; }\n", n, m.on("$s"))
		fmt.Fprintf(&sb, "class XI_%s { function __invoke($p) { %s xlog($p); return $p; } function __call($n, $a) { $p = $a[0]; %s xlog($p); return $p; } }\n", n, m.on("$p"), m.on("$p"))
		fmt.Fprintf(&ms, "  function this_%s($q) { return $this->m_pos_%s($q); }\n", n, n)
		fmt.Fprintf(&ms, "  function self_%s($q) { return self::s_pos_%s($q); }\n", n, n)
		fmt.Fprintf(&ms, "  function late_%s($q) { return static::s_pos_%s($q); }\n", n, n)
		fmt.Fprintf(&ps, "  function m_pos_%s($p) { return parent::m_pos_%s($p); }\n", n, n)
	}
	sb.WriteString("class XS {\n" + ms.String() + ss.String() + "}\n")
	sb.WriteString("class XP extends XS {\n" + ps.String() + "}\n")
	sb.WriteString(`class XO extends XS implements ArrayAccess { public $id = 0; public $p0 = null; public $p1 = null;
  public static $sp = null; public static $sq = null;
  function get0() { return $this->p0; } function set1($x) { $this->p1 = $x; }
  function self() { return $this; } function idm($x) { return $x; }
  static function sid($x) { return $x; } static function of($x) { return $x->p0; }
  static function sget() { return XO::$sp; } static function sget2() { return self::$sp; }
  function __get($n) { return $this->p0; }
  function __invoke() { return $this->p0; }
  function offsetGet($k) { return $this->p0; } function offsetSet($k, $v) { }
  function offsetExists($k) { return true; } function offsetUnset($k) { }
}
function xgetp($x) { return $x->p0; }
function xglob() { global $a; return $a; }
function xstat($set = null) { static $s = null; if ($set !== null) { $s = $set; } return $s; }
function xat1($x) { return $x[1]; }
function xyield($x) { yield $x; }
function xlog($v = null) { static $l = "none"; if ($v !== null) { $l = show($v); } return $l; }
class XKP { function __construct(public $items) { } }
`)
	return sb.String()
}

// ------------------------------------------------------------ cases

func scopeOK(want, scope string) bool { return want == "" || want == scope }

// argument styles the interpreter does not implement for a call form — nothing to do with
// arrays: the callee does not receive the argument at all (a named argument of an instance
// method call stays unbound; `...` into a closure, a static method or a constructor is not
// unpacked). The effect check of runX (the name behind the boundary must hold the written
// value) found them; a sink listed here would be vacuous.
var xUnsupported = map[string]bool{
	"methodNamed": true, "thisCallNamed": true, "parentCallNamed": true, "lateStaticCallNamed": true,
	"closureSpread": true, "closureSpreadItem": true, "closureVarSpread": true, "closureVarSpreadItem": true,
	"staticMethodSpread": true, "staticMethodSpreadItem": true, "selfCallSpread": true, "selfCallSpreadItem": true,
	"lateStaticCallSpreadItem": true, "lateStaticCallVariadic": true, "ctorSpreadItem": true,
}

func xApplicable(scope string, s xShape, ow xOwner, p xProd, sk xSink, m xMut) bool {
	if !m.applies(s) || xUnsupported[sk.Name] {
		return false
	}
	if !scopeOK(ow.Scope, scope) || !scopeOK(sk.Scope, scope) {
		return false
	}
	if ow.LitOnly && !s.Lit || p.ListOnly && !s.List {
		return false
	}
	if sk.OneMut != "" && m.Name != sk.OneMut {
		return false
	}
	if sk.ListOnly && !s.List {
		return false
	}
	if sk.NonLV && p.LValue {
		return false
	}
	if sk.NoFunc && m.Func {
		return false
	}
	if sk.OnlyProd != "" && sk.OnlyProd != p.Name {
		return false
	}
	return true
}

var xCounter int

func xCase(scope string, s xShape, ow xOwner, p xProd, sk xSink, m xMut) *Case {
	if !xApplicable(scope, s, ow, p, sk, m) {
		return nil
	}
	xCounter++
	num := fmt.Sprint(xCounter)
	sub := func(t string) string { return strings.ReplaceAll(t, "{N}", num) }
	var decl, body strings.Builder
	if ow.Decl != "" {
		decl.WriteString(fmt.Sprintf(sub(ow.Decl), s.Expr) + "\n")
	}
	if s.Pre != "" {
		body.WriteString(s.Pre + "\n")
	}
	if ow.Setup != "" {
		body.WriteString(fmt.Sprintf(ow.Setup, s.Expr) + "\n")
	}
	read := sub(ow.Read)
	stmt := sk.Make(sub(p.Expr), m)
	if sk.ErrOK {
		// a program PHP rejects may be rejected here too; the owner is read afterwards all the same
		stmt = "try { " + stmt + " } catch (\\Throwable $ex) { }"
	}
	fmt.Fprintf(&body, "xlog(\"reset\");\necho show(%s), \"\\n\";\n%s\necho show(%s), \"\\n\";\n", read, stmt, read)
	// what the name behind the boundary held after the write, and what the same write does to a
	// plain variable holding the same value (the boundary must have delivered a copy of the value)
	fmt.Fprintf(&body, "echo xlog(), \"\\n\";\n$xref = %s; %s\necho show($xref), \"\\n\";\n", s.Expr, m.on("$xref"))
	src := "<?php\n" + decl.String()
	switch scope {
	case "func":
		src += "function xscope" + num + "() {\n" + body.String() + "}\nxscope" + num + "();\n"
	case "method":
		src += "class XScope" + num + " extends XO { public static $ss = null; public static $st = null; static function ssget() { return self::$ss; } function run() {\n" + body.String() + "} }\n(new XScope" + num + ")->run();\n"
	default:
		src += body.String()
	}
	return &Case{Kind: "x", Src: src, Shape: s.Name, Route: p.Name, Side: sk.Name, Mut: m.Name, Scope: scope, Fresh: ow.Fresh,
		NoEffect: p.Overloaded && sk.ElemTarget}
}

// signature of a composite-route failure. A write applied to the expression itself
// (sink `temp`) is one mechanism per kind of expression: whatever the write is (element
// store, unset, in-place method), it acts on the array the expression evaluated to.
func xSig(kind string, cs *Case) string {
	if sk, ok := xSinkByName(cs.Side); ok && sk.Temp && kind == "xleak" {
		return "xtemp:" + cs.Route
	}
	return kind + ":" + cs.Route + ":" + cs.Side + ":" + cs.Mut
}

// runX: the owner must print the same before and after the statement.
func (r *runner) runX(cs *Case) {
	c := r.c
	r.fresh = cs.Fresh
	o := r.runScript(cs.Src)
	r.fresh = false
	if len(c.ReplayRaw) > 0 {
		c.Note("script:\n%s\noutcome: %s", cs.Src, o.String())
	}
	c.Eval("x|"+cs.Scope+"|"+cs.Shape+"|"+cs.Route+"|"+cs.Side+"|"+cs.Mut, true)
	c.Hit("x:producer:" + cs.Route)
	c.Hit("x:sink:" + cs.Side)
	c.Hit("x:mut:" + cs.Mut)
	c.Hit("x:shape:" + cs.Shape)
	c.Hit("x:scope:" + cs.Scope)
	lines := strings.Split(strings.TrimRight(o.Out, "\n"), "\n")
	sk, _ := xSinkByName(cs.Side)
	if o.Kind != "ok" || len(lines) != 4 {
		if o.Kind == "crash" || o.Kind == "hang" || !sk.ErrOK {
			sig := xSig("xrun", cs)
			r.seen(sig, cs)
			if _, dup := r.sigs[sig+"#"]; !dup && len(r.sigs) < 40000 {
				r.sigs[sig+"#"] = o.String()
			}
			c.Violation(sig, "composite route: program did not run to completion: "+o.String(), cs)
			return
		}
		c.Hit("x:rejected") // PHP rejects these programs as well; nothing ran behind the boundary
		return
	}
	if lines[0] != lines[1] {
		sig := xSig("xleak", cs)
		r.seen(sig, cs)
		what := fmt.Sprintf("composite route %s -> %s (%s scope): the write behind the by-value boundary changed the owner: %s -> %s", cs.Route, cs.Side, cs.Scope, lines[0], lines[1])
		if sk.Temp {
			stmt := ""
			for _, l := range strings.Split(cs.Src, "\n") {
				if strings.HasPrefix(l, "try { ") {
					stmt = strings.TrimSuffix(strings.TrimPrefix(l, "try { "), " } catch (\\Throwable $ex) { }")
				}
			}
			what = fmt.Sprintf("a write applied to an expression that is not a name, `%s`, changed the array the expression was read from: %s -> %s", stmt, lines[0], lines[1])
		}
		c.Violation(sig, what, cs)
		return
	}
	// the boundary delivered the value and the write acted on it exactly as on a plain variable
	if !sk.NoLog && !cs.NoEffect && lines[2] != lines[3] {
		sig := xSig("xeffect", cs)
		r.seen(sig, cs)
		if _, dup := r.sigs[sig+"#"]; !dup && len(r.sigs) < 40000 {
			r.sigs[sig+"#"] = o.String()
		}
		c.Violation(sig, fmt.Sprintf("composite route %s -> %s (%s scope): behind the boundary the written name holds %s, the same write on a plain variable gives %s", cs.Route, cs.Side, cs.Scope, lines[2], lines[3]), cs)
	}
}

// xEnumerate runs the product. full = every combination; otherwise, at top level, every
// (producer × sink) pair under a covering set of mutations plus every (mutation × shape)
// for representative producers and sinks, and in function / method scope every pair
// under one mutation.
func (r *runner) xEnumerate(full bool) int {
	n := 0
	quickMuts := map[string]bool{"append": true, "storeIdx": true, "pop": true, "array_push": true}
	repProd := map[string]bool{"getter": true, "staticLocal": true}
	repSink := map[string]bool{"func": true, "ctor": true, "temp": true}
	scopeMuts := map[string]bool{"catIdx": true, "append": true, "storeIdx": true, "storeKey": true, "unset": true, "pop": true, "sort": true, "array_push": true}
	for _, scope := range xScopes {
		for _, s := range xShapes {
			for _, ow := range xOwners {
				for _, p := range ow.Prods {
					for _, sk := range xSinks {
						for _, m := range xMuts {
							if full {
								// every combination at top level; inside a function / method body every
								// (shape × producer × sink) under one mutation of each kind
								if scope != "top" && (!scopeMuts[m.Name] || (s.Payload && s.Name != "strlist")) {
									continue
								}
							} else {
								pair := (s.Name == "list" && quickMuts[m.Name]) || (s.Name == "kv" && m.Name == "storeKey") ||
									(s.Name == "strlist" && m.Name == "catIdx")
								if scope != "top" || ow.Fresh {
									// (a fresh interpreter per case is slow: one mutation)
									if !(s.Name == "list" && m.Name == "append") {
										continue
									}
								} else if !pair && !repProd[p.Name] && !repSink[sk.Name] {
									continue
								}
							}
							cs := xCase(scope, s, ow, p, sk, m)
							if cs == nil {
								continue
							}
							n++
							r.runX(cs)
						}
					}
				}
			}
			if r.crashes >= 40 {
				return n
			}
		}
	}
	return n
}

func xByNames(scope, shape, prod, sink, mut string) *Case {
	if scope == "" {
		scope = "top"
	}
	for _, s := range xShapes {
		for _, ow := range xOwners {
			for _, p := range ow.Prods {
				for _, sk := range xSinks {
					for _, m := range xMuts {
						if s.Name == shape && p.Name == prod && sk.Name == sink && m.Name == mut {
							return xCase(scope, s, ow, p, sk, m)
						}
					}
				}
			}
		}
	}
	return nil
}
