package c06

import (
	"fmt"
	"strings"

	"verif/harness/vh"
)

// Scalar payloads (script-level stream, judged by the before/after oracle only).
//
// A copy of an array shares with its source the *ZVal cells of scalar elements and the
// scalar value objects in them (*StringValue, *IntValue, *FloatValue, *BoolValue): the
// design relies on (1) scalar value objects being immutable and (2) every store
// REPLACING the cell. A write that mutates either of them in place — `ls.Value += rs.Value`
// on the element's *StringValue, `list[i].Value = v` on the shared cell — shows through
// every copy, in both directions, on every copy route, and only for the element kinds and
// the mutation form that take that code path. The catalogue of gen.go holds int elements
// and writes them with plain stores, so such a path is invisible to it.
//
// This stream enumerates the product
//     element kind (string, numeric string, float, bool, null, int, two mixes)
//   × container shape (list, string-keyed ArrayValue, mixed keys, keyed literal = ObjectValue,
//     and the nested combinations of them, to depth 3)
//   × copy route (every single-edge route: assignment, the by-value call boundaries, return,
//     property / static property / element stores and reads, clone, foreach, destructuring,
//     closures, generators, built-ins that hand back their argument's elements, and the
//     routes where ONE literal is the common source: constants, default values, property
//     defaults, a function evaluated twice; and the element payload shared with a plain
//     scalar variable)
//   × mutation form (every compound assignment, ++/--, string offset writes, string and
//     array methods, the sort family, array_walk / foreach / parameters / variables by
//     reference, destructuring into elements, unset, append, union-assign)
//   × written side
// and demands: every OTHER name prints the same before and after.
// (The composite routes — a call result handed straight to a by-value boundary — get the
// same payload shapes and compound mutations in composite.go.)

// ------------------------------------------------------------ element kinds

type pKind struct {
	Name string
	E    [3]string // three element expressions of the kind
}

var pKinds = []pKind{
	{"str", [3]string{"'abcdefghij'", "'klmnopqrst'", "'uvwxyz0123'"}},
	{"numstr", [3]string{"'12'", "'7'", "'305'"}},
	{"float", [3]string{"2.5", "0.25", "10.5"}},
	{"bool", [3]string{"true", "false", "true"}},
	{"null", [3]string{"null", "null", "null"}},
	{"int", [3]string{"3", "1", "2"}},
	{"mixed", [3]string{"'abcdefghij'", "7", "2.5"}},
	{"mixedb", [3]string{"true", "null", "'klmnopqrst'"}},
}

// ------------------------------------------------------------ container shapes

type pShape struct {
	Name string
	Pre  string // statements that build the value in $t ({0} {1} {2} = the elements)
	Expr string // the expression that yields the value
	T    string // path from the name to element {0}
	T1   string // path to element {1}
	P    string // path to the array that holds element {0}
	Lit  bool   // Expr is a constant expression
}

var pShapes = []pShape{
	{Name: "list", Expr: "[{0}, {1}, {2}]", T: "[0]", T1: "[1]", Lit: true},
	{Name: "keyed", Pre: "$t = []; $t['k0'] = {0}; $t['k1'] = {1}; $t['k2'] = {2};", Expr: "$t", T: "['k0']", T1: "['k1']"},
	{Name: "listk", Pre: "$t = [{0}, {1}]; $t['k2'] = {2};", Expr: "$t", T: "[0]", T1: "['k2']"},
	{Name: "kv", Expr: "['k0' => {0}, 'k1' => {1}, 'k2' => {2}]", T: "['k0']", T1: "['k1']", Lit: true},
	{Name: "nest", Expr: "[[{0}, {1}], [{2}]]", T: "[0][0]", T1: "[0][1]", P: "[0]", Lit: true},
	{Name: "nestk", Pre: "$t = [0]; $t['k0'] = [{0}, {1}]; $t['k1'] = {2};", Expr: "$t", T: "['k0'][0]", T1: "['k0'][1]", P: "['k0']"},
	{Name: "kvnest", Expr: "['k0' => ['k0' => {0}, 'k1' => {1}], 'k1' => {2}]", T: "['k0']['k0']", T1: "['k0']['k1']", P: "['k0']", Lit: true},
	{Name: "kvlist", Expr: "['k0' => [{0}, {1}], 'k1' => [{2}]]", T: "['k0'][0]", T1: "['k0'][1]", P: "['k0']", Lit: true},
	{Name: "listkv", Expr: "[['k0' => {0}, 'k1' => {1}], {2}]", T: "[0]['k0']", T1: "[0]['k1']", P: "[0]", Lit: true},
	{Name: "nest3", Expr: "[[[{0}, {1}]], {2}]", T: "[0][0][0]", T1: "[0][0][1]", P: "[0][0]", Lit: true},
}

func fill3(t string, e [3]string) string {
	return strings.NewReplacer("{0}", e[0], "{1}", e[1], "{2}", e[2]).Replace(t)
}

// ------------------------------------------------------------ mutation forms

// {N} = the name written through, {T} / {T1} = path to element 0 / 1, {P} = path to the
// array that holds them. Elem = the form addresses the element only (it is also
// applicable to a plain scalar variable: {T} = {P} = "").
type pMut struct {
	Name        string
	Stmt        string
	Elem        bool
	Funcs       []string // built-in functions the form needs (probed with function_exists)
	MayNotParse bool     // syntax the interpreter may not know: a script that does not run is "rejected"
	NoEffect    bool     // the form behaves differently on a variable and on a property / element for reasons that are not C06's
}

func compound(name, op, rhs string) pMut {
	return pMut{Name: name, Stmt: "{N}{T} " + op + " " + rhs + ";", Elem: true}
}

var pMuts = []pMut{
	// --- every compound assignment on the element
	compound("cat", ".=", "'XY'"),
	compound("add", "+=", "3"),
	compound("sub", "-=", "3"),
	compound("mul", "*=", "3"),
	compound("div", "/=", "2"),
	compound("mod", "%=", "2"),
	compound("pow", "**=", "2"),
	compound("coalesce", "??=", "5"),
	compound("bitor", "|=", "6"),
	compound("bitand", "&=", "6"),
	compound("bitxor", "^=", "6"),
	compound("shl", "<<=", "1"),
	compound("shr", ">>=", "1"),
	// the forms of `.=` (right-hand side an int, a variable, another element, the element itself; repeated)
	compound("catInt", ".=", "5"),
	{Name: "catVar", Stmt: "$sfx = 'VW'; {N}{T} .= $sfx;", Elem: true},
	{Name: "catExpr", Stmt: "{N}{T} .= 'X' . 'Y';", Elem: true},
	{Name: "catElem", Stmt: "{N}{T} .= {N}{T1};"},
	{Name: "catSelf", Stmt: "{N}{T} .= {N}{T};", Elem: true},
	{Name: "catTwice", Stmt: "{N}{T} .= 'X'; {N}{T} .= 'Y';", Elem: true},
	{Name: "catLoop", Stmt: "for ($i = 0; $i < 3; $i++) { {N}{T} .= 'L'; }", Elem: true},
	{Name: "catOther", Stmt: "{N}{T1} .= 'XY';"},
	{Name: "addFloat", Stmt: "{N}{T} += 1.5;", Elem: true},
	{Name: "coalesceNew", Stmt: "{N}{P}['zz'] ??= 5;"},
	{Name: "catNew", Stmt: "{N}{P}['zz'] .= 'XY';"},
	// --- increment / decrement
	{Name: "postInc", Stmt: "{N}{T}++;", Elem: true},
	{Name: "preInc", Stmt: "++{N}{T};", Elem: true},
	{Name: "postDec", Stmt: "{N}{T}--;", Elem: true},
	{Name: "preDec", Stmt: "--{N}{T};", Elem: true},
	{Name: "incExpr", Stmt: "$x = {N}{T}++;", Elem: true},
	// (the increment clause of a `for` is a node of its own: VarStmtIncr)
	{Name: "forIncr", Stmt: "for ($fi = 0; $fi < 2; {N}{T}++) { $fi++; }", Elem: true},
	{Name: "forDecr", Stmt: "for ($fi = 0; $fi < 2; {N}{T}--) { $fi++; }", Elem: true},
	{Name: "whileInc", Stmt: "$fi = 0; while ($fi < 2) { {N}{T}++; $fi++; }", Elem: true},
	// --- string offset writes
	{Name: "strOffset", Stmt: "{N}{T}[1] = 'Z';", Elem: true},
	{Name: "strOffsetCat", Stmt: "{N}{T}[0] .= 'Z';", Elem: true},
	// --- plain stores (baseline)
	{Name: "storeCat", Stmt: "{N}{T} = {N}{T} . 'Q';", Elem: true},
	{Name: "store", Stmt: "{N}{T} = 'new';", Elem: true},
	{Name: "storeSame", Stmt: "{N}{T} = {N}{T};", Elem: true},
	{Name: "swapStore", Stmt: "$x = {N}{T}; {N}{T} = {N}{T1}; {N}{T1} = $x;"},
	// --- methods callable on the element (strings) and on its array
	{Name: "strUpper", Stmt: "{N}{T}->toUpperCase();", Elem: true},
	{Name: "strReplace", Stmt: "{N}{T}->replace('a', 'b');", Elem: true},
	{Name: "strTrim", Stmt: "{N}{T}->trim();", Elem: true},
	{Name: "push", Stmt: "{N}{P}->push('E');"},
	{Name: "pop", Stmt: "{N}{P}->pop();"},
	{Name: "shift", Stmt: "{N}{P}->shift();"},
	{Name: "unshift", Stmt: "{N}{P}->unshift('E');"},
	{Name: "sortM", Stmt: "{N}{P}->sort();"},
	{Name: "reverseM", Stmt: "{N}{P}->reverse();"},
	{Name: "spliceM", Stmt: "{N}{P}->splice(0, 1);"},
	{Name: "mapM", Stmt: "{N}{P}->map(function($x) { return 'M'; });"},
	{Name: "forEachM", Stmt: "{N}{P}->forEach(function($x) { $x = 'M'; });"},
	{Name: "concatM", Stmt: "{N}{P}->concat(['E']);"},
	// --- built-ins that take the array by reference
	{Name: "sort", Stmt: "sort({N}{P});", Funcs: []string{"sort"}},
	{Name: "rsort", Stmt: "rsort({N}{P});", Funcs: []string{"rsort"}},
	{Name: "usort", Stmt: "usort({N}{P}, function($x, $y) { return strcmp('' . $x, '' . $y); });", Funcs: []string{"usort"}},
	{Name: "uasort", Stmt: "uasort({N}{P}, function($x, $y) { return strcmp('' . $y, '' . $x); });", Funcs: []string{"uasort"}},
	{Name: "uksort", Stmt: "uksort({N}{P}, function($x, $y) { return strcmp('' . $y, '' . $x); });", Funcs: []string{"uksort"}},
	{Name: "ksort", Stmt: "ksort({N}{P});", Funcs: []string{"ksort"}},
	{Name: "krsort", Stmt: "krsort({N}{P});", Funcs: []string{"krsort"}},
	{Name: "asort", Stmt: "asort({N}{P});", Funcs: []string{"asort"}},
	{Name: "arsort", Stmt: "arsort({N}{P});", Funcs: []string{"arsort"}},
	{Name: "natsort", Stmt: "natsort({N}{P});", Funcs: []string{"natsort"}},
	{Name: "shuffle", Stmt: "shuffle({N}{P});", Funcs: []string{"shuffle"}},
	{Name: "multisort", Stmt: "array_multisort({N}{P});", Funcs: []string{"array_multisort"}},
	{Name: "array_push", Stmt: "array_push({N}{P}, 'E');", Funcs: []string{"array_push"}},
	{Name: "array_pop", Stmt: "array_pop({N}{P});", Funcs: []string{"array_pop"}},
	{Name: "array_shift", Stmt: "array_shift({N}{P});", Funcs: []string{"array_shift"}},
	{Name: "array_unshift", Stmt: "array_unshift({N}{P}, 'E');", Funcs: []string{"array_unshift"}},
	{Name: "array_splice", Stmt: "array_splice({N}{P}, 0, 1, ['SP']);", Funcs: []string{"array_splice"}},
	{Name: "walkRefSet", Stmt: "array_walk({N}{P}, function(&$v, $k) { $v = $v . 'W'; });", Funcs: []string{"array_walk"}},
	{Name: "walkRefCat", Stmt: "array_walk({N}{P}, function(&$v, $k) { $v .= 'W'; });", Funcs: []string{"array_walk"}},
	{Name: "walkRefInc", Stmt: "array_walk({N}{P}, function(&$v, $k) { $v++; });", Funcs: []string{"array_walk"}},
	{Name: "walkValue", Stmt: "array_walk({N}{P}, function($v, $k) { return 'W'; });", Funcs: []string{"array_walk"}},
	{Name: "walkArg", Stmt: "array_walk({N}{P}, function(&$v, $k, $u) { $v = $u; }, 'U');", Funcs: []string{"array_walk"}},
	{Name: "walkRecursive", Stmt: "array_walk_recursive({N}{P}, function(&$v, $k) { $v = 'W'; });", Funcs: []string{"array_walk_recursive"}},
	{Name: "mapRef", Stmt: "array_map(function(&$v) { $v = 'M'; return 1; }, {N}{P});", Funcs: []string{"array_map"}},
	{Name: "filterRef", Stmt: "array_filter({N}{P}, function(&$v) { $v = 'M'; return true; });", Funcs: []string{"array_filter"}},
	{Name: "settype", Stmt: "settype({N}{T}, 'string');", Elem: true, Funcs: []string{"settype"}},
	{Name: "pregMatches", Stmt: "preg_match('/b(c)/', 'abc', {N}{T});", Elem: true, Funcs: []string{"preg_match"}},
	{Name: "replaceCount", Stmt: "str_replace('a', 'b', 'aa', {N}{T});", Elem: true, Funcs: []string{"str_replace"}},
	{Name: "pointer", Stmt: "end({N}{P}); reset({N}{P}); next({N}{P});", Funcs: []string{"end", "reset", "next"}},
	// --- iteration
	{Name: "foreachRefSet", Stmt: "foreach ({N}{P} as &$fv) { $fv = 'F'; }"},
	{Name: "foreachRefCat", Stmt: "foreach ({N}{P} as $fk => &$fv) { $fv .= 'F'; }"},
	{Name: "foreachRefInc", Stmt: "foreach ({N}{P} as &$fv) { $fv++; }"},
	{Name: "foreachStore", Stmt: "foreach ({N}{P} as $fk => $fv) { {N}{P}[$fk] = 'G'; }"},
	{Name: "foreachCat", Stmt: "foreach ({N}{P} as $fk => $fv) { {N}{P}[$fk] .= 'G'; }"},
	// --- explicit references to the element / its array
	{Name: "refSet", Stmt: "$r = &{N}{T}; $r = 'R';", Elem: true},
	{Name: "refCat", Stmt: "$r = &{N}{T}; $r .= 'R';", Elem: true},
	{Name: "refInc", Stmt: "$r = &{N}{T}; $r++;", Elem: true},
	{Name: "refAdd", Stmt: "$r = &{N}{T}; $r += 4;", Elem: true},
	// (`$r = &<property or element holding an array>` does not bind on this tree: the append is lost)
	{Name: "refArrAppend", Stmt: "$r = &{N}{P}; $r[] = 'R';", NoEffect: true},
	{Name: "refParamCat", Stmt: "pl_cat({N}{T});", Elem: true},
	{Name: "refParamSet", Stmt: "pl_set({N}{T});", Elem: true},
	{Name: "refParamInc", Stmt: "pl_inc({N}{T});", Elem: true},
	{Name: "refParamArr", Stmt: "pl_arr({N}{P});"},
	// --- destructuring into elements
	{Name: "destructure", Stmt: "[{N}{T}, {N}{T1}] = ['L0', 'L1'];"},
	{Name: "destructureKeyed", Stmt: "['x' => {N}{T}] = ['x' => 'KX'];", Elem: true},
	{Name: "listInto", Stmt: "list({N}{T}, {N}{T1}) = ['L0', 'L1'];", MayNotParse: true},
	{Name: "swap", Stmt: "[{N}{T}, {N}{T1}] = [{N}{T1}, {N}{T}];"},
	{Name: "foreachInto", Stmt: "foreach (['I'] as {N}{T}) { }", Elem: true, MayNotParse: true},
	// --- unset / append / union
	{Name: "unset", Stmt: "unset({N}{T});", Elem: true},
	{Name: "unsetBoth", Stmt: "unset({N}{T}, {N}{T1});"},
	{Name: "append", Stmt: "{N}{P}[] = 'E';"},
	{Name: "unionAssign", Stmt: "{N}{P} += ['zz' => 'U'];"},
	{Name: "storeNewKey", Stmt: "{N}{P}['zz'] = 'E';"},
}

// forms whose interesting path is taken by a numeric element (the quick tier runs them on int lists too)
var numericForm = map[string]bool{"add": true, "sub": true, "mul": true, "div": true, "mod": true, "pow": true, "coalesce": true,
	"bitor": true, "bitand": true, "bitxor": true, "shl": true, "shr": true, "addFloat": true, "cat": true, "catInt": true,
	"postInc": true, "preInc": true, "postDec": true, "preDec": true, "incExpr": true, "forIncr": true, "forDecr": true, "whileInc": true,
	"refInc": true, "refAdd": true, "refParamInc": true, "walkRefInc": true, "foreachRefInc": true, "sort": true, "usort": true, "sortM": true}

func (m pMut) on(name string, s pShape) string {
	return strings.NewReplacer("{N}", name, "{T1}", s.T1, "{T}", s.T, "{P}", s.P).Replace(m.Stmt)
}

func pMutByName(n string) (pMut, bool) {
	for _, m := range pMuts {
		if m.Name == n {
			return m, true
		}
	}
	return pMut{}, false
}

// ------------------------------------------------------------ copy routes

// {V} = the value expression, {F} = a per-case suffix, {MUT} = the mutation rendered on Callee.
type pRoute struct {
	Name  string
	Decl  string // declarations (functions, classes, constants)
	Setup string
	Orig  string   // the name that held the value first
	Copy  string   // the name the copy was bound to ("" when it lives inside a callee)
	Extra []string // further names that must not change either
	// how the original / the copy is printed when it is not a plain array name (an SPL object)
	OrigShow, CopyShow string
	// the copy lives behind a call boundary: the mutation is rendered on Callee inside Decl
	// ({MUT}) and Call is the statement
	Callee string
	Call   string
	OrigRO   bool     // the original cannot be written (a constant, a literal): side copy only
	LitOnly  bool     // needs a constant expression
	ListOnly bool     // spread: positional keys only
	FlatOnly bool     // the route builds a flat list itself: shape `list` only
	Fresh    bool     // `global` resolves per interpreter
	NoEffect bool     // the route may change keys / drop elements (a built-in): no effect check
	NoKV     bool     // an array method: not defined on a keyed literal (ObjectValue)
	Funcs    []string // built-ins the route needs
	// the payload of element {0} is (also) held by a plain scalar variable: the shape is built from
	// $s0 / $s1 / $s2; side orig = the mutation applied to $s0 itself (element forms only)
	ScalarVar bool
}

func listOnly(r pRoute) pRoute { r.ListOnly = true; return r }

func callRoute(name, decl, call, callee string) pRoute {
	return pRoute{Name: name, Decl: decl, Setup: "$a = {V};", Orig: "$a", Callee: callee, Call: call}
}

var pRoutes = []pRoute{
	{Name: "assign", Setup: "$a = {V}; $b = $a;", Orig: "$a", Copy: "$b"},
	{Name: "chain", Setup: "$a = {V}; $c = $a; $b = $c;", Orig: "$a", Copy: "$b", Extra: []string{"$c"}},
	{Name: "return", Setup: "$a = {V}; $b = ident($a);", Orig: "$a", Copy: "$b"},
	{Name: "getter", Setup: "$o = new XO; $o->p0 = {V}; $b = $o->get0();", Orig: "$o->p0", Copy: "$b"},
	{Name: "propread", Setup: "$o = new XO; $o->p0 = {V}; $b = $o->p0;", Orig: "$o->p0", Copy: "$b"},
	{Name: "propstore", Setup: "$o = new XO; $a = {V}; $o->p0 = $a;", Orig: "$a", Copy: "$o->p0"},
	{Name: "setter", Setup: "$o = new XO; $a = {V}; $o->set1($a);", Orig: "$a", Copy: "$o->p1"},
	{Name: "clone", Setup: "$o = new XO; $o->p0 = {V}; $o2 = clone $o;", Orig: "$o->p0", Copy: "$o2->p0"},
	{Name: "propToProp", Setup: "$o = new XO; $o->p0 = {V}; $o->p1 = $o->p0;", Orig: "$o->p0", Copy: "$o->p1"},
	{Name: "staticstore", Setup: "$a = {V}; XO::$sp = $a;", Orig: "$a", Copy: "XO::$sp"},
	{Name: "staticread", Setup: "XO::$sp = {V}; $b = XO::$sp;", Orig: "XO::$sp", Copy: "$b"},
	{Name: "staticlocal", Setup: "xstat({V}); $b = xstat();", Orig: "xstat()", Copy: "$b", OrigRO: true},
	{Name: "elemstore", Setup: "$c = [0, 0]; $a = {V}; $c[1] = $a;", Orig: "$a", Copy: "$c[1]"},
	{Name: "elemappend", Setup: "$c = [0]; $a = {V}; $c[] = $a;", Orig: "$a", Copy: "$c[1]"},
	{Name: "elemkey", Setup: "$c = [0]; $a = {V}; $c['k'] = $a;", Orig: "$a", Copy: "$c['k']"},
	{Name: "elemread", Setup: "$c = [0, 0]; $c[1] = {V}; $b = $c[1];", Orig: "$c[1]", Copy: "$b"},
	{Name: "litstore", Setup: "$a = {V}; $c = [0, $a];", Orig: "$a", Copy: "$c[1]"},
	{Name: "kvlitstore", Setup: "$a = {V}; $c = ['k' => $a];", Orig: "$a", Copy: "$c['k']"},
	{Name: "pushstore", NoKV: true, Setup: "$c = [0]; $a = {V}; $c->push($a);", Orig: "$a", Copy: "$c[1]"},
	{Name: "foreach", Setup: "$c = [0, 0]; $c[1] = {V}; foreach ($c as $fk0 => $fe0) { if ($fk0 === 1) { $b = $fe0; } }", Orig: "$c[1]", Copy: "$b"},
	{Name: "destructureCopy", Setup: "$a = {V}; [$b] = [$a];", Orig: "$a", Copy: "$b"},
	{Name: "ternary", Setup: "$a = {V}; $b = true ? $a : null;", Orig: "$a", Copy: "$b"},
	{Name: "coalesceCopy", Setup: "$a = {V}; $b = $a ?? null;", Orig: "$a", Copy: "$b"},
	{Name: "matchCopy", Setup: "$a = {V}; $b = match(1) { 1 => $a, default => null };", Orig: "$a", Copy: "$b"},
	{Name: "closureReturn", Setup: "$a = {V}; $b = (function() use ($a) { return $a; })();", Orig: "$a", Copy: "$b"},
	{Name: "arrowReturn", Setup: "$a = {V}; $b = (fn() => $a)();", Orig: "$a", Copy: "$b"},
	{Name: "funcGetArgs", Decl: "function plfga{F}() { return func_get_args()[0]; }", Setup: "$a = {V}; $b = plfga{F}($a);", Orig: "$a", Copy: "$b", Funcs: []string{"func_get_args"}},
	{Name: "yield", Setup: "$a = {V}; foreach (xyield($a) as $b) { }", Orig: "$a", Copy: "$b"},
	{Name: "compact", Setup: "$a = {V}; $c = compact('a'); $b = $c['a'];", Orig: "$a", Copy: "$b", Funcs: []string{"compact"}},
	// --- by-value call boundaries: the write happens inside the callee
	callRoute("param", "function plc{F}($p) { {MUT} plog(pshow($p)); return 0; }", "plc{F}($a);", "$p"),
	callRoute("paramTyped", "function plc{F}(array $p) { {MUT} plog(pshow($p)); return 0; }", "plc{F}($a);", "$p"),
	callRoute("paramNamed", "function plc{F}($z = 0, $p = null) { {MUT} plog(pshow($p)); return 0; }", "plc{F}(p: $a);", "$p"),
	callRoute("paramVariadic", "function plc{F}(...$p) { {MUT} plog(pshow($p[0])); return 0; }", "plc{F}($a);", "$p[0]"),
	callRoute("paramSpreadItem", "function plc{F}($p) { {MUT} plog(pshow($p)); return 0; }", "plc{F}(...[$a]);", "$p"),
	callRoute("paramMethod", "class PLC{F} { function m($p) { {MUT} plog(pshow($p)); return 0; } }", "(new PLC{F})->m($a);", "$p"),
	callRoute("paramStatic", "class PLC{F} { static function m($p) { {MUT} plog(pshow($p)); return 0; } }", "PLC{F}::m($a);", "$p"),
	callRoute("paramCtor", "class PLC{F} { function __construct($p) { {MUT} plog(pshow($p)); } }", "new PLC{F}($a);", "$p"),
	callRoute("paramPromoted", "class PLC{F} { function __construct(public $items) { } function m() { {MUT} plog(pshow($this->items)); return 0; } }", "(new PLC{F}($a))->m();", "$this->items"),
	callRoute("paramClosure", "", "(function($p) { {MUT} plog(pshow($p)); return 0; })($a);", "$p"),
	callRoute("paramInvoke", "class PLC{F} { function __invoke($p) { {MUT} plog(pshow($p)); return 0; } }", "$pli = new PLC{F}; $pli($a);", "$p"),
	// (`__call` receives its arguments re-packed without string keys: positional shapes only)
	listOnly(callRoute("paramMagicCall", "class PLC{F} { function __call($n, $args) { $p = $args[0]; {MUT} plog(pshow($p)); return 0; } }", "(new PLC{F})->nosuch($a);", "$p")),
	callRoute("closureUse", "", "$cl = function() use ($a) { {MUT} plog(pshow($a)); return 0; }; $cl();", "$a"),
	callRoute("generatorParam", "function plc{F}($p) { {MUT} plog(pshow($p)); yield 1; }", "foreach (plc{F}($a) as $y) { }", "$p"),
	callRoute("arrayMapCallback", "", "array_map(function($p) { {MUT} plog(pshow($p)); return 0; }, [$a]);", "$p"),
	callRoute("staticLocalStore", "function plc{F}($x) { static $s = null; $s = $x; {MUT} plog(pshow($s)); return 0; }", "plc{F}($a);", "$s"),
	{Name: "paramSpread", ListOnly: true, Decl: "function plc{F}(...$p) { {MUT} plog(pshow($p)); return 0; }", Setup: "$a = {V};", Orig: "$a", Callee: "$p", Call: "plc{F}(...$a);", NoEffect: true},
	{Name: "global", Fresh: true, Decl: "function plc{F}() { global $a; $p = $a; {MUT} plog(pshow($p)); return 0; }", Setup: "$a = {V};", Orig: "$a", Callee: "$p", Call: "plc{F}();"},
	// --- ONE literal is the common source of both values
	{Name: "const", LitOnly: true, OrigRO: true, Decl: "const PLK{F} = {V};", Setup: "$b = PLK{F};", Orig: "PLK{F}", Copy: "$b"},
	{Name: "classConst", LitOnly: true, OrigRO: true, Decl: "class PLK{F} { const CC = {V}; }", Setup: "$b = PLK{F}::CC;", Orig: "PLK{F}::CC", Copy: "$b"},
	{Name: "defaultParam", LitOnly: true, OrigRO: true, Decl: "function pld{F}($x = {V}) { return $x; }", Setup: "$b = pld{F}();", Orig: "pld{F}()", Copy: "$b"},
	{Name: "literalFn", LitOnly: true, OrigRO: true, Decl: "function plf{F}() { return {V}; }", Setup: "$b = plf{F}();", Orig: "plf{F}()", Copy: "$b"},
	{Name: "literalFnLocal", LitOnly: true, OrigRO: true, Decl: "function plf{F}() { $x = {V}; return $x; }", Setup: "$b = plf{F}();", Orig: "plf{F}()", Copy: "$b"},
	{Name: "literalTwice", LitOnly: true, Decl: "function plf{F}() { return {V}; }", Setup: "$a = plf{F}(); $b = plf{F}();", Orig: "$a", Copy: "$b", Extra: []string{"plf{F}()"}},
	{Name: "propDefault", LitOnly: true, Decl: "class PLD{F} { public $p = {V}; }", Setup: "$o1 = new PLD{F}; $o2 = new PLD{F};", Orig: "$o1->p", Copy: "$o2->p", Extra: []string{"(new PLD{F})->p"}},
	// (a by-reference built-in applied to `C::$sp` of a class declared in the script has no effect on this
	//  tree — not an array matter: no effect check)
	{Name: "staticDefault", NoEffect: true, LitOnly: true, Decl: "class PLD{F} { public static $sp = {V}; static function fresh() { return {V}; } }", Setup: "$b = PLD{F}::$sp;", Orig: "PLD{F}::$sp", Copy: "$b", Extra: []string{"PLD{F}::fresh()"}},
	{Name: "loopLiteral", LitOnly: true, OrigRO: true, Decl: "function plf{F}($i) { $r = null; for ($j = 0; $j <= $i; $j++) { $r = {V}; } return $r; }", Setup: "$b = plf{F}(0);", Orig: "plf{F}(1)", Copy: "$b"},
	// --- built-ins that hand back the elements of their argument
	{Name: "array_merge", Setup: "$a = {V}; $b = array_merge($a);", Orig: "$a", Copy: "$b", NoEffect: true, Funcs: []string{"array_merge"}},
	{Name: "array_merge2", Setup: "$a = {V}; $b = array_merge($a, []);", Orig: "$a", Copy: "$b", NoEffect: true, Funcs: []string{"array_merge"}},
	{Name: "array_slice", Setup: "$a = {V}; $b = array_slice($a, 0);", Orig: "$a", Copy: "$b", NoEffect: true, Funcs: []string{"array_slice"}},
	{Name: "array_values", Setup: "$a = {V}; $b = array_values($a);", Orig: "$a", Copy: "$b", NoEffect: true, Funcs: []string{"array_values"}},
	{Name: "array_filter", Setup: "$a = {V}; $b = array_filter($a, function($x) { return true; });", Orig: "$a", Copy: "$b", NoEffect: true, Funcs: []string{"array_filter"}},
	{Name: "array_map", Setup: "$a = {V}; $b = array_map(function($x) { return $x; }, $a);", Orig: "$a", Copy: "$b", NoEffect: true, Funcs: []string{"array_map"}},
	{Name: "array_reverse", Setup: "$a = {V}; $b = array_reverse(array_reverse($a));", Orig: "$a", Copy: "$b", NoEffect: true, Funcs: []string{"array_reverse"}},
	{Name: "array_replace", Setup: "$a = {V}; $b = array_replace($a, []);", Orig: "$a", Copy: "$b", NoEffect: true, Funcs: []string{"array_replace"}},
	{Name: "array_pad", Setup: "$a = {V}; $b = array_pad($a, 1, 0);", Orig: "$a", Copy: "$b", NoEffect: true, Funcs: []string{"array_pad"}},
	{Name: "array_combine", Setup: "$a = {V}; $b = array_combine(array_keys($a), array_values($a));", Orig: "$a", Copy: "$b", NoEffect: true, Funcs: []string{"array_combine", "array_keys", "array_values"}},
	{Name: "array_chunk", Setup: "$a = {V}; $c = array_chunk($a, 10); $b = $c[0];", Orig: "$a", Copy: "$b", NoEffect: true, Funcs: []string{"array_chunk"}},
	{Name: "array_unique", Setup: "$a = {V}; $b = array_unique($a);", Orig: "$a", Copy: "$b", NoEffect: true, Funcs: []string{"array_unique"}},
	{Name: "array_diff", Setup: "$a = {V}; $b = array_diff($a, []);", Orig: "$a", Copy: "$b", NoEffect: true, Funcs: []string{"array_diff"}},
	{Name: "union", Setup: "$a = {V}; $b = $a + [];", Orig: "$a", Copy: "$b", NoEffect: true},
	{Name: "spreadLiteral", ListOnly: true, Setup: "$a = {V}; $b = [...$a];", Orig: "$a", Copy: "$b", NoEffect: true},
	{Name: "arrayCast", Setup: "$a = {V}; $b = (array)$a;", Orig: "$a", Copy: "$b", NoEffect: true},
	{Name: "sliceM", NoKV: true, Setup: "$a = {V}; $b = $a->slice(0);", Orig: "$a", Copy: "$b", NoEffect: true},
	{Name: "concatMCopy", NoKV: true, Setup: "$a = {V}; $b = $a->concat([]);", Orig: "$a", Copy: "$b", NoEffect: true},
	{Name: "filterM", NoKV: true, Setup: "$a = {V}; $b = $a->filter(function($x) { return true; });", Orig: "$a", Copy: "$b", NoEffect: true},
	{Name: "iteratorToArray", Setup: "$a = {V}; $b = iterator_to_array(new ArrayIterator($a));", Orig: "$a", Copy: "$b", NoEffect: true, Funcs: []string{"iterator_to_array"}},
	{Name: "arrayObjectCopy", Setup: "$a = {V}; $ao = new ArrayObject($a); $b = $ao->getArrayCopy();", Orig: "$a", Copy: "$b", NoEffect: true},
	// --- objects that keep an array inside: the array handed in / out must stay independent of the object
	{Name: "arrayObject", NoEffect: true, Setup: "$a = {V}; $ao = new ArrayObject($a); $b = $ao->getArrayCopy();", Orig: "$a", Copy: "$ao", CopyShow: "$ao->getArrayCopy()", Extra: []string{"$b"}},
	{Name: "arrayIterator", NoEffect: true, Setup: "$a = {V}; $ao = new ArrayIterator($a); $b = $ao->getArrayCopy();", Orig: "$a", Copy: "$ao", CopyShow: "$ao->getArrayCopy()", Extra: []string{"$b"}},
	{Name: "splFixedArray", NoEffect: true, FlatOnly: true, Setup: "$f = new SplFixedArray(3); $f[0] = {0}; $f[1] = {1}; $f[2] = {2}; $b = $f->toArray();", Orig: "$f", OrigShow: "$f->toArray()", Copy: "$b"},
	// --- the payload of an element is held by a plain variable as well
	{Name: "scalarVar", ScalarVar: true, Setup: "$s0 = {0}; $s1 = {1}; $s2 = {2}; {PRE} $a = {V};", Orig: "$s0", Copy: "$a"},
	{Name: "scalarVarRead", ScalarVar: true, Setup: "$s0 = 0; $s1 = {1}; $s2 = {2}; $q = {0}; {PRE} $a = {V}; $s0 = $a{T};", Orig: "$s0", Copy: "$a"},
}

func pRouteByName(n string) (pRoute, bool) {
	for _, r := range pRoutes {
		if r.Name == n {
			return r, true
		}
	}
	return pRoute{}, false
}

// declarations of the stream, loaded with the prelude
const plPrelude = `function pshow($v) {
  if (is_array($v)) { $s = "["; foreach ($v as $k => $x) { $s = $s . $k . "=>" . pshow($x) . ","; } return $s . "]"; }
  if (is_null($v)) { return "null"; }
  if (is_bool($v)) { if ($v) { return "true"; } return "false"; }
  if (is_string($v)) { return "'" . $v . "'"; }
  if (is_float($v)) { return "f" . $v; }
  if (is_object($v)) { return "obj"; }
  return "i" . $v;
}
function plog($v = null) { static $l = "none"; if ($v !== null) { $l = $v; } return $l; }
function pl_cat(&$x) { $x .= 'P'; }
function pl_set(&$x) { $x = 'S'; }
function pl_inc(&$x) { $x++; }
function pl_arr(&$x) { $x[] = 'A'; }
`

func fullPrelude() string { return "<?php\n" + classPrelude + xPrelude() + plPrelude + rsPrelude + hPrelude + ePrelude }

// ------------------------------------------------------------ cases

var plCounter int

// built-ins the interpreter has (probed once per run): a form or route that needs a missing
// one is left out (and picked up by itself once the function exists)
func (r *runner) plProbe() map[string]bool {
	need := map[string]bool{}
	for _, m := range pMuts {
		for _, f := range m.Funcs {
			need[f] = true
		}
	}
	for _, rt := range pRoutes {
		for _, f := range rt.Funcs {
			need[f] = true
		}
	}
	for _, o := range eOps {
		for _, f := range o.Funcs {
			need[f] = true
		}
	}
	have := map[string]bool{}
	var sb strings.Builder
	sb.WriteString("<?php\n")
	var names []string
	for f := range need {
		names = append(names, f)
	}
	for _, f := range names {
		fmt.Fprintf(&sb, "if (function_exists('%s')) { echo '%s', \"\\n\"; }\n", f, f)
	}
	o := r.runScript(sb.String())
	for _, l := range strings.Split(o.Out, "\n") {
		if l = strings.TrimSpace(l); l != "" {
			have[l] = true
		}
	}
	var missing []string
	for _, f := range names {
		if !have[f] {
			missing = append(missing, f)
		}
	}
	if len(missing) > 0 {
		sortStrings(missing)
		r.c.Note("scalar payloads: built-ins the interpreter does not have (forms / routes using them left out): %s", strings.Join(missing, " "))
	}
	return have
}

func (r *runner) plProbeOnce() map[string]bool {
	if r.have == nil {
		r.have = r.plProbe()
	}
	return r.have
}

func sortStrings(s []string) {
	for i := 1; i < len(s); i++ {
		for j := i; j > 0 && s[j] < s[j-1]; j-- {
			s[j], s[j-1] = s[j-1], s[j]
		}
	}
}

func hasAll(have map[string]bool, fs []string) bool {
	for _, f := range fs {
		if have != nil && !have[f] {
			return false
		}
	}
	return true
}

func plApplicable(k pKind, s pShape, rt pRoute, m pMut, side string, have map[string]bool) bool {
	if !hasAll(have, m.Funcs) || !hasAll(have, rt.Funcs) {
		return false
	}
	if rt.LitOnly && !s.Lit {
		return false
	}
	if rt.NoKV && strings.HasPrefix(s.Name, "kv") {
		return false
	}
	if rt.FlatOnly && s.Name != "list" {
		return false
	}
	if rt.ListOnly && s.Name != "list" && s.Name != "nest" && s.Name != "nest3" {
		return false
	}
	if side == "orig" {
		if rt.OrigRO || rt.Callee != "" {
			return false
		}
		if rt.ScalarVar && !m.Elem {
			return false
		}
	}
	return true
}

func plCase(k pKind, s pShape, rt pRoute, m pMut, side string, have map[string]bool) *Case {
	if !plApplicable(k, s, rt, m, side, have) {
		return nil
	}
	plCounter++
	num := fmt.Sprint(plCounter)
	sub := func(t string) string { return strings.ReplaceAll(t, "{F}", num) }
	elems := k.E
	if rt.ScalarVar {
		elems = [3]string{"$s0", "$s1", "$s2"}
		if rt.Name == "scalarVarRead" {
			elems[0] = "$q"
		}
	}
	pre := fill3(s.Pre, elems)
	val := fill3(s.Expr, elems)
	wrap := func(stmt string) string { return "try { " + stmt + " } catch (\\Throwable $ex) { }" }

	var decl, body strings.Builder
	// the written name, the names that must not change, the statement
	written, others, stmt := "", []string{}, ""
	refShape := s // shape of the reference write on a plain variable
	switch {
	case rt.Callee != "":
		written = rt.Callee
		others = append(others, rt.Orig)
		stmt = sub(rt.Call)
	case side == "orig":
		written = sub(rt.Orig)
		if rt.CopyShow != "" {
			others = append(others, rt.CopyShow)
		} else {
			others = append(others, rt.Copy)
		}
		if rt.ScalarVar {
			refShape = pShape{Name: "scalar"}
		}
	default:
		written = sub(rt.Copy)
		if rt.OrigShow != "" {
			others = append(others, rt.OrigShow)
		} else {
			others = append(others, rt.Orig)
		}
	}
	for _, e := range rt.Extra {
		others = append(others, e)
	}
	mutStmt := wrap(m.on(written, refShape))
	if rt.Callee == "" {
		stmt = mutStmt
	}
	if rt.Decl != "" {
		d := strings.ReplaceAll(rt.Decl, "{MUT}", mutStmt)
		decl.WriteString(fill3(strings.ReplaceAll(sub(d), "{V}", val), k.E) + "\n")
	} else if rt.Callee != "" {
		stmt = strings.ReplaceAll(stmt, "{MUT}", mutStmt)
	}
	if pre != "" && !strings.Contains(rt.Setup, "{PRE}") {
		body.WriteString(pre + "\n")
	}
	setup := strings.NewReplacer("{V}", val, "{T}", s.T, "{PRE}", pre).Replace(sub(rt.Setup))
	body.WriteString(fill3(setup, k.E) + "\n")
	var shows []string
	for _, o := range others {
		shows = append(shows, "pshow("+sub(o)+")")
	}
	snap := func(tag string) string {
		return "echo \"\\n" + tag + " \", " + strings.Join(shows, ", ' ', ") + ", \"\\n\";\n"
	}
	body.WriteString("plog(\"reset\");\n" + snap("@1") + stmt + "\n" + snap("@2"))
	// what the written name holds afterwards, and what the same write does to a plain variable
	// holding the same value
	if rt.Callee != "" {
		body.WriteString("echo \"\\n@3 \", plog(), \"\\n\";\n")
	} else {
		body.WriteString("echo \"\\n@3 \", pshow(" + written + "), \"\\n\";\n")
	}
	if rt.ScalarVar && side == "orig" {
		body.WriteString("$xref = " + k.E[0] + ";\n")
	} else {
		if pre != "" {
			body.WriteString(fill3(s.Pre, k.E) + "\n")
		}
		body.WriteString("$xref = " + fill3(s.Expr, k.E) + ";\n")
	}
	body.WriteString(wrap(m.on("$xref", refShape)) + "\necho \"\\n@4 \", pshow($xref), \"\\n\";\n")
	src := "<?php\n" + decl.String() + body.String()
	return &Case{Kind: "pl", Src: src, Shape: k.Name + "/" + s.Name, Route: rt.Name, Mut: m.Name, Side: side, Fresh: rt.Fresh,
		NoEffect: rt.NoEffect || m.NoEffect}
}

// runPL: every other name must print the same before and after the statement.
func (r *runner) runPL(cs *Case) {
	c := r.c
	r.fresh = cs.Fresh
	o := r.runScript(cs.Src)
	r.fresh = false
	if len(c.ReplayRaw) > 0 {
		c.Note("script:\n%s\noutcome: %s", cs.Src, o.String())
	}
	c.Eval("pl|"+cs.Shape+"|"+cs.Route+"|"+cs.Mut+"|"+cs.Side, true)
	kind, shape := cs.Shape, ""
	if i := strings.IndexByte(cs.Shape, '/'); i > 0 {
		kind, shape = cs.Shape[:i], cs.Shape[i+1:]
	}
	c.Hit("pl:kind:" + kind)
	c.Hit("pl:shape:" + shape)
	c.Hit("pl:route:" + cs.Route)
	c.Hit("pl:mut:" + cs.Mut)
	c.Hit("pl:side:" + cs.Side)
	m, _ := pMutByName(cs.Mut)
	// the four tagged lines (anything else on stdout — a notice, output of the statement — is not read)
	var lines []string
	for _, l := range strings.Split(o.Out, "\n") {
		if want := fmt.Sprintf("@%d ", len(lines)+1); strings.HasPrefix(l, want) {
			lines = append(lines, l[len(want):])
		}
	}
	if o.Kind != "ok" || len(lines) != 4 {
		if m.MayNotParse && o.Kind != "crash" && o.Kind != "hang" && strings.TrimSpace(o.Out) == "" {
			c.Hit("pl:rejected") // syntax the interpreter does not know: nothing ran
			return
		}
		sig := "plrun:" + cs.Route + ":" + cs.Mut
		r.seen(sig, cs)
		c.Violation(sig, fmt.Sprintf("scalar payloads (%s elements, shape %s): program did not run to completion: %s", kind, shape, o.String()), cs)
		return
	}
	if lines[0] != lines[1] {
		sig := "plleak:" + cs.Route + ":" + cs.Mut
		r.seen(sig, cs)
		c.Violation(sig, fmt.Sprintf("copy route %s, %s elements, shape %s, written side %s: the statement changed a name it does not write through: %s -> %s",
			cs.Route, kind, shape, cs.Side, lines[0], lines[1]), cs)
		return
	}
	if lines[2] != lines[3] {
		c.Hit("pl:effect-differs")
		if !cs.NoEffect {
			sig := "pleffect:" + cs.Route + ":" + cs.Mut
			r.seen(sig, cs)
			if _, dup := r.sigs[sig+"#"]; !dup && len(r.sigs) < 40000 {
				r.sigs[sig+"#"] = o.String()
			}
			c.Violation(sig, fmt.Sprintf("copy route %s, %s elements, shape %s, side %s: the written name holds %s, the same write on a plain variable gives %s",
				cs.Route, kind, shape, cs.Side, lines[2], lines[3]), cs)
		}
	} else if lines[2] != "" {
		c.Hit("pl:effect-same")
	}
}

// plEnumerate runs the product.
// quick:    (i)   every (route × mutation × side) on a list of strings and on a list of ints,
//           (ii)  every (kind × shape × mutation) along plain assignment, written through the copy,
//           (iii) every (kind × shape × route × side) under `.=`,
//           (iv)  every (kind × mutation × side) where an element's payload is shared with a scalar variable,
//           (v)   a seeded sample of the rest.
// thorough: every (shape × route × mutation × side) for string and mixed elements; every
//           (kind × route × mutation × side) on lists; every (kind × shape × mutation × side) along
//           assignment, by-value parameter, clone and the twice-evaluated literal; a larger sample of the rest.
func (r *runner) plEnumerate(full bool, rnd *vh.Rand, sample int) int {
	have := r.plProbeOnce()
	n := 0
	// the effect check (the written name holds what the same statement gives on a plain variable) is the
	// harness validating its own routes; it is applied as a verdict on the core enumeration only — the part
	// that is the same in every run and on which it was established. Beyond it (seeded sample, the thorough
	// product) the same write may legitimately differ between a variable and a property / static / element
	// for reasons that have nothing to do with copies (a by-reference built-in on a keyed static property
	// does nothing, …): there it is counted (`pl:effect-differs`), not judged.
	run := func(k pKind, s pShape, rt pRoute, m pMut, side string, core bool) {
		if cs := plCase(k, s, rt, m, side, have); cs != nil {
			n++
			if !core {
				cs.NoEffect = true
			}
			r.runPL(cs)
		}
	}
	fullRoutes := map[string]bool{"assign": true, "param": true, "clone": true, "literalTwice": true}
	sides := []string{"copy", "orig"}
	for _, k := range pKinds {
		for _, s := range pShapes {
			for _, rt := range pRoutes {
				for _, m := range pMuts {
					for _, side := range sides {
						i := s.Name == "list" && (k.Name == "str" || (k.Name == "int" && numericForm[m.Name])) && (!rt.Fresh || m.Name == "cat" || m.Name == "add")
						ii := rt.Name == "assign" && side == "copy"
						iii := m.Name == "cat" && (!rt.Fresh || (k.Name == "str" && s.Name == "list"))
						iv := rt.ScalarVar && s.Name == "list"
						core := i || ii || iii || iv
						if !full {
							if !core {
								continue
							}
						} else if !core {
							if rt.Fresh {
								continue // a fresh interpreter per case is slow
							}
							if !(k.Name == "str" || k.Name == "mixed" || s.Name == "list" || fullRoutes[rt.Name]) {
								continue
							}
						}
						run(k, s, rt, m, side, core)
					}
				}
			}
			if r.crashes >= 40 {
				return n
			}
		}
	}
	for i := 0; i < sample; i++ {
		rt := vh.Pick(rnd, pRoutes)
		if rt.Fresh {
			continue
		}
		run(vh.Pick(rnd, pKinds), vh.Pick(rnd, pShapes), rt, vh.Pick(rnd, pMuts), vh.Pick(rnd, sides), false)
	}
	return n
}

func plByNames(kindShape, route, mut, side string) *Case {
	kn, sn := kindShape, ""
	if i := strings.IndexByte(kindShape, '/'); i > 0 {
		kn, sn = kindShape[:i], kindShape[i+1:]
	}
	rt, ok1 := pRouteByName(route)
	m, ok2 := pMutByName(mut)
	if !ok1 || !ok2 {
		return nil
	}
	for _, k := range pKinds {
		for _, s := range pShapes {
			if k.Name == kn && s.Name == sn {
				return plCase(k, s, rt, m, side, nil)
			}
		}
	}
	return nil
}
