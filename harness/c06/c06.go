package c06

import (
	"encoding/json"
	"fmt"
	"os"
	"path/filepath"
	"sort"
	"strings"

	"verif/harness/vh"
)

func init() { vh.Register("C06", Run) }

// the Lean negation witnesses (Proofs/Properties/C06.lean), replayed on the real code
func witnessFlat() *Case {
	// $v0 = [1,2,3]; $v1 = $v0; $v1[0] = 9;   — leaked before the flat fix
	return &Case{NV: 2, Shape: "list", Route: "assign", Mut: "storeIdx", Side: "copy", Ops: []Op{
		{K: "setVar", X: 0, R: RLit(LArr(LInt(1), LInt(2), LInt(3)))},
		{K: "setVar", X: 1, R: RRd(V(0))},
		setI(V(1), KI(0), RInt(9)),
	}}
}

func witnessNested() *Case {
	// $v0 = [[1,2],[3]]; $v1 = $v0; $v1[0][0] = 9;   — leaked before the deep copy (C06-6): C06_shallow_nested_counterexample
	return &Case{NV: 2, Shape: "nest2", Route: "assign", Mut: "nestedStoreIdx", Side: "copy", Ops: []Op{
		{K: "setVar", X: 0, R: RLit(LArr(LArr(LInt(1), LInt(2)), LArr(LInt(3))))},
		{K: "setVar", X: 1, R: RRd(V(0))},
		setI(Ix(V(1), KI(0)), KI(0), RInt(9)),
	}}
}

func witnessCallResult() *Case {
	// $v0 = new O; $v0->p0 = [1,2,3]; $v1 = call0($v0->get0());  with call0($p) { $p[] = 9; return $p; }
	// — C06_call_result_copy_needed: fine on this tree, leaks when the copy at the binding is elided
	return &Case{NV: 2, Shape: "list", Route: "getter>func", Mut: "append", Side: "copy", Ops: []Op{
		{K: "new", X: 0},
		{K: "setProp", X: 0, P: 0, R: RLit(LArr(LInt(1), LInt(2), LInt(3)))},
		{K: "call", X: 1, Y: 0, Arg: RCall(Pr(0, 0)), Inner: []Op{app(V(1), RInt(9))}},
	}}
}

func witnessConcat() *Case {
	// $v0 = ['ab','cd',7]; $v1 = $v0; $v1[0] .= 'x'; $v1[2] .= 'y'; $v0[1] .= 'z';   — C06_concat_witness_outcomes:
	// an implementation that appends to the element's shared string object in place changes the other name
	return &Case{NV: 2, Shape: "smix", Route: "assign", Mut: "catIdx", Side: "copy", Ops: []Op{
		{K: "setVar", X: 0, R: RLit(LArr(LStr("ab"), LStr("cd"), LInt(7)))},
		{K: "setVar", X: 1, R: RRd(V(0))},
		cmpd(V(1), KI(0), UCat("x")),
		cmpd(V(1), KI(2), UCat("y")),
		cmpd(V(0), KI(1), UCat("z")),
	}}
}

func (r *runner) modelAgreesWithSpec(cs *Case) (agree bool, inFragment bool) {
	if r.m == nil {
		return false, false
	}
	lf, _ := ModelLine("fixed", cs.NV, cs.Ops)
	ls, _ := ModelLine("spec", cs.NV, cs.Ops)
	a, e1 := r.m.Ask(lf)
	b, e2 := r.m.Ask(ls)
	if e1 != nil || e2 != nil {
		return false, false
	}
	if strings.Contains(a, "!") || strings.Contains(b, "!") {
		return a == b, false
	}
	return a == b, true
}

// shrink a failing seeded program: drop statements while the same kind of leak stays
func (r *runner) shrink(cs *Case, sig string) *Case {
	cur := *cs
	for changed := true; changed; {
		changed = false
		for i := len(cur.Ops) - 1; i >= 0; i-- {
			trial := cur
			trial.Ops = append(append([]Op{}, cur.Ops[:i]...), cur.Ops[i+1:]...)
			snaps, o := r.implSnapshots(&trial)
			if o.Kind != "ok" || len(snaps) != len(trial.Ops) {
				continue
			}
			ls := oracle(&trial, snaps)
			if len(ls) > 0 && r.signature(&trial, ls[0]) == sig {
				cur = trial
				changed = true
			}
		}
	}
	return &cur
}

func Run(c *vh.Ctx) {
	var m *vh.Model
	if c.ModelPath != "" {
		var err error
		m, err = vh.StartModel(c.ModelPath)
		if err != nil {
			c.Note("cannot start model: %v", err)
			m = nil
		} else {
			defer m.Close()
			c.Res.ModelUsed = true
		}
	}
	r := newRunner(c, m)
	defer r.close()
	defer func() {
		if m != nil {
			c.Res.ModelLines = m.Lines
		}
		if f := os.Getenv("C06_DUMP_SIGS"); f != "" {
			b, _ := json.MarshalIndent(r.sigs, "", " ")
			os.WriteFile(f, b, 0o644)
		}
	}()

	runAny := func(cs *Case) {
		switch cs.Kind {
		case "kv":
			r.runKV(cs)
		case "cycle":
			r.runCycle()
		case "share":
			r.runShare(shareByName(cs.Mut, cs.Src))
		case "x":
			r.runX(cs)
		case "pl":
			r.runPL(cs)
		case "h":
			r.runH(cs)
		case "rs":
			r.runRSAny(cs)
		case "e":
			r.runE(cs)
		default:
			r.runCase(cs, true)
		}
	}

	if len(c.ReplayRaw) > 0 {
		var cs Case
		if err := json.Unmarshal(c.ReplayRaw, &cs); err != nil {
			c.Note("bad replay: %v", err)
			return
		}
		runAny(resolve(&cs))
		return
	}

	c.Res.Rule = "triples: every (array shape x aliasing route x mutation x written side) of the catalogue (10 shapes: list, permuted list, empty, string-keyed, mixed, sparse, nested to depth 2 and 3, nested under string keys; 13 single-edge routes: assignment, by-value parameter with the write inside the callee, function return, getter, property read, property store, setter, element store, element append, array-literal item, element read, foreach value, clone; 22 composite routes: a call result — getter, element of a by-value copy — handed straight to a function / method / static method / constructor / closure / named parameter, an assignment, an element store / append, a property store / setter; 23 mutations: int/sparse/string/array store, append, unset, push/pop/shift/unshift/sort as method and as array_* function, and their nested forms one and two levels down); seeded programs of 4-14 statements over 4 variables, 2 object properties, with explicit references and handle copies; keyed-literal (ObjectValue) triples; composite-route cases: owner x producer expression x by-value sink x flat mutation x shape x scope, one script each; scalar-payload cases: element kind (string, numeric string, float, bool, null, int, mixed) x container shape (list, string-keyed, keyed literal, nested to depth 3) x copy route (every single-edge route, the call boundaries, built-ins, one literal as common source, payload shared with a scalar variable) x mutation form (every compound assignment, ++/--, string offset write, string / array methods, sort family, array_walk / foreach / parameter / variable by reference, destructuring, unset, append) x written side, one script each; history cases: the same product with a PAST — before the copy edge the source goes through an operation that leaves no reference behind (an element bound to a by-reference parameter of a function / method / constructor / closure / generator in 36 forms, every built-in with a by-reference parameter, foreach by reference, by-reference callbacks, references inside callees and aliases, a variable bound by & that has since gone), placed on the value before it enters the route or directly on the route's original; edit-history cases: the source goes through 1-3 array editors (46: index forms, array_push / unshift / splice / walk / merge / pad, ->push / unshift / splice, by-reference parameters, destructuring, union-assign; inserting an array, removing elements, editing scalars) with copies made in between, then copy route x nested mutation x side; reference-slot programs over the vocabulary of Model.RefSlot (lit, copy, store, reference variable bound / written / released, by-reference calls) compared with the Lean model statement by statement; non-trivial = at least 3 statements; distinct = distinct statement list"

	if f := os.Getenv("C06_PRELUDE_OUT"); f != "" { // development: the prelude, to replay a case on the CLI
		os.WriteFile(f, []byte(fullPrelude()), 0o644)
		return
	}
	if os.Getenv("C06_ONLY") == "pl" { // development: the scalar-payload stream alone
		n := r.plEnumerate(c.Thorough(), c.Rand, c.N(3000, 60000))
		c.Note("scalar payloads only: %d cases", n)
		return
	}
	if os.Getenv("C06_ONLY") == "rs" { // development: the reference-slot stream alone
		n := r.rsEnumerate(c.Thorough(), c.Rand, c.N(1500, 30000))
		c.Note("reference slots only: %d cases", n)
		return
	}
	if os.Getenv("C06_ONLY") == "h" { // development: the history stream alone
		n := r.hEnumerate(c.Thorough(), c.Rand, c.N(1000, 30000))
		c.Note("history only: %d cases", n)
		return
	}
	if os.Getenv("C06_ONLY") == "e" { // development: the edit-history stream alone
		n := r.eEnumerate(c.Thorough(), c.Rand, c.N(600, 20000))
		c.Note("edit histories only: %d cases", n)
		return
	}
	if os.Getenv("C06_ONLY") == "x" { // development: the composite-route stream alone
		n := r.xEnumerate(c.Thorough())
		c.Note("composite only: %d cases", n)
		return
	}
	// ---- 0. committed corpus and the Lean witnesses first
	for _, dir := range []string{"/verif/corpus/C06"} {
		ents, err := os.ReadDir(dir)
		if err != nil {
			continue
		}
		var names []string
		for _, e := range ents {
			if strings.HasSuffix(e.Name(), ".json") {
				names = append(names, e.Name())
			}
		}
		sort.Strings(names)
		for _, n := range names {
			b, err := os.ReadFile(filepath.Join(dir, n))
			if err != nil {
				continue
			}
			var cs Case
			if json.Unmarshal(b, &cs) == nil {
				c.Hit("corpus")
				runAny(resolve(&cs))
			}
		}
	}
	r.runCase(witnessFlat(), true)
	r.runCase(witnessNested(), true)
	r.runCase(witnessCallResult(), true)
	r.runCase(witnessConcat(), true)
	r.runRS(rsWitnessParam(), "") // C06_sticky_mark_counterexample
	// C06_summary_stale_counterexample / C06_summary_witness_outcomes, one per kind of editor of Model.Summary:
	// flat at the last copy, an array enters through the editor, copy, nested write through the copy
	for _, on := range []string{"idxNewInt", "idxAppend", "array_push", "pushM"} {
		if cs := eByNames("flat|c."+on+"@via", "int/flat", "assign", "store", "copy"); cs != nil {
			r.runE(cs)
		}
	}

	// a tree on which programs keep killing the interpreter is reported after a bounded number of losses
	tooManyCrashes := func() bool {
		if r.crashes >= 40 {
			c.Note("stopped early: %d programs ended the interpreter process (fatal error / hang)", r.crashes)
			return true
		}
		return false
	}

	// ---- 1. enumerated triples
	nTriples := 0
	for si := range shapes {
		for ri := range routes {
			for mi := range mutations {
				for _, side := range []string{"copy", "orig"} {
					cs := triple(&shapes[si], &routes[ri], &mutations[mi], side)
					if cs == nil {
						continue
					}
					nTriples++
					r.runCase(cs, true)
				}
			}
			if tooManyCrashes() {
				return
			}
		}
	}
	nKV := 0
	for _, s := range kvShapes {
		for _, rt := range kvRoutes {
			for _, mu := range kvMuts {
				for _, side := range []string{"copy", "orig"} {
					if cs := kvCase(s, rt, mu, side); cs != nil {
						nKV++
						r.runKV(cs)
					}
				}
			}
		}
	}
	for _, sc := range shareCases {
		r.runShare(sc)
	}
	r.runCycle()
	nX := r.xEnumerate(c.Thorough())
	if tooManyCrashes() {
		return
	}
	nPL := r.plEnumerate(c.Thorough(), c.Rand, c.N(3000, 60000))
	if tooManyCrashes() {
		return
	}
	nRS := r.rsEnumerate(c.Thorough(), c.Rand, c.N(1500, 30000))
	nH := r.hEnumerate(c.Thorough(), c.Rand, c.N(1000, 30000))
	if tooManyCrashes() {
		return
	}
	nE := r.eEnumerate(c.Thorough(), c.Rand, c.N(600, 20000))
	if tooManyCrashes() {
		return
	}
	c.Res.Exhaustive = true
	c.Res.ExhaustiveWhat = fmt.Sprintf("all %d applicable (shape x route x mutation x side) triples of the catalogue against model and oracle; all %d keyed-literal triples against the oracle; %d intended-sharing expectations; %d composite-route cases (owner x producer expression x by-value sink x mutation x shape) against the oracle; %d scalar-payload cases (element kind x container shape x copy route x mutation form x written side: all for string lists and int lists, all along plain assignment, all under `.=`, all with the payload shared with a scalar variable; thorough: all for string and mixed elements and for lists) against the oracle; %d reference-slot programs (every `lit; lit; history; copy; write` with a history of by-reference calls in 7 forms / stores on the source, 3 copy forms, writes on either side; seeded programs with live reference variables) against Model.RefSlot (Cfg.counted) and the oracle; %d history cases (history prefix on the source before the copy edge x placement x element kind x shape x copy route x mutation form x written side: every prefix along assignment under 6 forms on 5 shapes, (prefix x route) pairs under a store, every mutation form for 3 prefixes; thorough: every (prefix x route x placement x side)) against the oracle; %d edit-history cases (start shape x sequence of 1-3 array editors — every index form, built-in, array method and by-reference form that puts an array into / removes elements from / edits the scalars of the element list — with copies interleaved x placement x copy route x mutation of the nested array x written side: every editor alone with and without a copy before it on 4 start shapes, (inserting editor x route) pairs, every ordered pair of editors with an inserting one; thorough: all copy patterns and every triple around an inserting editor) against the oracle", nTriples, nKV, len(shareCases), nX, nPL, nRS, nH, nE)

	// ---- 2. seeded programs, writes at depth 1 only (the discipline of the _partial theorem)
	g := &gen{r: c.Rand, nv: 4}
	for i := 0; i < c.N(8000, 120000); i++ {
		if i%200 == 0 && tooManyCrashes() {
			return
		}
		cs := &Case{NV: 4, Ops: g.program(c.Rand.Range(4, 14))}
		oc := r.runCase(cs, true)
		if len(oc.Leaks) > 0 && !c.Known[r.signature(cs, oc.Leaks[0])] {
			// replace the recorded case by its shrunk form
			sig := r.signature(cs, oc.Leaks[0])
			small := r.shrink(cs, sig)
			for j := range c.Res.Violations {
				if c.Res.Violations[j].Sig == sig {
					c.Res.Violations[j].Case = small
				}
			}
		}
	}
	// ---- 3. seeded programs with writes into inner arrays (one or two levels down, missing
	//         intermediate keys created on the way): correspondence and oracle, like stream 2.
	//         C06_value_semantics says the model equals the reference semantics on every program;
	//         the driver is asked for both and a difference is reported as a broken correspondence.
	g.nested = true
	for i := 0; i < c.N(8000, 120000); i++ {
		if i%200 == 0 && tooManyCrashes() {
			return
		}
		cs := &Case{NV: 4, Ops: g.program(c.Rand.Range(4, 12))}
		agree, inFrag := r.modelAgreesWithSpec(cs)
		if !agree && r.m != nil {
			c.Hit("nested:model!=spec")
			lf, _ := ModelLine("fixed", cs.NV, cs.Ops)
			ls, _ := ModelLine("spec", cs.NV, cs.Ops)
			a, _ := r.m.Ask(lf)
			b, _ := r.m.Ask(ls)
			c.Mismatch(cs, a, b, "Model.Heap (Cfg.fixed) vs Spec.Val: contradicts C06_value_semantics (driver / theorem out of step)")
			continue
		}
		if !inFrag {
			c.Hit("nested:outside-fragment")
			continue
		}
		c.Hit("nested:model=spec")
		r.runCase(cs, true)
	}
}

func shareByName(name, src string) shareCase {
	for _, s := range shareCases {
		if s.Name == name {
			return s
		}
	}
	return shareCase{Name: name, Src: src}
}

func tripleByNames(sh, ro, mu, side string) *Case {
	s, r, m := shapeByName(sh), routeByName(ro), mutationByName(mu)
	if s == nil || r == nil || m == nil {
		return nil
	}
	return triple(s, r, m, side)
}

func kvByNames(sh, ro, mu, side string) *Case {
	for _, s := range kvShapes {
		for _, r := range kvRoutes {
			for _, m := range kvMuts {
				if s.Name == sh && r.Name == ro && m.Name == mu {
					return kvCase(s, r, m, side)
				}
			}
		}
	}
	return nil
}

// resolve turns a reference to a catalogue triple into the case itself
func resolve(cs *Case) *Case {
	switch cs.Kind {
	case "triple-ref": // {"kind":"triple-ref","shape":..,"route":..,"mut":..,"side":..}
		if t := tripleByNames(cs.Shape, cs.Route, cs.Mut, cs.Side); t != nil {
			return t
		}
	case "x-ref": // {"kind":"x-ref","shape":..,"route":<producer>,"side":<sink>,"mut":..}
		if t := xByNames(cs.Scope, cs.Shape, cs.Route, cs.Side, cs.Mut); t != nil {
			return t
		}
	case "pl-ref": // {"kind":"pl-ref","shape":"<kind>/<shape>","route":..,"mut":..,"side":..}
		if t := plByNames(cs.Shape, cs.Route, cs.Mut, cs.Side); t != nil {
			return t
		}
	case "h-ref": // {"kind":"h-ref","hist":"<prefix>@<placement>","shape":"<kind>/<shape>","route":..,"mut":..,"side":..}
		if t := hByNames(cs.Hist, cs.Shape, cs.Route, cs.Mut, cs.Side); t != nil {
			return t
		}
	case "e-ref": // {"kind":"e-ref","hist":"<start>|<step>,<step>@<placement>","shape":"<kind>/<start>","route":..,"mut":..,"side":..}
		if t := eByNames(cs.Hist, cs.Shape, cs.Route, cs.Mut, cs.Side); t != nil {
			return t
		}
	case "kv-ref":
		if t := kvByNames(cs.Shape, cs.Route, cs.Mut, cs.Side); t != nil {
			return t
		}
	}
	return cs
}
