package c06

import (
	"bufio"
	"encoding/json"
	"fmt"
	"os"
	"os/exec"
	"runtime/debug"
	"time"

	"verif/harness/vh"
)

// Scripts run in a child process: a cyclic array (possible on a tree where inner
// arrays are shared, see the known finding cycle:nested-self-store) sends the
// recursive printer into a Go stack overflow, which is fatal for the process.
// The child keeps one VM (prelude loaded once) and answers one JSON line per script.

func init() { vh.RegisterChild("c06run", childMain) }

type wReq struct {
	ID    int    `json:"id"`
	Src   string `json:"src"`
	Fresh bool   `json:"fresh,omitempty"` // run on a fresh VM (prelude loaded again), not on the long-lived one
}

type wResp struct {
	ID     int    `json:"id"`
	Kind   string `json:"kind"`
	Out    string `json:"out"`
	Detail string `json:"detail"`
}

func childMain(args []string) int {
	// the interpreter prints notices, var_dump output … straight to os.Stdout (fmt.Printf): the
	// protocol goes over a private duplicate of fd 1, fd 1 itself to /dev/null
	proto := vh.ProtocolStdout()
	// a runaway recursion (cyclic array) should die quickly, not after growing a 1 GB stack
	debug.SetMaxStack(96 << 20)
	env := vh.NewEnv()
	pre := env.RunSource(fullPrelude(), "/verif-c06-prelude.php")
	in := bufio.NewReaderSize(os.Stdin, 1<<20)
	out := bufio.NewWriter(proto)
	n := 0
	for {
		line, err := in.ReadString('\n')
		if err != nil {
			return 0
		}
		var rq wReq
		if json.Unmarshal([]byte(line), &rq) != nil {
			return 2
		}
		n++
		if n%3000 == 0 {
			env = vh.NewEnv()
			pre = env.RunSource(fullPrelude(), "/verif-c06-prelude.php")
		}
		var rs wResp
		if pre.Kind != "ok" {
			rs = wResp{ID: rq.ID, Kind: "prelude-" + pre.Kind, Detail: pre.Detail}
		} else {
			e := env
			if rq.Fresh {
				e = vh.NewEnv()
				e.RunSource(fullPrelude(), "/verif-c06-prelude.php")
			}
			o := e.RunSource(rq.Src, "/verif-c06-case.php")
			rs = wResp{ID: rq.ID, Kind: o.Kind, Out: o.Out, Detail: o.Detail}
		}
		b, _ := json.Marshal(rs)
		out.Write(b)
		out.WriteByte('\n')
		out.Flush()
	}
}

type worker struct {
	nReq  int
	cmd   *exec.Cmd
	in    *bufio.Writer
	out   *bufio.Reader
	lines chan string
}

func startWorker() (*worker, error) {
	cmd := exec.Command(vh.Self(), "__child", "c06run")
	stdin, err := cmd.StdinPipe()
	if err != nil {
		return nil, err
	}
	pr, err := cmd.StdoutPipe() // the child answers on a private duplicate of this fd (vh.ProtocolStdout)
	if err != nil {
		return nil, err
	}
	cmd.Stderr = nil
	cmd.Env = append(os.Environ(), "GOMAXPROCS=2")
	if err := cmd.Start(); err != nil {
		return nil, err
	}
	w := &worker{cmd: cmd, in: bufio.NewWriterSize(stdin, 1<<16), out: bufio.NewReaderSize(pr, 1<<20), lines: make(chan string, 1)}
	go func() {
		for {
			l, err := w.out.ReadString('\n')
			if err != nil {
				close(w.lines)
				return
			}
			w.lines <- l
		}
	}()
	return w, nil
}

func (w *worker) kill() {
	if w != nil && w.cmd != nil && w.cmd.Process != nil {
		w.cmd.Process.Kill()
		w.cmd.Wait()
	}
}

// run executes one script; kind "crash" = the child died (fatal error), "hang" = no answer in time.
func (r *runner) exec(src string) vh.Outcome {
	for attempt := 0; attempt < 2; attempt++ {
		if r.w == nil {
			w, err := startWorker()
			if err != nil {
				return vh.Outcome{Kind: "no-worker", Detail: err.Error()}
			}
			r.w = w
		}
		r.w.nReq++
		id := r.w.nReq
		b, _ := json.Marshal(wReq{ID: id, Src: src, Fresh: r.fresh})
		r.w.in.Write(b)
		r.w.in.WriteByte('\n')
		if err := r.w.in.Flush(); err != nil {
			r.w.kill()
			r.w = nil
			continue
		}
		timeout := time.After(60 * time.Second)
	again:
		select {
		case l, ok := <-r.w.lines:
			if !ok {
				r.w.kill()
				r.w = nil
				r.crashes++
				return vh.Outcome{Kind: "crash", Detail: "interpreter process died (fatal error)"}
			}
			var rs wResp
			if err := json.Unmarshal([]byte(l), &rs); err != nil {
				// not a protocol line (nothing but the protocol should arrive here): skip it, never
				// take it for the answer of this request
				goto again
			}
			if rs.ID != id {
				goto again // answer to an earlier request
			}
			return vh.Outcome{Kind: rs.Kind, Out: rs.Out, Detail: rs.Detail}
		case <-timeout:
			r.w.kill()
			r.w = nil
			r.crashes++
			return vh.Outcome{Kind: "hang", Detail: "no answer within 60s"}
		}
	}
	return vh.Outcome{Kind: "no-worker", Detail: fmt.Sprint("could not talk to the child")}
}
