package c06

import (
	"fmt"
	"strings"

	"verif/harness/vh"
)

// Reference-slot stream: programs over the vocabulary of Model.RefSlot (flat integer arrays,
// references to their elements), run on the interpreter and compared statement by statement with
// the Lean model under Cfg.counted — the design in which the mark on a slot (ZVal.RefSlotCount) is
// the number of its LIVE binders (C06_binder_count_exact), so that a slot whose last binder has
// gone is an ordinary value slot again (C06_released_slot_is_value_slot) — and judged by a
// before/after oracle that knows nothing of the model.
//
//   lit x [v…]      $vx = [v, …];
//   copy x y        $vx = $vy;   /  $vx = ident($vy);  /  through a property
//   store x i v     $vx[i] = v;
//   bind r x i      $rr = &$vx[i];                 (a VARIABLE binds the slot)
//   wr r v          $rr = v;
//   release r       $zr = 0; $rr = &$zr;            (the variable is bound to something else: the binder has gone)
//   byref x i v     rs_set($vx[i], v);  and six other call forms: the slot is bound to a by-reference
//                   PARAMETER for the duration of the call = bind param; wr; release in the model
//   scoped x i v    rs_local($vx, i, v): a reference local to a function that returns
//                   = bind var; wr; release in the model
//
// On this tree `$r = &$x[i]` marks the slot and nothing ever unmarks it (Cfg.tree): a program that
// lets a variable binder go (`release`, `scoped`) departs from Cfg.counted — known finding
// hstale:model-*, confirmed every run by two fixed programs — and is kept out of the main stream,
// where variable binders stay alive and parameter binders come and go. There the implementation
// must agree with Cfg.counted; a tree in which a parameter binding marks the slot for good agrees
// with Cfg.sticky instead (the mismatch note says so).

type rsOp struct {
	K    string `json:"k"`
	X    int    `json:"x,omitempty"`
	Y    int    `json:"y,omitempty"`
	I    int    `json:"i,omitempty"`
	R    int    `json:"r,omitempty"`
	V    int    `json:"v,omitempty"`
	Vs   []int  `json:"vs,omitempty"`
	Form string `json:"form,omitempty"`
}

const rsPrelude = `function rs_set(&$p, $v) { $p = $v; }
function rs_nop(&$p, $v) { return $p; }
function rs_fwd(&$p, $v) { rs_set($p, $v); }
function rs_rec(&$p, $v, $n = 2) { if ($n > 0) { rs_rec($p, $v, $n - 1); } else { $p = $v; } }
function rs_whole(&$arr, $i, $v) { rs_set($arr[$i], $v); }
function rs_local(&$arr, $i, $v) { $q = &$arr[$i]; $q = $v; }
function rs_thr(&$p, $v) { $p = $v; throw new \Exception('rs'); }
class RSC { function __construct(&$p, $v) { $p = $v; } }
`

var rsByrefForms = []string{"func", "nop", "forward", "recursive", "whole", "ctor", "throws"}
var rsCopyForms = []string{"assign", "ident", "prop"}

// tokens of the model request; a call form is three model statements
func (o rsOp) toks(nr int) []string {
	switch o.K {
	case "lit":
		s := fmt.Sprintf("lit %d %d", o.X, len(o.Vs))
		for _, v := range o.Vs {
			s += fmt.Sprintf(" %d", v)
		}
		return []string{s}
	case "copy":
		return []string{fmt.Sprintf("copy %d %d", o.X, o.Y)}
	case "store":
		return []string{fmt.Sprintf("store %d %d %d", o.X, o.I, o.V)}
	case "bind":
		return []string{fmt.Sprintf("bind var %d %d %d", o.R, o.X, o.I)}
	case "wr":
		return []string{fmt.Sprintf("wr %d %d", o.R, o.V)}
	case "release":
		return []string{fmt.Sprintf("release %d", o.R)}
	case "byref":
		if o.Form == "nop" {
			return []string{fmt.Sprintf("bind param %d %d %d", nr, o.X, o.I), fmt.Sprintf("release %d", nr)}
		}
		return []string{fmt.Sprintf("bind param %d %d %d", nr, o.X, o.I), fmt.Sprintf("wr %d %d", nr, o.V), fmt.Sprintf("release %d", nr)}
	case "scoped":
		return []string{fmt.Sprintf("bind var %d %d %d", nr, o.X, o.I), fmt.Sprintf("wr %d %d", nr, o.V), fmt.Sprintf("release %d", nr)}
	}
	return []string{"bad"}
}

func (o rsOp) php() string {
	switch o.K {
	case "lit":
		var it []string
		for _, v := range o.Vs {
			it = append(it, fmt.Sprint(v))
		}
		return fmt.Sprintf("$v%d = [%s];", o.X, strings.Join(it, ", "))
	case "copy":
		switch o.Form {
		case "ident":
			return fmt.Sprintf("$v%d = ident($v%d);", o.X, o.Y)
		case "prop":
			return fmt.Sprintf("$rso = new O; $rso->p0 = $v%d; $v%d = $rso->p0;", o.Y, o.X)
		}
		return fmt.Sprintf("$v%d = $v%d;", o.X, o.Y)
	case "store":
		return fmt.Sprintf("$v%d[%d] = %d;", o.X, o.I, o.V)
	case "bind":
		return fmt.Sprintf("$r%d = &$v%d[%d];", o.R, o.X, o.I)
	case "wr":
		return fmt.Sprintf("$r%d = %d;", o.R, o.V)
	case "release":
		return fmt.Sprintf("$z%d = 0; $r%d = &$z%d;", o.R, o.R, o.R)
	case "byref":
		el := fmt.Sprintf("$v%d[%d]", o.X, o.I)
		switch o.Form {
		case "nop":
			return fmt.Sprintf("rs_nop(%s, %d);", el, o.V)
		case "forward":
			return fmt.Sprintf("rs_fwd(%s, %d);", el, o.V)
		case "recursive":
			return fmt.Sprintf("rs_rec(%s, %d);", el, o.V)
		case "whole":
			return fmt.Sprintf("rs_whole($v%d, %d, %d);", o.X, o.I, o.V)
		case "ctor":
			return fmt.Sprintf("new RSC(%s, %d);", el, o.V)
		case "throws":
			return fmt.Sprintf("try { rs_thr(%s, %d); } catch (\\Exception $rse) { }", el, o.V)
		}
		return fmt.Sprintf("rs_set(%s, %d);", el, o.V)
	case "scoped":
		return fmt.Sprintf("rs_local($v%d, %d, %d);", o.X, o.I, o.V)
	}
	return "/* bad */"
}

func rsScript(nv, nr int, ops []rsOp) string {
	var sb strings.Builder
	sb.WriteString("<?php\n")
	var names []string
	for i := 0; i < nv; i++ {
		fmt.Fprintf(&sb, "$v%d = [];\n", i)
		names = append(names, fmt.Sprintf("show($v%d)", i))
	}
	for i := 0; i < nr; i++ {
		fmt.Fprintf(&sb, "$r%d = null;\n", i)
	}
	for _, o := range ops {
		sb.WriteString(o.php() + "\necho " + strings.Join(names, ", ' ', ") + ", \"\\n\";\n")
	}
	return sb.String()
}

func rsBody(ops []rsOp) string {
	var l []string
	for _, o := range ops {
		l = append(l, o.php())
	}
	return strings.Join(l, "\n")
}

func rsModelLine(cfg string, nv, nr int, ops []rsOp) (string, []int) {
	var all []string
	var ends []int
	for _, o := range ops {
		all = append(all, o.toks(nr)...)
		ends = append(ends, len(all)-1)
	}
	return fmt.Sprintf("rs\t%s\t%d\t%d\t%s", cfg, nv, nr+1, strings.Join(all, " ; ")), ends
}

func (r *runner) rsAsk(cfg string, nv, nr int, ops []rsOp) (string, bool) {
	if r.m == nil {
		return "", false
	}
	line, ends := rsModelLine(cfg, nv, nr, ops)
	got, err := r.m.Ask(line)
	if err != nil {
		return "", false
	}
	ms := strings.Split(got, "|")
	var want []string
	for _, e := range ends {
		if e < len(ms) {
			want = append(want, ms[e])
		}
	}
	return strings.Join(want, "|"), !strings.Contains(got, "!") && !strings.HasPrefix(got, "bad")
}

// the discipline of C06_released_slot_is_value_slot, read off the program by the harness itself:
// no array is assigned (lit / copy) while a variable binder is live
func rsDisciplined(ops []rsOp) bool {
	live := map[int]bool{}
	for _, o := range ops {
		switch o.K {
		case "lit", "copy":
			if len(live) > 0 {
				return false
			}
		case "bind":
			if live[o.R] {
				return false
			}
			live[o.R] = true
		case "release":
			delete(live, o.R)
		}
	}
	return true
}

// oracle for disciplined programs: a statement changes at most the array it names
// (a write through a reference variable: the array the variable was bound into)
func rsOracle(nv int, ops []rsOp, snaps []string) (step, col int, before, after string, bad bool) {
	prev := make([]string, nv)
	for i := range prev {
		prev[i] = "[]"
	}
	boundTo := map[int]int{}
	for i, o := range ops {
		if i >= len(snaps) {
			return
		}
		cur := strings.Split(snaps[i], " ")
		if len(cur) != nv {
			return
		}
		allowed := -1
		switch o.K {
		case "lit", "copy", "store", "byref", "scoped":
			allowed = o.X
		case "wr":
			if x, ok := boundTo[o.R]; ok {
				allowed = x
			}
		case "bind":
			boundTo[o.R] = o.X
		case "release":
			delete(boundTo, o.R)
		}
		for x := 0; x < nv; x++ {
			if x != allowed && cur[x] != prev[x] {
				return i, x, prev[x], cur[x], true
			}
		}
		prev = cur
	}
	return
}

func rsToksKey(nv, nr int, ops []rsOp) string {
	l, _ := rsModelLine("k", nv, nr, ops)
	var forms []string
	for _, o := range ops {
		forms = append(forms, o.Form)
	}
	return l + "|" + strings.Join(forms, ",")
}

// runRS: one program against implementation, model (Cfg.counted) and oracle.
// known != "": a program of the known stream (a variable binder goes): the oracle's finding is reported
// under that signature and the implementation is compared with Cfg.tree.
func (r *runner) runRS(cs *Case, known string) (leaked bool) {
	c := r.c
	ops := cs.RS
	src := rsScript(cs.NV, cs.NR, ops)
	o := r.runScript(src)
	if len(c.ReplayRaw) > 0 {
		c.Note("script:\n%s\noutcome: %s", src, o.String())
	}
	c.Eval("rs|"+rsToksKey(cs.NV, cs.NR, ops), len(ops) >= 3)
	for _, op := range ops {
		h := "rs:op:" + op.K
		if op.Form != "" {
			h += "/" + op.Form
		}
		c.Hit(h)
	}
	out := strings.TrimRight(o.Out, "\n")
	var snaps []string
	if out != "" {
		snaps = strings.Split(out, "\n")
	}
	if o.Kind != "ok" || len(snaps) != len(ops) {
		sig := "rsrun:" + o.Kind
		r.seen(sig, cs)
		c.Violation(sig, "reference-slot program did not run to completion: "+o.String(), cs)
		return false
	}
	impl := strings.Join(snaps, "|")
	disc := rsDisciplined(ops)
	if disc {
		c.Hit("rs:disciplined")
	} else {
		c.Hit("rs:copy-while-reference-live")
	}
	// correspondence
	cfg := "counted"
	if known != "" {
		cfg = "tree"
	}
	if want, ok := r.rsAsk(cfg, cs.NV, cs.NR, ops); r.m != nil {
		if !ok {
			c.Hit("rs:model-outside-fragment")
		} else if want != impl {
			note := "interpreter vs Model.RefSlot (Cfg." + cfg + ")"
			if st, ok2 := r.rsAsk("sticky", cs.NV, cs.NR, ops); ok2 && st == impl {
				note += "; the implementation agrees with Cfg.sticky: binding an element to a by-reference parameter marks the slot (RefSlotCount) and nothing unmarks it when the call returns, so every later copy of the array shares that slot (C06_sticky_mark_counterexample)"
			} else if tr, ok2 := r.rsAsk("tree", cs.NV, cs.NR, ops); ok2 && tr == impl {
				note += "; the implementation agrees with Cfg.tree (a variable binder that has gone leaves the slot marked)"
			}
			c.Mismatch(cs, impl, want, note)
		} else {
			c.Hit("rs:model=impl")
		}
		if disc && known == "" {
			// C06_released_slot_is_value_slot: on disciplined programs the model is the value semantics
			if sp, ok2 := r.rsAsk("spec", cs.NV, cs.NR, ops); ok2 && ok && sp != want {
				c.Mismatch(cs, want, sp, "Model.RefSlot (Cfg.counted) vs Spec.RefVal on a disciplined program: contradicts C06_released_slot_is_value_slot (driver / theorem out of step)")
			}
		}
	}
	// property
	if disc {
		if step, col, before, after, bad := rsOracle(cs.NV, ops, snaps); bad {
			sig := known
			if sig == "" {
				sig = "rsleak:" + ops[step].K
				if cs.Mut != "" {
					sig = "rsleak:" + cs.Mut
				}
			}
			r.seen(sig, cs)
			c.Violation(sig, fmt.Sprintf("statement %d `%s` changed $v%d, an array it does not name (no reference into it is live): %s -> %s", step, ops[step].php(), col, before, after), cs)
			return true
		}
	}
	return false
}

func rsLit(x int, vs ...int) rsOp { return rsOp{K: "lit", X: x, Vs: vs} }

// the Lean witnesses
func rsWitnessParam() *Case {
	// C06_sticky_mark_counterexample: $v0 = [1,2,3]; rs_set($v0[0], 5); $v1 = $v0; $v1[0] = 9;
	return &Case{Kind: "rs", NV: 2, NR: 0, Mut: "witness-param", RS: []rsOp{rsLit(0, 1, 2, 3), {K: "byref", X: 0, I: 0, V: 5, Form: "func"},
		{K: "copy", X: 1, Y: 0, Form: "assign"}, {K: "store", X: 1, I: 0, V: 9}}}
}

func rsKnownRebind() *Case {
	// C06_tree_variable_binder_stale: $v0 = [1,2,3]; $r0 = &$v0[0]; $r0 = 5; $z0 = 0; $r0 = &$z0; $v1 = $v0; $v1[0] = 9;
	return &Case{Kind: "rs", NV: 2, NR: 1, Mut: "known-rebind", RS: []rsOp{rsLit(0, 1, 2, 3), {K: "bind", R: 0, X: 0, I: 0}, {K: "wr", R: 0, V: 5},
		{K: "release", R: 0}, {K: "copy", X: 1, Y: 0, Form: "assign"}, {K: "store", X: 1, I: 0, V: 9}}}
}

func rsKnownScoped() *Case {
	return &Case{Kind: "rs", NV: 2, NR: 0, Mut: "known-scoped", RS: []rsOp{rsLit(0, 1, 2, 3), {K: "scoped", X: 0, I: 1, V: 5},
		{K: "copy", X: 1, Y: 0, Form: "assign"}, {K: "store", X: 0, I: 1, V: 9}}}
}

func (r *runner) runRSAny(cs *Case) {
	switch cs.Mut {
	case "known-rebind":
		r.runRS(cs, "hstale:model-rebind")
	case "known-scoped":
		r.runRS(cs, "hstale:model-scoped")
	default:
		r.runRS(cs, "")
	}
}

// shrink: drop statements while the oracle still reports a leak
func (r *runner) rsShrink(cs *Case) *Case {
	cur := *cs
	for changed := true; changed; {
		changed = false
		for i := len(cur.RS) - 1; i >= 0; i-- {
			trial := cur
			trial.RS = append(append([]rsOp{}, cur.RS[:i]...), cur.RS[i+1:]...)
			if !rsDisciplined(trial.RS) {
				continue
			}
			o := r.runScript(rsScript(trial.NV, trial.NR, trial.RS))
			out := strings.TrimRight(o.Out, "\n")
			if o.Kind != "ok" || out == "" {
				continue
			}
			snaps := strings.Split(out, "\n")
			if len(snaps) != len(trial.RS) {
				continue
			}
			if _, _, _, _, bad := rsOracle(trial.NV, trial.RS, snaps); bad {
				cur = trial
				changed = true
			}
		}
	}
	return &cur
}

// rsEnumerate: the witnesses; every program `lit; lit; H; copy; W` with H a history of at most one
// (thorough: two) statements on the source — a by-reference call in each form, a store — and W a
// store or by-reference call on either side, over every copy form; seeded programs.
func (r *runner) rsEnumerate(full bool, rnd *vh.Rand, seeded int) int {
	n := 0
	r.runRS(rsWitnessParam(), "")
	r.runRS(rsKnownRebind(), "hstale:model-rebind")
	r.runRS(rsKnownScoped(), "hstale:model-scoped")
	n += 3
	var atoms []rsOp
	for i := 0; i < 2; i++ {
		for _, f := range rsByrefForms {
			atoms = append(atoms, rsOp{K: "byref", X: 0, I: i, V: 7, Form: f})
		}
		atoms = append(atoms, rsOp{K: "store", X: 0, I: i, V: 7})
	}
	var hists [][]rsOp
	hists = append(hists, nil)
	for _, a := range atoms {
		hists = append(hists, []rsOp{a})
	}
	for _, a := range atoms {
		for _, b := range atoms {
			if full || (a.K == "byref" && b.K == "byref" && a.Form == "func" && b.Form != "func") {
				hists = append(hists, []rsOp{a, b})
			}
		}
	}
	var writes []rsOp
	for x := 0; x < 2; x++ {
		for i := 0; i < 2; i++ {
			writes = append(writes, rsOp{K: "store", X: x, I: i, V: 9}, rsOp{K: "byref", X: x, I: i, V: 9, Form: "func"})
		}
	}
	for _, h := range hists {
		for _, cf := range rsCopyForms {
			for _, w := range writes {
				ops := []rsOp{rsLit(0, 1, 2, 3), rsLit(1, 4, 5, 6)}
				ops = append(ops, h...)
				ops = append(ops, rsOp{K: "copy", X: 1, Y: 0, Form: cf}, w)
				n++
				r.runRS(&Case{Kind: "rs", NV: 2, NR: 0, RS: ops}, "")
			}
		}
		if r.crashes >= 40 {
			return n
		}
	}
	// seeded: 3 arrays of length 3, 2 reference variables (bound at most once, never released),
	// by-reference calls, stores, copies anywhere (also while a reference is live: correspondence only)
	for k := 0; k < seeded; k++ {
		nv, nr := 3, 2
		ops := []rsOp{rsLit(0, 1, 2, 3), rsLit(1, 4, 5, 6), rsLit(2, 7, 8, 9)}
		bound := map[int]bool{}
		ln := rnd.Range(3, 9)
		for j := 0; j < ln; j++ {
			v := 10 + rnd.Intn(80)
			switch p := rnd.Intn(100); {
			case p < 30:
				ops = append(ops, rsOp{K: "byref", X: rnd.Intn(nv), I: rnd.Intn(3), V: v, Form: vh.Pick(rnd, rsByrefForms)})
			case p < 50:
				ops = append(ops, rsOp{K: "store", X: rnd.Intn(nv), I: rnd.Intn(3), V: v})
			case p < 75:
				x := rnd.Intn(nv)
				y := (x + 1 + rnd.Intn(nv-1)) % nv
				ops = append(ops, rsOp{K: "copy", X: x, Y: y, Form: vh.Pick(rnd, rsCopyForms)})
			case p < 82:
				rr := rnd.Intn(nr)
				if bound[rr] || rnd.Intn(2) > 0 { // most programs stay disciplined
					ops = append(ops, rsOp{K: "store", X: rnd.Intn(nv), I: rnd.Intn(3), V: v})
				} else {
					bound[rr] = true
					ops = append(ops, rsOp{K: "bind", R: rr, X: rnd.Intn(nv), I: rnd.Intn(3)})
				}
			case p < 90:
				ops = append(ops, rsOp{K: "wr", R: rnd.Intn(nr), V: v})
			default:
				ops = append(ops, rsOp{K: "lit", X: rnd.Intn(nv), Vs: []int{v, v + 1, v + 2}})
			}
		}
		cs := &Case{Kind: "rs", NV: nv, NR: nr, RS: ops}
		n++
		if r.runRS(cs, "") {
			small := r.rsShrink(cs)
			for j := range r.c.Res.Violations {
				if cc, ok := r.c.Res.Violations[j].Case.(*Case); ok && cc == cs {
					r.c.Res.Violations[j].Case = small
					r.c.Res.Violations[j].What += " — shrunk to: " + strings.ReplaceAll(rsBody(small.RS), "\n", " ")
				}
			}
		}
		if k%200 == 0 && r.crashes >= 40 {
			return n
		}
	}
	return n
}
