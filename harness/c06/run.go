package c06

import (
	"fmt"
	"strings"

	"verif/harness/vh"
)

// Case is one replayable program.
type Case struct {
	NV   int    `json:"nv"`
	Ops  []Op   `json:"ops"`
	Kind string `json:"kind,omitempty"` // "" model+oracle | kv | slotref (script-level streams, see streams.go)
	// enumerated triples carry their coordinates (used for the violation signature)
	Shape string `json:"shape,omitempty"`
	Route string `json:"route,omitempty"`
	Mut   string `json:"mut,omitempty"`
	Side  string `json:"side,omitempty"`
	Src   string `json:"src,omitempty"` // literal script for the script-level streams
	Scope string `json:"scope,omitempty"` // composite routes: top | func | method
	Fresh bool   `json:"fresh,omitempty"` // run in a fresh interpreter (not the long-lived one of the child)
	NoEffect bool `json:"noeffect,omitempty"` // composite routes: the effect check does not apply
	Hist string `json:"hist,omitempty"` // history stream: <prefix>@<placement>
	NR   int    `json:"nr,omitempty"`   // reference-slot stream: number of reference variables
	RS   []rsOp `json:"rs,omitempty"`   // reference-slot stream: the program
}

type runner struct {
	c     *vh.Ctx
	m     *vh.Model
	w     *worker
	nCase int
	crashes int // child processes lost to a fatal error / hang
	fresh bool // the next script runs in a fresh interpreter
	sigs  map[string]string // every violation signature seen → coordinates of its first case (debug dump)
	have  map[string]bool // built-ins the interpreter has (probed once)
	hstats map[string]map[string]int // history stream: per prefix, how often it ran to its end / threw / was rejected
	estats map[string]map[string]int // edit-history stream: per operation, how often it ran / threw / left an array in the value
}

func (r *runner) seen(sig string, cs *Case) {
	if r.sigs == nil {
		r.sigs = map[string]string{}
	}
	if _, ok := r.sigs[sig]; !ok {
		r.sigs[sig] = describe(cs)
		if cs.Src != "" {
			r.sigs[sig] += "\n" + cs.Src
		}
	}
}

func newRunner(c *vh.Ctx, m *vh.Model) *runner { return &runner{c: c, m: m} }

func (r *runner) close() { r.w.kill() }

// runScript runs one script in the child interpreter (worker.go).
func (r *runner) runScript(src string) vh.Outcome {
	r.nCase++
	return r.exec(src)
}

// implSnapshots runs the program and returns one snapshot line per statement.
func (r *runner) implSnapshots(cs *Case) ([]string, vh.Outcome) {
	src := Script(cs.NV, cs.Ops, fmt.Sprintf("c%d_", r.nCase), false)
	o := r.runScript(src)
	out := strings.TrimRight(o.Out, "\n")
	if out == "" {
		return nil, o
	}
	return strings.Split(out, "\n"), o
}

// ------------------------------------------------------------ the model-independent oracle

// aliasing declared by the script itself: cell[x] is the variable x currently is
type aliasTrack struct{ cell []int }

func newAlias(nv int) *aliasTrack {
	a := &aliasTrack{cell: make([]int, nv)}
	for i := range a.cell {
		a.cell[i] = i
	}
	return a
}

func objPrefix(col string) string {
	if strings.HasPrefix(col, "o") {
		if i := strings.IndexByte(col, '{'); i > 0 {
			return col[:i+1]
		}
	}
	return ""
}

// allowed returns the variables whose rendering may legitimately change when
// statement o runs on the snapshot `before`.
func (a *aliasTrack) allowed(o Op, before []string) map[int]bool {
	al := map[int]bool{}
	addVar := func(x int) {
		for y, c := range a.cell {
			if x < len(a.cell) && c == a.cell[x] {
				al[y] = true
			}
		}
	}
	addObjOf := func(x int) {
		// everything that holds the same object handle as $vx
		if x >= len(before) {
			return
		}
		p := objPrefix(before[x])
		if p == "" {
			return
		}
		for y, col := range before {
			if objPrefix(col) == p {
				al[y] = true
			}
		}
	}
	switch o.K {
	case "setVar", "new", "clone", "call":
		addVar(o.X)
	case "ref":
		al[o.X] = true
	case "setProp":
		addObjOf(o.X)
	case "setIdx", "unset", "meth":
		if o.B.ThroughObject() {
			addObjOf(o.B.Root())
		} else {
			addVar(o.B.Root())
		}
	}
	return al
}

func (a *aliasTrack) apply(o Op) {
	if o.K == "ref" && o.X < len(a.cell) && o.Y < len(a.cell) {
		a.cell[o.X] = a.cell[o.Y]
	}
}

// mutation kind of a statement relative to the name it writes through
func mutKind(o Op) string {
	switch o.K {
	case "setIdx":
		d := o.B.Depth()
		pre := ""
		if d >= 1 {
			pre = "nested"
			if d >= 2 {
				pre = "nested2"
			}
		}
		k := "storeIdx"
		if o.Key == nil {
			k = "append"
		} else if o.Key.S {
			k = "storeKey"
		}
		if o.compound() { // `b[k] .= c`, `+=`, `*=`, `??=`
			k = map[string]string{"concat": "cat", "add": "add", "mul": "mul", "coalesce": "coalesce"}[o.R.U.K] + strings.ToUpper(k[5:6]) + k[6:]
		}
		if pre != "" {
			return pre + strings.ToUpper(k[:1]) + k[1:]
		}
		return k
	case "unset":
		if o.B.Depth() >= 1 {
			return "nestedUnset"
		}
		return "unset"
	case "meth":
		if o.B.Depth() >= 1 {
			return "nested" + strings.ToUpper(o.M[:1]) + o.M[1:]
		}
		return o.M
	case "call":
		if len(o.Inner) > 0 {
			return mutKind(o.Inner[len(o.Inner)-1])
		}
	}
	return o.K
}

type leak struct {
	Step   int
	Var    int
	Before string
	After  string
	Mut    string
}

// oracle: no statement changes a name it does not write through.
func oracle(cs *Case, snaps []string) []leak {
	var res []leak
	al := newAlias(cs.NV)
	prev := make([]string, cs.NV)
	for i := range prev {
		prev[i] = "null"
	}
	for i, o := range cs.Ops {
		if i >= len(snaps) {
			break
		}
		cur := strings.Split(snaps[i], " ")
		if len(cur) != cs.NV {
			break
		}
		allowed := al.allowed(o, prev)
		for x := 0; x < cs.NV; x++ {
			if !allowed[x] && cur[x] != prev[x] {
				res = append(res, leak{Step: i, Var: x, Before: prev[x], After: cur[x], Mut: mutKind(o)})
			}
		}
		al.apply(o)
		prev = cur
	}
	return res
}

// ------------------------------------------------------------ one case

type outcome struct {
	Snaps     []string
	Leaks     []leak
	ImplOK    bool
	Unmodeled bool // the model answered `!` (statement outside the fragment)
	Mismatch  bool
}

func (r *runner) signature(cs *Case, l leak) string {
	if cs.Route != "" && cs.Mut != "" {
		return "leak:" + cs.Route + ":" + cs.Mut // enumerated triple: its own coordinates
	}
	return "leak:seq:" + l.Mut
}

// runCase executes one case against implementation, model and oracle.
// judge=false: correspondence only (cases the model itself predicts to leak).
func (r *runner) runCase(cs *Case, judge bool) outcome {
	c := r.c
	var oc outcome
	snaps, o := r.implSnapshots(cs)
	oc.Snaps = snaps
	oc.ImplOK = o.Kind == "ok" && len(snaps) == len(cs.Ops)
	key := fmt.Sprintf("%d|%v", cs.NV, tokAll(cs.Ops))
	c.Eval(key, len(cs.Ops) >= 3)
	c.Hit("len=" + lenBucket(len(cs.Ops)))
	for _, op := range cs.Ops {
		c.Hit("op:" + op.K + routeSuffix(op))
		if op.K == "setIdx" || op.K == "unset" || op.K == "meth" || op.K == "call" {
			c.Hit("mut:" + mutKind(op))
		}
	}
	if cs.Shape != "" {
		c.Hit("shape:" + cs.Shape)
		c.Hit("route:" + cs.Route)
	}
	if !oc.ImplOK {
		c.Hit("impl:" + o.Kind)
	}
	// correspondence
	if r.m != nil {
		line, ends := ModelLine("fixed", cs.NV, cs.Ops)
		got, err := r.m.Ask(line)
		if err != nil {
			c.Note("model failed: %v", err)
		} else {
			ms := strings.Split(got, "|")
			var want []string
			for _, e := range ends {
				if e < len(ms) {
					want = append(want, ms[e])
				}
			}
			for _, s := range ms {
				if strings.HasPrefix(s, "!") {
					oc.Unmodeled = true
				}
			}
			if oc.Unmodeled {
				c.Hit("model:outside-fragment")
			} else if !oc.ImplOK || strings.Join(want, "|") != strings.Join(snaps, "|") {
				oc.Mismatch = true
				note := "interpreter vs Model.Heap (Cfg.fixed)"
				elided := false
				if el, err2 := r.m.Ask(strings.Replace(line, "fixed", "elided", 1)); err2 == nil {
					es := strings.Split(el, "|")
					var ew []string
					for _, e := range ends {
						if e < len(es) {
							ew = append(ew, es[e])
						}
					}
					if strings.Join(ew, "|") == strings.Join(snaps, "|") {
						elided = true
						note += "; the implementation agrees with Cfg.elided (a call result is bound to a by-value parameter without the copy: C06_call_result_copy_needed)"
					}
				}
				if pin, err2 := r.m.Ask(strings.Replace(line, "fixed", "pinned", 1)); err2 == nil {
					ps := strings.Split(pin, "|")
					var pw []string
					for _, e := range ends {
						if e < len(ps) {
							pw = append(pw, ps[e])
						}
					}
					if !elided && strings.Join(pw, "|") == strings.Join(snaps, "|") {
						note += "; the implementation agrees with Cfg.pinned (the C06 fixes are not in this tree)"
					}
				}
				if sh, err2 := r.m.Ask(strings.Replace(line, "fixed", "shallow", 1)); err2 == nil {
					ss := strings.Split(sh, "|")
					var sw []string
					for _, e := range ends {
						if e < len(ss) {
							sw = append(sw, ss[e])
						}
					}
					if !elided && strings.Join(sw, "|") == strings.Join(snaps, "|") {
						note += "; the implementation agrees with Cfg.shallow (copies share their inner arrays: the deep copy of C06-6 is not in this tree, C06_shallow_nested_counterexample)"
					}
				}
				for _, op := range cs.Ops {
					if hasCompound(op) {
						note += "; the program contains a compound assignment on an element: in Model.Heap a scalar is a value without identity (C06_compound_rhs_pure, C06_compound_is_store), an implementation that changes the element's value object in place cannot be expressed and shows here"
						break
					}
				}
				impl := strings.Join(snaps, "|")
				if !oc.ImplOK {
					impl = o.String()
				}
				c.Mismatch(cs, impl, strings.Join(want, "|"), note)
			}
		}
	}
	// property
	if judge && oc.ImplOK {
		oc.Leaks = oracle(cs, snaps)
		for _, l := range oc.Leaks {
			r.seen(r.signature(cs, l), cs)
			c.Violation(r.signature(cs, l),
				fmt.Sprintf("statement %d (%s) changed $v%d, a name it does not write through: %s -> %s", l.Step, mutKind(cs.Ops[l.Step]), l.Var, l.Before, l.After), cs)
			break // one report per case
		}
	} else if judge && !oc.ImplOK {
		sig := "run:" + o.Kind
		if cs.Route != "" {
			sig += ":" + cs.Route + ":" + cs.Mut
		}
		r.seen(sig, cs)
		if _, dup := r.sigs[sig+"#"]; !dup {
			r.sigs[sig+"#"] = Script(cs.NV, cs.Ops, "c_", false) + "\n" + o.String()
		}
		c.Violation(sig, "program did not run to completion: "+o.String(), cs)
	}
	c.SampleSome(map[string]any{"script": Script(cs.NV, cs.Ops, "c_", false), "snapshots": snaps}, 1499)
	return oc
}

func hasCompound(o Op) bool {
	if o.compound() {
		return true
	}
	for _, in := range o.Inner {
		if hasCompound(in) {
			return true
		}
	}
	return false
}

func tokAll(ops []Op) []string {
	var all []string
	for _, o := range ops {
		all = append(all, o.toks()...)
	}
	return all
}

func routeSuffix(o Op) string {
	sfx := ""
	if o.Route != "" {
		sfx = "/" + o.Route
	}
	if o.Form != "" {
		sfx += "/" + o.Form
	}
	if (o.R != nil && o.R.K == "call") || (o.Arg != nil && o.Arg.K == "call") {
		sfx += "<call"
	}
	return sfx
}

func lenBucket(n int) string {
	switch {
	case n <= 3:
		return "1-3"
	case n <= 6:
		return "4-6"
	case n <= 10:
		return "7-10"
	}
	return "11+"
}
