// Package c06: correspondence + violation search for C06 (arrays are values:
// writes through a copy never show through the original).
//
// A case is a short program over variables $v0..$v(n-1), one class O with two
// array-capable properties, and the statement alphabet of Model.Heap.Op. It is
// rendered as ONE origami script that prints every name after every statement
// (a recursive user-level printer; json_encode drops string keys on this tree),
// run in-process, and compared
//   - with the Lean model `vm_c06` (`Model.Heap.run Cfg.fixed`)   → correspondence,
//   - with a before/after snapshot oracle that involves no model: a statement
//     may change only the name it writes through, the names bound to it by an
//     explicit `&`, and the variables holding the same object handle → violation.
package c06

import (
	"fmt"
	"strings"
)

// ------------------------------------------------------------ case vocabulary (mirrors Model.Heap)

type IKey struct {
	S bool `json:"s,omitempty"` // string key k<N>; otherwise integer key N
	N int  `json:"n"`
}

type Place struct {
	K   string `json:"k"`           // v | p | i
	X   int    `json:"x,omitempty"` // variable
	P   int    `json:"p,omitempty"` // property index (k = p)
	B   *Place `json:"b,omitempty"` // base (k = i)
	Key *IKey  `json:"key,omitempty"`
}

type Lit struct {
	K     string  `json:"k"` // li | ln | ls | la | rd
	N     int     `json:"n,omitempty"`
	S     string  `json:"s,omitempty"` // ls: the string ([a-z0-9]+)
	Items []Lit   `json:"items,omitempty"` // positional items only (a keyed literal is a different runtime type)
	P     *Place  `json:"p,omitempty"`
}

// Upd is the pure function of a compound assignment (Model.Heap.Upd).
type Upd struct {
	K string `json:"k"`           // concat | add | mul | coalesce
	S string `json:"s,omitempty"` // concat: the suffix ([a-z0-9]+)
	N int    `json:"n,omitempty"`
}

type RV struct {
	K string `json:"k"` // int | null | str | lit | rd | call | upd
	N int    `json:"n,omitempty"`
	S string `json:"s,omitempty"` // str: the string ([a-z0-9]+)
	L *Lit   `json:"l,omitempty"`
	P *Place `json:"p,omitempty"`
	// upd: the right-hand side of a compound assignment `P op= c` (Model.Heap.RV.upd): as the
	// right-hand side of `setIdx B Key` with P = B[Key] it is rendered `B[Key] .= 'c';` (`+=`, `*=`,
	// `??=`), anywhere else as the expression `P . 'c'` (`+`, `*`, `??`)
	U *Upd `json:"u,omitempty"`
	// call: the result of a call that returns what place P holds (Model.Heap.RV.call), rendered
	// per kind of place: $o->getP() for a property, at(<container>, k) for an element (the
	// callee indexes its by-value copy of the container: same inner array object), and — the
	// only call that can return a variable's own array — a closure `(fn() => $v)()` is NOT
	// pointer-preserving here, so a variable is rendered through ident($v) (a copy: observably
	// the same on a tree that copies at the boundary anyway).
}

// Op is one script statement. Route / Form only choose between renderings that
// the model treats alike (they end in the same runtime function).
type Op struct {
	K     string `json:"k"` // setVar setProp setIdx unset meth new clone ref call
	X     int    `json:"x,omitempty"`
	Y     int    `json:"y,omitempty"`
	P     int    `json:"p,omitempty"`
	B     *Place `json:"b,omitempty"`
	Key   *IKey  `json:"key,omitempty"` // setIdx: nil = append; unset: the key
	R     *RV    `json:"r,omitempty"`
	M     string `json:"m,omitempty"` // push pop shift unshift sort
	N     int    `json:"n,omitempty"` // argument of push / unshift
	Route string `json:"route,omitempty"`
	// setVar: assign (default) | ident (through function ident($x){return $x;}) |
	//         getter ($o->getP()) | foreach (value variable of a foreach)
	// setProp: "" | setter ($o->setP(v))
	// meth: "" (method form) | func (array_push / array_pop / array_shift / sort)
	Inner []Op `json:"inner,omitempty"` // call: statements executed inside the callee on its by-value parameter
	Arg   *RV    `json:"arg,omitempty"`  // call: the argument expression (default: the variable $vY)
	Form  string `json:"form,omitempty"` // call: "" function | method | static | ctor | closure | named
}

func (o Op) callArg() *RV {
	if o.Arg != nil {
		return o.Arg
	}
	return RRd(V(o.Y))
}

func V(x int) *Place               { return &Place{K: "v", X: x} }
func Pr(x, p int) *Place           { return &Place{K: "p", X: x, P: p} }
func Ix(b *Place, k IKey) *Place   { kk := k; return &Place{K: "i", B: b, Key: &kk} }
func KI(n int) IKey                { return IKey{N: n} }
func KS(n int) IKey                { return IKey{S: true, N: n} }
func RInt(n int) *RV               { return &RV{K: "int", N: n} }
func RRd(p *Place) *RV             { return &RV{K: "rd", P: p} }
func RCall(p *Place) *RV           { return &RV{K: "call", P: p} }
func RLit(l Lit) *RV               { ll := l; return &RV{K: "lit", L: &ll} }
func LInt(n int) Lit               { return Lit{K: "li", N: n} }
func LStr(s string) Lit            { return Lit{K: "ls", S: s} }
func RStr(s string) *RV            { return &RV{K: "str", S: s} }
func RUpd(p *Place, u Upd) *RV     { uu := u; return &RV{K: "upd", P: p, U: &uu} }
func UCat(s string) Upd            { return Upd{K: "concat", S: s} }
func UAdd(n int) Upd               { return Upd{K: "add", N: n} }
func UMul(n int) Upd               { return Upd{K: "mul", N: n} }
func UCoalesce(n int) Upd          { return Upd{K: "coalesce", N: n} }

// compound assignment on an element: `b[k] op= c`
func cmpd(b *Place, k IKey, u Upd) Op { return Op{K: "setIdx", B: b, Key: kp(k), R: RUpd(Ix(b, k), u)} }

func (p *Place) equal(q *Place) bool {
	if p == nil || q == nil {
		return p == q
	}
	if p.K != q.K || p.X != q.X || p.P != q.P {
		return false
	}
	if p.K == "i" {
		return *p.Key == *q.Key && p.B.equal(q.B)
	}
	return true
}

// is the statement a compound assignment on the element it stores to?
func (o Op) compound() bool {
	return o.K == "setIdx" && o.Key != nil && o.R != nil && o.R.K == "upd" && o.R.P.equal(Ix(o.B, *o.Key))
}
func LArr(items ...Lit) Lit        { return Lit{K: "la", Items: items} }
func LRd(p *Place) Lit             { return Lit{K: "rd", P: p} }
func kp(k IKey) *IKey              { kk := k; return &kk }

// root variable of a place
func (p *Place) Root() int {
	for p.K == "i" {
		p = p.B
	}
	return p.X
}

// is the place rooted in an object property?
func (p *Place) ThroughObject() bool {
	for p.K == "i" {
		p = p.B
	}
	return p.K == "p"
}

func (p *Place) Depth() int {
	d := 0
	for p.K == "i" {
		d++
		p = p.B
	}
	return d
}

// ------------------------------------------------------------ model tokens

func (k IKey) tok() string {
	if k.S {
		return fmt.Sprintf("ks %d", k.N)
	}
	return fmt.Sprintf("ki %d", k.N)
}

func (p *Place) tok() string {
	switch p.K {
	case "v":
		return fmt.Sprintf("v %d", p.X)
	case "p":
		return fmt.Sprintf("p %d %d", p.X, p.P)
	}
	return "i " + p.B.tok() + " " + p.Key.tok()
}

func (l Lit) tok() string {
	switch l.K {
	case "li":
		return fmt.Sprintf("li %d", l.N)
	case "ln":
		return "ln"
	case "ls":
		return "ls " + l.S
	case "rd":
		return "lr " + l.P.tok()
	}
	var sb strings.Builder
	fmt.Fprintf(&sb, "la %d", len(l.Items))
	for _, it := range l.Items {
		sb.WriteString(" kp " + it.tok())
	}
	return sb.String()
}

func (r *RV) tok() string {
	switch r.K {
	case "int":
		return fmt.Sprintf("int %d", r.N)
	case "null":
		return "null"
	case "str":
		return "str " + r.S
	case "upd":
		if r.U.K == "concat" {
			return "upd " + r.P.tok() + " concat " + r.U.S
		}
		return fmt.Sprintf("upd %s %s %d", r.P.tok(), r.U.K, r.U.N)
	case "lit":
		return "lit " + r.L.tok()
	case "call":
		return "call " + r.P.tok()
	}
	return "rd " + r.P.tok()
}

func (o Op) methTok() string {
	switch o.M {
	case "push", "unshift":
		return fmt.Sprintf("%s %d", o.M, o.N)
	}
	return o.M
}

// model statements of one op; a call group is the parameter binding, the inner
// statements and the return assignment, all on the callee variable.
func (o Op) toks() []string {
	switch o.K {
	case "setVar":
		return []string{fmt.Sprintf("setVar %d %s", o.X, o.R.tok())}
	case "setProp":
		return []string{fmt.Sprintf("setProp %d %d %s", o.X, o.P, o.R.tok())}
	case "setIdx":
		k := "ka"
		if o.Key != nil {
			k = o.Key.tok()
		}
		return []string{fmt.Sprintf("setIdx %s %s %s", o.B.tok(), k, o.R.tok())}
	case "unset":
		return []string{fmt.Sprintf("unset %s %s", o.B.tok(), o.Key.tok())}
	case "meth":
		return []string{fmt.Sprintf("meth %s %s", o.B.tok(), o.methTok())}
	case "new":
		return []string{fmt.Sprintf("new %d", o.X)}
	case "clone":
		return []string{fmt.Sprintf("clone %d %d", o.X, o.Y)}
	case "ref":
		return []string{fmt.Sprintf("ref %d %d", o.X, o.Y)}
	case "call":
		// $vX = callK($vY): bind, inner…, return + assign
		ts := []string{fmt.Sprintf("setVar %d %s", o.X, o.callArg().tok())}
		for _, in := range o.Inner {
			ts = append(ts, in.toks()...)
		}
		ts = append(ts, fmt.Sprintf("setVar %d rd v %d", o.X, o.X))
		return ts
	}
	return nil
}

// ------------------------------------------------------------ script rendering

type renderer struct {
	calleeVar int // inside a call body this variable is rendered as $p ; -1 outside
	nObj      *int
	funcs     *strings.Builder
	nFunc     *int
	fnPrefix  string
}

func (r *renderer) varName(x int) string {
	if x == r.calleeVar {
		return "$p"
	}
	return fmt.Sprintf("$v%d", x)
}

func (r *renderer) key(k IKey) string {
	if k.S {
		return fmt.Sprintf("'k%d'", k.N)
	}
	return fmt.Sprint(k.N)
}

func (r *renderer) place(p *Place) string {
	switch p.K {
	case "v":
		return r.varName(p.X)
	case "p":
		return fmt.Sprintf("%s->p%d", r.varName(p.X), p.P)
	}
	return r.place(p.B) + "[" + r.key(*p.Key) + "]"
}

func (r *renderer) lit(l Lit) string {
	switch l.K {
	case "li":
		return fmt.Sprint(l.N)
	case "ln":
		return "null"
	case "ls":
		return "'" + l.S + "'"
	case "rd":
		return r.place(l.P)
	}
	var parts []string
	for _, it := range l.Items {
		parts = append(parts, r.lit(it))
	}
	return "[" + strings.Join(parts, ", ") + "]"
}

func (r *renderer) rv(v *RV) string {
	switch v.K {
	case "int":
		return fmt.Sprint(v.N)
	case "null":
		return "null"
	case "str":
		return "'" + v.S + "'"
	case "upd":
		op, c := v.U.opArg()
		return "(" + r.place(v.P) + " " + op + " " + c + ")"
	case "lit":
		return r.lit(*v.L)
	case "call":
		return r.callOf(v.P)
	}
	return r.place(v.P)
}

// a call expression that returns what the place holds
func (r *renderer) callOf(p *Place) string {
	switch p.K {
	case "p":
		return fmt.Sprintf("%s->get%d()", r.varName(p.X), p.P)
	case "i":
		return fmt.Sprintf("at(%s, %s)", r.place(p.B), r.key(*p.Key))
	}
	return fmt.Sprintf("ident(%s)", r.varName(p.X))
}

// binary operator and constant of an update
func (u *Upd) opArg() (string, string) {
	switch u.K {
	case "concat":
		return ".", "'" + u.S + "'"
	case "add":
		return "+", fmt.Sprint(u.N)
	case "mul":
		return "*", fmt.Sprint(u.N)
	}
	return "??", fmt.Sprint(u.N)
}

func (r *renderer) stmt(o Op) string {
	if o.compound() {
		op, c := o.R.U.opArg()
		return fmt.Sprintf("%s[%s] %s= %s;", r.place(o.B), r.key(*o.Key), op, c)
	}
	switch o.K {
	case "setVar":
		x := r.varName(o.X)
		switch o.Route {
		case "ident":
			return fmt.Sprintf("%s = ident(%s);", x, r.rv(o.R))
		case "getter":
			if o.R.K == "rd" && o.R.P.K == "p" {
				return fmt.Sprintf("%s = %s->get%d();", x, r.varName(o.R.P.X), o.R.P.P)
			}
		case "foreach":
			if o.R.K == "rd" && o.R.P.K == "i" {
				ks := fmt.Sprint(o.R.P.Key.N)
				if o.R.P.Key.S {
					ks = fmt.Sprintf("k%d", o.R.P.Key.N)
				}
				return fmt.Sprintf("foreach (%s as $fk => $fe) { if ((\"\" . $fk) === \"%s\") { %s = $fe; } }", r.place(o.R.P.B), ks, x)
			}
		}
		return fmt.Sprintf("%s = %s;", x, r.rv(o.R))
	case "setProp":
		if o.Route == "setter" {
			return fmt.Sprintf("%s->set%d(%s);", r.varName(o.X), o.P, r.rv(o.R))
		}
		return fmt.Sprintf("%s->p%d = %s;", r.varName(o.X), o.P, r.rv(o.R))
	case "setIdx":
		if o.Key == nil {
			return fmt.Sprintf("%s[] = %s;", r.place(o.B), r.rv(o.R))
		}
		return fmt.Sprintf("%s[%s] = %s;", r.place(o.B), r.key(*o.Key), r.rv(o.R))
	case "unset":
		return fmt.Sprintf("unset(%s[%s]);", r.place(o.B), r.key(*o.Key))
	case "meth":
		b := r.place(o.B)
		if o.Route == "func" {
			switch o.M {
			case "push":
				return fmt.Sprintf("array_push(%s, %d);", b, o.N)
			case "pop":
				return fmt.Sprintf("array_pop(%s);", b)
			case "shift":
				return fmt.Sprintf("array_shift(%s);", b)
			case "sort":
				return fmt.Sprintf("sort(%s);", b)
			}
		}
		switch o.M {
		case "push", "unshift":
			return fmt.Sprintf("%s->%s(%d);", b, o.M, o.N)
		}
		return fmt.Sprintf("%s->%s();", b, o.M)
	case "new":
		h := *r.nObj
		*r.nObj++
		return fmt.Sprintf("%s = new O; %s->id = %d;", r.varName(o.X), r.varName(o.X), h)
	case "clone":
		h := *r.nObj
		*r.nObj++
		return fmt.Sprintf("%s = clone %s; %s->id = %d;", r.varName(o.X), r.varName(o.Y), r.varName(o.X), h)
	case "ref":
		return fmt.Sprintf("%s = &%s;", r.varName(o.X), r.varName(o.Y))
	case "call":
		name := fmt.Sprintf("%scall%d", r.fnPrefix, *r.nFunc)
		*r.nFunc++
		in := &renderer{calleeVar: o.X, nObj: r.nObj, funcs: r.funcs, nFunc: r.nFunc, fnPrefix: r.fnPrefix}
		var body strings.Builder
		for _, s := range o.Inner {
			fmt.Fprintf(&body, "  %s\n", in.stmt(s))
		}
		x, arg := r.varName(o.X), r.rv(o.callArg())
		// every form binds the argument to the by-value parameter $p, runs the body, and hands $p back
		switch o.Form {
		case "method":
			fmt.Fprintf(r.funcs, "class %s { function m($p) {\n%s  return $p;\n} }\n", name, body.String())
			return fmt.Sprintf("%s = (new %s)->m(%s);", x, name, arg)
		case "static":
			fmt.Fprintf(r.funcs, "class %s { static function m($p) {\n%s  return $p;\n} }\n", name, body.String())
			return fmt.Sprintf("%s = %s::m(%s);", x, name, arg)
		case "ctor":
			fmt.Fprintf(r.funcs, "class %s { public $r = null; function __construct($p) {\n%s  $this->r = $p;\n} }\n", name, body.String())
			return fmt.Sprintf("%s = (new %s(%s))->r;", x, name, arg)
		case "closure":
			return fmt.Sprintf("%s = (function($p) {\n%s  return $p;\n})(%s);", x, body.String(), arg)
		case "named":
			fmt.Fprintf(r.funcs, "function %s($z = 0, $p = null) {\n%s  return $p;\n}\n", name, body.String())
			return fmt.Sprintf("%s = %s(p: %s);", x, name, arg)
		}
		fmt.Fprintf(r.funcs, "function %s($p) {\n%s  return $p;\n}\n", name, body.String())
		return fmt.Sprintf("%s = %s(%s);", x, name, arg)
	}
	return "/* ? */"
}

const classPrelude = `class O { public $id = 0; public $p0 = null; public $p1 = null;
  function get0() { return $this->p0; } function get1() { return $this->p1; }
  function set0($x) { $this->p0 = $x; } function set1($x) { $this->p1 = $x; } }
function ident($x) { return $x; }
function at($x, $k) { return $x[$k]; }
function show($v) {
  if (is_array($v)) { $s = "["; foreach ($v as $k => $x) { $s = $s . $k . "=>" . show($x) . ","; } return $s . "]"; }
  if (is_null($v)) { return "null"; }
  if (is_object($v)) { return "o" . $v->id; }
  return "" . $v;
}
function showTop($v) {
  if (is_array($v)) { return show($v); }
  if (is_object($v)) { return "o" . $v->id . "{" . show($v->p0) . ";" . show($v->p1) . "}"; }
  return show($v);
}
`

// Script renders the whole case. One output line per top-level statement.
func Script(nv int, ops []Op, fnPrefix string, withPrelude bool) string {
	var funcs, body strings.Builder
	nObj, nFunc := 0, 0
	r := &renderer{calleeVar: -1, nObj: &nObj, funcs: &funcs, nFunc: &nFunc, fnPrefix: fnPrefix}
	var names []string
	for i := 0; i < nv; i++ {
		fmt.Fprintf(&body, "$v%d = null;\n", i)
		names = append(names, fmt.Sprintf("showTop($v%d)", i))
	}
	snap := "echo " + strings.Join(names, ", ' ', ") + ", \"\\n\";\n"
	for _, o := range ops {
		body.WriteString(r.stmt(o) + "\n")
		body.WriteString(snap)
	}
	pre := "<?php\n"
	if withPrelude {
		pre += classPrelude
	}
	return pre + funcs.String() + body.String()
}

// ModelLine is the request for vm_c06; `ends` gives, per top-level statement,
// the index of its last model statement (a call group spans several).
func ModelLine(mode string, nv int, ops []Op) (line string, ends []int) {
	var all []string
	for _, o := range ops {
		all = append(all, o.toks()...)
		ends = append(ends, len(all)-1)
	}
	return fmt.Sprintf("%s\t%d\t%s", mode, nv, strings.Join(all, " ; ")), ends
}
