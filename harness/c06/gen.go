package c06

import (
	"fmt"
	"strings"

	"verif/harness/vh"
)

// ------------------------------------------------------------ shapes

type shape struct {
	Name   string
	Lit    Lit
	Extra  func(n *Place) []Op // keyed entries are added by statements (a keyed literal is another runtime type)
	Inner  *IKey               // key of an inner array, if any
	Inner2 *IKey               // key of an array inside that one
	Strs   bool                // holds strings (the model ranks them alike: no sort)
}

func setI(b *Place, k IKey, r *RV) Op { return Op{K: "setIdx", B: b, Key: kp(k), R: r} }
func app(b *Place, r *RV) Op          { return Op{K: "setIdx", B: b, R: r} }

var shapes = []shape{
	{Name: "list", Lit: LArr(LInt(1), LInt(2), LInt(3))},
	{Name: "perm", Lit: LArr(LInt(3), LInt(1), LInt(2))},
	{Name: "empty", Lit: LArr()},
	{Name: "keyed", Lit: LArr(), Extra: func(n *Place) []Op {
		return []Op{setI(n, KS(0), RInt(1)), setI(n, KS(1), RInt(2))}
	}},
	{Name: "mixed", Lit: LArr(LInt(1), LInt(2)), Extra: func(n *Place) []Op {
		return []Op{setI(n, KS(0), RInt(3))}
	}},
	{Name: "sparse", Lit: LArr(LInt(1), LInt(2)), Extra: func(n *Place) []Op {
		return []Op{setI(n, KI(5), RInt(4))}
	}},
	{Name: "nest2", Lit: LArr(LArr(LInt(1), LInt(2)), LArr(LInt(3))), Inner: kp(KI(0))},
	{Name: "nest2k", Lit: LArr(LInt(7)), Extra: func(n *Place) []Op {
		return []Op{setI(n, KS(0), RLit(LArr(LInt(4), LInt(5))))}
	}, Inner: kp(KS(0))},
	{Name: "nest3", Lit: LArr(LArr(LArr(LInt(1), LInt(2)), LInt(3)), LInt(4)), Inner: kp(KI(0)), Inner2: kp(KI(0))},
	{Name: "deepk", Lit: LArr(LInt(0)), Extra: func(n *Place) []Op {
		return []Op{setI(n, KS(0), RLit(LArr(LInt(1), LArr(LInt(2), LInt(3)))))}
	}, Inner: kp(KS(0)), Inner2: kp(KI(1))},
	// string / mixed scalar elements: copies share their value objects, which must never be changed in place
	{Name: "strs", Lit: LArr(LStr("abcdefgh"), LStr("ijklmnop"), LStr("qr")), Strs: true},
	{Name: "smix", Lit: LArr(LStr("abcdefgh"), LInt(7), Lit{K: "ln"}), Strs: true},
	{Name: "strkeyed", Lit: LArr(), Extra: func(n *Place) []Op {
		return []Op{setI(n, KS(0), RStr("abcdefgh")), setI(n, KS(1), RStr("ijklmnop"))}
	}, Strs: true},
	{Name: "strnest", Lit: LArr(LArr(LStr("abcdefgh"), LStr("ij")), LArr(LStr("kl"))), Inner: kp(KI(0)), Strs: true},
	{Name: "strnestk", Lit: LArr(LInt(7)), Extra: func(n *Place) []Op {
		return []Op{setI(n, KS(0), RLit(LArr(LStr("abcdefgh"), LInt(5))))}
	}, Inner: kp(KS(0)), Strs: true},
}

func shapeByName(n string) *shape {
	for i := range shapes {
		if shapes[i].Name == n {
			return &shapes[i]
		}
	}
	return nil
}

// statements that make place n hold the shape
func (s *shape) build(n *Place) []Op {
	var ops []Op
	r := RLit(s.Lit)
	switch n.K {
	case "v":
		ops = append(ops, Op{K: "setVar", X: n.X, R: r})
	case "p":
		ops = append(ops, Op{K: "setProp", X: n.X, P: n.P, R: r})
	default:
		ops = append(ops, Op{K: "setIdx", B: n.B, Key: n.Key, R: r})
	}
	if s.Extra != nil {
		ops = append(ops, s.Extra(n)...)
	}
	return ops
}

// ------------------------------------------------------------ routes

// a route produces the statements that create the original and its copy
type route struct {
	Name string
	// setup returns (statements, original name, copy name); copyOnly = the original
	// cannot be written while the copy exists (callee-local copy)
	Setup func(s *shape) (ops []Op, orig, cp *Place)
	Param bool
	// composite routes: the argument expression and call form of the call that binds the parameter
	Arg  *RV
	Form string
	// composite route (a call result handed straight to a by-value boundary)
	Composite bool
}

var (
	v0, v1, v2, v3 = V(0), V(1), V(2), V(3)
)

var routes = []route{
	{Name: "assign", Setup: func(s *shape) ([]Op, *Place, *Place) {
		return append(s.build(v0), Op{K: "setVar", X: 1, R: RRd(v0)}), v0, v1
	}},
	{Name: "param", Param: true, Setup: func(s *shape) ([]Op, *Place, *Place) {
		return s.build(v0), v0, v3
	}},
	{Name: "return", Setup: func(s *shape) ([]Op, *Place, *Place) {
		return append(s.build(v0), Op{K: "setVar", X: 1, R: RRd(v0), Route: "ident"}), v0, v1
	}},
	{Name: "getter", Setup: func(s *shape) ([]Op, *Place, *Place) {
		ops := append([]Op{{K: "new", X: 2}}, s.build(Pr(2, 0))...)
		return append(ops, Op{K: "setVar", X: 1, R: RRd(Pr(2, 0)), Route: "getter"}), Pr(2, 0), v1
	}},
	{Name: "propread", Setup: func(s *shape) ([]Op, *Place, *Place) {
		ops := append([]Op{{K: "new", X: 2}}, s.build(Pr(2, 0))...)
		return append(ops, Op{K: "setVar", X: 1, R: RRd(Pr(2, 0))}), Pr(2, 0), v1
	}},
	{Name: "propstore", Setup: func(s *shape) ([]Op, *Place, *Place) {
		ops := append([]Op{{K: "new", X: 2}}, s.build(v0)...)
		return append(ops, Op{K: "setProp", X: 2, P: 0, R: RRd(v0)}), v0, Pr(2, 0)
	}},
	{Name: "setter", Setup: func(s *shape) ([]Op, *Place, *Place) {
		ops := append([]Op{{K: "new", X: 2}}, s.build(v0)...)
		return append(ops, Op{K: "setProp", X: 2, P: 0, R: RRd(v0), Route: "setter"}), v0, Pr(2, 0)
	}},
	{Name: "elemstore", Setup: func(s *shape) ([]Op, *Place, *Place) {
		ops := append([]Op{{K: "setVar", X: 2, R: RLit(LArr(LInt(0), LInt(0)))}}, s.build(v0)...)
		return append(ops, setI(v2, KI(1), RRd(v0))), v0, Ix(v2, KI(1))
	}},
	{Name: "elemappend", Setup: func(s *shape) ([]Op, *Place, *Place) {
		ops := append([]Op{{K: "setVar", X: 2, R: RLit(LArr(LInt(0)))}}, s.build(v0)...)
		return append(ops, app(v2, RRd(v0))), v0, Ix(v2, KI(1))
	}},
	{Name: "litstore", Setup: func(s *shape) ([]Op, *Place, *Place) {
		return append(s.build(v0), Op{K: "setVar", X: 2, R: RLit(LArr(LInt(0), LRd(v0)))}), v0, Ix(v2, KI(1))
	}},
	{Name: "elemread", Setup: func(s *shape) ([]Op, *Place, *Place) {
		ops := append([]Op{{K: "setVar", X: 2, R: RLit(LArr(LInt(0), LInt(0)))}}, s.build(Ix(v2, KI(1)))...)
		return append(ops, Op{K: "setVar", X: 1, R: RRd(Ix(v2, KI(1)))}), Ix(v2, KI(1)), v1
	}},
	{Name: "foreach", Setup: func(s *shape) ([]Op, *Place, *Place) {
		ops := append([]Op{{K: "setVar", X: 2, R: RLit(LArr(LInt(0), LInt(0)))}}, s.build(Ix(v2, KI(1)))...)
		return append(ops, Op{K: "setVar", X: 1, R: RRd(Ix(v2, KI(1))), Route: "foreach"}), Ix(v2, KI(1)), v1
	}},
	{Name: "clone", Setup: func(s *shape) ([]Op, *Place, *Place) {
		ops := append([]Op{{K: "new", X: 2}}, s.build(Pr(2, 0))...)
		return append(ops, Op{K: "clone", X: 3, Y: 2}), Pr(2, 0), Pr(3, 0)
	}},
}

// composite routes: producer (a call that returns the owner's own array) × by-value sink
func compositeRoutes() []route {
	var rs []route
	type prod struct {
		name  string
		owner *Place
		pre   func(s *shape) []Op
	}
	prods := []prod{
		{"getter", Pr(2, 0), func(s *shape) []Op { return append([]Op{{K: "new", X: 2}}, s.build(Pr(2, 0))...) }},
		{"elemcall", Ix(v2, KI(1)), func(s *shape) []Op {
			return append([]Op{{K: "setVar", X: 2, R: RLit(LArr(LInt(0), LInt(0)))}}, s.build(Ix(v2, KI(1)))...)
		}},
	}
	for _, pd := range prods {
		pd := pd
		e := RCall(pd.owner)
		for _, form := range []string{"", "method", "static", "ctor", "closure", "named"} {
			nm := form
			if nm == "" {
				nm = "func"
			}
			rs = append(rs, route{Name: pd.name + ">" + nm, Param: true, Composite: true, Arg: e, Form: form,
				Setup: func(s *shape) ([]Op, *Place, *Place) { return pd.pre(s), pd.owner, v3 }})
		}
		rs = append(rs, route{Name: pd.name + ">assign", Composite: true, Setup: func(s *shape) ([]Op, *Place, *Place) {
			return append(pd.pre(s), Op{K: "setVar", X: 1, R: e}), pd.owner, v1
		}})
		rs = append(rs, route{Name: pd.name + ">elemstore", Composite: true, Setup: func(s *shape) ([]Op, *Place, *Place) {
			ops := append(pd.pre(s), Op{K: "setVar", X: 1, R: RLit(LArr(LInt(0), LInt(0)))})
			return append(ops, setI(v1, KI(1), e)), pd.owner, Ix(v1, KI(1))
		}})
		rs = append(rs, route{Name: pd.name + ">elemappend", Composite: true, Setup: func(s *shape) ([]Op, *Place, *Place) {
			ops := append(pd.pre(s), Op{K: "setVar", X: 1, R: RLit(LArr(LInt(0)))})
			return append(ops, app(v1, e)), pd.owner, Ix(v1, KI(1))
		}})
		// property store / setter: into the other property of the object (getter), or of a new object
		obj, pre2 := 2, []Op(nil)
		if pd.name != "getter" {
			obj, pre2 = 3, []Op{{K: "new", X: 3}}
		}
		for _, rt := range []string{"", "setter"} {
			rt := rt
			nm := "propstore"
			if rt != "" {
				nm = rt
			}
			rs = append(rs, route{Name: pd.name + ">" + nm, Composite: true, Setup: func(s *shape) ([]Op, *Place, *Place) {
				ops := append(pd.pre(s), pre2...)
				return append(ops, Op{K: "setProp", X: obj, P: 1, R: e, Route: rt}), pd.owner, Pr(obj, 1)
			}})
		}
	}
	return rs
}

func init() { routes = append(routes, compositeRoutes()...) }

func routeByName(n string) *route {
	for i := range routes {
		if routes[i].Name == n {
			return &routes[i]
		}
	}
	return nil
}

// ------------------------------------------------------------ mutations

type mutation struct {
	Name string
	// Make returns the statement that mutates name n of shape s (nil: not applicable)
	Make func(n *Place, s *shape) *Op
}

func m(o Op) *Op { return &o }

var mutations = []mutation{
	{"storeIdx", func(n *Place, s *shape) *Op { return m(setI(n, KI(0), RInt(9))) }},
	{"storeSparse", func(n *Place, s *shape) *Op { return m(setI(n, KI(7), RInt(9))) }},
	{"storeKey", func(n *Place, s *shape) *Op { return m(setI(n, KS(0), RInt(9))) }},
	{"storeArr", func(n *Place, s *shape) *Op { return m(setI(n, KI(0), RLit(LArr(LInt(8))))) }},
	{"append", func(n *Place, s *shape) *Op { return m(app(n, RInt(9))) }},
	{"unset", func(n *Place, s *shape) *Op { return m(Op{K: "unset", B: n, Key: kp(KI(0))}) }},
	{"unsetKey", func(n *Place, s *shape) *Op { return m(Op{K: "unset", B: n, Key: kp(KS(0))}) }},
	{"push", func(n *Place, s *shape) *Op { return m(Op{K: "meth", B: n, M: "push", N: 9}) }},
	{"pop", func(n *Place, s *shape) *Op { return m(Op{K: "meth", B: n, M: "pop"}) }},
	{"shift", func(n *Place, s *shape) *Op { return m(Op{K: "meth", B: n, M: "shift"}) }},
	{"unshift", func(n *Place, s *shape) *Op { return m(Op{K: "meth", B: n, M: "unshift", N: 9}) }},
	{"sort", func(n *Place, s *shape) *Op {
		if s.Inner != nil || s.Strs {
			return nil // ordering of array-valued elements is not what C06 is about; the model ranks strings alike
		}
		return m(Op{K: "meth", B: n, M: "sort"})
	}},
	{"array_push", func(n *Place, s *shape) *Op { return m(Op{K: "meth", B: n, M: "push", N: 9, Route: "func"}) }},
	{"array_pop", func(n *Place, s *shape) *Op { return m(Op{K: "meth", B: n, M: "pop", Route: "func"}) }},
	{"array_shift", func(n *Place, s *shape) *Op { return m(Op{K: "meth", B: n, M: "shift", Route: "func"}) }},
	{"nestedStoreIdx", func(n *Place, s *shape) *Op {
		if s.Inner == nil {
			return nil
		}
		return m(setI(Ix(n, *s.Inner), KI(0), RInt(9)))
	}},
	{"nestedStoreKey", func(n *Place, s *shape) *Op {
		if s.Inner == nil {
			return nil
		}
		return m(setI(Ix(n, *s.Inner), KS(3), RInt(9)))
	}},
	{"nestedAppend", func(n *Place, s *shape) *Op {
		if s.Inner == nil {
			return nil
		}
		return m(app(Ix(n, *s.Inner), RInt(9)))
	}},
	{"nestedUnset", func(n *Place, s *shape) *Op {
		if s.Inner == nil {
			return nil
		}
		return m(Op{K: "unset", B: Ix(n, *s.Inner), Key: kp(KI(0))})
	}},
	{"nestedPush", func(n *Place, s *shape) *Op {
		if s.Inner == nil {
			return nil
		}
		return m(Op{K: "meth", B: Ix(n, *s.Inner), M: "push", N: 9})
	}},
	{"nestedPop", func(n *Place, s *shape) *Op {
		if s.Inner == nil {
			return nil
		}
		return m(Op{K: "meth", B: Ix(n, *s.Inner), M: "pop"})
	}},
	{"nested2StoreIdx", func(n *Place, s *shape) *Op {
		if s.Inner2 == nil {
			return nil
		}
		return m(setI(Ix(Ix(n, *s.Inner), *s.Inner2), KI(0), RInt(9)))
	}},
	{"nested2Append", func(n *Place, s *shape) *Op {
		if s.Inner2 == nil {
			return nil
		}
		return m(app(Ix(Ix(n, *s.Inner), *s.Inner2), RInt(9)))
	}},
}

// compound assignments on an element (the new value is computed from the old one): `.=`, `+=`, `*=`, `??=`
// on the first / second / third element, on a string key, on a missing key, one level down
func init() {
	flat := func(s *shape) bool { return s.Inner == nil }
	mutations = append(mutations, []mutation{
		{"catIdx", func(n *Place, s *shape) *Op {
			if !flat(s) || s.Name == "empty" || s.Name == "keyed" || s.Name == "strkeyed" {
				return nil
			}
			return m(cmpd(n, KI(0), UCat("xy")))
		}},
		{"catKey", func(n *Place, s *shape) *Op {
			if s.Name != "keyed" && s.Name != "strkeyed" && s.Name != "mixed" {
				return nil
			}
			return m(cmpd(n, KS(0), UCat("xy")))
		}},
		{"catLast", func(n *Place, s *shape) *Op {
			if s.Name != "strs" && s.Name != "list" && s.Name != "smix" {
				return nil
			}
			return m(cmpd(n, KI(2), UCat("z")))
		}},
		{"addIdx", func(n *Place, s *shape) *Op {
			if s.Name != "list" && s.Name != "perm" && s.Name != "smix" && s.Name != "sparse" {
				return nil
			}
			return m(cmpd(n, KI(1), UAdd(3)))
		}},
		{"mulIdx", func(n *Place, s *shape) *Op {
			if s.Name != "list" && s.Name != "perm" && s.Name != "smix" {
				return nil
			}
			return m(cmpd(n, KI(1), UMul(3)))
		}},
		{"coalesceIdx", func(n *Place, s *shape) *Op {
			if s.Name != "list" && s.Name != "smix" && s.Name != "strs" {
				return nil
			}
			return m(cmpd(n, KI(2), UCoalesce(5)))
		}},
		{"coalesceNew", func(n *Place, s *shape) *Op {
			if !flat(s) {
				return nil
			}
			return m(cmpd(n, KI(7), UCoalesce(5)))
		}},
		{"nestedCatIdx", func(n *Place, s *shape) *Op {
			if s.Inner == nil || s.Inner2 != nil {
				return nil
			}
			return m(cmpd(Ix(n, *s.Inner), KI(0), UCat("xy")))
		}},
		{"nestedAddIdx", func(n *Place, s *shape) *Op {
			if s.Name != "nest2" && s.Name != "nest2k" && s.Name != "strnestk" {
				return nil
			}
			return m(cmpd(Ix(n, *s.Inner), KI(1), UAdd(3)))
		}},
		{"nested2CatIdx", func(n *Place, s *shape) *Op {
			if s.Inner2 == nil {
				return nil
			}
			return m(cmpd(Ix(Ix(n, *s.Inner), *s.Inner2), KI(0), UCat("xy")))
		}},
	}...)
}

func mutationByName(n string) *mutation {
	for i := range mutations {
		if mutations[i].Name == n {
			return &mutations[i]
		}
	}
	return nil
}

// relative depth class of a mutation name ("flat" mutations write the array the
// name holds; "nested" ones write an array inside it)
func nestedMutation(name string) bool { return len(name) > 6 && name[:6] == "nested" }

// plain mutations that are also applied to the shapes with string elements (every compound
// assignment is; the plain stores replace cells whatever the cells hold)
var strShapeMuts = map[string]bool{"storeIdx": true, "storeKey": true, "append": true, "unset": true, "push": true, "pop": true,
	"array_shift": true, "nestedStoreIdx": true, "nestedAppend": true, "nestedUnset": true}

func compoundMutation(name string) bool {
	return strings.Contains(name, "cat") || strings.Contains(name, "Cat") || strings.Contains(name, "add") || strings.Contains(name, "Add") ||
		strings.HasPrefix(name, "mul") || strings.HasPrefix(name, "coalesce")
}

// triple builds the enumerated case (shape × route × mutation × side).
func triple(s *shape, r *route, mu *mutation, side string) *Case {
	if s.Strs && !strShapeMuts[mu.Name] && !compoundMutation(mu.Name) {
		return nil
	}
	ops, orig, cp := r.Setup(s)
	target := cp
	if side == "orig" {
		target = orig
	}
	if r.Param {
		if side == "orig" {
			return nil
		}
		mo := mu.Make(v3, s)
		if mo == nil {
			return nil
		}
		ops = append(ops, Op{K: "call", X: 3, Y: 0, Inner: []Op{*mo}, Arg: r.Arg, Form: r.Form})
	} else {
		mo := mu.Make(target, s)
		if mo == nil {
			return nil
		}
		ops = append(ops, *mo)
	}
	return &Case{NV: 4, Ops: ops, Shape: s.Name, Route: r.Name, Mut: mu.Name, Side: side}
}

// ------------------------------------------------------------ seeded programs

type gen struct {
	r  *vh.Rand
	nv int
	// light static tracking so that statements stay inside the modelled fragment
	kind []string // per variable: "" null | arr | obj | int
	prop [][2]string
	objOf []int // object id held by the variable (when kind = obj)
	depth []int // nesting depth of the array a variable holds (0 = flat)
	nObj int
	nested bool // allow writes into inner arrays
}

func (g *gen) pickKind(k string) (int, bool) {
	var c []int
	for i, kk := range g.kind {
		if kk == k {
			c = append(c, i)
		}
	}
	if len(c) == 0 {
		return 0, false
	}
	return vh.Pick(g.r, c), true
}

var genWords = []string{"abcdefgh", "ij", "klmnopqrstuv", "w", "x0y1z2a3"}

// a scalar item: an integer, or (one in three) a string
func (g *gen) item() Lit {
	if g.r.Chance(33) {
		return LStr(vh.Pick(g.r, genWords))
	}
	return LInt(g.r.Intn(10))
}

// (`*=` on an element that is not a number is a fatal error on this tree, and the generator does not
// know what an element holds: `*=` is exercised by the triples, where it does)
func (g *gen) upd() Upd {
	switch g.r.Intn(8) {
	case 0:
		return UAdd(g.r.Range(1, 5))
	case 2:
		return UCoalesce(g.r.Intn(10))
	}
	return UCat(vh.Pick(g.r, genWords))
}

func (g *gen) litShape() (Lit, int) {
	switch g.r.Intn(8) {
	case 6:
		return LArr(g.item(), g.item(), g.item()), 0
	case 7:
		return LArr(LArr(g.item(), g.item()), g.item()), 1
	case 0:
		return LArr(), 0
	case 1:
		return LArr(LInt(g.r.Intn(10)), LInt(g.r.Intn(10)), LInt(g.r.Intn(10))), 0
	case 2:
		return LArr(LInt(g.r.Intn(10))), 0
	case 3:
		return LArr(LArr(LInt(g.r.Intn(10)), LInt(g.r.Intn(10))), LInt(g.r.Intn(10))), 1
	case 4:
		return LArr(LInt(g.r.Intn(10)), LArr(LArr(LInt(g.r.Intn(10))), LInt(g.r.Intn(10)))), 2
	}
	return LArr(LInt(g.r.Intn(10)), LInt(g.r.Intn(10))), 0
}

func (g *gen) key() IKey {
	if g.r.Chance(35) {
		return KS(g.r.Intn(3))
	}
	if g.r.Chance(8) {
		return KI(g.r.Range(4, 8))
	}
	return KI(g.r.Intn(4))
}

// an array-holding name: a variable, or a property of an object variable
func (g *gen) arrayName() (*Place, bool) {
	var c []*Place
	for i, k := range g.kind {
		if k == "arr" {
			c = append(c, V(i))
		}
		if k == "obj" {
			for p := 0; p < 2; p++ {
				if g.prop[g.objOf[i]][p] == "arr" {
					c = append(c, Pr(i, p))
				}
			}
		}
	}
	if len(c) == 0 {
		return nil, false
	}
	return vh.Pick(g.r, c), true
}

// the value of an array name as a right-hand side: read directly, or — for a property —
// through a call that returns it (a composite route when it feeds a by-value boundary)
func (g *gen) readOf(src *Place) *RV {
	if src.K == "p" && g.r.Chance(45) {
		return RCall(src)
	}
	return RRd(src)
}

var callForms = []string{"", "", "method", "static", "ctor", "closure", "named"}

// in nested mode a write may go one or two levels into the array a name holds
func (g *gen) maybeInner(nm *Place) *Place {
	if !g.nested || !g.r.Chance(45) {
		return nm
	}
	nm = Ix(nm, g.key())
	if g.r.Chance(25) {
		nm = Ix(nm, g.key())
	}
	return nm
}

// program generates `n` statements. Only constructs whose typing is known
// statically are used, so the run stays inside the modelled fragment.
func (g *gen) program(n int) []Op {
	g.kind = make([]string, g.nv)
	g.objOf = make([]int, g.nv)
	g.prop = nil
	g.nObj = 0
	var ops []Op
	alias := newAlias(g.nv)
	setKind := func(x int, k string, obj int) {
		for y := range g.kind {
			if alias.cell[y] == alias.cell[x] {
				g.kind[y] = k
				g.objOf[y] = obj
			}
		}
	}
	for len(ops) < n {
		switch g.r.Intn(16) {
		case 0, 1: // literal into a variable
			x := g.r.Intn(g.nv)
			l, _ := g.litShape()
			ops = append(ops, Op{K: "setVar", X: x, R: RLit(l)})
			setKind(x, "arr", 0)
		case 2, 3: // copy variable ← array name (assign / ident / getter)
			src, ok := g.arrayName()
			if !ok {
				continue
			}
			x := g.r.Intn(g.nv)
			o := Op{K: "setVar", X: x, R: RRd(src)}
			if src.K == "p" && g.r.Chance(40) {
				o.Route = "getter"
			} else if g.r.Chance(30) {
				o.Route = "ident"
				o.R = g.readOf(src) // ident($o->getP()): call result into a parameter, returned, assigned
			}
			ops = append(ops, o)
			setKind(x, "arr", 0)
		case 4: // new object
			x := g.r.Intn(g.nv)
			ops = append(ops, Op{K: "new", X: x})
			g.prop = append(g.prop, [2]string{"", ""})
			setKind(x, "obj", g.nObj)
			g.nObj++
		case 5: // property store of an array
			x, ok := g.pickKind("obj")
			if !ok {
				continue
			}
			p := g.r.Intn(2)
			o := Op{K: "setProp", X: x, P: p}
			if src, ok2 := g.arrayName(); ok2 && g.r.Chance(60) {
				o.R = g.readOf(src)
			} else {
				l, _ := g.litShape()
				o.R = RLit(l)
			}
			if g.r.Chance(30) {
				o.Route = "setter"
			}
			ops = append(ops, o)
			g.prop[g.objOf[x]][p] = "arr"
		case 6: // handle copy / clone
			y, ok := g.pickKind("obj")
			if !ok {
				continue
			}
			x := g.r.Intn(g.nv)
			if g.r.Bool() {
				ops = append(ops, Op{K: "setVar", X: x, R: RRd(V(y))})
				setKind(x, "obj", g.objOf[y])
			} else {
				ops = append(ops, Op{K: "clone", X: x, Y: y})
				g.prop = append(g.prop, g.prop[g.objOf[y]])
				setKind(x, "obj", g.nObj)
				g.nObj++
			}
		case 7: // explicit reference
			if !g.r.Chance(35) {
				continue
			}
			x, y := g.r.Intn(g.nv), g.r.Intn(g.nv)
			if x == y {
				continue
			}
			ops = append(ops, Op{K: "ref", X: x, Y: y})
			alias.cell[x] = alias.cell[y]
			g.kind[x], g.objOf[x] = g.kind[y], g.objOf[y]
		case 8, 9, 10: // flat store through a name
			nm, ok := g.arrayName()
			if !ok {
				continue
			}
			var r *RV
			switch g.r.Intn(5) {
			case 0:
				if src, ok2 := g.arrayName(); ok2 {
					r = g.readOf(src)
				} else {
					r = RInt(g.r.Intn(10))
				}
			case 1:
				l, _ := g.litShape()
				r = RLit(l)
			case 2:
				r = RStr(vh.Pick(g.r, genWords))
			default:
				r = RInt(g.r.Intn(10))
			}
			// (a copy of an array stored into one of its own inner arrays — `$a[0][] = $a` — was a
			// cyclic value before C06-6, fatal to print: finding cycle:nested-self-store, fixed)
			nm = g.maybeInner(nm)
			if g.r.Chance(30) {
				ops = append(ops, app(nm, r))
			} else if g.r.Chance(40) {
				// compound assignment: the new element is computed from the old one
				ops = append(ops, cmpd(nm, g.key(), g.upd()))
			} else {
				ops = append(ops, setI(nm, g.key(), r))
			}
		case 11: // unset
			nm, ok := g.arrayName()
			if !ok {
				continue
			}
			nm = g.maybeInner(nm)
			ops = append(ops, Op{K: "unset", B: nm, Key: kp(g.key())})
		case 12, 13: // in-place method
			nm, ok := g.arrayName()
			if !ok {
				continue
			}
			nm = g.maybeInner(nm)
			o := Op{K: "meth", B: nm, M: vh.Pick(g.r, []string{"push", "pop", "shift", "unshift", "push", "pop"}), N: g.r.Intn(10)}
			if nm.Depth() == 0 && (o.M == "push" || o.M == "pop" || o.M == "shift") && g.r.Chance(35) {
				o.Route = "func"
			}
			ops = append(ops, o)
		case 14: // by-value call that mutates its parameter; the argument is any array name, read
			// directly or through a getter (composite route), the call any of the call forms
			src, ok := g.arrayName()
			if !ok {
				continue
			}
			x := g.nv - 1
			if alias.cell[x] != x || (src.K == "v" && src.X == x) {
				continue
			}
			y := src.X
			shared := false
			for z := range alias.cell {
				if z != x && alias.cell[z] == x {
					shared = true
				}
			}
			if shared {
				continue
			}
			var inner []Op
			for i := 0; i < g.r.Range(1, 3); i++ {
				px := g.maybeInner(V(x)) // nested mode: the callee may write into an inner array of its parameter
				switch g.r.Intn(4) {
				case 0:
					inner = append(inner, app(px, RInt(g.r.Intn(10))))
				case 1:
					if g.r.Chance(40) {
						inner = append(inner, cmpd(px, g.key(), g.upd()))
					} else {
						inner = append(inner, setI(px, g.key(), RInt(g.r.Intn(10))))
					}
				case 2:
					inner = append(inner, Op{K: "meth", B: px, M: vh.Pick(g.r, []string{"push", "pop", "shift"}), N: g.r.Intn(10)})
				case 3:
					inner = append(inner, Op{K: "unset", B: px, Key: kp(g.key())})
				}
			}
			ops = append(ops, Op{K: "call", X: x, Y: y, Inner: inner, Arg: g.readOf(src), Form: vh.Pick(g.r, callForms)})
			setKind(x, "arr", 0)
		case 15: // read an element into a variable (may yield a scalar: the variable is then unusable as array name)
			nm, ok := g.arrayName()
			if !ok {
				continue
			}
			x := g.r.Intn(g.nv)
			ops = append(ops, Op{K: "setVar", X: x, R: RRd(Ix(nm, g.key()))})
			setKind(x, "?", 0)
		}
	}
	return ops
}

func describe(cs *Case) string {
	if cs.Shape != "" {
		return fmt.Sprintf("%s/%s/%s/%s", cs.Shape, cs.Route, cs.Mut, cs.Side)
	}
	return fmt.Sprintf("seq(%d)", len(cs.Ops))
}
