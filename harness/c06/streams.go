package c06

import (
	"fmt"
	"strings"

	"verif/harness/vh"
)

// Script-level streams: constructs that Model.Heap does not model, judged by the
// same before/after oracle (or by a fixed expectation for *intended* sharing).

// ------------------------------------------------------------ keyed literals (runtime type ObjectValue)

type kvRoute struct {
	Name  string
	Setup string // %s = the literal
	Orig  string
	Copy  string
	Param bool
}

var kvRoutes = []kvRoute{
	{Name: "assign", Setup: "$a = %s; $b = $a;", Orig: "$a", Copy: "$b"},
	{Name: "param", Setup: "$a = %s;", Orig: "$a", Copy: "$p", Param: true},
	{Name: "return", Setup: "$a = %s; $b = ident($a);", Orig: "$a", Copy: "$b"},
	{Name: "propstore", Setup: "$o = new O; $a = %s; $o->p0 = $a;", Orig: "$a", Copy: "$o->p0"},
	{Name: "propread", Setup: "$o = new O; $o->p0 = %s; $b = $o->p0;", Orig: "$o->p0", Copy: "$b"},
	{Name: "elemstore", Setup: "$c = [0, 0]; $a = %s; $c[1] = $a;", Orig: "$a", Copy: "$c[1]"},
	{Name: "elemread", Setup: "$c = [0, 0]; $c[1] = %s; $b = $c[1];", Orig: "$c[1]", Copy: "$b"},
	{Name: "clone", Setup: "$o = new O; $o->p0 = %s; $o2 = clone $o;", Orig: "$o->p0", Copy: "$o2->p0"},
}

type kvShape struct {
	Name   string
	Lit    string
	Nested bool
}

var kvShapes = []kvShape{
	{Name: "kvflat", Lit: "['a' => 1, 'b' => 2]"},
	{Name: "kvmixed", Lit: "[1, 2, 'a' => 3]"},
	{Name: "kvnest", Lit: "['a' => ['x' => 1, 'y' => 2], 'b' => 2]", Nested: true},
	{Name: "kvlist", Lit: "['a' => [1, 2], 'b' => [3]]", Nested: true},
}

type kvMut struct {
	Name   string
	Stmt   string // %s = the name written through
	Nested bool
	Only   string // only for this shape
}

var kvMuts = []kvMut{
	{Name: "storeKey", Stmt: "%s['a'] = 9;"},
	{Name: "storeKeyNew", Stmt: "%s['z'] = 9;"},
	{Name: "storeIdx", Stmt: "%s[0] = 9;"},
	{Name: "storeArr", Stmt: "%s['a'] = [8];"},
	{Name: "unsetKey", Stmt: "unset(%s['a']);"},
	{Name: "nestedStoreKey", Stmt: "%s['a']['x'] = 9;", Nested: true},
	{Name: "nestedStoreIdx", Stmt: "%s['a'][0] = 9;", Nested: true, Only: "kvlist"},
	{Name: "nestedAppend", Stmt: "%s['a'][] = 9;", Nested: true, Only: "kvlist"},
	{Name: "nestedUnset", Stmt: "unset(%s['a']['x']);", Nested: true},
}

var kvFn int

func kvCase(s kvShape, r kvRoute, mu kvMut, side string) *Case {
	if (mu.Nested && !s.Nested) || (mu.Only != "" && mu.Only != s.Name) {
		return nil
	}
	var sb strings.Builder
	sb.WriteString("<?php\n")
	if r.Param {
		if side == "orig" {
			return nil
		}
		kvFn++
		fmt.Fprintf(&sb, "function kvcallee%d($p) { %s return 0; }\n", kvFn, fmt.Sprintf(mu.Stmt, "$p"))
		sb.WriteString(fmt.Sprintf(r.Setup, s.Lit) + "\n")
		fmt.Fprintf(&sb, "echo show($a), \"\\n\";\nkvcallee%d($a);\necho show($a), \"\\n\";\n", kvFn)
	} else {
		target, other := r.Copy, r.Orig
		if side == "orig" {
			target, other = r.Orig, r.Copy
		}
		sb.WriteString(fmt.Sprintf(r.Setup, s.Lit) + "\n")
		fmt.Fprintf(&sb, "echo show(%s), \"\\n\";\n%s\necho show(%s), \"\\n\";\n", other, fmt.Sprintf(mu.Stmt, target), other)
	}
	return &Case{Kind: "kv", Src: sb.String(), Shape: s.Name, Route: r.Name, Mut: mu.Name, Side: side}
}

// runKV: the other name must print the same before and after the write.
func (r *runner) runKV(cs *Case) {
	c := r.c
	o := r.runScript(cs.Src)
	c.Eval("kv|"+cs.Src, true)
	c.Hit("kv:" + cs.Shape)
	lines := strings.Split(strings.TrimRight(o.Out, "\n"), "\n")
	if o.Kind != "ok" || len(lines) != 2 {
		r.seen("kvrun:"+cs.Route+":"+cs.Mut, cs)
		c.Violation("kvrun:"+cs.Route+":"+cs.Mut, "keyed-literal program did not run to completion: "+o.String(), cs)
		return
	}
	if lines[0] != lines[1] {
		r.seen("kvleak:"+cs.Route+":"+cs.Mut, cs)
		c.Violation("kvleak:"+cs.Route+":"+cs.Mut,
			fmt.Sprintf("keyed array: write through one name changed the other: %s -> %s", lines[0], lines[1]), cs)
	}
}

// ------------------------------------------------------------ cyclic value (known finding)

// A copy of an array appended to one of its own inner arrays: the copy shares that
// inner array, so the value now contains itself; any recursive traversal
// (json_encode, a user printer, count recursive) overflows the Go stack — fatal.
const cycleSrc = "<?php\n$a = [[1]];\n$a[0][] = $a;\necho json_encode($a), \"\\n\";\n"

func (r *runner) runCycle() {
	c := r.c
	o := r.runScript(cycleSrc)
	c.Eval("cycle", true)
	c.Hit("cycle")
	cs := &Case{Kind: "cycle", Src: cycleSrc, Mut: "nested-self-store"}
	switch {
	case o.Kind == "crash" || o.Kind == "hang":
		c.Violation("cycle:nested-self-store", "$a = [[1]]; $a[0][] = $a; builds a cyclic array (the stored copy shares $a[0]); json_encode($a) ends the interpreter process: "+o.Kind+" "+o.Detail, cs)
	case o.Kind == "ok" && strings.TrimSpace(o.Out) == "[[1,[[1]]]]":
		// value semantics: fine
	default:
		c.Violation("cycle:other", "unexpected result of the nested self-store: "+o.String(), cs)
	}
}

// ------------------------------------------------------------ intended sharing must keep sharing

type shareCase struct {
	Name string
	Src  string
	Want string
	Sig  string // signature prefix; default "noshare"
}

var shareCases = []shareCase{
	{"ref-var-store", "$a = [1, 2, 3]; $r = &$a; $r[0] = 9; $r[] = 4; echo show($a), ' ', show($r);", "[0=>9,1=>2,2=>3,3=>4,] [0=>9,1=>2,2=>3,3=>4,]", ""},
	{"ref-var-orig", "$a = [1, 2, 3]; $r = &$a; $a[1] = 7; $a->push(5); echo show($a), ' ', show($r);", "[0=>1,1=>7,2=>3,3=>5,] [0=>1,1=>7,2=>3,3=>5,]", ""},
	{"ref-slot-write", "$a = [1, 2, 3]; $r = &$a[0]; $r = 9; echo show($a), ' ', show($r);", "[0=>9,1=>2,2=>3,] 9", ""},
	{"ref-slot-store", "$a = [1, 2, 3]; $r = &$a[0]; $a[0] = 5; echo show($a), ' ', show($r);", "[0=>5,1=>2,2=>3,] 5", ""},
	{"ref-param", "function addr(&$x) { $x[] = 7; $x[0] = 8; } $a = [1]; addr($a); echo show($a);", "[0=>8,1=>7,]", ""},
	{"handle", "$o = new O; $o->p0 = [1]; $o2 = $o; $o2->p0[] = 2; $o2->p0[0] = 5; echo show($o->p0), ' ', show($o2->p0);", "[0=>5,1=>2,] [0=>5,1=>2,]", ""},
	{"handle-in-array", "$o = new O; $o->p0 = [1]; $c = [$o]; $d = $c; $d[0]->p0[] = 2; echo show($o->p0);", "[0=>1,1=>2,]", ""},
	// a nested write changes what it names and nothing else of the same array (fixed: C06-2)
	{"nested-store-list", "$a = [[1, 2], [3]]; $a[0][0] = 9; $a[1][] = 4; echo show($a);", "[0=>[0=>9,1=>2,],1=>[0=>3,1=>4,],]", "expect"},
	{"concat-assign-elem", "$a = [3, 1]; $a[0] .= 'z'; echo show($a);", "[0=>3z,1=>1,]", "expect"},
	// a reference taken to an element of a COPY binds a cell of the copy, not the cell the copy shares with
	// its source (fixed: C06-7); a reference that exists before the copy keeps writing through both (as in PHP)
	{"ref-slot-of-copy", "$a = [1, 2, 3]; $b = $a; $r = &$b[0]; $r = 9; $b[0] = 7; $b[1] = 8; echo show($a), ' ', show($b), ' ', show($r);", "[0=>1,1=>2,2=>3,] [0=>7,1=>8,2=>3,] 7", "refleak"},
	{"ref-param-elem-of-copy", "function c06setr5(&$x) { $x = 5; } $a = [1, 2, 3]; $b = $a; c06setr5($b[0]); echo show($a), ' ', show($b);", "[0=>1,1=>2,2=>3,] [0=>5,1=>2,2=>3,]", "refleak"},
	{"ref-param-keyelem-of-copy", "function c06setr6(&$x) { $x = 6; } $a = []; $a['k'] = 1; $a['m'] = 2; $b = $a; c06setr6($b['k']); echo show($a), ' ', show($b);", "[k=>1,m=>2,] [k=>6,m=>2,]", "refleak"},
	{"ref-slot-of-orig", "$a = [1, 2, 3]; $b = $a; $r = &$a[1]; $r = 9; echo show($a), ' ', show($b);", "[0=>1,1=>9,2=>3,] [0=>1,1=>2,2=>3,]", "refleak"},
	{"ref-arrslot-before-copy", "$a = [[1], 2]; $r = &$a[0]; $b = $a; $b[0][] = 7; echo show($a), ' ', show($b), ' ', show($r);", "[0=>[0=>1,1=>7,],1=>2,] [0=>[0=>1,1=>7,],1=>2,] [0=>1,1=>7,]", ""},
	// a scalar value object is shared by everything that holds it (property defaults, array elements): reading JSON
	// into an object must not change it in place (fixed: C06-8)
	{"json-decode-class-default", "class C06PLJ { public $n = 1; public $f = 1.5; } $x = new C06PLJ; $a = [$x->n, $x->f, 7]; $b = $a; $y = json_decode('{\"n\": 5, \"f\": 2.5}', 'C06PLJ'); echo show($a), ' ', show($b), ' ', $x->n, ' ', (new C06PLJ)->n, ' ', $y->n;", "[0=>1,1=>1.5,2=>7,] [0=>1,1=>1.5,2=>7,] 1 1 5", "payload"},
	{"ref-slot-before-copy", "$a = [1, 2]; $r = &$a[0]; $b = $a; $b[0] = 7; echo show($a), ' ', show($b), ' ', show($r);", "[0=>7,1=>2,] [0=>7,1=>2,] 7", ""},
}

func (r *runner) runShare(sc shareCase) {
	c := r.c
	o := r.runScript("<?php\n" + sc.Src + "\n")
	c.Eval("share|"+sc.Name, true)
	c.Hit("share")
	if o.Kind != "ok" || strings.TrimSpace(o.Out) != sc.Want {
		pre, what := "noshare", "explicitly shared names no longer share"
		if sc.Sig != "" {
			pre, what = sc.Sig, "a write did not do exactly what it names"
		}
		if sc.Sig == "payload" {
			what = "a scalar value object shared by an array element was changed in place"
		}
		if sc.Sig == "refleak" {
			what = "a reference taken to an element of one copy of an array writes through to the other copy"
		}
		c.Violation(pre+":"+sc.Name, fmt.Sprintf("%s: got %q want %q", what, o.String(), sc.Want),
			&Case{Kind: "share", Src: sc.Src, Mut: sc.Name})
	}
}

var _ = vh.Pick[int]
