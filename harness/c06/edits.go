package c06

import (
	"fmt"
	"sort"
	"strings"

	"verif/harness/vh"
)

// Edit-history stream (script level, judged by the before/after oracle only; kind `e`).
//
// The history stream (history.go) gives the source of a copy a past of ONE operation about
// references. What a copy routine does may, however, also depend on a SUMMARY of the array's
// contents that is kept on the array object and was computed at an earlier point — "held no
// array when last copied", a count, a kind tag, a hash — and such a summary is true only as long
// as EVERY piece of code that edits the element list keeps it up to date. The interpreter edits
// ArrayValue.List in many places besides the setters of data/value_array.go (array_push,
// array_unshift, array_splice, ->push / ->unshift / ->splice, by-reference parameters and
// callbacks, destructuring, union-assign, …; the regenerated table Generated.C06ArrayFields
// lists the sites). A stale summary shows only after a history of several steps:
//     [build] → [copy: the summary is computed] → [an editor that bypasses the bookkeeping
//     changes what the summary is about] → [copy] → [nested write through either name].
//
// This stream enumerates
//     start shape     (flat list, flat string-keyed, a list that already holds an array, keyed literal)
//   × edit sequence   (k = 1..3 operations drawn from EVERY way to edit an array — index syntax
//                      forms and every built-in function / array method / by-reference form that
//                      edits the element list — that insert a nested array, replace a scalar by an
//                      array, remove elements (the only nested array included) or edit scalars
//                      only; before every operation optionally a COPY of the array, which stays
//                      alive and is observed)
//   × placement       (on a variable `$h` that then is the value of the route, or directly on the
//                      route's original name)
//   × element kind × copy route × mutation form × written side of payload.go
// and demands: every OTHER name — the route's other side, `$h`, the builder variable, every copy
// made on the way — prints the same before and after the mutation.
//
// The mutation addresses the (first) nested array of the written name, wherever the sequence
// has put it: the key is looked up in the script itself after the copy under test
// (`$ek = ekey(<written name>)`), so the stream needs no model of what the editors do; when the
// value holds no array at that point the same form is applied to its first elements.

const ePrelude = `function ekey($v) { foreach ($v as $k => $x) { if (is_array($x)) { return $k; } } return null; }
function ekeyn($v, $n) { $i = 0; foreach ($v as $k => $x) { if ($i === $n) { return $k; } $i++; } return null; }
function e_put(&$x, $v) { $x = $v; }
function e_app(&$arr, $v) { $arr[] = $v; }
function e_byval($arr) { return 0; }
`

type eStart struct {
	Name string
	Pre  string
	Expr string
	K1   string // an existing key
}

var eStarts = []eStart{
	{Name: "flat", Expr: "[{2}, 7]", K1: "1"},
	{Name: "flatk", Pre: "$t = []; $t['k0'] = {2}; $t['k1'] = 7;", Expr: "$t", K1: "'k1'"},
	{Name: "nest1", Expr: "[{2}, 7, [{0}, {1}]]", K1: "1"},
	{Name: "kv", Expr: "['k0' => {2}, 'k1' => 7]", K1: "'k1'"},
}

// {N} = the array, {A} = a nested array literal, {K1} = an existing key
type eOp struct {
	Name        string
	Class       string // ins (an array enters / replaces a scalar) | del (elements leave) | scal (scalars only)
	Stmt        string
	Funcs       []string
	MayNotParse bool
}

var eOps = []eOp{
	// ---- an array enters: index syntax
	{Name: "idxAppend", Class: "ins", Stmt: "{N}[] = {A};"},
	{Name: "idxNewInt", Class: "ins", Stmt: "{N}[5] = {A};"},
	{Name: "idxNewKey", Class: "ins", Stmt: "{N}['z'] = {A};"},
	{Name: "idxReplace", Class: "ins", Stmt: "{N}[{K1}] = {A};"},
	{Name: "idxAppendVar", Class: "ins", Stmt: "$ev = {A}; {N}[] = $ev;"},
	{Name: "idxCoalesce", Class: "ins", Stmt: "{N}['z'] ??= {A};"},
	{Name: "unionAssign", Class: "ins", Stmt: "{N} += ['z' => {A}];"},
	{Name: "destructureInto", Class: "ins", Stmt: "[{N}[{K1}]] = [{A}];"},
	{Name: "listInto", Class: "ins", Stmt: "list({N}[{K1}]) = [{A}];", MayNotParse: true},
	{Name: "foreachInto", Class: "ins", Stmt: "foreach ([{A}] as {N}[{K1}]) { }", MayNotParse: true},
	// ---- an array enters: built-in functions that edit the element list
	{Name: "array_push", Class: "ins", Stmt: "array_push({N}, {A});", Funcs: []string{"array_push"}},
	{Name: "array_push2", Class: "ins", Stmt: "array_push({N}, 'S', {A});", Funcs: []string{"array_push"}},
	{Name: "array_unshift", Class: "ins", Stmt: "array_unshift({N}, {A});", Funcs: []string{"array_unshift"}},
	{Name: "array_spliceIns", Class: "ins", Stmt: "array_splice({N}, 1, 0, [{A}]);", Funcs: []string{"array_splice"}},
	{Name: "array_spliceRep", Class: "ins", Stmt: "array_splice({N}, 1, 1, [{A}]);", Funcs: []string{"array_splice"}},
	{Name: "array_walkSet", Class: "ins", Stmt: "array_walk({N}, function(&$v, $k) { if ($k === {K1}) { $v = {A}; } });", Funcs: []string{"array_walk"}},
	{Name: "preg_matchElem", Class: "ins", Stmt: "preg_match('/b(c)/', 'abc', {N}[{K1}]);", Funcs: []string{"preg_match"}},
	{Name: "settypeElem", Class: "ins", Stmt: "settype({N}[{K1}], 'array');", Funcs: []string{"settype"}},
	{Name: "explodeAppend", Class: "ins", Stmt: "{N}[] = explode(',', 'a,b');", Funcs: []string{"explode"}},
	{Name: "mergeAssign", Class: "ins", Stmt: "{N} = array_merge({N}, [{A}]);", Funcs: []string{"array_merge"}},
	{Name: "padAssign", Class: "ins", Stmt: "{N} = array_pad({N}, 4, {A});", Funcs: []string{"array_pad"}},
	{Name: "replaceAssign", Class: "ins", Stmt: "{N} = array_replace({N}, [1 => {A}]);", Funcs: []string{"array_replace"}},
	// ---- an array enters: array methods
	{Name: "pushM", Class: "ins", Stmt: "{N}->push({A});"},
	{Name: "unshiftM", Class: "ins", Stmt: "{N}->unshift({A});"},
	{Name: "spliceMIns", Class: "ins", Stmt: "{N}->splice(1, 0, {A});"},
	{Name: "spliceMRep", Class: "ins", Stmt: "{N}->splice(1, 1, {A});"},
	{Name: "fillM", Class: "ins", Stmt: "{N}->fill({A});"},
	// ---- an array enters: through a reference
	{Name: "refParamElem", Class: "ins", Stmt: "e_put({N}[{K1}], {A});"},
	{Name: "refParamWhole", Class: "ins", Stmt: "e_app({N}, {A});"},
	{Name: "closureRefWhole", Class: "ins", Stmt: "$ef = function(&$arr) { $arr[] = {A}; }; $ef({N});"},
	// ---- elements leave (the only nested array included)
	{Name: "array_pop", Class: "del", Stmt: "array_pop({N});", Funcs: []string{"array_pop"}},
	{Name: "array_shift", Class: "del", Stmt: "array_shift({N});", Funcs: []string{"array_shift"}},
	{Name: "array_spliceDel", Class: "del", Stmt: "array_splice({N}, 1, 1);", Funcs: []string{"array_splice"}},
	{Name: "popM", Class: "del", Stmt: "{N}->pop();"},
	{Name: "shiftM", Class: "del", Stmt: "{N}->shift();"},
	{Name: "unsetK1", Class: "del", Stmt: "unset({N}[{K1}]);"},
	{Name: "unsetNested", Class: "del", Stmt: "$eu = ekey({N}); if ($eu !== null) { unset({N}[$eu]); }"},
	{Name: "scalarOverNested", Class: "del", Stmt: "$eu = ekey({N}); if ($eu !== null) { {N}[$eu] = 0; }"},
	{Name: "filterAssign", Class: "del", Stmt: "{N} = array_filter({N}, function($x) { return !is_array($x); });", Funcs: []string{"array_filter"}},
	// ---- scalars only / order
	{Name: "pushScalar", Class: "scal", Stmt: "array_push({N}, 'S');", Funcs: []string{"array_push"}},
	{Name: "appendScalar", Class: "scal", Stmt: "{N}[] = 'S';"},
	{Name: "storeScalar", Class: "scal", Stmt: "{N}[{K1}] = 'S';"},
	{Name: "pushMScalar", Class: "scal", Stmt: "{N}->push('S');"},
	{Name: "reverseM", Class: "scal", Stmt: "{N}->reverse();"},
	{Name: "sortF", Class: "scal", Stmt: "sort({N});", Funcs: []string{"sort"}},
	{Name: "byValueCall", Class: "scal", Stmt: "e_byval({N});"},
}

func eOpByName(n string) (eOp, bool) {
	for _, o := range eOps {
		if o.Name == n {
			return o, true
		}
	}
	return eOp{}, false
}

func eStartByName(n string) (eStart, bool) {
	for _, s := range eStarts {
		if s.Name == n {
			return s, true
		}
	}
	return eStart{}, false
}

type eStep struct {
	Copy bool // `$ecI = <the array>;` before the operation
	Op   eOp
}

func eSeqName(seq []eStep) string {
	var p []string
	for _, s := range seq {
		if s.Copy {
			p = append(p, "c."+s.Op.Name)
		} else {
			p = append(p, s.Op.Name)
		}
	}
	return strings.Join(p, ",")
}

func eParseSeq(s string) ([]eStep, bool) {
	var seq []eStep
	for _, p := range strings.Split(s, ",") {
		st := eStep{}
		if strings.HasPrefix(p, "c.") {
			st.Copy, p = true, p[2:]
		}
		o, ok := eOpByName(p)
		if !ok {
			return nil, false
		}
		st.Op = o
		seq = append(seq, st)
	}
	return seq, len(seq) > 0
}

var eCounter int

func eApplicable(place string, rt pRoute) bool {
	if rt.ScalarVar || rt.LitOnly || rt.FlatOnly || rt.ListOnly {
		return false
	}
	switch place {
	case "via":
	case "direct":
		if rt.OrigRO || rt.OrigShow != "" || !strings.Contains(rt.Setup, "{V};") {
			return false
		}
	default:
		return false
	}
	return true
}

var eNested = pShape{Name: "e-nested", T: "[$ek][0]", T1: "[$ek][1]", P: "[$ek]"}
var eFlat = pShape{Name: "e-flat", T: "[$ek0]", T1: "[$ek1]", P: ""}

// eCase: a copy route whose source has gone through an edit sequence. Hist = <start>|<sequence>@<placement>.
func eCase(st eStart, seq []eStep, place string, k pKind, rt pRoute, m pMut, side string, have map[string]bool) *Case {
	if !hasAll(have, m.Funcs) || !hasAll(have, rt.Funcs) || !eApplicable(place, rt) {
		return nil
	}
	if rt.NoKV && st.Name == "kv" {
		return nil
	}
	if side == "orig" && (rt.OrigRO || rt.Callee != "") {
		return nil
	}
	mayNotParse := m.MayNotParse
	for _, s := range seq {
		if !hasAll(have, s.Op.Funcs) {
			return nil
		}
		mayNotParse = mayNotParse || s.Op.MayNotParse
	}
	eCounter++
	num := "e" + fmt.Sprint(eCounter)
	sub := func(t string) string { return strings.ReplaceAll(t, "{F}", num) }
	pre := fill3(st.Pre, k.E)
	val := fill3(st.Expr, k.E)
	nestedLit := fill3("[{0}, {1}]", k.E)
	wrap := func(stmt string) string { return "try { " + stmt + " } catch (\\Throwable $ex) { }" }

	written, others, stmt := "", []string{}, ""
	switch {
	case rt.Callee != "":
		written = rt.Callee
		others = append(others, rt.Orig)
		stmt = sub(rt.Call)
	case side == "orig":
		written = sub(rt.Orig)
		if rt.CopyShow != "" {
			others = append(others, rt.CopyShow)
		} else {
			others = append(others, rt.Copy)
		}
	default:
		written = sub(rt.Copy)
		others = append(others, rt.Orig)
	}
	others = append(others, rt.Extra...)
	if place == "via" {
		others = append(others, "$h")
	}
	if pre != "" {
		others = append(others, "$t")
	}
	for i, s := range seq {
		if s.Copy {
			others = append(others, fmt.Sprintf("$ec%d", i))
		}
	}
	mutStmt := "$ek = ekey(" + written + "); if ($ek === null) { $ek0 = ekeyn(" + written + ", 0); $ek1 = ekeyn(" + written + ", 1); " +
		wrap(m.on(written, eFlat)) + " } else { " + wrap(m.on(written, eNested)) + " }"
	if rt.Callee == "" {
		stmt = mutStmt
	}
	var decl, body strings.Builder
	if rt.Decl != "" {
		d := strings.ReplaceAll(rt.Decl, "{MUT}", mutStmt)
		decl.WriteString(sub(d) + "\n")
	} else if rt.Callee != "" {
		stmt = strings.ReplaceAll(stmt, "{MUT}", mutStmt)
	}
	if pre != "" {
		body.WriteString(pre + "\n")
	}
	histOn := func(name string) string {
		var sb strings.Builder
		for i, s := range seq {
			if s.Copy {
				fmt.Fprintf(&sb, "$ec%d = %s;\n", i, name)
			}
			op := strings.NewReplacer("{N}", name, "{A}", nestedLit, "{K1}", st.K1).Replace(s.Op.Stmt)
			fmt.Fprintf(&sb, "try { %s echo \"\\n@e%d ran\\n\"; } catch (\\Throwable $ex) { echo \"\\n@e%d threw\\n\"; }\n", op, i, i)
		}
		return sb.String()
	}
	setup := sub(rt.Setup)
	if place == "via" {
		body.WriteString("$h = " + val + ";\n" + histOn("$h"))
		setup = strings.NewReplacer("{V}", "$h", "{PRE}", "").Replace(setup)
	} else {
		i := strings.Index(setup, "{V};") + len("{V};")
		setup = setup[:i] + "\n" + histOn(sub(rt.Orig)) + strings.TrimLeft(setup[i:], " ")
		setup = strings.NewReplacer("{V}", val, "{PRE}", "").Replace(setup)
	}
	body.WriteString(setup + "\n")
	var shows []string
	for _, o := range others {
		shows = append(shows, "pshow("+sub(o)+")")
	}
	snap := func(tag string) string {
		return "echo \"\\n" + tag + " \", " + strings.Join(shows, ", ' ', ") + ", \"\\n\";\n"
	}
	body.WriteString("plog(\"reset\");\n" + snap("@1") + stmt + "\n" + snap("@2"))
	if rt.Callee != "" {
		body.WriteString("echo \"\\n@3 \", plog(), \"\\n\";\n")
	} else {
		body.WriteString("echo \"\\n@3 \", pshow(" + written + "), \"\\n\";\n")
	}
	src := "<?php\n" + decl.String() + body.String()
	return &Case{Kind: "e", Src: src, Hist: st.Name + "|" + eSeqName(seq) + "@" + place, Shape: k.Name + "/" + st.Name, Route: rt.Name, Mut: m.Name, Side: side,
		Fresh: rt.Fresh, NoEffect: !mayNotParse}
}

// runE: every other name must print the same before and after the statement.
// (Case.NoEffect is used here as "every construct of the script is known to parse".)
func (r *runner) runE(cs *Case) {
	c := r.c
	r.fresh = cs.Fresh
	o := r.runScript(cs.Src)
	r.fresh = false
	if len(c.ReplayRaw) > 0 {
		c.Note("script:\n%s\noutcome: %s", cs.Src, o.String())
	}
	c.Eval("e|"+cs.Hist+"|"+cs.Shape+"|"+cs.Route+"|"+cs.Mut+"|"+cs.Side, true)
	hist, place := cs.Hist, ""
	if i := strings.LastIndexByte(hist, '@'); i > 0 {
		hist, place = hist[:i], hist[i+1:]
	}
	start, seqName := "", hist
	if i := strings.IndexByte(hist, '|'); i > 0 {
		start, seqName = hist[:i], hist[i+1:]
	}
	steps := strings.Split(seqName, ",")
	c.Hit("e:start:" + start)
	c.Hit("e:place:" + place)
	c.Hit("e:route:" + cs.Route)
	c.Hit("e:mut:" + cs.Mut)
	c.Hit("e:side:" + cs.Side)
	c.Hit(fmt.Sprintf("e:length:%d", len(steps)))
	var lines []string
	ran := map[int]string{}
	for _, l := range strings.Split(o.Out, "\n") {
		if strings.HasPrefix(l, "@e") {
			var i int
			var what string
			if n, _ := fmt.Sscanf(l, "@e%d %s", &i, &what); n == 2 {
				ran[i] = what
			}
			continue
		}
		if want := fmt.Sprintf("@%d ", len(lines)+1); strings.HasPrefix(l, want) {
			lines = append(lines, l[len(want):])
		}
	}
	if o.Kind != "ok" || len(lines) != 3 {
		if !cs.NoEffect && o.Kind != "crash" && o.Kind != "hang" && !strings.Contains(o.Out, "@1 ") {
			c.Hit("e:rejected") // syntax the interpreter does not know: nothing ran
			for _, s := range steps {
				r.eStat(strings.TrimPrefix(s, "c."), "rejected")
			}
			return
		}
		if rt, _ := pRouteByName(cs.Route); rt.NoKV && o.Kind == "ok" && !strings.Contains(o.Out, "@1 ") {
			c.Hit("e:route-rejected-value") // an array method as copy route, and the editors have turned the value into a keyed one
			return
		}
		sig := "erun:" + seqName + ":" + cs.Route + ":" + cs.Mut
		r.seen(sig, cs)
		c.Violation(sig, fmt.Sprintf("edit history %s (%s, start %s), route %s: program did not run to completion: %s", seqName, place, start, cs.Route, o.String()), cs)
		return
	}
	for i, s := range steps {
		what := ran[i]
		if what == "" {
			what = "skipped"
		}
		if strings.HasPrefix(s, "c.") {
			c.Hit("e:copy-before")
		}
		c.Hit("e:op:" + strings.TrimPrefix(s, "c."))
		r.eStat(strings.TrimPrefix(s, "c."), what)
	}
	if strings.Contains(lines[0], "=>[") {
		c.Hit("e:final-nested")
		r.eStat(strings.TrimPrefix(steps[len(steps)-1], "c."), "nested-after")
	} else {
		c.Hit("e:final-flat")
	}
	if lines[0] != lines[1] {
		sig := "eleak:" + seqName + ":" + cs.Route + ":" + cs.Mut
		r.seen(sig, cs)
		c.Violation(sig, fmt.Sprintf("after the edit history `%s` (%s, start shape %s) on the source, copy route %s, written side %s: the statement changed a name it does not write through: %s -> %s",
			seqName, place, cs.Shape, cs.Route, cs.Side, lines[0], lines[1]), cs)
	}
}

func (r *runner) eStat(name, what string) {
	if r.estats == nil {
		r.estats = map[string]map[string]int{}
	}
	if r.estats[name] == nil {
		r.estats[name] = map[string]int{}
	}
	r.estats[name][what]++
}

// eEnumerate runs the product.
// quick:    (A) every operation alone, with and without a copy before it, on every start shape, along plain
//               assignment under 4 mutation forms, both sides (value passing through `$h`); placed directly
//               under a store,
//           (B) (inserting operation, preceded by a copy) × copy route under a store, written through the copy:
//               all routes for 6 representative operations (both sides, both placements), a rotating third
//               for the others,
//           (C) every ordered PAIR of operations with an inserting one in it, along assignment under a store,
//               copies before both and one rotating other copy pattern,
//           (D) 3 representative operations × every mutation form, both sides,
//           (E) seeded sequences of 3 operations with copies interleaved at random, over all routes / forms.
// thorough: (A) under every start × 8 forms; (B) all pairs, both placements, both sides, 3 forms; (C) all four copy
//           patterns, both sides; every TRIPLE with an inserting operation preceded by a copy along assignment
//           (copies before every operation); a larger sample.
func (r *runner) eEnumerate(full bool, rnd *vh.Rand, sample int) int {
	have := r.plProbeOnce()
	n := 0
	run := func(st eStart, seq []eStep, place string, k pKind, rt pRoute, m pMut, side string) {
		if cs := eCase(st, seq, place, k, rt, m, side, have); cs != nil {
			n++
			r.runE(cs)
		}
	}
	kind := func(n string) pKind {
		for _, k := range pKinds {
			if k.Name == n {
				return k
			}
		}
		return pKinds[0]
	}
	start := func(n string) eStart { s, _ := eStartByName(n); return s }
	mut := func(n string) pMut { m, _ := pMutByName(n); return m }
	route := func(n string) pRoute { rt, _ := pRouteByName(n); return rt }
	sides := []string{"copy", "orig"}
	places := []string{"via", "direct"}
	muts := []string{"store", "append", "unset", "sortM"}
	if full {
		muts = append(muts, "cat", "push", "array_pop", "refParamSet")
	}
	// (A)
	for _, op := range eOps {
		for _, st := range eStarts {
			for _, cp := range []bool{false, true} {
				for _, mn := range muts {
					for _, side := range sides {
						run(st, []eStep{{cp, op}}, "via", kind("str"), route("assign"), mut(mn), side)
					}
				}
				run(st, []eStep{{cp, op}}, "direct", kind("str"), route("assign"), mut("store"), "copy")
				if full {
					run(st, []eStep{{cp, op}}, "direct", kind("int"), route("assign"), mut("append"), "orig")
				}
			}
		}
		if r.crashes >= 40 {
			return n
		}
	}
	// (B)
	rep := map[string]bool{"idxAppend": true, "array_push": true, "array_spliceIns": true, "pushM": true, "refParamElem": true, "unionAssign": true}
	oi := 0
	for _, op := range eOps {
		if op.Class != "ins" {
			continue
		}
		oi++
		for ri, rt := range pRoutes {
			if rt.Name == "assign" {
				continue
			}
			if rt.Fresh && !rep[op.Name] {
				continue
			}
			if !full && !rep[op.Name] && oi%3 != ri%3 {
				continue
			}
			seq := []eStep{{true, op}}
			run(start("flat"), seq, "via", kind("str"), rt, mut("store"), "copy")
			if rep[op.Name] || full {
				run(start("flat"), seq, "via", kind("str"), rt, mut("store"), "orig")
				run(start("flat"), seq, "direct", kind("str"), rt, mut("store"), "copy")
				run(start("flatk"), seq, "direct", kind("str"), rt, mut("append"), "orig")
			}
			if full {
				for _, mn := range []string{"append", "unset"} {
					for _, side := range sides {
						run(start("flat"), seq, "via", kind("mixed"), rt, mut(mn), side)
					}
				}
			}
		}
		if r.crashes >= 40 {
			return n
		}
	}
	// (C)
	patterns := [][2]bool{{true, true}, {true, false}, {false, true}, {false, false}}
	pi := 0
	for _, a := range eOps {
		for _, b := range eOps {
			if a.Class != "ins" && b.Class != "ins" {
				continue
			}
			pi++
			for pj, p := range patterns {
				if !full && pj != 0 && pj != 1+pi%3 {
					continue
				}
				seq := []eStep{{p[0], a}, {p[1], b}}
				run(start("flat"), seq, "via", kind("str"), route("assign"), mut("store"), "copy")
				if full {
					run(start("flat"), seq, "via", kind("str"), route("assign"), mut("append"), "orig")
				}
			}
		}
		if r.crashes >= 40 {
			return n
		}
	}
	// (D)
	for _, on := range []string{"array_push", "pushM", "idxReplace"} {
		op, _ := eOpByName(on)
		for _, m := range pMuts {
			for _, side := range sides {
				run(start("flat"), []eStep{{true, op}}, "via", kind("str"), route("assign"), m, side)
				if full {
					run(start("flat"), []eStep{{true, op}}, "via", kind("int"), route("param"), m, side)
				}
			}
		}
	}
	// thorough: triples
	if full {
		var ins []eOp
		for _, o := range eOps {
			if o.Class == "ins" {
				ins = append(ins, o)
			}
		}
		for _, a := range eOps {
			for _, b := range ins {
				for _, c3 := range eOps {
					run(start("flat"), []eStep{{true, a}, {true, b}, {true, c3}}, "via", kind("str"), route("assign"), mut("store"), "copy")
				}
			}
			if r.crashes >= 40 {
				return n
			}
		}
	}
	// (E)
	for i := 0; i < sample; i++ {
		rt := vh.Pick(rnd, pRoutes)
		if rt.Fresh {
			continue
		}
		var seq []eStep
		for j, l := 0, 1+rnd.Intn(3); j < l; j++ {
			seq = append(seq, eStep{rnd.Intn(2) == 0, vh.Pick(rnd, eOps)})
		}
		run(vh.Pick(rnd, eStarts), seq, vh.Pick(rnd, places), vh.Pick(rnd, pKinds), rt, vh.Pick(rnd, pMuts), vh.Pick(rnd, sides))
	}
	// transparency: an inserting operation after which the value never held an array exercises nothing
	var names, dead []string
	for name := range r.estats {
		names = append(names, name)
	}
	sort.Strings(names)
	for _, name := range names {
		st := r.estats[name]
		op, _ := eOpByName(name)
		if st["ran"] == 0 {
			dead = append(dead, fmt.Sprintf("%s(never ran to its end: threw %d, rejected %d)", name, st["threw"], st["rejected"]))
		} else if op.Class == "ins" && st["nested-after"] == 0 {
			dead = append(dead, name+"(ran, but no array was in the value afterwards)")
		}
	}
	if len(dead) > 0 {
		r.c.Note("edit-history stream: operations that exercised nothing on this interpreter: %s", strings.Join(dead, " "))
	}
	return n
}

// {"kind":"e-ref","hist":"<start>|<step>,<step>…@<placement>","shape":"<kind>/<start>","route":..,"mut":..,"side":..}; step = [c.]<operation>
func eByNames(hist, kindShape, routeName, mutName, side string) *Case {
	place := "via"
	if i := strings.LastIndexByte(hist, '@'); i > 0 {
		hist, place = hist[:i], hist[i+1:]
	}
	i := strings.IndexByte(hist, '|')
	if i < 0 {
		return nil
	}
	st, ok0 := eStartByName(hist[:i])
	seq, ok1 := eParseSeq(hist[i+1:])
	rt, ok2 := pRouteByName(routeName)
	m, ok3 := pMutByName(mutName)
	kn := kindShape
	if j := strings.IndexByte(kindShape, '/'); j > 0 {
		kn = kindShape[:j]
	}
	if !ok0 || !ok1 || !ok2 || !ok3 {
		return nil
	}
	for _, k := range pKinds {
		if k.Name == kn {
			return eCase(st, seq, place, k, rt, m, side, nil)
		}
	}
	return nil
}
