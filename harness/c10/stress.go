package c10

import (
	"encoding/json"
	"fmt"
	"os"
	goruntime "runtime"
	"strings"
	"sync"
	"sync/atomic"

	"verif/harness/vh"
)

// one recorded call of the concurrent history: invocation and response stamps
// come from one atomic counter, so "a completed before b started" is a.e < b.s.
type rec struct {
	o    op
	g    int
	s, e int64
	r    string
}

func stressOp(r *vh.Rand, cfg stressCfg, g, i int) op {
	k := r.Intn(cfg.Names)
	name := fmt.Sprintf("C%d", k)
	id := g*1000000 + i + 1
	file := g%3 + 1
	if cfg.Mix == "load" {
		o := op{K: vh.Pick(r, []string{"al", "al", "al", "gc", "lp"}), N: fmt.Sprintf("App\\Auto%d", k)}
		if o.K == "lp" {
			o.N = fmt.Sprintf("App\\IAuto%d", k)
		}
		return o
	}
	var kind string
	switch cfg.Mix {
	case "add":
		kind = vh.Pick(r, []string{"ac", "ac", "ac", "ai", "af", "sc", "eg", "sf"})
	case "classes":
		kind = vh.Pick(r, []string{"ac", "ac", "gc", "gc", "gc"})
	default:
		kind = vh.Pick(r, []string{"ac", "ac", "ac", "ac", "ai", "ai", "af", "af", "gc", "gc", "gc", "gc", "glc", "gi", "gi", "gli", "lp", "lp", "gfn", "gfn", "sc", "sc", "gk", "gk", "eg", "eg", "sf", "gfile"})
	}
	o := op{K: kind, N: name}
	switch kind {
	case "ac":
		o.I, o.F, o.V = id, file, r.Chance(30)
		if r.Chance(5) {
			o.F = -1
		}
	case "ai":
		o.I, o.F = id, file
		if r.Chance(85) {
			o.N = "I" + name[1:]
		}
	case "af", "sc":
		o.I = id
	case "gc":
		if r.Chance(30) {
			o.N = "c" + name[1:] // only "C<k>" is ever registered: the EqualFold scan has one candidate
		}
	case "gi", "gli":
		if r.Chance(85) {
			o.N = "I" + name[1:]
		}
		if kind == "gli" && r.Chance(40) {
			o.N = "\\" + o.N
		}
	case "glc", "lp", "gfn", "gk":
		if r.Chance(40) {
			o.N = "\\" + o.N
		}
	case "sf", "gfile":
		o.N, o.F = "", k+1
	}
	return o
}

func stressChild(args []string) int {
	var cfg stressCfg
	if len(args) < 1 || json.Unmarshal([]byte(args[0]), &cfg) != nil || cfg.G < 1 {
		fmt.Fprintln(os.Stderr, "c10stress: bad config")
		return 2
	}
	if cfg.Procs > 0 {
		goruntime.GOMAXPROCS(cfg.Procs)
	}
	if cfg.Names < 1 {
		cfg.Names = 8
	}
	vm := newVM()
	if cfg.Mix == "load" {
		// one class file and one interface file per name, resolved through the class path manager
		if cfg.Names > 64 {
			cfg.Names = 64
		}
		for k := 0; k < cfg.Names; k++ {
			os.WriteFile(fmt.Sprintf("%s/IAuto%d.php", cfg.Dir, k), []byte(fmt.Sprintf("<?php\nnamespace App;\ninterface IAuto%d {}\n", k)), 0o644)
			os.WriteFile(fmt.Sprintf("%s/Auto%d.php", cfg.Dir, k), []byte(fmt.Sprintf("<?php\nnamespace App;\nclass Auto%d implements IAuto%d { public function f() { return %d; } }\n", k, k, k)), 0o644)
		}
		vm.AddNamespace("App", cfg.Dir)
	}
	var clock int64
	recs := make([][]rec, cfg.G)
	start := make(chan struct{})
	var wg sync.WaitGroup
	for g := 0; g < cfg.G; g++ {
		wg.Add(1)
		go func(g int) {
			defer wg.Done()
			r := vh.NewRand(cfg.Seed*1009 + uint64(g))
			mine := make([]rec, 0, cfg.N)
			<-start
			for i := 0; i < cfg.N; i++ {
				o := stressOp(r, cfg, g, i)
				s := atomic.AddInt64(&clock, 1)
				res := apply(vm, o, nil)
				e := atomic.AddInt64(&clock, 1)
				mine = append(mine, rec{o, g, s, e, res})
			}
			recs[g] = mine
		}(g)
	}
	close(start)
	wg.Wait()
	var all []rec
	for _, l := range recs {
		all = append(all, l...)
	}
	v := witness(all)
	if cfg.Mix == "load" {
		v = witnessLoad(all)
	}
	b, _ := json.Marshal(v)
	os.Stdout.Write(b)
	return 0
}

// witness checks the per-name conditions every linearizable history of the
// registry satisfies (necessary conditions, independent of the schedule).
func witness(all []rec) stressVerdict {
	v := stressVerdict{OK: true, Calls: len(all)}
	fail := func(sig, f string, a ...any) stressVerdict {
		v.OK, v.Sig, v.What = false, "stress:witness:"+sig, fmt.Sprintf(f, a...)
		return v
	}
	strip := func(n string) string { return strings.TrimPrefix(n, "\\") }
	type group struct {
		adds []rec // ac / ai / af / sc on the name
		gets []rec
	}
	decl, funcs, consts, files := map[string]*group{}, map[string]*group{}, map[string]*group{}, map[string]*group{}
	globals := map[string]string{}
	at := func(m map[string]*group, n string) *group {
		g := m[n]
		if g == nil {
			g = &group{}
			m[n] = g
		}
		return g
	}
	for _, r := range all {
		if strings.HasPrefix(r.r, "panic") || strings.HasPrefix(r.r, "err?") || strings.HasPrefix(r.r, "hit:?") || r.r == "bad-op" {
			return fail("unexpected-result", "%s answered %s", r.o.model(), r.r)
		}
		switch r.o.K {
		case "ac", "ai":
			at(decl, r.o.N).adds = append(at(decl, r.o.N).adds, r)
		case "gc":
			n := r.o.N
			if strings.HasPrefix(n, "c") {
				n = "C" + n[1:]
			}
			at(decl, n).gets = append(at(decl, n).gets, r)
		case "glc", "gli", "gi", "lp":
			n := r.o.N
			if r.o.K != "gi" {
				n = strip(n)
			}
			at(decl, n).gets = append(at(decl, n).gets, r)
		case "af":
			at(funcs, r.o.N).adds = append(at(funcs, r.o.N).adds, r)
		case "gfn":
			at(funcs, strip(r.o.N)).gets = append(at(funcs, strip(r.o.N)).gets, r)
		case "sc":
			at(consts, r.o.N).adds = append(at(consts, r.o.N).adds, r)
		case "gk":
			at(consts, strip(r.o.N)).gets = append(at(consts, strip(r.o.N)).gets, r)
		case "eg":
			if prev, ok := globals[r.o.N]; ok && prev != r.r {
				return fail("global-identity", "EnsureGlobalZVal(%q) returned two different ZVals (%s, %s)", r.o.N, prev, r.r)
			}
			globals[r.o.N] = r.r
		case "sf":
			at(files, fmt.Sprint(r.o.F)).adds = append(at(files, fmt.Sprint(r.o.F)).adds, r)
		case "gfile":
			at(files, fmt.Sprint(r.o.F)).gets = append(at(files, fmt.Sprint(r.o.F)).gets, r)
		}
	}
	// class / interface namespace
	for n, g := range decl {
		var oks []rec
		for _, a := range g.adds {
			if a.r == "ok" {
				oks = append(oks, a)
				v.OkAdd++
			} else {
				v.Dup++
			}
		}
		for i := 1; i < len(oks); i++ {
			if !(oks[0].o.F > 0 && oks[i].o.F == oks[0].o.F) {
				return fail("two-winners", "name %q: %s and %s both reported success (different files)", n, oks[0].o.model(), oks[i].o.model())
			}
		}
		allClass, allIface := true, true
		for _, a := range oks {
			if a.o.K == "ac" {
				allIface = false
			} else {
				allClass = false
			}
		}
		for _, a := range g.adds {
			if a.r == "ok" {
				continue
			}
			justified := false
			for _, w := range oks {
				if w.s < a.e {
					justified = true
				}
			}
			if !justified {
				return fail("rejected-without-winner", "name %q: %s answered %s but no registration of the name had begun", n, a.o.model(), a.r)
			}
			if len(oks) > 0 && a.o.F > 0 && a.o.F == oks[0].o.F && oks[0].e < a.s {
				return fail("same-file-rejected", "name %q: %s answered %s although %s (same file) had completed", n, a.o.model(), a.r, oks[0].o.model())
			}
		}
		winner := map[string]string{} // kind of hit -> id seen
		for _, q := range g.gets {
			found := strings.HasPrefix(q.r, "hit")
			if found {
				v.Hits++
				id := q.r[strings.IndexByte(q.r, ':')+1:]
				var src *rec
				for i := range oks {
					if fmt.Sprint(oks[i].o.I) == id {
						src = &oks[i]
					}
				}
				if src == nil || !(src.s < q.e) {
					return fail("lookup-invented", "name %q: %s answered %s, which no successful registration begun before it explains", n, q.o.model(), q.r)
				}
				if prev, ok := winner["id"]; ok && prev != id {
					return fail("winner-changed", "name %q: lookups returned two different declarations (%s, %s)", n, prev, id)
				}
				winner["id"] = id
				for _, other := range oks {
					if other.e < src.s {
						return fail("winner-not-first", "name %q: lookup returned %s although %s had succeeded before it began", n, src.o.model(), other.o.model())
					}
				}
			}
			// visibility: a successful registration that completed before the lookup started
			needClass := q.o.K == "gc" || q.o.K == "glc"
			needIface := q.o.K == "gi" || q.o.K == "gli"
			if (needClass && !allClass) || (needIface && !allIface) {
				continue
			}
			for _, a := range oks {
				if a.e < q.s && !found {
					return fail("registered-not-visible", "name %q: %s reported success, then %s answered %s", n, a.o.model(), q.o.model(), q.r)
				}
			}
		}
	}
	// functions and constants: exactly one registrant ever succeeds
	for kind, m := range map[string]map[string]*group{"function": funcs, "constant": consts} {
		for n, g := range m {
			var oks []rec
			for _, a := range g.adds {
				if a.r == "ok" {
					oks = append(oks, a)
					v.OkAdd++
				} else {
					v.Dup++
				}
			}
			if len(oks) > 1 {
				return fail("two-winners", "%s %q: %s and %s both reported success", kind, n, oks[0].o.model(), oks[1].o.model())
			}
			for _, a := range g.adds {
				if a.r != "ok" && (len(oks) == 0 || !(oks[0].s < a.e)) {
					return fail("rejected-without-winner", "%s %q: %s answered %s but nobody had registered the name", kind, n, a.o.model(), a.r)
				}
			}
			for _, q := range g.gets {
				if strings.HasPrefix(q.r, "hit") {
					v.Hits++
					if len(oks) == 0 || q.r != fmt.Sprintf("hit:%d", oks[0].o.I) || !(oks[0].s < q.e) {
						return fail("lookup-invented", "%s %q: %s answered %s", kind, n, q.o.model(), q.r)
					}
				} else if len(oks) == 1 && oks[0].e < q.s {
					return fail("registered-not-visible", "%s %q: %s reported success, then %s answered %s", kind, n, oks[0].o.model(), q.o.model(), q.r)
				}
			}
		}
	}
	for k, g := range files {
		for _, q := range g.gets {
			hit := q.r == "hit:1"
			began, done := false, false
			for _, a := range g.adds {
				began = began || a.s < q.e
				done = done || a.e < q.s
			}
			if hit && !began {
				return fail("lookup-invented", "file %s: GetPhpFileCache true before any SetPhpFileCache", k)
			}
			if !hit && done {
				return fail("registered-not-visible", "file %s: SetPhpFileCache completed, then GetPhpFileCache answered false", k)
			}
		}
	}
	return v
}

// witnessLoad judges the autoload stream: every class file exists, so in any
// sequential order of the calls GetOrLoadClass finds (loads) the class, and a
// class that some completed call has found stays visible.
func witnessLoad(all []rec) stressVerdict {
	v := stressVerdict{OK: true, Calls: len(all)}
	done := map[string]int64{} // name -> earliest completion stamp of a successful load
	for _, r := range all {
		if r.o.K == "al" && strings.HasPrefix(r.r, "hit") {
			v.OkAdd++
			if e, ok := done[r.o.N]; !ok || r.e < e {
				done[r.o.N] = r.e
			}
		}
	}
	for _, r := range all {
		switch {
		case strings.HasPrefix(r.r, "panic"):
			v.OK, v.Sig, v.What = false, "stress:load:panic", fmt.Sprintf("%s answered %s", r.o.model(), r.r)
			return v
		case r.o.K == "al" && !strings.HasPrefix(r.r, "hit"):
			v.OK, v.Sig = false, "stress:load:spurious-class-not-found"
			v.What = fmt.Sprintf("GetOrLoadClass(%q) answered %s although its class file exists (another goroutine was loading the same file: the file is marked loaded before its classes are registered)", r.o.N, r.r)
			return v
		case r.o.K == "gc":
			if strings.HasPrefix(r.r, "hit") {
				v.Hits++
			} else if e, ok := done[r.o.N]; ok && e < r.s {
				v.OK, v.Sig = false, "stress:witness:registered-not-visible"
				v.What = fmt.Sprintf("GetOrLoadClass(%q) had returned the class, then GetClass answered %s", r.o.N, r.r)
				return v
			}
		}
	}
	return v
}
