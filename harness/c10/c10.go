// Package c10: correspondence + violation search for C10 (VM registries stay
// consistent under concurrent definition and lookup).
//
//   - sequential part: seeded and exhaustively enumerated histories of
//     AddClass / AddInterface / AddFunc / Get* / LoadPkg / SetConstant /
//     GetConstant / EnsureGlobalZVal / Set-/GetPhpFileCache against a fresh real
//     runtime.VM, every result compared with the Lean model `vm_c10`
//     (Model.Reg) and judged by an independent Go oracle (visibility, one winner);
//   - concurrent part: a child process (a fatal error kills the process) runs
//     N goroutines × K mixed calls over overlapping names on one VM, records the
//     history with invocation/response stamps and checks the per-name
//     sequential-witness conditions; the parent observes survival, race
//     reports (second binary built with -race in the thorough tier) and hangs.
package c10

import (
	"bytes"
	"context"
	"encoding/json"
	"fmt"
	"os"
	"os/exec"
	"path/filepath"
	"regexp"
	"strings"
	"time"

	"github.com/php-any/origami/data"
	"github.com/php-any/origami/parser"
	"github.com/php-any/origami/runtime"

	"verif/harness/vh"
)

func init() {
	vh.Register("C10", Run)
	vh.RegisterChild("c10stress", stressChild)
}

// ------------------------------------------------------------ stubs

type classStub struct {
	name string
	id   int
	from data.From
}

func (c *classStub) GetValue(ctx data.Context) (data.GetValue, data.Control) { return nil, nil }
func (c *classStub) GetFrom() data.From                                      { return c.from }
func (c *classStub) GetName() string                                         { return c.name }
func (c *classStub) GetExtend() *string                                      { return nil }
func (c *classStub) GetImplements() []string                                 { return nil }
func (c *classStub) GetProperty(name string) (data.Property, bool)           { return nil, false }
func (c *classStub) GetPropertyList() []data.Property                        { return nil }
func (c *classStub) GetMethod(name string) (data.Method, bool)               { return nil, false }
func (c *classStub) GetMethods() []data.Method                               { return nil }
func (c *classStub) GetConstruct() data.Method                               { return nil }

type ifaceStub struct {
	name string
	id   int
	from data.From
}

func (c *ifaceStub) GetValue(ctx data.Context) (data.GetValue, data.Control) { return nil, nil }
func (c *ifaceStub) GetFrom() data.From                                      { return c.from }
func (c *ifaceStub) GetName() string                                         { return c.name }
func (c *ifaceStub) GetExtends() []string                                    { return nil }
func (c *ifaceStub) GetMethod(name string) (data.Method, bool)               { return nil, false }
func (c *ifaceStub) GetMethods() []data.Method                               { return nil }

type funcStub struct {
	name string
	id   int
}

func (f *funcStub) Call(ctx data.Context) (data.GetValue, data.Control) { return nil, nil }
func (f *funcStub) GetName() string                                     { return f.name }
func (f *funcStub) GetParams() []data.GetValue                          { return nil }
func (f *funcStub) GetVariables() []data.Variable                       { return nil }

// file k of the abstract history; V selects a second spelling of the same path
// (exercises utils.SamePhpFile's normalisation). k = -1: GetFrom() == nil,
// k = 0: a From whose source is "".
func mkFrom(k int, variant bool) data.From {
	switch {
	case k < 0:
		return nil
	case k == 0:
		return data.NewBaseFrom("", 0, 0)
	}
	p := fmt.Sprintf("/vh-c10-nonexistent/f%d.php", k)
	if variant {
		p = fmt.Sprintf("/vh-c10-nonexistent/sub/../f%d.php", k)
	}
	return data.NewBaseFrom(p, 0, 0)
}

// ------------------------------------------------------------ ops

type op struct {
	K string `json:"k"`           // ac ai af gc glc gi gli lp gfn sc gk eg sf gfile
	N string `json:"n,omitempty"` // name ("" = empty string)
	I int    `json:"i,omitempty"` // id of the stub / constant value
	F int    `json:"f,omitempty"` // file (-1 nil, 0 empty source, k)
	V bool   `json:"v,omitempty"` // second spelling of the file path
}

func (o op) model() string {
	n := o.N
	if n == "" {
		n = "~"
	}
	src := fmt.Sprint(o.F)
	if o.F < 0 {
		src = "n"
	}
	switch o.K {
	case "ac", "ai":
		return fmt.Sprintf("%s %s %d %s", o.K, n, o.I, src)
	case "af", "sc":
		return fmt.Sprintf("%s %s %d", o.K, n, o.I)
	case "sf", "gfile":
		return fmt.Sprintf("%s %d", o.K, o.F)
	}
	return o.K + " " + n
}

func errKind(acl data.Control) string {
	if acl == nil {
		return "ok"
	}
	s := acl.AsString()
	switch {
	case strings.Contains(s, "已存在同名的 class"):
		return "errClass"
	case strings.Contains(s, "已存在同名的 interface"):
		return "errIface"
	case strings.Contains(s, "已存在同名的类或接口"):
		return "errBoth"
	case strings.Contains(s, "已存在同名的 function"):
		return "errFunc"
	case strings.Contains(s, "已经定义"):
		return "errConst"
	case strings.Contains(s, "不存在或无法加载"), strings.Contains(s, "找不到"):
		return "errLoad"
	}
	return "err?:" + s
}

func idOf(v any) string {
	switch x := v.(type) {
	case *classStub:
		return fmt.Sprintf("hit:%d", x.id)
	case *ifaceStub:
		return fmt.Sprintf("hitI:%d", x.id)
	case *funcStub:
		return fmt.Sprintf("hit:%d", x.id)
	case nil:
		return "nil"
	}
	if n, ok := v.(interface{ GetName() string }); ok {
		return "hit:" + n.GetName() // a real node loaded from a class file
	}
	return fmt.Sprintf("hit:?%T", v)
}

// zvals of one VM are numbered in order of first appearance
type zvNames struct{ ids map[*data.ZVal]int }

func (z *zvNames) id(p *data.ZVal) int {
	if z.ids == nil {
		z.ids = map[*data.ZVal]int{}
	}
	if i, ok := z.ids[p]; ok {
		return i
	}
	i := len(z.ids)
	z.ids[p] = i
	return i
}

func filePath(k int) string {
	if k == 0 {
		return ""
	}
	return fmt.Sprintf("/vh-c10-nonexistent/inc%d.php", k)
}

// apply runs one call on the real VM and canonicalises its result.
func apply(vm data.VM, o op, zv *zvNames) (res string) {
	defer func() {
		if r := recover(); r != nil {
			res = fmt.Sprintf("panic: %v", r)
		}
	}()
	switch o.K {
	case "ac":
		return errKind(vm.AddClass(&classStub{o.N, o.I, mkFrom(o.F, o.V)}))
	case "ai":
		return errKind(vm.AddInterface(&ifaceStub{o.N, o.I, mkFrom(o.F, o.V)}))
	case "af":
		return errKind(vm.AddFunc(&funcStub{o.N, o.I}))
	case "gc":
		c, ok := vm.GetClass(o.N)
		if !ok {
			return "miss"
		}
		return idOf(c)
	case "glc":
		c, acl := vm.GetOrLoadClass(o.N)
		if acl != nil {
			return errKind(acl)
		}
		if c == nil {
			return "nil"
		}
		return idOf(c)
	case "al": // GetOrLoadClass of a class that has a file (load stream)
		c, acl := vm.GetOrLoadClass(o.N)
		if acl != nil {
			return "err:" + firstLines(acl.AsString(), 1)
		}
		if c == nil {
			return "nil"
		}
		return "hit:" + c.GetName()
	case "gi":
		c, ok := vm.GetInterface(o.N)
		if !ok {
			return "miss"
		}
		return strings.Replace(idOf(c), "hitI:", "hit:", 1)
	case "gli":
		c, acl := vm.GetOrLoadInterface(o.N)
		if acl != nil {
			return errKind(acl)
		}
		if c == nil {
			return "nil"
		}
		return strings.Replace(idOf(c), "hitI:", "hit:", 1)
	case "lp":
		c, acl := vm.LoadPkg(o.N)
		if acl != nil {
			return errKind(acl)
		}
		if c == nil {
			return "nil"
		}
		return idOf(c)
	case "gfn":
		f, ok := vm.GetFunc(o.N)
		if !ok {
			return "miss"
		}
		return idOf(f)
	case "sc":
		return errKind(vm.SetConstant(o.N, data.NewIntValue(o.I)))
	case "gk":
		v, ok := vm.GetConstant(o.N)
		if !ok {
			return "miss"
		}
		if iv, ok := v.(*data.IntValue); ok {
			return fmt.Sprintf("hit:%d", iv.Value)
		}
		return fmt.Sprintf("hit:?%T", v)
	case "eg":
		p := vm.EnsureGlobalZVal(o.N)
		if p == nil {
			return "nil"
		}
		if zv == nil { // concurrent runs: the pointer itself
			return fmt.Sprintf("hit:%p", p)
		}
		return fmt.Sprintf("hit:%d", zv.id(p))
	case "sf":
		vm.SetPhpFileCache(filePath(o.F))
		return "ok"
	case "gfile":
		if vm.GetPhpFileCache(filePath(o.F)) {
			return "hit:1"
		}
		return "miss"
	}
	return "bad-op"
}

func newVM() data.VM {
	p := parser.NewParser()
	vm := runtime.NewVM(p)
	vm.SetThrowControl(func(acl data.Control) {})
	return vm
}

func runSeq(ops []op) []string {
	vm := newVM()
	zv := &zvNames{}
	out := make([]string, len(ops))
	for i, o := range ops {
		out[i] = apply(vm, o, zv)
	}
	return out
}

// same result? the model answers `any:a,b` where Go's map order decides
func sameRes(impl, model string) bool {
	if impl == model {
		return true
	}
	if strings.HasPrefix(model, "any:") && strings.HasPrefix(impl, "hit:") {
		for _, id := range strings.Split(model[4:], ",") {
			if impl[4:] == id {
				return true
			}
		}
	}
	return false
}

// ------------------------------------------------------------ independent oracle (sequential)

func lower(s string) string { return strings.ToLower(s) }

func sameFile(a, b op) bool { return a.F > 0 && a.F == b.F }

// seqOracle judges one sequential history by the statement of the property
// only: (1) a registration that reported success is visible to every later
// lookup (exact name, and through the documented case-insensitive class
// lookup), and what is found is the declaration that won the name;
// (2) a second registration of a taken name succeeds only as a same-file
// re-add and never replaces the winner; functions/constants never twice;
// (3) a global's ZVal is the same object every time.
func seqOracle(ops []op, res []string) (sig, what string) {
	type win struct {
		o   op
		isI bool
	}
	decl := map[string]win{} // class+interface namespace (a name is one or the other)
	funcs := map[string]int{}
	consts := map[string]int{}
	globals := map[string]string{}
	for i, o := range ops {
		r := res[i]
		if strings.HasPrefix(r, "panic") || strings.HasPrefix(r, "err?") || strings.HasPrefix(r, "hit:?") {
			return "seq:" + o.K + ":unexpected", fmt.Sprintf("op %d %s: %s", i, o.model(), r)
		}
		switch o.K {
		case "ac", "ai":
			w, taken := decl[o.N]
			switch {
			case !taken && r != "ok":
				return "seq:" + o.K + ":fresh-name-rejected", fmt.Sprintf("op %d %s on a free name answered %s", i, o.model(), r)
			case !taken:
				decl[o.N] = win{o, o.K == "ai"}
			case r == "ok" && !sameFile(o, w.o):
				return "seq:" + o.K + ":second-winner", fmt.Sprintf("op %d %s succeeded although %s holds the name (different file)", i, o.model(), w.o.model())
			case r != "ok" && sameFile(o, w.o):
				return "seq:" + o.K + ":same-file-rejected", fmt.Sprintf("op %d %s rejected (%s) although it re-adds the file of %s", i, o.model(), r, w.o.model())
			}
		case "af":
			if _, taken := funcs[o.N]; taken != (r != "ok") {
				return "seq:af:dup", fmt.Sprintf("op %d %s answered %s, taken=%v", i, o.model(), r, taken)
			} else if !taken {
				funcs[o.N] = o.I
			}
		case "sc":
			if _, taken := consts[o.N]; taken != (r != "ok") {
				return "seq:sc:dup", fmt.Sprintf("op %d %s answered %s, taken=%v", i, o.model(), r, taken)
			} else if !taken {
				consts[o.N] = o.I
			}
		case "gc":
			if w, ok := decl[o.N]; ok && !w.isI {
				if r != fmt.Sprintf("hit:%d", w.o.I) {
					return "seq:gc:registered-not-visible", fmt.Sprintf("op %d GetClass(%q) answered %s, registered by %s", i, o.N, r, w.o.model())
				}
			} else {
				// case-insensitive fallback: some registered class with an EqualFold name, or a miss
				cands := map[string]bool{}
				for n, w := range decl {
					if !w.isI && lower(n) == lower(o.N) {
						cands[fmt.Sprintf("hit:%d", w.o.I)] = true
					}
				}
				if (len(cands) == 0) != (r == "miss") || (len(cands) > 0 && !cands[r]) {
					return "seq:gc:fold", fmt.Sprintf("op %d GetClass(%q) answered %s, candidates %v", i, o.N, r, cands)
				}
			}
		case "gi":
			if w, ok := decl[o.N]; ok && w.isI {
				if r != fmt.Sprintf("hit:%d", w.o.I) {
					return "seq:gi:registered-not-visible", fmt.Sprintf("op %d GetInterface(%q) answered %s, registered by %s", i, o.N, r, w.o.model())
				}
			} else if r != "miss" {
				return "seq:gi:invented", fmt.Sprintf("op %d GetInterface(%q) answered %s, nothing registered", i, o.N, r)
			}
		case "gfn":
			want := "miss"
			if id, ok := funcs[o.N]; ok {
				want = fmt.Sprintf("hit:%d", id)
			} else if strings.HasPrefix(o.N, "\\") {
				if id, ok := funcs[o.N[1:]]; ok {
					want = fmt.Sprintf("hit:%d", id)
				}
			}
			if r != want {
				return "seq:gfn", fmt.Sprintf("op %d GetFunc(%q) answered %s want %s", i, o.N, r, want)
			}
		case "gk":
			want := "miss"
			if v, ok := consts[strings.TrimPrefix(o.N, "\\")]; ok {
				want = fmt.Sprintf("hit:%d", v)
			}
			if r != want {
				return "seq:gk", fmt.Sprintf("op %d GetConstant(%q) answered %s want %s", i, o.N, r, want)
			}
		case "eg":
			if prev, ok := globals[o.N]; ok && prev != r {
				return "seq:eg:identity", fmt.Sprintf("op %d EnsureGlobalZVal(%q) answered %s, earlier %s", i, o.N, r, prev)
			}
			globals[o.N] = r
		case "glc", "gli", "lp":
			// found ⇔ something registered under the (stripped) name; which one is compared with the model
			n := o.N
			if n == "" {
				if r != "nil" {
					return "seq:" + o.K + ":empty", fmt.Sprintf("op %d %s answered %s", i, o.model(), r)
				}
				continue
			}
			st := strings.TrimPrefix(n, "\\")
			w, ok := decl[st]
			if o.K == "lp" && !ok {
				w, ok = decl[n]
			}
			if ok && (o.K == "lp" || (o.K == "glc") == !w.isI) {
				if !strings.HasSuffix(r, fmt.Sprintf(":%d", w.o.I)) {
					return "seq:" + o.K + ":registered-not-visible", fmt.Sprintf("op %d %s answered %s, registered by %s", i, o.model(), r, w.o.model())
				}
			}
		}
	}
	return "", ""
}

// ------------------------------------------------------------ generators

var exhaustiveAlphabet = func() []op {
	var a []op
	for _, k := range []string{"ac", "ai"} {
		for _, n := range []string{"Foo", "foo"} {
			for _, f := range []int{1, 2, -1} {
				a = append(a, op{K: k, N: n, F: f})
			}
		}
	}
	a = append(a, op{K: "ac", N: "Foo", F: 0}, op{K: "ac", N: "Foo", F: 1, V: true})
	for _, n := range []string{"Foo", "\\Foo"} {
		a = append(a, op{K: "af", N: n})
	}
	for _, n := range []string{"Foo", "foo", "FOO", "\\Foo"} {
		a = append(a, op{K: "gc", N: n}, op{K: "lp", N: n})
	}
	for _, n := range []string{"Foo", "\\Foo", "", "\\foo"} {
		a = append(a, op{K: "glc", N: n}, op{K: "gli", N: n})
	}
	a = append(a, op{K: "lp", N: ""}, op{K: "gi", N: "Foo"}, op{K: "gi", N: "\\Foo"}, op{K: "gi", N: "foo"})
	for _, n := range []string{"Foo", "\\Foo", "\\\\Foo"} {
		a = append(a, op{K: "gfn", N: n})
	}
	a = append(a, op{K: "sc", N: "K", I: 1}, op{K: "sc", N: "K", I: 2}, op{K: "sc", N: "\\K", I: 3},
		op{K: "gk", N: "K"}, op{K: "gk", N: "\\K"}, op{K: "gk", N: "\\\\K"},
		op{K: "eg", N: "g"}, op{K: "eg", N: "h"},
		op{K: "sf", F: 1}, op{K: "sf", F: 0}, op{K: "gfile", F: 1}, op{K: "gfile", F: 0}, op{K: "gfile", F: 2})
	return a
}()

var seqNames = []string{"Foo", "foo", "FOO", "\\Foo", "Bar", "bar", "\\Bar", "", "\\", "Foo\\Baz", "\\Foo\\Baz", "foo\\baz"}
var seqKinds = []string{"ac", "ac", "ac", "ai", "ai", "af", "gc", "gc", "glc", "gi", "gli", "lp", "lp", "gfn", "sc", "gk", "eg", "sf", "gfile"}

func randOp(r *vh.Rand) op {
	k := vh.Pick(r, seqKinds)
	o := op{K: k, N: vh.Pick(r, seqNames)}
	switch k {
	case "ac", "ai":
		o.F = vh.Pick(r, []int{1, 1, 2, 2, 3, 0, -1})
		o.V = r.Chance(25)
	case "sc":
		o.I = r.Intn(5)
	case "sf", "gfile":
		o.N = ""
		o.F = r.Intn(4)
	}
	return o
}

// number the stubs: the id of an add is its position + 1
func number(ops []op) []op {
	out := make([]op, len(ops))
	for i, o := range ops {
		if o.K == "ac" || o.K == "ai" || o.K == "af" {
			o.I = i + 1
		}
		out[i] = o
	}
	return out
}

func nontrivialSeq(ops []op) bool {
	add, get := false, false
	for _, o := range ops {
		switch o.K {
		case "ac", "ai", "af", "sc", "eg", "sf":
			add = true
		default:
			get = true
		}
	}
	return add && get
}

// ------------------------------------------------------------ sequential correspondence

type seqCase struct {
	Kind string `json:"kind"`
	Ops  []op   `json:"ops"`
}

func checkSeqBatch(c *vh.Ctx, m *vh.Model, batch [][]op) {
	if len(batch) == 0 {
		return
	}
	var mres []string
	if m != nil {
		lines := make([]string, len(batch))
		for i, ops := range batch {
			p := make([]string, len(ops))
			for j, o := range ops {
				p[j] = o.model()
			}
			lines[i] = "seq\t" + strings.Join(p, "|")
		}
		var err error
		mres, err = m.AskBatch(lines)
		if err != nil {
			c.Note("model failed: %v", err)
			mres = nil
		}
	}
	for i, ops := range batch {
		impl := runSeq(ops)
		key := fmt.Sprint(ops)
		c.Eval(key, nontrivialSeq(ops))
		c.Hit(fmt.Sprintf("seq:len=%d", min(len(ops), 50)/10*10))
		for j, o := range ops {
			c.Hit("op:" + o.K)
			r := impl[j]
			if k := strings.IndexByte(r, ':'); k > 0 {
				r = r[:k]
			}
			c.Hit("res:" + o.K + ":" + r)
		}
		cas := seqCase{"seq", ops}
		c.SampleSome(map[string]any{"ops": ops, "impl": strings.Join(impl, "|")}, 4999)
		if sig, what := seqOracle(ops, impl); sig != "" {
			c.Violation(sig, what, shrinkSeq(ops, func(o []op) bool { s, _ := seqOracle(o, runSeq(o)); return s == sig }))
		}
		if mres != nil && i < len(mres) {
			mr := strings.Split(mres[i], "|")
			if len(ops) == 0 {
				mr = nil
			}
			bad := len(mr) != len(impl)
			for j := 0; !bad && j < len(impl); j++ {
				bad = !sameRes(impl[j], mr[j])
			}
			if bad {
				c.Mismatch(cas, strings.Join(impl, "|"), mres[i], "runtime.VM vs Model.Reg (results of every call)")
			}
		}
	}
}

// delta-debugging over ops (ids stay those of the original positions)
func shrinkSeq(ops []op, fails func([]op) bool) seqCase {
	cur := append([]op{}, ops...)
	for changed := true; changed; {
		changed = false
		for i := 0; i < len(cur); i++ {
			cand := append(append([]op{}, cur[:i]...), cur[i+1:]...)
			if fails(cand) {
				cur, changed = cand, true
				i--
			}
		}
	}
	return seqCase{"seq", cur}
}

func sequentialPart(c *vh.Ctx, m *vh.Model) {
	A := exhaustiveAlphabet
	var batch [][]op
	flush := func() { checkSeqBatch(c, m, batch); batch = batch[:0] }
	push := func(ops []op) {
		batch = append(batch, number(ops))
		if len(batch) >= 2000 {
			flush()
		}
	}
	push(nil)
	for _, a := range A {
		push([]op{a})
		for _, b := range A {
			push([]op{a, b})
		}
	}
	what := fmt.Sprintf("all histories of length ≤ 2 over a %d-call alphabet (2 names × 3 files × AddClass/AddInterface, case / backslash variants of every getter, constants, globals, file cache)", len(A))
	if c.Thorough() {
		for _, a := range A {
			for _, b := range A {
				for _, d := range A {
					push([]op{a, b, d})
				}
			}
		}
		what = strings.Replace(what, "≤ 2", "≤ 3", 1)
	} else {
		for i := 0; i < 20000; i++ {
			push([]op{vh.Pick(c.Rand, A), vh.Pick(c.Rand, A), vh.Pick(c.Rand, A)})
		}
	}
	flush()
	c.Res.Exhaustive = true
	c.Res.ExhaustiveWhat = what
	n := c.N(6000, 60000)
	for i := 0; i < n; i++ {
		l := c.Rand.Range(3, 40)
		ops := make([]op, l)
		for j := range ops {
			ops[j] = randOp(c.Rand)
		}
		push(ops)
	}
	flush()
}

// ------------------------------------------------------------ concurrent stress (child process)

type stressCfg struct {
	Kind  string `json:"kind"`  // "stress"
	G     int    `json:"g"`     // goroutines
	N     int    `json:"n"`     // calls per goroutine
	Procs int    `json:"procs"` // GOMAXPROCS
	Names int    `json:"names"` // size of the shared name pool
	Seed  uint64 `json:"seed"`
	Race  bool   `json:"race,omitempty"` // run the -race binary
	Mix   string `json:"mix,omitempty"`  // "" = all calls; "add" = definitions only; "classes" = class add/get only; "load" = autoload through class files
	Dir   string `json:"dir,omitempty"`  // load mix: directory for the class files (set by the parent)
}

type stressVerdict struct {
	OK    bool   `json:"ok"`
	Sig   string `json:"sig,omitempty"`
	What  string `json:"what,omitempty"`
	Calls int    `json:"calls"`
	OkAdd int    `json:"ok_adds"`
	Dup   int    `json:"dup_rejected"`
	Hits  int    `json:"hits"`
}

func runStressChild(c *vh.Ctx, bin string, cfg stressCfg, timeout time.Duration) (v stressVerdict, crash string) {
	arg, _ := json.Marshal(cfg)
	out, crash := runChild(bin, "c10stress", arg, cfg.Procs, timeout)
	if crash != "" {
		return v, crash
	}
	if json.Unmarshal(out, &v) != nil {
		return v, "child printed no verdict: " + firstLines(string(out), 3)
	}
	return v, ""
}

// runChild runs one child of the harness binary and classifies how it ended: a Go fatal error
// (concurrent map access is not recoverable), a race report, a deadlock / hang, or its stdout.
func runChild(bin, child string, arg []byte, procs int, timeout time.Duration) (stdout []byte, crash string) {
	ctx, cancel := context.WithTimeout(context.Background(), timeout)
	defer cancel()
	cmd := exec.CommandContext(ctx, bin, "__child", child, string(arg))
	cmd.Env = append(os.Environ(), fmt.Sprintf("GOMAXPROCS=%d", procs), "GORACE=halt_on_error=1 exitcode=66", "GOTRACEBACK=single")
	var out, errb bytes.Buffer
	cmd.Stdout, cmd.Stderr = &out, &errb
	err := cmd.Run()
	es := errb.String()
	switch {
	case ctx.Err() != nil:
		return nil, "hang: no result within " + timeout.String()
	case strings.Contains(es, "fatal error: concurrent map"):
		i := strings.Index(es, "fatal error: concurrent map")
		return nil, firstLines(es[i:], 1) + " @ " + frameOf(es[i:])
	case strings.Contains(es, "WARNING: DATA RACE"):
		i := strings.Index(es, "WARNING: DATA RACE")
		return nil, "DATA RACE @ " + raceFrames(es[i:])
	case strings.Contains(es, "all goroutines are asleep"):
		return nil, "deadlock: all goroutines are asleep"
	case strings.Contains(es, "fatal error: "):
		i := strings.Index(es, "fatal error: ")
		return nil, firstLines(es[i:], 1) + " @ " + frameOf(es[i:])
	case err != nil:
		return nil, "child failed: " + err.Error() + ": " + firstLines(es, 3)
	}
	return out.Bytes(), ""
}

func firstLines(s string, n int) string {
	l := strings.SplitN(strings.TrimSpace(s), "\n", n+1)
	if len(l) > n {
		l = l[:n]
	}
	return strings.Join(l, " / ")
}

// first frame inside origami of a crash / race report, e.g. "runtime.(*VM).AddClass" or
// "parser.(*DefaultClassPathManager).findNamespaceNode"
func frameOf(s string) string {
	for _, l := range strings.Split(s, "\n") {
		if strings.Contains(l, ".go:") {
			continue
		}
		if m := frameRe.FindStringSubmatch(l); m != nil {
			f := m[1]
			if strings.HasPrefix(f, "runtime.(*VM).") { // historical spelling of the registry frames
				return "(*VM)." + strings.TrimPrefix(f, "runtime.(*VM).")
			}
			return f
		}
	}
	return "?"
}

var frameRe = regexp.MustCompile(`github\.com/php-any/origami/((?:[\w./]|\(\*\w+\))+)`)

// the two access sites of a race report: first origami frame of each stack
func raceFrames(s string) string {
	var sites []string
	for _, blk := range strings.Split(s, "\n\n") {
		h := firstLines(blk, 1)
		if strings.HasPrefix(h, "Write at") || strings.HasPrefix(h, "Read at") || strings.HasPrefix(h, "Previous write") || strings.HasPrefix(h, "Previous read") ||
			strings.HasPrefix(h, "WARNING: DATA RACE") {
			if f := frameOf(blk); f != "?" {
				sites = append(sites, f)
			}
		}
		if len(sites) == 2 {
			break
		}
	}
	if len(sites) == 0 {
		return "?"
	}
	return strings.Join(sites, " / ")
}

func crashSig(crash string) string {
	switch {
	case strings.HasPrefix(crash, "fatal error: concurrent map"):
		return "stress:fatal:concurrent-map-access"
	case strings.HasPrefix(crash, "DATA RACE"):
		return "stress:data-race"
	case strings.HasPrefix(crash, "hang"), strings.HasPrefix(crash, "deadlock"):
		return "stress:deadlock"
	}
	return "stress:child-died"
}

// buildRace builds a second harness binary with the race detector.
func buildRace(c *vh.Ctx) (string, error) {
	hdir, _ := os.Getwd()
	if _, err := os.Stat(filepath.Join(hdir, "cmd", "c10")); err != nil {
		hdir = "/verif/harness"
	}
	gomod, err := os.ReadFile(filepath.Join(hdir, "go.mod"))
	if err != nil {
		return "", err
	}
	var lines []string
	for _, l := range strings.Split(string(gomod), "\n") {
		if strings.HasPrefix(l, "replace github.com/php-any/origami =>") {
			l = "replace github.com/php-any/origami => " + c.Repo
		}
		lines = append(lines, l)
	}
	modfile := filepath.Join(c.Scratch, "go.mod")
	if err := os.WriteFile(modfile, []byte(strings.Join(lines, "\n")), 0o644); err != nil {
		return "", err
	}
	if sum, err := os.ReadFile(filepath.Join(c.Repo, "go.sum")); err == nil {
		os.WriteFile(filepath.Join(c.Scratch, "go.sum"), sum, 0o644)
	}
	out := filepath.Join(c.Scratch, "vh_c10_race")
	cmd := exec.Command("go", "build", "-race", "-modfile", modfile, "-tags", "verif", "-o", out, "./cmd/c10")
	cmd.Dir = hdir
	var env []string
	for _, e := range os.Environ() {
		if strings.HasPrefix(e, "GOTOOLCHAIN=") || strings.HasPrefix(e, "GOSUMDB=") || strings.HasPrefix(e, "GOFLAGS=") || strings.HasPrefix(e, "GOPROXY=") {
			continue
		}
		env = append(env, e)
	}
	cmd.Env = append(env, "GOFLAGS=-mod=mod", "GOPROXY=off", "CGO_ENABLED=1")
	b, err := cmd.CombinedOutput()
	if err != nil {
		return "", fmt.Errorf("%v: %s", err, firstLines(string(b), 4))
	}
	return out, nil
}

func stressOnce(c *vh.Ctx, bin string, cfg stressCfg) bool {
	run := cfg // what the child gets (the scratch directory is not part of the replayable case)
	if cfg.Mix == "load" {
		d, err := os.MkdirTemp(c.Scratch, "load")
		if err != nil {
			c.Note("load stream: %v", err)
			return true
		}
		run.Dir = d
	}
	timeout := 60*time.Second + time.Duration(cfg.G*cfg.N/2000)*time.Second
	if cfg.Race {
		timeout *= 4
	}
	if cfg.Mix == "load" {
		timeout = 25 * time.Second // 16×200 loads take well under a second; a hang here is a lock held across the loader
	}
	v, crash := runStressChild(c, bin, run, timeout)
	c.Eval(fmt.Sprintf("stress g=%d n=%d p=%d names=%d seed=%d race=%v mix=%s", cfg.G, cfg.N, cfg.Procs, cfg.Names, cfg.Seed, cfg.Race, cfg.Mix), true)
	c.Hit(fmt.Sprintf("stress:g=%d", cfg.G))
	c.Hit(fmt.Sprintf("stress:procs=%d", cfg.Procs))
	if cfg.Race {
		c.Hit("stress:race-detector")
	}
	c.HitN("stress:calls", v.Calls)
	c.HitN("stress:ok-adds", v.OkAdd)
	c.HitN("stress:dup-rejected", v.Dup)
	c.HitN("stress:hits", v.Hits)
	c.Res.Traces++
	if crash != "" {
		c.Violation(crashSig(crash), fmt.Sprintf("%d goroutines × %d mixed registry calls on one VM (GOMAXPROCS=%d): %s", cfg.G, cfg.N, cfg.Procs, crash), cfg)
		return false
	}
	if !v.OK {
		c.Violation(v.Sig, fmt.Sprintf("%d goroutines × %d calls: recorded history has no sequential witness: %s", cfg.G, cfg.N, v.What), cfg)
		return false
	}
	return true
}

func concurrentPart(c *vh.Ctx) {
	self := vh.Self()
	type gn struct{ g, n int }
	// ascending sizes: the first failing configuration is the smallest tried
	plan := []gn{{2, 100}, {2, 1000}, {3, 300}, {4, 1000}, {8, 1000}, {16, 1000}, {8, 10000}}
	if c.Thorough() {
		plan = append(plan, gn{5, 3000}, gn{12, 3000}, gn{16, 10000}, gn{2, 10000}, gn{16, 100})
	}
	procsOf := []int{1, 2, 4, 8, 16}
	failed := false
	for rep := 0; rep < c.N(2, 6) && !failed; rep++ {
		for _, p := range plan {
			for _, mix := range []string{"", "add", "classes"} {
				cfg := stressCfg{Kind: "stress", G: p.g, N: p.n, Procs: vh.Pick(c.Rand, procsOf), Names: max(4, p.g*p.n/vh.Pick(c.Rand, []int{4, 16, 64})), Seed: c.Rand.U64() % 1000000, Mix: mix}
				if rep == 0 && cfg.Procs == 1 {
					cfg.Procs = 4
				}
				if !stressOnce(c, self, cfg) {
					failed = true
					break
				}
			}
			if failed {
				break
			}
		}
	}
	if failed {
		return
	}
	// the whole surface of the guarded maps (derived from runtime/vm.go): file loads, compiled files and
	// RegisterGlobalContext ∥ `global` lookups and the registry calls
	if !surfacePart(c, "") || !globalsPart(c, self, false) {
		return
	}
	// forced overlap: first lookups of a fresh name released together with its registration
	if !overlapPart(c, self, false) {
		return
	}
	// the resolution surface behind the registry maps (class-path manager, parser clones, autoload, TempVM)
	if !resolvePart(c, self, false) {
		return
	}
	// what the parser puts into the registry: one loader through the real parser ∥ observers of the published objects
	if !publishPart(c, self, false) {
		return
	}
	// known stream: concurrent autoload of the same class files. Kept out of the main stream
	// (known finding C10-autoload-file-marked-before-registered); a crash or a hang here is
	// still a violation of its own.
	for rep := 0; rep < c.N(6, 12); rep++ {
		cfg := stressCfg{Kind: "stress", G: vh.Pick(c.Rand, []int{4, 8, 16}), N: 200, Procs: vh.Pick(c.Rand, []int{4, 8, 16}), Names: 8, Seed: c.Rand.U64() % 1000000, Mix: "load"}
		c.Hit("stress:load-stream")
		if !stressOnce(c, self, cfg) && len(c.Res.KnownConfirmed) > 0 && c.Res.ViolationCount == 0 {
			break // reproduced the known finding
		}
		if c.Res.ViolationCount > 0 {
			return
		}
	}
	// the same through lazily discovered namespaces and all three loading calls
	for rep := 0; rep < c.N(2, 6); rep++ {
		cfg := resolveCfg{Kind: "resolve", Mix: "loadshared", G: vh.Pick(c.Rand, []int{4, 8, 16}), Rounds: 10, Procs: vh.Pick(c.Rand, []int{4, 8, 16}), NS: 8, Seed: c.Rand.U64() % 1000000}
		if !resolveOnce(c, self, cfg) {
			return
		}
	}
	// known stream: declarations the parser registers before it has finished them (an enum before its cases, an
	// interface before its constants; listed in C10.knownPostPublicationWrites). Kept out of the main publication
	// stream; anything else that goes wrong here is a violation of its own.
	for rep := 0; rep < c.N(2, 6); rep++ {
		cfg := publishCfg{Kind: "publish", Mix: "decl", G: vh.Pick(c.Rand, []int{3, 5, 9}), Rounds: 40, Procs: vh.Pick(c.Rand, []int{4, 8, 16}), Seed: c.Rand.U64() % 1000000}
		if !publishOnce(c, self, cfg) {
			return
		}
	}
	if !c.Thorough() && os.Getenv("VERIF_C10_RACE") == "" {
		c.Note("race detector: not used in the quick tier (set VERIF_C10_RACE=1 to force)")
		return
	}
	t0 := time.Now()
	rb, err := buildRace(c)
	if err != nil {
		c.Note("race-enabled harness could not be built (%v); concurrent part ran without the race detector", err)
		return
	}
	c.Note("race-enabled harness built in %.0fs", time.Since(t0).Seconds())
	for rep := 0; rep < c.N(1, 4); rep++ {
		for _, p := range []gn{{2, 100}, {4, 1000}, {8, 3000}, {16, 1000}, {16, 10000}} {
			cfg := stressCfg{Kind: "stress", G: p.g, N: p.n, Procs: vh.Pick(c.Rand, []int{2, 4, 8, 16}), Names: max(4, p.g*p.n/vh.Pick(c.Rand, []int{4, 16, 64})), Seed: c.Rand.U64() % 1000000, Race: true}
			if !stressOnce(c, rb, cfg) {
				return
			}
		}
	}
	if !globalsPart(c, rb, true) {
		return
	}
	if !overlapPart(c, rb, true) {
		return
	}
	// the resolution surface under the detector (find / parse / autoload / TempVM)
	if !resolvePart(c, rb, true) {
		return
	}
	// a write to a declaration after its publication is a race with every reader of the registry
	if !publishPart(c, rb, true) {
		return
	}
	// enums / interfaces under the detector: on a tree without fixes/C10-interface-parents-normalised-before-registration.patch
	// this reports the race on i.Extends (listed finding), so it is opt-in until the patch is applied
	if os.Getenv("VERIF_C10_DECL_RACE") != "" {
		publishOnce(c, rb, publishCfg{Kind: "publish", Mix: "decl", G: 4, Rounds: 40, Procs: 8, Seed: c.Rand.U64() % 1000000, Race: true})
	}
}

// ------------------------------------------------------------ Run

func Run(c *vh.Ctx) {
	m, err := vh.StartModel(c.ModelPath)
	if err != nil {
		c.Note("model not available: %v", err)
		m = nil
	} else {
		defer m.Close()
		c.Res.ModelUsed = true
	}
	c.Res.Rule = "sequential history: contains at least one defining call and one lookup, distinct op lists; class-path manager history: at least one AddNamespace and one FindClassFile; concurrent: distinct (goroutines, calls or rounds, GOMAXPROCS, pool / namespaces, seed, mix) configurations of the registry stress and of the resolution streams (find / parse / load / temp / loadshared); publication stream: distinct (goroutines, rounds, GOMAXPROCS, seed) configurations"
	if len(c.ReplayRaw) > 0 {
		var k struct {
			Kind string `json:"kind"`
		}
		json.Unmarshal(c.ReplayRaw, &k)
		switch k.Kind {
		case "seq":
			var sc seqCase
			json.Unmarshal(c.ReplayRaw, &sc)
			checkSeqBatch(c, m, [][]op{sc.Ops})
		case "stress":
			var cfg stressCfg
			json.Unmarshal(c.ReplayRaw, &cfg)
			bin := vh.Self()
			if cfg.Race {
				if rb, err := buildRace(c); err == nil {
					bin = rb
				} else {
					c.Note("race build failed: %v", err)
				}
			}
			// the schedule is the Go scheduler's: repeat the configuration (fresh seeds after the first)
			for i := 0; i < 20; i++ {
				if !stressOnce(c, bin, cfg) {
					break
				}
				cfg.Seed++
			}
		case "cpmseq":
			var cc cpmCase
			json.Unmarshal(c.ReplayRaw, &cc)
			cpmSequentialPart(c, m, cc.Ops)
		case "overlap":
			var cfg overlapCfg
			json.Unmarshal(c.ReplayRaw, &cfg)
			bin := vh.Self()
			if cfg.Race {
				if rb, err := buildRace(c); err == nil {
					bin = rb
				} else {
					c.Note("race build failed: %v", err)
				}
			}
			for i := 0; i < 20; i++ {
				if !overlapOnce(c, bin, cfg) {
					break
				}
				cfg.Seed++
			}
		case "api":
			var ac apiCase
			json.Unmarshal(c.ReplayRaw, &ac)
			surfacePart(c, ac.Method)
		case "globals":
			var cfg globalsCfg
			json.Unmarshal(c.ReplayRaw, &cfg)
			bin := vh.Self()
			if cfg.Race {
				if rb, err := buildRace(c); err == nil {
					bin = rb
				} else {
					c.Note("race build failed: %v", err)
				}
			}
			for i := 0; i < 20; i++ {
				if !globalsOnce(c, bin, cfg) {
					break
				}
				cfg.Seed++
			}
		case "publish":
			var cfg publishCfg
			json.Unmarshal(c.ReplayRaw, &cfg)
			bin := vh.Self()
			if cfg.Race {
				if rb, err := buildRace(c); err == nil {
					bin = rb
				} else {
					c.Note("race build failed: %v", err)
				}
			}
			for i := 0; i < 20; i++ {
				if !publishOnce(c, bin, cfg) {
					break
				}
				cfg.Seed++
			}
		case "resolve":
			var cfg resolveCfg
			json.Unmarshal(c.ReplayRaw, &cfg)
			bin := vh.Self()
			if cfg.Race {
				if rb, err := buildRace(c); err == nil {
					bin = rb
				} else {
					c.Note("race build failed: %v", err)
				}
			}
			for i := 0; i < 20; i++ {
				if !resolveOnce(c, bin, cfg) {
					break
				}
				cfg.Seed++
			}
		default:
			c.Note("unknown replay kind %q", k.Kind)
		}
		if m != nil {
			c.Res.ModelLines = m.Lines
		}
		return
	}
	sequentialPart(c, m)
	cpmSequentialPart(c, m, nil)
	if m != nil {
		c.Res.ModelLines = m.Lines
	}
	concurrentPart(c)
}
