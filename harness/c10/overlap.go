package c10

// Overlap streams: forced "first lookup of X overlaps the registration of X".
//
// The random stress (stress.go) draws names from a pool, so the one history the
// statement is most exposed to — a name is looked up for the FIRST time at the very
// moment it is being registered, and is looked up again right afterwards, before
// any other registration happens — has a vanishing share of it.  Any state a lookup
// derives from the registry and keeps outside the registry's critical section
// (a negative / positive lookup cache, a memoised fold match, a "known names"
// summary) is wrong exactly in that history and nowhere else.
//
// Here every group uses FRESH names on a long-lived VM.  The goroutines of a group
// are persistent workers released together by a spin barrier (plus a per-worker
// jitter that sweeps the relative offsets), in two shapes:
//
//	probe    j registrants (different files: one winner; or the same file) and G-j
//	         probers of the same fresh name, every getter route and spelling of the
//	         kind (class: GetClass exact / case variant, GetOrLoadClass, LoadPkg, with
//	         and without leading backslash; interface; function; constant; file cache;
//	         global), one or two lookups per prober;
//	handler  every goroutine runs `get X; if miss: add X; get X` over the group's names
//	         (`if (!class_exists(X)) declare X; use X` of concurrent request handlers).
//
// After the join the parent goroutine — nothing else is running — looks the names up
// through every route: these calls are later than everything in the group.  At the end
// of the run all names are looked up again.  Oracles (none involves the Lean model):
// the per-name sequential-witness conditions of the whole stamped history
// (stress.go `witness`: one winner, a rejection needs a winner, a lookup that starts
// after a completed successful registration hits and returns the winner, …) and the
// quiescent comparison: a FRESH VM on which the successful registrations are replayed
// sequentially in completion order must answer every lookup of the final pass exactly
// as the VM that went through the concurrent history.

import (
	"encoding/json"
	"fmt"
	"os"
	goruntime "runtime"
	"sort"
	"strings"
	"sync/atomic"
	"time"

	"verif/harness/vh"
)

func init() { vh.RegisterChild("c10overlap", overlapChild) }

type overlapCfg struct {
	Kind   string `json:"kind"`  // "overlap"
	Shape  string `json:"shape"` // probe | handler
	G      int    `json:"g"`     // goroutines of a group
	Groups int    `json:"groups"`
	Procs  int    `json:"procs"`
	Seed   uint64 `json:"seed"`
	Race   bool   `json:"race,omitempty"`
}

type overlapVerdict struct {
	stressVerdict
	Groups   int `json:"groups"`
	Overlaps int `json:"overlaps"` // groups in which a lookup really overlapped the winning registration
	Misses   int `json:"first_misses"`
}

var overlapKinds = []string{"class", "class", "fold", "class", "iface", "fold", "class", "iface", "func", "const", "fold", "file", "global"}

// the lookups of one kind through every route and spelling (name index r)
func overlapGets(kind string, r int) []op {
	c, i := fmt.Sprintf("C%d", r), fmt.Sprintf("I%d", r)
	switch kind {
	case "class":
		return []op{{K: "gc", N: c}, {K: "gc", N: "c" + c[1:]}, {K: "glc", N: c}, {K: "glc", N: "\\" + c}, {K: "lp", N: c}, {K: "lp", N: "\\" + c}}
	case "iface":
		return []op{{K: "gi", N: i}, {K: "gli", N: i}, {K: "gli", N: "\\" + i}, {K: "lp", N: i}, {K: "lp", N: "\\" + i}}
	case "func":
		return []op{{K: "gfn", N: c}, {K: "gfn", N: "\\" + c}}
	case "const":
		return []op{{K: "gk", N: c}, {K: "gk", N: "\\" + c}}
	case "file":
		return []op{{K: "gfile", F: r + 1}}
	case "fold":
		return []op{{K: "gc", N: "c" + c[1:]}, {K: "gc", N: c}}
	}
	return []op{{K: "eg", N: c}}
}

func overlapAdd(kind string, r, id, file int) op {
	switch kind {
	case "class":
		return op{K: "ac", N: fmt.Sprintf("C%d", r), I: id, F: file}
	case "iface":
		return op{K: "ai", N: fmt.Sprintf("I%d", r), I: id, F: file}
	case "func":
		return op{K: "af", N: fmt.Sprintf("C%d", r), I: id}
	case "const":
		return op{K: "sc", N: fmt.Sprintf("C%d", r), I: id}
	case "file":
		return op{K: "sf", F: r + 1}
	}
	return op{K: "eg", N: fmt.Sprintf("C%d", r)}
}

var overlapSink atomic.Int64

func overlapSpin(n int) {
	x := 0
	for i := 0; i < n; i++ {
		x += i
	}
	if x < 0 { // never; keeps the loop
		overlapSink.Add(1)
	}
}

// one step of a worker's plan: a call, or the handler pattern `get; if miss add; get`
type planStep struct {
	o       op
	handler bool
	add     op
}

func overlapChild(args []string) int {
	var cfg overlapCfg
	if len(args) < 1 || json.Unmarshal([]byte(args[0]), &cfg) != nil || cfg.G < 2 || cfg.Groups < 1 {
		fmt.Fprintln(os.Stderr, "c10overlap: bad config")
		return 2
	}
	if cfg.Procs > 0 {
		goruntime.GOMAXPROCS(cfg.Procs)
	}
	vm := newVM()
	rnd := vh.NewRand(cfg.Seed*7919 + 13)
	var clock int64
	var phase, done atomic.Int64
	plans := make([][]planStep, cfg.G)
	delays := make([]int, cfg.G)
	recs := make([][]rec, cfg.G)
	frecs := make([][]rec, cfg.G) // histories of the `fold` groups (judged on their own, see below)
	curFold := false
	spinWait := func(v *atomic.Int64, want int64) {
		for n := 0; v.Load() < want; n++ {
			if n > 300 {
				goruntime.Gosched()
			}
		}
	}
	call := func(g int, o op) rec {
		s := atomic.AddInt64(&clock, 1)
		res := apply(vm, o, nil)
		e := atomic.AddInt64(&clock, 1)
		return rec{o, g, s, e, res}
	}
	for g := 0; g < cfg.G; g++ {
		go func(g int) {
			for r := int64(1); r <= int64(cfg.Groups); r++ {
				spinWait(&phase, r)
				overlapSpin(delays[g])
				for _, st := range plans[g] {
					if curFold {
						frecs[g] = append(frecs[g], call(g, st.o))
						continue
					}
					if !st.handler {
						recs[g] = append(recs[g], call(g, st.o))
						continue
					}
					first := call(g, st.o)
					recs[g] = append(recs[g], first)
					if !strings.HasPrefix(first.r, "hit") {
						recs[g] = append(recs[g], call(g, st.add))
					}
					recs[g] = append(recs[g], call(g, st.o))
				}
				done.Add(1)
			}
		}(g)
	}
	var post, foldPost []rec
	var foldBad string
	foldSet := map[string]bool{}
	type nameKind struct {
		kind string
		r    int
	}
	var names []nameKind
	next := 0
	for r := 0; r < cfg.Groups; r++ {
		kind := overlapKinds[r%len(overlapKinds)]
		var groupNames []int
		for g := range plans {
			plans[g] = plans[g][:0]
			delays[g] = rnd.Intn(1 + (r*31)%257)
		}
		curFold = false
		if cfg.Shape == "handler" && kind != "fold" {
			if kind == "file" || kind == "global" {
				kind = "class"
			}
			nn := 1 + rnd.Intn(4)
			for k := 0; k < nn; k++ {
				groupNames = append(groupNames, next)
				gets := overlapGets(kind, next)
				sameFile := rnd.Chance(15)
				for g := range plans {
					file := g + 1
					if sameFile {
						file = 1
					}
					plans[g] = append(plans[g], planStep{o: vh.Pick(rnd, gets), handler: true, add: overlapAdd(kind, next, next*64+g+1, file)})
				}
				next++
			}
		} else if kind == "fold" {
			// `C<r>` is registered; lookups of the other spelling `c<r>` fall back to it (case-insensitive scan)
			// while `c<r>` itself is being registered: afterwards the exact name answers
			curFold = true
			foldSet[fmt.Sprint(next)] = true
			groupNames = append(groupNames, next)
			foldPost = append(foldPost, call(-1, op{K: "ac", N: fmt.Sprintf("C%d", next), I: next*64 + 63, F: 1}))
			gets := overlapGets(kind, next)
			for g := range plans {
				if g == 0 {
					plans[g] = append(plans[g], planStep{o: op{K: "ac", N: fmt.Sprintf("c%d", next), I: next*64 + 1, F: 2}})
					continue
				}
				plans[g] = append(plans[g], planStep{o: gets[rnd.Intn(4)/3]}) // mostly the spelling being registered
				if rnd.Chance(40) {
					plans[g] = append(plans[g], planStep{o: gets[0]})
				}
			}
			next++
		} else {
			groupNames = append(groupNames, next)
			gets := overlapGets(kind, next)
			adders := 1
			if cfg.G > 2 && rnd.Chance(30) {
				adders = 2
			}
			sameFile := rnd.Chance(30)
			for g := range plans {
				if g < adders {
					file := g + 1
					if sameFile {
						file = 1
					}
					plans[g] = append(plans[g], planStep{o: overlapAdd(kind, next, next*64+g+1, file)})
					continue
				}
				plans[g] = append(plans[g], planStep{o: vh.Pick(rnd, gets)})
				if rnd.Chance(40) {
					plans[g] = append(plans[g], planStep{o: vh.Pick(rnd, gets)})
				}
			}
			next++
		}
		phase.Add(1)
		spinWait(&done, int64((r+1)*cfg.G))
		// every call of the group has returned; these lookups are later than all of them
		for _, n := range groupNames {
			names = append(names, nameKind{kind, n})
			for i, q := range overlapGets(kind, n) {
				if kind != "fold" {
					post = append(post, call(-1, q))
					continue
				}
				// sequentially determined: the exact name wins over the case-insensitive fallback
				p := call(-1, q)
				foldPost = append(foldPost, p)
				want := fmt.Sprintf("hit:%d", n*64+[]int{1, 63}[i])
				if p.r != want && foldBad == "" {
					foldBad = fmt.Sprintf("AddClass(%q) and AddClass(%q) both reported success; after all goroutines were joined %s answered %s instead of %s (the declaration registered under exactly that name)", fmt.Sprintf("C%d", n), fmt.Sprintf("c%d", n), q.model(), p.r, want)
				}
			}
		}
	}
	// final pass over all names on the VM that went through the history
	final := make([]rec, 0, len(names)*4)
	for _, n := range names {
		for _, q := range overlapGets(n.kind, n.r) {
			final = append(final, call(-2, q))
		}
	}
	var all []rec
	for _, l := range recs {
		all = append(all, l...)
	}
	v := overlapVerdict{Groups: cfg.Groups}
	// how often did the stream produce what it is for?
	keyOf := func(o op) string {
		n := strings.TrimPrefix(o.N, "\\")
		switch o.K {
		case "ac":
			return "cls:" + o.N
		case "ai":
			return "if:" + o.N
		case "af":
			return "fn:" + o.N
		case "sc":
			return "k:" + o.N
		case "gc":
			return "cls:C" + o.N[1:]
		case "glc":
			return "cls:" + n
		case "gi", "gli":
			return "if:" + n
		case "lp":
			if strings.HasPrefix(n, "I") {
				return "if:" + n
			}
			return "cls:" + n
		case "gfn":
			return "fn:" + n
		case "gk":
			return "k:" + n
		}
		return ""
	}
	winners := map[string]rec{}
	for _, a := range all {
		if (a.o.K == "ac" || a.o.K == "ai" || a.o.K == "af" || a.o.K == "sc") && a.r == "ok" {
			if w, ok := winners[keyOf(a.o)]; !ok || a.e < w.e {
				winners[keyOf(a.o)] = a
			}
		}
	}
	overl := map[string]bool{}
	for _, q := range all {
		key := keyOf(q.o)
		if key == "" || q.o.K[0] == 'a' || q.o.K == "sc" {
			continue
		}
		if w, ok := winners[key]; ok && q.s < w.e && w.s < q.e {
			overl[key] = true
			if !strings.HasPrefix(q.r, "hit") {
				v.Misses++
			}
		}
	}
	v.Overlaps = len(overl)
	all = append(all, post...)
	var nonFold []rec // the witness conditions assume that only `C<r>` is ever registered; fold groups are judged apart
	for _, f := range final {
		if !(f.o.K == "gc" && foldSet[f.o.N[1:]]) {
			nonFold = append(nonFold, f)
		}
	}
	all = append(all, nonFold...)
	v.stressVerdict = witness(all)
	if v.OK && foldBad != "" {
		v.OK, v.Sig, v.What = false, "overlap:fold:exact-registration-not-visible", foldBad
	}
	if v.OK {
		hist := append([]rec{}, all...)
		hist = append(hist, foldPost...)
		for _, l := range frecs {
			hist = append(hist, l...)
		}
		for _, l := range frecs {
			for _, q := range l {
				if strings.HasPrefix(q.r, "panic") || q.r == "miss" && q.o.K == "gc" {
					// `C<r>` was registered before the group started: no spelling of it can miss
					v.OK, v.Sig, v.What = false, "overlap:fold:registered-not-visible", fmt.Sprintf("%s answered %s although C%s had been registered before the group started", q.o.model(), q.r, q.o.N[1:])
				}
			}
		}
		if sig, what := quiescentReplay(hist, final); v.OK && sig != "" {
			v.OK, v.Sig, v.What = false, sig, what
		}
	}
	b, _ := json.Marshal(v)
	os.Stdout.Write(b)
	return 0
}

// quiescentReplay: the registry only grows and a name has one winner, so its final
// state is a function of the successful registrations.  Replay them sequentially (completion
// order) on a fresh VM and compare every lookup of the final pass.
func quiescentReplay(all, final []rec) (sig, what string) {
	var oks []rec
	for _, a := range all {
		switch a.o.K {
		case "ac", "ai", "af", "sc":
			if a.r == "ok" {
				oks = append(oks, a)
			}
		case "sf", "eg":
			oks = append(oks, a)
		}
	}
	sort.Slice(oks, func(i, j int) bool { return oks[i].e < oks[j].e })
	fresh := newVM()
	okIDs := map[string]map[string]bool{} // name → ids of every successful registration (same-file re-adds all report success)
	for _, a := range oks {
		apply(fresh, a.o, nil)
		if a.o.I != 0 {
			k := a.o.K + a.o.N
			if okIDs[k] == nil {
				okIDs[k] = map[string]bool{}
			}
			okIDs[k][fmt.Sprint(a.o.I)] = true
		}
	}
	for _, q := range final {
		want := apply(fresh, q.o, nil)
		got := q.r
		if q.o.K == "eg" { // pointer identities differ between two VMs
			want, got = want[:3], got[:min(3, len(got))]
		}
		if got == want {
			continue
		}
		// several same-file registrations reported success: which of them was inserted first is the schedule's choice
		if strings.HasPrefix(got, "hit") && strings.HasPrefix(want, "hit") {
			id := got[strings.IndexByte(got, ':')+1:]
			same := false
			for _, ids := range okIDs {
				if ids[id] && ids[want[strings.IndexByte(want, ':')+1:]] {
					same = true
				}
			}
			if same {
				continue
			}
		}
		return "overlap:quiescent:replay-diverges", fmt.Sprintf("after all goroutines were joined %s answered %s; a fresh VM on which the %d successful registrations of the history are replayed sequentially answers %s", q.o.model(), got, len(oks), want)
	}
	return "", ""
}

// ------------------------------------------------------------ parent side

func overlapOnce(c *vh.Ctx, bin string, cfg overlapCfg) bool {
	timeout := 60*time.Second + time.Duration(cfg.Groups*cfg.G/5000)*time.Second
	if cfg.Race {
		timeout *= 4
	}
	arg, _ := json.Marshal(cfg)
	out, crash := runChild(bin, "c10overlap", arg, cfg.Procs, timeout)
	var v overlapVerdict
	if crash == "" && json.Unmarshal(out, &v) != nil {
		crash = "child printed no verdict: " + firstLines(string(out), 3)
	}
	c.Eval(fmt.Sprintf("overlap shape=%s g=%d groups=%d p=%d seed=%d race=%v", cfg.Shape, cfg.G, cfg.Groups, cfg.Procs, cfg.Seed, cfg.Race), true)
	c.Hit("overlap:shape=" + cfg.Shape)
	c.Hit(fmt.Sprintf("overlap:g=%d", cfg.G))
	c.Hit(fmt.Sprintf("overlap:procs=%d", cfg.Procs))
	if cfg.Race {
		c.Hit("overlap:race-detector")
	}
	c.HitN("overlap:groups", v.Groups)
	c.HitN("overlap:names-with-a-lookup-overlapping-the-winning-registration", v.Overlaps)
	c.HitN("overlap:lookups-overlapping-the-registration-that-missed", v.Misses)
	c.HitN("overlap:calls", v.Calls)
	c.HitN("overlap:ok-adds", v.OkAdd)
	c.HitN("overlap:dup-rejected", v.Dup)
	c.HitN("overlap:hits", v.Hits)
	c.Res.Traces++
	where := fmt.Sprintf("%d groups of %d goroutines released together on one VM, fresh names per group, shape %s (GOMAXPROCS=%d)", cfg.Groups, cfg.G, overlapWhat[cfg.Shape], cfg.Procs)
	if crash != "" {
		c.Violation(crashSig(crash), where+": "+crash, cfg)
		return false
	}
	if !v.OK {
		c.Violation(v.Sig, where+": recorded history has no sequential witness: "+v.What, cfg)
		return false
	}
	return true
}

var overlapWhat = map[string]string{
	"probe":   "`registrant(s) of X ∥ first lookups of X`, then lookups of X after the join",
	"handler": "`get X; if miss: add X; get X` in every goroutine, then lookups of X after the join",
}

// overlapPart: the plan. Ascending sizes; stops at the first violation.
func overlapPart(c *vh.Ctx, bin string, race bool) bool {
	type gg struct{ g, groups int }
	plan := []gg{{2, 300}, {4, 800}, {8, 800}, {16, 400}}
	if c.Thorough() {
		plan = []gg{{2, 1000}, {3, 2000}, {4, 4000}, {8, 4000}, {12, 2000}, {16, 2000}}
	}
	reps := c.N(1, 3)
	if race {
		plan = []gg{{2, 300}, {4, 1000}, {8, 1000}, {16, 500}}
		reps = 1
	}
	for rep := 0; rep < reps; rep++ {
		for _, p := range plan {
			for _, shape := range []string{"probe", "handler"} {
				procs := vh.Pick(c.Rand, []int{2, 4, 8, 16})
				if rep > 0 {
					procs = vh.Pick(c.Rand, []int{1, 2, 3, 4, 8, 16})
				}
				cfg := overlapCfg{Kind: "overlap", Shape: shape, G: p.g, Groups: p.groups, Procs: procs, Seed: c.Rand.U64() % 1000000, Race: race}
				if !overlapOnce(c, bin, cfg) {
					return false
				}
			}
		}
	}
	return true
}
