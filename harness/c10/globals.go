package c10

// Round 8: the WHOLE surface of the guarded maps.
//
// The registry stress draws its calls from a hand-written alphabet (Add* / Get* / SetConstant /
// EnsureGlobalZVal / Set-/GetPhpFileCache).  A lock SPLIT (one mutex → two) that converts some but
// not all accessors of a map leaves every method correctly locked when read alone; only a pair of
// calls that reach the same map through DIFFERENT methods meets the defect, and one of the two may
// be a method the alphabet never had (RegisterGlobalContext, reached through LoadAndRun /
// RunCompiledFile).  So
//
//   - apiSurface derives, from runtime/vm.go of the tree under test, every method of *VM through which
//     a map field of VM is reached (own accesses + those of the *VM methods it calls, transitively):
//     each exported one must have a generator in `generators` (api:registry-method-without-generator);
//   - the `globals` stream (child c10globals) calls all of them concurrently on one VM: contexts with
//     fresh and shared top-level variables published by RegisterGlobalContext, LoadAndRun / CompileLoad of
//     generated files (top-level variables + a function that binds names with `global` and is called by the
//     file), RegisterCompiledFile + RunCompiledFile, AllFuncs / AllClasses, mixed with the old alphabet;
//   - oracle (independent of any model): survival (fatal error: concurrent map …), race report, and the
//     per-name witness of the globals table: a name is bound ONCE (every EnsureGlobalZVal of the name
//     returns the same ZVal, also after the join), and a binding completed before any other call on
//     the name began is the one every lookup returns.

import (
	"encoding/json"
	"fmt"
	"go/ast"
	goparser "go/parser"
	"go/token"
	"os"
	"path/filepath"
	goruntime "runtime"
	"sort"
	"strings"
	"sync"
	"sync/atomic"
	"time"

	"github.com/php-any/origami/data"
	"github.com/php-any/origami/parser"
	"github.com/php-any/origami/runtime"

	"verif/harness/vh"
)

func init() {
	vh.RegisterChild("c10globals", globalsChild)
}

// ------------------------------------------------------------ derived alphabet

// generators: method of *VM → the op kinds (of the globals stream unless noted) that call it.
var generators = map[string]string{
	"SetPhpFileCache":       "sf",
	"GetPhpFileCache":       "gfile",
	"AddClass":              "ac",
	"AddInterface":          "ai",
	"GetClass":              "gc",
	"GetOrLoadClass":        "glc",
	"LoadPkg":               "lp",
	"GetInterface":          "gi",
	"GetOrLoadInterface":    "gli",
	"AddFunc":               "af",
	"GetFunc":               "gfn",
	"AllFuncs":              "allf",
	"AllClasses":            "allc",
	"RegisterCompiledFile":  "rc",
	"RunCompiledFile":       "rc",
	"LoadAndRun":            "lr",
	"CompileLoad":           "cl",
	"SetConstant":           "sc",
	"GetConstant":           "gk",
	"EnsureGlobalZVal":      "eg",
	"RegisterGlobalContext": "rg",
}

type apiCase struct {
	Kind   string `json:"kind"` // "api"
	Method string `json:"method"`
}

// apiSurface: exported methods of *typ in the file that reach guarded state, with what they reach. Guarded state:
// the map-typed fields of typ reached as recv.<field>; the fields named in nodeFields reached through any
// expression (nodes of the class-path manager's tree); and, when via != "", the methods of `base` (the surface of
// the type the field recv.<via> points to: TempVM.Base) called as recv.<via>.<Method>.
func apiSurface(repo, rel, typ string, nodeFields map[string]bool, via string, base map[string][]string) (map[string][]string, error) {
	fset := token.NewFileSet()
	f, err := goparser.ParseFile(fset, filepath.Join(repo, rel), nil, 0)
	if err != nil {
		return nil, err
	}
	maps := map[string]bool{}
	for _, d := range f.Decls {
		gd, ok := d.(*ast.GenDecl)
		if !ok {
			continue
		}
		for _, sp := range gd.Specs {
			ts, ok := sp.(*ast.TypeSpec)
			if !ok || ts.Name.Name != typ || via != "" || nodeFields != nil {
				continue
			}
			st, ok := ts.Type.(*ast.StructType)
			if !ok {
				continue
			}
			for _, fl := range st.Fields.List {
				if _, ok := fl.Type.(*ast.MapType); ok {
					for _, n := range fl.Names {
						maps[n.Name] = true
					}
				}
			}
		}
	}
	own := map[string]map[string]bool{}
	calls := map[string]map[string]bool{}
	for _, d := range f.Decls {
		fd, ok := d.(*ast.FuncDecl)
		if !ok || fd.Recv == nil || len(fd.Recv.List) != 1 || fd.Body == nil {
			continue
		}
		st, ok := fd.Recv.List[0].Type.(*ast.StarExpr)
		if !ok {
			continue
		}
		if id, ok := st.X.(*ast.Ident); !ok || id.Name != typ {
			continue
		}
		recv := ""
		if len(fd.Recv.List[0].Names) == 1 {
			recv = fd.Recv.List[0].Names[0].Name
		}
		m := fd.Name.Name
		own[m], calls[m] = map[string]bool{}, map[string]bool{}
		ast.Inspect(fd.Body, func(n ast.Node) bool {
			se, ok := n.(*ast.SelectorExpr)
			if !ok {
				return true
			}
			if nodeFields[se.Sel.Name] {
				own[m][se.Sel.Name] = true
			}
			if in, ok := se.X.(*ast.SelectorExpr); ok && via != "" && in.Sel.Name == via {
				if id, ok := in.X.(*ast.Ident); ok && id.Name == recv {
					for _, k := range base[se.Sel.Name] {
						own[m][via+"."+se.Sel.Name+"→"+k] = true
					}
				}
			}
			if id, ok := se.X.(*ast.Ident); ok && id.Name == recv {
				if maps[se.Sel.Name] {
					own[m][se.Sel.Name] = true
				} else {
					calls[m][se.Sel.Name] = true // a method call or another field: filtered below
				}
			}
			return true
		})
	}
	reach := map[string]map[string]bool{}
	var visit func(m string, seen map[string]bool) map[string]bool
	visit = func(m string, seen map[string]bool) map[string]bool {
		out := map[string]bool{}
		if seen[m] {
			return out
		}
		seen[m] = true
		for k := range own[m] {
			out[k] = true
		}
		for c := range calls[m] {
			if _, isMethod := own[c]; isMethod {
				for k := range visit(c, seen) {
					out[k] = true
				}
			}
		}
		return out
	}
	for m := range own {
		reach[m] = visit(m, map[string]bool{})
	}
	res := map[string][]string{}
	for m, r := range reach {
		if len(r) == 0 || !ast.IsExported(m) {
			continue
		}
		var l []string
		for k := range r {
			l = append(l, k)
		}
		sort.Strings(l)
		res[m] = l
	}
	return res, nil
}

// tempGenerators: method of *TempVM that delegates to a method of the base VM's surface → op kind called through
// the goroutine's own TempVM in the globals stream
var tempGenerators = map[string]string{
	"LoadAndRun": "lr", "CompileLoad": "cl", "GetClass": "gc", "GetOrLoadClass": "glc", "LoadPkg": "lp", "GetInterface": "gi",
	"GetOrLoadInterface": "gli", "GetFunc": "gfn", "SetPhpFileCache": "sf", "GetPhpFileCache": "gfile", "SetConstant": "sc",
	"GetConstant": "gk", "EnsureGlobalZVal": "eg", "RegisterCompiledFile": "rc", "RunCompiledFile": "rc",
}

// pathGenerators: method of *DefaultClassPathManager that reaches the namespace tree → op of the resolve stream
var pathGenerators = map[string]string{"AddNamespace": "resolve:add", "FindClassFile": "resolve:find", "LoadClass": "resolve:load"}

// surfacePart checks that the concurrent streams' alphabets cover the derived surface of every type through which
// the guarded maps are reached: *VM, the per-request *TempVM (delegation to Base), the class-path manager.
func surfacePart(c *vh.Ctx, only string) bool {
	vmSurf, err := apiSurface(c.Repo, "runtime/vm.go", "VM", nil, "", nil)
	if err != nil {
		c.Note("api surface: runtime/vm.go could not be parsed: %v", err)
		return true
	}
	if len(vmSurf) == 0 {
		c.Violation("api:registry-surface-not-found", "no method of *VM in runtime/vm.go reaches a map field of VM: the registry is not where the check looks for it", apiCase{"api", "VM"})
		return false
	}
	ok := true
	check := func(typ string, surf map[string][]string, gens map[string]string) {
		var ms []string
		for m := range surf {
			ms = append(ms, m)
		}
		sort.Strings(ms)
		for _, m := range ms {
			full := typ + "." + m
			if only != "" && full != only {
				continue
			}
			c.Eval("api "+full, true)
			c.Hit("api:method-reaching-a-guarded-map:" + typ)
			if gens[m] == "" {
				c.Violation("api:registry-method-without-generator", fmt.Sprintf("(*%s).%s reaches guarded state (%s) but no concurrent stream calls it: the stress alphabet no longer covers the registry's surface", typ, m, strings.Join(surf[m], ", ")), apiCase{"api", full})
				ok = false
			}
		}
	}
	check("VM", vmSurf, generators)
	// unexported methods of *VM are part of the base surface a TempVM may call (same package)
	if tSurf, err := apiSurface(c.Repo, "runtime/vm_temp.go", "TempVM", nil, "Base", vmSurf); err == nil {
		check("TempVM", tSurf, tempGenerators)
	} else {
		c.Note("api surface: runtime/vm_temp.go could not be parsed: %v", err)
	}
	if pSurf, err := apiSurface(c.Repo, "parser/class_path_manager.go", "DefaultClassPathManager", map[string]bool{"children": true, "paths": true}, "", nil); err == nil {
		check("DefaultClassPathManager", pSurf, pathGenerators)
	} else {
		c.Note("api surface: parser/class_path_manager.go could not be parsed: %v", err)
	}
	return ok
}

// ------------------------------------------------------------ the stream

type globalsCfg struct {
	Kind  string `json:"kind"` // "globals"
	Mix   string `json:"mix"`  // "api" = Go API only; "bind" = only the writers of the globals table; "load" = + LoadAndRun / CompileLoad of generated files
	G     int    `json:"g"`
	N     int    `json:"n"`
	Procs int    `json:"procs"`
	Names int    `json:"names"`
	Seed  uint64 `json:"seed"`
	Race  bool   `json:"race,omitempty"`
	Dir   string `json:"dir,omitempty"`
	// mix "map:<field>": the alphabet, derived from the surface = the generators of exactly the methods that reach this map
	Ops []string `json:"ops,omitempty"`
}

type globalsVerdict struct {
	OK     bool           `json:"ok"`
	Sig    string         `json:"sig,omitempty"`
	What   string         `json:"what,omitempty"`
	Calls  int            `json:"calls"`
	Kinds  map[string]int `json:"kinds"`
	Names  int            `json:"names"`
	Shared int            `json:"shared"` // names touched by both RegisterGlobalContext and EnsureGlobalZVal
}

type nopProgram struct{}

func (nopProgram) GetValue(ctx data.Context) (data.GetValue, data.Control) { return nil, nil }

// one observation of the globals table: call kind, name, the ZVal offered (rg) or returned (eg)
type gobs struct {
	k    string
	name string
	p    *data.ZVal
	s, e int64
}

func globalsChild(args []string) int {
	var cfg globalsCfg
	if len(args) < 1 || json.Unmarshal([]byte(args[0]), &cfg) != nil || cfg.G < 1 {
		fmt.Fprintln(os.Stderr, "c10globals: bad config")
		return 2
	}
	if cfg.Procs > 0 {
		goruntime.GOMAXPROCS(cfg.Procs)
	}
	if cfg.Names < 2 {
		cfg.Names = 2
	}
	basep := parser.NewParser()
	vm := runtime.NewVM(basep).(*runtime.VM)
	vm.SetThrowControl(func(acl data.Control) {})
	var clock int64
	obs := make([][]gobs, cfg.G)
	kinds := make([]map[string]int, cfg.G)
	errs := make([]string, cfg.G)
	start := make(chan struct{})
	var wg sync.WaitGroup
	alphabet := []string{"rg", "rg", "rg", "eg", "eg", "eg", "rc", "sc", "gk", "af", "gfn", "allf", "allc", "ac", "gc", "ai", "gi", "glc", "gli", "lp", "sf", "gfile"}
	if cfg.Mix == "bind" { // only the calls that write the globals table
		alphabet = []string{"rg", "rg", "eg", "eg", "rc"}
	}
	if cfg.Mix == "load" {
		alphabet = []string{"lr", "lr", "lr", "cl", "rg", "eg", "eg", "eg", "rc", "gk", "sc", "allf", "gfn"}
	}
	if len(cfg.Ops) > 0 {
		alphabet = cfg.Ops
	}
	for g := 0; g < cfg.G; g++ {
		wg.Add(1)
		go func(g int) {
			defer wg.Done()
			defer func() {
				if r := recover(); r != nil {
					errs[g] = fmt.Sprintf("panic: %v", r)
				}
			}()
			r := vh.NewRand(cfg.Seed*7919 + uint64(g))
			kc := map[string]int{}
			kinds[g] = kc
			var mine []gobs
			defer func() { obs[g] = mine }()
			pool := func() string { return fmt.Sprintf("v%d", r.Intn(cfg.Names)) }
			mkVars := func(i int) []data.Variable {
				names := []string{fmt.Sprintf("own_%d_%d", g, i)}
				for k := r.Intn(3); k >= 0; k-- {
					n := pool()
					dup := false
					for _, x := range names {
						dup = dup || x == n
					}
					if !dup {
						names = append(names, n)
					}
				}
				vars := make([]data.Variable, len(names))
				for k, n := range names {
					vars[k] = data.NewVariable(n, k, nil)
				}
				return vars
			}
			// the goroutine's own per-request TempVM: its lookups, constants, globals and file loads delegate to the base VM
			tvm := runtime.NewTempVM(vm).(*runtime.TempVM)
			tvm.PrepareParse(basep) // what the request handler does before it uses the TempVM
			<-start
			for i := 0; i < cfg.N; i++ {
				k := vh.Pick(r, alphabet)
				kc[k]++
				temp := r.Chance(30) && tempGenerators[map[string]string{"lr": "LoadAndRun", "cl": "CompileLoad", "rc": "RunCompiledFile", "eg": "EnsureGlobalZVal"}[k]] != ""
				if temp {
					kc["temp:"+k]++
				}
				switch k {
				case "rg":
					vars := mkVars(i)
					ctx := vm.CreateContext(vars)
					s := atomic.AddInt64(&clock, 1)
					vm.RegisterGlobalContext(vars, ctx)
					e := atomic.AddInt64(&clock, 1)
					for _, v := range vars {
						mine = append(mine, gobs{"rg", v.GetName(), ctx.GetIndexZVal(v.GetIndex()), s, e})
					}
				case "rc":
					vars := mkVars(i)
					file := fmt.Sprintf("/vh-c10-compiled/g%d_%d.php", g, i)
					var ctxVars []data.Variable
					s0 := atomic.AddInt64(&clock, 1)
					var rvm interface {
						RegisterCompiledFile(string, func() (data.GetValue, []data.Variable))
						RunCompiledFile(string) (data.GetValue, data.Control)
					} = vm
					if temp {
						rvm = tvm
					}
					rvm.RegisterCompiledFile(file, func() (data.GetValue, []data.Variable) { ctxVars = vars; return nopProgram{}, vars })
					if _, acl := rvm.RunCompiledFile(file); acl != nil || ctxVars == nil {
						errs[g] = fmt.Sprintf("RunCompiledFile(%s) of a file just registered failed: %v", file, acl)
						return
					}
					// the context is internal (ZVals unknown: p = nil): what got bound is observed through lookups
					for _, v := range vars {
						mine = append(mine, gobs{"rg", v.GetName(), nil, s0, atomic.AddInt64(&clock, 1)})
					}
					s := atomic.AddInt64(&clock, 1)
					p := vm.EnsureGlobalZVal(vars[0].GetName())
					e := atomic.AddInt64(&clock, 1)
					mine = append(mine, gobs{"eg", vars[0].GetName(), p, s, e})
				case "eg":
					n := pool()
					if r.Chance(15) && i > 0 {
						n = fmt.Sprintf("own_%d_%d", r.Intn(cfg.G), r.Intn(i))
					}
					s := atomic.AddInt64(&clock, 1)
					var p *data.ZVal
					if temp {
						p = tvm.EnsureGlobalZVal(n)
					} else {
						p = vm.EnsureGlobalZVal(n)
					}
					e := atomic.AddInt64(&clock, 1)
					if p == nil {
						errs[g] = fmt.Sprintf("EnsureGlobalZVal(%q) returned nil", n)
						return
					}
					mine = append(mine, gobs{"eg", n, p, s, e})
				case "lr", "cl":
					file := filepath.Join(cfg.Dir, fmt.Sprintf("%s_%d_%d.php", k, g, i))
					a, b := pool(), pool()
					src := fmt.Sprintf("<?php\n$%s = %d;\n$own_%d_%d = %d;\nfunction fn_%s_%d_%d() { global $%s; global $lk_%d_%d; $lk_%d_%d = %d; return 1; }\nfn_%s_%d_%d();\n",
						a, i, g, i, i, k, g, i, b, g, i, g, i, i, k, g, i)
					if err := os.WriteFile(file, []byte(src), 0o644); err != nil {
						errs[g] = err.Error()
						return
					}
					if k == "cl" {
						var acl data.Control
						if temp {
							acl = tvm.CompileLoad(file)
						} else {
							acl = vm.CompileLoad(file)
						}
						if acl != nil {
							errs[g] = fmt.Sprintf("CompileLoad(%s): %s", filepath.Base(file), firstLines(acl.AsString(), 1))
							return
						}
						break
					}
					s0 := atomic.AddInt64(&clock, 1)
					if temp {
						// the request VM runs the file on its own context: top-level variables are NOT published (as coded);
						// the function's `global` statements reach the base VM's table
						if _, acl := tvm.LoadAndRun(file); acl != nil {
							errs[g] = fmt.Sprintf("TempVM.LoadAndRun(%s): %s", filepath.Base(file), firstLines(acl.AsString(), 1))
							return
						}
						e0 := atomic.AddInt64(&clock, 1)
						mine = append(mine, gobs{"ug", b, nil, s0, e0}, gobs{"ug", fmt.Sprintf("lk_%d_%d", g, i), nil, s0, e0})
						break
					}
					if _, acl := vm.LoadAndRun(file); acl != nil {
						errs[g] = fmt.Sprintf("LoadAndRun(%s): %s", filepath.Base(file), firstLines(acl.AsString(), 1))
						return
					}
					// inside the call: top-level variables registered, `global` names looked up (ZVals not observed)
					e0 := atomic.AddInt64(&clock, 1)
					mine = append(mine, gobs{"rg", a, nil, s0, e0}, gobs{"rg", fmt.Sprintf("own_%d_%d", g, i), nil, s0, e0},
						gobs{"ug", b, nil, s0, e0}, gobs{"ug", fmt.Sprintf("lk_%d_%d", g, i), nil, s0, e0})
					for _, n := range []string{fmt.Sprintf("own_%d_%d", g, i), fmt.Sprintf("lk_%d_%d", g, i)} {
						s := atomic.AddInt64(&clock, 1)
						p := vm.EnsureGlobalZVal(n)
						e := atomic.AddInt64(&clock, 1)
						mine = append(mine, gobs{"eg", n, p, s, e})
					}
				case "allf":
					vm.AllFuncs()
				case "allc":
					vm.AllClasses()
				default:
					o := op{K: k, N: fmt.Sprintf("C%d", r.Intn(cfg.Names)), I: g*1000000 + i + 1, F: g%3 + 1}
					if k == "ai" || k == "gi" || k == "gli" {
						o.N = "I" + o.N[1:]
					}
					if k == "sf" || k == "gfile" {
						o.N, o.F = "", r.Intn(cfg.Names)+1
					}
					var on data.VM = vm
					if r.Chance(30) && k != "ac" && k != "ai" && k != "af" {
						on = tvm
						kc["temp:"+k]++
					}
					if res := apply(on, o, nil); strings.HasPrefix(res, "panic") || res == "bad-op" {
						errs[g] = fmt.Sprintf("%s answered %s", o.model(), res)
						return
					}
				}
			}
		}(g)
	}
	close(start)
	wg.Wait()
	v := globalsVerdict{OK: true, Kinds: map[string]int{}}
	for g := range kinds {
		for k, n := range kinds[g] {
			v.Kinds[k] += n
			if !strings.HasPrefix(k, "temp:") {
				v.Calls += n
			}
		}
	}
	for g, e := range errs {
		if e != "" {
			v.OK, v.Sig, v.What = false, "globals:unexpected-result", fmt.Sprintf("goroutine %d: %s", g, e)
			break
		}
	}
	if v.OK {
		var all []gobs
		for _, l := range obs {
			all = append(all, l...)
		}
		globalsWitness(vm, all, &v)
	}
	b, _ := json.Marshal(v)
	os.Stdout.Write(b)
	return 0
}

// globalsWitness: conditions every sequential order of the recorded calls satisfies. RegisterGlobalContext
// binds a name to the context's ZVal unless it is bound already; EnsureGlobalZVal returns the binding,
// creating one if there is none; nothing ever rebinds.
func globalsWitness(vm data.VM, all []gobs, v *globalsVerdict) {
	by := map[string][]gobs{}
	for _, o := range all {
		by[o.name] = append(by[o.name], o)
	}
	v.Names = len(by)
	fail := func(sig, f string, a ...any) {
		if v.OK {
			v.OK, v.Sig, v.What = false, "globals:witness:"+sig, fmt.Sprintf(f, a...)
		}
	}
	for name, l := range by {
		var bound *data.ZVal
		var firstEg *gobs
		nrg, neg := 0, 0
		for i := range l {
			o := &l[i]
			if o.k == "rg" {
				nrg++
				continue
			}
			if o.k != "eg" {
				continue
			}
			neg++
			if bound == nil {
				bound, firstEg = o.p, o
			} else if o.p != bound {
				fail("name-bound-twice", "global %q: EnsureGlobalZVal returned two different ZVals (%p at stamp %d..%d, %p at stamp %d..%d): one name bound twice", name, bound, firstEg.s, firstEg.e, o.p, o.s, o.e)
				return
			}
		}
		if nrg > 0 && neg > 0 {
			v.Shared++
		}
		// a registration that completed before every other call on the name began is the binding
		for i := range l {
			r := &l[i]
			if r.k != "rg" || r.p == nil {
				continue
			}
			first := true
			for j := range l {
				if j != i && !(r.e < l[j].s) {
					first = false
				}
			}
			if first && bound != nil && bound != r.p {
				fail("completed-binding-lost", "global %q: RegisterGlobalContext bound it (stamp %d..%d) before any other call on the name began, yet EnsureGlobalZVal later returned a different ZVal", name, r.s, r.e)
				return
			}
		}
		// the binding a lookup returns is either created by a lookup or offered by a registration that had begun
		if bound != nil {
			for i := range l {
				if l[i].k == "rg" && l[i].p == bound {
					for j := range l {
						if l[j].k == "eg" && !(l[i].s < l[j].e) {
							fail("lookup-invented", "global %q: EnsureGlobalZVal returned the ZVal of a context whose registration had not begun", name)
							return
						}
					}
				}
			}
		}
		// after the join nothing may have changed
		now := vm.EnsureGlobalZVal(name)
		if bound != nil && now != bound {
			fail("binding-changed", "global %q: after all goroutines had finished EnsureGlobalZVal returns a different ZVal than during the run", name)
			return
		}
		if bound == nil {
			offered := false
			for i := range l {
				offered = offered || l[i].p == now || l[i].p == nil
			}
			if !offered {
				fail("completed-binding-lost", "global %q: registered by RegisterGlobalContext (%d times), yet after the join it is bound to none of the registered ZVals", name, nrg)
				return
			}
		}
	}
}

func globalsOnce(c *vh.Ctx, bin string, cfg globalsCfg) bool {
	run := cfg
	d, err := os.MkdirTemp(c.Scratch, "globals")
	if err != nil {
		c.Note("globals stream: %v", err)
		return true
	}
	defer os.RemoveAll(d)
	run.Dir = d
	arg, _ := json.Marshal(run)
	timeout := 60 * time.Second
	if cfg.Race {
		timeout *= 4
	}
	out, crash := runChild(bin, "c10globals", arg, cfg.Procs, timeout)
	c.Eval(fmt.Sprintf("globals mix=%s g=%d n=%d p=%d names=%d seed=%d race=%v", cfg.Mix, cfg.G, cfg.N, cfg.Procs, cfg.Names, cfg.Seed, cfg.Race), true)
	c.Hit("globals:mix=" + cfg.Mix)
	c.Hit(fmt.Sprintf("globals:g=%d", cfg.G))
	if cfg.Race {
		c.Hit("globals:race-detector")
	}
	c.Res.Traces++
	what := fmt.Sprintf("%d goroutines × %d calls over every method of *VM that reaches a guarded map (mix %s: RegisterGlobalContext / RunCompiledFile / LoadAndRun of files with top-level variables and `global` statements ∥ EnsureGlobalZVal and the registry calls) on one VM, GOMAXPROCS=%d", cfg.G, cfg.N, cfg.Mix, cfg.Procs)
	if crash != "" {
		sig := strings.Replace(crashSig(crash), "stress:", "globals:", 1)
		if sig == "globals:data-race" {
			sig += ":" + strings.ReplaceAll(strings.SplitN(raceFramesOf(crash), " / ", 2)[0], " ", "")
		}
		c.Violation(sig, what+": "+crash, cfg)
		return false
	}
	var v globalsVerdict
	if json.Unmarshal(out, &v) != nil {
		c.Violation("globals:child-died", what+": child printed no verdict: "+firstLines(string(out), 3), cfg)
		return false
	}
	c.HitN("globals:calls", v.Calls)
	c.HitN("globals:names", v.Names)
	c.HitN("globals:names-registered-and-looked-up", v.Shared)
	for k, n := range v.Kinds {
		c.HitN("globals:op="+k, n)
	}
	if !v.OK {
		c.Violation(v.Sig, what+": recorded history has no sequential witness: "+v.What, cfg)
		return false
	}
	return true
}

func raceFramesOf(crash string) string { return strings.TrimPrefix(crash, "DATA RACE @ ") }

// mapMixes: per guarded map of VM, the op kinds of the methods that reach it (derived from the source under test)
func mapMixes(c *vh.Ctx) map[string][]string {
	surf, err := apiSurface(c.Repo, "runtime/vm.go", "VM", nil, "", nil)
	if err != nil {
		return nil
	}
	set := map[string]map[string]bool{}
	for m, fields := range surf {
		k := generators[m]
		if k == "" {
			continue
		}
		for _, f := range fields {
			if set[f] == nil {
				set[f] = map[string]bool{}
			}
			set[f][k] = true
		}
	}
	out := map[string][]string{}
	for f, ks := range set {
		for k := range ks {
			out[f] = append(out[f], k)
		}
		sort.Strings(out[f])
	}
	return out
}

func globalsPart(c *vh.Ctx, bin string, race bool) bool {
	mm := mapMixes(c)
	var fields []string
	for f := range mm {
		fields = append(fields, f)
	}
	sort.Strings(fields)
	for rep := 0; rep < c.N(1, 3); rep++ {
		for _, f := range fields {
			n := 600
			for _, k := range mm[f] {
				if k == "lr" || k == "cl" {
					n = 200
				}
			}
			cfg := globalsCfg{Kind: "globals", Mix: "map:" + f, Ops: mm[f], G: vh.Pick(c.Rand, []int{4, 8, 16}), N: n, Procs: vh.Pick(c.Rand, []int{4, 8, 16}), Names: vh.Pick(c.Rand, []int{64, 4096}), Seed: c.Rand.U64() % 1000000, Race: race}
			if !globalsOnce(c, bin, cfg) {
				return false
			}
		}
	}
	type gn struct{ g, n int }
	plan := []gn{{2, 300}, {4, 500}, {8, 1000}, {16, 500}}
	reps := c.N(1, 3)
	if race {
		plan = []gn{{2, 300}, {8, 500}, {16, 300}}
		reps = 1
	}
	for rep := 0; rep < reps; rep++ {
		for _, p := range plan {
			for _, mix := range []string{"api", "bind", "load"} {
				n := p.n
				if mix == "load" {
					n = min(n, 300)
				}
				cfg := globalsCfg{Kind: "globals", Mix: mix, G: p.g, N: n, Procs: vh.Pick(c.Rand, []int{2, 4, 8, 16}), Names: vh.Pick(c.Rand, []int{4, 16, 64}), Seed: c.Rand.U64() % 1000000, Race: race}
				if !globalsOnce(c, bin, cfg) {
					return false
				}
			}
		}
	}
	return true
}
