package c10

// Concurrent streams through the real name-resolution surface.
//
// The registry maps of runtime.VM are only half of what a class / interface
// lookup goes through: every miss continues into the class-path manager that
// all parser clones and all (Temp)VMs of the process share
// (parser.DefaultClassPathManager: its own RWMutex, a tree of namespace nodes
// whose `children` maps are filled lazily while *looking up* a name), then into
// LoadClass → LoadAndRun → Parser.Clone → parse → AddClass.  The streams below
// drive that surface from N goroutines over a directory tree of class files
// whose sub-namespaces are NOT registered with AddNamespace (so the first
// lookups discover and memoise them), on a fresh VM per round (the window is the
// first resolution of a namespace), and judge the recorded history against the
// sequential witness, which here is a function of the directory layout the
// harness itself created (independent of the implementation and of the model).
//
//	find   DefaultClassPathManager.FindClassFile (exact / case-variant / missing
//	       names, three levels of lazily discovered namespaces, two roots for one
//	       namespace) concurrently with AddNamespace of a late namespace
//	parse  Parser.Clone().ParseString of sources that mention the classes in every
//	       position that is resolved at parse time (new, instanceof, ::class,
//	       static call, use-alias, namespace-relative, parameter / return types,
//	       catch), plus SetConstant / GetConstant / EnsureGlobalZVal / GetClass on the shared VM
//	load   VM.GetOrLoadClass / LoadPkg / GetOrLoadInterface (with and without leading
//	       backslash): real autoload, each class file owned by one goroutine (two
//	       goroutines loading the SAME file is the known finding, see loadshared)
//	temp   one TempVM per goroutine (a request): TempVM.LoadPkg / GetOrLoadClass /
//	       GetOrLoadInterface and parse-time `extends` resolution on its parser clone
//	loadshared  overlapping autoload of the same files (known-finding stream)

import (
	"encoding/json"
	"fmt"
	"os"
	"path/filepath"
	goruntime "runtime"
	"strings"
	"sync"
	"sync/atomic"
	"time"

	"github.com/php-any/origami/data"
	"github.com/php-any/origami/parser"
	"github.com/php-any/origami/runtime"

	"verif/harness/vh"
)

func init() { vh.RegisterChild("c10resolve", resolveChild) }

type resolveCfg struct {
	Kind   string `json:"kind"` // "resolve"
	Mix    string `json:"mix"`  // find | parse | load | temp | loadshared
	G      int    `json:"g"`
	Rounds int    `json:"rounds"`
	Procs  int    `json:"procs"`
	NS     int    `json:"ns"` // number of lazily discovered sub-namespaces App\M00 … (each with C, I, Sub\Deep\D)
	Seed   uint64 `json:"seed"`
	Race   bool   `json:"race,omitempty"`
	Dir    string `json:"dir,omitempty"` // scratch directory (set by the parent, not part of the case)
}

// ------------------------------------------------------------ layout

// layout is the directory tree and, independently of origami, what every name resolves to.
type layout struct {
	root, p1, p2, late string
	ns                 int
}

func (l layout) base(k int) string {
	if k%2 == 0 {
		return l.p1
	}
	return l.p2
}

func mkLayout(dir string, ns int) (layout, error) {
	l := layout{root: dir, p1: filepath.Join(dir, "p1"), p2: filepath.Join(dir, "p2"), late: filepath.Join(dir, "late"), ns: ns}
	w := func(path, body string) error {
		if err := os.MkdirAll(filepath.Dir(path), 0o755); err != nil {
			return err
		}
		return os.WriteFile(path, []byte(body), 0o644)
	}
	for _, d := range []string{l.p1, l.p2, l.late} {
		if err := os.MkdirAll(d, 0o755); err != nil {
			return l, err
		}
	}
	if err := w(filepath.Join(l.p1, "Top.php"), "<?php\nnamespace App;\nclass Top { public function f() { return -1; } }\n"); err != nil {
		return l, err
	}
	for k := 0; k < ns; k++ {
		m := fmt.Sprintf("M%02d", k)
		d := filepath.Join(l.base(k), m)
		if err := w(filepath.Join(d, "I.php"), fmt.Sprintf("<?php\nnamespace App\\%s;\ninterface I { }\n", m)); err != nil {
			return l, err
		}
		if err := w(filepath.Join(d, "C.php"), fmt.Sprintf("<?php\nnamespace App\\%s;\nclass C implements I { public function f() { return %d; } }\n", m, k)); err != nil {
			return l, err
		}
		if err := w(filepath.Join(d, "Sub", "Deep", "D.php"), fmt.Sprintf("<?php\nnamespace App\\%s\\Sub\\Deep;\nclass D { public function f() { return %d; } }\n", m, 1000+k)); err != nil {
			return l, err
		}
	}
	if err := w(filepath.Join(l.late, "C.php"), "<?php\nnamespace App\\Late;\nclass C { }\n"); err != nil {
		return l, err
	}
	if err := w(filepath.Join(l.late, "Inner", "E.php"), "<?php\nnamespace App\\Late\\Inner;\nclass E { }\n"); err != nil {
		return l, err
	}
	return l, nil
}

// want: the file a class name resolves to, by the layout (late = the late namespace has been added).
// Written from the documented contract of the class-path manager — namespace prefix → registered
// directories, remaining namespace components → sub-directories, class → <Class>.php, directory and
// file names matched exactly first and case-insensitively otherwise — not from its code.
func (l layout) want(name string, late bool) (string, bool) {
	parts := strings.Split(name, "\\")
	if len(parts) < 2 || parts[0] != "App" {
		return "", false
	}
	cls := parts[len(parts)-1]
	mid := parts[1 : len(parts)-1]
	var dir string
	switch {
	case len(mid) == 0:
		if strings.EqualFold(cls, "Top") {
			return filepath.Join(l.p1, "Top.php"), true
		}
		return "", false
	case lateNS(mid[0]):
		if !late {
			return "", false
		}
		dir = l.late
		mid = mid[1:]
		switch {
		case len(mid) == 0 && strings.EqualFold(cls, "C"):
			return filepath.Join(dir, "C.php"), true
		case len(mid) == 1 && strings.EqualFold(mid[0], "Inner") && strings.EqualFold(cls, "E"):
			return filepath.Join(dir, "Inner", "E.php"), true
		}
		return "", false
	}
	k := -1
	for i := 0; i < l.ns; i++ {
		if strings.EqualFold(mid[0], fmt.Sprintf("M%02d", i)) {
			k = i
		}
	}
	if k < 0 {
		return "", false
	}
	dir = filepath.Join(l.base(k), fmt.Sprintf("M%02d", k))
	mid = mid[1:]
	switch {
	case len(mid) == 0 && strings.EqualFold(cls, "C"):
		return filepath.Join(dir, "C.php"), true
	case len(mid) == 0 && strings.EqualFold(cls, "I"):
		return filepath.Join(dir, "I.php"), true
	case len(mid) == 2 && strings.EqualFold(mid[0], "Sub") && strings.EqualFold(mid[1], "Deep") && strings.EqualFold(cls, "D"):
		return filepath.Join(dir, "Sub", "Deep", "D.php"), true
	}
	return "", false
}

// late namespaces: registered with AddNamespace while the lookups run (all of them map to the
// directory `late`): "Late" by some goroutines at a random moment, "G<g>" by goroutine g first thing
// in the round, i.e. all goroutines write the children map of `App` at the same moment
func lateNS(part string) bool {
	if part == "Late" {
		return true
	}
	if len(part) < 2 || part[0] != 'G' {
		return false
	}
	for _, ch := range part[1:] {
		if ch < '0' || ch > '9' {
			return false
		}
	}
	return true
}

// the late namespace a class name lies in ("" = none)
func lateOf(name string) string {
	parts := strings.Split(name, "\\")
	if len(parts) >= 3 && parts[0] == "App" && lateNS(parts[1]) {
		return parts[1]
	}
	return ""
}

// ------------------------------------------------------------ history

type rrec struct {
	g    int
	k    string // fc (FindClassFile) an (AddNamespace late) ps (parse) lc/lp/li (load) gc/gi (lookup) …
	n    string
	s, e int64
	r    string
}

type resolveVerdict struct {
	OK     bool   `json:"ok"`
	Sig    string `json:"sig,omitempty"`
	What   string `json:"what,omitempty"`
	Round  int    `json:"round"`
	Calls  int    `json:"calls"`
	Hits   int    `json:"hits"`
	Misses int    `json:"misses"`
	Loads  int    `json:"loads"`
	Parses int    `json:"parses"`
	Known  int    `json:"known"` // occurrences of the known autoload finding (loadshared only)
}

type world struct {
	l   layout
	p   *parser.Parser
	vm  data.VM
	cpm parser.ClassPathManager
}

func newWorld(l layout) *world {
	p := parser.NewParser()
	vm := runtime.NewVM(p)
	vm.SetThrowControl(func(acl data.Control) {})
	w := &world{l: l, p: p, vm: vm, cpm: p.GetClassPathManager()}
	// one namespace, two roots; nothing below it is registered
	vm.AddNamespace("App", l.p1)
	vm.AddNamespace("App", l.p2)
	return w
}

func mname(k int) string { return fmt.Sprintf("M%02d", k) }

// name variants of sub-namespace k for the class-path manager
func findNames(r *vh.Rand, k, ns int) []string {
	m := mname(k)
	all := []string{
		"App\\" + m + "\\C", "App\\" + m + "\\I", "App\\" + m + "\\Sub\\Deep\\D",
		"App\\" + strings.ToLower(m) + "\\C", // directory found case-insensitively, memoised under another key
		"App\\" + m + "\\c",                  // file found case-insensitively
		"App\\" + m + "\\sub\\Deep\\D",
		"App\\" + m + "\\Nope", "App\\" + m + "\\Sub\\Nope\\D",
	}
	out := []string{all[r.Intn(3)], all[r.Intn(len(all))]}
	if r.Chance(20) {
		out = append(out, vh.Pick(r, []string{"App\\Top", "App\\Nope\\C", "Other\\X", "App\\Late\\C", "App\\Late\\Inner\\E", "Top"}))
	}
	return out
}

func callRec(clock *int64, g int, k, n string, f func() string) rrec {
	s := atomic.AddInt64(clock, 1)
	var res string
	func() {
		defer func() {
			if r := recover(); r != nil {
				res = fmt.Sprintf("panic: %v", r)
			}
		}()
		res = f()
	}()
	e := atomic.AddInt64(clock, 1)
	return rrec{g, k, n, s, e, res}
}

func ctlString(acl data.Control) string { return "err:" + firstLines(acl.AsString(), 1) }

// parse-time mentions of class `fq` (fully qualified, no leading backslash) of sub-namespace m
func parseSource(r *vh.Rand, m string, g, i int) string {
	fq := "App\\" + m + "\\C"
	fqi := "App\\" + m + "\\I"
	fqd := "App\\" + m + "\\Sub\\Deep\\D"
	switch r.Intn(9) {
	case 0:
		return fmt.Sprintf("<?php\n$f = function($x) { return $x instanceof \\%s; };\n", fq)
	case 1:
		return fmt.Sprintf("<?php\n$f = function() { return new \\%s(); };\n", fqd)
	case 2:
		return fmt.Sprintf("<?php\nuse %s;\nuse %s as J;\n$f = function($x) { return ($x instanceof C) || ($x instanceof J); };\n", fq, fqi)
	case 3:
		return fmt.Sprintf("<?php\nnamespace App;\n$f = function() { return new %s\\C(); };\n", m)
	case 4:
		return fmt.Sprintf("<?php\nnamespace App\\%s;\n$f = function($x) { return $x instanceof I; };\n$g = function() { return new Sub\\Deep\\D(); };\n", m)
	case 5:
		return fmt.Sprintf("<?php\nfunction vh_g%d_%d(\\%s $a, ?\\%s $b = null): \\%s { return $a; }\n", g, i, fq, fqi, fq)
	case 6:
		return fmt.Sprintf("<?php\n$f = function() { return \\%s::class; };\n$g = function($o) { return $o->f(); };\n", fqd)
	case 7:
		return fmt.Sprintf("<?php\n$f = function() { try { return 1; } catch (\\%s $e) { return 2; } };\n", fq)
	}
	return fmt.Sprintf("<?php\nnamespace App\\%s\\Sub;\n$f = function() { return new Deep\\D(); };\n$g = function($x) { return $x instanceof \\App\\%s\\I; };\n", m, m)
}

// ------------------------------------------------------------ one round

func (w *world) round(cfg resolveCfg, rd int) []rrec {
	var clock int64
	recs := make([][]rrec, cfg.G)
	start := make(chan struct{})
	var wg sync.WaitGroup
	for g := 0; g < cfg.G; g++ {
		wg.Add(1)
		go func(g int) {
			defer wg.Done()
			r := vh.NewRand(cfg.Seed*7919 + uint64(rd)*131 + uint64(g))
			var mine []rrec
			add := func(x rrec) { mine = append(mine, x) }
			order := make([]int, cfg.NS)
			for i := range order {
				order[i] = i
			}
			for i := len(order) - 1; i > 0; i-- {
				j := r.Intn(i + 1)
				order[i], order[j] = order[j], order[i]
			}
			var tvm *runtime.TempVM
			var cp *parser.Parser
			switch cfg.Mix {
			case "parse":
				cp = w.p.Clone()
			case "temp":
				tvm = runtime.NewTempVM(w.vm).(*runtime.TempVM)
				cp = tvm.PrepareParse(w.p)
			}
			lateAt := -1
			if cfg.Mix == "find" && g%3 == 1 {
				lateAt = r.Intn(len(order))
			}
			<-start
			if cfg.Mix == "find" {
				ns := fmt.Sprintf("App\\G%d", g)
				add(callRec(&clock, g, "an", ns, func() string { w.cpm.AddNamespace(ns, w.l.late); return "ok" }))
			}
			for i, k := range order {
				m := mname(k)
				switch cfg.Mix {
				case "find":
					if i == lateAt {
						add(callRec(&clock, g, "an", "App\\Late", func() string { w.cpm.AddNamespace("App\\Late", w.l.late); return "ok" }))
					}
					if r.Chance(25) {
						n := fmt.Sprintf("App\\G%d\\%s", r.Intn(cfg.G), vh.Pick(r, []string{"C", "Inner\\E", "Nope"}))
						add(callRec(&clock, g, "fc", n, func() string {
							p, ok := w.cpm.FindClassFile(n)
							if !ok {
								return "miss"
							}
							return "hit:" + p
						}))
					}
					if r.Chance(3) { // a writer that changes nothing
						add(callRec(&clock, g, "an0", "App", func() string { w.cpm.AddNamespace("App", w.l.p1); return "ok" }))
					}
					for _, n := range findNames(r, k, cfg.NS) {
						n := n
						add(callRec(&clock, g, "fc", n, func() string {
							p, ok := w.cpm.FindClassFile(n)
							if !ok {
								return "miss"
							}
							return "hit:" + p
						}))
					}
				case "parse":
					src := parseSource(r, m, g, i)
					add(callRec(&clock, g, "ps", src, func() string {
						prog, acl := cp.Clone().ParseString(src, fmt.Sprintf("/vh-c10-virtual/r%d_g%d_%d.php", rd, g, i))
						if acl != nil {
							return ctlString(acl)
						}
						if prog == nil {
							return "nil"
						}
						return "ok"
					}))
					// registry traffic on the shared VM between the parses
					o := op{K: vh.Pick(r, []string{"sc", "gk", "eg", "gc", "gi"}), N: fmt.Sprintf("K%d", k), I: g*1000 + i + 1}
					if o.K == "gc" {
						o.N = "App\\" + m + "\\C"
					} else if o.K == "gi" {
						o.N = "App\\" + m + "\\I"
					}
					add(callRec(&clock, g, "reg:"+o.K, o.N, func() string { return fmt.Sprintf("%d|", o.I) + apply(w.vm, o, nil) }))
				case "load", "loadshared":
					mineK := cfg.Mix == "loadshared" || k%cfg.G == g
					if !mineK {
						// somebody else's namespace: registry lookups only (may hit or miss)
						n := "App\\" + m + "\\" + vh.Pick(r, []string{"C", "I"})
						kind := "gc"
						if strings.HasSuffix(n, "\\I") {
							kind = "gi"
						}
						add(callRec(&clock, g, kind, n, func() string { return apply(w.vm, op{K: kind, N: n}, nil) }))
						continue
					}
					calls := [][2]string{{"lc", "App\\" + m + "\\C"}, {"li", "App\\" + m + "\\I"}, {"lp", "App\\" + m + "\\Sub\\Deep\\D"}, {"lp", "App\\" + m + "\\C"}, {"lc", "App\\" + m + "\\Sub\\Deep\\D"}}
					for j := len(calls) - 1; j > 0; j-- {
						x := r.Intn(j + 1)
						calls[j], calls[x] = calls[x], calls[j]
					}
					for _, c := range calls[:2+r.Intn(3)] {
						kind, n := c[0], c[1]
						if r.Chance(30) {
							n = "\\" + n
						}
						add(callRec(&clock, g, kind, n, func() string { return loadCallOn(w.vm, kind, n) }))
					}
				case "temp":
					if k%cfg.G != g {
						continue
					}
					// this request owns sub-namespace k
					switch r.Intn(4) {
					case 0:
						n := "App\\" + m + "\\C"
						add(callRec(&clock, g, "lp", n, func() string { return loadCallOn(tvm, "lp", n) }))
					case 1:
						n := "App\\" + m + "\\Sub\\Deep\\D"
						add(callRec(&clock, g, "lc", n, func() string { return loadCallOn(tvm, "lc", n) }))
					case 2:
						n := "App\\" + m + "\\I"
						add(callRec(&clock, g, "li", n, func() string { return loadCallOn(tvm, "li", n) }))
					default:
						// parse-time resolution with a load: the parent class is autoloaded while parsing
						src := fmt.Sprintf("<?php\nnamespace Req;\nclass R%d_%d_%d extends \\App\\%s\\Sub\\Deep\\D { }\n", rd, g, i, m)
						add(callRec(&clock, g, "ps", src, func() string {
							_, acl := cp.ParseString(src, fmt.Sprintf("/vh-c10-virtual/t%d_g%d_%d.php", rd, g, i))
							if acl != nil {
								return ctlString(acl)
							}
							if _, ok := tvm.GetClass(fmt.Sprintf("Req\\R%d_%d_%d", rd, g, i)); !ok {
								return "class-not-registered"
							}
							return "ok"
						}))
					}
				}
			}
			recs[g] = mine
		}(g)
	}
	close(start)
	wg.Wait()
	var all []rrec
	for _, l := range recs {
		all = append(all, l...)
	}
	return all
}

func loadCallOn(vm data.VM, kind, n string) string {
	var v any
	var acl data.Control
	switch kind {
	case "lc":
		c, a := vm.GetOrLoadClass(n)
		acl = a
		if c != nil {
			v = c.GetName()
		}
	case "li":
		c, a := vm.GetOrLoadInterface(n)
		acl = a
		if c != nil {
			v = c.GetName()
		}
	case "lp":
		c, a := vm.LoadPkg(n)
		acl = a
		if nm, ok := c.(interface{ GetName() string }); ok && c != nil {
			v = nm.GetName()
		}
	}
	if acl != nil {
		return ctlString(acl)
	}
	if v == nil {
		return "nil"
	}
	return "hit:" + v.(string)
}

// ------------------------------------------------------------ witness

// judge checks one round's history against the sequential witness.
func judge(cfg resolveCfg, l layout, all []rrec, v *resolveVerdict) (sig, what string) {
	// per late namespace: earliest start / earliest completion of its AddNamespace
	lateSm, lateEm := map[string]int64{}, map[string]int64{}
	for _, r := range all {
		if r.k == "an" {
			ns := strings.TrimPrefix(r.n, "App\\")
			if s, ok := lateSm[ns]; !ok || r.s < s {
				lateSm[ns] = r.s
			}
			if e, ok := lateEm[ns]; !ok || r.e < e {
				lateEm[ns] = r.e
			}
		}
	}
	loaded := map[string]int64{} // class / interface name -> earliest completion of a successful load
	for _, r := range all {
		if (r.k == "lc" || r.k == "li" || r.k == "lp") && strings.HasPrefix(r.r, "hit:") {
			n := strings.TrimPrefix(r.n, "\\")
			if e, ok := loaded[n]; !ok || r.e < e {
				loaded[n] = r.e
			}
		}
	}
	var regs []rec
	own := map[int]map[string]bool{} // goroutine -> names its own completed calls have loaded
	for _, r := range all {
		v.Calls++
		if strings.HasPrefix(r.r, "panic") {
			return "resolve:" + cfg.Mix + ":panic", fmt.Sprintf("%s(%q) panicked: %s", r.k, r.n, r.r)
		}
		switch r.k {
		case "fc":
			before, okB := l.want(r.n, false)
			after, okA := l.want(r.n, true)
			fmtw := func(p string, ok bool) string {
				if !ok {
					return "miss"
				}
				return "hit:" + p
			}
			wb, wa := fmtw(before, okB), fmtw(after, okA)
			var lateS, lateE int64 = -1, -1
			if ns := lateOf(r.n); ns != "" {
				if s, ok := lateSm[ns]; ok {
					lateS, lateE = s, lateEm[ns]
				}
			}
			if strings.HasPrefix(r.r, "hit") {
				v.Hits++
			} else {
				v.Misses++
			}
			switch {
			case wb == wa:
				if r.r != wb {
					return "resolve:find:wrong-answer", fmt.Sprintf("FindClassFile(%q) answered %s; by the directory layout every sequential order answers %s", r.n, r.r, wb)
				}
			case lateE >= 0 && lateE < r.s:
				if r.r != wa {
					return "resolve:find:registered-not-visible", fmt.Sprintf("AddNamespace(App\\%s) had returned, then FindClassFile(%q) answered %s (want %s)", lateOf(r.n), r.n, r.r, wa)
				}
			case lateS < 0 || r.e < lateS:
				if r.r != wb {
					return "resolve:find:lookup-invented", fmt.Sprintf("FindClassFile(%q) answered %s before any AddNamespace(App\\%s) had begun (want %s)", r.n, r.r, lateOf(r.n), wb)
				}
			default:
				if r.r != wa && r.r != wb {
					return "resolve:find:wrong-answer", fmt.Sprintf("FindClassFile(%q) answered %s (want %s or %s)", r.n, r.r, wb, wa)
				}
			}
		case "ps":
			v.Parses++
			if r.r != "ok" {
				return "resolve:" + cfg.Mix + ":parse-failed", fmt.Sprintf("parsing %q on a parser clone answered %s; sequentially it parses", r.n, r.r)
			}
		case "lc", "li", "lp":
			n := strings.TrimPrefix(r.n, "\\")
			// LoadPkg keeps a leading backslash when it hands the name to the loader: the file is found and
			// run, but the loader then looks for a class literally called "\\App\\…" and reports failure
			// (sequential behaviour, see notes). With one owner per file the outcome is exact: a hit iff
			// an earlier call of the same goroutine has loaded the name, and the class is loaded afterwards.
			if r.k == "lp" && n != r.n && (cfg.Mix == "loadshared" || !own[r.g][n]) && strings.Contains(r.r, "中未找到类 \\") {
				v.Loads++
				markLoaded(own, r.g, n)
				continue
			}
			if r.r == "hit:"+n {
				v.Loads++
				markLoaded(own, r.g, n)
				continue
			}
			if cfg.Mix == "loadshared" && strings.Contains(r.r, "中未找到类") {
				v.Known++
				continue
			}
			return "resolve:" + cfg.Mix + ":load-failed", fmt.Sprintf("%s(%q) answered %s; its class file exists, every sequential order answers hit:%s", map[string]string{"lc": "GetOrLoadClass", "li": "GetOrLoadInterface", "lp": "LoadPkg"}[r.k], r.n, r.r, n)
		case "gc", "gi":
			if strings.HasPrefix(r.r, "hit") {
				v.Hits++
				if r.r != "hit:"+r.n {
					return "resolve:" + cfg.Mix + ":lookup-invented", fmt.Sprintf("lookup of %q answered %s", r.n, r.r)
				}
			} else {
				v.Misses++
				if e, ok := loaded[r.n]; ok && e < r.s {
					return "resolve:" + cfg.Mix + ":registered-not-visible", fmt.Sprintf("a load of %q had returned it, then the lookup answered %s", r.n, r.r)
				}
			}
		default:
			if strings.HasPrefix(r.k, "reg:") {
				i := strings.IndexByte(r.r, '|')
				id := 0
				fmt.Sscan(r.r[:i], &id)
				k := r.k[4:]
				if k == "gc" || k == "gi" {
					// nothing is loaded in the parse mix: the names stay unregistered
					if r.r[i+1:] != "miss" {
						return "resolve:parse:lookup-invented", fmt.Sprintf("lookup of %q answered %s although parsing never loads it", r.n, r.r[i+1:])
					}
					continue
				}
				regs = append(regs, rec{op{K: k, N: r.n, I: id}, r.g, r.s, r.e, r.r[i+1:]})
			}
		}
	}
	if len(regs) > 0 {
		if sv := witness(regs); !sv.OK {
			return sv.Sig, sv.What
		}
	}
	return "", ""
}

// a successful load of class C also loads the interface it implements
func markLoaded(own map[int]map[string]bool, g int, n string) {
	if own[g] == nil {
		own[g] = map[string]bool{}
	}
	own[g][n] = true
	if strings.HasSuffix(n, "\\C") {
		own[g][strings.TrimSuffix(n, "C")+"I"] = true
	}
}

// ------------------------------------------------------------ child

func resolveChild(args []string) int {
	out := vh.ProtocolStdout()
	var cfg resolveCfg
	if len(args) < 1 || json.Unmarshal([]byte(args[0]), &cfg) != nil || cfg.G < 1 || cfg.Dir == "" {
		fmt.Fprintln(os.Stderr, "c10resolve: bad config")
		return 2
	}
	if cfg.Procs > 0 {
		goruntime.GOMAXPROCS(cfg.Procs)
	}
	if cfg.NS < 1 {
		cfg.NS = 16
	}
	l, err := mkLayout(cfg.Dir, cfg.NS)
	if err != nil {
		fmt.Fprintln(os.Stderr, "c10resolve: layout:", err)
		return 2
	}
	v := resolveVerdict{OK: true}
	for rd := 0; rd < cfg.Rounds; rd++ {
		w := newWorld(l) // fresh parser, VM and class-path manager: nothing below App is known yet
		all := w.round(cfg, rd)
		if sig, what := judge(cfg, l, all, &v); sig != "" {
			v.OK, v.Sig, v.What, v.Round = false, sig, what, rd
			break
		}
	}
	b, _ := json.Marshal(v)
	out.Write(b)
	return 0
}

// ------------------------------------------------------------ parent

func resolveSig(crash string) string {
	switch {
	case strings.HasPrefix(crash, "fatal error: concurrent map"):
		return "resolve:fatal:concurrent-map-access"
	case strings.HasPrefix(crash, "DATA RACE"):
		// the first access site names the kind of race (package-level flag vs. registry structure)
		site := strings.TrimPrefix(crash, "DATA RACE @ ")
		if i := strings.Index(site, " / "); i > 0 {
			site = site[:i]
		}
		return "resolve:data-race:" + site
	case strings.HasPrefix(crash, "hang"), strings.HasPrefix(crash, "deadlock"):
		return "resolve:deadlock"
	case strings.HasPrefix(crash, "fatal error"):
		return "resolve:fatal"
	}
	return "resolve:child-died"
}

func resolveOnce(c *vh.Ctx, bin string, cfg resolveCfg) bool {
	run := cfg
	d, err := os.MkdirTemp(c.Scratch, "resolve")
	if err != nil {
		c.Note("resolve stream: %v", err)
		return true
	}
	defer os.RemoveAll(d)
	run.Dir = d
	timeout := 60*time.Second + time.Duration(cfg.Rounds*cfg.G/50)*time.Second
	if cfg.Race {
		timeout *= 4
	}
	arg, _ := json.Marshal(run)
	out, crash := runChild(bin, "c10resolve", arg, cfg.Procs, timeout)
	var v resolveVerdict
	if crash == "" && json.Unmarshal(out, &v) != nil {
		crash = "child printed no verdict: " + firstLines(string(out), 3)
	}
	c.Eval(fmt.Sprintf("resolve mix=%s g=%d rounds=%d p=%d ns=%d seed=%d race=%v", cfg.Mix, cfg.G, cfg.Rounds, cfg.Procs, cfg.NS, cfg.Seed, cfg.Race), true)
	c.Hit("resolve:mix=" + cfg.Mix)
	c.Hit(fmt.Sprintf("resolve:g=%d", cfg.G))
	c.Hit(fmt.Sprintf("resolve:procs=%d", cfg.Procs))
	if cfg.Race {
		c.Hit("resolve:race-detector")
	}
	c.HitN("resolve:rounds", cfg.Rounds)
	c.HitN("resolve:calls", v.Calls)
	c.HitN("resolve:find-hits", v.Hits)
	c.HitN("resolve:find-misses", v.Misses)
	c.HitN("resolve:loads", v.Loads)
	c.HitN("resolve:parses", v.Parses)
	c.Res.Traces++
	where := fmt.Sprintf("%d goroutines × %d rounds (fresh VM each) of %s through the shared class-path manager over %d lazily discovered namespaces (GOMAXPROCS=%d)", cfg.G, cfg.Rounds, mixWhat[cfg.Mix], cfg.NS, cfg.Procs)
	if crash != "" {
		sig := resolveSig(crash)
		c.Violation(sig, where+": "+crash, cfg)
		// a listed finding (the race on data.userOutputEmitted in LoadAndRun) ends the child at its first
		// report; the other mixes are still worth running
		return c.Known[sig]
	}
	if !v.OK {
		c.Violation(v.Sig, fmt.Sprintf("%s, round %d: recorded history has no sequential witness: %s", where, v.Round, v.What), cfg)
		return false
	}
	if cfg.Mix == "loadshared" && v.Known > 0 {
		c.Violation("stress:load:spurious-class-not-found", fmt.Sprintf("%s: %d load(s) failed with '文件 … 中未找到类' although the class file exists (another goroutine was loading the same file: it is marked loaded before its classes are registered)", where, v.Known), cfg)
	}
	return true
}

var mixWhat = map[string]string{
	"find":       "FindClassFile / AddNamespace",
	"parse":      "Parser.Clone + ParseString (parse-time name resolution) and registry calls",
	"load":       "GetOrLoadClass / LoadPkg / GetOrLoadInterface (autoload, one owner per class file)",
	"temp":       "per-request TempVM LoadPkg / GetOrLoadClass / GetOrLoadInterface / parse-time `extends`",
	"loadshared": "overlapping GetOrLoadClass / LoadPkg / GetOrLoadInterface (autoload of the same files)",
}

// resolvePart: the plan of the resolution streams. Ascending sizes; stops at the first violation.
func resolvePart(c *vh.Ctx, bin string, race bool) bool {
	type gr struct{ g, rounds int }
	plan := []gr{{2, 60}, {4, 60}, {8, 60}, {16, 40}}
	if c.Thorough() && !race {
		plan = []gr{{2, 300}, {3, 200}, {4, 300}, {8, 300}, {12, 200}, {16, 200}}
	}
	if race {
		plan = []gr{{2, 40}, {4, 40}, {8, 40}, {16, 30}}
	}
	mixes := []string{"find", "parse", "load", "temp"}
	for _, p := range plan {
		for _, mix := range mixes {
			cfg := resolveCfg{Kind: "resolve", Mix: mix, G: p.g, Rounds: p.rounds, Procs: vh.Pick(c.Rand, []int{2, 4, 8, 16}), NS: vh.Pick(c.Rand, []int{8, 16, 24}),
				Seed: c.Rand.U64() % 1000000, Race: race}
			if mix == "load" || mix == "temp" {
				cfg.NS = max(cfg.NS, p.g) // every goroutine owns at least one namespace
				cfg.Rounds = max(10, p.rounds/3)
			}
			if !resolveOnce(c, bin, cfg) {
				return false
			}
		}
	}
	return true
}
