package c10

// Sequential correspondence of the class-path manager: the real
// parser.DefaultClassPathManager against Model.Cpm (driver line `cpm`), result of
// every AddNamespace / FindClassFile of a history, over a directory tree that has
// everything the lookup distinguishes: several roots for one namespace (disjoint
// and overlapping sub-directories), exact and case-variant directory and file
// names, `.zy` before `.php`, explicitly registered vs lazily discovered
// sub-namespaces, missing paths.

import (
	"fmt"
	"os"
	"path/filepath"
	"sort"
	"strings"

	"github.com/php-any/origami/parser"

	"verif/harness/vh"
)

type cpmOp struct {
	K string `json:"k"` // an | fc
	N string `json:"n"` // namespace / class name
	P string `json:"p,omitempty"` // AddNamespace: path relative to the tree root ("" = empty path, "?" = does not exist)
}

type cpmCase struct {
	Kind string  `json:"kind"` // "cpmseq"
	Ops  []cpmOp `json:"ops"`
}

type cpmTree struct {
	root         string
	dirs, files  []string // absolute, sorted
	dirsS, fileS string
}

var cpmTreeFiles = []string{
	"r1/Top.php", "r1/A/C.php", "r1/A/D.zy", "r1/A/D.php", "r1/A/Sub/E.php", "r1/B/C.php",
	"r2/X.php", "r2/A/F.php", "r2/A/C.php", "r2/A/Sub/G.php", "r2/b/H.PHP", "r2/b/c.php",
	"r3/Deep/I.php", "r3/Deep/Er/J.php", "r3/a/K.php", "r3/A/L.php",
}

func mkCpmTree(root string) (*cpmTree, error) {
	t := &cpmTree{root: root}
	seen := map[string]bool{}
	for _, f := range cpmTreeFiles {
		p := filepath.Join(root, f)
		if err := os.MkdirAll(filepath.Dir(p), 0o755); err != nil {
			return nil, err
		}
		if err := os.WriteFile(p, []byte("<?php\n"), 0o644); err != nil {
			return nil, err
		}
		t.files = append(t.files, p)
		for d := filepath.Dir(p); len(d) >= len(root); d = filepath.Dir(d) {
			if !seen[d] {
				seen[d] = true
				t.dirs = append(t.dirs, d)
			}
		}
	}
	sort.Strings(t.dirs)
	sort.Strings(t.files)
	t.dirsS, t.fileS = strings.Join(t.dirs, "|"), strings.Join(t.files, "|")
	return t, nil
}

func (t *cpmTree) path(p string) string {
	switch p {
	case "":
		return ""
	case "?":
		return filepath.Join(t.root, "does-not-exist")
	}
	return filepath.Join(t.root, p)
}

func (t *cpmTree) model(ops []cpmOp) string {
	l := make([]string, len(ops))
	for i, o := range ops {
		if o.K == "an" {
			l[i] = "an " + o.N + " " + t.path(o.P)
		} else {
			l[i] = "fc " + o.N
		}
	}
	return "cpm\t" + t.dirsS + "\t" + t.fileS + "\t" + strings.Join(l, "|")
}

func (t *cpmTree) runReal(ops []cpmOp) []string {
	m := parser.NewDefaultClassPathManager()
	out := make([]string, len(ops))
	for i, o := range ops {
		func() {
			defer func() {
				if r := recover(); r != nil {
					out[i] = fmt.Sprintf("panic: %v", r)
				}
			}()
			if o.K == "an" {
				m.AddNamespace(o.N, t.path(o.P))
				out[i] = "ok"
				return
			}
			p, ok := m.FindClassFile(o.N)
			if !ok {
				out[i] = "miss"
			} else {
				out[i] = "hit:" + p
			}
		}()
	}
	return out
}

var cpmAdds = []cpmOp{
	{K: "an", N: "App", P: "r1"}, {K: "an", N: "App", P: "r2"}, {K: "an", N: "App", P: "r3"},
	{K: "an", N: "App\\A", P: "r3/Deep"}, {K: "an", N: "App\\A\\Sub", P: "r3/Deep"}, {K: "an", N: "Lib", P: "r2/A"},
	{K: "an", N: "\\App\\", P: "r2"}, {K: "an", N: "", P: "r1"}, {K: "an", N: "App", P: "?"}, {K: "an", N: "App", P: ""},
	{K: "an", N: "App\\Z", P: "r1/B"}, {K: "an", N: "App", P: "r1/Top.php"},
}

var cpmFinds = func() []cpmOp {
	var a []cpmOp
	for _, n := range []string{
		"App\\Top", "App\\top", "App\\X", "Top", "App\\A\\C", "App\\A\\c", "App\\a\\C", "App\\A\\D", "App\\A\\F", "App\\A\\L", "App\\a\\K",
		"App\\A\\Sub\\E", "App\\A\\Sub\\G", "App\\A\\sub\\E", "App\\A\\Sub\\I", "App\\A\\I", "App\\A\\Er\\J", "App\\B\\C", "App\\b\\C", "App\\B\\H", "App\\b\\H",
		"App\\Deep\\I", "App\\Z\\C", "App\\Nope\\C", "App\\A\\Nope", "Lib\\F", "Lib\\Sub\\G", "Other\\X", "\\App\\A\\C", "App\\\\A\\C", "app\\A\\C", "",
	} {
		a = append(a, cpmOp{K: "fc", N: n})
	}
	return a
}()

func checkCpmBatch(c *vh.Ctx, m *vh.Model, t *cpmTree, batch [][]cpmOp) {
	if len(batch) == 0 {
		return
	}
	var mres []string
	if m != nil {
		lines := make([]string, len(batch))
		for i, ops := range batch {
			lines[i] = t.model(ops)
		}
		var err error
		if mres, err = m.AskBatch(lines); err != nil {
			c.Note("model failed: %v", err)
			mres = nil
		}
	}
	for i, ops := range batch {
		impl := t.runReal(ops)
		adds, finds := 0, 0
		for j, o := range ops {
			c.Hit("cpm:" + o.K)
			if o.K == "an" {
				adds++
			} else {
				finds++
				if strings.HasPrefix(impl[j], "hit") {
					c.Hit("cpm:fc:hit")
				} else {
					c.Hit("cpm:fc:miss")
				}
			}
			if strings.HasPrefix(impl[j], "panic") {
				c.Violation("cpmseq:panic", fmt.Sprintf("op %d %v: %s", j, o, impl[j]), cpmCase{"cpmseq", ops})
			}
		}
		c.Eval("cpm"+fmt.Sprint(ops), adds > 0 && finds > 0)
		c.SampleSome(map[string]any{"cpm": ops, "impl": strings.ReplaceAll(strings.Join(impl, "|"), t.root, "")}, 3001)
		if mres != nil && i < len(mres) {
			want := mres[i]
			if len(ops) == 0 {
				want = ""
			}
			if got := strings.Join(impl, "|"); got != want {
				c.Mismatch(cpmCase{"cpmseq", ops}, strings.ReplaceAll(got, t.root, ""), strings.ReplaceAll(want, t.root, ""), "parser.DefaultClassPathManager vs Model.Cpm (result of every call)")
			}
		}
	}
}

func cpmSequentialPart(c *vh.Ctx, m *vh.Model, only []cpmOp) {
	root, err := os.MkdirTemp(c.Scratch, "cpmseq")
	if err != nil {
		c.Note("cpmseq: %v", err)
		return
	}
	t, err := mkCpmTree(root)
	if err != nil {
		c.Note("cpmseq: %v", err)
		return
	}
	// AddNamespace reports ignored paths on stdout
	saved := os.Stdout
	if dn, err := os.OpenFile(os.DevNull, os.O_WRONLY, 0); err == nil {
		os.Stdout = dn
		defer func() { os.Stdout = saved; dn.Close() }()
	}
	if only != nil {
		checkCpmBatch(c, m, t, [][]cpmOp{only})
		return
	}
	var batch [][]cpmOp
	flush := func() { checkCpmBatch(c, m, t, batch); batch = batch[:0] }
	push := func(ops []cpmOp) {
		batch = append(batch, ops)
		if len(batch) >= 500 {
			flush()
		}
	}
	// every lookup alone, after every single registration, and after every pair of registrations
	for _, f := range cpmFinds {
		push([]cpmOp{f})
		for _, a := range cpmAdds {
			push([]cpmOp{a, f, f})
			if c.Thorough() {
				for _, b := range cpmAdds {
					push([]cpmOp{a, b, f, f})
				}
			}
		}
	}
	// pairs of lookups under the two-root configurations: memoisation by the first is seen by the second
	for _, pre := range [][]cpmOp{{cpmAdds[0], cpmAdds[1]}, {cpmAdds[1], cpmAdds[0]}, {cpmAdds[0], cpmAdds[2], cpmAdds[1]}} {
		for _, f := range cpmFinds {
			for _, g := range cpmFinds {
				push(append(append([]cpmOp{}, pre...), f, g, f))
			}
		}
	}
	n := c.N(3000, 30000)
	for i := 0; i < n; i++ {
		l := c.Rand.Range(2, 24)
		ops := make([]cpmOp, l)
		for j := range ops {
			if c.Rand.Chance(25) {
				ops[j] = vh.Pick(c.Rand, cpmAdds)
			} else {
				ops[j] = vh.Pick(c.Rand, cpmFinds)
			}
		}
		push(ops)
	}
	flush()
}
