package c10

// Publication stream (round 7): what the PARSER puts into the registry.
//
// The other streams register stub declarations through the VM API, or autoload classes and judge only
// whether a name is found. A registration publishes a pointer: the object behind it is built by the parser
// (ClassParser.Parse: methods, traits, static properties, the inherited constructor …) and every other
// goroutine that looks the name up gets that same object. This stream has ONE goroutine autoload class
// files through the real parser — chains `L0 ← L1 ← … ← leaf` of 2..4 levels, each class in its own file
// that is not loaded yet, the constructor declared on a chosen level or nowhere, optionally an interface
// and a trait in further files, a parent with a body large enough that parsing it takes a while — while
// the other goroutines only LOOK UP (GetClass / GetInterface: they never load, every file has one loader:
// two goroutines loading one file is known finding 2) and take a snapshot of what the registry hands them:
// constructor (identity), methods, properties, parent, interfaces, and whether the parent is registered.
//
// Oracle (no model): LINEARIZABLE PUBLICATION — every snapshot taken while the loader was running equals
// the snapshot of the same name taken after the loader has returned (`publish:observed-unfinished:<field>`);
// the final snapshot is what the files say (constructor inherited from the nearest declaring ancestor:
// `publish:final:<field>`); a class without a constructor of its own that is visible has a visible parent
// (sequentially the parent is registered first: `publish:parent-not-registered`). Under the race detector
// (thorough tier) a write to an object after its publication is a report (`publish:data-race:<site>`).

import (
	"encoding/json"
	"fmt"
	"os"
	"path/filepath"
	goruntime "runtime"
	"sort"
	"strings"
	"sync"
	"sync/atomic"
	"time"

	"github.com/php-any/origami/data"
	"github.com/php-any/origami/node"
	"github.com/php-any/origami/parser"
	"github.com/php-any/origami/runtime"
	"github.com/php-any/origami/std"
	"github.com/php-any/origami/std/php"

	"verif/harness/vh"
)

func init() { vh.RegisterChild("c10publish", publishChild) }

type publishCfg struct {
	Kind   string `json:"kind"` // "publish"
	Mix    string `json:"mix,omitempty"` // "" = class chains (main stream); "decl" = enums and interfaces (known-finding stream)
	G      int    `json:"g"`    // 1 loader + G-1 observers
	Rounds int    `json:"rounds"`
	Procs  int    `json:"procs"`
	Seed   uint64 `json:"seed"`
	Race   bool   `json:"race,omitempty"`
	Dir    string `json:"dir,omitempty"`
}

type publishVerdict struct {
	OK       bool   `json:"ok"`
	Sig      string `json:"sig,omitempty"`
	What     string `json:"what,omitempty"`
	Round    int    `json:"round"`
	Classes  int    `json:"classes"`
	Snaps    int    `json:"snaps"`   // snapshots taken while the loader was running
	Early    int    `json:"early"`   // … of a class whose registrant was still inside the load (leaf not yet returned)
	Inherit  int    `json:"inherit"` // classes whose constructor is inherited
	Lookups  int64  `json:"lookups"`
	Files    int    `json:"files"`
	MaxDepth int    `json:"maxdepth"`
	// decl stream: declarations handed out by the registry before the parser had finished them
	EnumEarly   int    `json:"enum_early,omitempty"`
	ConstEarly  int    `json:"const_early,omitempty"`
	ParentEarly int    `json:"parent_early,omitempty"`
	Example     string `json:"example,omitempty"`
}

// one class of a round as the files declare it
type pubClass struct {
	name     string // Pub\R<r>L<k>
	parent   string // "" for the root
	ownCtor  bool
	ctorFrom string // nearest class (self or ancestor) that declares a constructor, "" if none
	methods  []string
	iface    string
	trait    string
	statics  string
}

type pubRound struct {
	classes []pubClass // root first, leaf last
	ifaces  []string
}

func pubFile(dir, short, src string) error {
	return os.WriteFile(filepath.Join(dir, short+".php"), []byte(src), 0o644)
}

// mkPubRound writes the files of round rd and returns what they declare
func mkPubRound(dir string, rd int, r *vh.Rand) (pubRound, int, error) {
	depth := 2 + r.Intn(3) // 2..4
	ctorAt := r.Intn(depth) - 1
	if r.Intn(5) > 0 && ctorAt < 0 {
		ctorAt = 0
	}
	if ctorAt == depth-1 { // the leaf never has its own constructor: it inherits (or there is none)
		ctorAt = depth - 2
	}
	var pr pubRound
	files := 0
	for k := 0; k < depth; k++ {
		short := fmt.Sprintf("R%dL%d", rd, k)
		c := pubClass{name: "Pub\\" + short, ownCtor: k == ctorAt}
		var b strings.Builder
		b.WriteString("<?php\nnamespace Pub;\n\n")
		fmt.Fprintf(&b, "class %s", short)
		if k > 0 {
			c.parent = pr.classes[k-1].name
			fmt.Fprintf(&b, " extends R%dL%d", rd, k-1)
			c.ctorFrom = pr.classes[k-1].ctorFrom
		}
		if r.Intn(3) == 0 {
			is := fmt.Sprintf("R%dI%d", rd, k)
			c.iface = "Pub\\" + is
			fmt.Fprintf(&b, " implements %s", is)
			if err := pubFile(dir, is, fmt.Sprintf("<?php\nnamespace Pub;\n\ninterface %s {\n    public function who();\n}\n", is)); err != nil {
				return pr, 0, err
			}
			files++
			pr.ifaces = append(pr.ifaces, c.iface)
		}
		b.WriteString(" {\n")
		if r.Intn(4) == 0 {
			ts := fmt.Sprintf("R%dT%d", rd, k)
			c.trait = "Pub\\" + ts
			fmt.Fprintf(&b, "    use %s;\n", ts)
			if err := pubFile(dir, ts, fmt.Sprintf("<?php\nnamespace Pub;\n\ntrait %s {\n    public function fromTrait%d() { return %d; }\n}\n", ts, k, k)); err != nil {
				return pr, 0, err
			}
			files++
			c.methods = append(c.methods, fmt.Sprintf("fromTrait%d", k))
		}
		fmt.Fprintf(&b, "    public $v%d = %d;\n", k, k)
		fmt.Fprintf(&b, "    const TAG%d = 't%d';\n    public static $count%d = %d;\n    public static function make%d() { return %d; }\n", k, k, k, k, k, k)
		c.statics = fmt.Sprintf("make%d", k)
		if c.ownCtor {
			c.ctorFrom = c.name
			fmt.Fprintf(&b, "    public function __construct($v) { $this->v%d = $v; }\n", k)
			c.methods = append(c.methods, "__construct")
		}
		b.WriteString("    public function who() { return " + fmt.Sprint(k) + "; }\n")
		c.methods = append(c.methods, "who")
		// an ordinary amount of code, more in the ancestors: reading and parsing them is the window
		n := 2 + r.Intn(6)
		if k < depth-1 {
			n = 20 + r.Intn(200)
		}
		for m := 0; m < n; m++ {
			fmt.Fprintf(&b, "    public function m%d_%d($a, $b) { $c = $a + $b * %d; if ($c > 3) { return $c - 1; } return [$a, $b, $c]; }\n", k, m, m)
			c.methods = append(c.methods, fmt.Sprintf("m%d_%d", k, m))
		}
		b.WriteString("}\n")
		if err := pubFile(dir, short, b.String()); err != nil {
			return pr, 0, err
		}
		files++
		sort.Strings(c.methods)
		pr.classes = append(pr.classes, c)
	}
	return pr, files, nil
}

// classSnap: what a goroutine that was handed `cls` by the registry can see of it
type classSnap struct {
	ctor    string // identity of the constructor method, "nil" if none
	methods string
	props   int
	extend  string
	impl    string
	statics string // static methods
	sprops  int    // static properties and constants with a value
	abstr   bool
}

func snapClass(cls data.ClassStmt) classSnap {
	var s classSnap
	if m := cls.GetConstruct(); m != nil {
		s.ctor = fmt.Sprintf("%p", m)
	} else {
		s.ctor = "nil"
	}
	var ms []string
	for _, m := range cls.GetMethods() {
		ms = append(ms, m.GetName())
	}
	sort.Strings(ms)
	s.methods = strings.Join(ms, ",")
	s.props = len(cls.GetPropertyList())
	if e := cls.GetExtend(); e != nil {
		s.extend = *e
	}
	s.impl = strings.Join(cls.GetImplements(), ",")
	if cs, ok := cls.(*node.ClassStatement); ok {
		var st []string
		for n := range cs.StaticMethods {
			st = append(st, n)
		}
		sort.Strings(st)
		s.statics = strings.Join(st, ",")
		s.sprops = syncMapLen(&cs.StaticProperty)
		s.abstr = cs.IsAbstract
	}
	return s
}

func (a classSnap) diff(b classSnap) string {
	switch {
	case a.ctor != b.ctor:
		return "constructor"
	case a.methods != b.methods:
		return "methods"
	case a.props != b.props:
		return "properties"
	case a.extend != b.extend:
		return "parent"
	case a.impl != b.impl:
		return "interfaces"
	case a.statics != b.statics:
		return "static-methods"
	case a.sprops != b.sprops:
		return "static-properties"
	case a.abstr != b.abstr:
		return "abstract-flag"
	}
	return ""
}

type pubObs struct {
	g         int
	name      string
	snap      classSnap
	parentHit bool // GetClass(parent) right after the class itself was handed out
	hasParent bool
	early     bool // the loader had not returned yet
}

func publishChild(args []string) int {
	out := vh.ProtocolStdout()
	var cfg publishCfg
	if len(args) < 1 || json.Unmarshal([]byte(args[0]), &cfg) != nil || cfg.G < 2 || cfg.Dir == "" {
		fmt.Fprintln(os.Stderr, "c10publish: bad config")
		return 2
	}
	if cfg.Procs > 0 {
		goruntime.GOMAXPROCS(cfg.Procs)
	}
	r := vh.NewRand(cfg.Seed)
	p := parser.NewParser()
	vm := runtime.NewVM(p)
	vm.SetThrowControl(func(acl data.Control) {})
	vm.AddNamespace("Pub", cfg.Dir)
	v := publishVerdict{OK: true}
	fail := func(rd int, sig, what string) int {
		v.OK, v.Sig, v.What, v.Round = false, sig, what, rd
		b, _ := json.Marshal(v)
		out.Write(b)
		return 0
	}
	var lookups atomic.Int64
	if cfg.Mix == "decl" {
		std.Load(vm)
		php.Load(vm)
		for rd := 0; rd < cfg.Rounds; rd++ {
			if sig, what := declRound(vm, cfg, rd, r, &v); sig != "" {
				return fail(rd, sig, what)
			}
		}
		b, _ := json.Marshal(v)
		out.Write(b)
		return 0
	}
	for rd := 0; rd < cfg.Rounds; rd++ {
		pr, files, err := mkPubRound(cfg.Dir, rd, r)
		if err != nil {
			fmt.Fprintln(os.Stderr, "c10publish: files:", err)
			return 2
		}
		v.Files += files
		v.Classes += len(pr.classes)
		if len(pr.classes) > v.MaxDepth {
			v.MaxDepth = len(pr.classes)
		}
		leaf := pr.classes[len(pr.classes)-1]
		var done atomic.Bool
		var ready, wg sync.WaitGroup
		start := make(chan struct{})
		obs := make([][]pubObs, cfg.G)
		var loadErr string
		var loaderCtor bool
		ready.Add(cfg.G)
		wg.Add(cfg.G)
		go func() { // the only goroutine that loads files
			defer wg.Done()
			defer done.Store(true)
			ready.Done()
			<-start
			cls, acl := vm.GetOrLoadClass(leaf.name)
			if acl != nil {
				loadErr = ctlString(acl)
				return
			}
			if cls == nil {
				loadErr = "nil class"
				return
			}
			loaderCtor = cls.GetConstruct() != nil
		}()
		for g := 1; g < cfg.G; g++ {
			g := g
			// every observer walks the chain in its own rotation, leaf-first or root-first
			order := make([]int, len(pr.classes))
			for i := range order {
				if g%2 == 1 {
					order[i] = (len(pr.classes) - 1 - i + g/2) % len(pr.classes)
				} else {
					order[i] = (i + g/2) % len(pr.classes)
				}
			}
			go func() {
				defer wg.Done()
				seen := make([]bool, len(pr.classes))
				left := len(pr.classes)
				ready.Done()
				<-start
				n := int64(0)
				for left > 0 {
					fin := done.Load()
					for _, k := range order {
						if seen[k] {
							continue
						}
						c := pr.classes[k]
						n++
						cls, ok := vm.GetClass(c.name)
						if !ok {
							continue
						}
						o := pubObs{g: g, name: c.name, snap: snapClass(cls), early: !done.Load()}
						if c.parent != "" {
							o.hasParent = true
							_, o.parentHit = vm.GetClass(c.parent)
						}
						obs[g] = append(obs[g], o)
						seen[k] = true
						left--
					}
					if fin {
						break
					}
					if n%64 == 0 {
						goruntime.Gosched()
					}
				}
				lookups.Add(n)
			}()
		}
		ready.Wait()
		close(start)
		wg.Wait()
		where := fmt.Sprintf("round %d (chain of %d, constructor declared by %q)", rd, len(pr.classes), strings.TrimPrefix(leaf.ctorFrom, "Pub\\"))
		if loadErr != "" {
			return fail(rd, "publish:load-failed", where+": GetOrLoadClass("+leaf.name+") by the only loader: "+loadErr)
		}
		// the finished declarations, and what the files say about them
		final := map[string]classSnap{}
		for _, c := range pr.classes {
			cls, ok := vm.GetClass(c.name)
			if !ok {
				if c.name == leaf.name {
					return fail(rd, "publish:final:not-registered", where+": "+c.name+" is not registered after the load returned")
				}
				continue // an ancestor above the class that declares the constructor need not have been loaded
			}
			fs := snapClass(cls)
			final[c.name] = fs
			if (fs.ctor != "nil") != (c.ctorFrom != "") {
				return fail(rd, "publish:final:constructor", fmt.Sprintf("%s: %s after the load: constructor %s, the files say it comes from %q", where, c.name, fs.ctor, c.ctorFrom))
			}
			if c.ctorFrom != "" && c.ctorFrom != c.name {
				v.Inherit++
				if ff, ok := final[c.ctorFrom]; ok && ff.ctor != fs.ctor {
					return fail(rd, "publish:final:constructor", fmt.Sprintf("%s: %s inherits a constructor that is not %s's", where, c.name, c.ctorFrom))
				}
			}
			var want []string
			want = append(want, c.methods...)
			if c.ctorFrom != "" && !c.ownCtor {
				want = append(want, "__construct") // GetMethods lists the constructor a class runs, inherited or not
				sort.Strings(want)
			}
			if got := fs.methods; got != strings.Join(want, ",") {
				return fail(rd, "publish:final:methods", fmt.Sprintf("%s: %s has methods [%s], its file declares [%s]", where, c.name, firstLines(got, 1), strings.Join(want, ",")))
			}
		}
		for _, c := range pr.classes {
			if fs, ok := final[c.name]; ok && (fs.statics != c.statics || fs.sprops != 2) {
				return fail(rd, "publish:final:statics", fmt.Sprintf("%s: %s after the load has static methods [%s] and %d static properties / constants, its file declares [%s] and 2", where, c.name, fs.statics, fs.sprops, c.statics))
			}
		}
		if loaderCtor != (leaf.ctorFrom != "") {
			return fail(rd, "publish:final:constructor", fmt.Sprintf("%s: the loader's own result has constructor=%v", where, loaderCtor))
		}
		for g := 1; g < cfg.G; g++ {
			for _, o := range obs[g] {
				v.Snaps++
				if o.early {
					v.Early++
				}
				fs, ok := final[o.name]
				if !ok {
					return fail(rd, "publish:observed-then-gone", fmt.Sprintf("%s: goroutine %d was handed %s, after the load it is not registered", where, g, o.name))
				}
				if d := o.snap.diff(fs); d != "" {
					return fail(rd, "publish:observed-unfinished:"+d, fmt.Sprintf("%s: goroutine %d looked %s up while the loader was still running and was handed a registered class whose %s differs from the finished declaration (seen: constructor=%s, %d methods; finished: constructor=%s, %d methods) — no sequential order of the calls hands out an unfinished class", where, g, o.name, d, o.snap.ctor, strings.Count(o.snap.methods, ",")+1, fs.ctor, strings.Count(fs.methods, ",")+1))
				}
				for _, c := range pr.classes {
					if c.name == o.name && !c.ownCtor && o.hasParent && !o.parentHit {
						return fail(rd, "publish:parent-not-registered", fmt.Sprintf("%s: goroutine %d was handed %s (no constructor of its own: its registration follows the load of %s) and then GetClass(%s) missed", where, g, o.name, c.parent, c.parent))
					}
				}
			}
		}
	}
	v.Lookups = lookups.Load()
	b, _ := json.Marshal(v)
	out.Write(b)
	return 0
}

// ------------------------------------------------------------ decl stream (known findings)

func syncMapLen(m *sync.Map) int {
	n := 0
	m.Range(func(_, _ any) bool { n++; return true })
	return n
}

// declRound: the loader autoloads an interface with constants that extends an already loaded interface, and an
// enum; observers look both up and count what the declaration they are handed contains. The unchanged tree
// registers an enum before its cases exist and an interface before its constants are evaluated and its parents'
// names normalised (Generated.C10Publish lists exactly these writes): counted, reported under known signatures.
func declRound(vm data.VM, cfg publishCfg, rd int, r *vh.Rand, v *publishVerdict) (sig, what string) {
	nc := 20 + r.Intn(120)
	en, jn, jp := fmt.Sprintf("R%dE", rd), fmt.Sprintf("R%dJ", rd), fmt.Sprintf("R%dJP", rd)
	var b strings.Builder
	fmt.Fprintf(&b, "<?php\nnamespace Pub;\n\nenum %s: string {\n", en)
	for k := 0; k < nc; k++ {
		fmt.Fprintf(&b, "    case C%d = 'c%d';\n", k, k)
	}
	b.WriteString("    public function label() { return $this->value; }\n}\n")
	if err := pubFile(cfg.Dir, en, b.String()); err != nil {
		return "publish:child-died", err.Error()
	}
	if err := pubFile(cfg.Dir, jp, fmt.Sprintf("<?php\nnamespace Pub;\n\ninterface %s {\n    public function who();\n}\n", jp)); err != nil {
		return "publish:child-died", err.Error()
	}
	b.Reset()
	fmt.Fprintf(&b, "<?php\nnamespace Pub;\n\ninterface %s extends %s {\n", jn, jp)
	for k := 0; k < nc; k++ {
		fmt.Fprintf(&b, "    const K%d = %d + %d * 2;\n", k, k, k)
	}
	b.WriteString("    public function f();\n}\n")
	if err := pubFile(cfg.Dir, jn, b.String()); err != nil {
		return "publish:child-died", err.Error()
	}
	v.Files += 3
	type dsnap struct {
		kind    string
		n       int
		extends string
	}
	var done atomic.Bool
	var ready, wg sync.WaitGroup
	start := make(chan struct{})
	obs := make([][]dsnap, cfg.G)
	var loadErr string
	snapE := func() (dsnap, bool) {
		cls, ok := vm.GetClass("Pub\\" + en)
		if !ok {
			return dsnap{}, false
		}
		cs, ok := cls.(*node.ClassStatement)
		if !ok {
			return dsnap{}, false
		}
		return dsnap{kind: "enum", n: syncMapLen(&cs.StaticProperty)}, true
	}
	snapJ := func() (dsnap, bool) {
		it, ok := vm.GetInterface("Pub\\" + jn)
		if !ok {
			return dsnap{}, false
		}
		is, ok := it.(*node.InterfaceStatement)
		if !ok {
			return dsnap{}, false
		}
		return dsnap{kind: "iface", n: syncMapLen(&is.StaticProperty), extends: strings.Join(is.GetExtends(), ",")}, true
	}
	ready.Add(cfg.G)
	wg.Add(cfg.G)
	go func() {
		defer wg.Done()
		defer done.Store(true)
		ready.Done()
		<-start
		if _, acl := vm.GetOrLoadInterface("Pub\\" + jp); acl != nil {
			loadErr = "GetOrLoadInterface(" + jp + "): " + ctlString(acl)
			return
		}
		if _, acl := vm.GetOrLoadInterface("Pub\\" + jn); acl != nil {
			loadErr = "GetOrLoadInterface(" + jn + "): " + ctlString(acl)
			return
		}
		if _, acl := vm.GetOrLoadClass("Pub\\" + en); acl != nil {
			loadErr = "GetOrLoadClass(" + en + "): " + ctlString(acl)
		}
	}()
	for g := 1; g < cfg.G; g++ {
		g := g
		go func() {
			defer wg.Done()
			ready.Done()
			<-start
			gotE, gotJ := false, false
			for !(gotE && gotJ) {
				fin := done.Load()
				if !gotJ {
					if s, ok := snapJ(); ok {
						obs[g], gotJ = append(obs[g], s), true
					}
				}
				if !gotE {
					if s, ok := snapE(); ok {
						obs[g], gotE = append(obs[g], s), true
					}
				}
				if fin {
					break
				}
			}
		}()
	}
	ready.Wait()
	close(start)
	wg.Wait()
	if loadErr != "" {
		return "publish:load-failed", fmt.Sprintf("decl round %d: %s", rd, loadErr)
	}
	fe, okE := snapE()
	fj, okJ := snapJ()
	if !okE || !okJ {
		return "publish:final:not-registered", fmt.Sprintf("decl round %d: enum registered=%v, interface registered=%v after the loads returned", rd, okE, okJ)
	}
	if fe.n != nc || fj.n != nc {
		return "publish:final:constants", fmt.Sprintf("decl round %d: the files declare %d cases / constants, the finished enum has %d, the interface %d", rd, nc, fe.n, fj.n)
	}
	v.Classes += 2
	for g := 1; g < cfg.G; g++ {
		for _, o := range obs[g] {
			v.Snaps++
			switch {
			case o.kind == "enum" && o.n != fe.n:
				v.EnumEarly++
				if v.Example == "" {
					v.Example = fmt.Sprintf("round %d: GetClass(%s) handed out the enum with %d of its %d cases", rd, en, o.n, fe.n)
				}
			case o.kind == "iface" && o.n != fj.n:
				v.ConstEarly++
			case o.kind == "iface" && o.extends != fj.extends:
				v.ParentEarly++
			}
		}
	}
	return "", ""
}

// ------------------------------------------------------------ parent side

func publishSig(crash string) string {
	switch {
	case strings.HasPrefix(crash, "fatal error: concurrent map"):
		return "publish:fatal:concurrent-map-access"
	case strings.HasPrefix(crash, "DATA RACE"):
		site := strings.TrimPrefix(crash, "DATA RACE @ ")
		if i := strings.Index(site, " / "); i > 0 {
			site = site[:i]
		}
		return "publish:data-race:" + site
	case strings.HasPrefix(crash, "hang"), strings.HasPrefix(crash, "deadlock"):
		return "publish:deadlock"
	}
	return "publish:child-died"
}

func publishOnce(c *vh.Ctx, bin string, cfg publishCfg) bool {
	run := cfg
	d, err := os.MkdirTemp(c.Scratch, "publish")
	if err != nil {
		c.Note("publish stream: %v", err)
		return true
	}
	defer os.RemoveAll(d)
	run.Dir = d
	timeout := 60*time.Second + time.Duration(cfg.Rounds/10)*time.Second
	if cfg.Race {
		timeout *= 4
	}
	arg, _ := json.Marshal(run)
	out, crash := runChild(bin, "c10publish", arg, cfg.Procs, timeout)
	var v publishVerdict
	if crash == "" && json.Unmarshal(out, &v) != nil {
		crash = "child printed no verdict: " + firstLines(string(out), 3)
	}
	c.Eval(fmt.Sprintf("publish g=%d rounds=%d p=%d seed=%d race=%v", cfg.G, cfg.Rounds, cfg.Procs, cfg.Seed, cfg.Race), true)
	c.Hit(fmt.Sprintf("publish:g=%d", cfg.G))
	c.Hit(fmt.Sprintf("publish:procs=%d", cfg.Procs))
	if cfg.Race {
		c.Hit("publish:race-detector")
	}
	c.HitN("publish:rounds", cfg.Rounds)
	c.HitN("publish:class-files-parsed-by-the-loader", v.Files)
	c.HitN("publish:classes", v.Classes)
	c.HitN("publish:classes-with-inherited-constructor", v.Inherit)
	c.HitN("publish:snapshots", v.Snaps)
	c.HitN("publish:snapshots-taken-while-the-loader-was-running", v.Early)
	c.HitN("publish:lookups", int(v.Lookups))
	c.Res.Traces++
	if cfg.Mix == "decl" {
		c.Hit("publish:decl-stream")
	}
	where := fmt.Sprintf("1 goroutine autoloading %d class chains (2..4 levels, one file per class, constructor inherited) through the real parser ∥ %d goroutines looking the classes up (GOMAXPROCS=%d)", cfg.Rounds, cfg.G-1, cfg.Procs)
	if cfg.Mix == "decl" {
		where = fmt.Sprintf("1 goroutine autoloading %d enums and interfaces with constants through the real parser ∥ %d goroutines looking them up (GOMAXPROCS=%d)", cfg.Rounds, cfg.G-1, cfg.Procs)
	}
	if crash != "" {
		c.Violation(publishSig(crash), where+": "+crash, cfg)
		return false
	}
	if !v.OK {
		c.Violation(v.Sig, where+", "+v.What, cfg)
		return false
	}
	if cfg.Mix == "decl" {
		c.HitN("publish:decl:enum-handed-out-before-its-cases", v.EnumEarly)
		c.HitN("publish:decl:interface-handed-out-before-its-constants", v.ConstEarly)
		c.HitN("publish:decl:interface-handed-out-before-its-parents-were-renamed", v.ParentEarly)
		dw := fmt.Sprintf("1 goroutine autoloading %d enums and interfaces with constants through the real parser ∥ %d goroutines looking them up (GOMAXPROCS=%d)", cfg.Rounds, cfg.G-1, cfg.Procs)
		if v.EnumEarly > 0 {
			c.Violation("publish:decl:enum-registered-before-its-cases", fmt.Sprintf("%s: %d lookups were handed an enum some of whose cases did not exist yet (EnumParser.Parse registers the class, then creates the cases with `new`); %s", dw, v.EnumEarly, v.Example), cfg)
		}
		if v.ConstEarly+v.ParentEarly > 0 {
			c.Violation("publish:decl:interface-registered-before-its-constants", fmt.Sprintf("%s: %d lookups were handed an interface some of whose constants were not evaluated yet, %d one whose parent names were not normalised yet (InterfaceParser.Parse registers the interface first)", dw, v.ConstEarly, v.ParentEarly), cfg)
		}
	}
	return true
}

// publishPart: the plan. Stops at the first violation.
func publishPart(c *vh.Ctx, bin string, race bool) bool {
	type gr struct{ g, rounds int }
	plan := []gr{{2, 60}, {3, 60}, {5, 60}, {9, 40}}
	if c.Thorough() {
		plan = []gr{{2, 300}, {3, 300}, {4, 300}, {5, 300}, {9, 200}, {16, 100}}
	}
	if race {
		plan = []gr{{2, 80}, {4, 80}, {9, 40}}
	}
	for _, p := range plan {
		procs := vh.Pick(c.Rand, []int{2, 4, 8, 16})
		cfg := publishCfg{Kind: "publish", G: p.g, Rounds: p.rounds, Procs: procs, Seed: c.Rand.U64() % 1000000, Race: race}
		if !publishOnce(c, bin, cfg) {
			return false
		}
	}
	return true
}
