// Layered stream: ONE response passes through a stack of layers — closure middlewares, class
// middlewares, the route handler. Every layer is a handler of its own on the shared bufferedWriter: it
// runs operations before `$next`, calls `$next` or answers by itself (short-circuit: the inner layers and
// the route handler never run), runs operations after it, and returns. The commit-once reference is read
// in execution order across the layers; the return of a layer while a status is pending and nothing is
// committed commits that status (a "ret" mark in the event sequence, see specOf) — what the end of a
// single handler does. Judged on the counting recorder and over a real connection (judge / runClient),
// and compared with Model.RespLayer.serveOn in which every layer commits on return.
package c13

import (
	"fmt"
	"sort"
	"strings"

	"verif/harness/vh"
)

// layer: one middleware, as registered.
type layer struct {
	Kind  string `json:"kind"` // "closure" | "class"
	Prio  int    `json:"prio"`
	Pre   []op   `json:"pre,omitempty"`  // before $next
	Calls bool   `json:"calls"`          // calls $next
	Post  []op   `json:"post,omitempty"` // after $next (or after Pre when it does not call)
}

// layCase: middlewares in REGISTRATION order and the route handler's operations.
type layCase struct {
	Mws     []layer
	Handler []op
}

func (lc *layCase) cas() map[string]any {
	return map[string]any{"kind": "layers", "mws": lc.Mws, "handler": lc.Handler}
}

// nesting: outermost first — ascending priority, ties in registration order (the documented order,
// written here independently of applyMiddlewares and of Model.Mw).
func (lc *layCase) nesting() []layer {
	idx := make([]int, len(lc.Mws))
	for i := range idx {
		idx[i] = i
	}
	sort.Slice(idx, func(a, b int) bool {
		if lc.Mws[idx[a]].Prio != lc.Mws[idx[b]].Prio {
			return lc.Mws[idx[a]].Prio < lc.Mws[idx[b]].Prio
		}
		return idx[a] < idx[b]
	})
	out := make([]layer, len(idx))
	for i, j := range idx {
		out[i] = lc.Mws[j]
	}
	return out
}

var retOp = op{Kind: "ret"}

// events: what happens on the response in execution order.
func (lc *layCase) events() []op {
	ls := lc.nesting()
	var rec func(i int) []op
	rec = func(i int) []op {
		if i == len(ls) {
			return cat(lc.Handler, []op{retOp})
		}
		out := append([]op{}, ls[i].Pre...)
		if ls[i].Calls {
			out = append(out, rec(i+1)...)
		}
		out = append(out, ls[i].Post...)
		return append(out, retOp)
	}
	return rec(0)
}

func opsLine(ops []op) string {
	p := make([]string, len(ops))
	for i, o := range ops {
		p[i] = o.model()
	}
	return strings.Join(p, "|")
}

// modelLine: `layers` / `lconn` question for vm_c13, outermost layer first, every layer committing on
// return (what the model of the layer entries says), the route handler innermost.
func (lc *layCase) modelLine(view string) string {
	var p []string
	for _, l := range lc.nesting() {
		calls := "0"
		if l.Calls {
			calls = "1"
		}
		p = append(p, "1~"+calls+"~"+opsLine(l.Pre)+"~"+opsLine(l.Post))
	}
	p = append(p, "1~0~"+opsLine(lc.Handler)+"~")
	if view == "conn" {
		return "lconn\t" + strings.Join(p, "^")
	}
	return "layers\t" + strings.Join(p, "^")
}

func (lc *layCase) key() string {
	var p []string
	for _, l := range lc.Mws {
		p = append(p, fmt.Sprintf("%s:%d:%v:%s:%s", l.Kind, l.Prio, l.Calls, opsLine(l.Pre), opsLine(l.Post)))
	}
	return "layers " + strings.Join(p, " ^ ") + " ^ " + opsLine(lc.Handler)
}

func statusOnly(ops []op) bool {
	n := 0
	for _, o := range ops {
		switch o.Kind {
		case "status":
			n++
		case "header", "cookie":
		default:
			return false
		}
	}
	return n > 0
}

func (lc *layCase) hits(c *vh.Ctx) {
	c.Hit("layers:case")
	c.Hit(fmt.Sprintf("layers:depth=%d", len(lc.Mws)))
	ls := lc.nesting()
	quiet := true // nothing committed so far on the way in
	for i, l := range ls {
		c.Hit("layers:kind=" + l.Kind)
		if !l.Calls {
			c.Hit("layers:short-circuit")
			if quiet && statusOnly(cat(l.Pre, l.Post)) {
				c.Hit("layers:short-circuit-with-bare-status")
			}
			break
		}
		for _, o := range l.Pre {
			if o.Kind != "status" && o.Kind != "header" && o.Kind != "cookie" {
				quiet = false
			}
		}
		if i == len(ls)-1 && quiet && statusOnly(l.Post) {
			if _, cm, _, _ := specOf(cat(lc.Handler, []op{retOp})); cm == 0 {
				c.Hit("layers:bare-status-after-next-on-uncommitted-response")
			}
		}
	}
}

func layerBody(l layer) string {
	var sb strings.Builder
	for _, o := range l.Pre {
		sb.WriteString("  " + o.script() + "\n")
	}
	if l.Calls {
		sb.WriteString("  $next($req, $res);\n")
	}
	for _, o := range l.Post {
		sb.WriteString("  " + o.script() + "\n")
	}
	return sb.String()
}

func layerScript(mws []layer, handlers [][]op) string {
	var sb strings.Builder
	sb.WriteString("<?php\nuse Net\\Http\\Server;\n")
	for i, l := range mws {
		if l.Kind == "class" {
			fmt.Fprintf(&sb, "class L%d { public function handle($req, $res, $next) {\n%s} }\n", i, layerBody(l))
		}
	}
	sb.WriteString("$server = new Server('127.0.0.1', 0);\n")
	for i, l := range mws {
		if l.Kind == "class" {
			fmt.Fprintf(&sb, "$server->middleware(new L%d(), %d);\n", i, l.Prio)
		} else {
			fmt.Fprintf(&sb, "$server->middleware(function ($req, $res, $next) {\n%s}, %d);\n", layerBody(l), l.Prio)
		}
	}
	for i, ops := range handlers {
		fmt.Fprintf(&sb, "$server->get('/c%d', function ($req, $res) {\n", i)
		for _, o := range ops {
			sb.WriteString("  " + o.script() + "\n")
		}
		sb.WriteString("});\n")
	}
	sb.WriteString("verif_expose($server);\n")
	return sb.String()
}

// runLayerStack: one server with the middlewares `mws` (registration order) and one route per handler.
func runLayerStack(c *vh.Ctx, m *vh.Model, mws []layer, handlers [][]op) {
	cases := make([]tcase, len(handlers))
	for i, h := range handlers {
		lc := &layCase{Mws: mws, Handler: h}
		cases[i] = tcase{Ops: lc.events(), At: -1, Lay: lc}
	}
	if len(cases) == 0 {
		return
	}
	env, o := vh.NewHTTPEnv(layerScript(mws, handlers))
	if o.Kind != "ok" || env.Mux == nil {
		c.Mismatch(cases[0].cas("resp"), o.String(), "", "layered server script did not run")
		return
	}
	serveCases(c, m, env, cases, 1)
}

// layerSeqs: the operation sequences of layer slot i (0..2 middlewares by nesting depth, 3 = the route
// handler): nothing, a bare status, a header, a body byte; every slot has its own status code (one of them
// carries no body), header and body byte, so the outcome tells which layer decided. Thorough adds the
// two-operation orders and the terminal calls.
func layerSeqs(i int, thorough bool) [][]op {
	code := []int{403, 204, 500, 201}[i]
	hk, hv, b := fmt.Sprintf("X-L%d", i), fmt.Sprint(i), fmt.Sprint(i)
	out := [][]op{
		{},
		{{Kind: "status", C: code}},
		{{Kind: "header", A: hk, B: hv}},
		{{Kind: "write", A: b}},
	}
	if thorough {
		out = append(out,
			[]op{{Kind: "header", A: hk, B: hv}, {Kind: "status", C: code}},
			[]op{{Kind: "nocontent", C: code}},
			[]op{{Kind: "writeheader", C: code}},
			[]op{{Kind: "html", A: "h", C: code}})
	}
	return out
}

// layerVariants: every middleware for slot i: (before, calls $next, after); a layer that does not call
// has one sequence only.
func layerVariants(i int, thorough bool) []layer {
	var out []layer
	seqs := layerSeqs(i, thorough)
	for _, pre := range seqs {
		out = append(out, layer{Pre: pre, Calls: false})
		for _, post := range seqs {
			out = append(out, layer{Pre: pre, Calls: true, Post: post})
		}
	}
	return out
}

// register: the stack `nest` (outermost first) as a registration list; the variant decides kinds,
// priorities and the registration order (in nesting order with ascending priorities; reversed, so that
// the sort has to reorder; all priorities equal, so that the registration order decides).
func register(nest []layer, kinds, order int) []layer {
	n := len(nest)
	out := make([]layer, n)
	for i, l := range nest {
		if (kinds>>uint(i))&1 == 1 {
			l.Kind = "class"
		} else {
			l.Kind = "closure"
		}
		out[i] = l
	}
	switch order % 3 {
	case 0:
		for i := range out {
			out[i].Prio = []int{0, 1, 5}[i]
		}
	case 1:
		for i := range out {
			out[i].Prio = []int{-1, 0, 5}[i]
		}
		for a, b := 0, n-1; a < b; a, b = a+1, b-1 {
			out[a], out[b] = out[b], out[a]
		}
	case 2:
		for i := range out {
			out[i].Prio = 0
		}
	}
	return out
}

// layerStream: complete for small sizes. Quick: every stack of 0, 1 and 2 middlewares over every route
// handler (1 middleware: both kinds; 2 middlewares: kinds and registration orders rotate with the stack
// index). Thorough: all kinds x registration orders for 2 middlewares, the longer sequences for 1 and 2,
// and every stack of 3 middlewares over the short sequences.
func layerStream(c *vh.Ctx, m *vh.Model) {
	th := c.Thorough()
	handlers := func(t bool) [][]op { return layerSeqs(3, t) }
	runLayerStack(c, m, nil, handlers(th))
	for _, v := range layerVariants(0, th) {
		for kinds := 0; kinds < 2; kinds++ {
			runLayerStack(c, m, register([]layer{v}, kinds, 0), handlers(th))
		}
	}
	// rotation: for a fixed layer in one slot, the other slot's index walks through every kind
	// combination and every registration order
	for ia, a := range layerVariants(0, false) {
		for ib, b := range layerVariants(1, false) {
			if th {
				for v := 0; v < 12; v++ {
					runLayerStack(c, m, register([]layer{a, b}, v%4, v/4), handlers(false))
				}
			} else {
				runLayerStack(c, m, register([]layer{a, b}, ia+ib, ia+2*ib), handlers(false))
			}
		}
	}
	if !th {
		return
	}
	for ia, a := range layerVariants(0, true) {
		for ib, b := range layerVariants(1, true) {
			runLayerStack(c, m, register([]layer{a, b}, ia+ib, ia+2*ib), handlers(true))
		}
	}
	for ia, a := range layerVariants(0, false) {
		for ib, b := range layerVariants(1, false) {
			for id, d := range layerVariants(2, false) {
				runLayerStack(c, m, register([]layer{a, b, d}, ia+ib+3*id, ia+2*ib+id), handlers(false))
			}
		}
	}
}
