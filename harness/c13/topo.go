package c13

// Topology stream (round 7): trees of server objects built with group(). Every server object registers
// middlewares one at a time, in every interleaving with its parent and its siblings, and routes on every
// object; every route is requested and its trace of middleware markers is judged by an independent
// reference of "which middlewares wrap this route, in which order".
//
// The inheritance rule (read off the unchanged code and the README of the module: group(prefix) creates "a
// new Server instance based on the current one"): a server object has its OWN middleware list; group()
// starts the new object with the parent's list as it is at that moment; middleware() adds to the object it is
// called on and to no other; a route is wrapped with its object's list as it is when the route is
// registered. Order: ascending priority, ties in registration order, each wrapping all later ones.

import (
	"fmt"
	"sort"
	"strings"

	"verif/harness/vh"
)

type tstep struct {
	K string `json:"k"`           // "mw" | "group" | "route"
	O int    `json:"o"`           // object acted on (0 = new Server; groups numbered in creation order)
	P int    `json:"p,omitempty"` // priority of a middleware
}

type topoCase struct {
	Steps []tstep `json:"steps"`
}

func (t *topoCase) cas() map[string]any { return map[string]any{"kind": "topo", "steps": t.Steps} }

func (t *topoCase) valid() bool {
	n := 1
	for _, s := range t.Steps {
		if s.O < 0 || s.O >= n {
			return false
		}
		if s.K == "group" {
			n++
		}
	}
	return true
}

func objVar(o int) string {
	if o == 0 {
		return "$server"
	}
	return fmt.Sprintf("$g%d", o)
}

// the middleware registered by step i carries the marker i; the route registered by step i answers /r<i>
// under the prefix of its object (every object has its own absolute prefix).
func (t *topoCase) script() string {
	var sb strings.Builder
	sb.WriteString("<?php\nuse Net\\Http\\Server;\n$server = new Server('127.0.0.1', 0);\n")
	n := 1
	for i, s := range t.Steps {
		switch s.K {
		case "mw":
			fmt.Fprintf(&sb, "%s->middleware(function ($request, $response, $next) { verif_trace('pre%d'); $next($request, $response); verif_trace('post%d'); }, %d);\n", objVar(s.O), i, i, s.P)
		case "group":
			fmt.Fprintf(&sb, "%s = %s->group('/o%d');\n", objVar(n), objVar(s.O), n)
			n++
		case "route":
			fmt.Fprintf(&sb, "%s->get('/r%d', function ($req, $res) { verif_trace('final%d'); $res->write('x'); });\n", objVar(s.O), i, i)
		}
	}
	sb.WriteString("verif_expose($server);\n")
	return sb.String()
}

func (t *topoCase) routeURL(i int) string {
	o := t.Steps[i].O
	if o == 0 {
		return fmt.Sprintf("/r%d", i)
	}
	return fmt.Sprintf("/o%d/r%d", o, i)
}

type tmw struct{ p, id int }

// reference: per route (step index) the expected trace; also the set of markers allowed on it.
func (t *topoCase) want() map[int]string {
	lists := [][]tmw{nil}
	out := map[int]string{}
	for i, s := range t.Steps {
		switch s.K {
		case "mw":
			lists[s.O] = append(append([]tmw{}, lists[s.O]...), tmw{s.P, i})
		case "group":
			lists = append(lists, append([]tmw{}, lists[s.O]...))
		case "route":
			l := append([]tmw{}, lists[s.O]...)
			sort.Slice(l, func(a, b int) bool {
				if l[a].p != l[b].p {
					return l[a].p < l[b].p
				}
				return l[a].id < l[b].id
			})
			var pre, post []string
			for _, e := range l {
				pre = append(pre, fmt.Sprintf("pre%d", e.id))
				post = append([]string{fmt.Sprintf("post%d", e.id)}, post...)
			}
			pre = append(pre, fmt.Sprintf("final%d", i))
			out[i] = strings.Join(append(pre, post...), " ")
		}
	}
	return out
}

func (t *topoCase) modelLine() string {
	var p []string
	for i, s := range t.Steps {
		switch s.K {
		case "mw":
			p = append(p, fmt.Sprintf("m:%d:%d:%d", s.O, s.P, i))
		case "group":
			p = append(p, fmt.Sprintf("g:%d", s.O))
		case "route":
			p = append(p, fmt.Sprintf("r:%d", s.O))
		}
	}
	return "topo\t" + strings.Join(p, ",")
}

// observe: serve every route, return route step -> trace
func (t *topoCase) observe() (map[int]string, string) {
	env, o := vh.NewHTTPEnv(t.script())
	if o.Kind != "ok" || env.Mux == nil {
		return nil, "script did not run: " + o.String()
	}
	out := map[int]string{}
	for i, s := range t.Steps {
		if s.K != "route" {
			continue
		}
		env.Trace = nil
		_, pan := env.Do("GET", t.routeURL(i))
		if pan != nil {
			out[i] = fmt.Sprintf("panic: %v", pan)
		} else {
			out[i] = strings.Join(env.Trace, " ")
		}
	}
	return out, ""
}

// classify a wrong trace: a marker of a middleware the route's object never had / one it had is missing /
// the right set in the wrong order.
func topoSig(impl, want string) string {
	ws := map[string]bool{}
	for _, w := range strings.Fields(want) {
		ws[w] = true
	}
	is := map[string]bool{}
	for _, w := range strings.Fields(impl) {
		is[w] = true
		if !ws[w] {
			return "topo:foreign-middleware"
		}
	}
	for w := range ws {
		if !is[w] {
			return "topo:missing-middleware"
		}
	}
	return "topo:order"
}

func (t *topoCase) firstBad() (int, string, string, string) {
	got, err := t.observe()
	if err != "" {
		return -1, "", "", err
	}
	want := t.want()
	var keys []int
	for i := range want {
		keys = append(keys, i)
	}
	sort.Ints(keys)
	for _, i := range keys {
		if got[i] != want[i] {
			return i, got[i], want[i], ""
		}
	}
	return -1, "", "", ""
}

// shrink: drop middleware / route steps (never a group step, so object numbers stay valid) while some
// route still has a wrong trace of the same kind.
func (t *topoCase) shrink(sig string) *topoCase {
	cur := t
	for changed := true; changed; {
		changed = false
		for i := len(cur.Steps) - 1; i >= 0; i-- {
			if cur.Steps[i].K == "group" {
				continue
			}
			cand := &topoCase{Steps: append(append([]tstep{}, cur.Steps[:i]...), cur.Steps[i+1:]...)}
			if r, g, w, e := cand.firstBad(); e == "" && r >= 0 && topoSig(g, w) == sig {
				cur, changed = cand, true
			}
		}
	}
	return cur
}

func runTopo(c *vh.Ctx, m *vh.Model, t *topoCase, shrink bool) {
	if !t.valid() {
		c.Note("topo: invalid case skipped")
		return
	}
	got, err := t.observe()
	if err != "" {
		c.Mismatch(t.cas(), err, "", "topology script did not run")
		return
	}
	want := t.want()
	line := t.modelLine()
	nobj, nmw := 1, 0
	for _, s := range t.Steps {
		if s.K == "group" {
			nobj++
		}
		if s.K == "mw" {
			nmw++
		}
	}
	c.Eval(line, nobj >= 2 && nmw >= 1 && len(want) >= 1)
	c.Hit(fmt.Sprintf("topo:objects=%d", nobj))
	c.SampleSome(map[string]any{"topo": line, "impl": got}, 97)
	var keys []int
	for i := range want {
		keys = append(keys, i)
	}
	sort.Ints(keys)
	for _, i := range keys {
		if got[i] != want[i] {
			sig := topoSig(got[i], want[i])
			rep := t
			if shrink && topoShrunk[sig] < 3 {
				topoShrunk[sig]++
				rep = t.shrink(sig)
			}
			r, g, w, _ := rep.firstBad()
			if r < 0 {
				rep, r, g, w = t, i, got[i], want[i]
			}
			c.Violation(sig, fmt.Sprintf("route %s (registered by step %d on server object %d) ran %q; the middlewares of its own server object at registration, ascending priority, ties in registration order, give %q", rep.routeURL(r), r, rep.Steps[r].O, g, w), rep.cas())
			break
		}
	}
	if m != nil {
		var parts []string
		for _, i := range keys {
			parts = append(parts, got[i])
		}
		impl := strings.Join(parts, "|")
		ans, err := m.Ask(line)
		if err == nil && ans != implFinal(impl) {
			c.Mismatch(t.cas(), implFinal(impl), ans, "server-object tree vs Model.MwTopo (derived objects copy)")
		}
	}
}

// shrinking re-runs the script many times: only the first few reports of a kind are shrunk
var topoShrunk = map[string]int{}

// the model says "final" for every route handler
func implFinal(s string) string {
	f := strings.Fields(strings.ReplaceAll(s, "|", " | "))
	for i, w := range f {
		if strings.HasPrefix(w, "final") {
			f[i] = "final"
		}
	}
	return strings.ReplaceAll(strings.Join(f, " "), " | ", "|")
}

var topoPrios = []int{0, -1, 0, 5, 1}

// builder used by the enumerations
type topoB struct{ steps []tstep }

func (b *topoB) mw(o int)    { b.steps = append(b.steps, tstep{K: "mw", O: o, P: topoPrios[len(b.steps)%len(topoPrios)]}) }
func (b *topoB) group(p int) { b.steps = append(b.steps, tstep{K: "group", O: p}) }
func (b *topoB) route(o int) { b.steps = append(b.steps, tstep{K: "route", O: o}) }

// topoShapes: the creation phase. n = middlewares on the root before the first group; shape:
//  0: one group           1: two sibling groups        2: chain root -> g1 -> g2 (g1 registers j of its own first)
//  3: three siblings      4: two siblings, the second created after the first registered j middlewares
// returns the builder and the number of objects
func topoShape(shape, n, j int) (*topoB, int) {
	b := &topoB{}
	for i := 0; i < n; i++ {
		b.mw(0)
	}
	switch shape {
	case 0:
		b.group(0)
		return b, 2
	case 1:
		b.group(0)
		b.group(0)
		return b, 3
	case 2:
		b.group(0)
		for i := 0; i < j; i++ {
			b.mw(1)
		}
		b.group(1)
		return b, 3
	case 3:
		b.group(0)
		b.group(0)
		b.group(0)
		return b, 4
	default:
		b.group(0)
		for i := 0; i < j; i++ {
			b.mw(1)
		}
		b.group(0)
		return b, 3
	}
}

// topoStream: complete part — for every root stack size 0..9 at group creation, every shape, every
// sequence of up to L later registrations "object i registers one more middleware" (all interleavings of
// parent-before-group, group-before-parent, sibling-between), optionally a route on every object before
// them, and a route on every object after them. Seeded part — random programs over up to 4 objects
// (depth <= 2) with 0..9 middlewares each.
func topoStream(c *vh.Ctx, m *vh.Model) {
	type sh struct{ shape, j, l int } // l = number of later registrations enumerated (quick)
	shapes := []sh{{0, 0, 3}, {1, 0, 3}, {2, 0, 2}, {2, 1, 3}, {2, 3, 2}}
	if c.Thorough() {
		shapes = append(shapes, sh{2, 2, 4}, sh{2, 5, 4}, sh{3, 0, 4}, sh{4, 1, 4}, sh{4, 3, 4})
	}
	count := 0
	for n := 0; n <= 9; n++ {
		for _, s := range shapes {
			base, nobj := topoShape(s.shape, n, s.j)
			L := c.N(s.l, 4)
			var rec func(seq []int)
			rec = func(seq []int) {
				early := c.Thorough() || (count%4 == 0)
				b := &topoB{steps: append([]tstep{}, base.steps...)}
				if early {
					for o := 0; o < nobj; o++ {
						b.route(o)
					}
				}
				for _, o := range seq {
					b.mw(o)
				}
				for o := 0; o < nobj; o++ {
					b.route(o)
				}
				count++
				runTopo(c, m, &topoCase{Steps: b.steps}, true)
				if len(seq) == L {
					return
				}
				for o := 0; o < nobj; o++ {
					rec(append(append([]int{}, seq...), o))
				}
			}
			rec(nil)
		}
	}
	// every object sweeps 0..9 own middlewares (a, b, d) around the creation of two groups, in the three
	// block orders; diagonal-ish sample of the cube, complete in thorough for a, b and d in 0..9 step 1/3
	stepAB := c.N(3, 1)
	for a := 0; a <= 9; a += 1 {
		for bb := 0; bb <= 9; bb += stepAB {
			for d := 0; d <= 9; d += c.N(4, 3) {
				for order := 0; order < 3; order++ {
					b := &topoB{}
					for i := 0; i < a; i++ {
						b.mw(0)
					}
					b.group(0)
					b.group(1)
					blocks := [][2]int{{1, bb}, {2, d}, {0, 1}}
					for k := 0; k < 3; k++ {
						bl := blocks[(k+order)%3]
						for i := 0; i < bl[1]; i++ {
							b.mw(bl[0])
						}
					}
					for o := 0; o < 3; o++ {
						b.route(o)
					}
					count++
					runTopo(c, m, &topoCase{Steps: b.steps}, true)
				}
			}
		}
	}
	c.Hit("topo:complete-cases")
	c.HitN("topo:complete-cases", count-1)
	for i := 0; i < c.N(120, 4000); i++ {
		var steps []tstep
		parents := []int{-1}
		depth := []int{0}
		nsteps := c.Rand.Range(6, 34)
		for k := 0; k < nsteps; k++ {
			o := c.Rand.Range(0, len(parents)-1)
			r := c.Rand.Range(0, 99)
			switch {
			case r < 14 && len(parents) < 4 && depth[o] < 2:
				steps = append(steps, tstep{K: "group", O: o})
				parents = append(parents, o)
				depth = append(depth, depth[o]+1)
			case r < 30:
				steps = append(steps, tstep{K: "route", O: o})
			default:
				steps = append(steps, tstep{K: "mw", O: o, P: vh.Pick(c.Rand, []int{-1, 0, 0, 1, 5})})
			}
		}
		for o := range parents {
			steps = append(steps, tstep{K: "route", O: o})
		}
		runTopo(c, m, &topoCase{Steps: steps}, true)
	}
}
