// Package c13: correspondence + violation search for C13 (HTTP response
// commits once; middleware order). The real bufferedWriter is driven through
// the script-level API ($res->status()…) served in-process through the
// server's ServeMux; the Lean model `vm_c13` and an independent Go
// re-implementation of the commit-once reference are the two comparands.
package c13

import (
	"encoding/json"
	"fmt"
	"io"
	"log"
	nethttp "net/http"
	"net/http/httptest"
	"sort"
	"strconv"
	"strings"
	"time"

	"verif/harness/vh"
)

func init() { vh.Register("C13", Run) }

type op struct {
	Kind string `json:"k"`
	A    string `json:"a,omitempty"`
	B    string `json:"b,omitempty"`
	C    int    `json:"c,omitempty"` // status code; 0 = omitted optional
}

var kinds = []string{"status", "header", "headerCT", "cookie", "write", "json", "html", "htmlS", "redirect", "nocontent", "writeheader"}

func mkOp(kind string, r *vh.Rand) op {
	switch kind {
	case "status":
		return op{Kind: "status", C: vh.Pick(r, []int{201, 404, 500})}
	case "header":
		return op{Kind: "header", A: vh.Pick(r, []string{"X-A", "X-B"}), B: vh.Pick(r, []string{"1", "2"})}
	case "headerCT":
		return op{Kind: "header", A: "Content-Type", B: "text/plain"}
	case "cookie":
		return op{Kind: "cookie", A: vh.Pick(r, []string{"a", "b"}), B: vh.Pick(r, []string{"1", "2"})}
	case "write":
		return op{Kind: "write", A: vh.Pick(r, []string{"a", "b", "", "cc"})}
	case "json":
		return op{Kind: "json", A: vh.Pick(r, []string{"[1]", "[2,3]"})}
	case "html":
		return op{Kind: "html", A: vh.Pick(r, []string{"h", "<p>"})}
	case "htmlS":
		return op{Kind: "html", A: "h", C: vh.Pick(r, []int{404, 201})}
	case "redirect":
		if r.Bool() {
			return op{Kind: "redirect", A: "/u"}
		}
		return op{Kind: "redirect", A: "/v", C: 301}
	case "nocontent":
		if r.Bool() {
			return op{Kind: "nocontent"}
		}
		return op{Kind: "nocontent", C: 205}
	case "writeheader":
		return op{Kind: "writeheader", C: vh.Pick(r, []int{202, 500})}
	}
	panic("kind")
}

func (o op) script() string {
	q := func(s string) string { return "'" + s + "'" }
	switch o.Kind {
	case "status":
		return fmt.Sprintf("$res->status(%d);", o.C)
	case "header":
		return fmt.Sprintf("$res->header(%s, %s);", q(o.A), q(o.B))
	case "cookie":
		return fmt.Sprintf("$res->cookie(%s, %s, []);", q(o.A), q(o.B))
	case "write":
		return fmt.Sprintf("$res->write(%s);", q(o.A))
	case "json":
		return fmt.Sprintf("$res->json(%s);", o.A)
	case "html":
		if o.C == 0 {
			return fmt.Sprintf("$res->html(%s);", q(o.A))
		}
		return fmt.Sprintf("$res->html(%s, %d);", q(o.A), o.C)
	case "redirect":
		if o.C == 0 {
			return fmt.Sprintf("$res->redirect(%s);", q(o.A))
		}
		return fmt.Sprintf("$res->redirect(%s, %d);", q(o.A), o.C)
	case "nocontent":
		if o.C == 0 {
			return "$res->noContent();"
		}
		return fmt.Sprintf("$res->noContent(%d);", o.C)
	case "writeheader":
		return fmt.Sprintf("$res->writeHeader(%d);", o.C)
	}
	return ""
}

// model line syntax (defaults of omitted optionals resolved as documented)
func (o op) model() string {
	switch o.Kind {
	case "status":
		return fmt.Sprintf("status %d", o.C)
	case "header":
		return fmt.Sprintf("header %s %s", o.A, o.B)
	case "cookie":
		return fmt.Sprintf("cookie %s=%s", o.A, o.B)
	case "write":
		if o.A == "" {
			return "write"
		}
		return "write " + o.A
	case "json":
		return "json " + o.A
	case "html":
		if o.C == 0 {
			return "html " + o.A + " -"
		}
		return fmt.Sprintf("html %s %d", o.A, o.C)
	case "redirect":
		c := o.C
		if c == 0 {
			c = 302
		}
		return fmt.Sprintf("redirect %s %d", o.A, c)
	case "nocontent":
		c := o.C
		if c == 0 {
			c = 204
		}
		return fmt.Sprintf("nocontent %d", c)
	case "writeheader":
		return fmt.Sprintf("writeheader %d", o.C)
	}
	return ""
}

func modelLine(ops []op) string {
	var p []string
	for _, o := range ops {
		p = append(p, o.model())
	}
	return "resp\t" + strings.Join(p, "|")
}

// ------------------------------------------------------------ Go reference (commit-once)

type hdr map[string][]string

func canon(status, commits int, h map[string][]string, body string) string {
	var hs []string
	for k, vs := range h {
		hs = append(hs, k+":"+strings.Join(vs, ","))
	}
	sort.Strings(hs)
	return fmt.Sprintf("status=%d commits=%d hdr=%s body=%s", status, commits, strings.Join(hs, ";"), body)
}

// goSpec is written independently of the Lean model: a single pass that
// freezes status and headers at the first committing operation.
func goSpec(ops []op) string {
	st, cm, h, body := specOf(ops)
	return canon(st, cm, h, body)
}

// specOf: (status, commits, headers at the commit, body) of the commit-once reference.
func specOf(ops []op) (int, int, hdr, string) {
	h := hdr{}
	status, statusSet := 200, false
	frozen := false
	var fStatus int
	var fHdr hdr
	body := ""
	freeze := func() {
		if !frozen {
			frozen = true
			fStatus = status
			fHdr = hdr{}
			for k, v := range h {
				fHdr[k] = append([]string{}, v...)
			}
		}
	}
	setStatus := func(c int) {
		if !frozen {
			status, statusSet = c, true
		}
	}
	for _, o := range ops {
		switch o.Kind {
		case "status":
			setStatus(o.C)
		case "header":
			h[o.A] = []string{o.B}
		case "cookie":
			h["Set-Cookie"] = append(h["Set-Cookie"], o.A+"="+o.B)
		case "write":
			freeze()
			body += o.A
		case "json":
			h["Content-Type"] = []string{"application/json; charset=utf-8"}
			freeze()
			body += o.A
		case "html":
			if o.C != 0 {
				setStatus(o.C)
			}
			h["Content-Type"] = []string{"text/html; charset=utf-8"}
			freeze()
			body += o.A
		case "redirect":
			h["Location"] = []string{o.A}
			c := o.C
			if c == 0 {
				c = 302
			}
			setStatus(c)
			freeze()
		case "nocontent":
			c := o.C
			if c == 0 {
				c = 204
			}
			setStatus(c)
			freeze()
		case "writeheader":
			setStatus(o.C)
			freeze()
		}
	}
	if frozen {
		return fStatus, 1, fHdr, body
	}
	if statusSet {
		return status, 1, h, body
	}
	return 200, 0, h, body
}

// judge decides what a difference between the recorder's view and the reference means. The property
// speaks of the status, of every header SET BY THE SCRIPT before the commit, of the body and of the
// number of commits; a header the implementation adds on its own is a difference from the model
// (a correspondence mismatch), not a violation — unless it is a Content-Length that contradicts the
// body the handler goes on to write: the connection then rejects the later writes and the client
// does not receive the concatenation of all body writes.
func judge(c *vh.Ctx, ops []op, rw *vh.CountingRW, pan any) {
	cas := map[string]any{"kind": "resp", "ops": ops}
	wSt, wCm, wH, wBody := specOf(ops)
	want := canon(wSt, wCm, wH, wBody)
	if pan != nil {
		c.Violation("resp:panic", fmt.Sprintf("handler panicked: %v (reference: %q)", pan, want), cas)
		return
	}
	h := rw.Snap
	if h == nil {
		h = rw.Header()
	}
	impl := canon(rw.Code, rw.Commits, h, rw.Body.String())
	if impl == want {
		return
	}
	bad := func(field, what string) {
		c.Violation("resp:"+field, fmt.Sprintf("response differs from commit-once reference (%s): got %q want %q", what, impl, want), cas)
	}
	switch {
	case rw.Code != wSt:
		bad("status", "status")
		return
	case rw.Commits != wCm:
		bad("commits", "header commits on the underlying writer")
		return
	case rw.Body.String() != wBody:
		bad("body", "body")
		return
	}
	for k, vs := range wH {
		if strings.Join(h[k], ",") != strings.Join(vs, ",") {
			bad("hdr", "header "+k+" set before the commit")
			return
		}
	}
	for k, vs := range h {
		if _, ok := wH[k]; ok {
			continue
		}
		if k == "Content-Length" {
			if n, err := strconv.Atoi(strings.Join(vs, ",")); err != nil || n != len(wBody) {
				c.Violation("resp:content-length-contradicts-body", fmt.Sprintf("the committed header block declares Content-Length %s, the handler's body writes add up to %d bytes (%q): a connection rejects the writes past the declared length: got %q want %q", strings.Join(vs, ","), len(wBody), wBody, impl, want), cas)
				return
			}
		}
		c.Mismatch(cas, impl, want, "header "+k+" not set by the script and not in the reference")
		return
	}
}

// ------------------------------------------------------------ implementation side

func serverScript(cases [][]op) string {
	var sb strings.Builder
	sb.WriteString("<?php\nuse Net\\Http\\Server;\n$server = new Server('127.0.0.1', 0);\n")
	for i, ops := range cases {
		fmt.Fprintf(&sb, "$server->get('/c%d', function ($req, $res) {\n", i)
		for _, o := range ops {
			sb.WriteString("  " + o.script() + "\n")
		}
		sb.WriteString("});\n")
	}
	sb.WriteString("verif_expose($server);\n")
	return sb.String()
}

func observe(rw *vh.CountingRW) string {
	h := rw.Snap
	if h == nil {
		h = rw.Header()
	}
	return canon(rw.Code, rw.Commits, h, rw.Body.String())
}

func nontrivial(ops []op) bool {
	// a committing operation and at least one status/header operation
	commit, other := false, false
	for _, o := range ops {
		switch o.Kind {
		case "status", "header", "cookie":
			other = true
		default:
			commit = true
		}
	}
	return commit && other
}

func firstDiffField(a, b string) string {
	fa, fb := strings.SplitN(a, " ", 4), strings.SplitN(b, " ", 4)
	for i := range fa {
		if i < len(fb) && fa[i] != fb[i] {
			return strings.SplitN(fa[i], "=", 2)[0]
		}
	}
	return "shape"
}

func runBatch(c *vh.Ctx, m *vh.Model, batch [][]op) {
	if len(batch) == 0 {
		return
	}
	env, o := vh.NewHTTPEnv(serverScript(batch))
	if o.Kind != "ok" || env.Mux == nil {
		c.Mismatch(batch[0], o.String(), "", "server script did not run")
		return
	}
	var lines []string
	for _, ops := range batch {
		lines = append(lines, modelLine(ops))
	}
	var mres []string
	if m != nil {
		var err error
		mres, err = m.AskBatch(lines)
		if err != nil {
			c.Note("model failed: %v", err)
			mres = nil
		}
	}
	for i, ops := range batch {
		rw, pan := env.Do("GET", fmt.Sprintf("/c%d", i))
		impl := observe(rw)
		if pan != nil {
			impl = fmt.Sprintf("panic: %v", pan)
		}
		key := lines[i]
		c.Eval(key, nontrivial(ops))
		c.HitN("len="+fmt.Sprint(len(ops)), 1)
		for _, o := range ops {
			c.Hit("op:" + o.Kind)
		}
		c.SampleSome(map[string]any{"ops": lines[i], "impl": impl}, 997)
		judge(c, ops, rw, pan)
		if mres != nil && i < len(mres) && mres[i] != impl {
			c.Mismatch(map[string]any{"kind": "resp", "ops": ops}, impl, mres[i], "bufferedWriter vs Model.Resp")
		}
	}
	every := 1
	if len(batch) > 1 && c.Tier != "thorough" {
		every = 2
	}
	runClient(c, env, batch, every)
}

// ------------------------------------------------------------ client view (real connection)

// runClient serves the same handlers over a real loopback connection and judges what an HTTP client
// receives: the property's own words ("the client receives …"). A recorder accepts anything; a
// connection enforces the committed header block (a declared Content-Length, a status that allows
// no body), so a handler that breaks its own commit shows here as a truncated or missing response.
func runClient(c *vh.Ctx, env *vh.HTTPEnv, batch [][]op, every int) {
	srv := httptest.NewUnstartedServer(env.Mux)
	srv.Config.ErrorLog = log.New(io.Discard, "", 0)
	srv.Start()
	defer srv.Close()
	cl := &nethttp.Client{Timeout: 10 * time.Second, CheckRedirect: func(*nethttp.Request, []*nethttp.Request) error { return nethttp.ErrUseLastResponse }}
	for i, ops := range batch {
		if every > 1 && (i+len(ops))%every != 0 {
			continue
		}
		cas := map[string]any{"kind": "client", "ops": ops}
		wSt, _, wH, wBody := specOf(ops)
		if wSt == 204 || wSt == 304 {
			// a status that allows no body: the client can receive no body bytes, but it still
			// receives the committed status and headers (later calls cannot alter them)
			wBody = ""
		}
		c.Hit("client:request")
		resp, err := cl.Get(fmt.Sprintf("%s/c%d", srv.URL, i))
		if err != nil {
			c.Violation("client:no-response", fmt.Sprintf("an HTTP client gets no response (%v); the reference gives status %d, body %q", shortErr(err), wSt, wBody), cas)
			continue
		}
		body, rerr := io.ReadAll(resp.Body)
		resp.Body.Close()
		switch {
		case resp.StatusCode != wSt:
			c.Violation("client:status", fmt.Sprintf("an HTTP client receives status %d, the reference gives %d", resp.StatusCode, wSt), cas)
			continue
		case string(body) != wBody || rerr != nil:
			c.Violation("client:body", fmt.Sprintf("an HTTP client receives body %q (read error: %v), the concatenation of all body writes is %q", body, rerr, wBody), cas)
			continue
		}
		for k, vs := range wH {
			if strings.Join(resp.Header.Values(k), ",") != strings.Join(vs, ",") {
				c.Violation("client:hdr", fmt.Sprintf("an HTTP client receives header %s = %q, set before the commit: %q", k, resp.Header.Values(k), vs), cas)
				break
			}
		}
	}
}

func shortErr(err error) string {
	s := err.Error()
	if i := strings.LastIndex(s, ": "); i >= 0 {
		return s[i+2:]
	}
	return s
}

// ------------------------------------------------------------ middleware

type mwEntry struct {
	Prio    int  `json:"p"`
	Omit    bool `json:"omit,omitempty"` // priority argument omitted (documented default 0)
	Calls   bool `json:"calls"`
	Class   bool `json:"class,omitempty"` // class-based middleware (handle method)
}

func mwScript(es []mwEntry) string {
	var sb strings.Builder
	sb.WriteString("<?php\nuse Net\\Http\\Server;\n")
	for i, e := range es {
		if e.Class {
			fmt.Fprintf(&sb, "class Mw%d { public function handle($request, $response, $next) { verif_trace('pre%d'); ", i, i)
			if e.Calls {
				sb.WriteString("$next($request, $response); ")
			}
			fmt.Fprintf(&sb, "verif_trace('post%d'); } }\n", i)
		}
	}
	sb.WriteString("$server = new Server('127.0.0.1', 0);\n")
	for i, e := range es {
		arg := ""
		if !e.Omit {
			arg = fmt.Sprintf(", %d", e.Prio)
		}
		if e.Class {
			fmt.Fprintf(&sb, "$server->middleware(new Mw%d()%s);\n", i, arg)
			continue
		}
		fmt.Fprintf(&sb, "$server->middleware(function ($request, $response, $next) {\n  verif_trace('pre%d');\n", i)
		if e.Calls {
			sb.WriteString("  $next($request, $response);\n")
		}
		fmt.Fprintf(&sb, "  verif_trace('post%d');\n}%s);\n", i, arg)
	}
	sb.WriteString("$server->get('/t', function ($req, $res) { verif_trace('final'); $res->write('x'); });\nverif_expose($server);\n")
	return sb.String()
}

func mwModelLine(es []mwEntry) string {
	var p []string
	for i, e := range es {
		pr := e.Prio
		if e.Omit {
			pr = 0
		}
		cl := 0
		if e.Calls {
			cl = 1
		}
		p = append(p, fmt.Sprintf("%d:%d:%d", pr, i, cl))
	}
	return "mw\t" + strings.Join(p, ",")
}

// independent Go reference for the documented order
func mwSpec(es []mwEntry) string {
	type ie struct{ p, i int; calls bool }
	var l []ie
	for i, e := range es {
		p := e.Prio
		if e.Omit {
			p = 0
		}
		l = append(l, ie{p, i, e.Calls})
	}
	// ascending priority, ties by registration index
	sort.Slice(l, func(a, b int) bool {
		if l[a].p != l[b].p {
			return l[a].p < l[b].p
		}
		return l[a].i < l[b].i
	})
	var pre, post []string
	reached := true
	for _, e := range l {
		pre = append(pre, fmt.Sprintf("pre%d", e.i))
		post = append([]string{fmt.Sprintf("post%d", e.i)}, post...)
		if !e.calls {
			reached = false
			break
		}
	}
	if reached {
		pre = append(pre, "final")
	}
	return strings.Join(append(pre, post...), " ")
}

func runMw(c *vh.Ctx, m *vh.Model, es []mwEntry) {
	env, o := vh.NewHTTPEnv(mwScript(es))
	cas := map[string]any{"kind": "mw", "entries": es}
	if o.Kind != "ok" || env.Mux == nil {
		c.Mismatch(cas, o.String(), "", "middleware script did not run")
		return
	}
	_, pan := env.Do("GET", "/t")
	impl := strings.Join(env.Trace, " ")
	if pan != nil {
		impl = fmt.Sprintf("panic: %v", pan)
	}
	line := mwModelLine(es)
	distinctPrio := map[int]bool{}
	for _, e := range es {
		distinctPrio[e.Prio] = true
	}
	c.Eval(line+fmt.Sprint(es), len(es) >= 2)
	c.Hit(fmt.Sprintf("mw:len=%d", len(es)))
	c.SampleSome(map[string]any{"mw": line, "impl": impl}, 211)
	want := mwSpec(es)
	if impl != want {
		c.Violation("mw:order", fmt.Sprintf("middleware trace %q, documented order gives %q", impl, want), cas)
	}
	if m != nil {
		got, err := m.Ask(line)
		if err == nil && got != impl {
			c.Mismatch(cas, impl, got, "applyMiddlewares vs Model.Mw")
		}
	}
}

// ------------------------------------------------------------ runner

func Run(c *vh.Ctx) {
	var m *vh.Model
	if c.ModelPath != "" {
		var err error
		m, err = vh.StartModel(c.ModelPath)
		if err != nil {
			c.Note("cannot start model: %v", err)
			m = nil
		} else {
			defer m.Close()
			c.Res.ModelUsed = true
		}
	}
	if len(c.ReplayRaw) > 0 {
		var rc struct {
			Kind    string    `json:"kind"`
			Ops     []op      `json:"ops"`
			Entries []mwEntry `json:"entries"`
		}
		if err := json.Unmarshal(c.ReplayRaw, &rc); err != nil {
			c.Note("bad replay: %v", err)
			return
		}
		if rc.Kind == "mw" {
			runMw(c, m, rc.Entries)
		} else {
			runBatch(c, m, [][]op{rc.Ops})
		}
		return
	}
	c.Res.Rule = "response: every sequence of operation kinds up to length L over the 11-kind alphabet (parameters drawn from small pools by the seeded PRNG), plus seeded longer sequences; non-trivial = contains a committing operation and at least one status/header/cookie operation; distinct = distinct concrete op sequence. middleware: every priority stack up to length 5 over {-1,0,1,5} (+ omitted priority, short-circuit and class-based variants seeded); non-trivial = at least 2 entries"
	maxLen := c.N(4, 5)
	var batch [][]op
	flush := func() {
		runBatch(c, m, batch)
		batch = batch[:0]
	}
	var rec func(prefix []string)
	rec = func(prefix []string) {
		ops := make([]op, len(prefix))
		for i, k := range prefix {
			ops[i] = mkOp(k, c.Rand)
		}
		batch = append(batch, ops)
		if len(batch) >= 400 {
			flush()
		}
		if len(prefix) == maxLen {
			return
		}
		for _, k := range kinds {
			rec(append(append([]string{}, prefix...), k))
		}
	}
	rec(nil)
	flush()
	c.Res.Exhaustive = true
	c.Res.ExhaustiveWhat = fmt.Sprintf("all operation-kind sequences of length <= %d over 11 kinds; all middleware priority stacks of length <= 5 over {-1,0,1,5}", maxLen)
	// seeded longer sequences
	for i := 0; i < c.N(3000, 60000); i++ {
		n := c.Rand.Range(maxLen+1, 12)
		ops := make([]op, n)
		for j := range ops {
			ops[j] = mkOp(vh.Pick(c.Rand, kinds), c.Rand)
		}
		batch = append(batch, ops)
		if len(batch) >= 400 {
			flush()
		}
	}
	flush()
	// middleware stacks
	prios := []int{-1, 0, 1, 5}
	var recm func(es []mwEntry)
	recm = func(es []mwEntry) {
		runMw(c, m, es)
		if len(es) == 5 {
			return
		}
		for _, p := range prios {
			recm(append(append([]mwEntry{}, es...), mwEntry{Prio: p, Calls: true}))
		}
	}
	recm(nil)
	for i := 0; i < c.N(300, 5000); i++ {
		n := c.Rand.Range(1, 5)
		es := make([]mwEntry, n)
		for j := range es {
			es[j] = mwEntry{Prio: vh.Pick(c.Rand, prios), Calls: !c.Rand.Chance(15), Class: c.Rand.Chance(25)}
			if es[j].Prio == 0 && c.Rand.Bool() {
				es[j].Omit = true
			}
		}
		runMw(c, m, es)
	}
	if m != nil {
		c.Res.ModelLines = m.Lines
	}
}
