// Package c13: correspondence + violation search for C13 (HTTP response
// commits once; middleware order). The real bufferedWriter is driven through
// the script-level API ($res->status()…) served in-process through the
// server's ServeMux; the Lean model `vm_c13` and an independent Go
// re-implementation of the commit-once reference are the two comparands.
package c13

import (
	"encoding/json"
	"fmt"
	"io"
	"log"
	nethttp "net/http"
	"net/http/httptest"
	"sort"
	"strconv"
	"strings"
	"time"

	"verif/harness/vh"
)

func init() { vh.Register("C13", Run) }

type op struct {
	Kind string `json:"k"`
	A    string `json:"a,omitempty"`
	B    string `json:"b,omitempty"`
	C    int    `json:"c,omitempty"` // status code; 0 = omitted optional
}

var kinds = []string{"status", "header", "headerCT", "cookie", "write", "json", "html", "htmlS", "redirect", "nocontent", "writeheader"}

func mkOp(kind string, r *vh.Rand) op {
	switch kind {
	case "status":
		return op{Kind: "status", C: vh.Pick(r, []int{201, 404, 500, 204, 304, 101})}
	case "header":
		return op{Kind: "header", A: vh.Pick(r, []string{"X-A", "X-B"}), B: vh.Pick(r, []string{"1", "2"})}
	case "headerCT":
		return op{Kind: "header", A: "Content-Type", B: "text/plain"}
	case "cookie":
		return op{Kind: "cookie", A: vh.Pick(r, []string{"a", "b"}), B: vh.Pick(r, []string{"1", "2"})}
	case "write":
		return op{Kind: "write", A: vh.Pick(r, []string{"a", "b", "", "cc"})}
	case "json":
		return op{Kind: "json", A: vh.Pick(r, []string{"[1]", "[2,3]"})}
	case "html":
		return op{Kind: "html", A: vh.Pick(r, []string{"h", "<p>"})}
	case "htmlS":
		return op{Kind: "html", A: "h", C: vh.Pick(r, []int{404, 201, 204})}
	case "redirect":
		switch r.Intn(3) {
		case 0:
			return op{Kind: "redirect", A: "/u"}
		case 1:
			return op{Kind: "redirect", A: "/v", C: 301}
		}
		return op{Kind: "redirect", A: "/v", C: 304}
	case "nocontent":
		if r.Bool() {
			return op{Kind: "nocontent"}
		}
		return op{Kind: "nocontent", C: vh.Pick(r, []int{205, 200, 304})}
	case "writeheader":
		return op{Kind: "writeheader", C: vh.Pick(r, []int{202, 500, 200, 204, 304, 101})}
	}
	panic("kind")
}

func (o op) script() string {
	q := func(s string) string { return "'" + s + "'" }
	switch o.Kind {
	case "status":
		return fmt.Sprintf("$res->status(%d);", o.C)
	case "header":
		return fmt.Sprintf("$res->header(%s, %s);", q(o.A), q(o.B))
	case "cookie":
		return fmt.Sprintf("$res->cookie(%s, %s, []);", q(o.A), q(o.B))
	case "write":
		return fmt.Sprintf("$res->write(%s);", q(o.A))
	case "json":
		return fmt.Sprintf("$res->json(%s);", o.A)
	case "html":
		if o.C == 0 {
			return fmt.Sprintf("$res->html(%s);", q(o.A))
		}
		return fmt.Sprintf("$res->html(%s, %d);", q(o.A), o.C)
	case "redirect":
		if o.C == 0 {
			return fmt.Sprintf("$res->redirect(%s);", q(o.A))
		}
		return fmt.Sprintf("$res->redirect(%s, %d);", q(o.A), o.C)
	case "nocontent":
		if o.C == 0 {
			return "$res->noContent();"
		}
		return fmt.Sprintf("$res->noContent(%d);", o.C)
	case "writeheader":
		return fmt.Sprintf("$res->writeHeader(%d);", o.C)
	}
	return ""
}

// model line syntax (defaults of omitted optionals resolved as documented)
func (o op) model() string {
	switch o.Kind {
	case "status":
		return fmt.Sprintf("status %d", o.C)
	case "header":
		return fmt.Sprintf("header %s %s", o.A, o.B)
	case "cookie":
		return fmt.Sprintf("cookie %s=%s", o.A, o.B)
	case "write":
		if o.A == "" {
			return "write"
		}
		return "write " + o.A
	case "json":
		return "json " + o.A
	case "html":
		if o.C == 0 {
			return "html " + o.A + " -"
		}
		return fmt.Sprintf("html %s %d", o.A, o.C)
	case "redirect":
		c := o.C
		if c == 0 {
			c = 302
		}
		return fmt.Sprintf("redirect %s %d", o.A, c)
	case "nocontent":
		c := o.C
		if c == 0 {
			c = 204
		}
		return fmt.Sprintf("nocontent %d", c)
	case "writeheader":
		return fmt.Sprintf("writeheader %d", o.C)
	}
	return ""
}

func modelLine(ops []op) string {
	var p []string
	for _, o := range ops {
		p = append(p, o.model())
	}
	return "resp\t" + strings.Join(p, "|")
}

// ------------------------------------------------------------ Go reference (commit-once)

type hdr map[string][]string

func canon(status, commits int, h map[string][]string, body string) string {
	var hs []string
	for k, vs := range h {
		hs = append(hs, k+":"+strings.Join(vs, ","))
	}
	sort.Strings(hs)
	return fmt.Sprintf("status=%d commits=%d hdr=%s body=%s", status, commits, strings.Join(hs, ";"), body)
}

// goSpec is written independently of the Lean model: a single pass that
// freezes status and headers at the first committing operation.
func goSpec(ops []op) string {
	st, cm, h, body := specOf(ops)
	return canon(st, cm, h, body)
}

// specOf: (status, commits, headers at the commit, body) of the commit-once reference.
func specOf(ops []op) (int, int, hdr, string) {
	h := hdr{}
	status, statusSet := 200, false
	frozen := false
	var fStatus int
	var fHdr hdr
	body := ""
	freeze := func() {
		if !frozen {
			frozen = true
			fStatus = status
			fHdr = hdr{}
			for k, v := range h {
				fHdr[k] = append([]string{}, v...)
			}
		}
	}
	setStatus := func(c int) {
		if !frozen {
			status, statusSet = c, true
		}
	}
	for _, o := range ops {
		switch o.Kind {
		case "status":
			setStatus(o.C)
		case "header":
			h[o.A] = []string{o.B}
		case "cookie":
			h["Set-Cookie"] = append(h["Set-Cookie"], o.A+"="+o.B)
		case "write":
			freeze()
			body += o.A
		case "json":
			h["Content-Type"] = []string{"application/json; charset=utf-8"}
			freeze()
			body += o.A
		case "html":
			if o.C != 0 {
				setStatus(o.C)
			}
			h["Content-Type"] = []string{"text/html; charset=utf-8"}
			freeze()
			body += o.A
		case "redirect":
			h["Location"] = []string{o.A}
			c := o.C
			if c == 0 {
				c = 302
			}
			setStatus(c)
			freeze()
		case "nocontent":
			c := o.C
			if c == 0 {
				c = 204
			}
			setStatus(c)
			freeze()
		case "writeheader":
			setStatus(o.C)
			freeze()
		case "ret":
			// layered requests (layers.go): a layer returns. Every layer is a handler: a status that is
			// pending when it returns is committed there, exactly as at the end of a single handler.
			if !frozen && statusSet {
				freeze()
			}
		}
	}
	if frozen {
		return fStatus, 1, fHdr, body
	}
	if statusSet {
		return status, 1, h, body
	}
	return 200, 0, h, body
}

// noBodyStatus: RFC 9110 — a 1xx, 204 or 304 response has no content (net/http refuses the body bytes).
// Written here independently of the implementation and of the Lean model.
func noBodyStatus(code int) bool { return (code >= 100 && code < 200) || code == 204 || code == 304 }

// interimStatus: net/http sends a 1xx other than 101 as an interim response and does not commit; which
// final status follows is outside the commit-once reference (see notes/C13.md), so the client stream
// does not judge such a sequence. The recorder stream does (a recorder treats every code as final).
func interimStatus(code int) bool { return code >= 100 && code < 200 && code != 101 }

// judge decides what a difference between the recorder's view and the reference means. The property
// speaks of the status, of every header SET BY THE SCRIPT before the commit, of the body and of the
// number of commits; a header the implementation adds on its own is a difference from the model
// (a correspondence mismatch), not a violation — unless it is a Content-Length that contradicts the
// body the handler goes on to write: the connection then rejects the later writes and the client
// does not receive the concatenation of all body writes.
func judge(c *vh.Ctx, cas map[string]any, ops []op, rw *vh.CountingRW, pan any) {
	wSt, wCm, wH, wBody := specOf(ops)
	want := canon(wSt, wCm, wH, wBody)
	if pan != nil {
		c.Violation("resp:panic", fmt.Sprintf("handler panicked: %v (reference: %q)", pan, want), cas)
		return
	}
	h := rw.Snap
	if h == nil {
		h = rw.Header()
	}
	impl := canon(rw.Code, rw.Commits, h, rw.Body.String())
	if impl == want {
		return
	}
	bad := func(field, what string) {
		c.Violation("resp:"+field, fmt.Sprintf("response differs from commit-once reference (%s): got %q want %q", what, impl, want), cas)
	}
	switch {
	case rw.Code != wSt:
		bad("status", "status")
		return
	case rw.Commits != wCm:
		bad("commits", "header commits on the underlying writer")
		return
	case rw.Body.String() != wBody:
		if noBodyStatus(wSt) {
			// the committed status cannot carry a body: no client receives these bytes whatever the
			// recorder holds, so a writer that drops them itself is as good — a difference from the
			// model, not a violation. (Whether a body reaches the client under a status that DOES allow
			// one is judged above/below and by the client stream.)
			c.Mismatch(cas, impl, want, fmt.Sprintf("recorder body differs under committed status %d, which carries no body", wSt))
			return
		}
		bad("body", "body")
		return
	}
	for k, vs := range wH {
		if strings.Join(h[k], ",") != strings.Join(vs, ",") {
			bad("hdr", "header "+k+" set before the commit")
			return
		}
	}
	for k, vs := range h {
		if _, ok := wH[k]; ok {
			continue
		}
		if k == "Content-Length" && !noBodyStatus(wSt) {
			if n, err := strconv.Atoi(strings.Join(vs, ",")); err != nil || n != len(wBody) {
				c.Violation("resp:content-length-contradicts-body", fmt.Sprintf("the committed header block declares Content-Length %s, the handler's body writes add up to %d bytes (%q): a connection rejects the writes past the declared length: got %q want %q", strings.Join(vs, ","), len(wBody), wBody, impl, want), cas)
				return
			}
		}
		c.Mismatch(cas, impl, want, "header "+k+" not set by the script and not in the reference")
		return
	}
}

// ------------------------------------------------------------ implementation side

// tcase: one handler run. At < 0: all operations in the route handler. At >= 0 (layer-split stream):
// Ops[:At] run in a server middleware before it calls $next, Ops[At:] in the route handler — the same
// operation sequence on the same response, spread over two layers of beginResponse/commitPending.
type tcase struct {
	Ops []op
	At  int
	Lay *layCase // layered stream (layers.go): Ops is then the event sequence in execution order, with "ret" marks
}

// line: the model question for this case; view "resp" (recorder) or "conn" (connection).
func (t tcase) line(view string) string {
	if t.Lay != nil {
		return t.Lay.modelLine(view)
	}
	return view + strings.TrimPrefix(modelLine(t.Ops), "resp")
}

func (t tcase) cas(kind string) map[string]any {
	if t.Lay != nil {
		return t.Lay.cas()
	}
	if t.At >= 0 {
		return map[string]any{"kind": "split", "at": t.At, "ops": t.Ops}
	}
	return map[string]any{"kind": kind, "ops": t.Ops}
}

func plain(batch [][]op) []tcase {
	out := make([]tcase, len(batch))
	for i, ops := range batch {
		out[i] = tcase{Ops: ops, At: -1}
	}
	return out
}

// serverScript: one route per case; `pre` (may be empty) runs in a middleware in front of every route.
func serverScript(pre []op, cases [][]op) string {
	var sb strings.Builder
	sb.WriteString("<?php\nuse Net\\Http\\Server;\n$server = new Server('127.0.0.1', 0);\n")
	if pre != nil {
		sb.WriteString("$server->middleware(function ($req, $res, $next) {\n")
		for _, o := range pre {
			sb.WriteString("  " + o.script() + "\n")
		}
		sb.WriteString("  $next($req, $res);\n});\n")
	}
	for i, ops := range cases {
		fmt.Fprintf(&sb, "$server->get('/c%d', function ($req, $res) {\n", i)
		for _, o := range ops {
			sb.WriteString("  " + o.script() + "\n")
		}
		sb.WriteString("});\n")
	}
	sb.WriteString("verif_expose($server);\n")
	return sb.String()
}

func observe(rw *vh.CountingRW) string {
	h := rw.Snap
	if h == nil {
		h = rw.Header()
	}
	return canon(rw.Code, rw.Commits, h, rw.Body.String())
}

func nontrivial(ops []op) bool {
	// a committing operation and at least one status/header operation
	commit, other := false, false
	for _, o := range ops {
		switch o.Kind {
		case "status", "header", "cookie":
			other = true
		case "ret":
		default:
			commit = true
		}
	}
	return commit && other
}

func firstDiffField(a, b string) string {
	fa, fb := strings.SplitN(a, " ", 4), strings.SplitN(b, " ", 4)
	for i := range fa {
		if i < len(fb) && fa[i] != fb[i] {
			return strings.SplitN(fa[i], "=", 2)[0]
		}
	}
	return "shape"
}

func runBatch(c *vh.Ctx, m *vh.Model, batch [][]op) {
	if len(batch) == 0 {
		return
	}
	every := 1
	if len(batch) > 1 && c.Tier != "thorough" {
		every = 2
	}
	runCases(c, m, nil, plain(batch), every)
}

// runSplit: the layer-split stream — `pre` in a middleware, each suffix in its own route handler.
func runSplit(c *vh.Ctx, m *vh.Model, pre []op, suffixes [][]op) {
	cases := make([]tcase, len(suffixes))
	for i, sfx := range suffixes {
		cases[i] = tcase{Ops: append(append([]op{}, pre...), sfx...), At: len(pre)}
	}
	runCases(c, m, pre, cases, 1)
}

// runCases serves every case in-process into a counting recorder (judged against the commit-once
// reference and compared with Model.Resp.run), then over a real connection (every `every`-th case).
func runCases(c *vh.Ctx, m *vh.Model, pre []op, cases []tcase, every int) {
	if len(cases) == 0 {
		return
	}
	handlers := make([][]op, len(cases))
	for i, t := range cases {
		handlers[i] = t.Ops
		if t.At >= 0 {
			handlers[i] = t.Ops[t.At:]
		}
	}
	env, o := vh.NewHTTPEnv(serverScript(pre, handlers))
	if o.Kind != "ok" || env.Mux == nil {
		c.Mismatch(cases[0].cas("resp"), o.String(), "", "server script did not run")
		return
	}
	serveCases(c, m, env, cases, every)
}

// serveCases: case i is served by route /c<i> of env.
func serveCases(c *vh.Ctx, m *vh.Model, env *vh.HTTPEnv, cases []tcase, every int) {
	var lines []string
	for _, t := range cases {
		lines = append(lines, t.line("resp"))
	}
	var mres []string
	if m != nil {
		var err error
		mres, err = m.AskBatch(lines)
		if err != nil {
			c.Note("model failed: %v", err)
			mres = nil
		}
	}
	for i, t := range cases {
		ops := t.Ops
		rw, pan := env.Do("GET", fmt.Sprintf("/c%d", i))
		impl := observe(rw)
		if pan != nil {
			impl = fmt.Sprintf("panic: %v", pan)
		}
		key := lines[i]
		if t.At >= 0 {
			key = fmt.Sprintf("split%d %s", t.At, key)
			c.Hit("split:case")
		}
		if t.Lay != nil {
			key = t.Lay.key()
			t.Lay.hits(c)
		}
		c.Eval(key, nontrivial(ops))
		c.HitN("len="+fmt.Sprint(len(ops)), 1)
		for _, o := range ops {
			if o.Kind != "ret" {
				c.Hit("op:" + o.Kind)
			}
		}
		if st, _, _, _ := specOf(ops); noBodyStatus(st) {
			c.Hit("committed:no-body-status")
		}
		if replacedNoBody(ops) {
			c.Hit("replaced:no-body-status-before-commit")
		}
		c.SampleSome(map[string]any{"ops": lines[i], "impl": impl}, 997)
		judge(c, t.cas("resp"), ops, rw, pan)
		if mres != nil && i < len(mres) && mres[i] != impl {
			c.Mismatch(t.cas("resp"), impl, mres[i], "bufferedWriter vs Model.Resp")
		}
	}
	runClient(c, m, env, cases, every)
}

// replacedNoBody: a status that carries no body is chosen and, before the commit, replaced by one
// that does (the committed status allows a body) — and a body byte is written. Histogram only.
func replacedNoBody(ops []op) bool {
	st, _, _, body := specOf(ops)
	if noBodyStatus(st) || body == "" {
		return false
	}
	for _, o := range ops {
		switch o.Kind {
		case "write", "json", "html", "redirect", "nocontent", "writeheader":
			if o.Kind == "html" && o.C != 0 && noBodyStatus(o.C) {
				return true
			}
			return false // the commit
		case "status":
			if noBodyStatus(o.C) {
				return true
			}
		}
	}
	return false
}

// ------------------------------------------------------------ client view (real connection)

// runClient serves the same handlers over a real loopback connection and judges what an HTTP client
// receives: the property's own words ("the client receives …"). A recorder accepts anything; a
// connection enforces the committed header block (a declared Content-Length, a status that allows
// no body), so a handler that breaks its own commit shows here as a truncated or missing response.
// The expected body is decided by the COMMITTED status alone (empty iff it carries no body): a status
// chosen earlier and replaced before the commit has no say. The Lean model's connection view
// (`conn` line, Model.Resp.runConn) is compared as well (status and body).
func runClient(c *vh.Ctx, m *vh.Model, env *vh.HTTPEnv, cases []tcase, every int) {
	srv := httptest.NewUnstartedServer(env.Mux)
	srv.Config.ErrorLog = log.New(io.Discard, "", 0)
	srv.Start()
	defer srv.Close()
	cl := &nethttp.Client{Timeout: 10 * time.Second, CheckRedirect: func(*nethttp.Request, []*nethttp.Request) error { return nethttp.ErrUseLastResponse }}
	var idx []int
	var lines []string
	for i, t := range cases {
		if every > 1 && (i+len(t.Ops))%every != 0 {
			continue
		}
		if st, _, _, _ := specOf(t.Ops); interimStatus(st) {
			c.Hit("client:skipped-interim-status")
			continue
		}
		idx = append(idx, i)
		lines = append(lines, t.line("conn"))
	}
	var mres []string
	if m != nil && len(lines) > 0 {
		var err error
		mres, err = m.AskBatch(lines)
		if err != nil {
			c.Note("model failed: %v", err)
			mres = nil
		}
	}
	for j, i := range idx {
		ops := cases[i].Ops
		cas := cases[i].cas("client")
		wSt, _, wH, wBody := specOf(ops)
		if noBodyStatus(wSt) {
			// a status that allows no body: the client can receive no body bytes, but it still
			// receives the committed status and headers (later calls cannot alter them)
			wBody = ""
		}
		c.Hit("client:request")
		resp, err := cl.Get(fmt.Sprintf("%s/c%d", srv.URL, i))
		if err != nil {
			c.Violation("client:no-response", fmt.Sprintf("an HTTP client gets no response (%v); the reference gives status %d, body %q", shortErr(err), wSt, wBody), cas)
			continue
		}
		body, rerr := io.ReadAll(resp.Body)
		resp.Body.Close()
		if mres != nil && j < len(mres) {
			got := fmt.Sprintf("status=%d body=%s", resp.StatusCode, body)
			if mv := statusBody(mres[j]); mv != got {
				c.Mismatch(cas, got, mv, "client over a connection vs Model.Resp.runConn (status, body)")
			}
		}
		switch {
		case resp.StatusCode != wSt:
			c.Violation("client:status", fmt.Sprintf("an HTTP client receives status %d, the reference gives %d", resp.StatusCode, wSt), cas)
			continue
		case string(body) != wBody || rerr != nil:
			c.Violation("client:body", fmt.Sprintf("an HTTP client receives body %q (read error: %v) under the committed status %d, the concatenation of all body writes is %q", body, rerr, wSt, wBody), cas)
			continue
		}
		for k, vs := range wH {
			if wSt == 304 && k == "Content-Type" {
				// net/http's own doing, not the writer's: a 304 goes out without representation
				// metadata (server.go suppressedHeaders: Content-Type, Content-Length,
				// Transfer-Encoding are deleted from the header block of a 304; RFC 9110 §15.4.5).
				// The recorder stream still checks that the writer committed the header.
				c.Hit("client:hdr-suppressed-by-net/http-for-304")
				continue
			}
			if strings.Join(resp.Header.Values(k), ",") != strings.Join(vs, ",") {
				c.Violation("client:hdr", fmt.Sprintf("an HTTP client receives header %s = %q, set before the commit: %q", k, resp.Header.Values(k), vs), cas)
				break
			}
		}
	}
}

// statusBody: "status=<n> body=<b>" out of a model answer "status=<n> commits=… hdr=… body=<b>".
func statusBody(line string) string {
	i := strings.Index(line, " commits=")
	j := strings.LastIndex(line, " body=")
	if !strings.HasPrefix(line, "status=") || i < 0 || j < 0 {
		return line
	}
	return line[:i] + line[j:]
}

func shortErr(err error) string {
	s := err.Error()
	if i := strings.LastIndex(s, ": "); i >= 0 {
		return s[i+2:]
	}
	return s
}

// ------------------------------------------------------------ middleware

type mwEntry struct {
	Prio    int  `json:"p"`
	Omit    bool `json:"omit,omitempty"` // priority argument omitted (documented default 0)
	Calls   bool `json:"calls"`
	Class   bool `json:"class,omitempty"` // class-based middleware (handle method)
}

func mwScript(es []mwEntry) string {
	var sb strings.Builder
	sb.WriteString("<?php\nuse Net\\Http\\Server;\n")
	for i, e := range es {
		if e.Class {
			fmt.Fprintf(&sb, "class Mw%d { public function handle($request, $response, $next) { verif_trace('pre%d'); ", i, i)
			if e.Calls {
				sb.WriteString("$next($request, $response); ")
			}
			fmt.Fprintf(&sb, "verif_trace('post%d'); } }\n", i)
		}
	}
	sb.WriteString("$server = new Server('127.0.0.1', 0);\n")
	for i, e := range es {
		arg := ""
		if !e.Omit {
			arg = fmt.Sprintf(", %d", e.Prio)
		}
		if e.Class {
			fmt.Fprintf(&sb, "$server->middleware(new Mw%d()%s);\n", i, arg)
			continue
		}
		fmt.Fprintf(&sb, "$server->middleware(function ($request, $response, $next) {\n  verif_trace('pre%d');\n", i)
		if e.Calls {
			sb.WriteString("  $next($request, $response);\n")
		}
		fmt.Fprintf(&sb, "  verif_trace('post%d');\n}%s);\n", i, arg)
	}
	sb.WriteString("$server->get('/t', function ($req, $res) { verif_trace('final'); $res->write('x'); });\nverif_expose($server);\n")
	return sb.String()
}

func mwModelLine(es []mwEntry) string {
	var p []string
	for i, e := range es {
		pr := e.Prio
		if e.Omit {
			pr = 0
		}
		cl := 0
		if e.Calls {
			cl = 1
		}
		p = append(p, fmt.Sprintf("%d:%d:%d", pr, i, cl))
	}
	return "mw\t" + strings.Join(p, ",")
}

// independent Go reference for the documented order
func mwSpec(es []mwEntry) string {
	type ie struct{ p, i int; calls bool }
	var l []ie
	for i, e := range es {
		p := e.Prio
		if e.Omit {
			p = 0
		}
		l = append(l, ie{p, i, e.Calls})
	}
	// ascending priority, ties by registration index
	sort.Slice(l, func(a, b int) bool {
		if l[a].p != l[b].p {
			return l[a].p < l[b].p
		}
		return l[a].i < l[b].i
	})
	var pre, post []string
	reached := true
	for _, e := range l {
		pre = append(pre, fmt.Sprintf("pre%d", e.i))
		post = append([]string{fmt.Sprintf("post%d", e.i)}, post...)
		if !e.calls {
			reached = false
			break
		}
	}
	if reached {
		pre = append(pre, "final")
	}
	return strings.Join(append(pre, post...), " ")
}

func runMw(c *vh.Ctx, m *vh.Model, es []mwEntry) {
	env, o := vh.NewHTTPEnv(mwScript(es))
	cas := map[string]any{"kind": "mw", "entries": es}
	if o.Kind != "ok" || env.Mux == nil {
		c.Mismatch(cas, o.String(), "", "middleware script did not run")
		return
	}
	_, pan := env.Do("GET", "/t")
	impl := strings.Join(env.Trace, " ")
	if pan != nil {
		impl = fmt.Sprintf("panic: %v", pan)
	}
	line := mwModelLine(es)
	distinctPrio := map[int]bool{}
	for _, e := range es {
		distinctPrio[e.Prio] = true
	}
	c.Eval(line+fmt.Sprint(es), len(es) >= 2)
	c.Hit(fmt.Sprintf("mw:len=%d", len(es)))
	c.SampleSome(map[string]any{"mw": line, "impl": impl}, 211)
	want := mwSpec(es)
	if impl != want {
		c.Violation("mw:order", fmt.Sprintf("middleware trace %q, documented order gives %q", impl, want), cas)
	}
	if m != nil {
		got, err := m.Ask(line)
		if err == nil && got != impl {
			c.Mismatch(cas, impl, got, "applyMiddlewares vs Model.Mw")
		}
	}
}

// ------------------------------------------------------------ status-class stream

// One representative per class of status code that net/http or the writer can tell apart: carries no
// body (204, 304, 1xx — 101 is the 1xx that is a final status on a connection as well), ordinary
// success / error, redirect. Thorough adds a second representative per class and an interim 1xx
// (judged on the recorder only).
func classCodes(thorough bool) []int {
	if thorough {
		return []int{204, 304, 101, 103, 200, 201, 404, 301, 205}
	}
	return []int{204, 304, 101, 200, 404}
}

// choosers: every operation that carries a status, with every class code.
func choosers(thorough bool) []op {
	var out []op
	for _, code := range classCodes(thorough) {
		out = append(out,
			op{Kind: "status", C: code},
			op{Kind: "writeheader", C: code},
			op{Kind: "redirect", A: "/u", C: code},
			op{Kind: "nocontent", C: code},
			op{Kind: "html", A: "h", C: code})
	}
	return out
}

var bodyTails = [][]op{
	{},
	{{Kind: "write", A: "a"}},
	{{Kind: "json", A: "[1]"}},
	{{Kind: "html", A: "h"}},
	{{Kind: "write", A: "a"}, {Kind: "write", A: "b"}},
}

func cat(parts ...[]op) []op {
	var out []op
	for _, p := range parts {
		out = append(out, p...)
	}
	return out
}

// classStream: P ++ tail and [write] ++ P ++ [write] for every sequence P of 1..depth choosers
// (depth 2; thorough: depth 3 with the single-write tail).
func classStream(thorough bool) [][]op {
	ch := choosers(thorough)
	var ps [][]op
	for _, a := range ch {
		ps = append(ps, []op{a})
		for _, b := range ch {
			ps = append(ps, []op{a, b})
		}
	}
	var out [][]op
	first, last := []op{{Kind: "write", A: "a"}}, []op{{Kind: "write", A: "b"}}
	for _, p := range ps {
		for _, t := range bodyTails {
			out = append(out, cat(p, t))
		}
		out = append(out, cat(first, p, last))
	}
	if thorough {
		for _, a := range ch {
			for _, b := range ch {
				for _, d := range ch {
					out = append(out, []op{a, b, d, {Kind: "write", A: "a"}})
				}
			}
		}
	}
	return out
}

// layer-split stream: the first operation (a chooser or a header) runs in a middleware, then
// 0..1 choosers and a tail in the handler.
func splitPrefixes(thorough bool) []op {
	return append(choosers(thorough), op{Kind: "header", A: "X-A", B: "1"})
}

func splitSuffixes(thorough bool) [][]op {
	tails := [][]op{{}, {{Kind: "write", A: "a"}}}
	if thorough {
		tails = bodyTails
	}
	var out [][]op
	for _, t := range tails {
		out = append(out, t)
		for _, a := range choosers(thorough) {
			out = append(out, cat([]op{a}, t))
		}
	}
	return out
}

// ------------------------------------------------------------ runner

func Run(c *vh.Ctx) {
	var m *vh.Model
	if c.ModelPath != "" {
		var err error
		m, err = vh.StartModel(c.ModelPath)
		if err != nil {
			c.Note("cannot start model: %v", err)
			m = nil
		} else {
			defer m.Close()
			c.Res.ModelUsed = true
		}
	}
	if len(c.ReplayRaw) > 0 {
		var rc struct {
			Kind    string    `json:"kind"`
			Ops     []op      `json:"ops"`
			At      int       `json:"at"`
			Entries []mwEntry `json:"entries"`
			Mws     []layer   `json:"mws"`
			Handler []op      `json:"handler"`
			Steps   []tstep   `json:"steps"`
		}
		if err := json.Unmarshal(c.ReplayRaw, &rc); err != nil {
			c.Note("bad replay: %v", err)
			return
		}
		if rc.Kind == "topo" {
			runTopo(c, m, &topoCase{Steps: rc.Steps}, false)
		} else if rc.Kind == "mw" {
			runMw(c, m, rc.Entries)
		} else if rc.Kind == "layers" {
			runLayerStack(c, m, rc.Mws, [][]op{rc.Handler})
		} else if rc.Kind == "split" && rc.At >= 0 && rc.At <= len(rc.Ops) {
			runSplit(c, m, rc.Ops[:rc.At], [][]op{rc.Ops[rc.At:]})
		} else {
			runBatch(c, m, [][]op{rc.Ops})
		}
		return
	}
	c.Res.Rule = "response: every sequence of operation kinds up to length L over the 11-kind alphabet (parameters drawn from small pools by the seeded PRNG; every status-carrying kind draws from body-allowing and no-body codes), plus seeded longer sequences; status-class stream: every sequence of 1..2 (thorough: 3) status-carrying operations over {status, writeHeader, redirect, noContent, html(b, code)} x one code per status class, followed by each body tail, and the same after a first write; layer-split stream: first operation in a middleware, the rest in the handler; layered stream: stacks of 0..2 (thorough: 3) closure / class middlewares over a route handler, every layer with an operation sequence before $next, calling $next or short-circuiting, and an operation sequence after it, judged by the commit-once reference read in execution order across the layers (the return of a layer with a status pending commits it); non-trivial = contains a committing operation and at least one status/header/cookie operation; distinct = distinct concrete op sequence. middleware: every priority stack up to length 5 over {-1,0,1,5} (+ omitted priority, short-circuit and class-based variants seeded); non-trivial = at least 2 entries. topology: trees of server objects built with group() (one group, sibling groups, chains of depth 2), the root holding 0..9 middlewares when the first group is created, every sequence of up to 3 (thorough: 4) later single registrations over the objects, routes on every object before and after them; every object sweeping 0..9 own middlewares in the three block orders; seeded random programs; every route requested and judged by the list of its own server object at registration (inherited at group() + own), ascending priority, ties by registration; non-trivial = at least one group, one middleware and one route"
	maxLen := c.N(4, 5)
	var batch [][]op
	flush := func() {
		runBatch(c, m, batch)
		batch = batch[:0]
	}
	var rec func(prefix []string)
	rec = func(prefix []string) {
		ops := make([]op, len(prefix))
		for i, k := range prefix {
			ops[i] = mkOp(k, c.Rand)
		}
		batch = append(batch, ops)
		if len(batch) >= 400 {
			flush()
		}
		if len(prefix) == maxLen {
			return
		}
		for _, k := range kinds {
			rec(append(append([]string{}, prefix...), k))
		}
	}
	rec(nil)
	flush()
	// status-class stream (complete, no PRNG)
	for _, ops := range classStream(c.Thorough()) {
		batch = append(batch, ops)
		if len(batch) >= 400 {
			runCases(c, m, nil, plain(batch), 1)
			batch = batch[:0]
		}
	}
	runCases(c, m, nil, plain(batch), 1)
	batch = batch[:0]
	// layer-split stream
	for _, pre := range splitPrefixes(c.Thorough()) {
		runSplit(c, m, []op{pre}, splitSuffixes(c.Thorough()))
	}
	// layered stream (layers.go)
	layerStream(c, m)
	c.Res.Exhaustive = true
	c.Res.ExhaustiveWhat = fmt.Sprintf("all operation-kind sequences of length <= %d over 11 kinds; all status-class sequences (choosers %d, depth %d) x body tails, before and after a first write; all (middleware operation, handler suffix) splits of the depth-2 status-class sequences; all layered requests of 0..%d middlewares (each: one of %d operation sequences before $next, calls $next or not, one of them after) over each of the route handlers, kinds (closure / class) and registration orders rotating; all middleware priority stacks of length <= 5 over {-1,0,1,5}; all server-object trees (5 creation shapes, thorough 10) x root stack size 0..9 x every sequence of <= 2..3 (thorough 4) later registrations", maxLen, len(choosers(c.Thorough())), c.N(2, 3), c.N(2, 3), len(layerSeqs(0, false)))
	// seeded longer sequences
	for i := 0; i < c.N(3000, 60000); i++ {
		n := c.Rand.Range(maxLen+1, 12)
		ops := make([]op, n)
		for j := range ops {
			ops[j] = mkOp(vh.Pick(c.Rand, kinds), c.Rand)
		}
		batch = append(batch, ops)
		if len(batch) >= 400 {
			flush()
		}
	}
	flush()
	// middleware stacks
	prios := []int{-1, 0, 1, 5}
	var recm func(es []mwEntry)
	recm = func(es []mwEntry) {
		runMw(c, m, es)
		if len(es) == 5 {
			return
		}
		for _, p := range prios {
			recm(append(append([]mwEntry{}, es...), mwEntry{Prio: p, Calls: true}))
		}
	}
	recm(nil)
	for i := 0; i < c.N(300, 5000); i++ {
		n := c.Rand.Range(1, 5)
		es := make([]mwEntry, n)
		for j := range es {
			es[j] = mwEntry{Prio: vh.Pick(c.Rand, prios), Calls: !c.Rand.Chance(15), Class: c.Rand.Chance(25)}
			if es[j].Prio == 0 && c.Rand.Bool() {
				es[j].Omit = true
			}
		}
		runMw(c, m, es)
	}
	// server-object topologies (topo.go)
	topoStream(c, m)
	if m != nil {
		c.Res.ModelLines = m.Lines
	}
}
