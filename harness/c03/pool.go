package c03

import (
	"math"
)

// ------------------------------------------------------------ operators

type opInfo struct {
	Name string // protocol / signature name
	Sym  string // script symbol
}

var binOps = []opInfo{
	{"add", "+"}, {"sub", "-"}, {"mul", "*"}, {"quo", "/"}, {"rem", "%"}, {"pow", "**"},
	{"band", "&"}, {"bor", "|"}, {"bxor", "^"}, {"shl", "<<"}, {"shr", ">>"},
	{"eq", "=="}, {"ne", "!="}, {"seq", "==="}, {"sne", "!=="},
	{"lt", "<"}, {"le", "<="}, {"gt", ">"}, {"ge", ">="}, {"cmp", "<=>"},
	{"land", "&&"}, {"lor", "||"}, {"dot", "."},
}

var unOps = []opInfo{
	{"neg", "-"}, {"bnot", "~"}, {"not", "!"}, {"castb", "(bool)"}, {"casti", "(int)"}, {"castf", "(float)"},
}

var opByName = func() map[string]opInfo {
	m := map[string]opInfo{}
	for _, o := range binOps {
		m[o.Name] = o
	}
	for _, o := range unOps {
		m[o.Name] = o
	}
	return m
}()

func binExpr(op, a, b string) string { return "$" + a + " " + opByName[op].Sym + " $" + b }
func unExpr(op, a string) string     { return opByName[op].Sym + " $" + a }

// ------------------------------------------------------------ truthiness contexts

// every place where the interpreter decides whether a value is "true"
var truthCtx = []string{"if", "elseif", "while", "dowhile", "for", "ternary", "not", "landL", "landR", "lorL", "lorR", "castb"}

// script fragment that records b:1 / b:0 under id according to how context c
// treats $v (wrapped in try/catch by the caller through guardedStmt)
func truthStmt(c string, id int, v string) string {
	r := func(b string) string { return "__r(" + itoa(id) + ", " + b + ");" }
	switch c {
	case "if":
		return "if ($" + v + ") { " + r("true") + " } else { " + r("false") + " }"
	case "elseif":
		return "if ($zz) { " + r("null") + " } elseif ($" + v + ") { " + r("true") + " } else { " + r("false") + " }"
	case "while":
		return "$k = false; while ($" + v + ") { $k = true; break; } " + r("$k")
	case "dowhile":
		return "$k = 0; do { $k = $k + 1; if ($k == 2) { break; } } while ($" + v + "); " + r("$k == 2")
	case "for":
		return "$k = false; for (; $" + v + "; ) { $k = true; break; } " + r("$k")
	case "ternary":
		return r("$" + v + " ? true : false")
	case "not":
		return "$k = !$" + v + "; " + r("!$k")
	case "landL":
		return r("$" + v + " && true")
	case "landR":
		return r("true && $" + v)
	case "lorL":
		return r("$" + v + " || false")
	case "lorR":
		return r("false || $" + v)
	case "castb":
		return r("(bool)$" + v)
	}
	return ""
}

func itoa(i int) string {
	return fmtInt(int64(i))
}

// ------------------------------------------------------------ boundary pool

const (
	minInt = math.MinInt64
	maxInt = math.MaxInt64
)

// pool named in the property (0, ±1, min/max int, ±0.0, 0.5, 1e308, ”, '0',
// 'a', true, false, null) + numeric strings + shift/overflow boundaries +
// non-finite floats + arrays/objects for the no-crash clause.
func boundaryPool() []V {
	return []V{
		vi(0), vi(1), vi(-1), vi(2), vi(7), vi(-8), vi(63), vi(64), vi(minInt), vi(maxInt),
		vf(0), vf(math.Copysign(0, -1)), vf(0.5), vf(1), vf(-1.5), vf(2.5), vf(1e308), vf(9.223372036854775808e18),
		vf(math.Inf(1)), vf(math.Inf(-1)), vf(math.NaN()),
		vs(""), vs("0"), vs("a"), vs("A"), vs("ab"), vs("b"), vs("1"), vs("10"), vs("9"), vs("1.5"), vs("-1"), vs("1e3"), vs(" 1"), vs("abc"),
		vb(true), vb(false), vn(),
		va(0), va(3), {K: "o"}, {K: "c"},
	}
}

// one or a few representatives of every kind incl. the values that render as the empty string
// (the empty string, null, false) and '0': the pool of the script-level observation forms
func kindPool() []V {
	return []V{
		vi(0), vi(1), vi(-1), vi(5),
		vf(0), vf(0.5), vf(-1.5),
		vs(""), vs("0"), vs("a"), vs("1"), vs("1.5"),
		vb(true), vb(false), vn(),
		va(0), va(3), {K: "o"}, {K: "c"},
	}
}
