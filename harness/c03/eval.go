package c03

import (
	"encoding/hex"
	"fmt"
	"math"
	"strconv"
	"strings"

	"github.com/php-any/origami/data"

	"verif/harness/vh"
)

// ------------------------------------------------------------ values

// V is one operand / result value. Kinds: i f s b n (scalars), a (array, N =
// length), o (*data.ObjectValue), c (*data.ClassValue), nil (Go nil), x (other).
type V struct {
	K string `json:"k"`
	I int64  `json:"i,omitempty"`
	F uint64 `json:"f,omitempty"` // float bits
	S string `json:"s,omitempty"` // hex of the bytes
	B bool   `json:"b,omitempty"`
	N int    `json:"n,omitempty"`
	X string `json:"x,omitempty"`
}

func vi(n int64) V   { return V{K: "i", I: n} }
func vf(f float64) V { return V{K: "f", F: math.Float64bits(f)} }
func vs(s string) V  { return V{K: "s", S: hex.EncodeToString([]byte(s))} }
func vb(b bool) V    { return V{K: "b", B: b} }
func vn() V          { return V{K: "n"} }
func va(n int) V     { return V{K: "a", N: n} }
func (v V) Str() string {
	b, _ := hex.DecodeString(v.S)
	return string(b)
}
func (v V) Float() float64 { return math.Float64frombits(v.F) }

// Enc is the canonical rendering used in comparisons, histograms and on the
// model protocol (operands additionally carry primitive annotations, see encOperand).
func (v V) Enc() string {
	switch v.K {
	case "i":
		return "i:" + strconv.FormatInt(v.I, 10)
	case "f":
		return fmt.Sprintf("f:%016x", v.F)
	case "s":
		return "s:" + v.S
	case "b":
		if v.B {
			return "b:1"
		}
		return "b:0"
	case "n":
		return "n"
	case "a":
		return "a:" + strconv.Itoa(v.N)
	case "o":
		return "o"
	case "c":
		return "c"
	case "nil":
		return "nil"
	}
	return "x:" + v.X
}

// Human readable form for messages.
func (v V) Show() string {
	switch v.K {
	case "i":
		return strconv.FormatInt(v.I, 10)
	case "f":
		return "float(" + strconv.FormatFloat(v.Float(), 'g', 17, 64) + ")"
	case "s":
		return strconv.Quote(v.Str())
	case "b":
		return strconv.FormatBool(v.B)
	case "n":
		return "null"
	case "a":
		return fmt.Sprintf("array(%d)", v.N)
	case "o":
		return "object{}"
	case "c":
		return "instance"
	}
	return v.Enc()
}

// class of an operand for known-finding signatures
func (v V) Class() string {
	switch v.K {
	case "i":
		return "int"
	case "f":
		return "float"
	case "s":
		return "string"
	case "b":
		return "bool"
	case "n":
		return "null"
	case "a":
		return "array"
	case "o":
		return "object"
	case "c":
		return "instance"
	}
	return v.K
}

func (v V) Scalar() bool { return strings.Contains("ifsbn", v.K) && v.K != "" }

// encOperand adds what the model needs from Go's strconv about a string
// operand: ParseFloat (bits or '-' on any error) and Atoi (decimal or '-').
func encOperand(v V) string {
	if v.K != "s" {
		return v.Enc()
	}
	s := v.Str()
	pf, ai := "-", "-"
	if f, err := strconv.ParseFloat(s, 64); err == nil {
		pf = fmt.Sprintf("%016x", math.Float64bits(f))
	}
	if n, err := strconv.Atoi(s); err == nil {
		ai = strconv.Itoa(n)
	}
	return "s:" + v.S + ":" + pf + ":" + ai
}

// toData builds a fresh script value (scalars and arrays); objects and class
// instances are created by the script itself.
func toData(v V) data.Value {
	switch v.K {
	case "i":
		return data.NewIntValue(int(v.I))
	case "f":
		return data.NewFloatValue(v.Float())
	case "s":
		return data.NewStringValue(v.Str())
	case "b":
		return data.NewBoolValue(v.B)
	case "n":
		return data.NewNullValue()
	case "a":
		l := make([]data.Value, v.N)
		for i := range l {
			l[i] = data.NewIntValue(i + 1)
		}
		return data.NewArrayValue(l)
	}
	return data.NewNullValue()
}

func fromData(g data.GetValue) V {
	switch t := g.(type) {
	case nil:
		return V{K: "nil"}
	case *data.IntValue:
		return vi(int64(t.Value))
	case *data.FloatValue:
		return vf(t.Value)
	case *data.StringValue:
		return vs(t.Value)
	case *data.BoolValue:
		return vb(t.Value)
	case *data.NullValue:
		return vn()
	case *data.ArrayValue:
		return va(len(t.List))
	case *data.ObjectValue:
		return V{K: "o"}
	case *data.ClassValue:
		return V{K: "c"}
	}
	return V{K: "x", X: fmt.Sprintf("%T", g)}
}

// ------------------------------------------------------------ outcome of one evaluation

// Out: what one expression evaluation did.
//
//	val   — produced a value
//	err   — raised a catchable script error (not caused by a Go panic)
//	crash — a Go panic (observed as "go作用域异常退出的 panic(" inside try, as kind go-panic outside)
//	none  — the recorder was never reached and nothing was thrown (should not happen)
type Out struct {
	Kind string `json:"kind"`
	Val  V      `json:"val,omitempty"`
	Msg  string `json:"msg,omitempty"`
}

func (o Out) Enc() string {
	switch o.Kind {
	case "val":
		return "v " + o.Val.Enc()
	}
	return o.Kind
}

const panicMark = "go作用域异常退出的 panic("

// ------------------------------------------------------------ in-process environment

// recorder functions registered into the VM:
//
//	__v($i)        fresh copy of operand i of the current batch
//	__r($id, $x)   record the value of evaluation id
//	__e($id, $m)   record that evaluation id threw (message $m)
type env struct {
	*vh.VMEnv
	vals []V
	got  map[int]Out
	disp map[string]string // AsString of the object / instance operands the scripts build (probed once)
	// what gettype() says about a witness value of each kind (probed once: gettype of "", true, 0, 0.5 …)
	typeName map[string]string
	lastGot  map[int]Out // all records of the last evalBatch (obs cases record a second value under refBase+i)
}

type fnV struct{ e *env }

func (f *fnV) Call(ctx data.Context) (data.GetValue, data.Control) {
	v, _ := ctx.GetIndexValue(0)
	i := 0
	if iv, ok := v.(*data.IntValue); ok {
		i = iv.Value
	}
	if i < 0 || i >= len(f.e.vals) {
		return data.NewNullValue(), nil
	}
	return toData(f.e.vals[i]), nil
}
func (f *fnV) GetName() string               { return "__v" }
func (f *fnV) GetParams() []data.GetValue    { return []data.GetValue{data.NewParameter("i", 0)} }
func (f *fnV) GetVariables() []data.Variable { return []data.Variable{data.NewVariable("i", 0, nil)} }

type fnR struct{ e *env }

func (f *fnR) Call(ctx data.Context) (data.GetValue, data.Control) {
	idv, _ := ctx.GetIndexValue(0)
	x, _ := ctx.GetIndexValue(1)
	id := -1
	if iv, ok := idv.(*data.IntValue); ok {
		id = iv.Value
	}
	f.e.got[id] = Out{Kind: "val", Val: fromData(x)}
	if id < 0 {
		// display probe: __r(-1, $obj), __r(-2, $instance)
		if dv, ok := x.(data.Value); ok {
			f.e.disp[fromData(x).K] = dv.AsString()
		}
	}
	return data.NewNullValue(), nil
}
func (f *fnR) GetName() string { return "__r" }
func (f *fnR) GetParams() []data.GetValue {
	return []data.GetValue{data.NewParameter("id", 0), data.NewParameter("x", 1)}
}
func (f *fnR) GetVariables() []data.Variable {
	return []data.Variable{data.NewVariable("id", 0, nil), data.NewVariable("x", 1, nil)}
}

type fnE struct{ e *env }

func (f *fnE) Call(ctx data.Context) (data.GetValue, data.Control) {
	idv, _ := ctx.GetIndexValue(0)
	x, _ := ctx.GetIndexValue(1)
	id := -1
	if iv, ok := idv.(*data.IntValue); ok {
		id = iv.Value
	}
	msg := ""
	if s, ok := x.(data.AsString); ok {
		msg = s.AsString()
	}
	o := Out{Kind: "err", Msg: firstLine(msg)}
	if strings.Contains(msg, panicMark) {
		o.Kind = "crash"
	}
	f.e.got[id] = o
	return data.NewNullValue(), nil
}
func (f *fnE) GetName() string { return "__e" }
func (f *fnE) GetParams() []data.GetValue {
	return []data.GetValue{data.NewParameter("id", 0), data.NewParameter("m", 1)}
}
func (f *fnE) GetVariables() []data.Variable {
	return []data.Variable{data.NewVariable("id", 0, nil), data.NewVariable("m", 1, nil)}
}

func firstLine(s string) string {
	if i := strings.IndexByte(s, '\n'); i >= 0 {
		s = s[:i]
	}
	if len(s) > 160 {
		s = s[:160]
	}
	return s
}

func newEnv() *env {
	e := &env{VMEnv: vh.NewEnv(), got: map[int]Out{}, disp: map[string]string{}}
	e.VM.AddFunc(&fnV{e})
	e.VM.AddFunc(&fnR{e})
	e.VM.AddFunc(&fnE{e})
	e.runBatch(nil, "function c03void() {}\n"+operandInit("o", 0, V{K: "o"})+operandInit("c", 0, V{K: "c"})+"__r(0 - 1, $o);\n__r(0 - 2, $c);\n")
	// names gettype() gives the kinds, taken from witness values
	wit := []V{vs(""), vb(true), vi(0), vf(0.5), vn(), va(0), {K: "o"}, {K: "c"}}
	var sb strings.Builder
	for i, w := range wit {
		sb.WriteString(operandInit("w", i, w))
		sb.WriteString(fmt.Sprintf("__r(%d, gettype($w));\n", i))
	}
	got, _ := e.runBatch(wit, sb.String())
	e.typeName = map[string]string{}
	for i, w := range wit {
		if o, ok := got[i]; ok && o.Kind == "val" && o.Val.K == "s" {
			e.typeName[w.K] = o.Val.Str()
		}
	}
	return e
}

// ------------------------------------------------------------ script pieces

const prelude = "<?php\nclass C03K { public $p = 1; }\n"

// operand expression: variable assignment source for operand index i
func operandInit(name string, i int, v V) string {
	switch v.K {
	case "o":
		return fmt.Sprintf("$%s = [\"k\" => 1];\n", name)
	case "c":
		return fmt.Sprintf("$%s = new C03K();\n", name)
	}
	return fmt.Sprintf("$%s = __v(%d);\n", name, i)
}

// guarded evaluation: result or thrown message recorded under id
func guarded(id int, expr string) string {
	return fmt.Sprintf("try { __r(%d, %s); } catch (Throwable $e) { __e(%d, $e->getMessage()); }\n", id, expr, id)
}

// runBatch runs one script and returns the recorded outcomes; the Outcome of
// the script run itself is returned too (a panic outside try, parse error …).
func (e *env) runBatch(vals []V, body string) (map[int]Out, vh.Outcome) {
	e.vals = vals
	e.got = map[int]Out{}
	e.Thrown = e.Thrown[:0]
	o := e.RunSource(prelude+body, "/c03.php")
	if o.Kind == "ok" && len(e.Thrown) > 0 {
		// an uncaught throw at top level is handed to the VM's throw handler
		o.Kind = "uncaught"
		o.Detail = firstLine(e.Thrown[0])
	}
	return e.got, o
}

// runBare evaluates one expression outside any try block: tells a catchable
// error (kind uncaught) from a Go panic escaping the interpreter (go-panic).
func (e *env) runBare(vals []V, init, expr string) Out {
	got, o := e.runBatch(vals, init+"__r(0, "+expr+");\n")
	switch o.Kind {
	case "ok":
		if r, ok := got[0]; ok {
			return r
		}
		return Out{Kind: "none"}
	case "uncaught":
		return Out{Kind: "err", Msg: o.Detail}
	case "go-panic":
		return Out{Kind: "crash", Msg: o.Detail}
	}
	return Out{Kind: "none", Msg: o.Kind + ": " + o.Detail}
}

// AsString of a non-scalar operand as the interpreter renders it
func (e *env) display(v V) string {
	switch v.K {
	case "a":
		return toData(v).AsString()
	case "o", "c":
		return e.disp[v.K]
	}
	return ""
}
