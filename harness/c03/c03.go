package c03

import (
	"encoding/json"
	"fmt"
	"os"
	"strconv"
	"strings"

	"verif/harness/vh"
)

func init() { vh.Register("C03", Run) }

func fmtInt(n int64) string { return strconv.FormatInt(n, 10) }

// Case is one replayable evaluation.
type Case struct {
	Kind string `json:"kind"`          // bin | un | truth
	Op   string `json:"op"`            // operator name or truthiness context
	A    V      `json:"a"`             //
	B    *V     `json:"b,omitempty"`   // right operand (bin)
	Same bool   `json:"same,omitempty"` // bin: both operands are the same variable
}

func (c Case) Key() string {
	k := c.Kind + " " + c.Op + " " + c.A.Enc()
	if c.B != nil {
		k += " " + c.B.Enc()
	}
	if c.Same {
		k += " same"
	}
	return k
}

func (c Case) Expr() string {
	switch c.Kind {
	case "bin":
		if c.Same {
			return binExpr(c.Op, "a", "a")
		}
		return binExpr(c.Op, "a", "b")
	case "un":
		return unExpr(c.Op, "a")
	}
	return ""
}

// evalBatch evaluates many cases sharing the left operand table inside one
// script (each inside try/catch).
func evalBatch(e *env, cases []Case) []Out {
	var vals []V
	var sb strings.Builder
	sb.WriteString("$zz = false;\n")
	for i, c := range cases {
		vals = append(vals, c.A)
		an := "a" + strconv.Itoa(i)
		sb.WriteString(operandInit(an, len(vals)-1, c.A))
		bn := an
		if c.B != nil && !c.Same {
			vals = append(vals, *c.B)
			bn = "b" + strconv.Itoa(i)
			sb.WriteString(operandInit(bn, len(vals)-1, *c.B))
		}
		switch c.Kind {
		case "bin":
			sb.WriteString(guarded(i, binExpr(c.Op, an, bn)))
		case "un":
			sb.WriteString(guarded(i, unExpr(c.Op, an)))
		case "truth":
			sb.WriteString("try { " + truthStmt(c.Op, i, an) + " } catch (Throwable $e) { __e(" + strconv.Itoa(i) + ", $e->getMessage()); }\n")
		}
	}
	got, o := e.runBatch(vals, sb.String())
	res := make([]Out, len(cases))
	for i := range cases {
		if r, ok := got[i]; ok {
			res[i] = r
		} else {
			res[i] = Out{Kind: "none", Msg: o.Kind + ": " + o.Detail}
		}
	}
	return res
}

// evalBare runs one case outside try.
func evalBare(e *env, c Case) Out {
	vals := []V{c.A}
	init := "$zz = false;\n" + operandInit("a", 0, c.A)
	if c.B != nil && !c.Same {
		vals = append(vals, *c.B)
		init += operandInit("b", 1, *c.B)
	}
	switch c.Kind {
	case "truth":
		got, o := e.runBatch(vals, init+truthStmt(c.Op, 0, "a")+"\n")
		switch o.Kind {
		case "ok":
			if r, ok := got[0]; ok {
				return r
			}
			return Out{Kind: "none"}
		case "uncaught":
			return Out{Kind: "err", Msg: o.Detail}
		case "go-panic":
			return Out{Kind: "crash", Msg: o.Detail}
		}
		return Out{Kind: "none", Msg: o.Kind + ": " + o.Detail}
	}
	return e.runBare(vals, init, c.Expr())
}

func Run(c *vh.Ctx) {
	if len(c.ReplayRaw) > 0 {
		var rc struct {
			Kind string
			Src  string
		}
		json.Unmarshal(c.ReplayRaw, &rc)
		if rc.Kind == "script" {
			o := vh.RunFresh(rc.Src)
			fmt.Printf("kind=%s detail=%s\nout:\n%s\n", o.Kind, o.Detail, o.Out)
			return
		}
		if rc.Kind == "dump" {
			dump()
			return
		}
	}
}

func dump() {
	e := newEnv()
	pool := boundaryPool()
	w := os.Stdout
	for _, a := range pool {
		var cases []Case
		for _, op := range binOps {
			for j := range pool {
				b := pool[j]
				cases = append(cases, Case{Kind: "bin", Op: op.Name, A: a, B: &b})
			}
		}
		for _, op := range unOps {
			cases = append(cases, Case{Kind: "un", Op: op.Name, A: a})
		}
		for _, t := range truthCtx {
			cases = append(cases, Case{Kind: "truth", Op: t, A: a})
		}
		outs := evalBatch(e, cases)
		for i, cs := range cases {
			o := outs[i]
			line := cs.Kind + "\t" + cs.Op + "\t" + cs.A.Show()
			if cs.B != nil {
				line += "\t" + cs.B.Show()
			}
			switch o.Kind {
			case "val":
				line += "\t=> " + o.Val.Show()
			default:
				line += "\t=> " + o.Kind + " " + o.Msg
				b := evalBare(e, cs)
				line += "\t| bare: " + b.Kind + " " + b.Msg
			}
			fmt.Fprintln(w, line)
		}
	}
}
