// Package c03: correspondence + violation search for C03 (scalar operators give
// reference results; truthiness is context-independent; no operand combination
// crashes the interpreter).
//
// Real code driven: every evaluation is an origami script run in-process through
// vh.NewEnv().RunSource — `$a OP $b`, `OP $a`, and one statement per truthiness
// context (if / elseif / while / do-while / for / ?: / ! / && / || / (bool)) — with
// operands handed over as data.Value objects built on the Go side (exact float
// bits, arbitrary bytes) and results captured as data.Value objects (no printing,
// no parsing). Each evaluation runs inside try/catch; whatever does not produce a
// value is run again alone outside try, so that a Go panic (kind go-panic under
// RunSource's recover) is told from a catchable error.
//
// Comparands: the Lean model driver vm_c03 (Model.Ops with the regenerated
// truthiness table) and, for the property itself, oracles that know nothing of
// the model: crash observation, the coherence laws evaluated on origami's own
// results (truthiness alike in all contexts, == symmetric, != / !== complements,
// <=> agrees with < and >, <= is < or ==, >= is > or ==, a < b is b > a, == implies
// <=> 0, / float, zero divisor is an error), a Go reference
// of the documented results (ref.go) on the documented domain, and the result
// kind the language fixes whatever the operands are (. string, comparisons and
// logical operators bool, <=> int, / float, bit operations and shifts int):
// checkType on every evaluation of every stream, and the obs cases, where the
// script itself looks at the result (gettype, is_<kind>, === the documented
// result, the next operator applied to it).
package c03

import (
	"encoding/hex"
	"encoding/json"
	"fmt"
	"math"
	"os"
	"path/filepath"
	"sort"
	"strconv"
	"strings"

	"verif/harness/vh"
)

func init() { vh.Register("C03", Run) }

func fmtInt(n int64) string { return strconv.FormatInt(n, 10) }

// Case is one replayable evaluation.
type Case struct {
	Kind string `json:"kind"`           // bin | un | truth | fast | forle | obs
	Op   string `json:"op"`             // operator name or truthiness context
	A    V      `json:"a"`              //
	B    *V     `json:"b,omitempty"`    // right operand (bin, fast; obs of a binary operator)
	Same bool   `json:"same,omitempty"` // bin: both operands are the same variable
	Form string `json:"form,omitempty"` // obs: how the script itself looks at the result — gettype | is | same | next
	// Void (bin, un, truth): which operands are written as a call of a function that returns nothing
	// (`c03void()`) instead of a variable — "a" | "b" | "ab". A / B are null on those sides: 'no value'
	// is identified with null at the operator boundary, so the model / reference answer is the null answer.
	Void string `json:"void,omitempty"`
}

// voidCall: the operand expression of a Void side (the function is declared in the prelude)
const voidCall = "c03void()"

func (c Case) voidA() bool { return strings.Contains(c.Void, "a") }
func (c Case) voidB() bool { return strings.Contains(c.Void, "b") }
func (c Case) showA() string {
	if c.voidA() {
		return "<void call>"
	}
	return c.A.Show()
}
func (c Case) showB() string {
	if c.voidB() {
		return "<void call>"
	}
	return c.B.Show()
}

// voidSub writes the Void operands of an expression / statement as the call itself
func (c Case) voidSub(s, an, bn string) string {
	if c.voidA() {
		s = strings.ReplaceAll(s, "$"+an, voidCall)
	}
	if c.voidB() && bn != an {
		s = strings.ReplaceAll(s, "$"+bn, voidCall)
	}
	return s
}

func (c Case) Key() string {
	k := c.Kind + " " + c.Op + " " + c.A.Enc()
	if c.B != nil {
		k += " " + c.B.Enc()
	}
	if c.Same {
		k += " same"
	}
	if c.Form != "" {
		k += " " + c.Form
	}
	if c.Void != "" {
		k += " void:" + c.Void
	}
	return k
}

func (c Case) classes() string {
	ca := c.A.Class()
	if c.voidA() {
		ca = "void"
	}
	if c.B != nil {
		if c.voidB() {
			return ca + ",void"
		}
		return ca + "," + c.B.Class()
	}
	return ca
}

func (c Case) Show() string {
	switch c.Kind {
	case "bin":
		if c.Same {
			return "$x " + opByName[c.Op].Sym + " $x  with $x = " + c.A.Show()
		}
		return c.showA() + " " + opByName[c.Op].Sym + " " + c.showB()
	case "un":
		return opByName[c.Op].Sym + " " + c.showA()
	case "fast":
		return "$a " + opByName[c.Op].Sym + " <literal " + c.B.Show() + ">  with $a = " + c.A.Show()
	case "forle":
		return "for (; $a <= <literal " + c.B.Show() + ">; )  with $a = " + c.A.Show()
	case "obs":
		e := opByName[c.Op].Sym + " " + c.A.Show()
		if c.B != nil {
			e = c.A.Show() + " " + opByName[c.Op].Sym + " " + c.B.Show()
		}
		switch c.Form {
		case "gettype":
			return "gettype(" + e + ")"
		case "is":
			return "is_" + isFuncKind(c) + "(" + e + ")"
		case "same":
			return "(" + e + ") === <documented result>"
		}
		return "(" + e + ") + 1"
	}
	return c.Op + "(" + c.showA() + ")"
}

// is_<kind> function applied by the obs form "is"
func isFuncKind(c Case) string {
	if ks := expectedKinds(c.Op, c.A); len(ks) == 1 {
		return kindNames[ks[0]]
	}
	return "scalar"
}

// refBase: evaluation id offset under which an obs case records what its reference value gives
const refBase = 1 << 20

// script statement for case number i (operand variables a<i>, b<i>)
func (c Case) stmt(i int, vals *[]V, sb *strings.Builder) {
	id := strconv.Itoa(i)
	an := "a" + id
	*vals = append(*vals, c.A)
	sb.WriteString(operandInit(an, len(*vals)-1, c.A))
	bn := an
	if c.Kind == "obs" {
		expr := "(" + unExpr(c.Op, an) + ")"
		if c.B != nil {
			*vals = append(*vals, *c.B)
			bn = "b" + id
			sb.WriteString(operandInit(bn, len(*vals)-1, *c.B))
			expr = "(" + binExpr(c.Op, an, bn) + ")"
		}
		switch c.Form {
		case "gettype":
			sb.WriteString(guarded(i, "gettype("+expr+")"))
		case "is":
			sb.WriteString(guarded(i, "is_"+isFuncKind(c)+"("+expr+")"))
		case "same", "next":
			// the documented result, handed in as a fresh value
			if ref, ok := c.refValue(); ok {
				*vals = append(*vals, ref)
				sb.WriteString(operandInit("w"+id, len(*vals)-1, ref))
				if c.Form == "same" {
					sb.WriteString(guarded(i, expr+" === $w"+id))
				} else {
					sb.WriteString(guarded(i, expr+" + 1"))
					sb.WriteString(guarded(refBase+i, "$w"+id+" + 1"))
				}
			}
		}
		return
	}
	if c.B != nil && !c.Same && c.Kind != "fast" && c.Kind != "forle" {
		*vals = append(*vals, *c.B)
		bn = "b" + id
		sb.WriteString(operandInit(bn, len(*vals)-1, *c.B))
	}
	switch c.Kind {
	case "bin":
		sb.WriteString(guarded(i, c.voidSub(binExpr(c.Op, an, bn), an, bn)))
	case "un":
		sb.WriteString(guarded(i, c.voidSub(unExpr(c.Op, an), an, bn)))
	case "fast":
		// literal right operand: `$a <= 5` builds the fused VarIntLe node, other operators the plain node with a literal child
		sb.WriteString(guarded(i, "$"+an+" "+opByName[c.Op].Sym+" "+literal(*c.B)))
	case "forle":
		// `for (; $a <= 5; )`: ForStatement asks the fused node for a Go bool directly (BoolTest fast path)
		sb.WriteString("try { $k = false; for (; $" + an + " <= " + literal(*c.B) + "; ) { $k = true; break; } __r(" + id + ", $k); } catch (Throwable $e) { __e(" + id + ", $e->getMessage()); }\n")
	case "truth":
		sb.WriteString("try { " + c.voidSub(truthStmt(c.Op, i, an), an, bn) + " } catch (Throwable $e) { __e(" + id + ", $e->getMessage()); }\n")
	}
}

func literal(v V) string {
	switch v.K {
	case "i":
		return fmtInt(v.I)
	case "f":
		s := strconv.FormatFloat(v.Float(), 'f', -1, 64)
		if !strings.Contains(s, ".") {
			s += ".0"
		}
		return s
	case "s":
		return "'" + v.Str() + "'"
	case "b":
		return strconv.FormatBool(v.B)
	}
	return "null"
}

// evalBatch evaluates many cases inside one script (each inside try/catch).
func evalBatch(e *env, cases []Case) []Out {
	var vals []V
	var sb strings.Builder
	sb.WriteString("$zz = false;\n")
	for i, c := range cases {
		c.stmt(i, &vals, &sb)
	}
	got, o := e.runBatch(vals, sb.String())
	res := make([]Out, len(cases))
	for i := range cases {
		if r, ok := got[i]; ok {
			res[i] = r
		} else {
			res[i] = Out{Kind: "none", Msg: o.Kind + ": " + o.Detail}
		}
	}
	e.lastGot = got
	return res
}

// evalBare runs one case alone and outside try.
func evalBare(e *env, c Case) Out {
	var vals []V
	var sb strings.Builder
	sb.WriteString("$zz = false;\n")
	c.stmt(0, &vals, &sb)
	src := sb.String()
	// strip the try/catch wrapper of the single statement
	src = strings.Replace(src, "try { ", "", 1)
	if i := strings.LastIndex(src, " } catch (Throwable $e)"); i >= 0 {
		src = src[:i] + "\n"
	}
	got, o := e.runBatch(vals, src)
	switch o.Kind {
	case "ok":
		if r, ok := got[0]; ok {
			return r
		}
		return Out{Kind: "none"}
	case "uncaught":
		if strings.Contains(o.Detail, panicMark) {
			return Out{Kind: "crash", Msg: o.Detail}
		}
		return Out{Kind: "err", Msg: o.Detail}
	case "go-panic":
		return Out{Kind: "crash", Msg: o.Detail}
	}
	return Out{Kind: "none", Msg: o.Kind + ": " + o.Detail}
}

// ------------------------------------------------------------ model requests

func (r *runner) encModelOperand(v V) string {
	switch v.K {
	case "f":
		return v.Enc() + ":" + hex.EncodeToString([]byte(strconv.FormatFloat(v.Float(), 'g', 14, 64)))
	case "s":
		return encOperand(v)
	case "a":
		return v.Enc() + ":" + hex.EncodeToString([]byte(r.e.display(v)))
	case "o", "c":
		return v.K + ":1:" + hex.EncodeToString([]byte(r.e.display(v)))
	}
	return v.Enc()
}

// float64 a value converts to through AsFloat (what BinaryPow hands to math.Pow)
func asFloatGo(v V) (float64, bool) {
	switch v.K {
	case "i":
		return float64(v.I), true
	case "f":
		return v.Float(), true
	case "n":
		return 0, true
	case "s":
		f, err := strconv.ParseFloat(v.Str(), 64)
		return f, err == nil
	}
	return 0, false
}

func powAnn(c Case) string {
	if c.Op != "pow" || c.B == nil {
		return "-"
	}
	x, ok1 := asFloatGo(c.A)
	y, ok2 := asFloatGo(*c.B)
	if !ok1 || !ok2 {
		return "-"
	}
	return fmt.Sprintf("%016x,%016x,%016x", math.Float64bits(x), math.Float64bits(y), math.Float64bits(math.Pow(x, y)))
}

func (r *runner) modelReq(c Case, spec bool) string {
	switch c.Kind {
	case "bin", "fast", "forle":
		same := "0"
		if c.Same {
			same = "1"
		}
		b := c.A
		if c.B != nil && !c.Same {
			b = *c.B
		}
		if spec {
			return "spec\t" + c.Op + "\t" + r.encModelOperand(c.A) + "\t" + r.encModelOperand(b) + "\t" + powAnn(c)
		}
		return "bin\t" + c.Op + "\t" + same + "\t" + r.encModelOperand(c.A) + "\t" + r.encModelOperand(b) + "\t" + powAnn(c)
	case "un":
		if spec {
			return "specun\t" + c.Op + "\t" + r.encModelOperand(c.A)
		}
		return "un\t" + c.Op + "\t" + r.encModelOperand(c.A)
	}
	return "truth\t" + c.Op + "\t" + r.encModelOperand(c.A)
}

// ------------------------------------------------------------ runner

type runner struct {
	c     *vh.Ctx
	e     *env
	m     *vh.Model
	print bool
	sigs  map[string]sigRec // every violation signature seen (first case), for C03_SIGS_OUT
}

type sigRec struct {
	What  string `json:"what"`
	Case  any    `json:"case"`
	Count int    `json:"count"`
}

func (r *runner) viol(sig, what string, cs any) {
	rec := r.sigs[sig]
	if rec.Count == 0 {
		rec.What, rec.Case = what, cs
	}
	rec.Count++
	r.sigs[sig] = rec
	r.c.Violation(sig, what, cs)
}

// process evaluates a batch: implementation (in try, non-values again outside
// try), model, per-case oracles. Returns the outcomes for the pairwise laws.
func (r *runner) process(cases []Case) []Out {
	outs := evalBatch(r.e, cases)
	c := r.c
	for i, cs := range cases {
		o := outs[i]
		if o.Kind != "val" {
			// outside try: catchable error or Go panic?
			b := evalBare(r.e, cs)
			c.Hit("bare:" + b.Kind)
			if b.Kind == "crash" || o.Kind == "crash" {
				if o.Kind != "crash" {
					o.Msg = b.Msg
				}
				o.Kind = "crash"
			} else if b.Kind != o.Kind {
				c.Mismatch(cs, "in-try: "+o.Kind+" "+o.Msg, "bare: "+b.Kind+" "+b.Msg, "outcome inside try differs from the outcome outside try")
			}
			outs[i] = o
		}
		nontrivial := o.Kind != "val" || cs.Kind != "truth"
		c.Eval(cs.Key(), nontrivial)
		c.Hit(cs.Kind + ":" + cs.Op)
		c.Hit("outcome:" + o.Kind)
		c.Hit("operands:" + cs.classes())
		c.SampleSome(map[string]any{"case": cs.Show(), "result": canonOut(o, false)}, 4001)

		// no-crash clause
		switch o.Kind {
		case "crash":
			r.viol("crash:"+cs.Op+":"+cs.classes(), "Go panic evaluating "+cs.Show()+": "+firstLine(o.Msg), cs)
		case "none":
			r.viol("no-outcome:"+cs.Op+":"+cs.classes(), "evaluation of "+cs.Show()+" produced neither a value nor an error ("+o.Msg+")", cs)
		}
		if o.Kind == "val" && (o.Val.K == "nil" || o.Val.K == "x") {
			r.viol("non-value:"+cs.Op+":"+cs.classes(), cs.Show()+" evaluated to "+o.Val.Enc(), cs)
		}
		// documented results (Go reference, independent of the model)
		r.checkExact(cs, o)
		// the result kind the language fixes whatever the operands are
		r.checkType(cs, o)
	}
	// model
	if r.m != nil {
		reqs := make([]string, 0, 2*len(cases))
		for _, cs := range cases {
			reqs = append(reqs, r.modelReq(cs, false))
			if cs.Kind != "truth" {
				reqs = append(reqs, r.modelReq(cs, true))
			}
		}
		ans, err := r.m.AskBatch(reqs)
		if err != nil {
			c.Mismatch(nil, "", err.Error(), "model driver failed")
			r.m = nil
		} else {
			k := 0
			for i, cs := range cases {
				got := ans[k]
				k++
				impl := canonOut(outs[i], false)
				if cs.Kind == "truth" {
					switch {
					case outs[i].Kind == "val" && outs[i].Val.K == "b" && outs[i].Val.B:
						impl = "t"
					case outs[i].Kind == "val" && outs[i].Val.K == "b":
						impl = "f"
					}
				}
				if got != impl {
					c.Mismatch(cs, impl, got, "implementation vs Model.Ops on "+cs.Show())
				}
				if r.print {
					fmt.Printf("  model: %s\n", got)
				}
				if cs.Kind != "truth" {
					sp := ans[k]
					k++
					ref, ok := r.ref(cs)
					want := "undoc"
					if ok {
						want = canonOut(ref, false)
					}
					if sp != want {
						c.Mismatch(cs, want, sp, "Go reference of the documented results vs Spec.Ops on "+cs.Show())
					}
					if r.print {
						fmt.Printf("  spec : %s\n", sp)
					}
				}
			}
			c.Res.Traces += len(cases)
		}
	}
	return outs
}

func (r *runner) ref(cs Case) (Out, bool) {
	switch cs.Kind {
	case "bin", "fast", "forle":
		if cs.Same {
			return refBin(cs.Op, cs.A, cs.A)
		}
		return refBin(cs.Op, cs.A, *cs.B)
	case "un":
		return refUn(cs.Op, cs.A)
	}
	return Out{Kind: "val", Val: vb(refTruthy(cs.A))}, true
}

func (r *runner) checkExact(cs Case, o Out) {
	ref, ok := r.ref(cs)
	if !ok {
		return
	}
	if cs.Same && cs.A.K == "f" && math.IsNaN(cs.A.Float()) {
		// `$x == $x` is decided by object identity before any comparison (NaN included): see notes/C03.md
		return
	}
	r.c.Hit("documented-domain")
	if canonOut(ref, false) != canonOut(o, false) {
		r.viol("exact:"+cs.Op+":"+cs.classes(), cs.Show()+" gives "+showOut(o)+", documented result "+showOut(ref), cs)
	}
}

// checkType: the kind of the result of `. == != === !== < <= > >= <=> && || / & | ^ << >>`, `! ~` and
// the casts does not depend on the operands — asserted on every evaluation of every stream (all pairs
// of the pools, mixed kinds, arrays and objects included), on the data.Value the interpreter produced;
// `- * ** %` and unary `-` yield a number; `.`, the comparison and logical operators never fail.
// Independent of the model and of the exact-result reference.
func (r *runner) checkType(cs Case, o Out) {
	if cs.Kind != "bin" && cs.Kind != "un" && cs.Kind != "fast" {
		return
	}
	want := expectedKinds(cs.Op, cs.A)
	switch o.Kind {
	case "val":
		if want == nil {
			return
		}
		r.c.Hit("oracle:result-type")
		okk := false
		for _, k := range want {
			okk = okk || o.Val.K == k
		}
		if !okk {
			r.viol("result-type:"+cs.Op+":"+cs.classes(), cs.Show()+" gives "+showOut(o)+"; the result of "+opByName[cs.Op].Sym+" is "+kindList(want)+" whatever the operands are", cs)
		} else if cs.Op == "cmp" && (o.Val.I < -1 || o.Val.I > 1) {
			r.viol("cmp-range:"+cs.classes(), cs.Show()+" gives "+showOut(o)+", expected -1, 0 or 1", cs)
		}
	case "err":
		if alwaysValue[cs.Op] {
			r.c.Hit("oracle:always-value")
			r.viol("not-total:"+cs.Op+":"+cs.classes(), cs.Show()+" gives "+showOut(o)+"; "+opByName[cs.Op].Sym+" is defined on every operand pair", cs)
		}
	}
}

// refValue: the documented result of the operator application an obs case looks at (a non-NaN value)
func (c Case) refValue() (V, bool) {
	var ref Out
	var ok bool
	if c.B != nil {
		ref, ok = refBin(c.Op, c.A, *c.B)
	} else {
		ref, ok = refUn(c.Op, c.A)
	}
	if !ok || ref.Kind != "val" || (ref.Val.K == "f" && math.IsNaN(ref.Val.Float())) {
		return V{}, false
	}
	return ref.Val, true
}

// obsForms: the obs cases for one operator application
func obsForms(op string, a V, b *V, full bool) []Case {
	want := expectedKinds(op, a)
	var out []Case
	if want != nil {
		out = append(out, Case{Kind: "obs", Op: op, A: a, B: b, Form: "gettype"})
	}
	if !full {
		return out
	}
	if len(want) == 1 {
		out = append(out, Case{Kind: "obs", Op: op, A: a, B: b, Form: "is"})
	}
	probe := Case{Kind: "obs", Op: op, A: a, B: b}
	if _, ok := probe.refValue(); ok {
		out = append(out, Case{Kind: "obs", Op: op, A: a, B: b, Form: "same"}, Case{Kind: "obs", Op: op, A: a, B: b, Form: "next"})
	}
	return out
}

// observe: the result looked at by the SCRIPT (no model, no value capture of the result itself):
// gettype(EXPR) names the fixed kind, is_<kind>(EXPR) is true, EXPR === <documented result> is true,
// and the next operator applied to it — EXPR + 1 — gives what it gives on the documented result
// (`(5 . "") + 1` is "51": a string, not 6).
func (r *runner) observe(cases []Case) {
	c := r.c
	for len(cases) > 0 {
		n := len(cases)
		if n > 600 {
			n = 600
		}
		outs := evalBatch(r.e, cases[:n])
		got := r.e.lastGot
		for i, cs := range cases[:n] {
			o := outs[i]
			c.Eval(cs.Key(), true)
			c.Hit("obs:" + cs.Form)
			if r.print {
				fmt.Printf("  script: %s  (%s)\n", canonOut(o, false), firstLine(o.Msg))
			}
			if o.Kind == "crash" {
				r.viol("crash:"+cs.Op+":"+cs.classes(), "Go panic evaluating "+cs.Show()+": "+firstLine(o.Msg), cs)
				continue
			}
			if o.Kind != "val" {
				c.Hit("obs:no-value") // the operator application itself failed: judged by the plain stream
				continue
			}
			c.Hit("operands:" + cs.classes())
			sig := "result-type-script:" + cs.Form + ":" + cs.Op + ":" + cs.classes()
			switch cs.Form {
			case "gettype":
				want := expectedKinds(cs.Op, cs.A)
				okk := false
				for _, k := range want {
					okk = okk || (o.Val.K == "s" && o.Val.Str() == r.e.typeName[k])
				}
				if !okk {
					r.viol(sig, cs.Show()+" is "+o.Val.Show()+"; the result of "+opByName[cs.Op].Sym+" is "+kindList(want)+" whatever the operands are", cs)
				}
			case "is", "same":
				if !(o.Val.K == "b" && o.Val.B) {
					w := ""
					if ref, ok := cs.refValue(); ok && cs.Form == "same" {
						w = " (documented result " + ref.Class() + " " + ref.Show() + ")"
					}
					r.viol(sig, cs.Show()+" is "+o.Val.Show()+", expected true"+w, cs)
				}
			case "next":
				ro, ok := got[refBase+i]
				if !ok {
					continue
				}
				if canonOut(o, false) != canonOut(ro, false) {
					ref, _ := cs.refValue()
					r.viol(sig, cs.Show()+" gives "+showOut(o)+" but "+ref.Show()+" + 1 (the documented result of the inner operator) gives "+showOut(ro), cs)
				}
			}
		}
		cases = cases[n:]
	}
}

// observeAll: gettype on every operator with a result kind × vals × vals (+ unary), the other forms
// on the kind pool
func (r *runner) observeAll(vals, kinds []V) {
	var cases []Case
	add := func(vs []V, full bool) {
		for i := range vs {
			a := vs[i]
			for _, op := range binOps {
				for j := range vs {
					b := vs[j]
					for _, f := range obsForms(op.Name, a, &b, full) {
						if !full || f.Form != "gettype" { // gettype is covered by the complete pool
							cases = append(cases, f)
						}
					}
				}
			}
			for _, op := range unOps {
				if !full {
					cases = append(cases, obsForms(op.Name, a, nil, true)...)
				}
			}
		}
	}
	add(vals, false)
	add(kinds, true)
	r.observe(cases)
}

// the harness's result-kind tables are Spec.Ops.fixedKind / alwaysValue / numericResult (driver commands kind, kindun)
func (r *runner) checkKindTables() {
	if r.m == nil {
		return
	}
	var reqs, want []string
	flag := func(b bool) string {
		if b {
			return "1"
		}
		return "0"
	}
	for _, op := range binOps {
		reqs = append(reqs, "kind\t"+op.Name)
	}
	for _, op := range unOps {
		reqs = append(reqs, "kindun\t"+op.Name)
	}
	for _, op := range append(append([]opInfo{}, binOps...), unOps...) {
		k := "-"
		if f, ok := fixedKind[op.Name]; ok {
			k = f
		}
		want = append(want, k+" "+flag(alwaysValue[op.Name])+" "+flag(numericResult[op.Name]))
	}
	ans, err := r.m.AskBatch(reqs)
	if err != nil {
		r.c.Mismatch(nil, "", err.Error(), "model driver failed")
		r.m = nil
		return
	}
	for i := range reqs {
		r.c.Hit("kind-table")
		if ans[i] != want[i] {
			r.c.Mismatch(map[string]string{"request": reqs[i]}, want[i], ans[i], "result-kind table of the harness vs Spec.Ops.fixedKind / alwaysValue / numericResult")
		}
	}
}

func showOut(o Out) string {
	switch o.Kind {
	case "val":
		return o.Val.Class() + " " + o.Val.Show()
	case "err":
		return "error(" + firstLine(o.Msg) + ")"
	}
	return o.Kind
}

func eqTrue(o Out) bool { b, ok := boolOf(o); return ok && b }
func ok1e(o Out) bool   { _, ok := boolOf(o); return ok }

func boolOf(o Out) (bool, bool) {
	if o.Kind == "val" && o.Val.K == "b" {
		return o.Val.B, true
	}
	return false, false
}

// ------------------------------------------------------------ coherence laws on origami's own results

type table map[string]Out // key: op + " " + a.Enc() + " " + b.Enc()

func tkey(op string, a, b V) string { return op + " " + a.Enc() + " " + b.Enc() }

func pairClasses(a, b V) string { return a.Class() + "," + b.Class() }

func sortedClasses(a, b V) string {
	x, y := a.Class(), b.Class()
	if y < x {
		x, y = y, x
	}
	return x + "," + y
}

func (r *runner) laws(vals []V, t table) {
	c := r.c
	mk := func(op string, a, b V) Case { bb := b; return Case{Kind: "bin", Op: op, A: a, B: &bb} }
	sameOutcome := func(x, y Out) bool { return canonOut(x, false) == canonOut(y, false) }
	for _, a := range vals {
		for _, b := range vals {
			eq, ne := t[tkey("eq", a, b)], t[tkey("ne", a, b)]
			qe := t[tkey("eq", b, a)]
			c.Hit("law:eq-symm")
			if !sameOutcome(eq, qe) {
				r.viol("eq-asym:"+sortedClasses(a, b), a.Show()+" == "+b.Show()+" is "+showOut(eq)+" but "+b.Show()+" == "+a.Show()+" is "+showOut(qe), mk("eq", a, b))
			}
			c.Hit("law:ne-complement")
			e1, ok1 := boolOf(eq)
			n1, ok2 := boolOf(ne)
			if !((ok1 && ok2 && e1 != n1) || (eq.Kind == "err" && ne.Kind == "err")) {
				r.viol("ne-not-eq:"+pairClasses(a, b), a.Show()+" == "+b.Show()+" is "+showOut(eq)+" and != is "+showOut(ne), mk("ne", a, b))
			}
			se, sn := t[tkey("seq", a, b)], t[tkey("sne", a, b)]
			s1, ok1 := boolOf(se)
			s2, ok2 := boolOf(sn)
			c.Hit("law:sne-complement")
			if !(ok1 && ok2 && s1 != s2) {
				r.viol("sne-not-seq:"+pairClasses(a, b), a.Show()+" === "+b.Show()+" is "+showOut(se)+" and !== is "+showOut(sn), mk("sne", a, b))
			}
			cm, lt, gt := t[tkey("cmp", a, b)], t[tkey("lt", a, b)], t[tkey("gt", a, b)]
			c.Hit("law:spaceship")
			l1, okl := boolOf(lt)
			g1, okg := boolOf(gt)
			agree := false
			switch {
			case cm.Kind == "val" && cm.Val.K == "i" && okl && okg:
				agree = (cm.Val.I == -1) == l1 && (cm.Val.I == 1) == g1 && (cm.Val.I >= -1 && cm.Val.I <= 1)
			case cm.Kind == "err" && lt.Kind == "err" && gt.Kind == "err":
				agree = true
			}
			if !agree {
				r.viol("cmp-lt:"+pairClasses(a, b), a.Show()+" <=> "+b.Show()+" is "+showOut(cm)+" but < is "+showOut(lt)+" and > is "+showOut(gt), mk("cmp", a, b))
			}
			// the seven comparison operators read one comparison (data.LooseCompare): <= is < or ==,
			// >= is > or ==, a < b is b > a, == implies <=> 0
			if le, ok := t[tkey("le", a, b)]; ok {
				ge := t[tkey("ge", a, b)]
				c.Hit("law:le-ge")
				lb, okle := boolOf(le)
				gb, okge := boolOf(ge)
				if !(okl && okg && ok1e(eq) && okle && okge && lb == (l1 || eqTrue(eq)) && gb == (g1 || eqTrue(eq))) {
					r.viol("le-ge:"+pairClasses(a, b), a.Show()+" <= "+b.Show()+" is "+showOut(le)+", >= is "+showOut(ge)+" but < is "+showOut(lt)+", > is "+showOut(gt)+", == is "+showOut(eq), mk("le", a, b))
				}
			}
			tg := t[tkey("gt", b, a)]
			c.Hit("law:lt-gt-mirror")
			if !sameOutcome(lt, tg) {
				r.viol("lt-gt-mirror:"+sortedClasses(a, b), a.Show()+" < "+b.Show()+" is "+showOut(lt)+" but "+b.Show()+" > "+a.Show()+" is "+showOut(tg), mk("lt", a, b))
			}
			c.Hit("law:eq-cmp")
			if eqTrue(eq) && !(cm.Kind == "val" && cm.Val.K == "i" && cm.Val.I == 0) {
				r.viol("eq-cmp:"+pairClasses(a, b), a.Show()+" == "+b.Show()+" is true but <=> is "+showOut(cm), mk("cmp", a, b))
			}
			if isNum(a) && isNum(b) {
				q := t[tkey("quo", a, b)]
				c.Hit("law:div-float")
				if !(q.Kind == "val" && q.Val.K == "f") && !(q.Kind == "err" && errKind(q.Msg) == "divzero") {
					r.viol("quo-not-float:"+pairClasses(a, b), a.Show()+" / "+b.Show()+" is "+showOut(q), mk("quo", a, b))
				}
				if (b.K == "i" && b.I == 0) || (b.K == "f" && b.Float() == 0) {
					for _, op := range []string{"quo", "rem"} {
						z := t[tkey(op, a, b)]
						c.Hit("law:zero-divisor")
						if z.Kind != "err" {
							r.viol("zero-div:"+op+":"+pairClasses(a, b), a.Show()+" "+opByName[op].Sym+" "+b.Show()+" is "+showOut(z)+", expected a catchable error", mk(op, a, b))
						}
					}
				}
			}
		}
	}
}

// truthiness: one value through every context
func (r *runner) truthLaw(vals []V) {
	c := r.c
	var cases []Case
	for _, v := range vals {
		for _, t := range truthCtx {
			cases = append(cases, Case{Kind: "truth", Op: t, A: v})
		}
	}
	for len(cases) > 0 {
		n := len(cases)
		if n > 600 {
			n = 600 - 600%len(truthCtx)
		}
		outs := r.process(cases[:n])
		for i := 0; i < n; i += len(truthCtx) {
			v := cases[i].A
			var ts, fs []string
			bad := false
			for j, t := range truthCtx {
				b, ok := boolOf(outs[i+j])
				switch {
				case !ok:
					bad = true
				case b:
					ts = append(ts, t)
				default:
					fs = append(fs, t)
				}
			}
			c.Hit("law:truthy-uniform")
			if bad || (len(ts) > 0 && len(fs) > 0) {
				r.viol("truthy:"+v.Class(), v.Show()+" is true in ["+strings.Join(ts, " ")+"] and false in ["+strings.Join(fs, " ")+"]", Case{Kind: "truth", Op: "all", A: v})
			}
		}
		cases = cases[n:]
	}
}

// the full operator × vals × vals matrix (+ the same-variable diagonal) and the laws on it
func (r *runner) matrix(vals []V) {
	t := table{}
	var batch []Case
	flush := func() {
		if len(batch) == 0 {
			return
		}
		outs := r.process(batch)
		for i, cs := range batch {
			if cs.Kind == "bin" && !cs.Same {
				t[tkey(cs.Op, cs.A, *cs.B)] = outs[i]
			}
		}
		batch = batch[:0]
	}
	for i := range vals {
		a := vals[i]
		for _, op := range binOps {
			for j := range vals {
				b := vals[j]
				batch = append(batch, Case{Kind: "bin", Op: op.Name, A: a, B: &b})
			}
			batch = append(batch, Case{Kind: "bin", Op: op.Name, A: a, B: &a, Same: true})
			if len(batch) >= 700 {
				flush()
			}
		}
		for _, op := range unOps {
			batch = append(batch, Case{Kind: "un", Op: op.Name, A: a})
		}
	}
	flush()
	r.laws(vals, t)
	r.truthLaw(vals)
}

// operand kind "void call": a call of a function that returns nothing, written directly as the left /
// right / only operand of every operator and in every truthiness context. 'No value' is identified with
// null at the operator boundary: the twin case with null in a variable goes through process (model,
// documented results, result kind), the void case must not crash and must give exactly the twin's outcome.
func (r *runner) voidOperands(vals []V) {
	var void, twin []Case
	add := func(c Case) {
		t := c
		t.Void = ""
		void, twin = append(void, c), append(twin, t)
	}
	null := vn()
	for _, op := range binOps {
		for i := range vals {
			w := vals[i]
			add(Case{Kind: "bin", Op: op.Name, A: null, B: &w, Void: "a"})
			add(Case{Kind: "bin", Op: op.Name, A: w, B: &null, Void: "b"})
		}
		add(Case{Kind: "bin", Op: op.Name, A: null, B: &null, Void: "ab"})
	}
	for _, op := range unOps {
		add(Case{Kind: "un", Op: op.Name, A: null, Void: "a"})
	}
	for _, tc := range truthCtx {
		add(Case{Kind: "truth", Op: tc, A: null, Void: "a"})
	}
	touts := r.process(twin)
	vouts := evalBatch(r.e, void)
	for i, cs := range void {
		o := vouts[i]
		if o.Kind != "val" {
			if b := evalBare(r.e, cs); b.Kind == "crash" {
				o = b
			}
		}
		r.c.Eval(cs.Key(), true)
		r.c.Hit("void:" + cs.Kind + ":" + cs.Op + ":" + cs.Void)
		r.c.Hit("void-outcome:" + o.Kind)
		switch {
		case o.Kind == "crash":
			r.viol("crash:"+cs.Op+":"+cs.classes(), "Go panic evaluating "+cs.Show()+": "+firstLine(o.Msg), cs)
		case canonOut(o, false) != canonOut(touts[i], false):
			r.viol("void-not-null:"+cs.Op, cs.Show()+" gives "+showOut(o)+", the same with null in place of the call gives "+showOut(touts[i]), cs)
		}
	}
}

// literal right operands: the fused / literal-child nodes must agree with the plain nodes
func (r *runner) fastPaths(vals []V) {
	lits := []V{vi(0), vi(1), vi(-1), vi(5), vi(63), vf(0.5), vs("a"), vs(""), vs("0"), vb(true), vb(false), vn()}
	var cases, plain []Case
	for _, a := range vals {
		if !a.Scalar() && a.K != "a" {
			continue
		}
		for _, op := range binOps {
			for k := range lits {
				l := lits[k]
				if l.K == "i" && l.I < 0 && (op.Name == "sub" || op.Name == "add") {
					continue // `$a -1` lexes differently; not an operator question
				}
				cases = append(cases, Case{Kind: "fast", Op: op.Name, A: a, B: &l})
				plain = append(plain, Case{Kind: "bin", Op: op.Name, A: a, B: &l})
			}
		}
		for k := range lits {
			if l := lits[k]; l.K == "i" {
				cases = append(cases, Case{Kind: "forle", Op: "le", A: a, B: &l})
				plain = append(plain, Case{Kind: "bin", Op: "le", A: a, B: &l})
			}
		}
	}
	for len(cases) > 0 {
		n := len(cases)
		if n > 600 {
			n = 600
		}
		fo := r.process(cases[:n])
		po := evalBatch(r.e, plain[:n])
		for i := 0; i < n; i++ {
			r.c.Hit("law:literal-operand")
			x, y := fo[i], po[i]
			if y.Kind == "crash" || y.Kind == "err" {
				// compare kinds only (the plain form was not re-run outside try)
				if x.Kind == "val" {
					r.viol("literal-differs:"+cases[i].Op+":"+cases[i].classes(), cases[i].Show()+" gives "+showOut(x)+" but with the literal in a variable "+showOut(y), cases[i])
				}
				continue
			}
			if canonOut(x, false) != canonOut(y, false) {
				r.viol("literal-differs:"+cases[i].Op+":"+cases[i].classes(), cases[i].Show()+" gives "+showOut(x)+" but with the literal in a variable "+showOut(y), cases[i])
			}
		}
		cases, plain = cases[n:], plain[n:]
	}
}

// ------------------------------------------------------------ random operands (thorough)

func randVal(rd *vh.Rand) V {
	switch rd.Intn(20) {
	case 0, 1, 2:
		return vi(int64(rd.Intn(41) - 20))
	case 3, 4:
		return vi(int64(rd.U64()))
	case 5:
		edge := []int64{minInt, maxInt, minInt + 1, maxInt - 1, 1 << 53, 1<<53 + 1, -(1 << 53) - 1, 1 << 62, 1 << 31, -(1 << 31), 62, 63, 64, 65}
		return vi(vh.Pick(rd, edge))
	case 6, 7:
		return vf(float64(rd.Intn(41)-20) / 4)
	case 8:
		return vf(math.Float64frombits(rd.U64()))
	case 9:
		edge := []float64{0, math.Copysign(0, -1), 0.5, -0.5, 0.999, 1e308, -1e308, 5e-324, 9.223372036854775808e18, -9.223372036854775808e18,
			9.223372036854774784e18, 1 << 53, math.Inf(1), math.Inf(-1), math.NaN(), 1e19, 63.5, 64, 0.1, 0.2, 0.3}
		return vf(vh.Pick(rd, edge))
	case 10, 11, 12:
		alpha := []string{"0", "1", "2", "9", ".", "-", "e", "a", "b", " ", "+", "x", "E", "_", "\x00", "é", "n", "f", "i"}
		n := rd.Intn(5)
		var sb strings.Builder
		for i := 0; i < n; i++ {
			sb.WriteString(vh.Pick(rd, alpha))
		}
		return vs(sb.String())
	case 13:
		words := []string{"", "0", "0.0", "1", "-1", "10", "9", "1.5", "1e3", "abc", "true", "false", "null", "inf", "nan", "Infinity", "0x1A", "1_000", " 1", "1 ",
			"9223372036854775807", "9223372036854775808", "-9223372036854775808", "1e999", "+5", ".5", "5.", "007"}
		return vs(vh.Pick(rd, words))
	case 14, 15:
		return vb(rd.Bool())
	case 16:
		return vn()
	case 17:
		return va(rd.Intn(4))
	case 18:
		return V{K: "o"}
	}
	return V{K: "c"}
}

func (r *runner) random(n int) {
	// vh.NewRand(seed) states of neighbouring seeds differ by one step of the generator; re-seed through a mix
	rd := vh.NewRand(r.c.Rand.U64() ^ (r.c.Seed * 0xD6E8FEB86659FD93) ^ 0x5851F42D4C957F2D)
	var batch []Case
	for i := 0; i < n; i++ {
		a, b := randVal(rd), randVal(rd)
		switch rd.Intn(12) {
		case 0:
			batch = append(batch, Case{Kind: "un", Op: vh.Pick(rd, unOps).Name, A: a})
		case 1:
			batch = append(batch, Case{Kind: "truth", Op: vh.Pick(rd, truthCtx), A: a})
		default:
			batch = append(batch, Case{Kind: "bin", Op: vh.Pick(rd, binOps).Name, A: a, B: &b})
		}
		if len(batch) >= 500 {
			r.process(batch)
			batch = batch[:0]
		}
	}
	r.process(batch)
	// the script's own view of the result kind on random pairs
	var obs []Case
	for i := 0; i < n/20; i++ {
		a, b := randVal(rd), randVal(rd)
		if rd.Intn(8) == 0 {
			obs = append(obs, obsForms(vh.Pick(rd, unOps).Name, a, nil, true)...)
		} else {
			obs = append(obs, obsForms(vh.Pick(rd, binOps).Name, a, &b, true)...)
		}
	}
	r.observe(obs)
	// the pairwise laws on random small sets
	for k := 0; k < n/4000; k++ {
		var vals []V
		for i := 0; i < 12; i++ {
			vals = append(vals, randVal(rd))
		}
		// distinct encodings only (the law table is keyed by encoding)
		seen := map[string]bool{}
		var uniq []V
		for _, v := range vals {
			if !seen[v.Enc()] {
				seen[v.Enc()] = true
				uniq = append(uniq, v)
			}
		}
		r.matrixLawsOnly(uniq)
	}
}

func (r *runner) matrixLawsOnly(vals []V) {
	t := table{}
	var batch []Case
	for i := range vals {
		for _, op := range []string{"eq", "ne", "seq", "sne", "lt", "le", "gt", "ge", "cmp", "quo", "rem"} {
			for j := range vals {
				b := vals[j]
				batch = append(batch, Case{Kind: "bin", Op: op, A: vals[i], B: &b})
			}
		}
	}
	for len(batch) > 0 {
		n := len(batch)
		if n > 600 {
			n = 600
		}
		outs := r.process(batch[:n])
		for i, cs := range batch[:n] {
			t[tkey(cs.Op, cs.A, *cs.B)] = outs[i]
		}
		batch = batch[n:]
	}
	r.laws(vals, t)
	r.truthLaw(vals)
}

// ------------------------------------------------------------ entry

func Run(c *vh.Ctx) {
	r := &runner{c: c, e: newEnv(), sigs: map[string]sigRec{}}
	if p := os.Getenv("C03_SIGS_OUT"); p != "" {
		defer func() {
			b, _ := json.MarshalIndent(r.sigs, "", " ")
			os.WriteFile(p, b, 0o644)
		}()
	}
	if m, err := vh.StartModel(c.ModelPath); err == nil {
		r.m = m
		c.Res.ModelUsed = true
		defer m.Close()
	} else {
		c.Note("running without the model driver: %v", err)
	}
	c.Res.Rule = "one evaluation = one operator applied to one operand pair (or one value in one truthiness context) by the real interpreter; non-trivial = everything except a plain true/false of a truthiness context; distinct by (operator, operand encodings)"

	if len(c.ReplayRaw) > 0 {
		var rc struct {
			Kind string
			Src  string
		}
		json.Unmarshal(c.ReplayRaw, &rc)
		if rc.Kind == "script" {
			o := vh.RunFresh(rc.Src)
			fmt.Printf("kind=%s detail=%s\nout:\n%s\n", o.Kind, o.Detail, o.Out)
			return
		}
		var cs Case
		if err := json.Unmarshal(c.ReplayRaw, &cs); err != nil {
			c.Note("bad replay: %v", err)
			return
		}
		r.replay(cs)
		return
	}

	r.checkKindTables()
	r.corpus()
	pool := boundaryPool()
	r.matrix(pool)
	r.fastPaths(pool)
	r.voidOperands(kindPool())
	r.observeAll(pool, kindPool())
	c.Res.Exhaustive = true
	c.Res.ExhaustiveWhat = fmt.Sprintf("all %d binary operators × %d×%d boundary operands (+ the same-variable diagonal), %d unary operators/casts × %d operands, %d truthiness contexts × %d operands, literal-right-operand forms; every non-value outcome re-run outside try; the result kind fixed by the language (. string, comparisons/logical bool, <=> int, / float, bit operations and shifts int, - * ** %% number) asserted on every one of these evaluations and through gettype() in the script on the same %d×%d pairs, is_<kind>() / === documented result / the next operator (+ 1) on %d×%d kind representatives",
		len(binOps), len(pool), len(pool), len(unOps), len(pool), len(truthCtx), len(pool), len(pool), len(pool), len(kindPool()), len(kindPool()))
	r.random(c.N(4000, 400000))
	if r.m != nil {
		c.Res.ModelLines = r.m.Lines
	}
	// stable order of notes
	sort.Strings(c.Res.Notes)
}

// corpus/C03/*.json: minimised past failures (one Case per file), run first
func (r *runner) corpus() {
	files, _ := filepath.Glob(filepath.Join("..", "corpus", "C03", "*.json"))
	sort.Strings(files)
	var cases []Case
	for _, f := range files {
		b, err := os.ReadFile(f)
		if err != nil {
			continue
		}
		var cs Case
		if json.Unmarshal(b, &cs) != nil || cs.Kind == "" {
			r.c.Note("corpus file %s is not a case", f)
			continue
		}
		if cs.Kind == "truth" && cs.Op == "all" {
			r.truthLaw([]V{cs.A})
			continue
		}
		if cs.Kind == "obs" {
			r.observe([]Case{cs})
			continue
		}
		cases = append(cases, cs)
		if cs.Kind == "bin" && cs.B != nil && !cs.Same {
			r.matrixLawsOnly(uniqVals([]V{cs.A, *cs.B}))
		}
	}
	if len(cases) > 0 {
		r.process(cases)
	}
	r.c.HitN("corpus-cases", len(files))
}

func (r *runner) replay(cs Case) {
	r.print = true
	c := r.c
	fmt.Printf("case: %s\n", cs.Show())
	if cs.Kind == "truth" && cs.Op == "all" {
		r.truthLaw([]V{cs.A})
	} else if cs.Kind == "obs" {
		r.observe([]Case{cs})
	} else {
		outs := r.process([]Case{cs})
		fmt.Printf("  impl : %s  (%s)\n", canonOut(outs[0], false), firstLine(outs[0].Msg))
		if cs.Kind == "bin" && cs.B != nil && !cs.Same {
			// the pairwise laws on this pair
			r.matrixLawsOnly(uniqVals([]V{cs.A, *cs.B}))
		}
	}
	for _, v := range c.Res.Violations {
		fmt.Printf("  VIOLATION %s: %s\n", v.Sig, v.What)
	}
	for s, w := range c.Res.KnownConfirmed {
		fmt.Printf("  known %s: %s\n", s, w)
	}
	for _, m := range c.Res.Mismatches {
		fmt.Printf("  MISMATCH impl=%s model=%s (%s)\n", m.Impl, m.Model, m.Note)
	}
}

func uniqVals(vs []V) []V {
	seen := map[string]bool{}
	var out []V
	for _, v := range vs {
		if !seen[v.Enc()] {
			seen[v.Enc()] = true
			out = append(out, v)
		}
	}
	return out
}
