package c03

import (
	"math"
	"strconv"
	"strings"
)

// Go reference of Spec.Ops (the documented results), written against the
// statement of the property and docs/operators.md, not against the node
// implementations and not against the Lean model. ok=false: outside the
// documented domain. Comparisons of operands of different kinds follow the PHP-8
// table in its "convert the pair, then compare like with like" form (refConv).

func isNum(v V) bool { return v.K == "i" || v.K == "f" }

func toF(v V) float64 {
	if v.K == "i" {
		return float64(v.I)
	}
	return v.Float()
}

func refTruthy(v V) bool {
	switch v.K {
	case "i":
		return v.I != 0
	case "f":
		return v.Float() != 0
	case "b":
		return v.B
	case "s":
		return v.S != ""
	case "n":
		return false
	case "a":
		return v.N > 0
	}
	return true // objects
}

func rv(v V) (Out, bool)        { return Out{Kind: "val", Val: v}, true }
func rerr(k string) (Out, bool) { return Out{Kind: "err", Msg: k}, true }

// int(f) as the platform computes it
func goToInt(f float64) int64 { return int64(f) }

func strLess(a, b string) bool { return a < b }

// same-kind (and int/float) rules
func baseOrder(a, b V) (lt, le bool, ok bool) {
	switch {
	case a.K == "i" && b.K == "i":
		return a.I < b.I, a.I <= b.I, true
	case a.K == "s" && b.K == "s":
		x, y := a.Str(), b.Str()
		return strLess(x, y), !strLess(y, x), true
	case a.K == "b" && b.K == "b":
		return !a.B && b.B, !a.B || b.B, true // false < true
	case a.K == "n" && b.K == "n":
		return false, true, true
	case isNum(a) && isNum(b):
		x, y := toF(a), toF(b)
		return x < y, x <= y, true
	}
	return false, false, false
}

func baseEq(a, b V) (bool, bool) {
	switch {
	case a.K == "i" && b.K == "i":
		return a.I == b.I, true
	case a.K == "s" && b.K == "s":
		return a.S == b.S, true
	case a.K == "b" && b.K == "b":
		return a.B == b.B, true
	case a.K == "n" && b.K == "n":
		return true, true
	case isNum(a) && isNum(b):
		return toF(a) == toF(b), true
	}
	return false, false
}

// number n against string s (PHP 8): a numeric string is read as a number — an
// integer when n is one and s is written as one — any other string is compared
// with the number written as a string.
func convNumStr(n V, s string) (V, V) {
	if n.K == "i" {
		if k, err := strconv.Atoi(s); err == nil {
			return n, vi(int64(k))
		}
	}
	if f, err := strconv.ParseFloat(s, 64); err == nil {
		return n, vf(f)
	}
	if n.K == "i" {
		return vs(strconv.FormatInt(n.I, 10)), vs(s)
	}
	return vs(strconv.FormatFloat(n.Float(), 'g', 14, 64)), vs(s)
}

// refConv: the PHP-8 conversion of an operand pair before a loose comparison:
// null/bool against anything → booleans (null against a string → ""), number
// against string → see convNumStr, everything else unchanged.
func refConv(a, b V) (V, V) {
	nb := func(v V) bool { return v.K == "n" || v.K == "b" }
	switch {
	case a.K == "n" && b.K == "s":
		return vs(""), b
	case a.K == "s" && b.K == "n":
		return a, vs("")
	case isNum(a) && b.K == "s":
		return convNumStr(a, b.Str())
	case a.K == "s" && isNum(b):
		y, x := convNumStr(b, a.Str())
		return x, y
	case nb(a) || nb(b):
		return vb(refTruthy(a)), vb(refTruthy(b))
	}
	return a, b
}

func refOrder(a, b V) (lt, le bool, ok bool) {
	x, y := refConv(a, b)
	return baseOrder(x, y)
}

func refLooseEq(a, b V) (bool, bool) {
	x, y := refConv(a, b)
	return baseEq(x, y)
}

func refStrictEq(a, b V) (bool, bool) {
	if !a.Scalar() || !b.Scalar() {
		return false, false
	}
	if a.K != b.K {
		return false, true
	}
	switch a.K {
	case "i":
		return a.I == b.I, true
	case "f":
		return a.Float() == b.Float(), true
	case "s":
		return a.S == b.S, true
	case "b":
		return a.B == b.B, true
	}
	return true, true // null
}

func refBin(op string, a, b V) (Out, bool) {
	bothInt := a.K == "i" && b.K == "i"
	num := isNum(a) && isNum(b)
	bothStr := a.K == "s" && b.K == "s"
	switch op {
	case "add", "sub", "mul":
		if op == "add" && bothStr {
			return rv(vs(a.Str() + b.Str()))
		}
		if bothInt {
			switch op {
			case "add":
				return rv(vi(a.I + b.I))
			case "sub":
				return rv(vi(a.I - b.I))
			}
			return rv(vi(a.I * b.I))
		}
		if num {
			x, y := toF(a), toF(b)
			switch op {
			case "add":
				return rv(vf(x + y))
			case "sub":
				return rv(vf(x - y))
			}
			return rv(vf(x * y))
		}
	case "quo":
		if num {
			if toF(b) == 0 {
				return rerr("divzero")
			}
			return rv(vf(toF(a) / toF(b)))
		}
	case "rem":
		if bothInt {
			if b.I == 0 {
				return rerr("divzero")
			}
			if b.I == -1 {
				return rv(vi(0))
			}
			return rv(vi(a.I % b.I))
		}
		if a.K == "f" && b.K == "f" {
			x, y := goToInt(a.Float()), goToInt(b.Float())
			if y == 0 {
				return rerr("divzero")
			}
			if y == -1 {
				return rv(vf(0))
			}
			return rv(vf(float64(x % y)))
		}
	case "pow":
		if num {
			r := math.Pow(toF(a), toF(b))
			if bothInt && r == math.Trunc(r) && r < 9223372036854775808.0 && r >= -9223372036854775808.0 {
				return rv(vi(int64(r)))
			}
			return rv(vf(r))
		}
	case "band", "bor", "bxor":
		if bothInt {
			switch op {
			case "band":
				return rv(vi(a.I & b.I))
			case "bor":
				return rv(vi(a.I | b.I))
			}
			return rv(vi(a.I ^ b.I))
		}
	case "shl", "shr":
		if bothInt {
			if b.I < 0 {
				return rerr("negshift")
			}
			if op == "shl" {
				if b.I >= 64 {
					return rv(vi(0))
				}
				return rv(vi(int64(uint64(a.I) << uint(b.I))))
			}
			if b.I >= 64 {
				if a.I < 0 {
					return rv(vi(-1))
				}
				return rv(vi(0))
			}
			return rv(vi(a.I >> uint(b.I)))
		}
	case "eq", "ne":
		if e, ok := refLooseEq(a, b); ok {
			return rv(vb(e == (op == "eq")))
		}
	case "seq", "sne":
		if e, ok := refStrictEq(a, b); ok {
			return rv(vb(e == (op == "seq")))
		}
	case "lt", "le":
		if lt, le, ok := refOrder(a, b); ok {
			if op == "lt" {
				return rv(vb(lt))
			}
			return rv(vb(le))
		}
	case "gt", "ge":
		if lt, le, ok := refOrder(b, a); ok {
			if op == "gt" {
				return rv(vb(lt))
			}
			return rv(vb(le))
		}
	case "cmp":
		lt, _, ok1 := refOrder(a, b)
		gt, _, ok2 := refOrder(b, a)
		if ok1 && ok2 {
			switch {
			case lt:
				return rv(vi(-1))
			case gt:
				return rv(vi(1))
			}
			return rv(vi(0))
		}
	case "land":
		return rv(vb(refTruthy(a) && refTruthy(b)))
	case "lor":
		return rv(vb(refTruthy(a) || refTruthy(b)))
	case "dot":
		// every scalar pair: concatenation of the documented string forms
		if x, ok := refRender(a); ok {
			if y, ok := refRender(b); ok {
				return rv(vs(x + y))
			}
		}
	}
	return Out{}, false
}

// the string form `.` gives a scalar (docs/data-types.md: (string) 42 is "42", (string) true is "1",
// (string) null is ""; PHP: false is ""; a float the way the language prints it)
func refRender(v V) (string, bool) {
	switch v.K {
	case "s":
		return v.Str(), true
	case "i":
		return strconv.FormatInt(v.I, 10), true
	case "f":
		return strconv.FormatFloat(v.Float(), 'g', 14, 64), true
	case "b":
		if v.B {
			return "1", true
		}
		return "", true
	case "n":
		return "", true
	}
	return "", false
}

// ------------------------------------------------------------ result kinds fixed by the language

// The kind (type) of the result of these operators does not depend on the operands: `.` a string;
// comparison, identity and logical operators, `!`, (bool) a bool; `<=>`, bit operations, shifts, `~`,
// (int) an int; `/`, (float) a float. Written from the statement of the property, compared with
// Spec.Ops.fixedKind through the driver; asserted on EVERY operand pair (mixed kinds, the empty string, null, false,
// arrays, objects) whenever the evaluation yields a value.
var fixedKind = map[string]string{
	"dot": "s",
	"eq":  "b", "ne": "b", "seq": "b", "sne": "b", "lt": "b", "le": "b", "gt": "b", "ge": "b", "land": "b", "lor": "b",
	"cmp": "i", "quo": "f",
	"band": "i", "bor": "i", "bxor": "i", "shl": "i", "shr": "i",
	"not": "b", "castb": "b", "casti": "i", "bnot": "i", "castf": "f",
}

// operators defined on every operand pair: an error is a violation
var alwaysValue = map[string]bool{
	"dot": true, "eq": true, "ne": true, "seq": true, "sne": true, "lt": true, "le": true, "gt": true, "ge": true,
	"cmp": true, "land": true, "lor": true, "not": true, "castb": true,
}

// arithmetic that yields a number (int or float) whenever it yields a value
var numericResult = map[string]bool{"sub": true, "mul": true, "pow": true, "rem": true, "neg": true}

// kinds the result of op may have when the left operand is a (nil: no claim). `%`: the kind of the
// dividend (int % int is an int as documented; a float dividend gives a float — notes/C03.md).
func expectedKinds(op string, a V) []string {
	if k, ok := fixedKind[op]; ok {
		return []string{k}
	}
	if op == "rem" && isNum(a) {
		return []string{a.K}
	}
	if numericResult[op] {
		return []string{"i", "f"}
	}
	return nil
}

var kindNames = map[string]string{"s": "string", "b": "bool", "i": "int", "f": "float", "n": "null", "a": "array", "o": "object", "c": "instance"}

func kindList(ks []string) string {
	var n []string
	for _, k := range ks {
		n = append(n, kindNames[k])
	}
	return strings.Join(n, " or ")
}

func refUn(op string, a V) (Out, bool) {
	switch op {
	case "neg":
		switch a.K {
		case "i":
			return rv(vi(-a.I))
		case "f":
			return rv(vf(-a.Float()))
		}
	case "bnot":
		if a.K == "i" {
			return rv(vi(^a.I))
		}
	case "not":
		return rv(vb(!refTruthy(a)))
	case "castb":
		return rv(vb(refTruthy(a)))
	case "casti":
		switch a.K {
		case "i":
			return rv(a)
		case "f":
			return rv(vi(goToInt(a.Float())))
		case "b":
			if a.B {
				return rv(vi(1))
			}
			return rv(vi(0))
		case "n":
			return rv(vi(0))
		}
	case "castf":
		switch a.K {
		case "i":
			return rv(vf(float64(a.I)))
		case "f":
			return rv(a)
		case "b":
			if a.B {
				return rv(vf(1))
			}
			return rv(vf(0))
		case "n":
			return rv(vf(0))
		case "s":
			if f, err := strconv.ParseFloat(a.Str(), 64); err == nil {
				return rv(vf(f))
			}
		}
	}
	return Out{}, false
}

// ------------------------------------------------------------ canonical forms

// error message → kind (the model's ErrKind)
func errKind(msg string) string {
	switch {
	case strings.Contains(msg, "除零"):
		return "divzero"
	case strings.Contains(msg, "strconv.") || strings.Contains(msg, "invalid syntax") || strings.Contains(msg, "out of range"):
		return "parse"
	case strings.Contains(msg, "位移"):
		return "negshift"
	}
	return "unsupported"
}

func canonVal(v V) string {
	if v.K == "f" && math.IsNaN(v.Float()) {
		return "f:nan"
	}
	return v.Enc()
}

// canonical rendering compared with the model's answer
func canonOut(o Out, _ bool) string {
	switch o.Kind {
	case "val":
		return "v " + canonVal(o.Val)
	case "err":
		k := o.Msg
		switch k {
		case "divzero", "parse", "negshift", "unsupported":
		default:
			k = errKind(k)
		}
		return "err:" + k
	}
	return o.Kind
}
