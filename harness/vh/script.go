package vh

import (
	"fmt"
	"runtime/debug"
	"strings"
	"sync"

	"github.com/php-any/origami/data"
	"github.com/php-any/origami/parser"
	"github.com/php-any/origami/runtime"
	"github.com/php-any/origami/std"
	"github.com/php-any/origami/std/net/http"
	"github.com/php-any/origami/std/php"
	"github.com/php-any/origami/std/system"
)

// Script execution in-process. data.WriteOutput is a package-level variable in
// origami, so in-process runs are serialised by scriptMu.
var scriptMu sync.Mutex

type VMEnv struct {
	VM     data.VM
	Raw    *runtime.VM
	Parser *parser.Parser
	Thrown []string
}

// NewEnv builds a VM the way zy.go does (std, php, http, system).
func NewEnv() *VMEnv {
	p := parser.NewParser()
	vm := runtime.NewVM(p)
	std.Load(vm)
	php.Load(vm)
	http.Load(vm)
	system.Load(vm)
	e := &VMEnv{VM: vm, Parser: p}
	if rv, ok := vm.(*runtime.VM); ok {
		e.Raw = rv
	}
	vm.SetThrowControl(func(acl data.Control) {
		e.Thrown = append(e.Thrown, acl.AsString())
	})
	return e
}

// Outcome of running one script.
type Outcome struct {
	Out    string // captured output
	Kind   string // ok | parse-error | uncaught | go-panic
	Detail string // message of the error / panic (first line)
	Stack  string
}

func (o Outcome) String() string {
	return o.Kind + "|" + o.Out + "|" + o.Detail
}

func firstLine(s string) string {
	if i := strings.IndexByte(s, '\n'); i >= 0 {
		return s[:i]
	}
	return s
}

// RunSource parses and runs src on a fresh clone of the env's parser.
func (e *VMEnv) RunSource(src, path string) (o Outcome) {
	scriptMu.Lock()
	defer scriptMu.Unlock()
	var sb strings.Builder
	old := data.WriteOutput
	data.WriteOutput = func(s string) { sb.WriteString(s) }
	defer func() {
		data.WriteOutput = old
		o.Out = sb.String()
		if r := recover(); r != nil {
			if acl, ok := r.(data.Control); ok {
				o.Kind = "uncaught"
				o.Detail = firstLine(acl.AsString())
				return
			}
			o.Kind = "go-panic"
			o.Detail = firstLine(fmt.Sprint(r))
			o.Stack = string(debug.Stack())
		}
	}()
	p := e.Parser.Clone()
	prog, acl := p.ParseString(src, path)
	if acl != nil {
		o.Kind = "parse-error"
		o.Detail = firstLine(acl.AsString())
		return
	}
	vars := p.GetVariables()
	ctx := e.VM.CreateContext(vars)
	if e.Raw != nil {
		e.Raw.RegisterGlobalContext(vars, ctx)
	}
	_, ctl := prog.GetValue(ctx)
	if data.FlushAllBuffersFn != nil {
		data.FlushAllBuffersFn()
	}
	if ctl != nil {
		o.Kind = "uncaught"
		o.Detail = firstLine(ctl.AsString())
		return
	}
	o.Kind = "ok"
	return
}

// RunFresh runs src on a brand-new VM.
func RunFresh(src string) Outcome {
	return NewEnv().RunSource(src, "/verif-case.php")
}
