// Package vh is the common part of the correspondence / violation-search
// harness: seeded PRNG, the line-protocol client for the Lean model drivers,
// result bookkeeping (what was explored, model mismatches, property
// violations, confirmed known findings) and helpers that run origami scripts
// in-process.
package vh

import (
	"bufio"
	"encoding/json"
	"fmt"
	"io"
	"os"
	"os/exec"
	"sort"
	"strings"
	"sync"
	"syscall"
	"time"
)

// ---------------------------------------------------------------- PRNG

// Rand is splitmix64; every random choice of a run derives from one state.
type Rand struct{ s uint64 }

// NewRand mixes the seed first: without it, neighbouring seeds would give the same
// stream shifted by one draw (the state advances by a constant).
func NewRand(seed uint64) *Rand {
	z := seed + 0x9E3779B97F4A7C15
	z = (z ^ (z >> 30)) * 0xBF58476D1CE4E5B9
	z = (z ^ (z >> 27)) * 0x94D049BB133111EB
	return &Rand{s: z ^ (z >> 31)}
}

func (r *Rand) U64() uint64 {
	r.s += 0x9E3779B97F4A7C15
	z := r.s
	z = (z ^ (z >> 30)) * 0xBF58476D1CE4E5B9
	z = (z ^ (z >> 27)) * 0x94D049BB133111EB
	return z ^ (z >> 31)
}
func (r *Rand) Intn(n int) int {
	if n <= 0 {
		return 0
	}
	return int(r.U64() % uint64(n))
}
func (r *Rand) Bool() bool           { return r.U64()&1 == 1 }
func (r *Rand) Chance(p int) bool    { return r.Intn(100) < p }
func (r *Rand) Range(lo, hi int) int { return lo + r.Intn(hi-lo+1) }
func Pick[T any](r *Rand, xs []T) T  { return xs[r.Intn(len(xs))] }

// ---------------------------------------------------------------- model client

// Model talks to one Lean driver (a compiled lean_exe) over stdin/stdout:
// one request line, one response line.
type Model struct {
	cmd   *exec.Cmd
	in    *bufio.Writer
	out   *bufio.Reader
	Lines int
	dead  error
}

func StartModel(path string, args ...string) (*Model, error) {
	if path == "" {
		return nil, fmt.Errorf("no model executable")
	}
	cmd := exec.Command(path, args...)
	stdin, err := cmd.StdinPipe()
	if err != nil {
		return nil, err
	}
	stdout, err := cmd.StdoutPipe()
	if err != nil {
		return nil, err
	}
	cmd.Stderr = os.Stderr
	if err := cmd.Start(); err != nil {
		return nil, err
	}
	return &Model{cmd: cmd, in: bufio.NewWriterSize(stdin, 1<<16), out: bufio.NewReaderSize(stdout, 1<<16)}, nil
}

// Ask sends one line and reads one line back.
func (m *Model) Ask(line string) (string, error) {
	if m.dead != nil {
		return "", m.dead
	}
	if strings.ContainsAny(line, "\n\r") {
		return "", fmt.Errorf("model request contains newline")
	}
	m.in.WriteString(line)
	m.in.WriteByte('\n')
	if err := m.in.Flush(); err != nil {
		m.dead = err
		return "", err
	}
	resp, err := m.out.ReadString('\n')
	if err != nil {
		m.dead = fmt.Errorf("model died: %v", err)
		return "", m.dead
	}
	m.Lines++
	return strings.TrimRight(resp, "\n"), nil
}

// AskBatch pipelines many requests (the driver answers line by line).
func (m *Model) AskBatch(lines []string) ([]string, error) {
	if m.dead != nil {
		return nil, m.dead
	}
	res := make([]string, 0, len(lines))
	done := make(chan error, 1)
	go func() {
		for _, l := range lines {
			m.in.WriteString(l)
			m.in.WriteByte('\n')
		}
		done <- m.in.Flush()
	}()
	for range lines {
		resp, err := m.out.ReadString('\n')
		if err != nil {
			m.dead = fmt.Errorf("model died: %v", err)
			return res, m.dead
		}
		res = append(res, strings.TrimRight(resp, "\n"))
	}
	if err := <-done; err != nil {
		m.dead = err
		return res, err
	}
	m.Lines += len(lines)
	return res, nil
}

// AskParallel answers independent request lines with n driver processes (for STATELESS drivers,
// i.e. every line is answered on its own): the lines are split into n contiguous chunks, each
// piped through its own process; answers come back in request order.
func AskParallel(path string, lines []string, n int) ([]string, error) {
	if n < 1 {
		n = 1
	}
	if n > len(lines) {
		n = len(lines)
	}
	if n <= 1 {
		m, err := StartModel(path)
		if err != nil {
			return nil, err
		}
		defer m.Close()
		return m.AskBatch(lines)
	}
	res := make([]string, len(lines))
	errs := make([]error, n)
	var wg sync.WaitGroup
	per := (len(lines) + n - 1) / n
	for k := 0; k < n; k++ {
		lo, hi := k*per, (k+1)*per
		if hi > len(lines) {
			hi = len(lines)
		}
		if lo >= hi {
			continue
		}
		wg.Add(1)
		go func(k, lo, hi int) {
			defer wg.Done()
			m, err := StartModel(path)
			if err != nil {
				errs[k] = err
				return
			}
			defer m.Close()
			ans, err := m.AskBatch(lines[lo:hi])
			if err != nil {
				errs[k] = err
				return
			}
			copy(res[lo:hi], ans)
		}(k, lo, hi)
	}
	wg.Wait()
	for _, e := range errs {
		if e != nil {
			return nil, e
		}
	}
	return res, nil
}

func (m *Model) Close() {
	if m == nil || m.cmd == nil {
		return
	}
	if c, ok := m.cmd.Stdin.(io.Closer); ok {
		c.Close()
	}
	m.in.Flush()
	m.cmd.Process.Kill()
	m.cmd.Wait()
}

// ---------------------------------------------------------------- result

type Mismatch struct {
	Case  any    `json:"case"`
	Impl  string `json:"impl"`
	Model string `json:"model"`
	Note  string `json:"note,omitempty"`
}

type Violation struct {
	Sig  string `json:"sig"`  // signature matched against known_findings.json
	What string `json:"what"` // human readable
	Case any    `json:"case"` // concrete replayable input
}

type Result struct {
	Property       string            `json:"property"`
	Tier           string            `json:"tier"`
	Seed           uint64            `json:"seed"`
	Evaluations    int               `json:"evaluations"`
	Distinct       int               `json:"distinct_nontrivial"`
	Rule           string            `json:"rule"`
	Samples        []any             `json:"samples"`
	Exhaustive     bool              `json:"exhaustive"`
	ExhaustiveWhat string            `json:"exhaustive_what,omitempty"`
	Histogram      map[string]int    `json:"histogram"`
	ModelLines     int               `json:"model_lines"`
	ModelUsed      bool              `json:"model_used"`
	Traces         int               `json:"traces_validated_against_impl"`
	Mismatches     []Mismatch        `json:"mismatches"`
	MismatchCount  int               `json:"mismatch_count"`
	Violations     []Violation       `json:"violations"`
	ViolationCount int               `json:"violation_count"`
	KnownConfirmed map[string]string `json:"known_confirmed"` // sig -> what reproduced
	KnownGone      []string          `json:"known_not_reproduced"`
	Notes          []string          `json:"notes"`
	WallS          float64           `json:"wall_s"`
}

// Ctx is handed to a property runner.
type Ctx struct {
	ID        string
	Tier      string // quick | thorough
	Seed      uint64
	Rand      *Rand
	ModelPath string // "" when the model could not be built
	ReplayRaw json.RawMessage
	Known     map[string]bool // signatures listed as known in known_findings.json
	Res       *Result
	distinct  map[string]struct{}
	vioSeen   map[string]int
	start     time.Time
	Repo      string
	Scratch   string // per-run scratch dir (outside /repo and /verif), removed at exit
	Workers   int
}

func (c *Ctx) Thorough() bool { return c.Tier == "thorough" }

// Pick quick/thorough budget.
func (c *Ctx) N(quick, thorough int) int {
	if c.Thorough() {
		return thorough
	}
	return quick
}

func (c *Ctx) Hit(key string)          { c.Res.Histogram[key]++ }
func (c *Ctx) HitN(key string, n int)  { c.Res.Histogram[key] += n }
func (c *Ctx) Note(f string, a ...any) { c.Res.Notes = append(c.Res.Notes, fmt.Sprintf(f, a...)) }

// Eval counts one explored case; key identifies it for distinctness, and
// nontrivial says whether it counts as non-trivial by the runner's rule.
func (c *Ctx) Eval(key string, nontrivial bool) {
	c.Res.Evaluations++
	if nontrivial {
		if _, ok := c.distinct[key]; !ok {
			c.distinct[key] = struct{}{}
		}
	}
}

func (c *Ctx) Sample(x any) {
	if len(c.Res.Samples) < 8 {
		c.Res.Samples = append(c.Res.Samples, x)
	}
}

// SampleSome keeps a case as a sample with probability ~1/every.
func (c *Ctx) SampleSome(x any, every int) {
	if len(c.Res.Samples) < 8 && (c.Res.Evaluations%every == 0) {
		c.Res.Samples = append(c.Res.Samples, x)
	}
}

func (c *Ctx) Mismatch(cas any, impl, model, note string) {
	c.Res.MismatchCount++
	if len(c.Res.Mismatches) < 20 {
		c.Res.Mismatches = append(c.Res.Mismatches, Mismatch{cas, impl, model, note})
	}
}

// Violation records a failure of the property itself on the real code, judged
// by an oracle that does not involve the implementation model.
func (c *Ctx) Violation(sig, what string, cas any) {
	if c.Known[sig] {
		if _, ok := c.Res.KnownConfirmed[sig]; !ok {
			c.Res.KnownConfirmed[sig] = what
		}
		return
	}
	c.Res.ViolationCount++
	c.vioSeen[sig]++
	if c.vioSeen[sig] <= 2 && len(c.Res.Violations) < 20 {
		c.Res.Violations = append(c.Res.Violations, Violation{sig, what, cas})
	}
}

// KnownStillThere is called by the known stream when a listed finding reproduces.
func (c *Ctx) KnownStillThere(sig, what string) {
	if _, ok := c.Res.KnownConfirmed[sig]; !ok {
		c.Res.KnownConfirmed[sig] = what
	}
}

func (c *Ctx) Elapsed() time.Duration { return time.Since(c.start) }

// ---------------------------------------------------------------- registry / main

type Runner func(c *Ctx)

var runners = map[string]Runner{}

func Register(id string, r Runner) { runners[id] = r }

func IDs() []string {
	var ids []string
	for k := range runners {
		ids = append(ids, k)
	}
	sort.Strings(ids)
	return ids
}

// Main is the entry point of cmd/vh.
func Main(args []string) int {
	if len(args) >= 1 && args[0] == "__child" {
		return childMain(args[1:])
	}
	if len(args) < 1 {
		fmt.Fprintln(os.Stderr, "usage: vh <ID> [--tier quick|thorough] [--seed n] [--model exe] [--out file] [--known sig,sig] [--replay file]")
		return 2
	}
	id := args[0]
	r, ok := runners[id]
	if !ok {
		fmt.Fprintf(os.Stderr, "vh: no runner for %s (have %v)\n", id, IDs())
		return 2
	}
	c := &Ctx{ID: id, Tier: "quick", Seed: 1, Known: map[string]bool{}, distinct: map[string]struct{}{}, vioSeen: map[string]int{}, start: time.Now(), Repo: "/repo", Workers: 16}
	out := ""
	for i := 1; i < len(args); i++ {
		next := func() string {
			i++
			if i < len(args) {
				return args[i]
			}
			return ""
		}
		switch args[i] {
		case "--tier":
			c.Tier = next()
		case "--seed":
			fmt.Sscan(next(), &c.Seed)
		case "--model":
			c.ModelPath = next()
		case "--out":
			out = next()
		case "--repo":
			c.Repo = next()
		case "--known":
			for _, s := range strings.Split(next(), "\x1f") {
				if s != "" {
					c.Known[s] = true
				}
			}
		case "--known-file":
			b, err := os.ReadFile(next())
			if err == nil {
				var ks []string
				json.Unmarshal(b, &ks)
				for _, s := range ks {
					c.Known[s] = true
				}
			}
		case "--replay":
			b, err := os.ReadFile(next())
			if err != nil {
				fmt.Fprintln(os.Stderr, "vh: cannot read replay:", err)
				return 2
			}
			var rf struct {
				Case json.RawMessage `json:"case"`
			}
			if json.Unmarshal(b, &rf) == nil && len(rf.Case) > 0 {
				c.ReplayRaw = rf.Case
			} else {
				c.ReplayRaw = b
			}
		}
	}
	c.Rand = NewRand(c.Seed)
	c.Res = &Result{Property: id, Tier: c.Tier, Seed: c.Seed, Histogram: map[string]int{}, KnownConfirmed: map[string]string{}, Samples: []any{}, Mismatches: []Mismatch{}, Violations: []Violation{}, Notes: []string{}}
	scratch, err := os.MkdirTemp("", "vh-"+id+"-")
	if err == nil {
		c.Scratch = scratch
		defer os.RemoveAll(scratch)
	}
	func() {
		defer func() {
			if p := recover(); p != nil {
				c.Note("runner panicked: %v", p)
				c.Mismatch(nil, fmt.Sprint(p), "", "harness runner panic (machinery or implementation crash outside a guarded call)")
			}
		}()
		r(c)
	}()
	c.Res.Distinct = len(c.distinct)
	c.Res.WallS = time.Since(c.start).Seconds()
	for k := range c.Known {
		if _, ok := c.Res.KnownConfirmed[k]; !ok {
			c.Res.KnownGone = append(c.Res.KnownGone, k)
		}
	}
	sort.Strings(c.Res.KnownGone)
	b, _ := json.MarshalIndent(c.Res, "", " ")
	if out != "" {
		os.WriteFile(out, b, 0o644)
	} else {
		os.Stdout.Write(b)
		fmt.Println()
	}
	return 0
}

// Child-process registry: runners can re-invoke the harness binary as
// `vh __child <name> args…` for work that must survive a fatal error.
type ChildFn func(args []string) int

var children = map[string]ChildFn{}

func RegisterChild(name string, f ChildFn) { children[name] = f }

func childMain(args []string) int {
	if len(args) < 1 {
		return 2
	}
	f, ok := children[args[0]]
	if !ok {
		fmt.Fprintln(os.Stderr, "vh: unknown child", args[0])
		return 2
	}
	return f(args[1:])
}

// Self returns the path of the running harness binary.
func Self() string {
	p, err := os.Executable()
	if err != nil {
		return os.Args[0]
	}
	return p
}

// ProtocolStdout is for child processes that answer their parent over stdout while running origami
// code in-process: the interpreter prints some things straight to os.Stdout (var_dump, "Deprecated:
// …" notices, output written after a panic), and a stray line would be read as a protocol answer and
// shift every later one. It returns a private duplicate of fd 1 for the protocol and points fd 1 and
// os.Stdout at /dev/null. Call it first thing in the child.
func ProtocolStdout() *os.File {
	fd, err := syscall.Dup(1)
	if err != nil {
		return os.Stdout
	}
	if devnull, err := os.OpenFile(os.DevNull, os.O_WRONLY, 0); err == nil {
		syscall.Dup2(int(devnull.Fd()), 1)
		os.Stdout = devnull
	}
	return os.NewFile(uintptr(fd), "protocol")
}
