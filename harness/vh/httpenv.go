package vh

import (
	nethttp "net/http"
	"net/http/httptest"

	"github.com/php-any/origami/data"
)

// CountingRW records what the underlying connection sees: number of
// WriteHeader calls reaching it and the header snapshot at the first commit.
type CountingRW struct {
	*httptest.ResponseRecorder
	Commits int
	Snap    nethttp.Header
}

func NewCountingRW() *CountingRW { return &CountingRW{ResponseRecorder: httptest.NewRecorder()} }

func (c *CountingRW) snap() {
	if c.Snap == nil {
		c.Snap = c.Header().Clone()
	}
}

func (c *CountingRW) WriteHeader(code int) {
	c.Commits++
	c.snap()
	c.ResponseRecorder.WriteHeader(code)
}

func (c *CountingRW) Write(p []byte) (int, error) {
	c.snap() // implicit commit on first write
	return c.ResponseRecorder.Write(p)
}

// exposeFn is a script-callable function verif_expose($server) that hands the
// server's ServeMux to the harness (through the exported GetSource()).
type exposeFn struct{ sink *HTTPEnv }

func (e *exposeFn) Call(ctx data.Context) (data.GetValue, data.Control) {
	v, _ := ctx.GetIndexValue(0)
	if pv, ok := v.(*data.ProxyValue); ok {
		if s, ok := pv.Class.(interface{ GetSource() any }); ok {
			if m, ok := s.GetSource().(*nethttp.ServeMux); ok {
				e.sink.Mux = m
			}
		}
	}
	return nil, nil
}
func (e *exposeFn) GetName() string { return "verif_expose" }
func (e *exposeFn) GetParams() []data.GetValue {
	return []data.GetValue{data.NewParameter("s", 0)}
}
func (e *exposeFn) GetVariables() []data.Variable {
	return []data.Variable{data.NewVariable("s", 0, nil)}
}

// traceFn is verif_trace($s): appends to HTTPEnv.Trace.
type traceFn struct{ sink *HTTPEnv }

func (e *traceFn) Call(ctx data.Context) (data.GetValue, data.Control) {
	v, _ := ctx.GetIndexValue(0)
	if v != nil {
		if s, ok := v.(data.AsString); ok {
			e.sink.Trace = append(e.sink.Trace, s.AsString())
		}
	}
	return nil, nil
}
func (e *traceFn) GetName() string { return "verif_trace" }
func (e *traceFn) GetParams() []data.GetValue {
	return []data.GetValue{data.NewParameter("s", 0)}
}
func (e *traceFn) GetVariables() []data.Variable {
	return []data.Variable{data.NewVariable("s", 0, nil)}
}

type HTTPEnv struct {
	*VMEnv
	Mux   *nethttp.ServeMux
	Trace []string
}

// NewHTTPEnv runs a script that builds a Net\Http\Server, registers routes and
// calls verif_expose($server); afterwards requests are served in-process.
func NewHTTPEnv(script string) (*HTTPEnv, Outcome) {
	h := &HTTPEnv{VMEnv: NewEnv()}
	h.VM.AddFunc(&exposeFn{h})
	h.VM.AddFunc(&traceFn{h})
	o := h.RunSource(script, "/verif-http.php")
	return h, o
}

// Do serves one request; a panic escaping the handler is returned as string.
func (h *HTTPEnv) Do(method, url string) (rw *CountingRW, panicked any) {
	rw = NewCountingRW()
	req := httptest.NewRequest(method, url, nil)
	defer func() { panicked = recover() }()
	h.Mux.ServeHTTP(rw, req)
	return
}
