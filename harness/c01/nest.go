package c01

import (
	"encoding/hex"
	"fmt"
	"sort"
	"strings"

	"github.com/php-any/origami/token"

	"verif/harness/lexh"
	"verif/harness/vh"
)

// ---------------------------------------------------------------- the nesting stream
//
// A recursive-descent parser that tries one reading of a bracketed construct, rewinds and parses the
// same tokens under another reading does twice the work at that level; when the re-parsed part may
// contain the construct again, the work doubles per nesting level. Which construct, after which
// head, with which element in which position triggers the speculative reading cannot be known in
// advance (a bare `{` at statement level is a syntax error in the pinned tree: nothing in the
// corpus, in the generators or in a hand-written list nests it). So the nestable units are DERIVED,
// not listed:
//
//   grammar units   every bracket pair of token.TokenDefinitions (a definition whose literal is a
//                   single opening bracket and whose mirror image is defined too) behind every head:
//                   nothing (statement start), every literal of TokenDefinitions, and one exemplar of
//                   each token class that has no fixed literal (identifier, variable, number, string)
//   corpus units    every matched bracket pair of every file under tests/ and examples/, with the
//                   tokens from the start of its statement (or the enclosing opener) as head and the
//                   tokens up to the end of the statement as tail, one unit per distinct sequence of
//                   token types
//
// Each unit is nested in itself (and, sampled, in another unit: alternating) to a depth at which
// doubling per level is far above the linear work budget; the nested occurrence sits in each slot a
// separator of the grammar allows (first / later element; after `,` `;` `=>` `:`; followed by each).

type nestUnit struct {
	Open, Close string // Open = head + opener (original spacing for corpus units), Close = closer + tail
	Sig         string // token-type signature: what makes two units the same unit
	HeadKind    string // name of the last head token's type, or "start"
	Brackets    string // "{}", "()", "[]", "<>"
	From        string // "grammar" | corpus file
}

var mirrorBracket = map[string]string{"(": ")", "[": "]", "{": "}", "<": ">"}

func typeName(t token.TokenType) string {
	for _, d := range token.TokenDefinitions {
		if d.Type == t {
			return d.Literal
		}
	}
	return fmt.Sprintf("T%d", int(t))
}

// grammarUnits: (head, bracket pair) for every head the token table offers.
func grammarUnits() []nestUnit {
	have := map[string]bool{}
	for _, d := range token.TokenDefinitions {
		have[d.Literal] = true
	}
	var opens []string
	for o, c := range mirrorBracket {
		if have[o] && have[c] {
			opens = append(opens, o)
		}
	}
	sort.Strings(opens)
	heads := []string{"", "f0", "$a", "1", "1.5", "'k'", "\"k\""}
	for _, d := range token.TokenDefinitions {
		if d.Literal != "" && !strings.ContainsAny(d.Literal, "\n\r") {
			heads = append(heads, d.Literal)
		}
	}
	var out []nestUnit
	for _, o := range opens {
		for _, h := range heads {
			u := nestUnit{Open: o + " ", Close: " " + mirrorBracket[o], Brackets: o + mirrorBracket[o], From: "grammar", HeadKind: "start"}
			if h != "" {
				u.Open = h + " " + o + " "
				u.HeadKind = h
			}
			u.Sig = "g:" + u.Open
			out = append(out, u)
		}
	}
	return out
}

// corpusUnits: one unit per distinct (head types, opener, tail types) among the matched bracket
// pairs of the tokenised corpus.
func corpusUnits(files []lexh.Input, toks [][]lexh.Tok) []nestUnit {
	isOpen := map[token.TokenType]token.TokenType{token.LPAREN: token.RPAREN, token.LBRACKET: token.RBRACKET, token.LBRACE: token.RBRACE}
	isClose := map[token.TokenType]bool{token.RPAREN: true, token.RBRACKET: true, token.RBRACE: true}
	best := map[string]nestUnit{}
	for fi, f := range files {
		ts := toks[fi]
		src := f.Src
		real := func(k int) bool { // a token with a proper span in the source (not an inserted `;`)
			return ts[k].Start < ts[k].End && ts[k].End <= len(src)
		}
		match := make([]int, len(ts))
		for i := range match {
			match[i] = -1
		}
		var st []int
		for i, t := range ts {
			ty := token.TokenType(t.Ty)
			if _, ok := isOpen[ty]; ok {
				st = append(st, i)
			} else if isClose[ty] {
				if n := len(st); n > 0 && isOpen[token.TokenType(ts[st[n-1]].Ty)] == ty {
					match[st[n-1]] = i
					match[i] = st[n-1]
					st = st[:n-1]
				}
			}
		}
		for i := range ts {
			j := match[i]
			if j <= i || !real(i) || !real(j) {
				continue
			}
			// head: back to the start of the statement (`;`, `{`, `}` or an unmatched opener), skipping
			// balanced groups, at most 10 tokens
			s := i
			for k := i - 1; k >= 0 && i-k <= 10; k-- {
				ty := token.TokenType(ts[k].Ty)
				if ty == token.SEMICOLON || ty == token.LBRACE || ty == token.RBRACE && (k+1 < len(ts) && token.TokenType(ts[k+1].Ty) != token.ELSE && token.TokenType(ts[k+1].Ty) != token.ELSE_IF && token.TokenType(ts[k+1].Ty) != token.CATCH && token.TokenType(ts[k+1].Ty) != token.FINALLY && token.TokenType(ts[k+1].Ty) != token.WHILE) {
					break
				}
				if _, ok := isOpen[ty]; ok && (match[k] < 0 || match[k] > i) {
					break // the enclosing opener
				}
				if !real(k) {
					break
				}
				s = k
			}
			// tail: up to the end of the statement, at most 6 tokens, balanced groups kept whole
			e := j
			for k := j + 1; k < len(ts) && k-j <= 6; k++ {
				ty := token.TokenType(ts[k].Ty)
				if !real(k) || ty == token.SEMICOLON || ty == token.COMMA || isClose[ty] || ty == token.LBRACE {
					break
				}
				if _, ok := isOpen[ty]; ok {
					if match[k] < 0 || match[k]-j > 6 {
						break
					}
					k = match[k]
				}
				e = k
			}
			var sig strings.Builder
			for k := s; k <= i; k++ {
				fmt.Fprintf(&sig, "%d ", ts[k].Ty)
			}
			sig.WriteString("| ")
			for k := j; k <= e; k++ {
				fmt.Fprintf(&sig, "%d ", ts[k].Ty)
			}
			u := nestUnit{Open: src[ts[s].Start:ts[i].End] + " ", Close: " " + src[ts[j].Start:ts[e].End], Sig: "c:" + sig.String(), From: f.Name,
				Brackets: ts[i].Lit + ts[j].Lit, HeadKind: "start"}
			if s < i {
				u.HeadKind = typeName(token.TokenType(ts[i-1].Ty))
			}
			if len(u.Open) > 120 || len(u.Close) > 80 {
				continue
			}
			if old, ok := best[u.Sig]; !ok || len(u.Open)+len(u.Close) < len(old.Open)+len(old.Close) ||
				len(u.Open)+len(u.Close) == len(old.Open)+len(old.Close) && u.Open+u.Close < old.Open+old.Close {
				best[u.Sig] = u
			}
		}
	}
	out := make([]nestUnit, 0, len(best))
	for _, u := range best {
		out = append(out, u)
	}
	sort.Slice(out, func(a, b int) bool { return out[a].Sig < out[b].Sig })
	return out
}

// slots: where the nested occurrence sits among the elements of its parent
var nestPre = []string{"", "$a, ", "$a; ", "'k' => ", "1 + "}
var nestPost = []string{"", ";", ", 1", " => 1", ": 1"}
var nestCore = []string{"1", "$a = 1"}

type nestCase struct {
	Unit, Unit2 int // indices into the unit list (Unit2 < 0: self-nesting)
	Pre, Post   int
	Core        string
	Depth       int
}

func nestSource(us []nestUnit, nc nestCase) string {
	var open, cl strings.Builder
	pre, post := nestPre[nc.Pre], nestPost[nc.Post]
	for i := 0; i < nc.Depth; i++ {
		u := us[nc.Unit]
		if nc.Unit2 >= 0 && i%2 == 1 {
			u = us[nc.Unit2]
		}
		open.WriteString(u.Open)
		open.WriteString(pre)
	}
	for i := nc.Depth - 1; i >= 0; i-- {
		u := us[nc.Unit]
		if nc.Unit2 >= 0 && i%2 == 1 {
			u = us[nc.Unit2]
		}
		cl.WriteString(post)
		cl.WriteString(u.Close)
	}
	return "$a = 1; $b = 2;\n" + open.String() + nc.Core + cl.String() + "\n;echo 'parsed';\n"
}

// nestStream runs the nesting ladder through the pool and returns the violations as ordinary cases
// (they are judged again, with the others, by the work budget in the main loop, which is the single
// place where the oracle lives); cases that stay within the budget are only counted.
func nestStream(c *vh.Ctx, pool *lexh.Pool, corpus []lexh.Input) []Case {
	t0 := c.Elapsed()
	defer func() { c.Note("nesting stream took %.1f s", (c.Elapsed() - t0).Seconds()) }()
	// tokenise the whole corpus (lexing only)
	reqs := make([]lexh.Req, len(corpus))
	for i, in := range corpus {
		mode := "s"
		if strings.HasSuffix(in.Name, ".php") {
			mode = "t"
		}
		reqs[i] = lexh.Req{ID: i, Mode: mode, Hex: hex.EncodeToString([]byte(in.Src)), Lex: true}
	}
	toks := make([][]lexh.Tok, len(corpus))
	for i, v := range pool.Run(reqs) {
		if v.Resp != nil {
			toks[i] = v.Resp.Toks
		}
	}
	units := append(grammarUnits(), corpusUnits(corpus, toks)...)
	ng := len(grammarUnits())
	c.Res.Histogram["nest:units:grammar"] = ng
	c.Res.Histogram["nest:units:corpus"] = len(units) - ng

	var plan []nestCase
	d0 := 16
	for ui := range units {
		// the plain slot with every core (always), every other slot × core (thorough: all; quick: a
		// seeded choice of eight per unit, so that successive seeds cover the rest)
		for _, core := range append([]string{""}, nestCore...) {
			plan = append(plan, nestCase{ui, -1, 0, 0, core, d0})
		}
		if c.Thorough() {
			for pi := range nestPre {
				for qi := range nestPost {
					if pi == 0 && qi == 0 {
						continue
					}
					for _, core := range nestCore {
						plan = append(plan, nestCase{ui, -1, pi, qi, core, d0})
					}
				}
			}
		} else {
			for k := 0; k < 8; k++ {
				pi, qi := c.Rand.Intn(len(nestPre)), c.Rand.Intn(len(nestPost))
				if pi == 0 && qi == 0 {
					qi = 1 + c.Rand.Intn(len(nestPost)-1)
				}
				plan = append(plan, nestCase{ui, -1, pi, qi, vh.Pick(c.Rand, nestCore), d0})
			}
		}
	}
	// alternating pairs (sampled): A(B(A(B(…))))
	for k := 0; k < c.N(3000, 40000); k++ {
		a, b := c.Rand.Intn(len(units)), c.Rand.Intn(len(units))
		if a == b {
			continue
		}
		plan = append(plan, nestCase{a, b, c.Rand.Intn(len(nestPre)), c.Rand.Intn(len(nestPost)), vh.Pick(c.Rand, nestCore), d0})
	}
	var out []Case
	nbad, hook, maxExcess := 0, false, int64(0)
	ladder := []int{16, 32}
	if c.Thorough() {
		ladder = []int{16, 32, 64, 128}
	}
	for li, depth := range ladder {
		if li > 0 && !c.Thorough() {
			// quick: the deeper rungs for a seeded sample only
			var keep []nestCase
			for _, nc := range plan {
				if c.Rand.Chance(6) {
					keep = append(keep, nc)
				}
			}
			plan = keep
		}
		var next []nestCase
		const chunk = 8192 // sources of one pool run (memory: the deep rungs are ~20 kB each)
		for lo := 0; lo < len(plan); lo += chunk {
			hi := lo + chunk
			if hi > len(plan) {
				hi = len(plan)
			}
			lens := make([]int, hi-lo)
			rq := make([]lexh.Req, 0, hi-lo)
			for i := lo; i < hi; i++ {
				plan[i].Depth = depth
				src := nestSource(units, plan[i])
				if len(src) > 20000 {
					continue
				}
				lens[i-lo] = len(src)
				rq = append(rq, lexh.Req{ID: i, Mode: "s", Hex: hex.EncodeToString([]byte(src)), Parse: true})
			}
			for k, v := range pool.Run(rq) {
				i := rq[k].ID
				nc := plan[i]
				u := units[nc.Unit]
				n := lens[i-lo]
				c.Hit(fmt.Sprintf("nest:depth%d", depth))
				name := fmt.Sprintf("nestgen:d%d:%s after %s", depth, u.Brackets, u.HeadKind)
				bad := v.Hung || v.Resp == nil || v.Resp.Parse == "panic" || overWork(v.Resp, n, 0) != ""
				if bad {
					// judged (and replayed) like every other case
					nbad++
					if len(out) < 400 {
						out = append(out, Case{Name: name, Mode: "s", Hex: rq[k].Hex})
					}
					continue
				}
				c.Eval(fmt.Sprintf("nest:%d:%d:%d:%d:%d:%s", nc.Unit, nc.Unit2, nc.Pre, nc.Post, depth, nc.Core), true)
				c.Hit("nest:parse:" + v.Resp.Parse)
				if v.Resp.ParseAdv >= 0 {
					hook = true
					if x := v.Resp.ParseAdv - int64(v.Resp.ParseTokens); x > maxExcess {
						maxExcess = x
					}
				}
				dumpWork(name, n, v.Resp.ParseAllocs, 0, v.Resp.ParseAdv, v.Resp.ParseTokens, v.Resp.ParseUS, v.Resp.Parse, rq[k].Hex)
				next = append(next, nc)
			}
		}
		plan = next
	}
	// a tree that doubles its work per level fails in hundreds of contexts: hand on the simplest
	c.Res.Histogram["nest:over-budget-or-hung"] = nbad
	if hook {
		c.Note("nesting stream: parser hook present; largest (cursor advances − tokens) among the cases within budget: %d", maxExcess)
	} else {
		c.Note("nesting stream: no parser hook in this tree (origami.parser.advances not published): work is judged by the allocation budget only")
	}
	sort.SliceStable(out, func(a, b int) bool { return len(out[a].Hex) < len(out[b].Hex) })
	if len(out) > 24 {
		out = out[:24]
	}
	return out
}
