package c01

// The operand-hole stream (round 8). "A source that is accepted is a complete program": every place
// of the grammar that takes an expression (a SLOT: array element in each position, call argument in
// each position, value after `=>`, match arm, ternary arm, initialiser, condition …) is filled with
// every token of token.TokenDefinitions in each of the forms
//
//	T            the token alone            (an operator whose operand is missing)
//	T $a         prefix use, operand present
//	$a T         the right operand missing
//	$a T $b      infix use, operands present
//	T [1, 2]     prefix use, array operand  (spread, clone, print, casts …)
//
// and with nothing at all. Each program is parsed in a child; the accepted ones are EXECUTED. The
// slot list is the only hand-written part (one line per expression position of the grammar, both the
// statement-start and the expression form of brackets); tokens come from the table the lexer uses, so
// a construct that no generator and no snippet happens to contain (array spread `[...$a]` was one) is
// still met in every position, with and without its operand. Oracle: the one of every other case
// (panic / hang / death while parsing; a nil dereference when an accepted program runs).
// Quick: every slot × every token in the forms `T` and `T $a`, the other forms seeded (one in eight);
// thorough: everything.

import (
	"sort"
	"strings"

	"github.com/php-any/origami/token"

	"verif/harness/lexh"
	"verif/harness/vh"
)

const holeMark = "\x00"

type holeSlot struct{ name, tmpl string }

// every expression position; \x00 marks the hole. Programs use lexh.ConstructPrelude.
var holeSlots = []holeSlot{
	{"stmt", "\x00; echo 'x';"},
	{"echo", "echo \x00;"},
	{"echo-later", "echo 1, \x00;"},
	{"assign", "$v = \x00; echo 'x';"},
	{"assign-op", "$a += \x00; echo 'x';"},
	{"array-only", "$v = [\x00]; echo count($v);"},
	{"array-first", "$v = [\x00, 3]; echo count($v);"},
	{"array-later", "$v = [0, \x00]; echo count($v);"},
	{"array-mid", "$v = [0, \x00, 3]; echo count($v);"},
	{"array-after-spread", "$v = [...$arr, \x00]; echo count($v);"},
	{"array-value", "$v = ['k' => \x00]; echo count($v);"},
	{"array-value-later", "$v = [0, 'k' => \x00]; echo count($v);"},
	{"array-key", "$v = [\x00 => 1]; echo count($v);"},
	{"array-nested", "$v = [[\x00]]; echo count($v);"},
	{"bracket-stmt-only", "[\x00]; echo 'x';"},
	{"bracket-stmt-first", "[\x00, 3]; echo 'x';"},
	{"bracket-stmt-later", "[0, \x00]; echo 'x';"},
	{"bracket-stmt-value", "['k' => \x00]; echo 'x';"},
	{"destructure-first", "[\x00] = [1, 2]; echo 'x';"},
	{"destructure-later", "[$x, \x00] = [1, 2]; echo 'x';"},
	{"call-only", "echo f0(\x00);"},
	{"call-first", "echo f0(\x00, 2);"},
	{"call-later", "echo f0(1, \x00);"},
	{"call-named", "echo f0(a: \x00);"},
	{"call-after-spread", "echo f0(...[1], \x00);"},
	{"method-arg", "echo $o->m(\x00);"},
	{"static-arg", "echo K0::s(\x00);"},
	{"new-arg", "$n = new K0(\x00); echo 'x';"},
	{"closure-call-arg", "$f = function($x = 1) { return 1; }; echo $f(\x00);"},
	{"paren", "echo (\x00);"},
	{"index", "echo $arr[\x00];"},
	{"index-write", "$arr[\x00] = 1; echo 'x';"},
	{"object-literal-value", "$j = {\"k\": \x00}; echo 'x';"},
	{"class-literal-value", "$n = K0 { p: \x00 }; echo 'x';"},
	{"match-subject", "echo match (\x00) { default => 'c' };"},
	{"match-condition", "echo match ($a) { \x00 => 'a', default => 'c' };"},
	{"match-condition-later", "echo match ($a) { 5, \x00 => 'a', default => 'c' };"},
	{"match-arm", "echo match ($a) { 1 => \x00, default => 'c' };"},
	{"match-default-arm", "echo match ($a) { 5 => 'a', default => \x00 };"},
	{"ternary-condition", "echo \x00 ? 1 : 2;"},
	{"ternary-then", "echo $a ? \x00 : 'n';"},
	{"ternary-else", "echo $zz ? 'y' : \x00;"},
	{"binary-right", "echo $a + \x00;"},
	{"concat-right", "echo $c . \x00;"},
	{"and-right", "echo $a && \x00;"},
	{"coalesce-right", "echo $zz ?? \x00;"},
	{"compare-right", "echo $a == \x00;"},
	{"unary-operand", "echo !\x00;"},
	{"return", "function h0() { return \x00; } echo h0();"},
	{"arrow-body", "$g = fn($x) => \x00; echo $g(3);"},
	{"param-default", "function h1($p = \x00) { return 1; } echo h1();"},
	{"property-init", "class H2 { public $p = \x00; } $n = new H2(); echo 'x';"},
	{"class-const", "class H3 { const D = \x00; } echo 'x';"},
	{"const-stmt", "const TOP = \x00; echo TOP;"},
	{"static-var", "function h4() { static $n = \x00; return 1; } echo h4();"},
	{"if-condition", "if (\x00) { echo 1; } echo 'x';"},
	{"while-condition", "while (\x00) { break; } echo 'x';"},
	{"for-init", "for (\x00; false; ) { } echo 'x';"},
	{"for-condition", "for ($i = 0; \x00; $i++) { break; } echo 'x';"},
	{"for-step", "for ($i = 0; $i < 1; \x00) { break; } echo 'x';"},
	{"foreach-subject", "foreach (\x00 as $v) { break; } echo 'x';"},
	{"switch-subject", "switch (\x00) { default: echo 1; }"},
	{"switch-case", "switch ($a) { case \x00: echo 1; }"},
	{"interpolation", "echo \"a{\x00}b\";"},
	{"isset", "echo isset(\x00);"},
	{"throw", "try { throw \x00; } catch (Exception $e) { echo 'c'; }"},
	{"method-body-return", "class H5 { function f() { return \x00; } } echo (new H5())->f();"},
}

// holeTokens: every literal of the token table that can be written on one line
func holeTokens() []string {
	seen := map[string]bool{}
	var out []string
	for _, d := range token.TokenDefinitions {
		if d.Literal == "" || strings.ContainsAny(d.Literal, "\n\r\x00") || seen[d.Literal] {
			continue
		}
		seen[d.Literal] = true
		out = append(out, d.Literal)
	}
	sort.Strings(out)
	return out
}

var holeLoops = map[string]bool{"for": true, "while": true}

var holeForms = []struct {
	name, pre, post string
	always          bool // part of the quick tier for every (slot, token)
}{
	{"T", "", "", true},
	{"T $a", "", " $a", true},
	{"$a T", "$a ", "", false},
	{"$a T $b", "$a ", " $b", false},
	{"T [1, 2]", "", " [1, 2]", false},
}

// holeStream: the cases, named `hole:<slot>:<form with the token>` (the name is the signature of a
// failure: which position, which token, operand present or not)
func holeStream(c *vh.Ctx) []Case {
	var out []Case
	toks := holeTokens()
	rnd := vh.NewRand(c.Seed ^ 0x686f6c65) // a stream of its own: the older streams keep their seeded sequence
	add := func(slot holeSlot, tok, form, fill string) {
		src := lexh.ConstructPrelude + strings.Replace(slot.tmpl, holeMark, fill, 1)
		// `for` / `while` without their clauses are accepted and loop forever (notes, round 8): a run
		// that does not end is not judged by C01 and costs the whole run timeout — parsed only
		out = append(out, Case{Name: "hole:" + slot.name + ":" + form, Mode: "s", Hex: hexOf(src), Run: !holeLoops[tok], Tok: tok})
	}
	for _, sl := range holeSlots {
		add(sl, "", "(empty)", "")
		for _, t := range toks {
			for _, f := range holeForms {
				if !f.always && !c.Thorough() && rnd.Intn(8) != 0 {
					continue
				}
				add(sl, t, strings.Replace(f.name, "T", t, 1), f.pre+t+f.post)
			}
		}
	}
	return out
}
