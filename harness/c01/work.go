package c01

import (
	"fmt"
	"os"

	"verif/harness/lexh"
)

// interpPieces: the number of interpolated fragments in the top-level token list (each is handed to
// a sub-parser with a lexer of its own, whose construction alone costs a few thousand objects)
func interpPieces(toks []lexh.Tok) int {
	k := 0
	for _, t := range toks {
		k += t.Children
	}
	return k
}

// ---------------------------------------------------------------- parse work: a deterministic budget
//
// C01 bounds parse TIME by a modest function of the input length. Wall-clock time is a poor oracle
// for short inputs (the watchdog's floor of 3 s lets a 60-byte source do 2^20 units of work), so
// the child also reports a deterministic measure of the work ParseString did: the number of heap
// objects it allocated (every parsed node, tracker, scope and error is one; a parser that parses
// the same tokens again allocates the same nodes again). The budget is linear in the input length.

// workBudget: the number of heap objects ParseString may allocate for a source of n bytes whose
// top-level tokens carry `pieces` interpolated fragments. Linear, and generous: on the unchanged tree
// the streams of this harness stay below 1500 + 30·n + 1500·pieces (each fragment is parsed by a
// sub-parser that builds a lexer of its own); the budget is more than ten times that. A parser that
// re-parses a nested construct once per level is above it from nesting depth ~12 on.
func workBudget(n, pieces int) uint64 {
	return workBase + workPerByte*uint64(n) + workPerPiece*uint64(pieces)
}

const (
	workBase     = 20000
	workPerByte  = 500
	workPerPiece = 15000
)

// advanceBudget: when the tree carries the verif hook (parser/verif_hook.go: every forward step of a
// parser cursor is counted), the number of steps ParseString may make on a source of `tokens` tokens
// (interpolation children included) nested `depth` brackets deep. It is the runtime reading of
// C01_parse_work_polynomial: a parser none of whose readings rewinds over a nested parse advances at
// most 2·size·(depth+1) times. The pinned parser stays below tokens + 3 on every stream of this
// harness except where a construct hands its inner token slice to a sub-parser (HTML after
// `<!DOCTYPE`: each token is walked once per enclosing level, ≈ tokens·depth/2).
func advanceBudget(tokens, depth int) int64 { return 2*int64(tokens)*int64(depth+1) + 64 }

// overWork judges one parse answer: "" or what is exceeded
func overWork(r *lexh.Resp, n, pieces int) string {
	if r == nil || r.Parse == "" {
		return ""
	}
	if r.ParseAdv >= 0 && r.ParseAdv > advanceBudget(r.ParseTokens, r.ParseDepth) {
		return fmt.Sprintf("the parser cursor advanced %d times over %d tokens nested %d deep (budget 2·tokens·(depth+1)+64 = %d; a parser that reads every token once advances `tokens` times)",
			r.ParseAdv, r.ParseTokens, r.ParseDepth, advanceBudget(r.ParseTokens, r.ParseDepth))
	}
	if r.ParseAllocs > workBudget(n, pieces) {
		return fmt.Sprintf("it allocated %d heap objects (linear work budget for %d bytes and %d interpolated fragments: %d)", r.ParseAllocs, n, pieces, workBudget(n, pieces))
	}
	return ""
}

// dev aid: C01_WORKDUMP=<file> writes one line per parsed case (name, bytes, allocs, interpolated pieces, advances, tokens, µs, outcome, hex)
var workDump *os.File

func dumpWork(name string, n int, allocs uint64, pieces int, adv int64, toks int, us int64, parse, hx string) {
	if workDump == nil {
		p := os.Getenv("C01_WORKDUMP")
		if p == "" {
			return
		}
		workDump, _ = os.Create(p) // opened by the parent on first use (children never dump)
	}
	if workDump != nil {
		fmt.Fprintf(workDump, "%s\t%d\t%d\t%d\t%d\t%d\t%d\t%s\t%s\n", name, n, allocs, pieces, adv, toks, us, parse, hx)
	}
}
