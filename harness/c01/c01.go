// Package c01: lex/parse totality. The real lexer and parser are run in child
// processes (panic / fatal error / os.Exit / hang are observed, not suffered);
// the lexer result is compared with Model.Lex (vm_c01); accepted
// side-effect-free generated programs are also run.
package c01

import (
	"crypto/sha1"
	"encoding/hex"
	"encoding/json"
	"fmt"
	"os"
	"regexp"
	"strings"

	"github.com/php-any/origami/token"

	"verif/harness/lexh"
	"verif/harness/vh"
)

func init() { vh.Register("C01", Run) }

type Case struct {
	Name string `json:"name"`
	Mode string `json:"mode"`
	Hex  string `json:"hex"`
	Run  bool   `json:"run,omitempty"`
	Tok  string `json:"tok,omitempty"` // hole stream: the token that fills the hole
}

var lineNo = regexp.MustCompile(`:\d+$`)

// siteSig turns "node/binary_gt.go:38" into "node/binary_gt.go" (line numbers move with edits).
func siteSig(msg string) string {
	i := strings.LastIndex(msg, " @ ")
	if i < 0 {
		return "?"
	}
	return lineNo.ReplaceAllString(strings.TrimSpace(msg[i+3:]), "")
}

func Run(c *vh.Ctx) {
	defer lexh.RemoveLexDir()
	var m *vh.Model
	if c.ModelPath != "" {
		var err error
		if m, err = vh.StartModel(c.ModelPath); err != nil {
			c.Note("cannot start model: %v", err)
			m = nil
		} else {
			defer m.Close()
			c.Res.ModelUsed = true
		}
	}
	var cases []Case
	add := func(name, mode, src string, run bool) {
		if len(src) > 20000 {
			return
		}
		cases = append(cases, Case{Name: name, Mode: mode, Hex: hex.EncodeToString([]byte(src)), Run: run})
	}
	pool := lexh.NewPool(c.Workers)
	if len(c.ReplayRaw) > 0 {
		var rc Case
		if err := json.Unmarshal(c.ReplayRaw, &rc); err != nil {
			c.Note("bad replay: %v", err)
			return
		}
		cases = []Case{rc}
	} else {
		c.Res.Rule = "inputs: (a) every token-boundary prefix and every single-token deletion/duplication of corpus files (quick: a seeded sample of files; thorough: all files of tests/+examples/), (b) generated side-effect-free programs, their token-boundary prefixes and mutants — accepted ones are also run, (c) seeded byte/structure mutants of corpus files, (d) a committed list of past crashers, (e) nesting: every bracket pair of the token table behind every head the table offers, and every bracketed construct of the corpus (distinct token-type signatures of head + brackets + tail), nested in itself (and, sampled, alternating with another) to depth 16/32 (thorough: to 128) with the nested occurrence in each element slot. Each is lexed and parsed in a child process under a c·(n+1)² time limit and a deterministic linear WORK budget (heap objects allocated by ParseString; cursor advances ≤ 2·tokens·(depth+1)+64 when the tree carries the verif parser hook). non-trivial = at least 3 tokens; distinct = distinct (mode, bytes)"
		corpus := lexh.Corpus(c.Repo)
		// phase 1: token boundaries of the chosen files
		nfiles := c.N(12, len(corpus))
		chosen := make([]lexh.Input, 0, nfiles)
		perm := make([]int, len(corpus))
		for i := range perm {
			perm[i] = i
		}
		for i := len(perm) - 1; i > 0; i-- {
			j := c.Rand.Intn(i + 1)
			perm[i], perm[j] = perm[j], perm[i]
		}
		for _, i := range perm[:nfiles] {
			if len(corpus[i].Src) <= 6000 || c.Thorough() {
				chosen = append(chosen, corpus[i])
			}
		}
		var reqs []lexh.Req
		for i, in := range chosen {
			mode := "s"
			if strings.HasSuffix(in.Name, ".php") {
				mode = "t"
			}
			reqs = append(reqs, lexh.Req{ID: i, Mode: mode, Hex: hex.EncodeToString([]byte(in.Src)), Lex: true})
		}
		for i, v := range pool.Run(reqs) {
			in := chosen[i]
			mode := reqs[i].Mode
			add(in.Name, mode, in.Src, false)
			if v.Resp == nil {
				continue
			}
			toks := v.Resp.Toks
			step := 1
			if !c.Thorough() && len(toks) > 150 {
				step = len(toks) / 150
			}
			for k := 0; k < len(toks); k += step {
				t := toks[k]
				if t.End <= len(in.Src) && t.Start <= t.End {
					add(in.Name+":prefix", mode, in.Src[:t.End], false)
					add(in.Name+":del", mode, in.Src[:t.Start]+in.Src[t.End:], false)
					add(in.Name+":dup", mode, in.Src[:t.End]+in.Src[t.Start:t.End]+in.Src[t.End:], false)
				}
			}
		}
		// generated safe programs, prefixes at statement/token-ish boundaries, mutants
		for i := 0; i < c.N(300, 6000); i++ {
			p := lexh.GenSafe(c.Rand)
			add("gen", "s", p, true)
			for k := 0; k < 6; k++ {
				cut := c.Rand.Intn(len(p) + 1)
				add("gen:prefix", "s", p[:cut], true)
			}
			for k := 0; k < 4; k++ {
				mu, kinds := lexh.Mutate(c.Rand, p)
				add("gen:mutant:"+kinds, "s", mu, true)
			}
		}
		// every construct that takes an operand or a clause, truncated / damaged in every way one
		// token allows: ALL token-boundary prefixes, single-token deletions and duplications
		for _, sn := range lexh.ConstructSnippets {
			cuts := append([]int{0}, lexh.TokenCuts(sn)...)
			add("construct", "s", lexh.ConstructPrelude+sn, true)
			for k := 1; k < len(cuts); k++ {
				add("construct:prefix", "s", lexh.ConstructPrelude+sn[:cuts[k]], true)
				add("construct:delete", "s", lexh.ConstructPrelude+sn[:cuts[k-1]]+sn[cuts[k]:], true)
				add("construct:dup", "s", lexh.ConstructPrelude+sn[:cuts[k]]+sn[cuts[k-1]:], true)
				for w := 2; w <= 4 && k+w-1 < len(cuts); w++ {
					// a whole operand or clause (2–4 adjacent tokens) removed
					add("construct:delete", "s", lexh.ConstructPrelude+sn[:cuts[k-1]]+sn[cuts[k+w-1]:], true)
				}
			}
		}
		// every operator between literal operands (live, dead and uncalled code): parse-time evaluation
		for _, src := range lexh.OperatorLiteralPrograms() {
			add("oplit", "s", src, true)
		}
		// nestable constructs at growing depth: the time budget must hold (no doubling per level)
		depths := []int{4, 8, 12, 16, 20, 24, 32}
		if c.Thorough() {
			depths = append(depths, 48, 64, 96, 128)
		}
		for _, src := range lexh.NestedPrograms(depths) {
			add("nest", "s", src, false)
		}
		// every bracketed construct the token table and the corpus offer, nested in itself and in
		// others behind every head and in every slot (nest.go); what exceeds the work budget or the
		// watchdog comes back as a case and is judged below
		if os.Getenv("C01_NONEST") == "" { // dev aid: time the run without the stream
			ns := nestStream(c, pool, corpus)
			if os.Getenv("C01_ONLYNEST") != "" { // dev aid: the stream alone
				cases = nil
			}
			cases = append(cases, ns...)
		}
		// every token of the table in every expression position, with and without an operand (holes.go)
		if os.Getenv("C01_NOHOLES") == "" {
			cases = append(cases, holeStream(c)...)
		}
		// constructs the shared snippet list lacks (array / call spread in each position, nullsafe, clone,
		// print, references, list(), static closures …): same complete enumeration of one-token damage
		for _, sn := range extraConstructs {
			cuts := append([]int{0}, lexh.TokenCuts(sn)...)
			add("construct", "s", lexh.ConstructPrelude+sn, true)
			for k := 1; k < len(cuts); k++ {
				add("construct:prefix", "s", lexh.ConstructPrelude+sn[:cuts[k]], true)
				add("construct:delete", "s", lexh.ConstructPrelude+sn[:cuts[k-1]]+sn[cuts[k]:], true)
				add("construct:dup", "s", lexh.ConstructPrelude+sn[:cuts[k]]+sn[cuts[k-1]:], true)
				for w := 2; w <= 4 && k+w-1 < len(cuts); w++ {
					add("construct:delete", "s", lexh.ConstructPrelude+sn[:cuts[k-1]]+sn[cuts[k+w-1]:], true)
				}
			}
		}
		// richer generated programs (classes, match, class-init literals, closures, named / spread
		// arguments, destructuring, heredoc …): prefixes cut at token boundaries and mutants, all run
		for i := 0; i < c.N(250, 5000); i++ {
			p := lexh.GenSafe2(c.Rand)
			add("gen2", "s", p, true)
			cuts := lexh.TokenCuts(p)
			for k := 0; k < 10; k++ {
				add("gen2:prefix", "s", p[:vh.Pick(c.Rand, cuts)], true)
			}
			for k := 0; k < 3; k++ {
				mu, kinds := lexh.Mutate(c.Rand, p)
				add("gen2:mutant:"+kinds, "s", mu, true)
			}
		}
		for i := 0; i < c.N(1500, 30000); i++ {
			base := vh.Pick(c.Rand, corpus).Src
			if len(base) > 3000 {
				s := c.Rand.Intn(len(base) - 3000)
				base = base[s : s+3000]
			}
			mu, kinds := lexh.Mutate(c.Rand, base)
			add("corpus-mutant:"+kinds, vh.Pick(c.Rand, []string{"s", "t"}), mu, false)
		}
		// complete small space: all strings of length ≤ 2 over a boundary alphabet (both modes)
		alpha := []string{"$", "\\", "\"", "'", "`", "/", "*", "<", "?", ">", "\n", "\r", " ", "a", "1", "-", ".", "e", "b", "#", "!", "{", "}", "@", "\xe3", "\x80", "\xff", "é", "_", "=", ";", "(", ")", "[", "]", ",", ":"}
		for _, a := range alpha {
			add("alpha1", "s", a, true)
			add("alpha1", "t", "<?php "+a, false)
			for _, b := range alpha {
				add("alpha2", "s", a+b, true)
				add("alpha2", "t", "<?php "+a+b, false)
			}
		}
		for _, k := range pastCrashers {
			add("past-crasher", k[0], k[1], k[2] == "run")
		}
	}
	// the cases are judged in batches: a batch's answers (token lists!) are dropped before the next
	// one is asked for — the thorough tier has several hundred thousand cases
	// dev aid: C01_VIOLDUMP=<file> gets one line (signature, case JSON) per violation raised
	viol := func(sig, what string, cs Case) {
		c.Violation(sig, what, cs)
		if p := os.Getenv("C01_VIOLDUMP"); p != "" {
			if f, err := os.OpenFile(p, os.O_APPEND|os.O_CREATE|os.O_WRONLY, 0o644); err == nil {
				js, _ := json.Marshal(cs)
				fmt.Fprintf(f, "%s\t%s\t%s\n", sig, js, strings.ReplaceAll(what, "\n", " "))
				f.Close()
			}
		}
	}
	judge := func(batch []Case) {
		// phase A: lex + parse (a hang or crash here is a violation)
		reqs := make([]lexh.Req, len(batch))
		for i, cs := range batch {
			reqs[i] = lexh.Req{ID: i, Mode: cs.Mode, Hex: cs.Hex, Lex: true, Parse: true}
		}
		verd := pool.Run(reqs)
		// phase B: run the accepted side-effect-free programs (a program that itself runs long is not judged)
		var runIdx []int
		var runReqs []lexh.Req
		for i, cs := range batch {
			if cs.Run && verd[i].Resp != nil && verd[i].Resp.Parse == "ok" {
				runIdx = append(runIdx, i)
				runReqs = append(runReqs, lexh.Req{ID: i, Mode: cs.Mode, Hex: cs.Hex, Parse: true, Run: true})
			}
		}
		runVerd := pool.Run(runReqs)
		for k, i := range runIdx {
			rv := runVerd[k]
			switch {
			case rv.Hung:
				c.Hit("run:long(not judged)")
				if p := os.Getenv("C01_RUNDUMP"); p != "" {
					if f, err := os.OpenFile(p, os.O_APPEND|os.O_CREATE|os.O_WRONLY, 0o644); err == nil {
						fmt.Fprintf(f, "%s\trun-long\t%s\t%s\n", batch[i].Name, rv.HangSite, strings.TrimPrefix(string(mustHex(batch[i].Hex)), lexh.ConstructPrelude))
						f.Close()
					}
				}
			case rv.Resp == nil:
				verd[i].Resp.Run = "died"
				verd[i].Resp.RunMsg = rv.Died
			default:
				verd[i].Resp.Run = rv.Resp.Run
				verd[i].Resp.RunMsg = rv.Resp.RunMsg
			}
		}
		var mans []string
		if m != nil {
			lines := make([]string, len(batch))
			for i, cs := range batch {
				lines[i] = "lex " + cs.Mode + " " + cs.Hex
			}
			var err error
			// the driver is stateless per line: answer with several driver processes
			if mans, err = vh.AskParallel(c.ModelPath, lines, 8); err != nil {
				c.Note("model failed: %v", err)
				mans = nil
			}
			c.Res.ModelLines += len(lines)
		}
		for i, cs := range batch {
			v := verd[i]
			kind := strings.SplitN(cs.Name, ":", 3)
			k := kind[0]
			if strings.HasPrefix(k, "tests/") || strings.HasPrefix(k, "examples/") {
				k = "corpus"
			}
			if len(kind) > 1 && (kind[1] == "prefix" || kind[1] == "del" || kind[1] == "dup" || kind[1] == "mutant") {
				k += ":" + kind[1]
			}
			c.Hit("input:" + k)
			n := len(cs.Hex) / 2
			if v.Hung {
				if p := os.Getenv("C01_RUNDUMP"); p != "" {
					if f, err := os.OpenFile(p, os.O_APPEND|os.O_CREATE|os.O_WRONLY, 0o644); err == nil {
						fmt.Fprintf(f, "%s\tparse-hang\t%s\t%s\n", cs.Name, v.HangSite, strings.TrimPrefix(string(mustHex(cs.Hex)), lexh.ConstructPrelude))
						f.Close()
					}
				}
				c.Eval(caseKey(cs), true)
				hsig := "hang:" + v.HangSite
				if strings.HasPrefix(cs.Name, "hole:") {
					hsig = "hang:hole:" + cs.Tok // the sampled site of a hang varies; the token that fills the hole does not
				}
				viol(hsig, fmt.Sprintf("lexing+parsing %d bytes did not finish within %v, looping in %s (input %s)", n, lexh.Timeout(n), v.HangSite, cs.Name), cs)
				c.Hit("outcome:hang")
				continue
			}
			if v.Died != "" || v.Resp == nil {
				c.Eval(caseKey(cs), true)
				viol("died:"+firstWords(v.Died), "process died while lexing/parsing: "+v.Died, cs)
				c.Hit("outcome:died")
				continue
			}
			r := v.Resp
			c.Eval(caseKey(cs), len(r.Toks) >= 3)
			c.SampleSome(map[string]any{"name": cs.Name, "mode": cs.Mode, "bytes": n, "tokens": len(r.Toks), "parse": r.Parse, "run": r.Run}, 1009)
			if r.LexPanic != "" {
				viol("lex:panic:"+siteSig(r.LexPanic), "lexer panic: "+r.LexPanic, cs)
				c.Hit("outcome:lex-panic")
				continue
			}
			c.Hit("parse:" + r.Parse)
			dumpWork(cs.Name, n, r.ParseAllocs, interpPieces(r.Toks), r.ParseAdv, r.ParseTokens, r.ParseUS, r.Parse, cs.Hex)
			if p := os.Getenv("C01_RUNDUMP"); p != "" && r.Parse == "panic" {
				if f, err := os.OpenFile(p, os.O_APPEND|os.O_CREATE|os.O_WRONLY, 0o644); err == nil {
					fmt.Fprintf(f, "%s\tparse-panic\t%s\t%s\n", cs.Name, r.ParseMsg, strings.TrimPrefix(string(mustHex(cs.Hex)), lexh.ConstructPrelude))
					f.Close()
				}
			}
			if r.Parse == "panic" {
				viol("parse:panic:"+siteSig(r.ParseMsg), "parser panic: "+r.ParseMsg, cs)
			}
			if why := overWork(r, n, interpPieces(r.Toks)); why != "" {
				// the deterministic form of "time bounded by a modest function of the input length"
				sig := "work:" + k
				if len(kind) >= 3 && kind[0] == "nestgen" {
					sig = "work:nest:" + kind[2]
				}
				viol(sig, fmt.Sprintf("parsing %d bytes took %d µs: %s — the parser does work that is not bounded by a modest function of the input length (input %s)", n, r.ParseUS, why, cs.Name), cs)
				c.Hit("outcome:over-work-budget")
			}
			if r.Run != "" {
				c.Hit("run:" + r.Run)
				if p := os.Getenv("C01_RUNDUMP"); p != "" && r.Run != "ok" { // dev aid: every run that did not end normally
					if f, err := os.OpenFile(p, os.O_APPEND|os.O_CREATE|os.O_WRONLY, 0o644); err == nil {
						fmt.Fprintf(f, "%s\t%s\t%s\t%s\n", cs.Name, r.Run, strings.ReplaceAll(r.RunMsg, "\n", " "), strings.TrimPrefix(string(mustHex(cs.Hex)), lexh.ConstructPrelude))
						f.Close()
					}
				}
				for _, t := range r.Toks {
					executedTypes[t.Ty] = true
				}
				if r.Run == "died" {
					viol("run:died:"+firstWords(r.RunMsg), "the process died while running an accepted program: "+r.RunMsg, cs)
				}
				if r.Run == "go-panic" {
					// the clause of C01: an accepted program never crashes *because of a missing operand or
					// clause* (a nil child node). Other Go panics of ill-typed operands belong to C03.
					if strings.Contains(r.RunMsg, "nil pointer dereference") || strings.Contains(r.RunMsg, "interface is nil") {
						site := siteSig(r.RunMsg)
						if strings.HasPrefix(site, "node/") {
							site = "node"
						}
						if kind[0] == "hole" {
							// which token stands where an operand belongs, and the file that dereferences
							// the missing node (the position and the form are in the case name)
							site = "hole:" + cs.Tok + " @ " + siteSig(r.RunMsg)
						}
						viol("run:nil-operand:"+site, "accepted program crashed the interpreter (missing operand or clause): "+r.RunMsg, cs)
					} else {
						c.Hit("run:other-go-panic(C03)")
					}
				}
			}
			if mans != nil && i < len(mans) {
				mk, _, mt := lexh.ParseModel(mans[i])
				switch mk {
				case "tokens":
					if d := lexh.Diff(r.Toks, mt); d != "" {
						c.Mismatch(cs, d, "", "lexer vs Model.Lex")
					}
				case "html":
				default:
					c.Mismatch(cs, fmt.Sprintf("%d tokens", len(r.Toks)), mans[i], "model outcome "+mk)
				}
			}
		}
	}
	if os.Getenv("C01_ONLYHOLES") != "" && len(c.ReplayRaw) == 0 { // dev aid: the hole and construct streams alone
		var keep []Case
		for _, cs := range cases {
			if strings.HasPrefix(cs.Name, "hole:") || strings.HasPrefix(cs.Name, "construct") {
				keep = append(keep, cs)
			}
		}
		cases = keep
	}
	executedTypes = map[int]bool{}
	const batchSize = 16384
	for lo := 0; lo < len(cases); lo += batchSize {
		hi := lo + batchSize
		if hi > len(cases) {
			hi = len(cases)
		}
		judge(cases[lo:hi])
	}
	if len(c.ReplayRaw) == 0 {
		// coverage of the run-after-accept clause: token types of the table that no accepted AND executed
		// program contained
		var never []string
		for _, d := range token.TokenDefinitions {
			if d.Literal != "" && !executedTypes[int(d.Type)] {
				never = append(never, d.Literal)
			}
		}
		c.Note("run-after-accept coverage: %d of %d token-table entries occur in an accepted and executed program; never executed: %s", len(token.TokenDefinitions)-len(never), len(token.TokenDefinitions), strings.Join(never, " "))
	}
	if len(c.ReplayRaw) == 0 && c.Thorough() {
		c.Res.Exhaustive = true
		c.Res.ExhaustiveWhat = "every token-boundary prefix, single-token deletion and duplication of every corpus file"
	}
}

// executedTypes: token types seen in programs that were accepted and run
var executedTypes map[int]bool

func mustHex(h string) []byte { b, _ := hex.DecodeString(h); return b }

func hexOf(s string) string { return hex.EncodeToString([]byte(s)) }

// extraConstructs: construct-bearing programs (over lexh.ConstructPrelude) for constructs that
// lexh.ConstructSnippets does not contain; each is cut, and damaged by one token, in every way.
var extraConstructs = []string{
	`$v = [...$arr]; $w = [0, ...$arr]; $x = [...$arr, 3]; echo count($v), count($w), count($x);`,
	`$v = [...$arr, ...[4, 5]]; $w = ['k' => 1, ...$arr]; echo count($v), count($w);`,
	`[...$arr]; [0, ...$arr]; [0, 1, ...$arr, 3]; echo 'x';`,
	`echo f0(...$arr), f0(1, ...[2]), $o->m(...[2]), K0::s(...[3]);`,
	`$n = new K0(...[]); echo $n->p, $o?->p, $zz?->p;`,
	`$n = clone $o; print 'p'; echo $n->p;`,
	`$r = &$a; $r = 5; echo $a; function rf(&$x) { $x++; } rf($a); echo $a;`,
	`list($x, $y) = [1, 2]; list('k' => $z) = ['k' => 3]; echo $x, $y, $z;`,
	`$g = static fn($x) => $x + 1; $h = static function() { return 2; }; echo $g(1), $h();`,
	`echo $a ** 2, $a << 1, $a >> 1, $a & 3, $a | 4, $a ^ 1, $a xor $b, $a and $b, $a or $b;`,
	`echo (float)$a, (bool)$a, (array)$a, @$zz, $a <> $b;`,
	`$name = 'a'; echo $$name, ${'a'};`,
	`enum E0 { case A; case B; } echo E0::A === E0::A ? 'same' : 'diff';`,
	`$k = new class { public $v = 2; function f() { return $this->v; } }; echo $k->f();`,
	`function gen0() { yield 1; yield 'k' => 2; } foreach (gen0() as $v) { echo $v; }`,
	`echo $arr[0] ?? 'd', $m['x']['y'] ?? 'e', isset($arr[0][1]) ? 1 : 0;`,
	`$i = 5; while ($i --> 0) { if ($i % 2) continue; echo $i; } echo 'e';`,
	"echo <<<'EOT'\nraw $a\nEOT;\necho 1;",
}

// caseKey identifies a case for the distinctness count (a digest: the sources themselves are large)
func caseKey(cs Case) string {
	h := sha1.Sum([]byte(cs.Hex))
	return cs.Mode + string(h[:])
}

func firstWords(s string) string {
	s = strings.TrimSpace(s)
	if i := strings.IndexByte(s, '\n'); i >= 0 {
		s = s[:i]
	}
	if len(s) > 40 {
		s = s[:40]
	}
	return s
}

// past crashers: (mode, source, "run"|"") — run first on every check
var pastCrashers = [][3]string{
	{"s", "echo 1;\n$", ""},
	{"s", "echo 1;\n\xe3\x80", ""},
	{"t", "<?php\necho 1;\n$", ""},
	{"s", "b'a\nb'; $x = 1;", ""},
	{"s", "$a = 1; // c\r\n$b = 2;", "run"},
	{"s", "if ($a > ) { echo 1; }", "run"},
	{"s", "for 1 in $a { }\n", ""},
	{"s", "try { echo 1; } catch (Exception $e - 1) { }\n", ""},
	{"s", "$b = $a + ; echo 1;", "run"},
	{"s", "<1", "run"},
	{"s", "class K0 { public $p = $7; }\n$o = new K0(); echo 'x';\n", "run"},
	{"s", "class K0 { public $p = 1; } $n = K0 { p: }; echo $n->p;", "run"},
	{"s", "$i = 0; while ($i < 3", "run"},
	{"s", "echo match (2) { 1 => 'a', default =>", "run"},
	{"s", "$arr = [1]; echo $arr[", "run"},
	{"s", "$a = 1;\nse {\n  \"k\": 1\n}\n", "run"},
	{"t", "<?php\n#[Command(name: , description: \"x\")]\nclass A {}\n", ""},
	{"s", "function f($a = 1, $b = 2) { return $a + $b; } echo f( , );", "run"},
	{"s", "[,", "run"},
	{"s", "switch ", "run"},
	{"s", "$a = [\"a\": 1, \"b\": 2]; echo count($a);", "run"},
	{"s", "$b = [$a, 'k' => [1, 'k' => $a]$e = 1;];", "run"},
	{"s", "trait T { public $x = 1; public $x = 2; }\nclass A { use T; }\n", ""},
	{"s", "$f = fn() => ; echo $f();", "run"},
	{"s", "$n = 'x'; echo \"a@{}b\"; echo \"a@{ }b\";", "run"},
	{"t", "<?php\n// \xff\xff\xff\xff\xff\xff\xff\xff\nif (1) {} endif;\n", ""},
	{"s", "$a = 1; $z = " + strings.Repeat("[$a, ", 26) + "1" + strings.Repeat("]", 26) + "; echo 'x';", "run"},
	{"s", "$x = (int); echo $x;", "run"},
	{"s", "echo ();", "run"},
	{"s", "$o = {: 1}; echo 1;", "run"},
	{"s", "$z = 0; echo 5 % 0;", "run"},
	{"s", "function neverCalled() { return 7 % 0; } echo 1;", "run"},
	// round 5 (nesting stream)
	{"s", "namespace { 1, 1 }\necho 1;", ""},
	{"s", "namespace A { $a = 1: 1 }", ""},
	{"s", "echo func_num_args;", "run"},
	{"s", "func_num_args < 1;", "run"},
	{"s", strings.Repeat("[ $a, ", 18) + "1" + strings.Repeat(" ] = $data", 18) + ";\necho 'parsed';", ""},
	{"s", "$a = 1; $b = 2; $x = " + strings.Repeat("[$a, $b += ", 18) + "1" + strings.Repeat("]", 18) + "; echo 'x';", "run"},
	{"s", "class K { protected $r = [1, $q]; } $o = new K(); echo 'x';", "run"},
	{"s", "class K { public $p = {\"k\": $q}; public $r = [$q => 1]; } $o = new K(); echo 'x';", "run"},
	{"t", "<?php\n#[\\Container\\Bind(abstract: $x::class)]\nclass C {}\n", ""},
	{"s", "echo $u::class; echo 1;", "run"},
}
