package c16

// Program generators for the differential run: a feature alphabet (each
// feature = a small self-contained snippet with seeded parameters and names
// made unique by the program's suffix, because the compile command parses all
// files of a build against one shared class/function registry), random mixes
// of features, lexh.GenSafe programs, and library+entry class programs.

import (
	"fmt"
	"regexp"
	"strings"

	"verif/harness/lexh"
	"verif/harness/vh"
)

type feature struct {
	Tag string
	// Gen returns the entry snippet and optional library files
	// ("<Ns>/<Class>.php" -> source). u is unique per program.
	Gen func(r *vh.Rand, u string) (string, map[string]string)
	// Group: ctl | expr | fn | closure | exc | cls | misc | ns | nscls
	Group string
	// Whole: Gen returns a whole file (several namespace sections): never hoisted by assemble, never mixed
	Whole bool
}

func n(r *vh.Rand, lo, hi int) int { return r.Range(lo, hi) }

func simple(group, tag string, f func(r *vh.Rand, u string) string) feature {
	return feature{Tag: tag, Group: group, Gen: func(r *vh.Rand, u string) (string, map[string]string) { return f(r, u), nil }}
}

var features []feature

func init() {
	add := func(f feature) { features = append(features, f) }
	S := fmt.Sprintf

	// ------------------------------------------------------------ control flow
	add(simple("ctl", "for-le", func(r *vh.Rand, u string) string {
		return S("$s = 0;\nfor ($i = %d; $i <= %d; $i++) { $s = $s + $i; echo $i, ','; }\necho \"s=$s\\n\";\n", n(r, 0, 2), n(r, 3, 6))
	}))
	add(simple("ctl", "for-lt-nested", func(r *vh.Rand, u string) string {
		return S("for ($i = 0; $i < %d; $i++) { for ($j = $i; $j < %d; $j++) { echo $i * $j, ' '; } }\necho \"\\n\";\n", n(r, 2, 4), n(r, 2, 5))
	}))
	add(simple("ctl", "for-multi", func(r *vh.Rand, u string) string {
		return S("for ($i = 0, $j = %d; $i < $j; $i++, $j--) { echo \"$i-$j \"; }\necho \"\\n\";\n", n(r, 4, 9))
	}))
	add(simple("ctl", "while-break", func(r *vh.Rand, u string) string {
		return S("$k = 0;\nwhile (true) { $k++; if ($k > %d) { break; } echo $k; }\necho \"\\n\";\n", n(r, 2, 6))
	}))
	add(simple("ctl", "do-while", func(r *vh.Rand, u string) string {
		return S("$k = %d;\ndo { echo $k; $k--; } while ($k > 0);\necho \"\\n\";\n", n(r, 0, 4))
	}))
	add(simple("ctl", "foreach-kv", func(r *vh.Rand, u string) string {
		return S("$m = ['a' => %d, 'b' => %d, 3 => 'x'];\nforeach ($m as $k => $v) { echo \"$k=$v;\"; }\nforeach ([10, 20] as $v) { echo $v; }\necho \"\\n\";\n", n(r, 0, 9), n(r, 0, 9))
	}))
	add(simple("ctl", "for-continue", func(r *vh.Rand, u string) string {
		return S("for ($i = 0; $i < 6; $i++) { if ($i %% %d == 0) { continue; } echo $i; }\necho \"\\n\";\n", n(r, 2, 3))
	}))
	add(simple("ctl", "if-elseif", func(r *vh.Rand, u string) string {
		return S("$v = %d;\nif ($v < 3) { echo 'lo'; } elseif ($v < 6) { echo 'mid'; } else { echo 'hi'; }\necho \"\\n\";\n", n(r, 0, 9))
	}))
	add(simple("ctl", "switch", func(r *vh.Rand, u string) string {
		return S("switch (%d) {\n  case 1: echo 'one'; break;\n  case 2: echo 'two'; break;\n  default: echo 'other';\n}\nswitch ('%s') { case 'a': echo 'A'; break; case 'b': echo 'B'; break; }\necho \"\\n\";\n", n(r, 0, 3), vh.Pick(r, []string{"a", "b", "c"}))
	}))
	add(simple("ctl", "match", func(r *vh.Rand, u string) string {
		return S("$v = %d;\necho match(true) { $v < 2 => 'small', $v < 5 => 'medium', default => 'large' }, match($v) { 1, 2 => 'a', 3 => 'b', default => 'z' }, \"\\n\";\n", n(r, 0, 7))
	}))
	add(simple("ctl", "ternary-coalesce", func(r *vh.Rand, u string) string {
		return S("$a = %d; $z = null;\necho $a > 2 ? 'gt' : 'le', $z ?? 'dflt', $a ?: 'zero', isset($q) ? 1 : 0, \"\\n\";\n", n(r, 0, 5))
	}))
	add(simple("ctl", "goto-less-return", func(r *vh.Rand, u string) string {
		return S("function early_%s($x) { if ($x > %d) { return 'big'; } foreach ([1, 2, 3] as $v) { if ($v == $x) { return \"hit$v\"; } } return 'none'; }\necho early_%s(%d), early_%s(9), \"\\n\";\n", u, n(r, 3, 5), u, n(r, 0, 4), u)
	}))

	// ------------------------------------------------------------ expressions / assignments
	add(simple("expr", "fast-assign", func(r *vh.Rand, u string) string {
		return S("$a = %d; $b = %d;\n$c = $a * $b; $d = $a + $b; $e = $a + %d; $f = %d * $b; $g = $a; $h = $a * ($b + 1);\necho \"$c $d $e $f $g $h\\n\";\n$a = 'x'; $c = $a . $b; $d = $a + 0 ?? 1;\necho $c, \"\\n\";\n", n(r, 1, 9), n(r, 1, 9), n(r, 1, 9), n(r, 1, 9))
	}))
	add(simple("expr", "fast-assign-nonint", func(r *vh.Rand, u string) string {
		return S("$a = %d.5; $b = '%d';\n$c = $a * $b; $d = $a + $b; $g = $b;\necho $c, ' ', $d, ' ', $g, \"\\n\";\n", n(r, 1, 9), n(r, 1, 9))
	}))
	add(simple("expr", "incdec", func(r *vh.Rand, u string) string {
		return S("$i = %d; $j = $i++; $k = ++$i; $l = $i--; $m = --$i;\necho \"$i $j $k $l $m\\n\";\n$s = 'a'; $f = 1.5; $f++; $nn = null; $nn++;\necho $f, ' ', $nn, \"\\n\";\n", n(r, 0, 9))
	}))
	add(simple("expr", "compound-assign", func(r *vh.Rand, u string) string {
		return S("$a = %d; $a += 3; $a -= 1; $a *= 2; $a %%= 7; $s = 'x'; $s .= 'y' . $a; $z = null; $z ??= 'd'; $a **= 2;\necho \"$a $s $z\\n\";\n", n(r, 1, 9))
	}))
	add(simple("expr", "arith-mixed", func(r *vh.Rand, u string) string {
		return S("echo %d + %d * 2 - (4 / 2), ' ', 7 %% 3, ' ', 2 ** 5, ' ', 10 / 4, ' ', -%d + 3, ' ', 7 <=> %d, ' ', 1 + 1.5, \"\\n\";\n", n(r, 0, 9), n(r, 0, 9), n(r, 0, 9), n(r, 0, 9))
	}))
	add(simple("expr", "compare-logic", func(r *vh.Rand, u string) string {
		return S("$a = %d; $b = '%d';\nvar_dump($a == $b, $a === $b, $a != 3, $a !== 3, $a < 5 && $a > 1, $a < 1 || $a > 7, !($a >= 4), ($a <= 4) != true);\n", n(r, 0, 9), n(r, 0, 9))
	}))
	add(simple("expr", "bitops", func(r *vh.Rand, u string) string {
		return S("echo %d & 6, ' ', %d | 9, ' ', 5 ^ 3, ' ', 1 << %d, ' ', 256 >> 2, ' ', ~5, \"\\n\";\n", n(r, 0, 15), n(r, 0, 15), n(r, 0, 8))
	}))
	add(simple("expr", "string-interp", func(r *vh.Rand, u string) string {
		return S("$n = %d; $arr = ['k' => 'v', 2 => 'two']; $name = 'w%s';\necho \"n=$n {$arr['k']} $arr[2] ${name} \\$esc \\t|\", 'single $n', \"\\n\";\n", n(r, 0, 99), u)
	}))
	add(simple("expr", "heredoc", func(r *vh.Rand, u string) string {
		return S("$n = %d;\necho <<<EOT\nline $n\n  two {$n}\nEOT;\necho \"\\n\", <<<'RAW'\nraw $n\nRAW;\necho \"\\n\";\n", n(r, 0, 99))
	}))
	add(simple("expr", "array-literal", func(r *vh.Rand, u string) string {
		return S("$a = [%d, 'two', [3, 4], 'k' => ['n' => 1], 9 => 'nine'];\necho count($a), $a[2][1], $a['k']['n'], $a[9], json_encode($a), \"\\n\";\n", n(r, 0, 9))
	}))
	add(simple("expr", "array-write", func(r *vh.Rand, u string) string {
		return S("$a = []; $a[] = %d; $a[] = 2; $a['x'] = 'y'; $a[5] = 5; $a[] = 6; $a['n']['m'] = 1; unset($a[1]);\necho json_encode($a), isset($a['x']), isset($a[1]) ? 'y' : 'n', \"\\n\";\n", n(r, 0, 9))
	}))
	add(simple("expr", "list-destructure", func(r *vh.Rand, u string) string {
		return S("[$p, $q] = [%d, %d]; [$x, [$y, $z]] = ['x', ['y', 'z']];\n[$p, $q] = [$q, $p];\necho \"$p $q $x $y $z\\n\";\n", n(r, 0, 9), n(r, 0, 9))
	}))
	add(simple("expr", "spread", func(r *vh.Rand, u string) string {
		return S("function sp_%s($a, $b, $c = 0) { return $a + $b + $c; }\n$args = [1, %d];\n$m = [...$args, 5, ...[7, 8]];\necho sp_%s(...$args), ' ', sp_%s(1, ...[2, 3]), ' ', json_encode($m), \"\\n\";\n", u, n(r, 0, 9), u, u)
	}))
	add(simple("expr", "casts", func(r *vh.Rand, u string) string {
		return S("$s = '%d'; $f = %d.7;\nvar_dump((int)$f, (string)$f, (bool)$s, (float)$s, (array)'a', intval('12abc'));\n", n(r, 0, 20), n(r, 0, 9))
	}))
	add(simple("expr", "null-safe", func(r *vh.Rand, u string) string {
		return "$o = null;\nvar_dump($o?->foo, $o?->bar());\n"
	}))
	add(simple("expr", "builtins-str", func(r *vh.Rand, u string) string {
		return S("$s = 'Hello World %d';\necho strlen($s), strtoupper($s), str_replace('o', '0', $s), substr($s, 2, 4), implode(',', explode(' ', $s)), sprintf('%%05d|%%s', %d, 'z'), \"\\n\";\n", n(r, 0, 99), n(r, 0, 99))
	}))
	add(simple("expr", "builtins-arr", func(r *vh.Rand, u string) string {
		return S("$a = [3, %d, 2, 8];\nsort($a); echo implode(',', $a), array_sum($a), max($a), in_array(2, $a) ? 'y' : 'n', implode(',', array_reverse($a)), implode(',', array_keys(['x' => 1, 'y' => 2])), \"\\n\";\n", n(r, 0, 9))
	}))
	add(simple("expr", "const-define", func(r *vh.Rand, u string) string {
		return S("const CK_%s = %d;\ndefine('DK_%s', 'dv');\necho CK_%s + 1, DK_%s, PHP_EOL;\n", u, n(r, 0, 99), u, u, u)
	}))
	add(simple("expr", "print-exprs", func(r *vh.Rand, u string) string {
		return S("print('p%d'); print \"q\\n\"; echo 1, 2.50, true, null, false, \"|\\n\"; var_dump(1.0, 'x', [1 => null]); print_r([1, ['a' => 2]]); echo \"\\n\";\n", n(r, 0, 9))
	}))
	add(simple("expr", "range-array", func(r *vh.Rand, u string) string {
		return S("foreach (range(1, %d) as $v) { echo $v; }\necho \"\\n\";\n", n(r, 2, 6))
	}))

	// ------------------------------------------------------------ functions
	add(simple("fn", "fn-defaults", func(r *vh.Rand, u string) string {
		return S("function fd_%s($a, $b = %d, $c = 'c', $d = [1, 2], $e = null) { return $a . $b . $c . count($d) . ($e ?? 'N'); }\necho fd_%s(1), ' ', fd_%s(1, 2), ' ', fd_%s(1, 2, 'x', [], 0), \"\\n\";\n", u, n(r, 0, 9), u, u, u)
	}))
	add(simple("fn", "fn-call-before-def", func(r *vh.Rand, u string) string {
		return S("echo hoist_%s(%d), \"\\n\";\nfunction hoist_%s($x) { return $x * 2; }\n", u, n(r, 0, 9), u)
	}))
	add(simple("fn", "fn-recursion", func(r *vh.Rand, u string) string {
		return S("function fib_%s($n) { return $n < 2 ? $n : fib_%s($n - 1) + fib_%s($n - 2); }\nfunction fact_%s($n) { if ($n <= 1) { return 1; } return $n * fact_%s($n - 1); }\necho fib_%s(%d), ' ', fact_%s(%d), \"\\n\";\n", u, u, u, u, u, u, n(r, 3, 12), u, n(r, 1, 8))
	}))
	add(simple("fn", "fn-typed", func(r *vh.Rand, u string) string {
		return S("function ty_%s(int $a, string $b = 'd', ?array $c = null, int|string $d = 5): string { return $a . $b . ($c === null ? 'n' : count($c)) . $d; }\necho ty_%s(%d), ty_%s(2, 'x', [1], 'u'), \"\\n\";\n", u, u, n(r, 0, 9), u)
	}))
	add(simple("fn", "fn-type-error", func(r *vh.Rand, u string) string {
		return S("function te_%s(): int { return 'notint'; }\necho 'before';\necho te_%s();\necho 'after';\n", u, u)
	}))
	add(simple("fn", "fn-byref", func(r *vh.Rand, u string) string {
		return S("function br_%s(&$x, $y) { $x = $x + $y; $y = 0; }\n$v = %d; $w = 3; br_%s($v, $w); br_%s($v, $w);\necho \"$v $w\\n\";\n$arr = [1]; function pa_%s(array &$a) { $a[] = 9; } pa_%s($arr); echo count($arr), \"\\n\";\n", u, n(r, 0, 9), u, u, u, u)
	}))
	add(simple("fn", "fn-variadic", func(r *vh.Rand, u string) string {
		return S("function va_%s($first, ...$rest) { return $first . ':' . implode('|', $rest) . '#' . count($rest); }\necho va_%s('a'), ' ', va_%s('a', 1, %d, 'z'), \"\\n\";\n", u, u, u, n(r, 0, 9))
	}))
	add(simple("fn", "fn-named-args", func(r *vh.Rand, u string) string {
		return S("function na_%s($a, $b = 2, $c = 3) { return \"$a-$b-$c\"; }\necho na_%s(1, c: %d), ' ', na_%s(b: 5, a: 0), \"\\n\";\n", u, u, n(r, 0, 9), u)
	}))
	add(simple("fn", "fn-static-var", func(r *vh.Rand, u string) string {
		return S("function sv_%s() { static $n = %d; $n++; return $n; }\nsv_%s(); sv_%s();\necho sv_%s(), \"\\n\";\n", u, n(r, 0, 9), u, u, u)
	}))
	add(simple("fn", "fn-global", func(r *vh.Rand, u string) string {
		return S("$gv_%s = %d;\nfunction gg_%s() { global $gv_%s; $gv_%s++; return $gv_%s; }\ngg_%s();\necho gg_%s(), $gv_%s, \"\\n\";\n", u, n(r, 0, 9), u, u, u, u, u, u, u)
	}))
	add(simple("fn", "fn-string-callable", func(r *vh.Rand, u string) string {
		return S("function sc_%s($x) { return $x + %d; }\n$f = 'sc_%s';\necho $f(1), call_user_func('sc_%s', 2), implode(',', array_map('sc_%s', [1, 2])), function_exists('sc_%s') ? 'y' : 'n', \"\\n\";\n", u, n(r, 0, 9), u, u, u, u)
	}))
	add(simple("fn", "fn-undefined", func(r *vh.Rand, u string) string {
		return S("echo \"a%d\\n\";\necho nosuch_%s(1);\necho \"after\\n\";\n", n(r, 0, 9), u)
	}))
	add(simple("fn", "fn-nested-def", func(r *vh.Rand, u string) string {
		return S("function outer_%s() { function inner_%s() { return 'in'; } return 'out'; }\necho outer_%s(), inner_%s(), \"\\n\";\n", u, u, u, u)
	}))
	add(simple("fn", "fn-return-ref-array", func(r *vh.Rand, u string) string {
		return S("function mkarr_%s($n) { $r = []; for ($i = 0; $i < $n; $i++) { $r[] = $i * $i; } return $r; }\n[$a, $b] = mkarr_%s(%d);\necho $a + $b, count(mkarr_%s(4)), \"\\n\";\n", u, u, n(r, 2, 5), u)
	}))
	add(simple("fn", "exit-code", func(r *vh.Rand, u string) string {
		return S("echo \"x\\n\";\nexit(%d);\necho 'never';\n", n(r, 0, 5))
	}))
	add(simple("fn", "exit-string", func(r *vh.Rand, u string) string {
		return S("echo 'x';\ndie('bye%d');\n", n(r, 0, 5))
	}))
	add(simple("fn", "shutdown-fn", func(r *vh.Rand, u string) string {
		return S("register_shutdown_function(function() { echo \"shutdown%d\\n\"; });\necho \"main\\n\";\n", n(r, 0, 9))
	}))

	add(simple("fn", "class-constant-expr", func(r *vh.Rand, u string) string {
		return S("function cc_%s() { return 'Exception'; }\necho cc_%s()::class, %d, \"\\n\";\n", u, u, n(r, 0, 9))
	}))
	add(simple("fn", "generator", func(r *vh.Rand, u string) string {
		return S("function gen_%s($n) { for ($i = 0; $i < $n; $i++) { yield $i => $i * 2; } return 'done'; }\nforeach (gen_%s(%d) as $k => $v) { echo \"$k:$v \"; }\necho \"\\n\";\n", u, u, n(r, 1, 5))
	}))
	add(simple("fn", "generator-send", func(r *vh.Rand, u string) string {
		return S("function gs_%s() { $x = yield 1; echo \"got$x\"; yield %d; }\n$g = gs_%s(); echo $g->current(); $g->send('A'); echo $g->current(), \"\\n\";\n", u, n(r, 2, 9), u)
	}))
	add(simple("fn", "fn-return-type-checked", func(r *vh.Rand, u string) string {
		return S("function rt_%s($v): int { return $v; }\n$f = function($v): string { return $v; };\ntry { echo rt_%s(%d), $f('s'), rt_%s('bad'); } catch (Throwable $t) { echo '|caught'; }\necho \"\\n\";\n", u, u, n(r, 0, 9), u)
	}))
	// ------------------------------------------------------------ closures
	add(simple("closure", "closure-use-value", func(r *vh.Rand, u string) string {
		return S("$x = %d;\n$f = function($a) use ($x) { return $a + $x; };\necho $f(1), ' ', $f(2), \"\\n\";\n", n(r, 0, 9))
	}))
	add(simple("closure", "closure-use-then-modify", func(r *vh.Rand, u string) string {
		return S("$x = %d;\n$f = function($a) use ($x) { return $a + $x; };\n$x = 100;\necho $f(1), \"\\n\";\n", n(r, 0, 9))
	}))
	add(simple("closure", "closure-use-ref", func(r *vh.Rand, u string) string {
		return S("$cnt = %d;\n$inc = function() use (&$cnt) { $cnt++; return $cnt; };\n$inc(); $inc();\necho $cnt, \"\\n\";\n", n(r, 0, 9))
	}))
	add(simple("closure", "arrow-fn", func(r *vh.Rand, u string) string {
		return S("$k = %d;\n$g = fn($a) => $a * $k;\n$h = fn($a) => fn($b) => $a + $b + $k;\necho $g(2), ' ', $h(1)(2), \"\\n\";\n", n(r, 1, 9))
	}))
	add(simple("closure", "closure-factory", func(r *vh.Rand, u string) string {
		return S("function mk_%s($n) { return function($m) use ($n) { return $n . $m; }; }\n$a = mk_%s('a'); $b = mk_%s('b%d');\necho $a('1'), $b('2'), $a('3'), \"\\n\";\n", u, u, u, n(r, 0, 9))
	}))
	add(simple("closure", "closure-callbacks", func(r *vh.Rand, u string) string {
		return S("$m = %d;\necho implode(',', array_map(function($v) use ($m) { return $v * $m; }, [1, 2, 3])), ' ', implode(',', array_filter([1, 2, 3, 4], fn($v) => $v %% 2 == 0)), ' ', array_reduce([1, 2, 3], function($c, $v) { return $c + $v; }, 10), \"\\n\";\n$a = [3, 1, 2]; usort($a, function($p, $q) { return $q <=> $p; }); echo implode($a), \"\\n\";\n", n(r, 1, 9))
	}))
	add(simple("closure", "closure-counter", func(r *vh.Rand, u string) string {
		return S("function counter_%s() { $c = %d; return function() use (&$c) { return ++$c; }; }\n$c1 = counter_%s(); $c2 = counter_%s();\n$c1(); $c1();\necho $c1(), $c2(), \"\\n\";\n", u, n(r, 0, 9), u, u)
	}))
	add(simple("closure", "closure-static-iife", func(r *vh.Rand, u string) string {
		return S("$sf = static function($a) { return $a + 1; };\necho (function($a) { return $a * 2; })(%d), $sf(1), \"\\n\";\n", n(r, 0, 9))
	}))
	add(simple("closure", "closure-nested-use", func(r *vh.Rand, u string) string {
		return S("$a = %d; $b = 2;\n$f = function() use ($a, $b) { $g = function($c) use ($a, $b) { return $a + $b + $c; }; return $g(3); };\necho $f(), \"\\n\";\n", n(r, 0, 9))
	}))
	add(simple("closure", "closure-recursive", func(r *vh.Rand, u string) string {
		return S("$fact = function($n) use (&$fact) { return $n <= 1 ? 1 : $n * $fact($n - 1); };\necho $fact(%d), \"\\n\";\n", n(r, 1, 7))
	}))
	add(simple("closure", "first-class-callable", func(r *vh.Rand, u string) string {
		return S("function fc_%s($x) { return $x + %d; }\n$f = fc_%s(...);\n$s = strlen(...);\necho $f(1), $s('abc'), \"\\n\";\n", u, n(r, 0, 9), u)
	}))
	add(simple("closure", "closure-default-typed", func(r *vh.Rand, u string) string {
		return S("$f = function(int $a, $b = %d, ...$r): string { return $a + $b + count($r) . ''; };\necho $f(1), $f(1, 2, 3, 4), \"\\n\";\n", n(r, 0, 9))
	}))

	// ------------------------------------------------------------ exceptions (builtin classes only in the entry)
	add(simple("exc", "try-catch-finally", func(r *vh.Rand, u string) string {
		return S("try { echo 'a'; throw new Exception('boom%d'); echo 'no'; } catch (Exception $e) { echo 'c:', $e->getMessage(); } finally { echo ':f'; }\necho \"\\n\";\n", n(r, 0, 9))
	}))
	add(simple("exc", "try-catch-hierarchy", func(r *vh.Rand, u string) string {
		k := vh.Pick(r, []string{"RuntimeException", "InvalidArgumentException", "LogicException", "Exception"})
		return S("function th_%s() { throw new %s('m', %d); }\ntry { th_%s(); } catch (InvalidArgumentException $e) { echo 'IAE'; } catch (RuntimeException | LogicException $e) { echo 'RL', $e->getCode(); } catch (Exception $e) { echo 'E', get_class($e); }\necho \"\\n\";\n", u, k, n(r, 0, 9), u)
	}))
	add(simple("exc", "try-nested-rethrow", func(r *vh.Rand, u string) string {
		return S("try { try { throw new Exception('inner%d'); } catch (Exception $e) { echo 'c1'; throw new RuntimeException('re:' . $e->getMessage()); } finally { echo 'f1'; } } catch (Exception $e2) { echo 'c2:', $e2->getMessage(); } finally { echo 'f2'; }\necho \"\\n\";\n", n(r, 0, 9))
	}))
	add(simple("exc", "try-finally-return", func(r *vh.Rand, u string) string {
		return S("function tf_%s($t) { try { if ($t) { throw new Exception('x'); } return 'try'; } catch (Exception $e) { return 'catch'; } finally { echo 'fin'; } }\necho tf_%s(true), tf_%s(false), \"\\n\";\n", u, u, u)
	}))
	add(simple("exc", "uncaught-exception", func(r *vh.Rand, u string) string {
		return S("echo \"a\\n\";\nthrow new %s('uncaught%d');\n", vh.Pick(r, []string{"Exception", "RuntimeException", "LogicException"}), n(r, 0, 9))
	}))
	add(simple("exc", "uncaught-in-function", func(r *vh.Rand, u string) string {
		return S("function uf_%s($n) { if ($n > 0) { return uf_%s($n - 1); } throw new Exception('deep'); }\necho \"a\\n\";\nuf_%s(%d);\necho 'after';\n", u, u, u, n(r, 0, 3))
	}))
	add(simple("exc", "uncaught-in-switch", func(r *vh.Rand, u string) string {
		return S("echo \"a\\n\";\nswitch (%d) {\n  case 1: echo nosuch_%s(1); break;\n  default: throw new Exception('sw');\n}\necho 'after';\n", n(r, 0, 2), u)
	}))
	add(simple("exc", "error-in-strict-compare", func(r *vh.Rand, u string) string {
		return S("function thr_%s() { throw new LogicException('cmp%d'); }\necho \"a\\n\";\nvar_dump(thr_%s() === 1);\n$x = [] instanceof Exception;\necho 'after';\n", u, n(r, 0, 9), u)
	}))
	add(simple("exc", "uncaught-after-finally", func(r *vh.Rand, u string) string {
		return S("try { throw new Exception('x%d'); } finally { echo \"fin\\n\"; }\necho 'after';\n", n(r, 0, 9))
	}))
	add(simple("exc", "throw-in-closure", func(r *vh.Rand, u string) string {
		return S("$f = function($x) { if ($x > %d) { throw new InvalidArgumentException(\"bad $x\"); } return $x; };\ntry { echo $f(1), $f(9); } catch (InvalidArgumentException $e) { echo '|', $e->getMessage(); }\necho \"\\n\";\n", n(r, 2, 5))
	}))
	add(simple("exc", "exception-props", func(r *vh.Rand, u string) string {
		return S("$p = new Exception('prev');\n$e = new RuntimeException('msg', %d, $p);\necho $e->getMessage(), $e->getCode(), $e->getPrevious()->getMessage(), $e instanceof Exception ? 'y' : 'n', \"\\n\";\n", n(r, 0, 99))
	}))
	add(simple("exc", "error-div-zero", func(r *vh.Rand, u string) string {
		return S("try { echo intdiv(%d, 0); } catch (DivisionByZeroError $e) { echo 'dz'; } catch (Throwable $t) { echo 'T:', get_class($t); }\necho \"\\n\";\n", n(r, 1, 9))
	}))
	add(simple("exc", "catch-throwable-typeerror", func(r *vh.Rand, u string) string {
		return S("function ct_%s(int $x) { return $x; }\ntry { echo ct_%s('abc'); } catch (Throwable $t) { echo 'caught'; }\necho \"\\n\";\n", u, u)
	}))

	// ------------------------------------------------------------ classes in library files (namespace L<u>), used by the entry
	cls := func(tag string, f func(r *vh.Rand, u, ns string) (string, map[string]string)) {
		add(feature{Tag: tag, Group: "cls", Gen: func(r *vh.Rand, u string) (string, map[string]string) {
			ns := "L" + u + strings.ReplaceAll(tag, "-", "")
			e, libs := f(r, u, ns)
			out := map[string]string{}
			for k, v := range libs {
				out[ns+"/"+k+".php"] = "<?php\nnamespace " + ns + ";\n" + v
			}
			return e, out
		}})
	}
	cls("cls-basic", func(r *vh.Rand, u, ns string) (string, map[string]string) {
		return S("$o = new \\%s\\Pt(%d, 2);\necho $o->x, $o->sum(), $o->scale(3)->x, \"\\n\";\n", ns, n(r, 0, 9)),
			map[string]string{"Pt": "class Pt {\n  public $x; public $y = 0; private $tag = 't';\n  function __construct($x, $y) { $this->x = $x; $this->y = $y; }\n  function sum() { return $this->x + $this->y . $this->tag; }\n  function scale($k) { return new Pt($this->x * $k, $this->y * $k); }\n}\n"}
	})
	cls("cls-use-import", func(r *vh.Rand, u, ns string) (string, map[string]string) {
		return S("use %s\\Box;\nuse %s\\Box as B2;\n$o = new Box(%d); $p = new B2(1);\necho $o->get(), $p->get(), $o instanceof Box ? 'y' : 'n', \"\\n\";\n", ns, ns, n(r, 0, 9)),
			map[string]string{"Box": "class Box {\n  private $v;\n  function __construct($v) { $this->v = $v; }\n  function get() { return $this->v; }\n}\n"}
	})
	cls("cls-const", func(r *vh.Rand, u, ns string) (string, map[string]string) {
		return S("echo \\%s\\Cfg::LIMIT, \\%s\\Cfg::NAME, \\%s\\Cfg::twice(), \"\\n\";\n", ns, ns, ns),
			map[string]string{"Cfg": S("class Cfg {\n  const LIMIT = %d;\n  public const NAME = 'cfg';\n  static function twice() { return self::LIMIT * 2 . static::NAME; }\n}\n", n(r, 1, 50))}
	})
	cls("cls-static-prop", func(r *vh.Rand, u, ns string) (string, map[string]string) {
		return S("use %s\\Cnt;\nCnt::bump(); Cnt::bump();\necho Cnt::$n, Cnt::get(), \"\\n\";\nCnt::$n = 40; echo Cnt::get(), \"\\n\";\n", ns),
			map[string]string{"Cnt": S("class Cnt {\n  public static $n = %d;\n  protected static $label = 'L';\n  static function bump() { self::$n++; static::$n += 1; }\n  static function get() { return self::$label . self::$n; }\n}\n", n(r, 0, 9))}
	})
	cls("cls-inherit", func(r *vh.Rand, u, ns string) (string, map[string]string) {
		return S("use %s\\Dog;\n$d = new Dog('rex');\necho $d->speak(), $d->name(), $d instanceof \\%s\\Animal ? 'A' : 'n', get_class($d), \"\\n\";\n", ns, ns),
			map[string]string{
				"Animal": "class Animal {\n  protected $name;\n  function __construct($n) { $this->name = $n; }\n  function speak() { return 'generic'; }\n  function name() { return $this->name; }\n}\n",
				"Dog":    S("class Dog extends Animal {\n  function speak() { return 'woof' . parent::speak() . %d; }\n}\n", n(r, 0, 9)),
			}
	})
	cls("cls-interface-abstract", func(r *vh.Rand, u, ns string) (string, map[string]string) {
		return S("use %s\\Sq;\n$s = new Sq(%d);\necho $s->area(), $s->describe(), $s instanceof \\%s\\Shape ? 'S' : 'n', $s instanceof \\%s\\HasArea ? 'H' : 'n', \"\\n\";\n", ns, n(r, 1, 9), ns, ns),
			map[string]string{
				"HasArea": "interface HasArea {\n  function area();\n}\n",
				"Shape":   "abstract class Shape implements HasArea {\n  abstract function name();\n  function describe() { return $this->name() . ':' . $this->area(); }\n}\n",
				"Sq":      "class Sq extends Shape {\n  private $s;\n  function __construct($s) { $this->s = $s; }\n  function area() { return $this->s * $this->s; }\n  function name() { return 'sq'; }\n}\n",
			}
	})
	cls("cls-abstract", func(r *vh.Rand, u, ns string) (string, map[string]string) {
		return S("$s = new \\%s\\Sq(%d);\necho $s->describe(), \"\\n\";\n", ns, n(r, 1, 9)),
			map[string]string{
				"Shape": "abstract class Shape {\n  abstract function name();\n  abstract protected function area(): int;\n  function describe() { return $this->name() . ':' . $this->area(); }\n}\n",
				"Sq":    "class Sq extends Shape {\n  private $s;\n  function __construct($s) { $this->s = $s; }\n  protected function area(): int { return $this->s * $this->s; }\n  function name() { return 'sq'; }\n}\n",
			}
	})
	cls("cls-visibility", func(r *vh.Rand, u, ns string) (string, map[string]string) {
		return S("$v = new \\%s\\Vis();\necho $v->pub, $v->show(), \"\\n\";\ntry { echo $v->priv; } catch (Throwable $t) { echo 'denied'; }\necho \"\\n\";\n", ns),
			map[string]string{"Vis": S("class Vis {\n  public $pub = 'p%d';\n  protected $prot = 'q';\n  private $priv = 'r';\n  function show() { return $this->prot . $this->priv . $this->hidden(); }\n  private function hidden() { return 'h'; }\n}\n", n(r, 0, 9))}
	})
	cls("cls-typed-props", func(r *vh.Rand, u, ns string) (string, map[string]string) {
		return S("$t = new \\%s\\Ty(%d);\necho $t->n, $t->s, $t->o === null ? 'null' : 'set', json_encode($t->list), \"\\n\";\n", ns, n(r, 0, 9)),
			map[string]string{"Ty": "class Ty {\n  public int $n = 0;\n  public string $s = 'str';\n  public ?Ty $o = null;\n  public array $list = [1, 2];\n  function __construct(int $n) { $this->n = $n; }\n}\n"}
	})
	cls("cls-promoted-ctor", func(r *vh.Rand, u, ns string) (string, map[string]string) {
		return S("$p = new \\%s\\Pr('a', %d);\necho $p->name, $p->age(), \"\\n\";\n", ns, n(r, 0, 99)),
			map[string]string{"Pr": "class Pr {\n  function __construct(public string $name, private int $age = 3) {}\n  function age() { return $this->age; }\n}\n"}
	})
	cls("cls-readonly", func(r *vh.Rand, u, ns string) (string, map[string]string) {
		return S("$p = new \\%s\\Ro(%d);\necho $p->v;\ntry { $p->v = 5; echo 'written'; } catch (Throwable $t) { echo 'ro'; }\necho \"\\n\";\n", ns, n(r, 0, 9)),
			map[string]string{"Ro": "class Ro {\n  public readonly int $v;\n  function __construct(int $v) { $this->v = $v; }\n}\n"}
	})
	cls("cls-static-method", func(r *vh.Rand, u, ns string) (string, map[string]string) {
		return S("use %s\\Util;\necho Util::add(%d, 2), Util::make()->tag(), \\%s\\Util::add(1, 1), \"\\n\";\n", ns, n(r, 0, 9), ns),
			map[string]string{"Util": "class Util {\n  static function add($a, $b) { return $a + $b; }\n  static function make() { return new static(); }\n  function tag() { return 'u'; }\n}\n"}
	})
	cls("cls-late-static", func(r *vh.Rand, u, ns string) (string, map[string]string) {
		return S("echo \\%s\\Kid::create()->who(), \\%s\\Base::create()->who(), \\%s\\Kid::label(), \"\\n\";\n", ns, ns, ns),
			map[string]string{
				"Base": S("class Base {\n  const TAG = 'base%d';\n  static function create() { return new static(); }\n  static function label() { return static::TAG . self::TAG; }\n  function who() { return 'B'; }\n}\n", n(r, 0, 9)),
				"Kid":  "class Kid extends Base {\n  const TAG = 'kid';\n  function who() { return 'K' . parent::who(); }\n}\n",
			}
	})
	cls("cls-magic", func(r *vh.Rand, u, ns string) (string, map[string]string) {
		return S("$m = new \\%s\\Mg();\n$m->dyn = %d;\necho $m->dyn, $m->other, $m, $m->anything(1, 2), isset($m->dyn) ? 'set' : 'unset', \"\\n\";\n", ns, n(r, 0, 9)),
			map[string]string{"Mg": "class Mg {\n  private $d = [];\n  function __get($k) { return $this->d[$k] ?? \"no-$k\"; }\n  function __set($k, $v) { $this->d[$k] = $v; }\n  function __isset($k) { return isset($this->d[$k]); }\n  function __call($n, $a) { return $n . count($a); }\n  function __toString() { return 'Mg!'; }\n}\n"}
	})
	cls("cls-method-closure-this", func(r *vh.Rand, u, ns string) (string, map[string]string) {
		return S("$a = new \\%s\\Acc(%d);\necho implode(',', $a->mapAll([1, 2, 3])), $a->adder()(5), \"\\n\";\n", ns, n(r, 1, 9)),
			map[string]string{"Acc": "class Acc {\n  private $k;\n  function __construct($k) { $this->k = $k; }\n  function mapAll($xs) { return array_map(function($x) { return $x * $this->k; }, $xs); }\n  function adder() { return fn($y) => $y + $this->k; }\n}\n"}
	})
	cls("cls-exception-subclass", func(r *vh.Rand, u, ns string) (string, map[string]string) {
		return S("use %s\\AppErr;\ntry { throw new AppErr('bad', %d); } catch (AppErr $e) { echo $e->getMessage(), $e->getCode(), $e->extra(); } \necho \"\\n\";\nthrow new AppErr('fatal');\n", ns, n(r, 0, 9)),
			map[string]string{"AppErr": "class AppErr extends \\Exception {\n  function extra() { return 'x' . $this->getCode(); }\n}\n"}
	})
	cls("cls-trait", func(r *vh.Rand, u, ns string) (string, map[string]string) {
		return S("$g = new \\%s\\Gr();\necho $g->hello(), $g->name, \"\\n\";\n", ns),
			map[string]string{
				"Hi": S("trait Hi {\n  public $name = 'tr%d';\n  function hello() { return 'hi ' . $this->name; }\n}\n", n(r, 0, 9)),
				"Gr": "class Gr {\n  use Hi;\n}\n",
			}
	})
	cls("cls-enum", func(r *vh.Rand, u, ns string) (string, map[string]string) {
		return S("use %s\\Suit;\n$s = Suit::Hearts;\necho $s->value, $s->name, $s === Suit::Hearts ? 'same' : 'diff', \"\\n\";\n", ns),
			map[string]string{"Suit": "enum Suit: string {\n  case Hearts = 'H';\n  case Spades = 'S';\n}\n"}
	})
	cls("cls-method-defaults-types", func(r *vh.Rand, u, ns string) (string, map[string]string) {
		return S("$c = new \\%s\\Calc();\necho $c->add(1), $c->add(1, %d), $c->cat('a'), $c->cat('a', 'b', 'c'), \"\\n\";\n", ns, n(r, 0, 9)),
			map[string]string{"Calc": "class Calc {\n  function add(int $a, int $b = 10): int { return $a + $b; }\n  function cat(string ...$parts): string { return implode('-', $parts); }\n}\n"}
	})
	cls("cls-static-call-nonstatic-ctx", func(r *vh.Rand, u, ns string) (string, map[string]string) {
		return S("$o = new \\%s\\Chain(%d);\necho $o->a()->b()->val(), \"\\n\";\n", ns, n(r, 0, 9)),
			map[string]string{"Chain": "class Chain {\n  private $v;\n  function __construct($v) { $this->v = $v; }\n  function a() { $this->v += 1; return $this; }\n  function b() { $this->v *= 2; return $this; }\n  function val() { return $this->v; }\n}\n"}
	})
	cls("cls-instanceof-dynamic-new", func(r *vh.Rand, u, ns string) (string, map[string]string) {
		return S("$cn = '%s\\\\Dyn';\n$o = new $cn(%d);\necho $o->v, get_class($o), $o instanceof $cn ? 'y' : 'n', \"\\n\";\n", strings.ReplaceAll(ns, "\\", "\\\\"), n(r, 0, 9)),
			map[string]string{"Dyn": "class Dyn {\n  public $v;\n  function __construct($v) { $this->v = $v; }\n}\n"}
	})
	cls("cls-clone", func(r *vh.Rand, u, ns string) (string, map[string]string) {
		return S("$a = new \\%s\\Cl(%d); $b = clone $a; $b->v = 99; $c = $a; $c->v = 7;\necho $a->v, $b->v, \"\\n\";\n", ns, n(r, 0, 9)),
			map[string]string{"Cl": "class Cl {\n  public $v;\n  function __construct($v) { $this->v = $v; }\n}\n"}
	})
	cls("cls-property-default-exprs", func(r *vh.Rand, u, ns string) (string, map[string]string) {
		return S("$d = new \\%s\\Df();\necho $d->a, $d->b, json_encode($d->c), $d->d, \"\\n\";\n", ns),
			map[string]string{"Df": S("class Df {\n  public $a = 1 + %d;\n  public $b = 'x' . 'y';\n  public $c = ['k' => [1, 2]];\n  public $d = null;\n}\n", n(r, 0, 9))}
	})
	cls("cls-interface-const", func(r *vh.Rand, u, ns string) (string, map[string]string) {
		return S("echo (new \\%s\\Impl())->m(), \"\\n\";\n", ns),
			map[string]string{
				"Lim":  S("interface Lim {\n  const MAX = %d;\n  function m();\n}\n", n(r, 1, 9)),
				"Impl": "class Impl implements Lim {\n  function m() { return self::MAX; }\n}\n",
			}
	})
	// ------------------------------------------------------------ classes declared in the entry file itself
	add(simple("entrycls", "entry-class", func(r *vh.Rand, u string) string {
		return S("class EC_%s { public $v = %d; function get() { return $this->v; } }\n$o = new EC_%s();\necho $o->get(), \"\\n\";\n", u, n(r, 0, 9), u)
	}))
	add(simple("entrycls", "entry-class-namespaced", func(r *vh.Rand, u string) string {
		return S("namespace NE_%s;\nclass EC { public $v = %d; function get() { return $this->v; } }\n$o = new EC();\necho $o->get(), \"\\n\";\n", u, n(r, 0, 9))
	}))
	add(simple("entrycls", "entry-interface", func(r *vh.Rand, u string) string {
		return S("namespace NI_%s;\ninterface EI { function m(); }\necho interface_exists('NI_%s\\\\EI') ? 'yes' : 'no', \"\\n\";\n", u, u)
	}))
	// ------------------------------------------------------------ positions (known finding: none in the compiled program)
	add(simple("pos", posTag, func(r *vh.Rand, u string) string {
		return S("$a = [%d];\n\necho \"x\\n\";\nvar_dump($a[null]);\n", n(r, 0, 9))
	}))
	add(simple("entrycls", "entry-namespaced-function", func(r *vh.Rand, u string) string {
		return S("namespace NF_%s;\nfunction nf($x) { return $x + %d; }\necho nf(1), \\NF_%s\\nf(2), \"\\n\";\n", u, n(r, 0, 9), u)
	}))
}

func featureByTag(tag string) *feature {
	for i := range features {
		if features[i].Tag == tag {
			return &features[i]
		}
	}
	return nil
}

// FeatProg: one feature alone.
func FeatProg(r *vh.Rand, f *feature, name, kind string) *Prog {
	if scMultis[f.Tag] != nil {
		return MultiProg(r, f, name, kind)
	}
	if opMultis[f.Tag] != nil {
		return opMultis[f.Tag](r, name, kind, opFull)
	}
	if nsMultis[f.Tag] != nil {
		return nsMultis[f.Tag](r, name, kind)
	}
	e, libs := f.Gen(r, name)
	p := &Prog{Name: name, Kind: kind, Tags: []string{f.Tag}, Libs: map[string]string{}}
	p.Parts = []string{e}
	p.PartLibs = []map[string]string{libs}
	for k, v := range libs {
		p.Libs[k] = v
	}
	p.Src = assemble(p.Parts)
	return p
}

// assemble joins snippets into one entry script. `use` lines and a `namespace`
// line must come first, so they are hoisted.
func assemble(parts []string) string {
	var head, body []string
	for _, p := range parts {
		for _, l := range strings.SplitAfter(p, "\n") {
			if strings.HasPrefix(l, "use ") || strings.HasPrefix(l, "namespace ") {
				head = append(head, l)
			} else {
				body = append(body, l)
			}
		}
	}
	return "<?php\n" + strings.Join(head, "") + strings.Join(body, "")
}

// MixProg: 2..5 features drawn from pool (features whose tag is in skip are
// left out: they have a known divergence and run in the known stream only).
func MixProg(r *vh.Rand, pool []*feature, name string) *Prog {
	k := r.Range(2, 5)
	p := &Prog{Name: name, Kind: "mix", Libs: map[string]string{}}
	for i := 0; i < k; i++ {
		f := vh.Pick(r, pool)
		// the unique suffix differs per part so that one feature may repeat
		e, libs := f.Gen(r, fmt.Sprintf("%sy%d", name, i))
		// a part that ends the script (exit / uncaught) goes last only
		p.Tags = append(p.Tags, f.Tag)
		p.Parts = append(p.Parts, e)
		p.PartLibs = append(p.PartLibs, libs)
		for kk, v := range libs {
			p.Libs[kk] = v
		}
	}
	p.Src = assemble(p.Parts)
	return p
}

var reSafeFn = regexp.MustCompile(`\bf([0-9])\(`)

// SafeProg: a lexh.GenSafe program (functions renamed to be unique in the batch).
func SafeProg(r *vh.Rand, name string) *Prog {
	src := lexh.GenSafe(r)
	src = reSafeFn.ReplaceAllString(src, "f${1}_"+name+"(")
	return &Prog{Name: name, Kind: "safe", Tags: []string{"gensafe"}, Src: "<?php\n" + src}
}
