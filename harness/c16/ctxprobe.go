package c16

// Per-file state of the generator versus per-node state of the AST (structural side; the
// differential side is nsfile.go).
//
//  1. ctx probe (model-independent, real Generator, no PHP run): every AST node instance met in the
//     parsed snippets is emitted under ParsedFiles that differ ONLY in one per-file input
//     (Namespace, Path). A node type that carries a value of that kind itself (a string field named
//     like the input: CallLater.namespace, …) gets a sentinel written into its own field: the text
//     generated for the node must carry the node's OWN value — `ctx:<type>.<field>` otherwise (the
//     emitter takes from the file what the node says about itself). Replay kind `ctx`.
//     Tie with the translator: the text of a node depends on a per-file input iff the regenerated
//     uses of `g.<field>` (driver `ctx <type>`) say its handler — or the handler of a node below
//     it — prints that field.
//  2. resolve tie: Model.EmitCtx.resolve (what the namespace of a CallLater means at run time)
//     against the real CallLater.GetValue, over every subset of a small function universe x every
//     namespace x every way of writing the name.

import (
	"fmt"
	"reflect"
	"sort"
	"strconv"
	"strings"
	"unsafe"

	"github.com/php-any/origami/cmd/compile"
	"github.com/php-any/origami/data"
	"github.com/php-any/origami/node"

	"verif/harness/vh"
)

// ctxInput: one per-file input of Generator.Generate and the generator field it lands in
type ctxInput struct {
	PF    string   // field of compile.ParsedFile
	Gen   string   // field of Generator (the translator's name for it)
	Names []string // names (case-insensitive) under which a node carries a value of this kind itself
}

var ctxInputs = []ctxInput{
	{"Namespace", "namespace", []string{"namespace"}},
	{"Path", "file", []string{"path", "file", "filename", "source"}},
}

type ctxReplay struct {
	Field string `json:"field"`
	Input string `json:"input"`
}

// stmtText: the statements part of what the real Generator writes for a one-statement file
func stmtText(n data.GetValue, ns, path string) (text string, err string) {
	defer func() {
		if r := recover(); r != nil {
			err = fmt.Sprint("panic: ", r)
		}
	}()
	g := compile.NewGenerator()
	code, e := g.Generate(compile.ParsedFile{Path: path, Namespace: ns, Program: node.NewProgram(nil, []data.GetValue{n})})
	if e != nil {
		return "", e.Error()
	}
	i := strings.Index(code, "stmts := []data.GetValue{\n")
	j := strings.LastIndex(code, "vars := []data.Variable{")
	if i < 0 || j < i {
		return code, ""
	}
	return code[i:j], ""
}

func (in ctxInput) emit(n data.GetValue, v string) (string, string) {
	if in.PF == "Namespace" {
		return stmtText(n, v, "probe.php")
	}
	return stmtText(n, "ProbeNs", v+".php")
}

// typesIn: the node types of the subtree of v (exported fields, as collect walks them)
func typesIn(v reflect.Value, seen map[uintptr]bool, out map[string]bool, depth int) {
	if depth > 60 || !v.IsValid() {
		return
	}
	switch v.Kind() {
	case reflect.Interface:
		if !v.IsNil() {
			typesIn(v.Elem(), seen, out, depth+1)
		}
	case reflect.Ptr:
		if v.IsNil() || seen[v.Pointer()] {
			return
		}
		seen[v.Pointer()] = true
		if v.Elem().Kind() == reflect.Struct && v.Type().Implements(getValueT) {
			out[typeName(v.Type())] = true
		}
		typesIn(v.Elem(), seen, out, depth+1)
	case reflect.Struct:
		for i := 0; i < v.NumField(); i++ {
			f := v.Type().Field(i)
			if f.Anonymous && f.Name == "Node" {
				continue
			}
			typesIn(v.Field(i), seen, out, depth+1)
		}
	case reflect.Slice:
		for i := 0; i < v.Len(); i++ {
			typesIn(v.Index(i), seen, out, depth+1)
		}
	case reflect.Map:
		for _, k := range v.MapKeys() {
			typesIn(v.MapIndex(k), seen, out, depth+1)
		}
	}
}

// ctxCarriers: "<type>.<field>" -> true for the string fields that were FOUND to hold the file-level
// value in a parsed one-namespace file (learned from the data, whatever the field is called:
// Namespace.Name, CallLater.namespace, …); filled by learnCarriers
var ctxCarriers = map[string]bool{}

const ctxProbeNs = "CtxProbeNsZq"

// learnCarriers parses every namespace-less snippet once more under `namespace CtxProbeNsZq;` and
// records every string field of every node (all instances, not one per type) that holds exactly
// that name: the fields in which the AST carries the namespace per node.
func learnCarriers(c *vh.Ctx, srcs []string, pdir string) {
	for i, src := range srcs {
		if strings.Contains(src, "namespace ") || !strings.HasPrefix(src, "<?php\n") {
			continue
		}
		body := strings.TrimPrefix(src, "<?php\n")
		var head, rest []string
		for _, l := range strings.SplitAfter(body, "\n") {
			if strings.HasPrefix(l, "use ") {
				head = append(head, l)
			} else {
				rest = append(rest, l)
			}
		}
		prog, _ := parseSnippet("<?php\nnamespace "+ctxProbeNs+";\n"+strings.Join(head, "")+strings.Join(rest, ""), fmt.Sprintf("%s/c%d.php", pdir, i))
		if prog == nil {
			continue
		}
		findCarriers(reflect.ValueOf(prog), map[uintptr]bool{}, 0)
	}
	var ks []string
	for k := range ctxCarriers {
		ks = append(ks, k)
	}
	sort.Strings(ks)
	c.Note("ctx probe: node fields found to hold the file's namespace in a parsed one-namespace file: %s", strings.Join(ks, " "))
	for range ks {
		c.Hit("ctx-probe:carrier-field")
	}
}

func findCarriers(v reflect.Value, seen map[uintptr]bool, depth int) {
	if depth > 60 || !v.IsValid() {
		return
	}
	switch v.Kind() {
	case reflect.Interface:
		if !v.IsNil() {
			findCarriers(v.Elem(), seen, depth+1)
		}
	case reflect.Ptr:
		if v.IsNil() || seen[v.Pointer()] {
			return
		}
		seen[v.Pointer()] = true
		if v.Elem().Kind() == reflect.Struct && v.Type().Implements(getValueT) {
			e := v.Elem()
			for i := 0; i < e.NumField(); i++ {
				if e.Field(i).Kind() == reflect.String && e.Field(i).String() == ctxProbeNs {
					ctxCarriers[typeName(v.Type())+"."+e.Type().Field(i).Name] = true
				}
			}
		}
		findCarriers(v.Elem(), seen, depth+1)
	case reflect.Struct:
		for i := 0; i < v.NumField(); i++ {
			f := v.Type().Field(i)
			if f.Anonymous && f.Name == "Node" {
				continue
			}
			findCarriers(v.Field(i), seen, depth+1)
		}
	case reflect.Slice:
		for i := 0; i < v.Len(); i++ {
			findCarriers(v.Index(i), seen, depth+1)
		}
	case reflect.Map:
		for _, k := range v.MapKeys() {
			findCarriers(v.MapIndex(k), seen, depth+1)
		}
	}
}

// ownFields: indexes of the string fields of the node's struct that carry a value of the input's
// kind themselves: named like the input, or (namespace) found to hold it by learnCarriers
func ownFields(n data.GetValue, in ctxInput) []int {
	t := reflect.TypeOf(n).Elem()
	var out []int
	for i := 0; i < t.NumField(); i++ {
		f := t.Field(i)
		if f.Type.Kind() != reflect.String {
			continue
		}
		hit := in.PF == "Namespace" && ctxCarriers[typeName(reflect.TypeOf(n))+"."+f.Name]
		for _, nm := range in.Names {
			if strings.EqualFold(f.Name, nm) {
				hit = true
			}
		}
		if hit {
			out = append(out, i)
		}
	}
	return out
}

func setString(n data.GetValue, idx int, val string) func() {
	f := reflect.ValueOf(n).Elem().Field(idx)
	if !f.CanSet() {
		f = reflect.NewAt(f.Type(), unsafe.Pointer(f.UnsafeAddr())).Elem()
	}
	old := f.String()
	f.SetString(val)
	return func() { f.SetString(old) }
}

// ctxOf asks the model which per-file generator fields the handler of a type prints
func ctxOf(m *vh.Model, memo map[string]map[string]bool, typ string) map[string]bool {
	if r, ok := memo[typ]; ok {
		return r
	}
	r := map[string]bool{}
	if m != nil {
		if ans, err := m.Ask("ctx " + typ); err == nil && ans != "-" {
			for _, f := range strings.Split(ans, ",") {
				r[strings.TrimSpace(f)] = true
			}
		}
	}
	memo[typ] = r
	return r
}

func ctxCase(c *vh.Ctx, m *vh.Model, memo map[string]map[string]bool, typ string, n data.GetValue) {
	if reflect.TypeOf(n).Kind() != reflect.Ptr || reflect.TypeOf(n).Elem().Kind() != reflect.Struct {
		return
	}
	for _, in := range ctxInputs {
		a, ea := in.emit(n, "CtxA_zq")
		b, eb := in.emit(n, "CtxB_zq")
		if ea != "" || eb != "" {
			c.Hit("ctx-probe:not-emitted")
			continue
		}
		c.Eval("ctx:"+typ+":"+in.PF, true)
		c.Hit("ctx-probe:checked")
		dep := a != b
		if dep {
			c.Hit("ctx-probe:depends-on-" + in.PF)
		}
		// (1) a node that carries the value itself: its own value must reach the text
		for _, idx := range ownFields(n, in) {
			fname := reflect.TypeOf(n).Elem().Field(idx).Name
			undo := setString(n, idx, "OwnVal_zq")
			t, et := in.emit(n, "CtxA_zq")
			t2, _ := in.emit(n, "CtxB_zq")
			undo()
			if et != "" {
				continue
			}
			c.Hit("ctx-probe:own-field")
			if strings.Contains(t, strconv.Quote("OwnVal_zq")) {
				continue
			}
			what := "drops it"
			if t != t2 {
				what = "depends on ParsedFile." + in.PF + " (the file-level value: for the namespace, the LAST section of the file) instead"
			}
			c.Violation("ctx:"+typ+"."+fname, fmt.Sprintf("the Go text generated for a %s does not carry the node's own %s (set to \"OwnVal_zq\" for the probe) and %s: a file whose nodes do not all agree with the file-level value is translated into another program", typ, fname, what),
				replayCase{Kind: "ctx", Type: typ, Snip: instSrc[typ], Scalar: nil, Ctx: &ctxReplay{Field: fname, Input: in.PF}})
		}
		// (2) tie: dependence on the input <-> the translator's uses of g.<field>
		if m == nil {
			continue
		}
		self := ctxOf(m, memo, typ)[in.Gen]
		below := false
		ts := map[string]bool{}
		typesIn(reflect.ValueOf(n), map[uintptr]bool{}, ts, 0)
		for t := range ts {
			if t != typ && ctxOf(m, memo, t)[in.Gen] {
				below = true
			}
		}
		c.Res.Traces++
		cas := replayCase{Kind: "ctx", Type: typ, Snip: instSrc[typ], Ctx: &ctxReplay{Input: in.PF}}
		switch {
		case dep && !self && !below:
			c.Mismatch(cas, "text depends on ParsedFile."+in.PF, "no handler in the subtree prints g."+in.Gen, "the translator's uses of the generator's fields miss one the emitted text depends on")
		case !dep && self:
			c.Mismatch(cas, "text does not depend on ParsedFile."+in.PF, "the handler prints g."+in.Gen, "the translator says the handler prints the generator's field, the emitted text ignores it")
		}
	}
}

func ctxStream(c *vh.Ctx, m *vh.Model, inst map[string]data.GetValue, only string) {
	var names []string
	for n := range inst {
		names = append(names, n)
	}
	sort.Strings(names)
	memo := map[string]map[string]bool{}
	for _, name := range names {
		if only != "" && name != only {
			continue
		}
		ctxCase(c, m, memo, name, inst[name])
	}
	if only == "" {
		c.Note("ctx probe: %d (node type, per-file input) pairs emitted under two values of the input; %d depend on ParsedFile.Namespace, %d on ParsedFile.Path; %d node fields that carry such a value themselves reach the text", c.Res.Histogram["ctx-probe:checked"], c.Res.Histogram["ctx-probe:depends-on-Namespace"], c.Res.Histogram["ctx-probe:depends-on-Path"], c.Res.Histogram["ctx-probe:own-field"])
	}
}

// ---------------------------------------------------------------- resolve tie

// the function universe of the tie: every subset is one VM
var resolveUniverse = []string{"f", "A\\f", "B\\f", "A\\Sub\\f"}
var resolveSpaces = []string{"", "A", "B", "A\\Sub", "C"}
var resolveNames = []string{"f", "Sub\\f", "A\\f", "\\B\\f", "g"}

func resolveScript(defined []string) string {
	var sb strings.Builder
	sb.WriteString("<?php\n")
	byNs := map[string][]string{}
	var order []string
	for _, d := range defined {
		ns := ""
		if i := strings.LastIndex(d, "\\"); i >= 0 {
			ns = d[:i]
		}
		if _, ok := byNs[ns]; !ok {
			order = append(order, ns)
		}
		byNs[ns] = append(byNs[ns], d)
	}
	sort.Strings(order) // the global functions ("" sorts first) come before the first namespace line
	for _, ns := range order {
		if ns != "" {
			fmt.Fprintf(&sb, "namespace %s;\n", ns)
		}
		for _, d := range byNs[ns] {
			short := d[strings.LastIndex(d, "\\")+1:]
			fmt.Fprintf(&sb, "function %s() { return '%s'; }\n", short, strings.ReplaceAll(d, "\\", "\\\\"))
		}
	}
	return sb.String()
}

func realResolve(env *vh.VMEnv, ns, q string) (res string) {
	defer func() {
		if r := recover(); r != nil {
			res = fmt.Sprint("panic: ", r)
		}
	}()
	path := "/verif-resolve.php"
	from := node.NewTokenFrom(&path, 0, 0, 1, 1)
	call := node.NewCallTodo(node.NewCallExpression(from, q, nil, nil), ns)
	v, ctl := call.GetValue(env.VM.CreateContext(nil))
	if ctl != nil {
		if strings.Contains(ctl.AsString(), "未找到函数") {
			return "none"
		}
		return "error: " + firstLines(ctl.AsString(), 1)
	}
	if sv, ok := v.(data.AsString); ok {
		return "some " + sv.AsString()
	}
	return fmt.Sprintf("value %T", v)
}

func dash(s string) string {
	if s == "" {
		return "-"
	}
	return s
}

func resolveStream(c *vh.Ctx, m *vh.Model) {
	if m == nil {
		return
	}
	for mask := 0; mask < 1<<len(resolveUniverse); mask++ {
		var defined []string
		for i, d := range resolveUniverse {
			if mask&(1<<i) != 0 {
				defined = append(defined, d)
			}
		}
		env := vh.NewEnv()
		if o := env.RunSource(resolveScript(defined), "/verif-resolve-defs.php"); o.Kind != "ok" {
			c.Note("resolve tie: the defining script failed for %v: %s", defined, o)
			c.Hit("resolve:setup-failed")
			continue
		}
		for _, ns := range resolveSpaces {
			for _, q := range resolveNames {
				real := realResolve(env, ns, q)
				// NewCallExpression drops one leading backslash of the name
				ans, err := m.Ask(fmt.Sprintf("resolve %s %s %s", dash(strings.Join(defined, ",")), dash(ns), dash(strings.TrimPrefix(q, "\\"))))
				if err != nil {
					continue
				}
				c.Res.Traces++
				c.Hit("resolve:checked")
				if strings.HasPrefix(real, "some ") {
					c.Hit("resolve:found")
				}
				if real != ans {
					c.Mismatch(map[string]any{"kind": "resolve", "defined": defined, "namespace": ns, "name": q}, real, ans, "CallLater.GetValue vs Model.EmitCtx.resolve")
				}
			}
		}
	}
}

// nsCoverage: which node kinds do the namespace-section programs put into a section that is NOT the
// last one of its file (where the file-level namespace differs from the node's)? Measured on the
// parsed sources, not assumed.
func nsCoverage(c *vh.Ctx, prog *node.Program) {
	var secs []*node.Namespace
	for _, st := range prog.Statements {
		if ns, ok := st.(*node.Namespace); ok {
			secs = append(secs, ns)
		}
	}
	if len(secs) < 2 {
		return
	}
	c.Hit("ns:files-with-sections")
	last := secs[len(secs)-1].Name
	for _, ns := range secs[:len(secs)-1] {
		if ns.Name == last {
			continue
		}
		ts := map[string]bool{}
		typesIn(reflect.ValueOf(ns.Statements), map[uintptr]bool{}, ts, 0)
		for t := range ts {
			if strings.Contains(t, "Call") || strings.Contains(t, "New") || strings.Contains(t, "Const") || strings.Contains(t, "Use") || strings.Contains(t, "Function") || strings.Contains(t, "Lambda") {
				c.Hit("ns:nonlast:" + strings.TrimPrefix(t, "node."))
			}
		}
	}
}
