// Package c16: correspondence + violation search for C16 (ahead-of-time
// compilation preserves behaviour: compiled = interpreted).
//
//   - structural tie: the Lean model driver vm_c16 (Model.Emit over the
//     regenerated struct tables) answers, per AST node type, which path
//     Generator.Emit takes and which fields a reflective literal carries; the
//     harness asks the real Generator the same on parsed snippets (struct.go).
//   - differential: batches of programs are translated by the real compile
//     command, built once into one binary, and each program is run compiled and
//     interpreted (batch.go); stdout, uncaught-error kind and exit status must
//     agree. The oracle is the interpreted run; the model is not involved.
package c16

import (
	"encoding/json"
	"fmt"
	"os"
	"regexp"
	"sort"
	"strings"
	"time"

	"verif/harness/lexh"
	"verif/harness/vh"
)

func init() { vh.Register("C16", Run) }

type replayCase struct {
	Kind   string            `json:"kind"` // prog | struct | order (Type + snippet = field)
	Name   string            `json:"name,omitempty"`
	Tags   []string          `json:"tags,omitempty"`
	Src    string            `json:"src,omitempty"`
	Libs   map[string]string `json:"libs,omitempty"`
	Type   string            `json:"type,omitempty"`
	Snip   string            `json:"snippet,omitempty"`
	Scalar *scalarReplay     `json:"scalar,omitempty"` // kind scalar: field, payload, depth (scalarprobe.go)
	Ctx    *ctxReplay        `json:"ctx,omitempty"`    // kind ctx: the node's own field / the per-file input (ctxprobe.go)
}

func caseOf(p *Prog) replayCase {
	return replayCase{Kind: "prog", Name: p.Name, Tags: p.Tags, Src: p.Src, Libs: p.Libs}
}

// knownTags: feature tag -> signature of the known finding that covers it.
// Features listed here stay out of the mix stream and are confirmed alone.
var knownTags = map[string]string{
	// class-like declarations in the entry file are parsed into the registry, not the AST
	"entry-class":            "diff:entry-class",
	"entry-class-namespaced": "diff:entry-class-namespaced",
	"entry-interface":        "diff:entry-interface",
	// interface declarations are never translated (augmentProgramASTFromBase only walks AllClasses)
	"cls-interface-abstract": "register:cls-interface-abstract",
	"cls-interface-const":    "register:cls-interface-const",
	// ClassStatement.StaticProperty (constants, static properties: parse-time values) is not emitted
	"cls-const":       "diff:cls-const",
	"cls-static-prop": "diff:cls-static-prop",
	"cls-late-static": "diff:cls-late-static",
	"cls-enum":        "diff:cls-enum",
	// ClassStatement.Construct (inherited constructor resolved by the parser) is not emitted
	"cls-inherit":            "diff:cls-inherit",
	"cls-exception-subclass": "diff:cls-exception-subclass",
	// the generated program builds every node with one zero `from`: every position a diagnostic
	// prints is line 1 (positions are normalised away in every other program, batch.go normOut)
	posTag: "diff:pos-diagnostic-line",
}

// aloneOnly: features the generator refuses with an explicit compile error; they run alone
// (a refused part would take the whole mixed program with it).
var aloneOnly = map[string]bool{"class-constant-expr": true}

func sigFor(tag string) string {
	if s, ok := knownTags[tag]; ok {
		return s
	}
	return "diff:" + tag
}

func diffWhat(p *Prog, c, i Obs) string {
	return fmt.Sprintf("compiled ≠ interpreted for program %s [%s]: compiled {%s} interpreted {%s}", p.Name, strings.Join(p.Tags, ","), c, i)
}

type runner struct {
	c       *vh.Ctx
	batchNo int
	explore *os.File
	failing []*Prog // mix/safe programs that differed (for the shrink batch)
	timeout time.Duration
}

// judge compares the two runs of every program of a finished batch.
func (rn *runner) judge(progs []*Prog, br *BatchResult, shrinkPass bool) {
	c := rn.c
	for _, p := range progs {
		key := p.Kind + ":" + p.Src
		if rf, ok := br.Refused[p.Name]; ok {
			c.Eval(key, false)
			c.Hit("refused:" + rf.Stage)
			if rf.Stage == "crash" {
				if len(p.Tags) > 1 && !shrinkPass && len(p.Parts) > 0 {
					rn.failing = append(rn.failing, p)
				} else {
					c.Violation("crash:"+strings.Join(uniqSorted(p.Tags), "+"), "the compile command panics instead of reporting a compile error for "+p.Name+" ["+strings.Join(p.Tags, ",")+"]: "+rf.Msg, caseOf(p))
				}
			}
			// A refusal must be explicit (the command named the file and failed);
			// a parse refusal must also be a parse error for the interpreter — checked by
			// the parse-refusal stream below through the interpreted run of the batch.
			if rn.explore != nil {
				fmt.Fprintf(rn.explore, "REFUSED %s %v %s: %s\n", p.Name, p.Tags, rf.Stage, rf.Msg)
			}
			if rf.Stage == "parse" {
				if io, ok := br.Interp[p.Name]; ok && io.ErrKind == "" && io.Exit == 0 {
					c.Violation("refused-but-runs:"+strings.Join(uniqSorted(p.Tags), "+"), "the compile command refuses "+p.Name+" at the parse stage ("+rf.Msg+") but the interpreter runs it: "+io.String(), caseOf(p))
				} else if ok {
					c.Hit("refused:parse:interpreter-refuses-too")
				}
			}
			continue
		}
		if msg, ok := br.Unbuilt[p.Name]; ok {
			c.Eval(key, true)
			c.Hit("unbuilt")
			if rn.explore != nil {
				fmt.Fprintf(rn.explore, "UNBUILT %s %v: %s\n", p.Name, p.Tags, msg)
			}
			if len(p.Tags) > 1 && !shrinkPass && len(p.Parts) > 0 {
				rn.failing = append(rn.failing, p)
				continue
			}
			tag := strings.Join(uniqSorted(p.Tags), "+")
			c.Violation("build:"+tag, "the Go code generated for "+p.Name+" ["+strings.Join(p.Tags, ",")+"] does not compile: "+msg, caseOf(p))
			continue
		}
		co, ok1 := br.Compiled[p.Name]
		io, ok2 := br.Interp[p.Name]
		if !ok1 || !ok2 {
			c.Mismatch(caseOf(p), "", "", "program was not run")
			continue
		}
		nontrivial := io.Out != "" || io.ErrKind != ""
		c.Eval(key, nontrivial)
		c.Hit("kind:" + p.Kind)
		for _, t := range p.Tags {
			c.Hit("feat:" + t)
		}
		switch {
		case io.Exit == -1:
			c.Hit("outcome:timeout")
		case io.ErrKind != "":
			c.Hit("outcome:uncaught")
		case io.Exit != 0:
			c.Hit("outcome:exit-nonzero")
		default:
			c.Hit("outcome:ok")
		}
		if len(p.Tags) == 1 && strings.HasPrefix(p.Tags[0], "ord-") && io.Exit != -1 {
			// the observer must show the declared order in the interpreted run (non-vacuity of the order stream)
			for _, e := range expectOf(p.Src) {
				if showsOrder(io.Out, e) {
					c.Hit("ord:effective")
				} else {
					c.Hit("ord:ineffective:" + p.Tags[0])
					c.Note("order observer of %s does not show the declared order %q in the interpreted run: %s", p.Tags[0], e, io)
				}
			}
		}
		if strings.Contains(p.Src, "// sc-expect: ") && io.Exit != -1 {
			// the literal form must denote the intended payload in the interpreted run (non-vacuity of the scalar stream)
			scEffect(c, p, io)
		}
		if len(p.PartIDs) > 0 && io.Exit != -1 {
			// every part of a multi-part program must have run (a part that ends the script would hide the rest)
			for i, id := range p.PartIDs {
				if strings.Contains(io.Out, "#"+id+"|") {
					c.Hit("sc:parts-run")
				} else {
					c.Hit("sc:parts-not-run")
					c.Note("part %d of %s %v printed nothing in the interpreted run (%s)", i, p.Name, p.Tags[:1], firstLines(p.Parts[i], 1))
				}
			}
		}
		opComplete(c, p, io)
		if io.Exit != -1 {
			nsEffect(c, p, io)
			tyEffect(c, p, io)
		}
		if rn.explore != nil && os.Getenv("C16_ONLY") != "" {
			fmt.Fprintf(rn.explore, "OBS %s %v same=%v\n  compiled: %s\n  interp:   %s\n", p.Name, p.Tags, co.Same(io), co, io)
		}
		c.SampleSome(map[string]any{"program": p.Name, "tags": p.Tags, "interpreted": io.String(), "compiled": co.String()}, 97)
		if io.Exit == -1 || co.Exit == -1 {
			// a timeout on either side is not comparable (load); note it
			c.Hit("skipped:timeout")
			c.Note("timeout: %s %v compiled-exit=%d interpreted-exit=%d", p.Name, p.Tags, co.Exit, io.Exit)
			if rn.explore != nil {
				fmt.Fprintf(rn.explore, "TIMEOUT %s %v\n%s\n", p.Name, p.Tags, p.Src)
			}
			continue
		}
		if co.Same(io) {
			continue
		}
		if rn.explore != nil {
			fmt.Fprintf(rn.explore, "DIFF %s %v\n  compiled: %s\n    raw: %s\n  interp:   %s\n    raw: %s\n--- src\n%s\n", p.Name, p.Tags, co, co.Raw, io, io.Raw, p.Src)
			for k, v := range p.Libs {
				fmt.Fprintf(rn.explore, "--- lib %s\n%s\n", k, v)
			}
		}
		if p.Min != nil && !shrinkPass {
			// an operand program: the records that differ become one-closure programs in the shrink batch
			if len(p.Min(co, io)) == 0 && !(strings.Contains(co.Out, "#end|") && strings.Contains(io.Out, "#end|")) {
				// the runner capped an output: the raw texts have different lengths (positions), so the two
				// were cut at different records; every record present on both sides agrees. Not a
				// difference of the programs — but records were lost: counted, and noted by opComplete
				c.Hit("op:truncated-output")
				continue
			}
			p.failCo, p.failIo = co, io
			rn.failing = append(rn.failing, p)
			continue
		}
		if len(p.Tags) == 1 {
			c.Violation(sigFor(p.Tags[0]), diffWhat(p, co, io), caseOf(p))
			continue
		}
		if shrinkPass {
			c.Violation("diff:"+strings.Join(uniqSorted(p.Tags), "+"), diffWhat(p, co, io), caseOf(p))
			continue
		}
		p.FailParts = scDiffParts(p, co, io)
		rn.failing = append(rn.failing, p)
	}
}

func uniqSorted(xs []string) []string {
	m := map[string]bool{}
	var out []string
	for _, x := range xs {
		if !m[x] {
			m[x] = true
			out = append(out, x)
		}
	}
	sort.Strings(out)
	return out
}

var reLibInErr = regexp.MustCompile(`/src/lib/([A-Za-z0-9_]+)/`)

// poisoned: library files are executed by Register() in every compiled run, so
// one library whose translation is wrong can end every compiled program of the
// build the same way. Detect that, blame the library's program, and redo the
// batch without it so that the others are still judged individually.
func poisoned(progs []*Prog, br *BatchResult) *Prog {
	count := map[string]int{}
	total := 0
	for _, p := range progs {
		co, ok := br.Compiled[p.Name]
		if !ok {
			continue
		}
		total++
		if io := br.Interp[p.Name]; co.ErrKind != "" && !co.Same(io) {
			count[co.ErrKind]++
		}
	}
	for kind, k := range count {
		if total < 4 || k*2 < total {
			continue
		}
		// who owns the library named in the stack?
		for _, p := range progs {
			co := br.Compiled[p.Name]
			if co.ErrKind != kind {
				continue
			}
			for _, m := range reLibInErr.FindAllStringSubmatch(co.Raw, -1) {
				for _, q := range progs {
					for rel := range q.Libs {
						if strings.HasPrefix(rel, m[1]+"/") {
							return q
						}
					}
				}
			}
			// named by the class in the message
			for _, q := range progs {
				for rel := range q.Libs {
					if strings.Contains(kind, strings.SplitN(rel, "/", 2)[0]) {
						return q
					}
				}
			}
		}
	}
	return nil
}

func (rn *runner) batch(progs []*Prog, shrinkPass bool) *BatchResult {
	c := rn.c
	var br *BatchResult
	for attempt := 0; attempt < 8; attempt++ {
		rn.batchNo++
		br = RunBatch(c, rn.batchNo, progs, rn.timeout)
		c.Note("batch %d: %d programs, %d refused, %d unbuilt, translate %.1fs, go build %.1fs, run %.1fs", rn.batchNo, len(progs), len(br.Refused), len(br.Unbuilt), br.CompileS, br.BuildS, br.RunS)
		if br.Err != "" {
			var first any
			if len(progs) > 0 {
				first = caseOf(progs[0])
			}
			c.Violation("batch:"+firstWords(br.Err, 6), "the batch could not be translated/built/run: "+br.Err, first)
			return br
		}
		culprit := poisoned(progs, br)
		if culprit == nil {
			break
		}
		co := br.Compiled[culprit.Name]
		tag := strings.Join(uniqSorted(culprit.Tags), "+")
		if len(culprit.Tags) == 1 {
			tag = culprit.Tags[0]
		}
		sig := "register:" + tag
		if len(culprit.Tags) == 1 {
			if s, ok := knownTags[culprit.Tags[0]]; ok {
				sig = s
			}
		}
		if rn.explore != nil {
			fmt.Fprintf(rn.explore, "POISON %s %v: %s\n", culprit.Name, culprit.Tags, co)
		}
		c.Hit("poisoned-build")
		c.Violation(sig, fmt.Sprintf("the library of program %s [%s] makes Register() fail for the whole build: every compiled program ends with {%s}", culprit.Name, strings.Join(culprit.Tags, ","), co), caseOf(culprit))
		var rest []*Prog
		for _, p := range progs {
			if p != culprit {
				rest = append(rest, p)
			}
		}
		progs = rest
	}
	rn.judge(progs, br, shrinkPass)
	return br
}

func firstWords(s string, k int) string {
	f := strings.Fields(s)
	if len(f) > k {
		f = f[:k]
	}
	return strings.Join(f, " ")
}

// shrink: every part of a failing multi-part program is run alone (one more
// batch = one more build); the signature is that of the first part that
// differs alone, else the sorted tag set.
func (rn *runner) shrink() {
	if len(rn.failing) == 0 {
		return
	}
	c := rn.c
	var progs []*Prog
	owner := map[string]*Prog{}
	lim := rn.failing
	if len(lim) > 40 {
		lim = lim[:40]
	}
	for _, p := range lim {
		if p.Min != nil {
			for _, q := range p.Min(p.failCo, p.failIo) {
				owner[q.Name] = p
				progs = append(progs, q)
			}
			continue
		}
		if len(p.Parts) == 0 {
			continue
		}
		for i, part := range p.Parts {
			if len(p.FailParts) > 0 {
				// a scalar program: only the parts whose output segments differed (the first few)
				keep := false
				for k, fp := range p.FailParts {
					keep = keep || (fp == i && k < 4)
				}
				if !keep {
					continue
				}
			}
			q := &Prog{Name: fmt.Sprintf("%ss%d", p.Name, i), Kind: "shrink", Tags: []string{p.Tags[i]}, Libs: map[string]string{}}
			q.Src = assemble([]string{part})
			for k, v := range p.PartLibs[i] {
				q.Libs[k] = v
			}
			owner[q.Name] = p
			progs = append(progs, q)
		}
	}
	explained := map[*Prog]bool{}
	if len(progs) > 0 {
		rn.batchNo++
		br := RunBatch(c, rn.batchNo, progs, rn.timeout)
		c.Note("shrink batch %d: %d single-part programs, go build %.1fs", rn.batchNo, len(progs), br.BuildS)
		for _, q := range progs {
			if rf, ok := br.Refused[q.Name]; ok && rf.Stage == "crash" {
				explained[owner[q.Name]] = true
				c.Violation("crash:"+q.Tags[0], "the compile command panics instead of reporting a compile error for "+q.Name+" ["+q.Tags[0]+"]: "+rf.Msg, caseOf(q))
				continue
			}
			if msg, ok := br.Unbuilt[q.Name]; ok {
				explained[owner[q.Name]] = true
				c.Violation("build:"+q.Tags[0], "the Go code generated for "+q.Name+" ["+q.Tags[0]+"] does not compile: "+msg, caseOf(q))
				continue
			}
			co, ok1 := br.Compiled[q.Name]
			io, ok2 := br.Interp[q.Name]
			if ok1 && ok2 && !co.Same(io) && co.Exit != -1 && io.Exit != -1 {
				explained[owner[q.Name]] = true
				c.Violation(sigFor(q.Tags[0]), diffWhat(q, co, io), caseOf(q))
			}
		}
	}
	for _, p := range rn.failing {
		if !explained[p] {
			sig := "diff:" + strings.Join(uniqSorted(p.Tags), "+")
			c.Violation(sig, "compiled ≠ interpreted (no single part differs alone) for "+p.Name+" ["+strings.Join(p.Tags, ",")+"]", caseOf(p))
		}
	}
}

func Run(c *vh.Ctx) {
	var m *vh.Model
	if c.ModelPath != "" {
		var err error
		m, err = vh.StartModel(c.ModelPath)
		if err != nil {
			c.Note("cannot start model: %v", err)
			m = nil
		} else {
			defer m.Close()
			c.Res.ModelUsed = true
		}
	}
	rn := &runner{c: c, timeout: 6 * time.Second}
	scFull = c.Thorough()
	defer scIneffectiveNote(c)
	if f := os.Getenv("C16_EXPLORE"); f != "" {
		rn.explore, _ = os.Create(f)
		defer rn.explore.Close()
	}
	for tag := range knownTags {
		_ = tag
	}
	if len(c.ReplayRaw) > 0 {
		var rc replayCase
		if err := json.Unmarshal(c.ReplayRaw, &rc); err != nil {
			c.Note("bad replay: %v", err)
			return
		}
		if rc.Kind == "struct" || rc.Kind == "order" || rc.Kind == "scalar" || rc.Kind == "ctx" {
			structReplay(c, m, rc)
			return
		}
		p := &Prog{Name: "replay", Kind: "replay", Tags: rc.Tags, Src: rc.Src, Libs: rc.Libs}
		if len(p.Tags) == 0 {
			p.Tags = []string{"replay"}
		}
		rn.batch([]*Prog{p}, true)
		return
	}

	c.Res.Rule = "differential: every program is translated by the real compile command, linked into one runner binary per batch and run compiled (Register+RunCompiledFile) and interpreted (LoadAndRun) in separate child processes; compared: stdout, kind of the uncaught error (first stderr line without file/position), exit status. Programs: every feature of the alphabet alone (exhaustive over the alphabet), seeded mixes of 2..5 features, lexh.GenSafe programs, library+entry class programs, order features (every ordered collection of the AST — class properties, parameters, arguments, array items, statements, match arms, catch clauses, switch cases, interface and use lists, operands — declared in a seeded scrambled order and printed through every observer: foreach, json_encode, (array) cast, var_dump, string conversion, serialize, first key, first-match-wins dispatch, tracer calls), scalar-payload features (every payload class — strings with 0/1/2/3/many newlines, tabs after newlines, backtick, backslash, quotes, `$`, printf verbs, NUL/control bytes, CR, invalid UTF-8, multi-byte and non-printable runes, syntax look-alikes, empty, very long; ints at the 7..63-bit boundaries in every base; floats incl. -0.0, 5e-324, 1e308, 17 digits, INF/NAN by expression; bools, null; unusual identifiers and keys — in every literal form: escaped / real newlines in double and single quotes, heredoc, nowdoc, indented marker, interpolation parts, inline HTML — at every nesting context of the generator incl. library-class members; a difference is shrunk to the single payload+context), operand features (every syntactic form with operand positions — 25 binary / comparison / logical / bitwise / coalescing operators, unary operators, casts, empty / isset / clone / instanceof / like, ternary, match subject and arm, array key / element / spread, index, range, interpolation, property access, call / new / throw arguments, variable variables, ++/-- in 8 statement shapes, 13 compound assignments in 4 shapes, plain / chained / list assignment, switch / foreach / echo / unset / static / heredoc subjects — as one closure per probe: variable × variable, variable × literal, literal × variable, literal × literal, in the value, assignment, if, for, while, do-while, ternary and loop-counter contexts, called with every value of a 64-value pool: ints incl. the limits, floats incl. the fractional neighbours of every int literal used, -0.0, INF, NAN, numeric and non-numeric strings, bools, null, arrays, objects; the result is var_dumped, a differing record becomes a one-closure one-call program), namespace-section features (WHOLE files, never hoisted or mixed: 2..3 `namespace` sections per file in every layout the parser accepts — plain, nested name, last extends first, global code first, re-opened, braced, unbraced then braced — with, in every section, a same-named function, a section-only function, forward references, qualified / relative names and the global fallback, a constant, library classes named without qualification, a use alias, magic constants, top-level variables and closures; the same inside library files with several sections; every function answers with the label of its section), deterministic echo-only corpus files. non-trivial = the interpreted run prints something or ends in an uncaught error; distinct = distinct source text. structural: per AST node type found in parsed snippets, Emit's path and the field list of a reflective literal, model vs real Generator; order probe: exchanging two distinguishable members of an ordered field that reaches the text must change the text the real Generator emits; scalar probe: every scalar field of every node type is set to every payload of its class and emitted by the real Generator at three indentation depths — the generated text, parsed by go/parser and evaluated by go/constant, must contain a literal equal to the payload (model tie: Lean unquote = Go's reading of every string literal, Lean quote = the generator's text); ctx probe: every node instance is emitted under ParsedFiles that differ only in Namespace / Path; a node field that holds the file's namespace in a parsed one-namespace file (learned from the data) is set to a sentinel and the node's OWN value must reach the generated text (tie: the text depends on a per-file input iff the regenerated uses of the generator's fields say a handler in the subtree prints it); resolve tie: Model.EmitCtx.resolve vs the real CallLater.GetValue over every subset of a 4-function universe x 5 namespaces x 5 spellings"

	// ---- structural correspondence (model vs real Generator)
	structStream(c, m)

	// ---- differential batches
	var entryPool, clsPool, knownFeat, alone, wholeCls []*feature
	for i := range features {
		f := &features[i]
		switch {
		case knownTags[f.Tag] != "":
			knownFeat = append(knownFeat, f)
		case aloneOnly[f.Tag]:
			alone = append(alone, f)
		case f.Whole && f.Group == "nscls":
			wholeCls = append(wholeCls, f) // whole files with library classes: alone, in the class batch
		case f.Whole:
			alone = append(alone, f) // whole files (several namespace sections): alone, in the entry batch
		case f.Group == "cls":
			clsPool = append(clsPool, f)
			// (classes are only mixed with other class features and entry features in the class batch)
		default:
			entryPool = append(entryPool, f)
		}
	}
	if only := os.Getenv("C16_ONLY"); only != "" {
		// development aid: only the features whose tag starts with $C16_ONLY, $C16_REPS times each, one batch
		reps := 1
		fmt.Sscanf(os.Getenv("C16_REPS"), "%d", &reps)
		opFull = os.Getenv("C16_OPFULL") != "" // the operand programs as in the first thorough round
		var progs []*Prog
		for i := range features {
			if strings.HasPrefix(features[i].Tag, only) {
				for k := 0; k < reps; k++ {
					progs = append(progs, FeatProg(c.Rand, &features[i], fmt.Sprintf("o%dr%d", i, k), "feat"))
				}
			}
		}
		if d := os.Getenv("C16_DUMP"); d != "" { // development aid: the sources of the selected programs
			os.MkdirAll(d, 0o755)
			for _, p := range progs {
				os.WriteFile(d+"/"+p.Tags[0]+".php", []byte(p.Src), 0o644)
				for rel, src := range p.Libs {
					os.WriteFile(d+"/"+p.Tags[0]+"."+strings.ReplaceAll(rel, "/", "_"), []byte(src), 0o644)
				}
			}
		}
		rn.batch(progs, false)
		rn.shrink()
		return
	}
	nRounds := c.N(1, 5)
	for b := 0; b < nRounds; b++ {
		id := 0
		name := func(prefix string) string { id++; return fmt.Sprintf("%s%db%d", prefix, id, b) }
		reps := c.N(1, 2)
		// operand programs: every literal in every context in the first round of the thorough tier
		// (a seeded rotation of the literals otherwise — every int literal always)
		opFull = c.Thorough() && b == 0
		// batch E: entry-only programs
		var progs []*Prog
		for _, f := range entryPool {
			for k := 0; k < reps; k++ {
				if k > 0 && opFull && opMultis[f.Tag] != nil {
					continue // a full operand program has every literal in every context: a second one is the same program
				}
				progs = append(progs, FeatProg(c.Rand, f, name("f"), "feat"))
			}
		}
		for _, f := range alone {
			progs = append(progs, FeatProg(c.Rand, f, name("f"), "feat"))
		}
		for i := 0; i < c.N(90, 330); i++ {
			progs = append(progs, SafeProg(c.Rand, name("s")))
		}
		for i := 0; i < c.N(100, 330); i++ {
			progs = append(progs, MixProg(c.Rand, entryPool, name("m")))
		}
		if b == 0 {
			progs = append(progs, corpusProgs(c, name)...)
		}
		rn.batch(progs, false)
		// batch C: library + entry class programs
		progs = nil
		for _, f := range clsPool {
			for k := 0; k < reps; k++ {
				progs = append(progs, FeatProg(c.Rand, f, name("f"), "cls"))
			}
		}
		for _, f := range wholeCls {
			progs = append(progs, FeatProg(c.Rand, f, name("f"), "cls"))
		}
		both := append(append([]*feature{}, clsPool...), clsPool...)
		both = append(both, entryPool...)
		for i := 0; i < c.N(60, 200); i++ {
			progs = append(progs, MixProg(c.Rand, both, name("k")))
		}
		rn.batch(progs, false)
		// batch K: the known stream — every feature with a recorded divergence, alone
		if b == 0 && len(knownFeat) > 0 {
			progs = nil
			for _, f := range knownFeat {
				progs = append(progs, FeatProg(c.Rand, f, name("f"), "known"))
			}
			rn.batch(progs, false)
		}
	}
	rn.shrink()
	c.Res.Exhaustive = true
	c.Res.ExhaustiveWhat = fmt.Sprintf("every single-feature program of the %d-feature alphabet (control flow, expressions, functions, closures, exceptions, library classes, entry-file declarations, ordered collections, scalar payloads, operand kinds, files with several namespace sections), each with seeded parameters; the scalar probe over every (scalar field, payload) pair", len(features))
	if m != nil {
		c.Res.ModelLines = m.Lines
	}
	_ = lexh.Corpus
}
