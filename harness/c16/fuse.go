package c16

// Tie of Model.EmitFuse's `looseReal` (the value-level model behind the theorems about the fused
// comparison node and about the rewrite `$v < N` → `$v <= N-1`) to the real data.LooseCompare:
// every operand kind of the model against every int literal of a small set, in process.
// What the real NODES do with these operands (BinaryLt, BinaryLe, VarIntLe — compiled and
// interpreted) is the business of the operand stream (operand.go), not of this tie.

import (
	"fmt"

	"github.com/php-any/origami/data"

	"verif/harness/vh"
)

type fuseOperand struct {
	kind string
	arg  int
	val  data.GetValue
}

func fuseOperands() []fuseOperand {
	var ops []fuseOperand
	for _, i := range []int{-3, -2, -1, 0, 1, 2, 3, 4, 7, 1 << 62} {
		ops = append(ops, fuseOperand{"int", i, data.NewIntValue(i)})
	}
	for t := -7; t <= 15; t++ { // -3.5 … 7.5 in steps of one half
		ops = append(ops, fuseOperand{"half", t, data.NewFloatValue(float64(t) / 2)})
	}
	ops = append(ops,
		fuseOperand{"true", 0, data.NewBoolValue(true)},
		fuseOperand{"false", 0, data.NewBoolValue(false)},
		fuseOperand{"null", 0, data.NewNullValue()},
		fuseOperand{"noorder", 0, data.NewArrayValue(nil)},
		fuseOperand{"noorder", 0, data.NewArrayValue([]data.Value{data.NewIntValue(3)})},
		fuseOperand{"noorder", 0, data.NewObjectValue()},
	)
	return ops
}

func fuseStream(c *vh.Ctx, m *vh.Model) {
	if m == nil {
		return
	}
	name := map[int]string{-1: "lt", 0: "eq", 1: "gt", data.Unordered: "un"}
	for _, op := range fuseOperands() {
		for _, n := range []int{-2, -1, 0, 1, 2, 3, 7} {
			real := "panic"
			func() {
				defer func() { recover() }()
				real = name[data.LooseCompare(op.val, data.NewIntValue(n))]
			}()
			q := fmt.Sprintf("cmp %s %d %d", op.kind, op.arg, n)
			ans, err := m.Ask(q)
			if err != nil {
				return
			}
			c.Res.Traces++
			c.Hit("fuse:loose-compare-checked")
			if ans != real {
				c.Mismatch(map[string]any{"kind": "fuse", "question": q, "operand": fmt.Sprintf("%T", op.val)}, real, ans, "data.LooseCompare(v, IntValue n) vs Model.EmitFuse.looseReal")
			}
		}
	}
}
