package c16

// Type payloads (round 7, seeded change C16-union-type-emitted-as-base-type).
//
// The class of change: the emitter writes a STRUCTURED value by printing it to a string that the
// generated program parses again at run time (genTypes' default arm: data.NewBaseType(ty.String())).
// That is right only where print∘parse is the identity; data.NewBaseType splits a union only when
// strings.Index(ty, "|") > 1, so a union whose first member prints as ONE character is read back
// as a class named "E|RuntimeException". Every type expression of the alphabet used multi-letter
// names.
//
// Features `ty-*`: every position of the entry file in which the parser builds a data.Types value
// (function return, function parameter incl. default / variadic / by-reference, closure and arrow
// function parameter and return, catch incl. multi-catch; `tycls-members`: method parameter and
// return, typed property, promoted constructor parameter of a library class) x a pool of type
// expressions built to stress print / parse: class names of 1, 2 and 3 characters, lower case,
// namespaced, with a leading backslash, in every position of a union with keywords and null,
// duplicates, nullable, blanks around `|`. Every part makes the type OBSERVABLE: the function is
// called with an int, a string, a float, null, an array, a bool and an object and prints ok / EXC per
// value (the names are undeclared classes: no value satisfies them, the keyword members decide); a
// multi-catch is met by a RuntimeException, a LogicException and an Error. Parts carry `#<id>|`
// markers (scMultis), a difference is shrunk to the parts that differ. The oracle is the
// interpreted run; `ty:accepted` / `ty:refused` count what it shows (non-vacuity).

import (
	"fmt"
	"strings"

	"verif/harness/vh"
)

// tyNames: undeclared class names; the first three print as ONE character
var tyNames = []string{"E", "N", "Ex", "Zq\\E", "\\E"}

// tyForms: type expressions around a name X
var tyForms = []string{"X|int", "int|X", "X|int|null", "?X", "X|X|float", "X | int", "null|X|string"}

// tyPlain: type expressions without a class name
var tyPlain = []string{"int|string", "?int", "null|int", "mixed", "iterable", "int|int"}

var tyValues = []string{"7", "'s'", "null", "[1]"}

func tyExprs() []string {
	var out []string
	for _, f := range tyForms {
		for _, n := range tyNames {
			out = append(out, strings.ReplaceAll(f, "X", n))
		}
	}
	return append(out, tyPlain...)
}

// tyCalls: the calls of one probe function with every value
func tyCalls(id, call string) string {
	var b strings.Builder
	fmt.Fprintf(&b, "echo \"\\n#%s|\";\n", id)
	for i, v := range tyValues {
		fmt.Fprintf(&b, "try { $r = %s; echo \"%d=ok;\"; } catch (Throwable $t) { echo \"%d=EXC;\"; }\n", strings.ReplaceAll(call, "V", v), i, i)
	}
	return b.String()
}

type tyPos struct {
	tag    string
	render func(fn, ty string) (decl, call string) // call contains V for the value
}

var tyPositions = []tyPos{
	{"ty-ret-fn", func(fn, ty string) (string, string) {
		return fmt.Sprintf("function %s($v): %s { return $v; }\n", fn, ty), fn + "(V)"
	}},
	{"ty-param-fn", func(fn, ty string) (string, string) {
		return fmt.Sprintf("function %s(%s $v) { return 'in'; }\n", fn, ty), fn + "(V)"
	}},
	{"ty-param-default", func(fn, ty string) (string, string) {
		return fmt.Sprintf("function %s($a, %s $v = null) { return 'in'; }\n", fn, ty), fn + "(1, V)"
	}},
	{"ty-param-variadic", func(fn, ty string) (string, string) {
		return fmt.Sprintf("function %s(%s ...$v) { return 'in'; }\n", fn, ty), fn + "(V, V)"
	}},
	{"ty-param-closure", func(fn, ty string) (string, string) {
		return fmt.Sprintf("$%s = function(%s $v) { return 'in'; };\n", fn, ty), "$" + fn + "(V)"
	}},
	{"ty-ret-closure", func(fn, ty string) (string, string) {
		return fmt.Sprintf("$%s = function($v): %s { return $v; };\n", fn, ty), "$" + fn + "(V)"
	}},
	{"ty-param-arrow", func(fn, ty string) (string, string) {
		return fmt.Sprintf("$%s = fn(%s $v) => 'in';\n", fn, ty), "$" + fn + "(V)"
	}},
	{"ty-ret-arrow", func(fn, ty string) (string, string) {
		return fmt.Sprintf("$%s = fn($v): %s => $v;\n", fn, ty), "$" + fn + "(V)"
	}},
}

// tyCatches: the class lists of a multi-catch (X = an undeclared name)
var tyCatches = []string{"X | RuntimeException", "RuntimeException | X", "X|RuntimeException", "X | N | LogicException | Error", "X | X | RuntimeException"}

var tyThrown = []string{"RuntimeException", "LogicException", "Error"}

func init() {
	add := func(f feature) { features = append(features, f) }
	single := func(m scMulti) func(r *vh.Rand, u string) (string, map[string]string) {
		return func(r *vh.Rand, u string) (string, map[string]string) {
			parts, libs, _ := m(r, u, false)
			i := r.Intn(len(parts))
			return parts[i], libs[i]
		}
	}
	multi := func(group, tag string, m scMulti) {
		scMultis[tag] = m
		add(feature{Tag: tag, Group: group, Gen: single(m)})
	}
	exprs := tyExprs()
	for pi := range tyPositions {
		pos := tyPositions[pi]
		multi("fn", pos.tag, func(r *vh.Rand, u string, full bool) (parts []string, libs []map[string]string, ids []string) {
			for i, ty := range exprs {
				id := fmt.Sprintf("%st%d", u, i)
				decl, call := pos.render("ty_"+id, ty)
				if !tyParses(pos.tag, ty, decl) {
					continue
				}
				parts = append(parts, "// ty: "+ty+"\n"+decl+tyCalls(id, call))
				libs = append(libs, nil)
				ids = append(ids, id)
			}
			return
		})
	}
	multi("exc", "ty-catch", func(r *vh.Rand, u string, full bool) (parts []string, libs []map[string]string, ids []string) {
		k := 0
		for _, cf := range tyCatches {
			for _, n := range tyNames {
				id := fmt.Sprintf("%sc%d", u, k)
				k++
				list := strings.ReplaceAll(cf, "X", n)
				if !tyParses("ty-catch", list, "try { echo 1; } catch ("+list+" $e) { echo 2; }\n") {
					continue
				}
				var b strings.Builder
				fmt.Fprintf(&b, "// ty: catch (%s)\necho \"\\n#%s|\";\n", list, id)
				for i, th := range tyThrown {
					fmt.Fprintf(&b, "try { try { throw new %s('m%d'); } catch (%s $e) { echo \"%d=ok:\", get_class($e), ';'; } finally { echo 'f'; } } catch (Throwable $t) { echo \"%d=EXC;\"; }\n", th, i, list, i, i)
				}
				parts = append(parts, b.String())
				libs = append(libs, nil)
				ids = append(ids, id)
			}
		}
		return
	})
	// several return values (`: int, string`): data.MultipleReturnType
	add(simple("fn", "ty-ret-multi", func(r *vh.Rand, u string) string {
		a, b := n(r, 0, 9), n(r, 0, 9)
		return fmt.Sprintf("function tm_%s($v): int, string { return $v; }\nfunction tn_%s($v): E|int, ?N, Ex|string|null { return $v; }\n"+
			"foreach ([[%d, 'a'], [%d], 'x', [1, 2], ['a', 1]] as $k => $v) { try { $r = tm_%s($v); echo \"$k=ok;\"; } catch (Throwable $t) { echo \"$k=EXC;\"; } }\n"+
			"foreach ([[%d, null, 's'], [1, null, null], [1, 2, 3], ['s', null, null], [1, null]] as $k => $v) { try { $r = tn_%s($v); echo \"$k=ok;\"; } catch (Throwable $t) { echo \"$k=EXC;\"; } }\necho \"\\n\";\n",
			u, u, a, b, u, a, u)
	}))
	// the positions inside a library class: method parameter / return, typed property, promoted parameter, static method
	add(feature{Tag: "tycls-members", Group: "cls", Gen: func(r *vh.Rand, u string) (string, map[string]string) {
		ns := "TyL" + u
		var cls, use strings.Builder
		fmt.Fprintf(&cls, "<?php\nnamespace %s;\nclass Holder {\n", ns)
		fmt.Fprintf(&use, "use %s\\Holder;\n$h = new Holder(1);\n", ns)
		pick := []string{"E|int", "N|int|null", "?E", "int|E", "Ex|int", "E|E|string", "\\E|int", "T|string|null", "E | int", "int|string", "?int"}
		for i, ty := range pick {
			fmt.Fprintf(&cls, "  public %s $p%d;\n", ty, i)
			fmt.Fprintf(&cls, "  public function r%d($v): %s { return $v; }\n", i, ty)
			fmt.Fprintf(&cls, "  public function a%d(%s $v) { return 'in'; }\n", i, ty)
			fmt.Fprintf(&cls, "  public static function s%d($v): %s { return $v; }\n", i, ty)
			id := fmt.Sprintf("%sm%d", u, i)
			use.WriteString(tyCalls(id+"r", fmt.Sprintf("$h->r%d(V)", i)))
			use.WriteString(tyCalls(id+"a", fmt.Sprintf("$h->a%d(V)", i)))
			use.WriteString(tyCalls(id+"s", fmt.Sprintf("Holder::s%d(V)", i)))
			use.WriteString(tyCalls(id+"p", fmt.Sprintf("$h->p%d = V", i)))
		}
		cls.WriteString("  public function __construct(public E|int|null $q = null) {}\n}\n")
		use.WriteString(tyCalls(u+"ctor", "new Holder(V)"))
		use.WriteString("echo \"\\n\";\n")
		return use.String(), map[string]string{ns + "/Holder.php": cls.String()}
	}})
}

// tyParses: what the parser accepts at a position, established with the CLI over the whole cross
// product (1642 one-declaration files, no other refusal): `X|self` is refused in a return type outside
// a class, `?X|int` and `static` in a parameter. A part the parser refuses would take the whole program
// with it (the same parser serves both sides).
func tyParses(tag, ty, decl string) bool {
	if strings.HasSuffix(ty, "|self") {
		return false
	}
	if strings.Contains(tag, "param") && (ty == "static" || (strings.HasPrefix(ty, "?") && strings.Contains(ty, "|"))) {
		return false
	}
	return true
}

// tyEffect: what the interpreted run of a type program shows (non-vacuity: both outcomes occur)
func tyEffect(c *vh.Ctx, p *Prog, io Obs) {
	if len(p.Tags) == 0 || !(strings.HasPrefix(p.Tags[0], "ty-") || strings.HasPrefix(p.Tags[0], "tycls-")) || p.Kind == "mix" {
		return
	}
	c.Res.Histogram["ty:accepted"] += strings.Count(io.Out, "=ok")
	c.Res.Histogram["ty:refused"] += strings.Count(io.Out, "=EXC")
}
