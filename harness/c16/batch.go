package c16

// Differential machinery: a batch of programs is translated by the real
// `compile` command (cmd/compile, run in a child of this harness binary),
// the emitted Go package is linked with a generated main into ONE runner
// binary built in the run's scratch area, and every program is executed twice
// by that runner in separate child processes: compiled (Register +
// RunCompiledFile, as the command's main template does) and interpreted
// (LoadAndRun, as cmd.RunScriptFile does).

import (
	"bytes"
	"context"
	"fmt"
	"go/ast"
	goparser "go/parser"
	"go/token"
	"os"
	"os/exec"
	"path/filepath"
	"regexp"
	"sort"
	"strconv"
	"strings"
	"sync"
	"syscall"
	"text/template"
	"time"

	"github.com/php-any/origami/cmd/compile"
	"github.com/php-any/origami/data"
	"github.com/php-any/origami/std"
	netannotation "github.com/php-any/origami/std/net/annotation"
	"github.com/php-any/origami/std/net/http"
	"github.com/php-any/origami/std/net/websocket"
	"github.com/php-any/origami/std/php"
	"github.com/php-any/origami/std/system"

	"verif/harness/vh"
)

// Prog is one program of a batch: an entry script (no namespace of its own
// unless the feature says so) plus optional library files, laid out the way the
// compile command is meant to be used (`zy compile . --entry=…`): library
// files are namespaced class files, the entry uses them.
type Prog struct {
	Name      string              `json:"name"`           // file stem, unique in the batch
	Kind      string              `json:"kind"`           // feat | safe | mix | cls | corpus | known | shrink
	Tags      []string            `json:"tags,omitempty"` // feature tags of the snippets it is made of
	Src       string              `json:"src"`            // entry source (with <?php)
	Libs      map[string]string   `json:"libs,omitempty"` // "<Namespace>/<Class>.php" -> source
	Parts     []string            `json:"-"`              // the snippets (for shrinking), parallel to Tags
	PartLibs  []map[string]string `json:"-"`
	PartIDs   []string            `json:"-"` // scalar programs: the marker id of every part (scalar.go)
	FailParts []int               `json:"-"` // scalar programs: the parts whose output segments differed
	Origin    string              `json:"origin,omitempty"`
	// operand programs (operand.go): the minimal one-closure programs of the records that differ
	Min            func(co, io Obs) []*Prog `json:"-"`
	failCo, failIo Obs
}

// Obs is what one execution shows.
type Obs struct {
	Out     string `json:"out"`
	ErrKind string `json:"err"`  // normalised first line of the uncaught error ("" = none)
	Exit    int    `json:"exit"` // -1 = killed (timeout)
	Raw     string `json:"-"`    // head of stderr, for reports
}

func (o Obs) String() string {
	out := o.Out
	if len(out) > 300 {
		out = out[:300] + "…"
	}
	return fmt.Sprintf("exit=%d err=%q out=%q", o.Exit, o.ErrKind, out)
}

func (o Obs) Same(p Obs) bool { return o.Out == p.Out && o.ErrKind == p.ErrKind && o.Exit == p.Exit }

// Refusal: the compile command did not accept the file.
type Refusal struct {
	Stage string // parse | emit | other
	Msg   string
}

type BatchResult struct {
	Compiled map[string]Obs
	Interp   map[string]Obs
	Refused  map[string]Refusal
	Unbuilt  map[string]string // the Go code generated for the program does not compile
	BuildS   float64
	CompileS float64
	RunS     float64
	Err      string // batch-level failure (build broke …)
}

func loadStd(vm data.VM) {
	std.Load(vm)
	php.Load(vm)
	http.Load(vm)
	websocket.Load(vm)
	netannotation.Load(vm)
	system.Load(vm)
}

func init() {
	// child: run the real compile command on a directory
	vh.RegisterChild("c16compile", func(args []string) int {
		if len(args) < 3 {
			return 2
		}
		cmd := compile.NewCommand(loadStd)
		cmd.SetArgs([]string{args[0], "-o", args[1], "--pkg", "main", "--entry", args[2]})
		cmd.SilenceErrors = true
		if err := cmd.Execute(); err != nil {
			fmt.Fprintf(os.Stderr, "COMPILE-FAILED: %v\n", err)
			return 1
		}
		return 0
	})
}

// registerTemplate derives the batch's register.go.tmpl from the command's own
// defaultRegisterTmpl (extracted from cmd/compile/template.go of the tree under
// check) by two textual changes: the single `const EntryPath` is removed and an
// entry file is registered under its own path instead of under EntryPath (the
// default template supports one entry per build; a batch has many). Library
// (non-entry) files are handled by the template's own text, unchanged.
func registerTemplate(repo string) (string, error) {
	txt, err := templateConst(repo, "defaultRegisterTmpl")
	if err != nil {
		return "", err
	}
	constBlock := "{{- if .HasEntry}}\nconst EntryPath = {{printf \"%q\" .EntryPath}}\n{{end}}"
	call := "vm.RegisterCompiledFile(EntryPath,"
	if !strings.Contains(txt, constBlock) || strings.Count(txt, call) != 1 {
		return "", fmt.Errorf("defaultRegisterTmpl no longer has the shape the harness adapts (EntryPath constant / RegisterCompiledFile(EntryPath, …))")
	}
	txt = strings.Replace(txt, constBlock, "", 1)
	txt = strings.Replace(txt, call, "vm.RegisterCompiledFile({{printf \"%q\" .Path}},", 1)
	return txt, nil
}

// harnessInit is the only hand-written Go file of the runner binary. The
// compiled side is the command's own default main.go.tmpl (extracted from
// cmd/compile/template.go of the tree under check and rendered as the command
// renders it); the interpreted side is cmd.RunScriptFile, called exactly as
// zy.go's main does. init() runs before main(): in "interp" mode it never
// returns, in "compiled" mode it only supplies EntryPath (the default
// register template would define it as a constant for a single entry).
const harnessInit = `package main

import (
	"os"
	"strings"

	zcmd "github.com/php-any/origami/cmd"
	zdata "github.com/php-any/origami/data"
	zstd "github.com/php-any/origami/std"
	zannotation "github.com/php-any/origami/std/net/annotation"
	zhttp "github.com/php-any/origami/std/net/http"
	zwebsocket "github.com/php-any/origami/std/net/websocket"
	zphp "github.com/php-any/origami/std/php"
	zsystem "github.com/php-any/origami/std/system"
)

var EntryPath string

func init() {
	if len(os.Args) < 3 {
		os.Exit(2)
	}
	mode := os.Args[1]
	EntryPath = os.Args[2]
	if mode != "interp" {
		os.Args = os.Args[:1]
		return
	}
	extra := os.Args[3:]
	zcmd.SetRuntimeLoader(func(vm zdata.VM) {
		zstd.Load(vm)
		zphp.Load(vm)
		zhttp.Load(vm)
		zwebsocket.Load(vm)
		zannotation.Load(vm)
		zsystem.Load(vm)
		for _, a := range extra {
			if i := strings.IndexByte(a, '='); i > 0 {
				vm.AddNamespace(a[:i], a[i+1:])
			}
		}
	})
	if err := zcmd.RunScriptFile(EntryPath); err != nil {
		os.Exit(1)
	}
	os.Exit(0)
}
`

// templateConst extracts a string constant from cmd/compile/template.go.
func templateConst(repo, name string) (string, error) {
	fset := token.NewFileSet()
	f, err := goparser.ParseFile(fset, filepath.Join(repo, "cmd", "compile", "template.go"), nil, 0)
	if err != nil {
		return "", err
	}
	for _, d := range f.Decls {
		gd, ok := d.(*ast.GenDecl)
		if !ok || gd.Tok != token.CONST {
			continue
		}
		for _, sp := range gd.Specs {
			vs, ok := sp.(*ast.ValueSpec)
			if !ok {
				continue
			}
			for i, nm := range vs.Names {
				if nm.Name == name && i < len(vs.Values) {
					if bl, ok := vs.Values[i].(*ast.BasicLit); ok {
						return strconv.Unquote(bl.Value)
					}
				}
			}
		}
	}
	return "", fmt.Errorf("constant %s not found in cmd/compile/template.go", name)
}

func renderMain(repo string) ([]byte, error) {
	txt, err := templateConst(repo, "defaultMainTmpl")
	if err != nil {
		return nil, err
	}
	t, err := template.New("main.go.tmpl").Parse(txt)
	if err != nil {
		return nil, err
	}
	var buf bytes.Buffer
	err = t.Execute(&buf, struct {
		Pkg       string
		HasEntry  bool
		EntryPath string
		Files     []struct{}
	}{Pkg: "main", HasEntry: true})
	return buf.Bytes(), err
}

func goEnv() []string {
	var env []string
	for _, e := range os.Environ() {
		if strings.HasPrefix(e, "GOTOOLCHAIN=") || strings.HasPrefix(e, "GOSUMDB=") || strings.HasPrefix(e, "GOFLAGS=") || strings.HasPrefix(e, "GOPROXY=") {
			continue
		}
		env = append(env, e)
	}
	return append(env, "GOFLAGS=-mod=mod", "GOPROXY=off")
}

func runCmd(timeout time.Duration, dir string, env []string, name string, args ...string) (stdout, stderr string, exit int) {
	ctx, cancel := context.WithTimeout(context.Background(), timeout)
	defer cancel()
	cmd := exec.CommandContext(ctx, name, args...)
	cmd.Dir = dir
	if env != nil {
		cmd.Env = env
	}
	cmd.SysProcAttr = &syscall.SysProcAttr{Setpgid: true}
	cmd.Cancel = func() error { return syscall.Kill(-cmd.Process.Pid, syscall.SIGKILL) }
	var so, se bytes.Buffer
	// (stdout: the operand programs of the thorough tier print up to ~6 MiB of records)
	cmd.Stdout, cmd.Stderr = &limitW{b: &so, n: 1 << 24}, &limitW{b: &se, n: 1 << 18}
	err := cmd.Run()
	exit = 0
	if err != nil {
		if ee, ok := err.(*exec.ExitError); ok {
			exit = ee.ExitCode() // -1 when killed by a signal
		} else {
			exit = -2
			se.WriteString(err.Error())
		}
	}
	if ctx.Err() != nil {
		exit = -1
	}
	return so.String(), se.String(), exit
}

type limitW struct {
	b *bytes.Buffer
	n int
}

func (l *limitW) Write(p []byte) (int, error) {
	if l.b.Len() < l.n {
		k := l.n - l.b.Len()
		if k > len(p) {
			k = len(p)
		}
		l.b.Write(p[:k])
	}
	return len(p), nil
}

var (
	rePos     = regexp.MustCompile(`:\d+:\d+`)
	reFatal   = regexp.MustCompile(`^(?:PHP |ZY )?(Fatal error|Warning|Parse error|Error)?:? ?(.*)$`)
	reInFile  = regexp.MustCompile(` in \S*$`)
	reHexAddr = regexp.MustCompile(`\b0x[0-9a-f]{6,}\b`)
	reLineNo  = regexp.MustCompile(`(?i)\b(line|行|col|列)\s*\d+`)
)

// errKind: the kind of the uncaught error = first line of stderr with file
// names and positions removed (the generator emits a single zero `from` for
// every node, so compiled positions are all 1:1 by design).
func errKind(stderr, root string) string {
	s := strings.TrimSpace(stderr)
	if s == "" {
		return ""
	}
	line := s
	if i := strings.IndexByte(line, '\n'); i >= 0 {
		line = line[:i]
	}
	line = strings.ReplaceAll(line, root, "")
	line = rePos.ReplaceAllString(line, "")
	line = reInFile.ReplaceAllString(line, "")
	line = reHexAddr.ReplaceAllString(line, "0x")
	line = reLineNo.ReplaceAllString(line, "$1")
	return strings.TrimSpace(line)
}

var (
	rePhpLine = regexp.MustCompile(`(\.php):\d+`)
	reOnLine  = regexp.MustCompile(`(\.php on line) \d+`)
)

// normOut: file positions are normalised (var_dump prints "<file>:<line>:", a diagnostic written
// to stdout — `Deprecated: Using null as an array offset … in <file> on line <n>` — ends with the
// line). The generated program builds every node with one zero `from`, so every position it
// prints is line 1 / 1:1: ONE known finding (C16-no-source-positions, feature
// `pos-diagnostic-line`, compared with keepPos) instead of one report per feature that happens to
// print a diagnostic.
func normOut(out, root string, keepPos bool) string {
	out = strings.ReplaceAll(out, root, "")
	if keepPos {
		return out
	}
	return reOnLine.ReplaceAllString(rePhpLine.ReplaceAllString(dropGoStacks(out), "$1"), "$1")
}

// dropGoStacks: a Go panic inside a script `try` becomes a script exception whose message carries
// `stack: goroutine 1 [running…]:` and the Go stack of the binary that raised it — frames, addresses
// and the goroutine state differ between any two binaries (here: the interpreted side runs from
// init()). The panic text itself stays; the frames go.
func dropGoStacks(out string) string {
	if !strings.Contains(out, "stack: goroutine ") {
		return out
	}
	lines := strings.Split(out, "\n")
	var keep []string
	for i := 0; i < len(lines); i++ {
		j := strings.Index(lines[i], "stack: goroutine ")
		if j < 0 {
			keep = append(keep, lines[i])
			continue
		}
		keep = append(keep, lines[i][:j]+"stack: <go stack>")
		// frames: a function line followed by a tab-indented file line; `created by …`; blank lines between goroutines
		for i+1 < len(lines) {
			n := lines[i+1]
			frame := strings.HasPrefix(n, "\t") || strings.HasPrefix(n, "created by ") || strings.HasPrefix(n, "goroutine ") ||
				(i+2 < len(lines) && strings.HasPrefix(lines[i+2], "\t") && !strings.HasPrefix(n, "#"))
			if !frame {
				break
			}
			i++
		}
	}
	return strings.Join(keep, "\n")
}

// posTag: the feature of the known finding about positions; its programs are compared with the
// positions they print.
const posTag = "pos-diagnostic-line"

func keepsPos(p *Prog) bool {
	for _, t := range p.Tags {
		if t == posTag {
			return true
		}
	}
	return false
}

// RunBatch translates, builds and runs one batch.
func RunBatch(c *vh.Ctx, idx int, progs []*Prog, runTimeout time.Duration) *BatchResult {
	res := &BatchResult{Compiled: map[string]Obs{}, Interp: map[string]Obs{}, Refused: map[string]Refusal{}, Unbuilt: map[string]string{}}
	root := filepath.Join(c.Scratch, fmt.Sprintf("b%d", idx))
	src := filepath.Join(root, "src")
	entry := filepath.Join(src, "entry")
	lib := filepath.Join(src, "lib")
	os.RemoveAll(root)
	for _, d := range []string{entry, lib, filepath.Join(src, ".zy")} {
		if err := os.MkdirAll(d, 0o755); err != nil {
			res.Err = err.Error()
			return res
		}
	}
	regT, terr := registerTemplate(c.Repo)
	if terr != nil {
		res.Err = "cannot derive the register template: " + terr.Error()
		return res
	}
	os.WriteFile(filepath.Join(src, ".zy", "register.go.tmpl"), []byte(regT), 0o644)
	byName := map[string]*Prog{}
	nsArgs := map[string][]string{}
	libOwner := map[string]string{}
	for _, p := range progs {
		byName[p.Name] = p
		os.WriteFile(filepath.Join(entry, p.Name+".php"), []byte(p.Src), 0o644)
		seen := map[string]bool{}
		for rel, s := range p.Libs {
			f := filepath.Join(lib, rel)
			os.MkdirAll(filepath.Dir(f), 0o755)
			os.WriteFile(f, []byte(s), 0o644)
			libOwner[f] = p.Name
			ns := strings.ReplaceAll(filepath.Dir(rel), "/", "\\")
			if !seen[ns] {
				seen[ns] = true
				nsArgs[p.Name] = append(nsArgs[p.Name], ns+"="+filepath.Join(lib, filepath.Dir(rel)))
			}
		}
		sort.Strings(nsArgs[p.Name])
	}
	// composer.json: lets the command's parser autoload the library classes while parsing entries
	{
		var sb strings.Builder
		sb.WriteString("{\"autoload\":{\"psr-4\":{")
		first := true
		dirs := map[string]bool{}
		for _, p := range progs {
			for rel := range p.Libs {
				d := filepath.Dir(rel)
				if dirs[d] {
					continue
				}
				dirs[d] = true
				if !first {
					sb.WriteString(",")
				}
				first = false
				fmt.Fprintf(&sb, "%q:%q", strings.ReplaceAll(d, "/", "\\")+"\\", "lib/"+d)
			}
		}
		sb.WriteString("}}}")
		os.WriteFile(filepath.Join(src, "composer.json"), []byte(sb.String()), 0o644)
	}

	// ---- translate (retry without the files the command refuses)
	out := filepath.Join(root, "app")
	t0 := time.Now()
	reParse := regexp.MustCompile(`解析失败: 解析 (\S+) 失败: (.*)`)
	reEmit := regexp.MustCompile(`compile error: (\S+)\n\s*(.*)\n?\s*(.*)`)
	drop := func(file, stage, msg string) bool {
		name := strings.TrimSuffix(filepath.Base(file), ".php")
		if owner, ok := libOwner[file]; ok {
			name = owner
		}
		p, ok := byName[name]
		if !ok {
			return false
		}
		if _, done := res.Refused[name]; done {
			return false
		}
		res.Refused[name] = Refusal{stage, strings.ReplaceAll(msg, root, "")}
		os.Remove(filepath.Join(entry, p.Name+".php"))
		for rel := range p.Libs {
			os.Remove(filepath.Join(lib, rel))
		}
		return true
	}
	okCompile := false
	for round := 0; round < 60; round++ {
		os.RemoveAll(out)
		_, se, ex := runCmd(300*time.Second, root, nil, vh.Self(), "__child", "c16compile", src, out, entry)
		if ex == 0 {
			okCompile = true
			break
		}
		progress := false
		for _, m := range reParse.FindAllStringSubmatch(se, -1) {
			if drop(m[1], "parse", m[2]) {
				progress = true
			}
		}
		if m := reEmit.FindStringSubmatch(se); m != nil {
			if drop(m[1], "emit", strings.TrimSpace(m[2]+" "+m[3])) {
				progress = true
			}
		}
		if !progress && strings.Contains(se, "panic:") {
			// the command itself crashed: translate every remaining program alone to find out which
			crashed := isolateCrash(root, progs, res)
			for _, name := range crashed {
				p := byName[name]
				os.Remove(filepath.Join(entry, p.Name+".php"))
				for rel := range p.Libs {
					os.Remove(filepath.Join(lib, rel))
				}
				progress = true
			}
		}
		if !progress {
			res.Err = "compile command failed without naming a file: " + tail(se, 600)
			return res
		}
		if len(res.Refused) == len(progs) {
			break
		}
	}
	res.CompileS = time.Since(t0).Seconds()
	if !okCompile {
		if len(res.Refused) == len(progs) {
			return res
		}
		res.Err = "compile command kept failing"
		return res
	}

	// ---- build ONE runner
	t0 = time.Now()
	gomod := fmt.Sprintf("module c16batch\n\ngo 1.25.0\n\nrequire github.com/php-any/origami v0.0.0\n\nreplace github.com/php-any/origami => %s\n", c.Repo)
	mainSrc, err := renderMain(c.Repo)
	if err != nil {
		res.Err = "cannot render the command's main template: " + err.Error()
		return res
	}
	writeGlue := func() {
		os.WriteFile(filepath.Join(out, "go.mod"), []byte(gomod), 0o644)
		if b, err := os.ReadFile(filepath.Join(c.Repo, "go.sum")); err == nil {
			os.WriteFile(filepath.Join(out, "go.sum"), b, 0o644)
		}
		os.WriteFile(filepath.Join(out, "main.go"), mainSrc, 0o644)
		os.WriteFile(filepath.Join(out, "zz_harness.go"), []byte(harnessInit), 0o644)
	}
	writeGlue()
	runner := filepath.Join(root, "runner")
	reGoErr := regexp.MustCompile(`(?m)^(?:\./)?(ast_\S+?\.go):\d+:\d+: (.*)$`)
	built := false
	for round := 0; round < 25; round++ {
		_, se, ex := runCmd(900*time.Second, out, goEnv(), "go", "build", "-o", runner, ".")
		if ex == 0 {
			built = true
			break
		}
		// generated code that does not compile: attribute it to its program, drop the program's files, rebuild
		progress := false
		for _, mm := range reGoErr.FindAllStringSubmatch(se, -1) {
			gofile := mm[1]
			for _, p := range progs {
				if _, done := res.Unbuilt[p.Name]; done {
					continue
				}
				hit := strings.HasSuffix(gofile, "_entry_"+strings.ToLower(p.Name)+".go")
				for rel := range p.Libs {
					if strings.Contains(gofile, "_lib_"+strings.ToLower(filepath.Dir(rel))+"_") {
						hit = true
					}
				}
				if hit {
					res.Unbuilt[p.Name] = mm[2]
					progress = true
				}
			}
		}
		if !progress {
			res.BuildS = time.Since(t0).Seconds()
			res.Err = "generated package does not build: " + tail(se, 1500)
			return res
		}
		// re-translate without the offenders (register.go lists every file)
		for name := range res.Unbuilt {
			p := byName[name]
			os.Remove(filepath.Join(entry, p.Name+".php"))
			for rel := range p.Libs {
				os.Remove(filepath.Join(lib, rel))
			}
		}
		if len(res.Unbuilt)+len(res.Refused) >= len(progs) {
			res.BuildS = time.Since(t0).Seconds()
			return res // nothing left to build; every program is accounted for
		}
		os.RemoveAll(out)
		if _, se2, ex2 := runCmd(300*time.Second, root, nil, vh.Self(), "__child", "c16compile", src, out, entry); ex2 != 0 {
			res.Err = "re-translation failed: " + tail(se2, 600)
			return res
		}
		writeGlue()
	}
	res.BuildS = time.Since(t0).Seconds()
	if !built {
		res.Err = "generated package kept failing to build"
		return res
	}

	// ---- run every program both ways
	t0 = time.Now()
	type job struct {
		p    *Prog
		mode string
	}
	var jobs []job
	for _, p := range progs {
		if rf, r := res.Refused[p.Name]; r {
			// a file the command refused at the parse stage must be a parse error for the interpreter too
			if rf.Stage == "parse" {
				os.WriteFile(filepath.Join(entry, p.Name+".php"), []byte(p.Src), 0o644)
				for rel, s := range p.Libs {
					f := filepath.Join(lib, rel)
					os.MkdirAll(filepath.Dir(f), 0o755)
					os.WriteFile(f, []byte(s), 0o644)
				}
				jobs = append(jobs, job{p, "interp"})
			}
			continue
		}
		if _, r := res.Unbuilt[p.Name]; r {
			continue
		}
		jobs = append(jobs, job{p, "compiled"}, job{p, "interp"})
	}
	var mu sync.Mutex
	var wg sync.WaitGroup
	ch := make(chan job)
	workers := c.Workers
	if workers < 1 {
		workers = 8
	}
	for w := 0; w < workers; w++ {
		wg.Add(1)
		go func() {
			defer wg.Done()
			for j := range ch {
				args := append([]string{j.mode, filepath.Join(entry, j.p.Name+".php")}, nsArgs[j.p.Name]...)
				so, se, ex := runCmd(runTimeout, root, append(os.Environ(), "GOMEMLIMIT=1500MiB"), runner, args...)
				o := Obs{Out: normOut(so, root, keepsPos(j.p)), ErrKind: errKind(se, root), Exit: ex, Raw: head(strings.ReplaceAll(se, root, ""), 500)}
				mu.Lock()
				if j.mode == "compiled" {
					res.Compiled[j.p.Name] = o
				} else {
					res.Interp[j.p.Name] = o
				}
				mu.Unlock()
			}
		}()
	}
	for _, j := range jobs {
		ch <- j
	}
	close(ch)
	wg.Wait()
	res.RunS = time.Since(t0).Seconds()
	return res
}

func head(s string, n int) string {
	s = strings.TrimSpace(s)
	if len(s) > n {
		return s[:n] + "…"
	}
	return s
}

// isolateCrash runs the compile command on each not-yet-refused program alone and records the
// ones on which the command panics (Stage "crash").
func isolateCrash(root string, progs []*Prog, res *BatchResult) []string {
	var mu sync.Mutex
	var wg sync.WaitGroup
	var out []string
	sem := make(chan struct{}, 8)
	for i, p := range progs {
		if _, r := res.Refused[p.Name]; r {
			continue
		}
		wg.Add(1)
		go func(i int, p *Prog) {
			defer wg.Done()
			sem <- struct{}{}
			defer func() { <-sem }()
			d := filepath.Join(root, fmt.Sprintf("iso%d", i))
			os.MkdirAll(filepath.Join(d, "src", "entry"), 0o755)
			os.WriteFile(filepath.Join(d, "src", "entry", p.Name+".php"), []byte(p.Src), 0o644)
			for rel, s := range p.Libs {
				f := filepath.Join(d, "src", "lib", rel)
				os.MkdirAll(filepath.Dir(f), 0o755)
				os.WriteFile(f, []byte(s), 0o644)
			}
			_, se, ex := runCmd(120*time.Second, d, nil, vh.Self(), "__child", "c16compile", filepath.Join(d, "src"), filepath.Join(d, "app"), filepath.Join(d, "src", "entry"))
			if ex != 0 && strings.Contains(se, "panic:") {
				msg := se[strings.Index(se, "panic:"):]
				if j := strings.IndexByte(msg, '\n'); j > 0 {
					msg = msg[:j]
				}
				mu.Lock()
				res.Refused[p.Name] = Refusal{"crash", msg}
				out = append(out, p.Name)
				mu.Unlock()
			}
			os.RemoveAll(d)
		}(i, p)
	}
	wg.Wait()
	return out
}

func tail(s string, n int) string {
	s = strings.TrimSpace(s)
	if len(s) > n {
		return "…" + s[len(s)-n:]
	}
	return s
}
