package c16

// Operand kinds. The generator may emit, for a node kind, a DIFFERENT node than
// the parser built: an algebraic rewrite (`$v < N` as `$v <= N-1`), a fused /
// fast-path node (VarIntLe, VarFastAssign, VarStmtIncr …), a constructor that
// re-derives its result from the operands. Such a node is equivalent to the
// source node on part of the value domain only — typically on the integers the
// fast path was written for — and the programs of the rest of the alphabet
// feed operators with int counters and int literals. This file varies the
// OPERANDS: for every syntactic form that has operand positions (every binary /
// comparison / logical / bitwise operator, unary operators, casts, inc / dec,
// compound assignment, ternary, `??`, `?:`, isset / empty, interpolation,
// indexing, array keys, match / switch subjects, foreach subjects, …)
//
//   - every operand position is filled by a VARIABLE that holds, in turn, every
//     value of a boundary pool (ints incl. 0, ±1, the limits; floats incl. the
//     fractional neighbours of every int literal used, -0.0, INF, NAN; numeric
//     and non-numeric strings, '' and '0'; bools; null; arrays; objects) and by
//     a LITERAL of every kind — the literal × variable shapes (`$v < 3`,
//     `3 < $v`, `$v + 1`, `$v == 0`, `$c = $a * 2`, `$v++`) are what fast paths
//     key on;
//   - in every CONTEXT a specialised node can depend on: value, assignment to a
//     plain variable, `if`, `for` / `while` / `do-while` condition, the loop
//     variable of a counting loop, ternary condition;
//   - the result is printed with var_dump (type and value), errors are caught
//     and printed.
//
// To keep the build small a program holds ONE closure per probe (operator ×
// shape × literals × context) in an array and a driver that calls every closure
// with every pool value: the value matrix costs nothing in generated code.
// When the two runs differ, the differing records `#<probe>|<value keys>|` are
// turned into minimal programs (one closure, one call) for the shrink batch:
// the replay is `$f = fn($a) => $a < 3; var_dump($f(2.5));`.
//
// Which node kinds the probes reach is not assumed: every probe program (in
// full) is parsed by the real parser in the structural stream (struct.go) and
// the node types found are held against the regenerated node table (driver
// command `kinds`): `op:kind-reached` / `op:kind-unreached` in the evidence,
// the unreached kinds listed in a note; the instances also feed the structural
// correspondence and the scalar probe.

import (
	"fmt"
	"sort"
	"strings"

	"verif/harness/vh"
)

type opVal struct{ Key, Src, Class string }

// opPool: the values a variable operand holds. The int literals used by the probes are
// 0, 1, 2, 3, -1, 7, PHP_INT_MAX: every one has its fractional neighbours here.
var opPool = []opVal{
	{"i0", "0", "int"}, {"i1", "1", "int"}, {"im1", "-1", "int"}, {"i2", "2", "int"}, {"i3", "3", "int"}, {"i4", "4", "int"}, {"im2", "-2", "int"},
	{"i6", "6", "int"}, {"i7", "7", "int"}, {"i8", "8", "int"}, {"i63", "63", "int"}, {"i64", "64", "int"},
	{"imax", "9223372036854775807", "int"}, {"imax1", "9223372036854775806", "int"}, {"imin", "(-9223372036854775807 - 1)", "int"},
	{"f0", "0.0", "float"}, {"fnz", "-0.0", "float"}, {"f05", "0.5", "float"}, {"fm05", "-0.5", "float"}, {"f15", "1.5", "float"}, {"fm15", "-1.5", "float"},
	{"f25", "2.5", "float"}, {"f35", "3.5", "float"}, {"f65", "6.5", "float"}, {"f75", "7.5", "float"}, {"f1", "1.0", "float"}, {"f3", "3.0", "float"},
	{"f3lo", "2.9999999999999996", "float"}, {"f3hi", "3.0000000000000004", "float"}, {"f1e100", "1e100", "float"}, {"f2p63", "9223372036854775808.0", "float"},
	{"finf", "(1e308 * 10)", "float"}, {"fninf", "(-1e308 * 10)", "float"}, {"fnan", "((1e308 * 10) - (1e308 * 10))", "float"},
	{"s0", "'0'", "numstr"}, {"s1", "'1'", "numstr"}, {"s3", "'3'", "numstr"}, {"s25", "'2.5'", "numstr"}, {"sm1", "'-1'", "numstr"}, {"s05", "'0.5'", "numstr"},
	{"s1e1", "'1e1'", "numstr"}, {"ssp3", "' 3'", "numstr"}, {"s3sp", "'3 '", "numstr"}, {"s00", "'0.0'", "numstr"}, {"s03", "'03'", "numstr"}, {"s7", "'7'", "numstr"},
	{"se", "''", "str"}, {"sabc", "'abc'", "str"}, {"s3abc", "'3abc'", "str"}, {"sA", "'A'", "str"}, {"sa", "'a'", "str"}, {"strue", "'true'", "str"}, {"ssp", "' '", "str"}, {"shex", "'0x1A'", "str"},
	{"t", "true", "bool"}, {"f", "false", "bool"}, {"n", "null", "null"},
	{"a0", "[]", "array"}, {"a1", "[0]", "array"}, {"a12", "[1, 2]", "array"}, {"ak", "['k' => 1]", "array"}, {"a3", "[3]", "array"},
	{"o", "new stdClass()", "object"}, {"oe", "new Exception('3')", "object"},
}

// opSmall: one or two values of every class (the pool of the two-operand probes in loop contexts)
var opSmall = []string{"i0", "i3", "imax", "f25", "fnz", "fnan", "s3", "s25", "se", "sabc", "t", "f", "n", "a0", "a12", "o"}

// opLits: the literals an operand position is filled with. The first opNInt are the int literals.
var opLits = []opVal{
	{"i0", "0", "int"}, {"i1", "1", "int"}, {"i2", "2", "int"}, {"i3", "3", "int"}, {"im1", "-1", "int"}, {"i7", "7", "int"}, {"imax", "9223372036854775807", "int"},
	{"f0", "0.0", "float"}, {"f05", "0.5", "float"}, {"f25", "2.5", "float"}, {"f3", "3.0", "float"}, {"fnz", "-0.0", "float"}, {"f1e100", "1e100", "float"},
	{"se", "''", "str"}, {"s0", "'0'", "str"}, {"s3", "'3'", "str"}, {"s25", "'2.5'", "str"}, {"sabc", "'abc'", "str"},
	{"t", "true", "bool"}, {"f", "false", "bool"}, {"n", "null", "null"}, {"a0", "[]", "array"}, {"a1", "[1]", "array"},
}

const opNInt = 7

func opLit(key string) opVal {
	for _, l := range opLits {
		if l.Key == key {
			return l
		}
	}
	return opVal{}
}

func opPoolVal(key string) (opVal, bool) {
	for _, v := range opPool {
		if v.Key == key {
			return v, true
		}
	}
	return opVal{}, false
}

// ------------------------------------------------------------ probes

// opProbe: one closure. Arity = how many pool values it is called with (0: literal × literal).
type opProbe struct {
	ID    string
	Src   string // closure source
	Arity int
	Small bool // two operands: the reduced pool
}

// opCtx wraps an expression into a closure. e(a) builds the expression with the first variable
// operand named a ("$a", or the loop variable "$i" of the counting context).
type opCtx struct {
	name    string
	needVar bool // only for shapes whose FIRST operand is the variable
	boolish bool // a condition context (the expression is only tested)
	wrap    func(params string, e func(a string) string) string
}

var opCtxs = []opCtx{
	{name: "val", wrap: func(p string, e func(string) string) string { return "fn(" + p + ") => " + e("$a") }},
	{name: "asg", wrap: func(p string, e func(string) string) string {
		return "function(" + p + ") { $c = " + e("$a") + "; return $c; }"
	}},
	{name: "if", boolish: true, wrap: func(p string, e func(string) string) string {
		return "function(" + p + ") { if (" + e("$a") + ") { return 'T'; } return 'F'; }"
	}},
	{name: "for", boolish: true, wrap: func(p string, e func(string) string) string {
		return "function(" + p + ") { $n = 0; for ($q = 0; " + e("$a") + "; $q++) { $n++; if ($n > 2) { break; } } return $n; }"
	}},
	{name: "whl", boolish: true, wrap: func(p string, e func(string) string) string {
		return "function(" + p + ") { $n = 0; while (" + e("$a") + ") { $n++; if ($n > 2) { break; } } return $n; }"
	}},
	{name: "dow", boolish: true, wrap: func(p string, e func(string) string) string {
		return "function(" + p + ") { $n = 0; do { $n++; if ($n > 2) { break; } } while (" + e("$a") + "); return $n; }"
	}},
	{name: "ter", boolish: true, wrap: func(p string, e func(string) string) string {
		return "fn(" + p + ") => " + e("$a") + " ? 'T' : 'F'"
	}},
	// the variable operand is the counter of the loop: the trip count and the final value show
	{name: "cnt", needVar: true, boolish: true, wrap: func(p string, e func(string) string) string {
		return "function(" + p + ") { $n = 0; for ($i = $a; " + e("$i") + "; $i++) { $n++; if ($n > 4) { break; } } return [$n, $i]; }"
	}},
}

func opCtxByName(n string) opCtx {
	for _, c := range opCtxs {
		if c.name == n {
			return c
		}
	}
	return opCtxs[0]
}

// opForm: one syntactic form with up to two operand positions.
type opForm struct {
	tag   string // feature tag: op-<tag>
	arity int    // operand positions: 1 or 2
	// build the expression from operand texts
	expr func(a, b string) string
	// firstVarOnly: the first position only takes a variable (++, compound assignment, isset, interpolation)
	firstVarOnly bool
	// stmt: the form is a statement sequence that changes $a; the closure body is given directly
	// (contexts do not apply): body(a-operand is always the variable, b text) returns the closure body
	body []opBody
	ctxs []string // contexts that apply (default: all for arity 2, val/asg/if/ter for arity 1)
	// pool / lits: the form only takes these pool values / literals (`0..PHP_INT_MAX` never ends)
	pool []string
	lits []string
}

type opBody struct {
	name string
	f    func(b string) string // closure body (statements, `return …;` included)
}

var opBinary = []struct{ name, tok string }{
	{"add", "+"}, {"sub", "-"}, {"mul", "*"}, {"div", "/"}, {"mod", "%"}, {"pow", "**"}, {"cat", "."},
	{"lt", "<"}, {"le", "<="}, {"gt", ">"}, {"ge", ">="}, {"eq", "=="}, {"ne", "!="}, {"eqs", "==="}, {"nes", "!=="}, {"cmp", "<=>"},
	{"land", "&&"}, {"lor", "||"}, {"band", "&"}, {"bor", "|"}, {"bxor", "^"}, {"shl", "<<"}, {"shr", ">>"},
	{"coal", "??"}, {"elvis", "?:"},
}

var opCompound = []struct{ name, tok string }{
	{"add", "+="}, {"sub", "-="}, {"mul", "*="}, {"div", "/="}, {"mod", "%="}, {"pow", "**="}, {"cat", ".="}, {"coal", "??="},
	{"band", "&="}, {"bor", "|="}, {"bxor", "^="}, {"shl", "<<="}, {"shr", ">>="},
}

var opForms []opForm

func init() {
	for _, o := range opBinary {
		tok := o.tok
		opForms = append(opForms, opForm{tag: "bin-" + o.name, arity: 2, expr: func(a, b string) string { return a + " " + tok + " " + b }})
	}
	un := func(tag string, f func(a string) string) {
		opForms = append(opForms, opForm{tag: "un-" + tag, arity: 1, expr: func(a, _ string) string { return f(a) }})
	}
	un("neg", func(a string) string { return "-" + a })
	un("not", func(a string) string { return "!" + a })
	un("bnot", func(a string) string { return "~" + a })
	un("suppress", func(a string) string { return "@" + a })
	// (a cast is a call of the function named like the type: `(double)` / `(boolean)` do not exist here)
	for _, c := range []string{"int", "float", "string", "bool", "array", "object"} {
		cast := c
		un("cast-"+cast, func(a string) string { return "(" + cast + ")" + a })
	}
	un("empty", func(a string) string { return "empty(" + a + ")" })
	un("clone", func(a string) string { return "clone " + a })
	un("instanceof", func(a string) string { return a + " instanceof stdClass" })
	un("ternary-cond", func(a string) string { return a + " ? 'T' : 'F'" })
	un("array-key", func(a string) string { return "[" + a + " => 'v', 'z' => 1]" })
	un("array-elem", func(a string) string { return "[" + a + ", [" + a + "]]" })
	un("match-subject", func(a string) string {
		return "match(" + a + ") { 0 => 'i0', 1 => 'i1', 3 => 'i3', '3' => 's3', 2.5 => 'f25', '' => 'se', 'abc' => 'sabc', true => 't', false => 'f', null => 'n', default => 'd' }"
	})
	un("match-arm", func(a string) string {
		return "[match(3) { " + a + " => 'hit', default => 'd' }, match('3') { " + a + " => 'hit', default => 'd' }, match(true) { " + a + " => 'hit', default => 'd' }, match(null) { " + a + " => 'hit', default => 'd' }]"
	})
	// operand positions of calls and constructions (special handlers: CallExpression, NewExpression, …)
	un("call-arg", func(a string) string { return "[gettype(" + a + "), max(" + a + ", 2), str_pad('ab', 4, " + a + ")]" })
	un("new-arg", func(a string) string { return "(new Exception(" + a + "))->getMessage()" })
	un("like", func(a string) string { return a + " like stdClass" })
	// two operand positions that are not infix operators
	opForms = append(opForms,
		opForm{tag: "ternary", arity: 2, expr: func(a, b string) string { return a + " ? " + b + " : 'F'" }, ctxs: []string{"val", "asg"}},
		opForm{tag: "ternary-else", arity: 2, expr: func(a, b string) string { return a + " ? 'T' : " + b }, ctxs: []string{"val", "asg"}},
		opForm{tag: "index", arity: 2, firstVarOnly: true, expr: func(a, b string) string { return a + "[" + b + "]" }, ctxs: []string{"val", "asg", "if"}},
		opForm{tag: "range", arity: 2, expr: func(a, b string) string { return a + ".." + b }, ctxs: []string{"val"},
			pool: []string{"i0", "i1", "im1", "i3", "i7", "im2", "f0", "fnz", "f05", "f25", "fm15", "f3", "s0", "s3", "s25", "sm1", "se", "sabc", "s3abc", "t", "f", "n", "a0", "a12", "o"},
			lits: []string{"i0", "i1", "i2", "i3", "im1", "i7", "f0", "f05", "f25", "f3", "fnz", "se", "s0", "s3", "s25", "sabc", "t", "f", "n", "a0", "a1"}},
	)
	// forms whose operand must be a variable
	vr := func(tag string, f func(a string) string, ctxs ...string) {
		opForms = append(opForms, opForm{tag: tag, arity: 1, firstVarOnly: true, expr: func(a, _ string) string { return f(a) }, ctxs: ctxs})
	}
	vr("isset", func(a string) string { return "isset(" + a + ")" }, "val", "if", "ter")
	vr("isset-index", func(a string) string { return "[isset(" + a + "[0]), isset(" + a + "['k']), isset(" + a + "->p), empty(" + a + "[0])]" }, "val")
	vr("interp", func(a string) string {
		return "[\"" + a + "\", \"x{" + a + "}y\", \"x" + a + " y\", \"{" + a + "}{" + a + "}\"]"
	}, "val", "asg")
	vr("interp-index", func(a string) string { return "\"x" + a + "[0] {" + a + "['k']} " + a + "->p\"" }, "val")
	vr("property", func(a string) string { return "[" + a + "->p, " + a + "?->p]" }, "val")
	vr("spread", func(a string) string { return "[1, ..." + a + "]" }, "val")
	vr("spread-call", func(a string) string { return "max(..." + a + ")" }, "val")
	vr("varvar", func(a string) string { return "[$" + a + " ?? 'unset', isset($" + a + ")]" }, "val")
	// statement forms: the variable is changed in place
	st := func(tag string, arity int, bodies ...opBody) {
		opForms = append(opForms, opForm{tag: tag, arity: arity, firstVarOnly: true, body: bodies})
	}
	for _, d := range []struct{ name, pre, post string }{{"post-incr", "", "++"}, {"post-decr", "", "--"}, {"pre-incr", "++", ""}, {"pre-decr", "--", ""}} {
		pre, post := d.pre, d.post
		st("incdec-"+d.name, 1,
			opBody{"stmt", func(string) string { return pre + "$a" + post + "; return $a;" }},
			opBody{"val", func(string) string { return "$r = " + pre + "$a" + post + "; return [$r, $a];" }},
			opBody{"forstep", func(string) string {
				// (`$i = $a, $n = 0` in a for header is this parser's multi-assignment `$i = (($a, $n) = 0)`)
				return "$n = 0; for ($i = $a; $n < 2; $n++, " + pre + "$i" + post + ") { } return $i;"
			}},
			opBody{"foronly", func(string) string {
				return "$n = 0; for ($i = $a; $n < 2; " + pre + "$i" + post + ") { $n++; } return $i;"
			}},
			opBody{"while", func(string) string {
				return "$n = 0; while ($n < 2) { " + pre + "$a" + post + "; $n++; } return $a;"
			}},
			opBody{"index", func(string) string { return "$x = [$a, 'k' => $a]; " + pre + "$x[0]" + post + "; $r = " + pre + "$x['k']" + post + "; return [$r, $x];" }},
			opBody{"prop", func(string) string {
				return "$o = new stdClass; $o->p = $a; " + pre + "$o->p" + post + "; $r = " + pre + "$o->p" + post + "; return [$r, $o->p];"
			}},
			opBody{"arg", func(string) string { return "return gettype(" + pre + "$a" + post + ") . ':' . gettype($a);" }},
		)
	}
	for _, o := range opCompound {
		tok := o.tok
		st("asg-"+o.name, 2,
			opBody{"stmt", func(b string) string { return "$a " + tok + " " + b + "; return $a;" }},
			opBody{"val", func(b string) string { return "$r = ($a " + tok + " " + b + "); return [$r, $a];" }},
			opBody{"index", func(b string) string { return "$x = [$a]; $x[0] " + tok + " " + b + "; return $x;" }},
			opBody{"prop", func(b string) string { return "$o = new stdClass; $o->p = $a; $o->p " + tok + " " + b + "; return $o->p;" }},
		)
	}
	st("assign", 2,
		opBody{"copy", func(b string) string { return "$c = " + b + "; return $c;" }},
		opBody{"chain", func(b string) string { return "$c = $d = " + b + "; return [$c, $d];" }},
		opBody{"self", func(b string) string { return "$a = " + b + "; return $a;" }},
		opBody{"index", func(b string) string { return "$x = []; $x[] = " + b + "; $x['k'] = " + b + "; return $x;" }},
		opBody{"list", func(b string) string { return "[$c, $d] = [" + b + ", $a]; return [$c, $d];" }},
	)
	// (throwing an object that is no Exception ends the script with a fatal error even inside `try`: own form,
	// without the plain object)
	st("stmt-throw", 1,
		opBody{"throw", func(string) string { return "try { throw $a; } catch (Exception $e) { return get_class($e); } return 'no';" }},
	)
	if f := opFormByTag("stmt-throw"); f != nil {
		for _, k := range opAllKeys() {
			if k != "o" {
				f.pool = append(f.pool, k)
			}
		}
	}
	st("stmt-subject", 1,
		opBody{"switch", func(string) string {
			return "switch ($a) { case 0: return 'i0'; case 1: return 'i1'; case 3: return 'i3'; case '3': return 's3'; case 2.5: return 'f25'; case '': return 'se'; case 'abc': return 'sabc'; case true: return 't'; case null: return 'n'; default: return 'd'; }"
		}},
		opBody{"foreach", func(string) string { return "$o = []; foreach ($a as $k => $x) { $o[] = $k; $o[] = $x; } return $o; " }},
		opBody{"echo", func(string) string { return "echo $a, '|'; print $a; return print $a;" }},
		opBody{"unset", func(string) string { return "$x = [$a, 'k' => $a]; unset($x[0]); unset($a); return [isset($a), $x];" }},
		opBody{"static", func(string) string { return "static $s = 3; $s = $s + 1; return [$s, $a];" }},
		opBody{"return-ref", func(string) string { return "$f = function() use ($a) { return $a; }; return $f();" }},
		opBody{"heredoc", func(string) string { return "$s = <<<OPEND\nq{$a}r $a\nOPEND;\nreturn $s;" }},
	)
}

func opFormByTag(tag string) *opForm {
	for i := range opForms {
		if opForms[i].tag == tag {
			return &opForms[i]
		}
	}
	return nil
}

// opProbes: the probes of one form. full: every literal in every context; else every int literal and
// a seeded rotation of the other literals in the value context, {0, 1, 3} and one other literal in
// the remaining contexts. rot rotates the sampled literals from program to program.
func opProbes(f *opForm, r *vh.Rand, rot int, full bool) []opProbe {
	var out []opProbe
	nonInt := opLits[opNInt:]
	allowed := func(ls []opVal) []opVal {
		if f.lits == nil {
			return ls
		}
		var o []opVal
		for _, l := range ls {
			for _, k := range f.lits {
				if k == l.Key {
					o = append(o, l)
				}
			}
		}
		return o
	}
	pickLits0 := func(ctx string, k int) []opVal {
		if full {
			return opLits
		}
		var ls []opVal
		if ctx == "val" {
			ls = append(ls, opLits[:opNInt]...)
			for j := 0; j < k; j++ {
				ls = append(ls, nonInt[(rot*k+j*5)%len(nonInt)])
			}
			return ls
		}
		for _, key := range []string{"i0", "i1", "i3"} {
			ls = append(ls, opLit(key))
		}
		return append(ls, nonInt[(rot+len(ctx))%len(nonInt)])
	}
	pickLits := func(ctx string, k int) []opVal { return allowed(pickLits0(ctx, k)) }
	uniq := func(ls []opVal) []opVal {
		seen := map[string]bool{}
		var o []opVal
		for _, l := range ls {
			if !seen[l.Key] {
				seen[l.Key] = true
				o = append(o, l)
			}
		}
		return o
	}
	if f.body != nil {
		for _, b := range f.body {
			if f.arity == 1 {
				out = append(out, opProbe{ID: "v." + b.name, Src: "function($a) { " + b.f("") + " }", Arity: 1})
				continue
			}
			out = append(out, opProbe{ID: "vv." + b.name, Src: "function($a, $b) { " + b.f("$b") + " }", Arity: 2, Small: b.name != "stmt"})
			k := 6
			if b.name != "stmt" {
				k = 1
			}
			ctxName := "val"
			if b.name != "stmt" {
				ctxName = b.name
			}
			for _, l := range uniq(pickLits(ctxName, k)) {
				out = append(out, opProbe{ID: "vl." + l.Key + "." + b.name, Src: "function($a) { " + b.f(l.Src) + " }", Arity: 1})
			}
		}
		return out
	}
	ctxs := f.ctxs
	if ctxs == nil {
		if f.arity == 2 {
			for _, c := range opCtxs {
				ctxs = append(ctxs, c.name)
			}
		} else {
			ctxs = []string{"val", "asg", "if", "ter"}
		}
	}
	for _, cn := range ctxs {
		c := opCtxByName(cn)
		if f.arity == 1 {
			out = append(out, opProbe{ID: "v." + c.name, Src: c.wrap("$a", func(a string) string { return f.expr(a, "") }), Arity: 1})
			if f.firstVarOnly || c.needVar {
				continue
			}
			for _, l := range uniq(pickLits(c.name, 8)) {
				lit := l
				out = append(out, opProbe{ID: "l." + l.Key + "." + c.name, Src: c.wrap("", func(string) string { return f.expr(lit.Src, "") }), Arity: 0})
			}
			continue
		}
		out = append(out, opProbe{ID: "vv." + c.name, Src: c.wrap("$a, $b", func(a string) string { return f.expr(a, "$b") }), Arity: 2, Small: c.name != "val"})
		lits := uniq(pickLits(c.name, 5))
		for _, l := range lits {
			lit := l
			out = append(out, opProbe{ID: "vl." + l.Key + "." + c.name, Src: c.wrap("$a", func(a string) string { return f.expr(a, lit.Src) }), Arity: 1})
			if !f.firstVarOnly && !c.needVar {
				out = append(out, opProbe{ID: "lv." + l.Key + "." + c.name, Src: c.wrap("$a", func(a string) string { return f.expr(lit.Src, a) }), Arity: 1})
			}
		}
		if c.name == "val" && !f.firstVarOnly {
			// literal × literal (constant folding): a seeded sample, full: one of every class pair
			ll := []string{"i0", "i3", "im1", "imax", "f25", "s3", "sabc", "t", "n"}
			for i, x := range ll {
				for j, y := range ll {
					if !full && (i*len(ll)+j+rot)%9 != 0 {
						continue
					}
					lx, ly := opLit(x), opLit(y)
					if len(allowed([]opVal{lx, ly})) != 2 {
						continue // the form does not take one of the two literals (`0..PHP_INT_MAX`)
					}
					out = append(out, opProbe{ID: "ll." + x + "." + y + ".val", Src: "fn() => " + f.expr(lx.Src, ly.Src), Arity: 0})
				}
			}
		}
	}
	return out
}

// ------------------------------------------------------------ programs

const opCatch = "catch (Throwable $t) { echo 'EXC ', get_class($t), ': ', $t->getMessage(), \"\\n\"; }"

func opPoolSrc(name string, keys []string) string {
	var sb strings.Builder
	sb.WriteString(name + " = [")
	for i, k := range keys {
		v, _ := opPoolVal(k)
		if i > 0 {
			sb.WriteString(", ")
		}
		sb.WriteString("'" + k + "' => " + v.Src)
	}
	sb.WriteString("];\n")
	return sb.String()
}

func opAllKeys() []string {
	var ks []string
	for _, v := range opPool {
		ks = append(ks, v.Key)
	}
	return ks
}

// opProgramSrc: the entry snippet of a probe list. Every record is `#<probe>|<keys>|` followed by
// the var_dump of the result (or `EXC <class>: <message>`); `#end|` closes the output.
func opProgramSrc(tag string, probes []opProbe, poolKeys, smallKeys []string) string {
	var sb strings.Builder
	sb.WriteString("// op: " + tag + "\n")
	groups := [4][]opProbe{}
	for _, p := range probes {
		g := p.Arity
		if p.Arity == 2 && p.Small {
			g = 3
		}
		groups[g] = append(groups[g], p)
	}
	names := [4]string{"$F0", "$F1", "$F2", "$F3"}
	for g, ps := range groups {
		if len(ps) == 0 {
			continue
		}
		sb.WriteString(names[g] + " = [\n")
		for _, p := range ps {
			sb.WriteString("  '" + p.ID + "' => " + p.Src + ",\n")
		}
		sb.WriteString("];\n")
	}
	sb.WriteString(opPoolSrc("$P", poolKeys))
	sb.WriteString(opPoolSrc("$S", smallKeys))
	if len(groups[0]) > 0 {
		sb.WriteString("foreach ($F0 as $id => $f) { echo '#', $id, '||'; try { var_dump($f()); } " + opCatch + " }\n")
	}
	if len(groups[1]) > 0 {
		sb.WriteString("foreach ($F1 as $id => $f) { $K = array_keys($P); $V = array_values($P); $N = count($K);\n  for ($i = 0; $i < $N; $i++) { echo '#', $id, '|', $K[$i], '|'; try { var_dump($f($V[$i])); } " + opCatch + " } }\n")
	}
	for g, pool := range map[int]string{2: "$P", 3: "$S"} {
		if len(groups[g]) == 0 {
			continue
		}
		sb.WriteString("foreach (" + names[g] + " as $id => $f) { $K = array_keys(" + pool + "); $V = array_values(" + pool + "); $W = array_values(" + pool + "); $N = count($K);\n  for ($i = 0; $i < $N; $i++) { for ($j = 0; $j < $N; $j++) { echo '#', $id, '|', $K[$i], ',', $K[$j], '|'; try { var_dump($f($V[$i], $W[$j])); } " + opCatch + " } } }\n")
	}
	sb.WriteString("echo \"#end|\\n\";\n")
	return sb.String()
}

// opMinimal: the one-closure, one-call program of a record.
func opMinimal(tag string, p opProbe, keys []string) string {
	var args []string
	var desc []string
	for _, k := range keys {
		v, ok := opPoolVal(k)
		if !ok {
			return ""
		}
		args = append(args, v.Src)
		desc = append(desc, v.Src)
	}
	return "// op: " + tag + " probe " + p.ID + " with (" + strings.Join(desc, ", ") + ")\n" +
		"$f = " + p.Src + ";\n" +
		"try { var_dump($f(" + strings.Join(args, ", ") + ")); } " + opCatch + "\n"
}

// opRecords cuts an output into its records: "<probe>|<keys>" -> text up to the next marker.
func opRecords(out string) (map[string]string, []string) {
	recs := map[string]string{}
	var order []string
	for _, chunk := range strings.Split(out, "\n#")[0:] {
		chunk = strings.TrimPrefix(chunk, "#")
		i := strings.IndexByte(chunk, '|')
		if i < 0 {
			continue
		}
		j := strings.IndexByte(chunk[i+1:], '|')
		if j < 0 {
			continue
		}
		key := chunk[:i+1+j]
		if _, dup := recs[key]; !dup {
			order = append(order, key)
		}
		recs[key] = chunk[i+1+j+1:]
	}
	return recs, order
}

func lastOf(xs []string) string {
	if len(xs) == 0 {
		return ""
	}
	return xs[len(xs)-1]
}

// opMultis: feature tag -> program builder (FeatProg)
var opMultis = map[string]func(r *vh.Rand, u, kind string, full bool) *Prog{}

var opRot = map[string]int{}

// opFull: every literal in every context (thorough tier, and the targeted search after a retyping was seen)
var opFull bool

func opProg(f *opForm, r *vh.Rand, u, kind string, full bool) *Prog {
	if _, ok := opRot[f.tag]; !ok {
		opRot[f.tag] = r.Intn(97)
	}
	opRot[f.tag]++
	probes := opProbes(f, r, opRot[f.tag], full)
	tag := "op-" + f.tag
	pool, small := opAllKeys(), opSmall
	if f.pool != nil {
		pool, small = f.pool, f.pool
	}
	src := opProgramSrc(tag, probes, pool, small)
	p := &Prog{Name: u, Kind: kind, Tags: []string{tag}, Libs: map[string]string{}}
	p.Parts = []string{src}
	p.PartLibs = []map[string]string{nil}
	p.Src = assemble(p.Parts)
	byID := map[string]opProbe{}
	for _, pr := range probes {
		byID[pr.ID] = pr
	}
	p.Min = func(co, io Obs) []*Prog {
		a, order := opRecords(io.Out)
		b, order2 := opRecords(co.Out)
		cutA, cutB := !strings.Contains(io.Out, "#end|"), !strings.Contains(co.Out, "#end|")
		seen := map[string]bool{}
		var out []*Prog
		perProbe := map[string]int{}
		for _, key := range append(order, order2...) {
			if seen[key] {
				continue
			}
			seen[key] = true
			if a[key] == b[key] {
				continue
			}
			if cutA || cutB {
				// an output capped by the runner: a record missing on one side, or the last (cut) record
				// of a capped side, says nothing
				_, inA := a[key]
				_, inB := b[key]
				if !inA || !inB || (cutA && key == lastOf(order)) || (cutB && key == lastOf(order2)) {
					continue
				}
			}
			parts := strings.SplitN(key, "|", 2)
			pr, ok := byID[parts[0]]
			if !ok {
				continue
			}
			// at most two records per probe, eight per program: distinct probes first
			if perProbe[pr.ID] >= 2 || len(out) >= 8 {
				continue
			}
			perProbe[pr.ID]++
			var keys []string
			if parts[1] != "" {
				keys = strings.Split(parts[1], ",")
			}
			src := opMinimal(tag, pr, keys)
			if src == "" {
				continue
			}
			out = append(out, &Prog{Name: fmt.Sprintf("%sm%d", u, len(out)), Kind: "shrink", Tags: []string{tag}, Src: assemble([]string{src}), Libs: map[string]string{}})
		}
		return out
	}
	return p
}

func init() {
	for i := range opForms {
		f := &opForms[i]
		tag := "op-" + f.tag
		opMultis[tag] = func(r *vh.Rand, u, kind string, full bool) *Prog { return opProg(f, r, u, kind, full) }
		// in the mix stream: three seeded probes over the reduced pool
		features = append(features, feature{Tag: tag, Group: "op", Gen: func(r *vh.Rand, u string) (string, map[string]string) {
			probes := opProbes(f, r, r.Intn(97), false)
			var pick []opProbe
			for k := 0; k < 3 && len(probes) > 0; k++ {
				pick = append(pick, probes[r.Intn(len(probes))])
			}
			seen := map[string]bool{}
			var uniq []opProbe
			for _, p := range pick {
				if !seen[p.ID] {
					seen[p.ID] = true
					p.Small = true
					uniq = append(uniq, p)
				}
			}
			small := opSmall
			if f.pool != nil {
				small = f.pool
				if len(small) > len(opSmall) {
					small = small[:len(opSmall)]
				}
			}
			src := opProgramSrc(tag, uniq, small, small)
			return "if (true) {\n" + strings.ReplaceAll(src, "echo \"#end|\\n\";\n", "") + "}\n", nil
		}})
	}
}

// opComplete: the interpreted run of an op program must reach its end marker (the output is
// capped by the runner: a truncated output would silently lose records on both sides).
func opComplete(c *vh.Ctx, p *Prog, io Obs) {
	if len(p.Tags) == 0 || !strings.HasPrefix(p.Tags[0], "op-") || p.Min == nil {
		return
	}
	recs, _ := opRecords(io.Out)
	c.Hit("op:programs")
	for range recs {
		c.Hit("op:records")
	}
	if !strings.Contains(io.Out, "#end|") {
		c.Hit("op:incomplete:" + p.Tags[0])
		c.Note("operand program %s %v did not reach its end marker in the interpreted run (%d records): %s", p.Name, p.Tags, len(recs), Obs{Out: tail(io.Out, 200), ErrKind: io.ErrKind, Exit: io.Exit})
	}
	exc := 0
	for _, v := range recs {
		if strings.HasPrefix(v, "EXC ") {
			exc++
		}
	}
	if len(recs) > 0 {
		c.HitN("op:records-with-error", exc)
	}
}

func opTags() []string {
	var ts []string
	for _, f := range opForms {
		ts = append(ts, "op-"+f.tag)
	}
	sort.Strings(ts)
	return ts
}
