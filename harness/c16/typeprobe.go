package c16

// Tie of Model.EmitType.splits (the split test of data.NewBaseType, over which the type theorems of
// Proofs/Properties/C16.lean are stated) to the real data.NewBaseType, in process, every run: every text
// of 1..5 characters over {E, x, |, ?} (1364) plus the printed forms of the type stream's unions — the
// real function answers with a data.UnionType iff the model's `splits` says so; and for every union the
// type stream uses, built by the real data.NewUnionType from its members, reading its String() back
// gives a union with the same members iff the model says the print is faithful.

import (
	"encoding/hex"
	"reflect"
	"strings"

	"github.com/php-any/origami/data"

	"verif/harness/vh"
)

func typeTieStream(c *vh.Ctx, m *vh.Model) {
	if m == nil {
		return
	}
	var texts []string
	alpha := []byte{'E', 'x', '|', '?'}
	var rec func(prefix []byte, k int)
	rec = func(prefix []byte, k int) {
		if len(prefix) > 0 {
			texts = append(texts, string(prefix))
		}
		if k == 0 {
			return
		}
		for _, a := range alpha {
			rec(append(append([]byte{}, prefix...), a), k-1)
		}
	}
	rec(nil, 5)
	unions := [][]string{}
	for _, e := range tyExprs() {
		e = strings.ReplaceAll(e, " ", "")
		if strings.Contains(e, "|") && !strings.HasPrefix(e, "?") {
			texts = append(texts, e)
			unions = append(unions, strings.Split(e, "|"))
		}
	}
	texts = append(texts, "E|RuntimeException", "N|int|null", "Ex|RuntimeException", "RuntimeException|E", "int|string", "a|b", "ab|c", "|ab", "a||b")
	for _, s := range texts {
		_, realU := data.NewBaseType(s).(data.UnionType)
		ans, err := m.Ask("split " + hex.EncodeToString([]byte(s)))
		if err != nil {
			c.Note("type tie: model does not answer: %v", err)
			return
		}
		c.Hit("type:tie-split")
		if (ans == "1") != realU {
			c.Mismatch(map[string]any{"kind": "type-split", "text": s}, b01(realU), ans, "data.NewBaseType splits the text into a union (1) or not (0); Model.EmitType.splits")
		}
	}
	// print ∘ parse on the unions of the type stream: faithful iff the model says so
	for _, ms := range unions {
		var tys []data.Types
		for _, x := range ms {
			tys = append(tys, data.NewBaseType(x))
		}
		u := data.NewUnionType(tys)
		back := data.NewBaseType(u.String())
		faithful := reflect.DeepEqual(u, back)
		ans, err := m.Ask("split " + hex.EncodeToString([]byte(u.String())))
		if err != nil {
			return
		}
		c.Hit("type:tie-roundtrip")
		if !faithful {
			c.Hit("type:print-not-faithful") // the reason genTypes needs its own arm for a union
		}
		if (ans == "1") != faithful {
			c.Mismatch(map[string]any{"kind": "type-roundtrip", "members": ms}, b01(faithful), ans, "NewBaseType(union.String()) equals the union (1) or not (0); Model.EmitType.readsBackAsUnion false")
		}
	}
}
