package c16

import (
	"fmt"
	"path/filepath"
	"regexp"
	"strings"

	"verif/harness/lexh"
	"verif/harness/vh"
)

// Corpus files that only compute and echo: no file/network/process/time
// access, no include, no class-like declaration shared with another file of
// the batch (the compile command parses a whole build against one registry).
var reUnsafe = regexp.MustCompile(`(?i)\b(include|require|include_once|require_once|__DIR__|__FILE__|__LINE__|fopen|fwrite|file_put_contents|file_get_contents|unlink|mkdir|rmdir|scandir|glob|tempnam|tmpfile|exec|system|passthru|shell_exec|proc_open|popen|sleep|usleep|time|microtime|hrtime|date|mktime|strtotime|rand|mt_rand|random_int|random_bytes|uniqid|shuffle|array_rand|str_shuffle|getmypid|spl_object_id|spl_object_hash|memory_get_usage|memory_get_peak_usage|spawn|Server|Channel|curl_\w+|socket_\w+|stream_\w+|getenv|putenv|php_sapi_name|phpversion|PHP_VERSION|PHP_OS|sys_get_temp_dir|getcwd|chdir|set_time_limit|ini_set|error_log|debug_backtrace|debug_print_backtrace|eval|DateTime\w*|Reflection\w*|Database|PDO|mysqli\w*|sqlite\w*|pcntl_\w+|posix_\w+|signal|gc_\w+|opcache_\w+|header|setcookie|session_\w+|ob_\w+|flush|readline|fgets|STDIN|STDOUT|STDERR|fscanf|stream|run_php_file|class_alias|spl_autoload_register|Log|Http|Net|Fiber)\b`)

var reDecl = regexp.MustCompile(`(?im)^\s*(?:abstract\s+|final\s+)*(class|interface|trait|enum|function)\s+([A-Za-z_][A-Za-z0-9_]*)`)

func corpusProgs(c *vh.Ctx, name func(string) string) []*Prog {
	var out []*Prog
	seenDecl := map[string]bool{}
	limit := c.N(25, 400)
	for _, in := range lexh.Corpus(c.Repo) {
		if !strings.HasPrefix(in.Name, "tests/") || !strings.HasSuffix(in.Name, ".php") {
			continue
		}
		if len(in.Src) > 20000 || reUnsafe.MatchString(in.Src) || strings.Contains(in.Src, "$_SERVER") || strings.Contains(in.Src, "$argv") || strings.Contains(in.Src, "$argc") || strings.Contains(in.Src, "$_ENV") || !strings.HasPrefix(strings.TrimSpace(in.Src), "<?php") {
			continue
		}
		clash := false
		var decls []string
		for _, m := range reDecl.FindAllStringSubmatch(in.Src, -1) {
			d := strings.ToLower(m[2])
			if seenDecl[d] {
				clash = true
			}
			decls = append(decls, d)
		}
		if clash {
			continue
		}
		for _, d := range decls {
			seenDecl[d] = true
		}
		tag := "corpus"
		declares := false
		for _, m := range reDecl.FindAllStringSubmatch(in.Src, -1) {
			if strings.ToLower(m[1]) != "function" {
				declares = true // class-like declarations in an entry file: known finding, exercised by the entry-* features
			}
		}
		if declares || strings.Contains(in.Src, "new class") {
			c.Hit("corpus-skipped:declares-class")
			continue
		}
		p := &Prog{Name: name("c"), Kind: "corpus", Tags: []string{tag}, Src: in.Src, Origin: in.Name}
		p.Tags = []string{tag + ":" + filepath.ToSlash(in.Name)}
		out = append(out, p)
		if len(out) >= limit {
			break
		}
	}
	c.Note("corpus: %d deterministic echo-only files selected", len(out))
	_ = fmt.Sprint
	return out
}
