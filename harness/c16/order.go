package c16

// Order-carrying collections. The translation rebuilds every ORDERED collection
// of the AST (class properties, parameters, arguments, statements, array items,
// match arms, catch clauses, switch cases, elseif chains, interpolation parts,
// for-lists, use-lists, interface lists, operands) from Go source text; a
// handler that walks such a collection through a map, a sorted key list, or
// back to front produces a program that builds, runs and answers every
// by-name question correctly — only the order is different. The features of
// this file make the order of each collection OBSERVABLE: every collection is
// declared with k >= 3 distinguishable members in a seeded *scrambled* order
// (not ascending, not descending, the first member neither the least nor the
// greatest name — so sorting, reversing and "first key" all show), and the
// entry prints the order through every observer the interpreter offers
// (foreach, json_encode, (array) cast, var_dump, string conversion, serialize,
// array_key_first, clone, first-match-wins dispatch, side-effecting operands).
//
// Every snippet carries a line `// expect: <text>`: the declared order as the
// observer must print it. judge() counts whether the interpreted run shows it
// (`ord:effective` / `ord:ineffective:<tag>`), so that a feature whose observer
// does not depend on the declared order is visible in the evidence instead of
// silently passing.

import (
	"fmt"
	"sort"
	"strings"

	"verif/harness/vh"
)

var namePool = []string{"ant", "bee", "cat", "dog", "elk", "fox", "gnu", "hen", "ibis", "jay", "kiwi", "lynx", "mole", "newt", "owl", "pug", "quail", "rat", "seal", "toad", "urial", "vole", "wasp", "yak", "zebu"}

// scrambled: k distinct names whose order is observably neither sorted nor
// reversed: the first is neither the least nor the greatest, and (k >= 4) the
// last is neither as well.
func scrambled(r *vh.Rand, k int) []string {
	if k < 3 {
		k = 3
	}
	for {
		idx := map[int]bool{}
		var xs []string
		for len(xs) < k {
			i := r.Intn(len(namePool))
			if !idx[i] {
				idx[i] = true
				xs = append(xs, namePool[i])
			}
		}
		s := append([]string{}, xs...)
		sort.Strings(s)
		lo, hi := s[0], s[k-1]
		if xs[0] == lo || xs[0] == hi {
			continue
		}
		if k >= 4 && (xs[k-1] == lo || xs[k-1] == hi) {
			continue
		}
		return xs
	}
}

func joinMap(xs []string, sep string, f func(i int, x string) string) string {
	var out []string
	for i, x := range xs {
		out = append(out, f(i, x))
	}
	return strings.Join(out, sep)
}

func expectLine(s string) string { return "// expect: " + s + "\n" }

// expectOf extracts the `// expect:` texts of a source.
func expectOf(src string) []string {
	var out []string
	for _, l := range strings.Split(src, "\n") {
		if e := strings.TrimSpace(strings.TrimPrefix(l, "// expect:")); strings.HasPrefix(l, "// expect:") && e != "" {
			out = append(out, e)
		}
	}
	return out
}

// showsOrder: the members named in expect (separated by , | - or blanks) occur
// in out in that order (whatever the observer prints between them).
func showsOrder(out, expect string) bool {
	toks := strings.FieldsFunc(expect, func(c rune) bool { return c == ',' || c == ' ' || c == '|' || c == '-' })
	pos := 0
	for _, t := range toks {
		i := strings.Index(out[pos:], t)
		if i < 0 {
			return false
		}
		pos += i + len(t)
	}
	return len(toks) > 0
}

func init() {
	add := func(f feature) { features = append(features, f) }
	S := fmt.Sprintf
	ord := func(tag string, f func(r *vh.Rand, u string) string) { add(simple("ord", tag, f)) }
	// tracer: echoes its argument and returns it (evaluation order of operands / arguments)
	tr := func(u string) string { return S("function t_%s($x) { echo \"<$x>\"; return $x; }\n", u) }
	q := func(x string) string { return "'" + x + "'" }
	quoted := func(xs []string) string { return joinMap(xs, ", ", func(_ int, x string) string { return q(x) }) }

	// ------------------------------------------------------------ array items
	ord("ord-array-list", func(r *vh.Rand, u string) string {
		xs := scrambled(r, n(r, 4, 6))
		return expectLine(strings.Join(xs, ",")) +
			S("$a = [%s];\necho implode(',', $a), '|', $a[0], '|', json_encode($a), '|', end($a);\nforeach ($a as $i => $v) { echo \" $i:$v\"; }\necho \"\\n\";\n", quoted(xs))
	})
	ord("ord-array-keyed", func(r *vh.Rand, u string) string {
		xs := scrambled(r, n(r, 4, 6))
		return expectLine(strings.Join(xs, ",")) +
			S("$a = [%s];\necho implode(',', array_keys($a)), '|', array_key_first($a), '|', json_encode($a), '|', implode(',', $a), '|', key($a);\nforeach ($a as $k => $v) { echo \" $k=$v\"; }\necho \"\\n\";\nvar_dump($a);\n",
				joinMap(xs, ", ", func(i int, x string) string { return S("%s => %d", q(x), i+1) }))
	})
	ord("ord-array-long-syntax", func(r *vh.Rand, u string) string {
		// array(…) with positional members first and keyed members after them is a node of its own
		// (node.Array with Keys); the short syntax with the same members is node.Kv
		xs := scrambled(r, n(r, 3, 5))
		ys := scrambled(r, 3)
		keyed := joinMap(xs, ", ", func(i int, x string) string { return S("%s => %d", q(x), i+1) })
		return expectLine(strings.Join(xs, ",")) +
			S("$a = array(%s, %s);\n$b = array(%s);\n$c = array(%s);\n$d = [%s, %s];\nforeach ([$a, $b, $c, $d] as $arr) { echo json_encode($arr), '|', implode(',', array_keys($arr)), '|', implode(',', $arr), '|'; foreach ($arr as $k => $v) { echo \"$k=$v \"; } echo \"\\n\"; }\n",
				quoted(ys), keyed, keyed, quoted(ys), quoted(ys), keyed)
	})
	ord("ord-array-int-keys", func(r *vh.Rand, u string) string {
		ks := []int{7, 2, 9, 4, 11, 5}
		k := n(r, 4, 6)
		off := n(r, 0, 3)
		var items, exp []string
		for i := 0; i < k; i++ {
			key := ks[(i+off)%len(ks)]
			items = append(items, S("%d => 'v%d'", key, i))
			exp = append(exp, S("%d", key))
		}
		return expectLine(strings.Join(exp, ",")) +
			S("$a = [%s];\necho implode(',', array_keys($a)), '|', json_encode($a), '|', implode(',', $a), \"\\n\";\n", strings.Join(items, ", "))
	})
	ord("ord-array-dup-key", func(r *vh.Rand, u string) string {
		xs := scrambled(r, 4)
		// the first key is written again at the end: it keeps its first position and takes the last value
		return expectLine(strings.Join(xs, ",")) +
			S("$a = [%s, %s => 'again'];\necho implode(',', array_keys($a)), '|', json_encode($a), \"\\n\";\n",
				joinMap(xs, ", ", func(i int, x string) string { return S("%s => %d", q(x), i) }), q(xs[0]))
	})
	ord("ord-array-nested", func(r *vh.Rand, u string) string {
		xs := scrambled(r, 4)
		ys := scrambled(r, 3)
		inner := "[" + joinMap(ys, ", ", func(i int, y string) string { return S("%s => %d", q(y), i) }) + "]"
		return expectLine(strings.Join(ys, ",")) +
			S("$a = [%s];\necho json_encode($a), '|', implode(',', array_keys($a[%s])), \"\\n\";\n",
				joinMap(xs, ", ", func(i int, x string) string {
					if i%2 == 0 {
						return S("%s => %s", q(x), inner)
					}
					return S("%s => [%s]", q(x), quoted(ys))
				}), q(xs[0]))
	})
	ord("ord-array-spread", func(r *vh.Rand, u string) string {
		xs := scrambled(r, 3)
		ys := scrambled(r, 3)
		return expectLine(strings.Join(xs, ",")) +
			S("$p = [%s]; $q = [%s];\n$m = [...$p, 'mid', ...$q, 'end'];\necho implode(',', $m), \"\\n\";\n", quoted(xs), quoted(ys))
	})
	ord("ord-list-targets", func(r *vh.Rand, u string) string {
		xs := scrambled(r, 4)
		return expectLine(joinMap(xs, " ", func(i int, x string) string { return S("%s=%d", x, i+1) })) +
			S("[%s] = [1, 2, 3, 4];\necho \"%s\\n\";\n",
				joinMap(xs, ", ", func(_ int, x string) string { return "$" + x }),
				joinMap(xs, " ", func(_ int, x string) string { return x + "=$" + x }))
	})

	// ------------------------------------------------------------ arguments and parameters
	ord("ord-call-args", func(r *vh.Rand, u string) string {
		xs := scrambled(r, n(r, 3, 5))
		ps := joinMap(xs, ", ", func(i int, _ string) string { return S("$p%d", i) })
		return expectLine(strings.Join(xs, "-")) + tr(u) +
			S("function ca_%s(%s) { return %s; }\necho ca_%s(%s), ' ', ca_%s(%s), \"\\n\";\n", u, ps,
				joinMap(xs, " . '-' . ", func(i int, _ string) string { return S("$p%d", i) }),
				u, quoted(xs),
				u, joinMap(xs, ", ", func(_ int, x string) string { return S("t_%s(%s)", u, q(x)) }))
	})
	ord("ord-params-named", func(r *vh.Rand, u string) string {
		xs := scrambled(r, 4)
		// parameters are named in scrambled order; positional binding follows the declaration, the body prints by name
		return expectLine(joinMap(xs, " ", func(i int, x string) string { return S("%s=%d", x, i+1) })) +
			S("function pn_%s(%s) { return \"%s\"; }\necho pn_%s(1, 2, 3, 4), \"\\n\";\n", u,
				joinMap(xs, ", ", func(_ int, x string) string { return "$" + x }),
				joinMap(xs, " ", func(_ int, x string) string { return x + "=$" + x }), u)
	})
	ord("ord-params-defaults", func(r *vh.Rand, u string) string {
		xs := scrambled(r, 4)
		return expectLine(S("%s=1 %s=2 %s=D2 %s=D3", xs[0], xs[1], xs[2], xs[3])) +
			S("function pd_%s(%s) { return \"%s\" . func_num_args(); }\necho pd_%s(1, 2), '|', pd_%s(1), '|', pd_%s(1, 2, 3, 4), \"\\n\";\n", u,
				joinMap(xs, ", ", func(i int, x string) string {
					if i == 0 {
						return "$" + x
					}
					return S("$%s = 'D%d'", x, i)
				}),
				joinMap(xs, " ", func(_ int, x string) string { return x + "=$" + x }), u, u, u)
	})
	ord("ord-params-variadic", func(r *vh.Rand, u string) string {
		xs := scrambled(r, 5)
		return expectLine(strings.Join(xs[2:], ",")) +
			S("function pv_%s($first, $second, ...$rest) { return $first . '/' . $second . '/' . implode(',', $rest); }\necho pv_%s(%s), \"\\n\";\n", u, u, quoted(xs))
	})
	ord("ord-named-args", func(r *vh.Rand, u string) string {
		xs := scrambled(r, 3)
		// binding follows the names; since /repo c880030 (resolveNamedArguments) the argument expressions
		// of a call that uses names are evaluated in PARAMETER order, not in the order written at the call
		return expectLine(S("<%s><%s><%s>", xs[0], xs[1], xs[2])) + tr(u) +
			S("function na2_%s(%s) { return \"%s\"; }\necho na2_%s(%s: t_%s(%s), %s: t_%s(%s), %s: t_%s(%s)), \"\\n\";\n", u,
				joinMap(xs, ", ", func(_ int, x string) string { return S("$%s = '-'", x) }),
				joinMap(xs, " ", func(_ int, x string) string { return x + "=$" + x }),
				u, xs[2], u, q(xs[2]), xs[0], u, q(xs[0]), xs[1], u, q(xs[1]))
	})
	ord("ord-closure-params-use", func(r *vh.Rand, u string) string {
		xs := scrambled(r, 3)
		us := scrambled(r, 3)
		return expectLine(joinMap(xs, " ", func(i int, x string) string { return S("%s=%d", x, i+1) })) +
			S("%s\n$f = function(%s) use (%s) { return \"%s|%s\"; };\n$g = fn(%s) => \"%s\";\necho $f(1, 2, 3), ' ', $g(1, 2, 3), \"\\n\";\n",
				joinMap(us, " ", func(i int, x string) string { return S("$u%s = 'U%d';", x, i) }),
				joinMap(xs, ", ", func(_ int, x string) string { return "$" + x }),
				joinMap(us, ", ", func(_ int, x string) string { return "$u" + x }),
				joinMap(xs, " ", func(_ int, x string) string { return x + "=$" + x }),
				joinMap(us, " ", func(_ int, x string) string { return "$u" + x }),
				joinMap(xs, ", ", func(_ int, x string) string { return "$" + x }),
				joinMap(xs, " ", func(_ int, x string) string { return x + "=$" + x }))
	})
	ord("ord-nested-call-eval", func(r *vh.Rand, u string) string {
		xs := scrambled(r, 4)
		return expectLine(joinMap(xs, "", func(_ int, x string) string { return "<" + x + ">" })) + tr(u) +
			S("echo implode(',', [t_%s(%s), strtoupper(t_%s(%s)), t_%s(%s) . t_%s(%s)]), \"\\n\";\n", u, q(xs[0]), u, q(xs[1]), u, q(xs[2]), u, q(xs[3]))
	})

	// ------------------------------------------------------------ statements
	ord("ord-statements", func(r *vh.Rand, u string) string {
		xs := scrambled(r, n(r, 4, 6))
		body := joinMap(xs, " ", func(_ int, x string) string { return S("echo %s;", q(x+",")) })
		return expectLine(strings.Join(xs, ",")) +
			S("%s\necho \"\\n\";\nfunction st_%s() { %s }\nst_%s();\n$c = function() { %s };\n$c();\nif (true) { %s } else { echo 'no'; }\nforeach ([1] as $_v) { %s }\ntry { %s throw new Exception('x'); } catch (Exception $e) { %s } finally { %s }\necho \"\\n\";\n",
				body, u, body, u, body, body, body, body, body, body)
	})
	ord("ord-namespace-statements", func(r *vh.Rand, u string) string {
		// a namespaced entry: its statements are the members of node.Namespace.Statements (own handler)
		xs := scrambled(r, n(r, 4, 6))
		return expectLine(strings.Join(xs, ",")) +
			S("namespace NO_%s;\nfunction who() { return 'w'; }\n%s\necho who(), \"\\n\";\n", u, joinMap(xs, "\n", func(_ int, x string) string { return S("echo %s;", q(x+",")) }))
	})
	ord("ord-echo-args", func(r *vh.Rand, u string) string {
		xs := scrambled(r, n(r, 4, 6))
		return expectLine(strings.Join(xs, "")) +
			S("echo %s, \"\\n\";\nprint %s; echo \"\\n\";\n", quoted(xs), joinMap(xs, " . ", func(_ int, x string) string { return q(x) }))
	})
	ord("ord-unset-isset-lists", func(r *vh.Rand, u string) string {
		xs := scrambled(r, 4)
		return expectLine("ynny") +
			S("%s\nunset($%s, $%s);\necho %s, isset($%s, $%s) ? 'both' : 'notboth', \"\\n\";\n",
				joinMap(xs, " ", func(i int, x string) string { return S("$%s = %d;", x, i) }),
				xs[1], xs[2],
				joinMap(xs, ", ", func(_ int, x string) string { return S("isset($%s) ? 'y' : 'n'", x) }),
				xs[0], xs[3])
	})

	// ------------------------------------------------------------ first-match-wins dispatch
	ord("ord-match-arms", func(r *vh.Rand, u string) string {
		xs := scrambled(r, n(r, 3, 5))
		v := n(r, 1, 3)
		return expectLine(xs[0]) + tr(u) +
			S("echo match(true) { %s, default => 'none' }, ' ';\necho match(%d) { %s, default => 'none' }, ' ';\necho match(%d) { t_%s(3), t_%s(%d), t_%s(1) => %s, t_%s(%d) => %s, default => 'none' }, \"\\n\";\n",
				joinMap(xs, ", ", func(_ int, x string) string { return S("strlen(%s) > 1 => %s", q(x), q(x)) }),
				v, joinMap(xs, ", ", func(_ int, x string) string { return S("%d => %s", v, q(x)) }),
				v, u, u, v, u, q(xs[0]), u, v, q(xs[1]))
	})
	ord("ord-catch-clauses", func(r *vh.Rand, u string) string {
		types := []string{"Throwable", "Exception", "RuntimeException", "LogicException", "InvalidArgumentException"}
		// a seeded permutation of the clause list; every clause prints its own type, the first that matches wins
		perm := append([]string{}, types...)
		for i := len(perm) - 1; i > 0; i-- {
			j := r.Intn(i + 1)
			perm[i], perm[j] = perm[j], perm[i]
		}
		thrown := vh.Pick(r, []string{"RuntimeException", "InvalidArgumentException", "LogicException", "Exception"})
		return expectLine("caught:") +
			S("try { throw new %s('x'); } %s\necho \"\\n\";\ntry { throw new %s('y'); } catch (%s | %s $e) { echo 'multi'; } catch (%s $e) { echo 'single'; } catch (Throwable $e) { echo 'T'; }\necho \"\\n\";\n",
				thrown, joinMap(perm, " ", func(_ int, t string) string { return S("catch (%s $e) { echo 'caught:%s'; }", t, t) }),
				thrown, perm[0], perm[1], perm[2])
	})
	ord("ord-switch-cases", func(r *vh.Rand, u string) string {
		xs := scrambled(r, 5)
		ks := []int{2, 1, 3, 4}
		off := n(r, 0, 3)
		k := func(i int) int { return ks[(i+off)%4] }
		return expectLine(xs[0]) +
			S("foreach ([1, 2, 3, 4, 5] as $v) { switch ($v) { case %d: echo %s; case %d: echo %s; case %d: echo %s; break; default: echo %s; case %d: echo %s; } echo '|'; }\necho \"\\n\";\nswitch (1) { case 1: echo %s; break; case 1: echo %s; break; default: echo %s; }\necho \"\\n\";\n",
				k(0), q(xs[0]), k(1), q(xs[1]), k(2), q(xs[2]), q(xs[3]), k(3), q(xs[4]), q(xs[0]), q(xs[1]), q(xs[2]))
	})
	ord("ord-elseif-chain", func(r *vh.Rand, u string) string {
		xs := scrambled(r, 4)
		v := n(r, 0, 9)
		return expectLine("") +
			S("$v = %d;\nif ($v > 7) { echo %s; } elseif ($v > 4) { echo %s; } elseif ($v > 1) { echo %s; } else { echo %s; }\nif ($v >= 0) { echo %s; } elseif ($v >= 0) { echo %s; } else if ($v >= 0) { echo %s; }\necho \"\\n\";\n",
				v, q(xs[0]), q(xs[1]), q(xs[2]), q(xs[3]), q(xs[1]), q(xs[2]), q(xs[3]))
	})
	ord("ord-short-circuit", func(r *vh.Rand, u string) string {
		xs := scrambled(r, 4)
		return expectLine(S("<%s>", xs[0])) + tr(u) +
			S("$r1 = t_%s(%s) && t_%s('') && t_%s(%s);\n$r2 = t_%s('') || t_%s(%s) || t_%s(%s);\necho null ?? t_%s(%s) ?? t_%s(%s), t_%s('') ?: t_%s(%s) ?: t_%s(%s), \"\\n\";\nvar_dump($r1, $r2);\n",
				u, q(xs[0]), u, u, q(xs[1]), u, u, q(xs[2]), u, q(xs[3]), u, q(xs[1]), u, q(xs[2]), u, u, q(xs[3]), u, q(xs[0]))
	})
	ord("ord-ternary-branches", func(r *vh.Rand, u string) string {
		xs := scrambled(r, 3)
		v := n(r, 0, 5)
		return expectLine("") +
			S("$v = %d;\necho $v > 2 ? %s : %s, $v > 2 ? ($v > 4 ? %s : %s) : ($v > 0 ? %s : %s), \"\\n\";\n", v, q(xs[0]), q(xs[1]), q(xs[2]), q(xs[0]), q(xs[1]), q(xs[2]))
	})

	// ------------------------------------------------------------ operands
	ord("ord-operands", func(r *vh.Rand, u string) string {
		a, b, c := n(r, 11, 40), n(r, 2, 9), n(r, 2, 4)
		xs := scrambled(r, 3)
		return expectLine(S("<%s><%s><%s>%s", xs[0], xs[1], xs[2], strings.Join(xs, ""))) + tr(u) +
			S("$a = %d; $b = %d; $c = %d;\necho $a - $b - $c, ' ', $a / $b, ' ', $a %% $b %% $c, ' ', $b ** $c, ' ', $a <=> $b, ' ', $b <=> $a, ' ', $a << $c, ' ', $a >> 1, ' ', $a . $b . $c, ' ', $a - ($b - $c), ' ', ($a < $b) ? 'lt' : 'ge', ' ', $b - $a, \"\\n\";\necho t_%s(%s) . t_%s(%s) . t_%s(%s), ' ', t_%s(5) - t_%s(3), ' ', t_%s(2) < t_%s(1) ? 'lt' : 'ge', \"\\n\";\n$x = $a; $x -= $b; $y = $b; $y .= $a; $z = $a - $b; $w = $b - $a; $k = 100 - $a; $l = $a - 100;\necho \"$x $y $z $w $k $l\\n\";\n",
				a, b, c, u, q(xs[0]), u, q(xs[1]), u, q(xs[2]), u, u, u, u)
	})
	ord("ord-interp-parts", func(r *vh.Rand, u string) string {
		xs := scrambled(r, 4)
		return expectLine(strings.Join(xs, " ")) +
			S("%s\n$arr = [%s];\necho \"%s\", \"|%s|\", \"\\n\";\necho <<<EOT\n%s\nEOT;\necho \"\\n\";\n",
				joinMap(xs, " ", func(_ int, x string) string { return S("$%s = %s;", x, q(x)) }),
				joinMap(xs, ", ", func(i int, x string) string { return S("%s => %d", q(x), i) }),
				joinMap(xs, " ", func(_ int, x string) string { return "$" + x }),
				joinMap(xs, "", func(_ int, x string) string { return S("{$%s}{$arr['%s']}", x, x) }),
				joinMap(xs, "-", func(_ int, x string) string { return "{$" + x + "}" }))
	})
	ord("ord-for-lists", func(r *vh.Rand, u string) string {
		xs := scrambled(r, 4)
		return expectLine(S("<%s><%s>", xs[0], xs[1])) + tr(u) +
			S("for (t_%s(%s), t_%s(%s), $i = 0; $i < 2; t_%s(%s), t_%s(%s), $i++) { echo $i; }\necho \"\\n\";\nfor ($i = 0, $j = 9, $k = 3; $i < 3; $i++, $j--, $k += $i) { echo \"$i.$j.$k \"; }\necho \"\\n\";\n",
				u, q(xs[0]), u, q(xs[1]), u, q(xs[2]), u, q(xs[3]))
	})
	ord("ord-const-sequence", func(r *vh.Rand, u string) string {
		xs := scrambled(r, 3)
		up := func(x string) string { return strings.ToUpper(x) + "_" + u }
		return expectLine("3 4 8") +
			S("const %s = 3;\nconst %s = %s + 1;\nconst %s = %s * 2;\necho %s, ' ', %s, ' ', %s, \"\\n\";\n", up(xs[0]), up(xs[1]), up(xs[0]), up(xs[2]), up(xs[1]), up(xs[0]), up(xs[1]), up(xs[2]))
	})
	ord("ord-function-decl-order", func(r *vh.Rand, u string) string {
		xs := scrambled(r, 3)
		return expectLine(xs[0]) +
			S("if (!function_exists('fd2_%s')) { function fd2_%s() { return %s; } }\nif (!function_exists('fd2_%s')) { function fd2_%s() { return %s; } }\n%s\necho fd2_%s(), %s, \"\\n\";\n",
				u, u, q(xs[0]), u, u, q(xs[1]),
				joinMap(xs, "\n", func(i int, x string) string { return S("function %s_%s() { return %s; }", x, u, q(x)) }),
				u, joinMap(xs, ", ", func(_ int, x string) string { return S("%s_%s()", x, u) }))
	})
	ord("ord-generator-yields", func(r *vh.Rand, u string) string {
		xs := scrambled(r, n(r, 3, 5))
		return expectLine(joinMap(xs, ",", func(i int, x string) string { return S("%s%d", x, i) })) +
			S("function gy_%s() { %s }\nforeach (gy_%s() as $k => $v) { echo \"$k$v,\"; }\necho \"\\n\";\n", u,
				joinMap(xs, " ", func(i int, x string) string { return S("yield %s => %d;", q(x), i) }), u)
	})
	ord("ord-static-global-lists", func(r *vh.Rand, u string) string {
		xs := scrambled(r, 3)
		g := func(x string) string { return "$g" + x + "_" + u }
		return expectLine(S("%s=0 %s=1 %s=2", xs[0], xs[1], xs[2])) +
			S("%s\nfunction sg_%s() { global %s; static $%s = 0, $%s = 1, $%s = 2; return \"%s \" . %s; }\necho sg_%s(), \"\\n\";\n",
				joinMap(xs, " ", func(i int, x string) string { return S("%s = 'G%d';", g(x), i) }), u,
				joinMap(xs, ", ", func(_ int, x string) string { return g(x) }),
				xs[0], xs[1], xs[2],
				joinMap(xs, " ", func(_ int, x string) string { return x + "=$" + x }),
				joinMap(xs, " . ", func(_ int, x string) string { return g(x) }), u)
	})

	// ------------------------------------------------------------ classes in library files
	cls := func(tag string, f func(r *vh.Rand, u, ns string) (string, map[string]string)) {
		add(feature{Tag: tag, Group: "cls", Gen: func(r *vh.Rand, u string) (string, map[string]string) {
			ns := "L" + u + strings.ReplaceAll(tag, "-", "")
			e, libs := f(r, u, ns)
			out := map[string]string{}
			for k, v := range libs {
				out[ns+"/"+k+".php"] = "<?php\nnamespace " + ns + ";\n" + v
			}
			return e, out
		}})
	}
	vis := []string{"public", "public", "public", "protected", "private"}
	// propDecls: k properties in scrambled order, each with a distinguishable default
	propDecls := func(r *vh.Rand, xs []string, mixVis, typed bool) string {
		return joinMap(xs, "", func(i int, x string) string {
			v := "public"
			if mixVis {
				v = vh.Pick(r, vis)
			}
			ty := ""
			if typed {
				ty = vh.Pick(r, []string{"", "int ", "?int ", "int|string "})
			}
			return S("  %s %s$%s = %d;\n", v, ty, x, i+1)
		})
	}
	// the observers of an object's property order that the interpreter offers
	type observer struct{ name, code string } // code uses $o
	observers := []observer{
		{"foreach", "foreach ($o as $k => $v) { echo \"$k=$v,\"; }\necho \"\\n\";\n"},
		{"json", "echo json_encode($o), '|', json_encode(['x' => $o, 'y' => [$o]]), \"\\n\";\n"},
		{"cast-array", "$a = (array)$o;\necho implode(',', array_keys($a)), '|', array_key_first($a), '|', implode(',', $a), '|', count($a), \"\\n\";\n"},
		{"var-dump", "var_dump($o);\n"},
		{"to-string", "echo $o, \"\\n\";\n"},
		{"serialize", "echo serialize($o), \"\\n\";\n"},
		{"var-export", "var_export($o); echo '|'; var_export((array)$o); echo \"\\n\";\n"},
		{"first-key", "foreach ($o as $k => $v) { echo 'first=', $k; break; }\n$last = null; foreach ($o as $k => $v) { $last = $k; }\necho ' last=', $last, \"\\n\";\n"},
		{"clone", "$c = clone $o;\nforeach ($c as $k => $v) { echo \"$k,\"; }\necho '|', json_encode($c), \"\\n\";\n"},
		{"this-foreach", "echo $o->walk(), \"\\n\";\n"},
	}
	walk := "  function walk() { $s = ''; foreach ($this as $k => $v) { $s .= $k . ':' . $v . ','; } return $s . json_encode($this); }\n"
	for _, ob := range observers {
		ob := ob
		cls("ord-props-"+ob.name, func(r *vh.Rand, u, ns string) (string, map[string]string) {
			xs := scrambled(r, n(r, 3, 6))
			exp := strings.Join(xs, ",")
			switch ob.name {
			case "first-key":
				exp = "first=" + xs[0]
			case "var-export": // prints the values only: 1, 2, 3 … in declaration order
				exp = "=> 1,=> 2,=> 3"
			}
			return expectLine(exp) + S("$o = new \\%s\\Rec();\n", ns) + ob.code,
				map[string]string{"Rec": "class Rec {\n" + propDecls(r, xs, false, false) + walk + "}\n"}
		})
	}
	cls("ord-props-visibility-typed", func(r *vh.Rand, u, ns string) (string, map[string]string) {
		xs := scrambled(r, n(r, 4, 7))
		return expectLine(strings.Join(xs, ",")) + S("$o = new \\%s\\Rec();\nforeach ($o as $k => $v) { echo \"$k,\"; }\necho '|', json_encode($o), '|', $o->walk(), \"\\n\";\nvar_dump($o);\n", ns),
			map[string]string{"Rec": "class Rec {\n" + propDecls(r, xs, true, true) + walk + "}\n"}
	})
	cls("ord-props-no-default", func(r *vh.Rand, u, ns string) (string, map[string]string) {
		xs := scrambled(r, 5)
		decl := joinMap(xs, "", func(i int, x string) string {
			if i%2 == 0 {
				return S("  public $%s;\n", x)
			}
			return S("  public $%s = [%d, 'k' => %s];\n", x, i, q(x))
		})
		return expectLine(xs[1]+","+xs[3]) + S("$o = new \\%s\\Rec();\nforeach ($o as $k => $v) { echo \"$k,\"; }\necho '|', json_encode($o), \"\\n\";\n$o->%s = 'set'; $o->%s = 'set2';\necho json_encode($o), \"\\n\";\n", ns, xs[4], xs[0]),
			map[string]string{"Rec": "class Rec {\n" + decl + "}\n"}
	})
	cls("ord-props-ctor-assign", func(r *vh.Rand, u, ns string) (string, map[string]string) {
		xs := scrambled(r, 4)
		// the constructor assigns in an order different from the declaration
		asg := S("$this->%s = $a; $this->%s = $b; $this->%s = $a . $b; $this->%s = 0;", xs[3], xs[1], xs[0], xs[2])
		return expectLine(S("%s,%s,%s,%s", xs[3], xs[1], xs[0], xs[2])) + S("$o = new \\%s\\Rec('A', 'B');\nforeach ($o as $k => $v) { echo \"$k=$v,\"; }\necho '|', json_encode($o), \"\\n\";\n", ns),
			map[string]string{"Rec": "class Rec {\n" + joinMap(xs, "", func(_ int, x string) string { return S("  public $%s;\n", x) }) + "  function __construct($a, $b) { " + asg + " }\n}\n"}
	})
	cls("ord-props-promoted", func(r *vh.Rand, u, ns string) (string, map[string]string) {
		xs := scrambled(r, 3)
		ys := scrambled(r, 3)
		for i := range ys {
			ys[i] = "d" + ys[i]
		}
		return expectLine(strings.Join(xs, ",")) + S("$o = new \\%s\\Rec(1, 2, 3);\nforeach ($o as $k => $v) { echo \"$k=$v,\"; }\necho '|', json_encode($o), \"\\n\";\n", ns),
			map[string]string{"Rec": "class Rec {\n" + propDecls(r, ys, false, false) + "  function __construct(" + joinMap(xs, ", ", func(_ int, x string) string { return "public $" + x }) + ") {}\n}\n"}
	})
	cls("ord-props-dynamic-after-declared", func(r *vh.Rand, u, ns string) (string, map[string]string) {
		xs := scrambled(r, 3)
		ys := scrambled(r, 3)
		for i := range ys {
			ys[i] = "x" + ys[i]
		}
		return expectLine(strings.Join(xs, ",")) + S("$o = new \\%s\\Rec();\n%s\nforeach ($o as $k => $v) { echo \"$k,\"; }\necho '|', json_encode($o), \"\\n\";\n", ns,
				joinMap(ys, " ", func(i int, y string) string { return S("$o->%s = %d;", y, i) })),
			map[string]string{"Rec": "class Rec {\n" + propDecls(r, xs, false, false) + "}\n"}
	})
	cls("ord-props-abstract-class", func(r *vh.Rand, u, ns string) (string, map[string]string) {
		xs := scrambled(r, 4)
		ys := scrambled(r, 3)
		for i := range ys {
			ys[i] = "k" + ys[i]
		}
		return expectLine(strings.Join(ys, ",")) + S("$o = new \\%s\\Kid();\nforeach ($o as $k => $v) { echo \"$k,\"; }\necho '|', json_encode($o), '|', $o->walk(), \"\\n\";\n", ns),
			map[string]string{
				"Base": "abstract class Base {\n" + propDecls(r, xs, false, false) + "  abstract function tag();\n" + walk + "}\n",
				"Kid":  "class Kid extends Base {\n" + propDecls(r, ys, false, false) + "  function tag() { return 'kid'; }\n}\n",
			}
	})
	cls("ord-props-inherited", func(r *vh.Rand, u, ns string) (string, map[string]string) {
		xs := scrambled(r, 3)
		ys := scrambled(r, 3)
		zs := scrambled(r, 3)
		for i := range ys {
			ys[i] = "m" + ys[i]
			zs[i] = "z" + zs[i]
		}
		return expectLine(strings.Join(zs, ",")) + S("$o = new \\%s\\C3();\nforeach ($o as $k => $v) { echo \"$k,\"; }\necho '|', json_encode($o), \"\\n\";\n$p = new \\%s\\C2();\necho json_encode($p), \"\\n\";\n", ns, ns),
			map[string]string{
				"C1": "class C1 {\n" + propDecls(r, xs, false, false) + "}\n",
				"C2": "class C2 extends C1 {\n" + propDecls(r, ys, false, false) + "}\n",
				"C3": "class C3 extends C2 {\n" + propDecls(r, zs, false, false) + "}\n",
			}
	})
	cls("ord-props-trait", func(r *vh.Rand, u, ns string) (string, map[string]string) {
		xs := scrambled(r, 3)
		ys := scrambled(r, 3)
		for i := range ys {
			ys[i] = "t" + ys[i]
		}
		return expectLine(strings.Join(ys, ",")) + S("$o = new \\%s\\Host();\nforeach ($o as $k => $v) { echo \"$k,\"; }\necho '|', json_encode($o), \"\\n\";\n", ns),
			map[string]string{
				"Mix":  "trait Mix {\n" + propDecls(r, ys, false, false) + "}\n",
				"Host": "class Host {\n  use Mix;\n" + propDecls(r, xs, false, false) + "}\n",
			}
	})
	cls("ord-props-nested-objects", func(r *vh.Rand, u, ns string) (string, map[string]string) {
		xs := scrambled(r, 3)
		ys := scrambled(r, 4)
		return expectLine(strings.Join(ys, ",")) + S("$o = new \\%s\\Outer();\necho json_encode($o), \"\\n\";\nforeach ($o->%s as $k => $v) { echo \"$k,\"; }\necho \"\\n\";\n", ns, xs[1]),
			map[string]string{
				"Inner": "class Inner {\n" + propDecls(r, ys, false, false) + "}\n",
				"Outer": "class Outer {\n" + joinMap(xs, "", func(i int, x string) string { return S("  public $%s = %d;\n", x, i) }) + S("  function __construct() { $this->%s = new Inner(); }\n}\n", xs[1]),
			}
	})
	cls("ord-two-classes-same-names", func(r *vh.Rand, u, ns string) (string, map[string]string) {
		// the same property names in two different orders: the order belongs to the class, not to the names
		xs := scrambled(r, 4)
		ys := []string{xs[2], xs[0], xs[3], xs[1]}
		return expectLine(strings.Join(xs, ",")) + S("echo json_encode(new \\%s\\A1()), json_encode(new \\%s\\A2()), \"\\n\";\nforeach (new \\%s\\A1() as $k => $v) { echo \"$k,\"; }\necho '|';\nforeach (new \\%s\\A2() as $k => $v) { echo \"$k,\"; }\necho \"\\n\";\n", ns, ns, ns, ns),
			map[string]string{
				"A1": "class A1 {\n" + propDecls(r, xs, false, false) + "}\n",
				"A2": "class A2 {\n" + propDecls(r, ys, false, false) + "}\n",
			}
	})
	cls("ord-method-params-args", func(r *vh.Rand, u, ns string) (string, map[string]string) {
		xs := scrambled(r, 4)
		ps := joinMap(xs, ", ", func(_ int, x string) string { return "$" + x })
		show := joinMap(xs, " ", func(_ int, x string) string { return x + "=$" + x })
		return expectLine(joinMap(xs, " ", func(i int, x string) string { return S("%s=%d", x, i+1) })) + tr(u) +
				S("use %s\\Svc;\n$s = new Svc(1, 2, 3, 4);\necho $s->shown, '|', $s->m(1, 2, 3, 4), '|', Svc::sm(1, 2, 3, 4), '|', $s->m(t_%s(1), t_%s(2), t_%s(3), t_%s(4)), '|', Svc::make(4, 3, 2, 1)->shown, '|', Svc::mk2(5, 6, 7, 8)->shown;\n$cn = '%s\\\\Svc'; $d = new $cn(9, 8, 7, 6);\necho '|', $d->shown, \"\\n\";\n", ns, u, u, u, u, ns),
			map[string]string{"Svc": S("class Svc {\n  public $shown;\n  function __construct(%s) { $this->shown = \"%s\"; }\n  function m(%s) { return \"%s\"; }\n  static function sm(%s) { return \"%s\"; }\n  static function make(%s) { return new static(%s); }\n  static function mk2(%s) { return new self(%s); }\n}\n", ps, show, ps, show, ps, show, ps, ps, ps, ps)}
	})
	cls("ord-method-body-chain", func(r *vh.Rand, u, ns string) (string, map[string]string) {
		xs := scrambled(r, 4)
		return expectLine(strings.Join(xs, ",")) +
				S("$b = new \\%s\\Bld();\necho $b%s->out(), '|', $b->seq(), \"\\n\";\n", ns, joinMap(xs, "", func(_ int, x string) string { return S("->add(%s)", q(x)) })),
			map[string]string{"Bld": S("class Bld {\n  private $acc = [];\n  function add($x) { $this->acc[] = $x; return $this; }\n  function out() { return implode(',', $this->acc); }\n  function seq() { $s = ''; %s return $s; }\n}\n",
				joinMap(xs, " ", func(_ int, x string) string { return S("$s .= %s;", q(x+";")) }))}
	})
	cls("ord-implements-builtin", func(r *vh.Rand, u, ns string) (string, map[string]string) {
		ifs := []string{"\\Countable", "\\JsonSerializable", "\\IteratorAggregate"}
		off := n(r, 0, 2)
		list := []string{ifs[(1+off)%3], ifs[off%3], ifs[(2+off)%3]}
		xs := scrambled(r, 3)
		return expectLine("") + S("$o = new \\%s\\Bag();\necho count($o), json_encode($o), implode(',', class_implements($o)), $o instanceof \\Countable ? 'C' : 'c';\nforeach ($o as $k => $v) { echo \" $k=$v\"; }\necho \"\\n\";\n", ns),
			map[string]string{"Bag": S("class Bag implements %s {\n  private $d = [%s];\n  function count(): int { return count($this->d); }\n  function jsonSerialize(): mixed { return $this->d; }\n  function getIterator(): \\Iterator { return new \\ArrayIterator($this->d); }\n}\n", strings.Join(list, ", "),
				joinMap(xs, ", ", func(i int, x string) string { return S("%s => %d", q(x), i) }))}
	})
	cls("ord-use-list", func(r *vh.Rand, u, ns string) (string, map[string]string) {
		xs := scrambled(r, 3)
		C := func(x string) string { return strings.ToUpper(x[:1]) + x[1:] }
		libs := map[string]string{}
		for _, x := range xs {
			libs[C(x)] = S("class %s {\n  function who() { return %s; }\n}\n", C(x), q(x))
		}
		return expectLine(strings.Join(xs, ",")) +
			joinMap(xs, "", func(_ int, x string) string { return S("use %s\\%s;\n", ns, C(x)) }) +
			S("echo %s, \"\\n\";\n", joinMap(xs, ", ',', ", func(_ int, x string) string { return S("(new %s())->who()", C(x)) })), libs
	})
}
