package c16

// Scalar payloads. The generated program rebuilds every scalar of the AST (the
// text of a string literal, an interpolation part, an inline-HTML block, a
// default value, an int / float / bool literal, a name) from Go SOURCE TEXT the
// generator prints; a generator that prints a scalar in a form whose meaning
// depends on the value (a raw string literal for "readable" multi-line text, a
// verb that rounds, a literal that picks up the printer's indentation, an
// escape that Go reads differently) yields a program that builds and runs and
// carries a slightly different value. The features of the rest of the alphabet
// vary WHICH fields reach the generated program, hardly the VALUES they carry.
// This file varies the values: every payload class
//
//	strings: 0 / 1 / 2 / 3 / many newlines (leading, trailing, consecutive),
//	  text that itself has tabs / blanks after newlines, tab, backtick,
//	  backslash (also before n, at the end), both quotes, `$`, `{$`, `${`,
//	  printf verbs, NUL and other control bytes, CR and CRLF, invalid UTF-8
//	  (stray byte, truncated sequence, surrogate, overlong), multi-byte text,
//	  non-printable runes, U+FFFD, Go and PHP syntax look-alikes, the heredoc
//	  marker, the empty string, very long text, very many lines;
//	ints at the 7/8/15/16/31/32/53/63-bit boundaries, negative, in every base;
//	floats (0.1, 1.0, 1e21, 1e308, 5e-324, -0.0, 17 significant digits,
//	  INF / NAN through expressions), bools, null;
//	names (variables, functions, parameters, properties, methods, constants,
//	  array keys, dynamic property names) with unusual but legal characters
//
// x every literal FORM of the language (escaped in double quotes, real newlines
// in double and in single quotes, heredoc, nowdoc, indented closing marker,
// interpolated string / heredoc whose parts carry the newlines, inline HTML)
// x every NESTING context of the generator (top level, nested blocks, function,
// closure, closure in closure, generator, catch / finally, switch, array
// element, nested call argument, parameter / closure default, static variable,
// const / define, return, ternary / ?? / match operands, arrow function, case
// label, array key, dynamic property name, exception message, and — in library
// classes — property default, method body, static method, parameter default,
// promoted constructor parameter, closure in a method, trait method), observed
// through echo, strlen, md5, bin2hex, json_encode, var_dump.
//
// A program of a `sc-*` feature is made of many independent PARTS (one payload
// in one form in one context, with its own observer function); when the two
// runs differ, the parts whose output segments differ are re-run alone in the
// shrink batch, so the replay is one payload in one context. Every exact part
// carries `// sc-expect: <id> <len> <md5>`; judge() counts whether the
// interpreted run shows that value (`sc:effective` / `sc:ineffective:<form>`):
// a literal form the interpreter reads differently shows in the evidence
// instead of silently testing another value. The oracle stays the interpreted
// run.

import (
	"crypto/md5"
	"encoding/hex"
	"fmt"
	"os"
	"sort"
	"strconv"
	"strings"
	"unicode/utf8"

	"verif/harness/vh"
)

// scFull: thorough tier. The programs have the same size in both tiers (one generated function per
// program: a very large one dominates the build); thorough runs ten programs of every feature, the string
// programs rotate the shape-special pairing from program to program (nine meet the whole cross product),
// contexts and library-class samples are redrawn each time.
var scFull bool

type scVal struct {
	Name string // "<shape>.<special>"
	V    string
}

type scSpecial struct{ name, x string }

var scSpecials = []scSpecial{
	{"plain", ""}, {"tab", "\t"}, {"bt", "`"}, {"bt3", "```go"}, {"bs", "\\"}, {"bsn", "\\n\\t"}, {"bs2", "\\\\"},
	{"dq", "\""}, {"sq", "'"}, {"dollar", "$"}, {"var", "$s"}, {"brace", "{$s}"}, {"dbrace", "${s}"},
	{"pct", "%d%s%%%q%!"}, {"nul", "\x00"}, {"ctl", "\x01\x1b\x7f\x08\x0c\x0b"}, {"cr", "\r"}, {"crlf", "a\r\nb"},
	{"inv", "\xff\xfe"}, {"trunc", "\xc3"}, {"sur", "\xed\xa0\x80"}, {"overlong", "\xc0\x80"},
	{"mb", "é中😀"}, {"np", "\u2028\u00ad\ufeff\u0085"}, {"repl", "\ufffd"},
	{"gosyn", "\" + \""}, {"comment", "// x /* y */"}, {"phpclose", "?>"}, {"phpopen", "<?php "}, {"semi", "';\""},
	{"marker", "SCEND"}, {"hash", "#"}, {"uesc", "\\u0041\\x41\\101"}, {"blank", " "},
}

type scShape struct {
	name string
	f    func(x string) string
}

var scShapes = []scShape{
	{"nl0", func(x string) string { return "p" + x + "q" }},
	{"nl1", func(x string) string { return "p\n" + x + "q" }},
	{"nl1e", func(x string) string { return "p" + x + "\n" }},
	{"nl2", func(x string) string { return "p\n" + x + "\nq" }},
	{"nl2e", func(x string) string { return "p" + x + "\n\n" }},
	{"nl2s", func(x string) string { return "\n\n" + x + "q" }},
	{"nl3", func(x string) string { return "p\nq " + x + "\nr\n" }},
	{"ind", func(x string) string { return "p\n\t" + x + "\n\t\tq\n    r" }},
	{"many", func(x string) string {
		var sb strings.Builder
		for i := 0; i < 12; i++ {
			fmt.Fprintf(&sb, "row%d", i)
			if i%5 == 0 {
				sb.WriteString(" " + x)
			}
			sb.WriteString("\n")
		}
		return sb.String()
	}},
}

var scExtras = []scVal{
	{"empty", ""}, {"zero", "0"}, {"space", " "}, {"nl", "\n"}, {"nlnl", "\n\n"}, {"nlnlnl", "\n\n\n"}, {"tabonly", "\t"},
	{"nltab", "\n\t\n\t\t\n"}, {"blanklines", " \n \n "}, {"bsend", "a\nb\nc\\"}, {"btonly", "`"}, {"dqonly", "\""},
	{"long", strings.Repeat("abcdefghij", 1500)},
	{"longlines", strings.Repeat("line of text\n", 900)},
	{"longmixed", strings.Repeat("a\tb\\c\"d'e$f`g\n", 300)},
}

// scValues: the payloads of one program. full: the whole cross product (structural probe); else a
// stratified sample (every special once, the shape rotating with `rot`, every shape at least 3 times)
// plus the extras.
func scValues(rot int, full bool) []scVal {
	var out []scVal
	if full {
		for _, sh := range scShapes {
			for _, sp := range scSpecials {
				out = append(out, scVal{sh.name + "." + sp.name, sh.f(sp.x)})
			}
		}
	} else {
		for j, sp := range scSpecials {
			sh := scShapes[(j+rot)%len(scShapes)]
			out = append(out, scVal{sh.name + "." + sp.name, sh.f(sp.x)})
			if j%5 == rot%5 {
				sh2 := scShapes[(j+rot+4)%len(scShapes)]
				out = append(out, scVal{sh2.name + "." + sp.name, sh2.f(sp.x)})
			}
		}
	}
	return append(out, scExtras...)
}

// ------------------------------------------------------------ literal forms

const scMarker = "SCEND"

func hasMarkerLine(v string) bool {
	for _, l := range strings.Split(v, "\n") {
		if strings.HasPrefix(strings.TrimLeft(l, " \t"), scMarker) {
			return true
		}
	}
	return false
}

// dqBytes renders v inside double quotes (or a heredoc body when heredoc) so that the interpreter's
// unescaping yields v: `\\`, `\$`, (`\"`), \xHH for everything that is not printable ASCII;
// realNL: newline and tab are written as themselves; rawMB: valid multi-byte runes as themselves.
func dqBytes(v string, realNL, rawMB, heredoc bool) string {
	var sb strings.Builder
	for i := 0; i < len(v); {
		c := v[i]
		switch {
		case c == '\\':
			sb.WriteString("\\\\")
		case c == '$':
			sb.WriteString("\\$")
		case c == '"' && !heredoc:
			sb.WriteString("\\\"")
		case c == '\n' && realNL, c == '\t' && realNL:
			sb.WriteByte(c)
		case c == '\n':
			sb.WriteString("\\n")
		case c == '\t':
			sb.WriteString("\\t")
		case c == '\r' && !realNL:
			sb.WriteString("\\r")
		case c >= 0x20 && c < 0x7f:
			sb.WriteByte(c)
		case c >= 0x80 && rawMB:
			r, w := utf8.DecodeRuneInString(v[i:])
			if r != utf8.RuneError || w > 1 {
				sb.WriteString(v[i : i+w])
				i += w
				continue
			}
			fmt.Fprintf(&sb, "\\x%02x", c)
		default:
			fmt.Fprintf(&sb, "\\x%02X", c)
		}
		i++
	}
	return sb.String()
}

type scForm struct {
	name string
	// render: expr = the literal as an expression ("" when the form is a statement form);
	// assign(lhs) = statements that store the value in lhs; want = the value the literal denotes
	render func(v string) (expr string, assign func(lhs string) string, want string, ok bool)
}

func exprForm(name string, lit func(v string) (string, string, bool)) scForm {
	return scForm{name, func(v string) (string, func(string) string, string, bool) {
		e, want, ok := lit(v)
		if !ok {
			return "", nil, "", false
		}
		return e, func(lhs string) string { return lhs + " = " + e + ";\n" }, want, true
	}}
}

// split3 cuts v at two rune boundaries near the thirds (the chunks of an interpolated string).
func split3(v string) (string, string, string) {
	cut := func(at int) int {
		for at < len(v) && at > 0 && !utf8.RuneStart(v[at]) {
			at++
		}
		return at
	}
	a, b := cut(len(v)/3), cut(2*len(v)/3)
	if b < a {
		b = a
	}
	return v[:a], v[a:b], v[b:]
}

const scInterp = "~S~"

// interpBody: c1 {$s} c2 $s c3 — the simple form only where the next byte cannot extend the variable
func interpBody(v string, realNL, heredoc bool) (string, string) {
	c1, c2, c3 := split3(v)
	second := "$s"
	if len(c3) > 0 {
		n := c3[0]
		if n == '[' || n == '-' || n == '_' || n >= 0x80 || n == ':' || (n >= '0' && n <= '9') || (n >= 'a' && n <= 'z') || (n >= 'A' && n <= 'Z') {
			second = "{$s}"
		}
	}
	return dqBytes(c1, realNL, true, heredoc) + "{$s}" + dqBytes(c2, realNL, true, heredoc) + second + dqBytes(c3, realNL, true, heredoc),
		c1 + scInterp + c2 + scInterp + c3
}

func indent4(v string) string {
	ls := strings.Split(v, "\n")
	for i := range ls {
		ls[i] = "    " + ls[i]
	}
	return strings.Join(ls, "\n")
}

var scForms = []scForm{
	exprForm("dq-esc", func(v string) (string, string, bool) { return "\"" + dqBytes(v, false, false, false) + "\"", v, true }),
	exprForm("dq-real", func(v string) (string, string, bool) { return "\"" + dqBytes(v, true, true, false) + "\"", v, true }),
	exprForm("sq", func(v string) (string, string, bool) {
		if !utf8.ValidString(v) || strings.ContainsAny(v, "\x00") {
			return "", "", false
		}
		return "'" + strings.ReplaceAll(strings.ReplaceAll(v, "\\", "\\\\"), "'", "\\'") + "'", v, true
	}),
	{"dq-interp", func(v string) (string, func(string) string, string, bool) {
		if len(v) < 3 {
			return "", nil, "", false
		}
		body, want := interpBody(v, true, false)
		return "", func(lhs string) string { return "$s = '" + scInterp + "';\n" + lhs + " = \"" + body + "\";\n" }, want, true
	}},
	{"heredoc", func(v string) (string, func(string) string, string, bool) {
		if v == "" || hasMarkerLine(v) {
			return "", nil, "", false
		}
		return "", func(lhs string) string {
			return lhs + " = <<<" + scMarker + "\n" + dqBytes(v, true, true, true) + "\n" + scMarker + ";\n"
		}, v, true
	}},
	{"heredoc-interp", func(v string) (string, func(string) string, string, bool) {
		if len(v) < 3 || hasMarkerLine(v) {
			return "", nil, "", false
		}
		body, want := interpBody(v, true, true)
		return "", func(lhs string) string {
			return "$s = '" + scInterp + "';\n" + lhs + " = <<<" + scMarker + "\n" + body + "\n" + scMarker + ";\n"
		}, want, true
	}},
	{"heredoc-indented", func(v string) (string, func(string) string, string, bool) {
		if v == "" || hasMarkerLine(v) {
			return "", nil, "", false
		}
		// closing marker indented: this interpreter keeps the indentation of the body (PHP removes it)
		w := indent4(v)
		return "", func(lhs string) string {
			return lhs + " = <<<" + scMarker + "\n" + dqBytes(w, true, true, true) + "\n    " + scMarker + ";\n"
		}, w, true
	}},
	{"nowdoc", func(v string) (string, func(string) string, string, bool) {
		if v == "" || hasMarkerLine(v) || !utf8.ValidString(v) || strings.ContainsAny(v, "\x00") {
			return "", nil, "", false
		}
		return "", func(lhs string) string { return lhs + " = <<<'" + scMarker + "'\n" + v + "\n" + scMarker + ";\n" }, v, true
	}},
	{"nowdoc-indented", func(v string) (string, func(string) string, string, bool) {
		if v == "" || hasMarkerLine(v) || !utf8.ValidString(v) || strings.ContainsAny(v, "\x00") {
			return "", nil, "", false
		}
		w := indent4(v)
		return "", func(lhs string) string { return lhs + " = <<<'" + scMarker + "'\n" + w + "\n    " + scMarker + ";\n" }, w, true
	}},
	{"html", func(v string) (string, func(string) string, string, bool) {
		if v == "" || !utf8.ValidString(v) || strings.Contains(v, "<?") || strings.ContainsAny(v, "\x00") {
			return "", nil, "", false
		}
		return "", func(lhs string) string { return "ob_start(); ?>" + v + "<?php " + lhs + " = ob_get_clean();\n" }, v, true
	}},
}

// ------------------------------------------------------------ contexts

type scCtx struct {
	name  string
	expr  bool // needs the literal as an expression
	exact bool // the observer receives the value unchanged
	str   bool // only meaningful for strings
	num   bool // only meaningful for numbers
	gen   func(u string, assign func(string) string, e string) string
}

func obCall(u, arg string) string { return "ob_" + u + "(" + arg + ");\n" }

var scCtxs = []scCtx{
	{name: "top", exact: true, gen: func(u string, as func(string) string, e string) string { return as("$v") + obCall(u, "$v") }},
	{name: "blocks", exact: true, gen: func(u string, as func(string) string, e string) string {
		return "if (true) { for ($i = 0; $i < 1; $i++) { while (true) {\n" + as("$v") + obCall(u, "$v") + "break; } } }\n"
	}},
	{name: "func", exact: true, gen: func(u string, as func(string) string, e string) string {
		return "function f_" + u + "() {\n" + as("$v") + "return $v; }\n" + obCall(u, "f_"+u+"()")
	}},
	{name: "funcblocks", exact: true, gen: func(u string, as func(string) string, e string) string {
		return "function f_" + u + "($k) { foreach ([1] as $x) { switch ($k) { case 1: try { if ($k) {\n" + as("$v") + "return $v; } } finally { } } } }\n" + obCall(u, "f_"+u+"(1)")
	}},
	{name: "closure", exact: true, gen: func(u string, as func(string) string, e string) string {
		return "$f_" + u + " = function() {\n" + as("$v") + "return $v; };\n" + obCall(u, "$f_"+u+"()")
	}},
	{name: "closure3", exact: true, gen: func(u string, as func(string) string, e string) string {
		return "function f_" + u + "() { return function() { return function() { if (true) {\n" + as("$v") + "return $v; } }; }; }\n$g = f_" + u + "(); $h = $g();\n" + obCall(u, "$h()")
	}},
	{name: "generator", exact: true, gen: func(u string, as func(string) string, e string) string {
		return "function f_" + u + "() {\n" + as("$v") + "yield $v; }\nforeach (f_" + u + "() as $v) { " + obCall(u, "$v") + "}\n"
	}},
	{name: "catch-finally", exact: true, gen: func(u string, as func(string) string, e string) string {
		return "try { throw new Exception('x'); } catch (Exception $e) {\n" + as("$v") + obCall(u, "$v") + "} finally {\n" + as("$w") + obCall(u, "$w") + "}\n"
	}},
	{name: "switch", exact: true, gen: func(u string, as func(string) string, e string) string {
		return "switch (1) { case 1:\n" + as("$v") + obCall(u, "$v") + "break; }\n"
	}},
	{name: "index-store", exact: true, gen: func(u string, as func(string) string, e string) string {
		return "$a_" + u + " = [];\n" + as("$a_"+u+"['k'][]") + obCall(u, "$a_"+u+"['k'][0]")
	}},
	// ---- expression positions
	{name: "echo", expr: true, gen: func(u string, as func(string) string, e string) string {
		return "echo \"#" + u + "|echo|\", " + e + ", \"|\\n\";\n"
	}},
	{name: "arg", expr: true, exact: true, gen: func(u string, as func(string) string, e string) string { return obCall(u, e) }},
	{name: "arg3", expr: true, exact: true, gen: func(u string, as func(string) string, e string) string {
		return "function id_" + u + "($x) { return $x; }\n" + obCall(u, "id_"+u+"(id_"+u+"(id_"+u+"("+e+")))")
	}},
	{name: "array-elem", expr: true, exact: true, gen: func(u string, as func(string) string, e string) string {
		return "$a = [[1, ['k' => [" + e + "]]]];\n" + obCall(u, "$a[0][1]['k'][0]")
	}},
	{name: "array-key", expr: true, str: true, gen: func(u string, as func(string) string, e string) string {
		return "$a = [" + e + " => 1];\nforeach ($a as $k => $x) { " + obCall(u, "$k") + "}\n"
	}},
	{name: "param-default", expr: true, exact: true, gen: func(u string, as func(string) string, e string) string {
		return "function f_" + u + "($a = " + e + ") { return $a; }\n" + obCall(u, "f_"+u+"()")
	}},
	{name: "closure-default", expr: true, exact: true, gen: func(u string, as func(string) string, e string) string {
		return "$f = function($a = " + e + ") { return $a; };\n" + obCall(u, "$f()")
	}},
	{name: "static-var", expr: true, exact: true, gen: func(u string, as func(string) string, e string) string {
		return "function f_" + u + "() { static $s = " + e + "; return $s; }\n" + obCall(u, "f_"+u+"()")
	}},
	{name: "const", expr: true, exact: true, gen: func(u string, as func(string) string, e string) string {
		return "const C_" + u + " = " + e + ";\n" + obCall(u, "C_"+u)
	}},
	// define() of this interpreter refuses some values silently (the name then reads as a string): not exact
	{name: "define", expr: true, gen: func(u string, as func(string) string, e string) string {
		return "define('D_" + u + "', " + e + ");\n" + obCall(u, "D_"+u)
	}},
	{name: "return", expr: true, exact: true, gen: func(u string, as func(string) string, e string) string {
		return "function f_" + u + "() { return " + e + "; }\n" + obCall(u, "f_"+u+"()")
	}},
	{name: "ternary", expr: true, exact: true, gen: func(u string, as func(string) string, e string) string {
		return "$t = 1;\n" + obCall(u, "$t ? "+e+" : 'no'")
	}},
	{name: "coalesce", expr: true, exact: true, gen: func(u string, as func(string) string, e string) string {
		return "$z = null;\n" + obCall(u, "$z ?? "+e)
	}},
	{name: "concat", expr: true, exact: true, str: true, gen: func(u string, as func(string) string, e string) string {
		return obCall(u, "'' . "+e)
	}},
	{name: "match-arm", expr: true, exact: true, gen: func(u string, as func(string) string, e string) string {
		return obCall(u, "match(true) { default => "+e+" }")
	}},
	{name: "case-label", expr: true, gen: func(u string, as func(string) string, e string) string {
		return "switch (" + e + ") { case " + e + ": echo \"#" + u + "|case-hit|\\n\"; break; default: echo \"#" + u + "|case-miss|\\n\"; }\n"
	}},
	{name: "arrow", expr: true, exact: true, gen: func(u string, as func(string) string, e string) string {
		return "$f = fn() => " + e + ";\n" + obCall(u, "$f()")
	}},
	{name: "identical", expr: true, gen: func(u string, as func(string) string, e string) string {
		return "$v = " + e + ";\necho \"#" + u + "|identical|\", $v === " + e + " ? 'same' : 'diff', \"|\\n\";\n"
	}},
	{name: "exception-message", expr: true, exact: true, str: true, gen: func(u string, as func(string) string, e string) string {
		return "try { throw new Exception(" + e + "); } catch (Exception $e) { " + obCall(u, "$e->getMessage()") + "}\n"
	}},
	{name: "dynamic-property", expr: true, str: true, gen: func(u string, as func(string) string, e string) string {
		return "$o = new stdClass; $o->{" + e + "} = 1;\nforeach ($o as $k => $x) { " + obCall(u, "$k") + "}\necho json_encode($o), \"\\n\";\n"
	}},
	{name: "destructure", expr: true, exact: true, gen: func(u string, as func(string) string, e string) string {
		return "[$p, $q] = [" + e + ", 1];\n" + obCall(u, "$p")
	}},
	{name: "append-assign", expr: true, str: true, gen: func(u string, as func(string) string, e string) string {
		return "$s = 'x'; $s .= " + e + ";\n" + obCall(u, "$s")
	}},
	// ---- positions that only take numbers (specialised nodes of the fast paths)
	{name: "fast-assign", expr: true, num: true, gen: func(u string, as func(string) string, e string) string {
		return "$a = 3; $c = $a + " + e + "; $d = " + e + " * $a; $g = $a - " + e + "; $h = " + e + ";\n" + obCall(u, "$c") + obCall(u, "$d") + obCall(u, "$g") + obCall(u, "$h")
	}},
	{name: "for-le", expr: true, num: true, gen: func(u string, as func(string) string, e string) string {
		return "$n = 0; $m = 0;\nfor ($i = 0; $i <= " + e + "; $i++) { $n++; if ($n > 3) { break; } }\nfor ($i = 0; $i < " + e + "; $i++) { $m++; if ($m > 3) { break; } }\n" + obCall(u, "$n * 10 + $m")
	}},
	{name: "compound-ops", expr: true, num: true, gen: func(u string, as func(string) string, e string) string {
		return "$x = 1; $x += " + e + "; $y = 1; $y -= " + e + "; $z = 2; $z *= " + e + ";\n" + obCall(u, "$x") + obCall(u, "$y") + obCall(u, "$z") + obCall(u, e+" <=> 1") + obCall(u, "-"+e)
	}},
}

func scObDef(u string, str bool) string {
	if str {
		return "function ob_" + u + "($v) { echo \"#" + u + "|\", strlen($v), \"|\", md5($v), \"|\", bin2hex($v), \"|\", json_encode($v), \"|\", $v, \"|\\n\"; }\n"
	}
	return "function ob_" + u + "($v) { echo \"#" + u + "|\"; var_dump($v); echo \"|\", json_encode($v), \"|\", json_encode([$v, 'k' => $v]), \"|\", $v, \"|\", $v . '', \"|\\n\"; }\n"
}

func scExpect(u, want string) string {
	sum := md5.Sum([]byte(want))
	return fmt.Sprintf("// sc-expect: %s %d %s\n", u, len(want), hex.EncodeToString(sum[:]))
}

// scPart: one payload in one form in one context, self-contained.
func scPart(u string, form scForm, v scVal, ctx scCtx) (string, bool) {
	e, as, want, ok := form.render(v.V)
	if !ok || (ctx.expr && e == "") || ctx.num {
		return "", false
	}
	src := "// sc: " + form.name + " / " + v.Name + " / " + ctx.name + "\n"
	if ctx.exact {
		src += scExpect(u, want)
	}
	return src + scObDef(u, true) + ctx.gen(u, as, e), true
}

func scCtxFor(r *vh.Rand, needStmt bool, str bool) scCtx {
	for {
		c := vh.Pick(r, scCtxs)
		if c.num || (needStmt && c.expr) || (c.str && !str) {
			continue
		}
		return c
	}
}

// ------------------------------------------------------------ numbers, bools, null

type scNum struct{ name, lit string }

func scInts() []scNum {
	out := []scNum{{"0", "0"}, {"1", "1"}, {"10", "10"}, {"neg1", "-1"}, {"hexff", "0xFF"}, {"hex7f", "0x7fffffffffffffff"}, {"oct", "0777"}, {"oct0", "00"},
		{"bin", "0b11111111"}, {"underscore", "1_000_000"}, {"over63", "9223372036854775808"}, {"negmin", "-9223372036854775808"}, {"negminexpr", "-9223372036854775807 - 1"},
		{"negspace", "- 5"}, {"negparen", "-(7)"}, {"leadzero9", "09"}}
	for _, k := range []uint{7, 8, 15, 16, 31, 32, 53, 63} {
		p := uint64(1) << k
		out = append(out, scNum{fmt.Sprintf("2p%d-1", k), strconv.FormatUint(p-1, 10)})
		if k < 63 {
			out = append(out, scNum{fmt.Sprintf("2p%d", k), strconv.FormatUint(p, 10)}, scNum{fmt.Sprintf("2p%d+1", k), strconv.FormatUint(p+1, 10)},
				scNum{fmt.Sprintf("-2p%d", k), "-" + strconv.FormatUint(p, 10)}, scNum{fmt.Sprintf("-2p%d-1", k), "-" + strconv.FormatUint(p+1, 10)})
		}
	}
	return out
}

var scFloats = []scNum{
	{"0.0", "0.0"}, {"neg0", "-0.0"}, {"0.1", "0.1"}, {"1.0", "1.0"}, {"1.5", "1.5"}, {"100.0", "100.0"}, {"1e308", "1e308"}, {"max", "1.7976931348623157e308"},
	{"5e-324", "5e-324"}, {"4.9e-324", "4.9e-324"}, {"minnormal", "2.2250738585072014e-308"}, {"1e20", "1e20"}, {"1e21", "1e21"}, {"1e22", "1e22"},
	{"18digits", "123456789012345678.0"}, {"2p53+1", "9007199254740993.0"}, {"17sig", "0.30000000000000004"}, {"1E-10", "1E-10"}, {"1e-5", "1e-5"}, {"0.0001", "0.0001"},
	{"1e15", "1e15"}, {"1e16", "1e16"}, {"pi", "3.141592653589793"}, {"overflow", "1e999"}, {"avogadro", "6.02e23"}, {"2.5e-3", "2.5e-3"}, {"1e0", "1e0"}, {"0e0", "0e0"},
	{"neg1.5", "-1.5"}, {"neg1e308", "-1e308"}, {"neg5e-324", "-5e-324"}, {"third", "0.3333333333333333"}, {"1e+5", "1e+5"}, {"100000.0", "100000.0"},
	{"inf-expr", "(1e308 * 10)"}, {"neginf-expr", "(-1e308 * 10)"}, {"nan-expr", "((1e308 * 10) - (1e308 * 10))"}, {"sum", "(0.1 + 0.2)"}, {"neg0-expr", "(0.0 * -1)"}, {"div", "(1 / 3)"},
}

var scConsts = []scNum{{"true", "true"}, {"false", "false"}, {"null", "null"}, {"TRUE", "TRUE"}, {"False", "False"}, {"NULL", "NULL"}, {"not", "!true"}, {"emptyarr", "[]"}}

func scNumPart(u string, kind string, v scNum, ctx scCtx) (string, bool) {
	if ctx.str || (ctx.num && kind == "const") {
		return "", false
	}
	as := func(lhs string) string { return lhs + " = " + v.lit + ";\n" }
	return "// sc: " + kind + " / " + v.name + " / " + ctx.name + "\n" + scObDef(u, false) + ctx.gen(u, as, v.lit), true
}

func scNumCtx(r *vh.Rand, kind string) scCtx {
	for {
		c := vh.Pick(r, scCtxs)
		if c.str || (c.num && kind == "const") {
			continue
		}
		return c
	}
}

// ------------------------------------------------------------ library-class contexts

// scClassPart: the payload in the positions of a library class (property default, method body, static
// method with nested blocks, parameter default, promoted constructor parameter, closure in a method),
// through a plain class or a trait.
func scClassPart(r *vh.Rand, u, ns string, formName string, e string, as func(string) string, want string, vname string, str bool) (string, map[string]string) {
	var cls, entry strings.Builder
	viaTrait := r.Chance(35)
	body := func() string {
		var b strings.Builder
		if e != "" {
			b.WriteString("  public $p = " + e + ";\n  protected $hidden = " + e + ";\n")
			b.WriteString("  function d($a = " + e + ") { return $a; }\n")
			b.WriteString("  function h() { return $this->hidden; }\n")
		}
		b.WriteString("  function m() {\n" + as("$v") + "return $v; }\n")
		b.WriteString("  static function sm($k) { if ($k) { foreach ([1] as $x) { try {\n" + as("$v") + "return $v; } finally { } } } }\n")
		b.WriteString("  function c() { $f = function() { return function() {\n" + as("$v") + "return $v; }; }; $g = $f(); return $g(); }\n")
		return b.String()
	}
	libs := map[string]string{}
	if viaTrait {
		libs[ns+"/T.php"] = "<?php\nnamespace " + ns + ";\ntrait T {\n" + body() + "}\n"
		cls.WriteString("class K {\n  use T;\n")
	} else {
		cls.WriteString("class K {\n" + body())
	}
	if e != "" {
		cls.WriteString("  function __construct(public $q = " + e + ") {}\n")
	}
	cls.WriteString("}\n")
	libs[ns+"/K.php"] = "<?php\nnamespace " + ns + ";\n" + cls.String()
	entry.WriteString("// sc: " + formName + " / " + vname + " / library class" + map[bool]string{true: " through a trait", false: ""}[viaTrait] + "\n")
	if want != "\x00none" {
		entry.WriteString(scExpect(u, want))
	}
	entry.WriteString(scObDef(u, str))
	entry.WriteString("$o_" + u + " = new \\" + ns + "\\K();\n")
	entry.WriteString(obCall(u, "$o_"+u+"->m()") + obCall(u, "\\"+ns+"\\K::sm(1)") + obCall(u, "$o_"+u+"->c()"))
	if e != "" {
		entry.WriteString(obCall(u, "$o_"+u+"->p") + obCall(u, "$o_"+u+"->h()") + obCall(u, "$o_"+u+"->d()") + obCall(u, "$o_"+u+"->q"))
		entry.WriteString("echo json_encode($o_" + u + "), \"\\n\";\n")
	}
	return entry.String(), libs
}

// ------------------------------------------------------------ names

var scIdents = []string{"_", "__", "_9", "a1_B", "é", "ñandú", "变量", "Ω_1", "ÀÉ", "x" + strings.Repeat("y", 120), "list_", "fn_", "Class_", "eCHO_"}

var scKeys = []string{"", "a b", "x\ny\nz", "l1\nl2\n\tl3\n", "0", "01", "-5", "-0", "1.5", "true", "null", " 1", "9223372036854775808", "q\"q", "s'q", "b\\s", "\x00k", "t\tt", "`bt`", "$d", "{$b}", "é中", "\xff", "a.b", "a-b", "a[0]", "k\r\n", strings.Repeat("k", 300)}

// ------------------------------------------------------------ features

type scMulti func(r *vh.Rand, u string, full bool) (parts []string, libs []map[string]string, ids []string)

var scMultis = map[string]scMulti{}

var scRot = map[string]int{}

func init() {
	add := func(f feature) { features = append(features, f) }
	single := func(m scMulti) func(r *vh.Rand, u string) (string, map[string]string) {
		// one seeded part of the multi-part program (for the mix stream and the structural snippets)
		return func(r *vh.Rand, u string) (string, map[string]string) {
			parts, libs, _ := m(r, u, false)
			if len(parts) == 0 {
				return "echo \"\\n\";\n", nil
			}
			i := r.Intn(len(parts))
			return parts[i], libs[i]
		}
	}
	multi := func(group, tag string, m scMulti) {
		scMultis[tag] = m
		add(feature{Tag: tag, Group: group, Gen: single(m)})
	}

	// strings: one feature per literal form; every payload of the (sampled / full) list, each in a seeded context
	for fi := range scForms {
		form := scForms[fi]
		fidx := fi
		multi("sc", "sc-str-"+form.name, func(r *vh.Rand, u string, full bool) (parts []string, libs []map[string]string, ids []string) {
			// the shape a special is combined with rotates from program to program of the same form:
			// nine programs (thorough: ten per form) meet the whole cross product
			if _, ok := scRot[form.name]; !ok {
				scRot[form.name] = r.Intn(len(scShapes)) + fidx
			}
			scRot[form.name]++
			vals := scValues(scRot[form.name], false)
			for i, v := range vals {
				id := fmt.Sprintf("%sp%d", u, i)
				e, _, _, ok := form.render(v.V)
				if !ok {
					continue
				}
				ctx := scCtxFor(r, e == "", true)
				if len(v.V) > 5000 && ctx.name == "dynamic-property" {
					ctx = scCtxs[0]
				}
				if p, ok := scPart(id, form, v, ctx); ok {
					parts, libs, ids = append(parts, p), append(libs, nil), append(ids, id)
				}
			}
			return
		})
	}
	// every context with a multi-line payload (the contexts are sampled above; here each one is met every run)
	multi("sc", "sc-str-contexts", func(r *vh.Rand, u string, full bool) (parts []string, libs []map[string]string, ids []string) {
		multiLine := []scVal{}
		for _, v := range scValues(r.Intn(len(scShapes)), true) {
			if strings.Count(v.V, "\n") >= 2 && len(v.V) < 400 {
				multiLine = append(multiLine, v)
			}
		}
		for ci, ctx := range scCtxs {
			if ctx.num {
				continue
			}
			reps := 2 // (thorough runs ten programs of every feature: the contexts and payloads are redrawn each time)
			for k := 0; k < reps; k++ {
				id := fmt.Sprintf("%sc%dk%d", u, ci, k)
				for try := 0; try < 20; try++ {
					form := vh.Pick(r, scForms)
					if p, ok := scPart(id, form, vh.Pick(r, multiLine), ctx); ok {
						parts, libs, ids = append(parts, p), append(libs, nil), append(ids, id)
						break
					}
				}
			}
		}
		return
	})
	numbers := func(tag, kind string, vals []scNum) {
		multi("sc", tag, func(r *vh.Rand, u string, full bool) (parts []string, libs []map[string]string, ids []string) {
			for i, v := range vals {
				reps := 2
				for k := 0; k < reps; k++ {
					id := fmt.Sprintf("%sn%dk%d", u, i, k)
					ctx := scNumCtx(r, kind)
					for k == 0 && !ctx.exact {
						ctx = scNumCtx(r, kind) // every value is seen by the full observer at least once
					}
					if p, ok := scNumPart(id, kind, v, ctx); ok {
						parts, libs, ids = append(parts, p), append(libs, nil), append(ids, id)
					}
				}
			}
			return
		})
	}
	numbers("sc-int", "int", scInts())
	numbers("sc-float", "float", scFloats)
	numbers("sc-const", "const", scConsts)

	// names: identifiers and keys with unusual but legal characters
	multi("sc", "sc-names", func(r *vh.Rand, u string, full bool) (parts []string, libs []map[string]string, ids []string) {
		S := fmt.Sprintf
		for i, id0 := range scIdents {
			id := S("%si%d", u, i)
			nm := id0
			src := "// sc: name / identifier " + strconv.Quote(nm) + "\n" + scObDef(id, true)
			fnm := nm + "_" + id // functions and constants share one registry per build
			switch i % 4 {
			case 0:
				src += S("$%s = 'v'; $%s .= \"w\";\nfunction %s($%s, $o_%s = 2) { static $%s_s = 0; $%s_s++; return $%s . $o_%s . $%s_s; }\n", nm, nm, fnm, nm, nm, nm, nm, nm, nm, nm) +
					obCall(id, S("$%s", nm)) + obCall(id, S("%s('a')", fnm)) + obCall(id, S("%s(%s: 'n')", fnm, nm))
			case 1:
				src += S("$%s = 5;\n$f = function($%s_p) use ($%s) { return \"$%s_p-$%s-{$%s}\"; };\n$g = fn($%s_q) => $%s_q . $%s;\n", nm, nm, nm, nm, nm, nm, nm, nm, nm) +
					obCall(id, "$f('c')") + obCall(id, "$g('d')") + S("echo json_encode(compact('%s')), \"\\n\";\n", nm)
			case 2:
				src += S("const %s = 'cv';\n$a = ['%s' => 1, \"%s\" => 2];\n$o = new stdClass; $o->%s = 'pv'; $o->%s_2 = [1];\n", fnm, nm, nm+"2", nm, nm) +
					obCall(id, fnm) + obCall(id, S("$o->%s", nm)) + "echo json_encode($a), json_encode($o), \"\\n\";\nforeach ($a as $k => $x) { " + obCall(id, "$k") + "}\n"
			default:
				// (a function whose name has upper-case letters cannot be called through a string in this interpreter)
				src += S("function %s() { global $%s; $%s = ($%s ?? 0) + 1; return $%s; }\n%s();\n", fnm, nm, nm, nm, nm, fnm) +
					obCall(id, S("%s() . $%s", fnm, nm)) + S("echo function_exists('%s') ? 'y' : 'n', \"\\n\";\n", fnm)
			}
			parts, libs, ids = append(parts, src), append(libs, nil), append(ids, id)
		}
		for i, k := range scKeys {
			id := S("%sk%d", u, i)
			lit := "\"" + dqBytes(k, false, false, false) + "\""
			src := "// sc: name / key " + strconv.Quote(k) + "\n" + scObDef(id, true) +
				S("$a = [%s => 'v', 'other' => [%s => %s]];\n$a[%s] .= 'w';\nforeach ($a as $k => $x) { ", lit, lit, lit, lit) + obCall(id, "$k . ''") + "}\n" +
				obCall(id, S("$a[%s]", lit)) + S("echo json_encode($a), isset($a[%s]) ? 'set' : 'unset', isset($a['other'][%s]) ? 'set' : 'unset', \"\\n\";\n", lit, lit)
			if k != "" && i%2 == 0 {
				src += S("$o = new stdClass; $o->{%s} = 'pv'; $n = %s; $o->$n .= 'x';\nforeach ($o as $k => $x) { ", lit, lit) + obCall(id, "$k . ''") + "}\necho json_encode($o), \"\\n\";\n"
			}
			parts, libs, ids = append(parts, src), append(libs, nil), append(ids, id)
		}
		return
	})

	// library classes: property default, method body, static method, parameter default, promoted
	// constructor parameter, closure in a method, trait
	multi("cls", "sc-cls-str", func(r *vh.Rand, u string, full bool) (parts []string, libs []map[string]string, ids []string) {
		vals := scValues(r.Intn(len(scShapes)), false)
		k := r.Intn(7)
		for fi, form := range scForms {
			for i, v := range vals {
				// a seeded seventh of the (form, payload) pairs per program: one library class each
				if (i+fi+k)%7 != 0 {
					continue
				}
				if len(v.V) > 3000 {
					continue
				}
				e, as, want, ok := form.render(v.V)
				if !ok {
					continue
				}
				id := fmt.Sprintf("%sf%dv%d", u, fi, i)
				ns := "L" + id + "sc"
				entry, l := scClassPart(r, id, ns, form.name, e, as, want, v.Name, true)
				parts, libs, ids = append(parts, entry), append(libs, l), append(ids, id)
			}
			k++
		}
		return
	})
	multi("cls", "sc-cls-num", func(r *vh.Rand, u string, full bool) (parts []string, libs []map[string]string, ids []string) {
		all := append(append(append([]scNum{}, scInts()...), scFloats...), scConsts...)
		for i, v := range all {
			if (i+r.Intn(3))%3 != 0 {
				continue
			}
			id := fmt.Sprintf("%sn%d", u, i)
			ns := "L" + id + "sc"
			entry, l := scClassPart(r, id, ns, "number", v.lit, func(lhs string) string { return lhs + " = " + v.lit + ";\n" }, "\x00none", v.name, false)
			parts, libs, ids = append(parts, entry), append(libs, l), append(ids, id)
		}
		return
	})
	// library class member names
	multi("cls", "sc-cls-names", func(r *vh.Rand, u string, full bool) (parts []string, libs []map[string]string, ids []string) {
		S := fmt.Sprintf
		for i, nm := range scIdents {
			id := S("%sm%d", u, i)
			ns := "L" + id + "sc"
			cls := S("class K {\n  public $%s = 'p';\n  private $%s_2 = 'q';\n  function %s($%s = 'd') { return $this->%s . $this->%s_2 . $%s; }\n  static function %s_s() { return '%s'; }\n}\n", nm, nm, nm, nm, nm, nm, nm, nm, nm)
			entry := "// sc: name / class member " + strconv.Quote(nm) + "\n" + scObDef(id, true) +
				S("$o = new \\%s\\K();\n", ns) + obCall(id, S("$o->%s", nm)) + obCall(id, S("$o->%s()", nm)) + obCall(id, S("$o->%s(%s: 'n')", nm, nm)) + obCall(id, S("\\%s\\K::%s_s()", ns, nm)) +
				S("$m = '%s'; ", nm) + obCall(id, "$o->$m()") + obCall(id, "$o->$m") + "echo json_encode($o), \"\\n\";\nforeach ($o as $k => $x) { " + obCall(id, "$k") + "}\n"
			parts, libs, ids = append(parts, entry), append(libs, map[string]string{ns + "/K.php": "<?php\nnamespace " + ns + ";\n" + cls}), append(ids, id)
		}
		return
	})
}

// MultiProg: the multi-part program of a sc feature (Tags: the feature's tag once per part, so that a
// difference is shrunk to the parts that differ).
func MultiProg(r *vh.Rand, f *feature, name, kind string) *Prog {
	parts, libs, ids := scMultis[f.Tag](r, name, scFull)
	p := &Prog{Name: name, Kind: kind, Libs: map[string]string{}, Parts: parts, PartLibs: libs, PartIDs: ids}
	for i := range parts {
		p.Tags = append(p.Tags, f.Tag)
		for k, v := range libs[i] {
			p.Libs[k] = v
		}
	}
	p.Src = assemble(parts)
	return p
}

// ------------------------------------------------------------ judging helpers

// scSegments cuts an output into the segments of the parts: a part's segment runs from the first
// occurrence of its marker `#<id>|` to the first marker of the next part that printed anything.
func scSegments(out string, ids []string) []string {
	starts := make([]int, len(ids))
	pos := 0
	for i, id := range ids {
		j := strings.Index(out[pos:], "#"+id+"|")
		if j < 0 {
			starts[i] = -1
			continue
		}
		starts[i] = pos + j
		pos = pos + j
	}
	segs := make([]string, len(ids))
	for i := range ids {
		if starts[i] < 0 {
			continue
		}
		end := len(out)
		for k := i + 1; k < len(ids); k++ {
			if starts[k] >= 0 {
				end = starts[k]
				break
			}
		}
		segs[i] = out[starts[i]:end]
	}
	return segs
}

// scDiffParts: indices of the parts whose segments differ between the two runs.
func scDiffParts(p *Prog, co, io Obs) []int {
	if len(p.PartIDs) != len(p.Parts) || len(p.Parts) == 0 {
		return nil
	}
	a, b := scSegments(co.Out, p.PartIDs), scSegments(io.Out, p.PartIDs)
	var out []int
	for i := range a {
		if a[i] != b[i] {
			out = append(out, i)
		}
	}
	return out
}

// scEffect counts, for every `// sc-expect:` line of the program, whether the interpreted run shows the
// intended value (length and md5 printed by the observer).
func scEffect(c *vh.Ctx, p *Prog, io Obs) {
	form := map[string]string{}
	lines := strings.Split(p.Src, "\n")
	for i, l := range lines {
		if !strings.HasPrefix(l, "// sc-expect: ") {
			continue
		}
		f := strings.Fields(strings.TrimPrefix(l, "// sc-expect: "))
		if len(f) != 3 {
			continue
		}
		what := "?"
		if i > 0 && strings.HasPrefix(lines[i-1], "// sc: ") {
			what = strings.TrimPrefix(lines[i-1], "// sc: ")
		}
		form[f[0]] = what
		if strings.Contains(io.Out, "#"+f[0]+"|"+f[1]+"|"+f[2]+"|") {
			c.Hit("sc:effective")
			if n, _ := strconv.Atoi(f[1]); n > 0 {
				c.Hit("sc:effective:" + strings.SplitN(what, " / ", 2)[0])
			}
		} else {
			c.Hit("sc:ineffective:" + strings.SplitN(what, " / ", 2)[0])
			scIneffective[what]++
		}
	}
}

var scIneffective = map[string]int{}

func scIneffectiveNote(c *vh.Ctx) {
	if len(scIneffective) == 0 {
		return
	}
	var ks []string
	for k := range scIneffective {
		ks = append(ks, k)
	}
	sort.Strings(ks)
	if len(ks) > 25 && os.Getenv("C16_ONLY") == "" {
		ks = append(ks[:25], fmt.Sprintf("… %d more", len(ks)-25))
	}
	c.Note("scalar payloads whose literal form the interpreter reads as another value than intended (compared all the same, the oracle is the interpreted run): %s", strings.Join(ks, "; "))
}
