package c16

// Structural correspondence: for every AST node type found in parsed snippets,
// what the real Generator emits for one instance (struct literal of which
// fields / constructor call / error / panic) against what Model.Emit (driver
// vm_c16, instantiated with the regenerated tables) says for a value of the
// same shape; and, for hand-written handlers, whether the emitted text really
// depends on exactly the scalar fields the translator says the handler reads.

import (
	"fmt"
	"go/ast"
	goparser "go/parser"
	"go/token"
	"os"
	"path/filepath"
	"reflect"
	"sort"
	"strings"
	"unsafe"

	"github.com/php-any/origami/cmd/compile"
	"github.com/php-any/origami/data"
	"github.com/php-any/origami/node"
	"github.com/php-any/origami/parser"
	"github.com/php-any/origami/runtime"

	"verif/harness/lexh"
	"verif/harness/vh"
)

var getValueT = reflect.TypeOf((*data.GetValue)(nil)).Elem()

func typeName(t reflect.Type) string {
	e := t
	if e.Kind() == reflect.Ptr {
		e = e.Elem()
	}
	pkg := e.PkgPath()
	pkg = pkg[strings.LastIndex(pkg, "/")+1:]
	return pkg + "." + e.Name()
}

// collect walks an AST through exported fields and gathers one instance per node type.
func collect(v reflect.Value, seen map[uintptr]bool, out map[string]data.GetValue, depth int) {
	if depth > 60 || !v.IsValid() {
		return
	}
	switch v.Kind() {
	case reflect.Interface:
		if !v.IsNil() {
			collect(v.Elem(), seen, out, depth+1)
		}
	case reflect.Ptr:
		if v.IsNil() {
			return
		}
		if seen[v.Pointer()] {
			return
		}
		seen[v.Pointer()] = true
		if v.Elem().Kind() == reflect.Struct {
			pk := v.Elem().Type().PkgPath()
			if (strings.HasSuffix(pk, "/node") || strings.HasSuffix(pk, "/data")) && v.Type().Implements(getValueT) && v.CanInterface() {
				name := typeName(v.Type())
				if _, ok := out[name]; !ok {
					out[name] = v.Interface().(data.GetValue)
				}
				noteOrdered(name, v)
			}
		}
		collect(v.Elem(), seen, out, depth+1)
	case reflect.Struct:
		for i := 0; i < v.NumField(); i++ {
			f := v.Type().Field(i)
			if !f.IsExported() {
				continue
			}
			if f.Anonymous && f.Name == "Node" {
				continue
			}
			collect(v.Field(i), seen, out, depth+1)
		}
	case reflect.Slice:
		for i := 0; i < v.Len(); i++ {
			collect(v.Index(i), seen, out, depth+1)
		}
	case reflect.Map:
		for _, k := range v.MapKeys() {
			collect(v.MapIndex(k), seen, out, depth+1)
		}
	}
}

// ordInst: per "<type>.<slice field>" the instance met so far whose slice is longest (>= 2
// members), for the permutation check of orderCase. Filled by collect.
var ordInst = map[string]data.GetValue{}
var ordLen = map[string]int{}

func noteOrdered(name string, v reflect.Value) {
	sv := v.Elem()
	for i := 0; i < sv.NumField(); i++ {
		f := sv.Field(i)
		if f.Kind() != reflect.Slice || f.Len() < 2 || f.Type().Elem().Kind() == reflect.Uint8 {
			continue
		}
		key := name + "." + sv.Type().Field(i).Name
		if f.Len() > ordLen[key] && f.Len() <= 12 {
			ordLen[key] = f.Len()
			ordInst[key] = v.Interface().(data.GetValue)
		}
	}
}

// elemText: a text that tells two members of an ordered field apart the way the generated code
// would: a string is itself, a node is what the Generator emits for it, a struct by value
// (KvPair, …) the texts of its fields.
func elemText(v reflect.Value, depth int) string {
	if !v.IsValid() || depth > 3 {
		return "?"
	}
	if v.Kind() == reflect.Interface {
		if v.IsNil() {
			return "nil"
		}
		v = v.Elem()
	}
	switch v.Kind() {
	case reflect.String:
		return "s:" + v.String()
	case reflect.Ptr:
		if v.IsNil() {
			return "nil"
		}
		if v.Type().Implements(getValueT) && v.CanInterface() {
			r := emitReal(v.Interface().(data.GetValue))
			if r.Kind == "error" || r.Kind == "panic" {
				return "?"
			}
			return "n:" + r.Text
		}
		return "?"
	case reflect.Struct:
		var parts []string
		for i := 0; i < v.NumField(); i++ {
			if !v.Type().Field(i).IsExported() {
				continue
			}
			parts = append(parts, elemText(v.Field(i), depth+1))
		}
		return "{" + strings.Join(parts, ";") + "}"
	}
	return "?"
}

// orderCase: the emitted text must not be invariant under a permutation of an ordered field
// whose members the generated code tells apart. A handler that walks a canonical form of the
// collection (sorted keys of the companion map, a sorted copy) emits the same text for every
// declaration order: caught here on the real Generator, without model and without running PHP.
func orderCase(c *vh.Ctx, m *vh.Model, key string, n data.GetValue) {
	dot := strings.LastIndexByte(key, '.')
	typ, fname := key[:dot], key[dot+1:]
	v := reflect.ValueOf(n).Elem()
	f := v.FieldByName(fname)
	if !f.IsValid() || f.Kind() != reflect.Slice || f.Len() < 2 {
		return
	}
	if !f.CanSet() {
		if !f.CanAddr() {
			return
		}
		f = reflect.NewAt(f.Type(), unsafe.Pointer(f.UnsafeAddr())).Elem()
	}
	base := emitReal(n)
	if base.Kind == "error" || base.Kind == "panic" {
		return
	}
	// the field reaches the text at all: dropping its members changes the text
	saved := reflect.MakeSlice(f.Type(), f.Len(), f.Len())
	reflect.Copy(saved, f)
	i, j := 0, f.Len()-1
	ti, tj := elemText(f.Index(i), 0), elemText(f.Index(j), 0)
	if strings.Contains(ti, "?") || strings.Contains(tj, "?") || ti == tj {
		c.Hit("order-probe:members-not-told-apart")
		return
	}
	// does the field reach the text at all? With the model: the translator lists it among the
	// fields the handler reads (or the reflective literal has the key) — a handler that reads the
	// field and still emits a text that ignores its order is exactly what is looked for. Without the
	// model: dropping the members changes the text. A field that is not emitted is the business of
	// the static drop lists (C16_static_drops_allowed), not of this probe.
	reaches := false
	if m != nil {
		if pathAns, err := m.Ask("path " + typ); err == nil {
			if strings.HasPrefix(pathAns, "special ") || strings.HasPrefix(pathAns, "scalar ") {
				for _, part := range strings.Fields(pathAns) {
					if strings.HasPrefix(part, "reads=") {
						for _, r := range strings.Split(strings.TrimPrefix(part, "reads="), ",") {
							reaches = reaches || r == fname
						}
					}
				}
			} else {
				for _, k := range base.Fields {
					reaches = reaches || k == fname
				}
			}
		}
	}
	if !reaches {
		f.Set(reflect.MakeSlice(f.Type(), 0, 0))
		dropped := emitReal(n)
		f.Set(saved)
		reaches = !(dropped.Kind == base.Kind && dropped.Text == base.Text)
	}
	if !reaches {
		c.Hit("order-probe:field-not-emitted")
		return
	}
	swapped := reflect.MakeSlice(f.Type(), f.Len(), f.Len())
	reflect.Copy(swapped, saved)
	tmp := reflect.New(f.Type().Elem()).Elem()
	tmp.Set(swapped.Index(i))
	swapped.Index(i).Set(swapped.Index(j))
	swapped.Index(j).Set(tmp)
	f.Set(swapped)
	after := emitReal(n)
	f.Set(saved)
	c.Eval("order:"+key, true)
	c.Hit("order-probe:checked")
	if os.Getenv("C16_ONLY") != "" {
		c.Note("order probe %s len=%d changed=%v", key, f.Len(), !(after.Kind == base.Kind && after.Text == base.Text))
	}
	if after.Kind == base.Kind && after.Text == base.Text {
		c.Violation("order:"+key, fmt.Sprintf("the Go text generated for a %s does not change when two distinguishable members of its ordered field %s (%d members) are exchanged: the generated program cannot keep the declared order", typ, fname, f.Len()),
			replayCase{Kind: "order", Type: typ, Snip: fname})
	}
}

// parseSnippet parses one source the way cmd/compile/parse.go does.
func parseSnippet(src, path string) (prog *node.Program, err string) {
	defer func() {
		if r := recover(); r != nil {
			err = fmt.Sprint("parser panic: ", r)
		}
	}()
	p := parser.NewParser()
	vm := runtime.NewVM(p)
	loadStd(vm)
	data.CompileMode = true
	defer func() { data.CompileMode = false }()
	pr, acl := p.Clone().ParseString(src, path)
	if acl != nil {
		return nil, acl.AsString()
	}
	// classes are registered by the parser, not kept in the AST; the compile command fetches them
	// back from the VM (augmentProgramASTFromBase). For the permutation probe only: the structural
	// comparison keeps the instances found in the AST.
	if rvm, ok := vm.(*runtime.VM); ok {
		for _, cl := range rvm.AllClasses() {
			switch cs := cl.(type) {
			case *node.ClassStatement, *node.AbstractClassStatement:
				collect(reflect.ValueOf(cs), map[uintptr]bool{}, map[string]data.GetValue{}, 0)
			}
		}
	}
	return pr, ""
}

type realEmit struct {
	Kind   string // struct | ctor | error | panic
	Type   string
	Node   bool
	Fields []string
	Msg    string
	Text   string
}

func (r realEmit) String() string {
	switch r.Kind {
	case "struct":
		return fmt.Sprintf("struct %s node=%s fields=%s", r.Type, b01(r.Node), strings.Join(r.Fields, ","))
	case "error":
		return "error " + r.Msg
	}
	return r.Kind
}

func b01(b bool) string {
	if b {
		return "1"
	}
	return "0"
}

// emitReal runs the real Generator on a one-statement program.
func emitReal(n data.GetValue) (res realEmit) {
	defer func() {
		if r := recover(); r != nil {
			res = realEmit{Kind: "panic", Msg: fmt.Sprint(r)}
		}
	}()
	g := compile.NewGenerator()
	code, err := g.Generate(compile.ParsedFile{Path: "probe.php", Program: node.NewProgram(nil, []data.GetValue{n})})
	if err != nil {
		msg := err.Error()
		return realEmit{Kind: "error", Msg: msg}
	}
	res.Text = code
	fset := token.NewFileSet()
	f, perr := goparser.ParseFile(fset, "probe.go", "package p\n"+code, 0)
	if perr != nil {
		return realEmit{Kind: "error", Msg: "generated text does not parse: " + perr.Error(), Text: code}
	}
	var first ast.Expr
	ast.Inspect(f, func(nd ast.Node) bool {
		as, ok := nd.(*ast.AssignStmt)
		if !ok || first != nil || len(as.Lhs) != 1 {
			return true
		}
		if id, ok := as.Lhs[0].(*ast.Ident); ok && id.Name == "stmts" {
			if cl, ok := as.Rhs[0].(*ast.CompositeLit); ok && len(cl.Elts) == 1 {
				first = cl.Elts[0]
			}
		}
		return true
	})
	if first == nil {
		return realEmit{Kind: "error", Msg: "no statement emitted", Text: code}
	}
	if ue, ok := first.(*ast.UnaryExpr); ok && ue.Op == token.AND {
		if cl, ok := ue.X.(*ast.CompositeLit); ok {
			if se, ok := cl.Type.(*ast.SelectorExpr); ok {
				res.Kind = "struct"
				res.Type = se.X.(*ast.Ident).Name + "." + se.Sel.Name
				for _, el := range cl.Elts {
					if kv, ok := el.(*ast.KeyValueExpr); ok {
						k := kv.Key.(*ast.Ident).Name
						if k == "Node" {
							res.Node = true
						} else {
							res.Fields = append(res.Fields, k)
						}
					}
				}
				return res
			}
		}
	}
	res.Kind = "ctor"
	return res
}

// shapeOf describes the instance for the model: field names (embedded Node apart) with a value class.
func shapeOf(n data.GetValue, handled bool) (hasNode bool, fields []string) {
	v := reflect.ValueOf(n).Elem()
	t := v.Type()
	for i := 0; i < t.NumField(); i++ {
		f := t.Field(i)
		fv := v.Field(i)
		if f.Anonymous && f.Name == "Node" {
			hasNode = !fv.IsNil()
			continue
		}
		k := "s"
		switch fv.Kind() {
		case reflect.Interface, reflect.Ptr, reflect.Map, reflect.Slice, reflect.Func, reflect.Chan:
			if fv.IsNil() {
				k = "n"
			}
		}
		if k != "n" && !handled {
			x := fv
			if x.Kind() == reflect.Interface {
				x = x.Elem()
			}
			switch x.Kind() {
			case reflect.Ptr:
				if !x.Type().Implements(getValueT) {
					k = "p"
				} else if x.CanInterface() {
					// a child node whose own emission fails stands for a value that cannot be written
					if ch := emitReal(x.Interface().(data.GetValue)); ch.Kind == "error" {
						k = "b"
					}
				}
			case reflect.Slice:
				if unnamedElem(x.Type()) {
					k = "u" // emitSlice prints "[]" + "" + "{": not Go
					break
				}
				for j := 0; j < x.Len() && x.CanInterface(); j++ {
					el := x.Index(j)
					if el.Kind() == reflect.Interface {
						el = el.Elem()
					}
					if el.IsValid() && el.Kind() == reflect.Ptr && !el.IsNil() && el.Type().Implements(getValueT) && el.CanInterface() {
						if ch := emitReal(el.Interface().(data.GetValue)); ch.Kind == "error" {
							k = "b"
						}
					}
				}
			case reflect.Func, reflect.Chan:
				k = "b"
			case reflect.Map:
				if x.Type().Key().Kind() != reflect.String {
					k = "b"
				} else if unnamedElem(x.Type()) {
					k = "u"
				}
			}
		}
		fields = append(fields, f.Name+":"+k)
	}
	return
}

var (
	variableT = reflect.TypeOf((*data.Variable)(nil)).Elem()
	methodT   = reflect.TypeOf((*data.Method)(nil)).Elem()
)

// unnamedElem: emitSlice / emitMap print the element type of t as package + Name(); a pointer,
// slice, map, func or `any` element type has no name (the three interface cases emitSlice writes
// by hand apart, and []byte which is printed as a string).
func unnamedElem(t reflect.Type) bool {
	e := t.Elem()
	if e.Name() != "" {
		return false
	}
	if t.Kind() == reflect.Slice {
		if e.Kind() == reflect.Uint8 {
			return false
		}
		if e.Kind() == reflect.Interface && e.NumMethod() > 0 && (e.Implements(getValueT) || e.Implements(variableT) || e.Implements(methodT)) {
			return false
		}
	}
	return true
}

func sameSet(a, b []string) bool {
	x := append([]string{}, a...)
	y := append([]string{}, b...)
	sort.Strings(x)
	sort.Strings(y)
	return strings.Join(x, ",") == strings.Join(y, ",")
}

// agree: does the model's answer describe what the real Generator did?
func agree(model string, real realEmit, typ string) bool {
	switch {
	case strings.HasPrefix(model, "struct "):
		return real.Kind == "struct" && model == real.String()
	case strings.HasPrefix(model, "ctor "):
		if real.Kind == "ctor" {
			return true
		}
		if real.Kind == "struct" && real.Type == typ {
			// a handler that writes the literal by hand: its keys are the fields it reads
			f := strings.Fields(model)
			want := strings.TrimPrefix(f[len(f)-1], "fields=")
			var ws []string
			if want != "" {
				ws = strings.Split(want, ",")
			}
			return sameSet(ws, real.Fields)
		}
		return false
	case model == "error malformed":
		// the Generator returns text that is not Go; the command fails in format.Source
		return real.Kind == "error" && strings.HasPrefix(real.Msg, "generated text does not parse")
	case real.Kind == "error" && strings.HasPrefix(real.Msg, "generated text does not parse"):
		return false
	case strings.HasPrefix(model, "error unexported "):
		// Emit replaces the struct-literal error by its generic EmitError for the node
		return real.Kind == "error"
	case strings.HasPrefix(model, "error "):
		return real.Kind == "error"
	case model == "crash":
		return real.Kind == "panic"
	}
	return false
}

// mutate changes one scalar field in place and returns an undo function (nil when the field is not a plain scalar).
func mutate(n data.GetValue, idx int) func() {
	v := reflect.ValueOf(n).Elem()
	f := v.Field(idx)
	if !f.CanSet() {
		if !f.CanAddr() {
			return nil
		}
		f = reflect.NewAt(f.Type(), unsafe.Pointer(f.UnsafeAddr())).Elem()
	}
	switch f.Kind() {
	case reflect.String:
		old := f.String()
		f.SetString(old + "_mut")
		return func() { f.SetString(old) }
	case reflect.Int, reflect.Int8, reflect.Int16, reflect.Int32, reflect.Int64:
		old := f.Int()
		f.SetInt(old + 1)
		return func() { f.SetInt(old) }
	case reflect.Uint, reflect.Uint8, reflect.Uint16, reflect.Uint32, reflect.Uint64:
		old := f.Uint()
		f.SetUint(old + 1)
		return func() { f.SetUint(old) }
	case reflect.Bool:
		old := f.Bool()
		f.SetBool(!old)
		return func() { f.SetBool(old) }
	}
	return nil
}

func structSources(c *vh.Ctx) []string {
	var srcs []string
	r := vh.NewRand(c.Seed*7919 + 13)
	for i := range features {
		e, libs := features[i].Gen(r, fmt.Sprintf("st%d", i))
		if features[i].Whole {
			srcs = append(srcs, "<?php\n"+e)
		} else {
			srcs = append(srcs, assemble([]string{e}))
		}
		for _, l := range libs {
			srcs = append(srcs, l)
		}
	}
	for i := 0; i < c.N(40, 400); i++ {
		srcs = append(srcs, "<?php\n"+lexh.GenSafe(r))
	}
	srcs = append(srcs,
		"<?php\n$r = 1..5;\n$o = new Foo { a: 1 };\n$a = $b instanceof Foo;\n$x = $y like Foo;\necho Foo::class, $o::class;\ninclude 'x.php';\nconst QQ = 1;\n[$p, $q] = [1, 2];\n$s = `ls`;\n$z = $a <=> $b; $w = $a !== $b;\nswitch ($a) { case 1: break; default: }\n$n = new class { public $v = 1; };\n",
		"<?php\nnamespace Probe\\Ns;\nuse Other\\Thing;\nabstract class PA { abstract function m(); static function sm() { return static::$x; } }\ninterface PI { function q(); }\nfunction pf(int ...$xs): ?string { return null; }\n$v = PA::sm(); $w = PA::$x; $u = parent::foo(); $t = self::K;\n",
	)
	// `$a, $b = e` inside a for header is this parser's multi-assignment: node.BinaryAssignVariableList
	// holding a node.VariableList (a struct only emitVariableList writes: its []*VariableExpression has
	// no element type name for the reflective path)
	srcs = append(srcs, "<?php\n$m1 = 1;\nfor ($m0 = $m1, $m2 = 0; $m2 < 1; $m2++) { }\necho $m0;\n")
	return srcs
}

// instSrc: the snippet in which the instance of a node type was found (reported with a mismatch)
var instSrc = map[string]string{}

func structStream(c *vh.Ctx, m *vh.Model) {
	inst := map[string]data.GetValue{}
	parsed, failed := 0, 0
	pdir := filepath.Join(c.Scratch, "probe")
	os.MkdirAll(pdir, 0o755)
	srcs := structSources(c)
	learnCarriers(c, srcs, pdir)
	for i, src := range srcs {
		prog, perr := parseSnippet(src, filepath.Join(pdir, fmt.Sprintf("s%d.php", i)))
		if prog == nil {
			failed++
			_ = perr
			continue
		}
		parsed++
		nsCoverage(c, prog)
		before := len(inst)
		collect(reflect.ValueOf(prog), map[uintptr]bool{}, inst, 0)
		if len(inst) > before {
			for n := range inst {
				if _, ok := instSrc[n]; !ok {
					instSrc[n] = src
				}
			}
		}
	}
	// the operand programs in full (operand.go): which node kinds do the probes reach? Not assumed:
	// parsed by the real parser and held against the regenerated node table (driver command `kinds`)
	opInst := map[string]data.GetValue{}
	{
		r := vh.NewRand(c.Seed*7919 + 17)
		for i := range opForms {
			p := opProg(&opForms[i], r, fmt.Sprintf("k%d", i), "feat", true)
			prog, _ := parseSnippet(p.Src, filepath.Join(pdir, fmt.Sprintf("k%d.php", i)))
			if prog == nil {
				c.Hit("op:form-not-parsed")
				continue
			}
			collect(reflect.ValueOf(prog), map[uintptr]bool{}, opInst, 0)
		}
		for n, v := range opInst {
			if _, ok := inst[n]; !ok {
				inst[n] = v
				instSrc[n] = "(operand program)"
			}
		}
	}
	if m != nil {
		if ans, err := m.Ask("kinds"); err == nil {
			var unreached []string
			for _, k := range strings.Fields(ans) {
				if _, ok := opInst[k]; ok {
					c.Hit("op:kind-reached")
				} else {
					c.Hit("op:kind-unreached")
					unreached = append(unreached, strings.TrimPrefix(k, "node."))
				}
			}
			c.Note("operand probes reach %d of the %d node kinds of the regenerated table; not reached (declarations, statements without operand, run-time-only nodes): %s", c.Res.Histogram["op:kind-reached"], c.Res.Histogram["op:kind-reached"]+c.Res.Histogram["op:kind-unreached"], head(strings.Join(unreached, " "), 1800))
		}
	}
	var names []string
	for n := range inst {
		names = append(names, n)
	}
	sort.Strings(names)
	c.Note("structural: %d snippets parsed (%d refused by the parser), %d distinct AST node types", parsed, failed, len(names))
	if m != nil {
		if f, err := m.Ask("facts"); err == nil {
			c.Note("model tables: %s", f)
		}
	}
	for _, name := range names {
		structCase(c, m, name, inst[name], instSrc[name])
	}
	orderStream(c, m)
	fuseStream(c, m)
	ctxStream(c, m, inst, "")
	resolveStream(c, m)
	typeTieStream(c, m)
	if os.Getenv("C16_NOPROBE") == "" { // development aid: see only what the differential run reports
		scalarStream(c, m, inst, nil)
	}
}

func orderStream(c *vh.Ctx, m *vh.Model) {
	var keys []string
	for k := range ordInst {
		keys = append(keys, k)
	}
	sort.Strings(keys)
	for _, k := range keys {
		orderCase(c, m, k, ordInst[k])
	}
}

func structCase(c *vh.Ctx, m *vh.Model, name string, n data.GetValue, snippet string) {
	cas := replayCase{Kind: "struct", Type: name, Snip: snippet}
	real := emitReal(n)
	c.Eval("struct:"+name, true)
	c.Hit("emit:" + real.Kind)
	if real.Kind == "panic" {
		c.Violation("crash:emit:"+name, "Generator.Emit panics on a "+name+" instead of reporting a compile error: "+real.Msg, cas)
	}
	if m == nil {
		return
	}
	pathAns, err := m.Ask("path " + name)
	if err != nil {
		return
	}
	handled := strings.HasPrefix(pathAns, "special ") || strings.HasPrefix(pathAns, "scalar ")
	hasNode, fields := shapeOf(n, handled)
	ans, err := m.Ask(fmt.Sprintf("emit %s %s %s", name, b01(hasNode), strings.Join(fields, ",")))
	if err != nil {
		return
	}
	c.Res.Traces++
	if !agree(ans, real, name) {
		c.Mismatch(cas, real.String()+" | "+firstLines(real.Msg, 2), ans, "Generator.Emit vs Model.Emit for "+name+" ("+pathAns+")")
		return
	}
	// handlers: the emitted text depends on a scalar field iff the translator says the handler reads it
	if !handled || real.Kind == "error" || real.Kind == "panic" {
		return
	}
	reads := map[string]bool{}
	for _, part := range strings.Fields(pathAns) {
		if strings.HasPrefix(part, "reads=") {
			for _, f := range strings.Split(strings.TrimPrefix(part, "reads="), ",") {
				if f != "" {
					reads[f] = true
				}
			}
		}
	}
	t := reflect.TypeOf(n).Elem()
	for i := 0; i < t.NumField(); i++ {
		undo := mutate(n, i)
		if undo == nil {
			continue
		}
		after := emitReal(n)
		undo()
		changed := after.Text != real.Text || after.Kind != real.Kind
		fname := t.Field(i).Name
		c.Hit("sensitivity-checked")
		if changed && !reads[fname] {
			c.Mismatch(cas, "output depends on "+fname, pathAns, "the translator's read set of the handler misses a field the emitted text depends on")
		}
		if !changed && reads[fname] && !controlOnly[name+"."+fname] {
			c.Mismatch(cas, "output does not depend on "+fname, pathAns, "the translator says the handler reads the field, the emitted text ignores it")
		}
	}
}

// fields a handler reads only to decide something that the mutation does not flip
var controlOnly = map[string]bool{}

func firstLines(s string, k int) string {
	l := strings.Split(s, "\n")
	if len(l) > k {
		l = l[:k]
	}
	return strings.Join(l, " / ")
}

func structReplay(c *vh.Ctx, m *vh.Model, rc replayCase) {
	inst := map[string]data.GetValue{}
	pdir := filepath.Join(c.Scratch, "probe")
	os.MkdirAll(pdir, 0o755)
	for i, src := range structSources(c) {
		if prog, _ := parseSnippet(src, filepath.Join(pdir, fmt.Sprintf("s%d.php", i))); prog != nil {
			collect(reflect.ValueOf(prog), map[uintptr]bool{}, inst, 0)
		}
	}
	if rc.Kind == "scalar" {
		if rc.Scalar == nil || inst[rc.Type] == nil {
			c.Note("replay: no instance of %s found", rc.Type)
			return
		}
		scalarStream(c, m, inst, rc.Scalar)
		return
	}
	if rc.Kind == "ctx" {
		learnCarriers(c, structSources(c), pdir)
		if _, ok := inst[rc.Type]; ok {
			ctxStream(c, m, inst, rc.Type)
		} else {
			c.Note("replay: no instance of %s found", rc.Type)
		}
		return
	}
	if rc.Kind == "order" {
		if n, ok := ordInst[rc.Type+"."+rc.Snip]; ok {
			orderCase(c, m, rc.Type+"."+rc.Snip, n)
		} else {
			c.Note("replay: no instance of %s with two members in %s found", rc.Type, rc.Snip)
		}
		return
	}
	if n, ok := inst[rc.Type]; ok {
		structCase(c, m, rc.Type, n, "")
	} else {
		c.Note("replay: no instance of %s found", rc.Type)
	}
}
