package c16

import "verif/harness/vh"

func structStream(c *vh.Ctx, m *vh.Model)                  {}
func structReplay(c *vh.Ctx, m *vh.Model, rc replayCase) {}
