package c16

// Structural tie for scalars — independent of any PHP run and of the model.
//
// For every scalar-valued field (string, integer, bool, float) of every AST node
// type met in the parsed snippets, the field is set in place to each payload of
// its class (the same payload classes as the differential stream: 0/1/2/many
// newlines, tabs after newlines, backtick, backslash, quotes, `$`, control
// bytes, invalid UTF-8, multi-byte and non-printable runes, long text; integers
// at the 7..63-bit boundaries and negative; floats incl. 5e-324, 1e308, 17
// significant digits, -0.0; both bools), the node is handed to the REAL
// Generator at several indentation levels (wrapped in 0, 1, 3 nested
// `node.BlockStatement`s: every level indents the printer by two more tabs), and
// the generated Go text is parsed with go/parser. Every literal of the text is
// evaluated with go/constant (strconv.Unquote semantics for strings, exact
// arithmetic for numbers, a leading unary minus applied). Whenever the field
// reaches the text at all (the text differs from the text for the field's
// original value), a literal that evaluates to EXACTLY the payload must have
// appeared — one more than in the baseline text. A generator that writes a
// value in a form Go reads differently — a raw string literal that picks up the
// printer's indentation, `-0` for negative zero, a verb that rounds, a missing
// escape — fails here on the first affected class, with the (type, field,
// payload, depth) as replay.
//
// With the model: every string literal of the generated text is also evaluated
// by the Lean `unquote` (vm_c16 `unquote <hex>`) and must agree with
// strconv.Unquote; and the literal that carries the payload must be, byte for
// byte, the Lean `quote` of the payload (`quote <hex>`), for payloads whose
// multi-byte runes are all printable or all non-printable (the Unicode table
// strconv.IsPrint is a parameter of the model).

import (
	"encoding/hex"
	"fmt"
	"go/ast"
	"go/constant"
	goparser "go/parser"
	"go/token"
	"math"
	"reflect"
	"sort"
	"strconv"
	"strings"
	"unicode/utf8"
	"unsafe"

	"github.com/php-any/origami/cmd/compile"
	"github.com/php-any/origami/data"
	"github.com/php-any/origami/node"

	"verif/harness/vh"
)

// scalarDerived: scalar fields whose value legitimately does not appear verbatim in the generated
// text although the text depends on it (the handler translates it). One line of justification each.
var scalarDerived = map[string]string{}

type scalarReplay struct {
	Type    string `json:"type"`
	Field   string `json:"field"`
	Kind    string `json:"kind"`    // string | int | uint | bool | float
	Payload string `json:"payload"` // hex of the bytes / decimal / true|false / float bits in hex
	Depth   int    `json:"depth"`   // number of BlockStatement wrappers
}

// emitAtDepth runs the real Generator on n wrapped in k nested block statements.
func emitAtDepth(n data.GetValue, k int) (text string, err string) {
	defer func() {
		if r := recover(); r != nil {
			err = fmt.Sprint("panic: ", r)
		}
	}()
	var w data.GetValue = n
	for i := 0; i < k; i++ {
		w = node.NewBlockStatement(nil, []data.GetValue{w})
	}
	g := compile.NewGenerator()
	code, e := g.Generate(compile.ParsedFile{Path: "probe.php", Program: node.NewProgram(nil, []data.GetValue{w})})
	if e != nil {
		return "", e.Error()
	}
	return code, ""
}

type litSet struct {
	strs   map[string]int // value of every string literal -> count
	nums   map[string]int // exact value of every numeric literal (sign applied) -> count
	floats map[uint64]int // float64 bits of every numeric literal -> count
	bools  map[bool]int
	raw    map[string]string // string literal text -> value (for the model tie)
	numRaw map[string]bool   // text of every numeric literal, with its sign
	err    string
}

// literals parses a generated function and evaluates every literal in it.
func literals(code string) *litSet {
	ls := &litSet{strs: map[string]int{}, nums: map[string]int{}, floats: map[uint64]int{}, bools: map[bool]int{}, raw: map[string]string{}, numRaw: map[string]bool{}}
	fset := token.NewFileSet()
	f, perr := goparser.ParseFile(fset, "probe.go", "package p\n"+code, 0)
	if perr != nil {
		ls.err = "generated text does not parse: " + perr.Error()
		return ls
	}
	neg := map[*ast.BasicLit]bool{}
	ast.Inspect(f, func(nd ast.Node) bool {
		switch x := nd.(type) {
		case *ast.CallExpr:
			// the three run-time expressions Go offers for floats without a literal
			if se, ok := x.Fun.(*ast.SelectorExpr); ok {
				if id, ok := se.X.(*ast.Ident); ok && id.Name == "math" {
					var args []float64
					for _, a := range x.Args {
						neg := false
						if ue, ok := a.(*ast.UnaryExpr); ok && ue.Op == token.SUB {
							neg, a = true, ue.X
						}
						if bl, ok := a.(*ast.BasicLit); ok && (bl.Kind == token.INT || bl.Kind == token.FLOAT) {
							fv, _ := constant.Float64Val(constant.ToFloat(constant.MakeFromLiteral(bl.Value, bl.Kind, 0)))
							if neg {
								fv = -fv
							}
							args = append(args, fv)
						}
					}
					switch {
					case se.Sel.Name == "Copysign" && len(args) == 2:
						ls.floats[math.Float64bits(math.Copysign(args[0], args[1]))]++
					case se.Sel.Name == "Inf" && len(args) == 1:
						ls.floats[math.Float64bits(math.Inf(int(args[0])))]++
					case se.Sel.Name == "NaN" && len(args) == 0:
						ls.floats[math.Float64bits(math.NaN())]++
					}
				}
			}
		case *ast.UnaryExpr:
			if bl, ok := x.X.(*ast.BasicLit); ok && x.Op == token.SUB {
				neg[bl] = true
			}
		case *ast.Ident:
			if x.Name == "true" {
				ls.bools[true]++
			} else if x.Name == "false" {
				ls.bools[false]++
			}
		case *ast.BasicLit:
			switch x.Kind {
			case token.STRING:
				v := constant.MakeFromLiteral(x.Value, token.STRING, 0)
				if v.Kind() == constant.String {
					s := constant.StringVal(v)
					ls.strs[s]++
					ls.raw[x.Value] = s
				}
			case token.INT, token.FLOAT:
				v := constant.MakeFromLiteral(x.Value, x.Kind, 0)
				if v.Kind() == constant.Unknown {
					return true
				}
				if neg[x] {
					v = constant.UnaryOp(token.SUB, v, 0)
					ls.numRaw["-"+x.Value] = true
				} else {
					ls.numRaw[x.Value] = true
				}
				ls.nums[v.ExactString()]++
				fv, _ := constant.Float64Val(constant.ToFloat(v))
				ls.floats[math.Float64bits(fv)]++
			}
		}
		return true
	})
	return ls
}

func setField(f reflect.Value) reflect.Value {
	if !f.CanSet() && f.CanAddr() {
		return reflect.NewAt(f.Type(), unsafe.Pointer(f.UnsafeAddr())).Elem()
	}
	return f
}

var probeInts = func() []int64 {
	out := []int64{0, 1, -1, 10, 255, 256, math.MaxInt64, math.MinInt64, math.MinInt64 + 1}
	for _, k := range []uint{7, 8, 15, 16, 31, 32, 53, 62} {
		p := int64(1) << k
		out = append(out, p-1, p, p+1, -p, -p-1)
	}
	return out
}()

var probeFloats = []float64{0, math.Copysign(0, -1), 0.1, 1, 1.5, 100, 1e308, math.MaxFloat64, 5e-324, 2.2250738585072014e-308, 1e20, 1e21, 1e22,
	123456789012345678, 9007199254740993, 0.30000000000000004, 1e-10, 1e-5, 0.0001, 1e15, 1e16, math.Pi, 6.02e23, -1.5, -1e308, -5e-324, 1.0 / 3, 100000, 1e6}

func fitsInt(k reflect.Kind, v int64) bool {
	switch k {
	case reflect.Int8:
		return v >= math.MinInt8 && v <= math.MaxInt8
	case reflect.Int16:
		return v >= math.MinInt16 && v <= math.MaxInt16
	case reflect.Int32:
		return v >= math.MinInt32 && v <= math.MaxInt32
	}
	return true
}

func fitsUint(k reflect.Kind, v uint64) bool {
	switch k {
	case reflect.Uint8:
		return v <= math.MaxUint8
	case reflect.Uint16:
		return v <= math.MaxUint16
	case reflect.Uint32:
		return v <= math.MaxUint32
	}
	return true
}

type scalarProbe struct {
	c       *vh.Ctx
	m       *vh.Model
	bad     map[string]int  // violating field -> number of payloads
	asked   map[string]bool // string literal texts already put to the model
	askQ    []string
	askWant []string
	askCase []scalarReplay
}

// probeField runs every payload of the field's class through the real Generator.
func (sp *scalarProbe) probeField(typ string, n data.GetValue, idx int, only *scalarReplay) {
	c := sp.c
	v := reflect.ValueOf(n).Elem()
	sf := v.Type().Field(idx)
	f := setField(v.Field(idx))
	if !f.CanSet() {
		return
	}
	key := typ + "." + sf.Name
	depths := []int{0, 1, 3}
	base := map[int]*litSet{}
	baseText := map[int]string{}
	for _, d := range depths {
		t, e := emitAtDepth(n, d)
		if e != "" {
			return // the node cannot be emitted at all: the business of the structural comparison
		}
		baseText[d] = t
		base[d] = literals(t)
	}
	check := func(i int, kind, payload string, set func(), present func(ls, b *litSet) bool) {
		d := depths[i%len(depths)]
		rc := scalarReplay{Type: typ, Field: sf.Name, Kind: kind, Payload: payload, Depth: d}
		if only != nil {
			if only.Kind != kind || only.Payload != payload {
				return
			}
			d = only.Depth
			rc.Depth = d
			if _, ok := base[d]; !ok {
				t, _ := emitAtDepth(n, d)
				baseText[d], base[d] = t, literals(t)
			}
		}
		set()
		text, e := emitAtDepth(n, d)
		if e != "" {
			c.Hit("scalar-probe:emit-error")
			return
		}
		if text == baseText[d] {
			c.Hit("scalar-probe:not-in-text")
			return
		}
		c.Eval("scalar:"+key+":"+kind+":"+payload, true)
		c.Hit("scalar-probe:checked")
		c.Hit("scalar-probe:" + kind)
		ls := literals(text)
		cas := replayCase{Kind: "scalar", Type: typ, Scalar: &rc}
		// the first payloads of the first few violating fields are reported with a replay (the report keeps
		// 20 violations in all: the differential run must find room for its programs); every violating
		// field is listed in a note
		violation := func(sig, what string, cas any) {
			sp.bad[key]++
			if len(sp.bad) <= 4 && sp.bad[key] <= 2 {
				c.Violation(sig, what, cas)
			} else {
				c.Hit("scalar-probe:violations-not-listed")
				c.Res.ViolationCount++
			}
		}
		if ls.err != "" {
			violation("scalar:"+key, fmt.Sprintf("with %s.%s = %s (%s) at block depth %d the generated Go text no longer parses: %s", typ, sf.Name, showPayload(kind, payload), kind, d, ls.err), cas)
			return
		}
		if !present(ls, base[d]) {
			if why, ok := scalarDerived[key]; ok {
				c.Hit("scalar-probe:derived")
				_ = why
				return
			}
			violation("scalar:"+key, fmt.Sprintf("the Go text generated for a %s whose %s field %s is %s (block depth %d) depends on the field but contains no literal that evaluates to exactly that value: the compiled program carries another %s than the parser built%s",
				typ, kind, sf.Name, showPayload(kind, payload), d, kind, nearest(kind, payload, ls, base[d])), cas)
			return
		}
		if sp.m != nil {
			switch {
			case kind == "string":
				sp.tieStrings(rc, payload, ls)
			case kind == "int" || kind == "uint":
				sp.tieInt(rc, payload, ls)
			case kind == "float" && payload == "8000000000000000":
				sp.tieText(rc, "float negzero", text)
			}
		}
	}
	switch f.Kind() {
	case reflect.String:
		old := f.String()
		vals := scValues(0, true)
		for i, pv := range vals {
			p := pv.V
			if p == old {
				continue
			}
			check(i, "string", hex.EncodeToString([]byte(p)), func() { f.SetString(p) },
				func(ls, b *litSet) bool { return ls.strs[p] > b.strs[p] })
		}
		f.SetString(old)
	case reflect.Int, reflect.Int8, reflect.Int16, reflect.Int32, reflect.Int64:
		old := f.Int()
		for i, p := range probeInts {
			p := p
			if p == old || !fitsInt(f.Kind(), p) {
				continue
			}
			s := strconv.FormatInt(p, 10)
			check(i, "int", s, func() { f.SetInt(p) }, func(ls, b *litSet) bool { return ls.nums[s] > b.nums[s] })
		}
		f.SetInt(old)
	case reflect.Uint, reflect.Uint8, reflect.Uint16, reflect.Uint32, reflect.Uint64:
		old := f.Uint()
		for i, p0 := range probeInts {
			p := uint64(p0)
			if p0 < 0 {
				p = uint64(-(p0 + 1))
			}
			if p == old || !fitsUint(f.Kind(), p) {
				continue
			}
			s := strconv.FormatUint(p, 10)
			check(i, "uint", s, func() { f.SetUint(p) }, func(ls, b *litSet) bool { return ls.nums[s] > b.nums[s] })
		}
		f.SetUint(old)
	case reflect.Bool:
		old := f.Bool()
		// a bool has two values: a handler may as well choose between two code shapes (`cls.IsAbstract = true`
		// only when set); it is enough that the two texts differ and parse
		p := !old
		for i := 0; i < 3; i++ {
			check(i, "bool", strconv.FormatBool(p), func() { f.SetBool(p) }, func(ls, b *litSet) bool { return true })
		}
		f.SetBool(old)
	case reflect.Float32, reflect.Float64:
		old := f.Float()
		for i, p := range probeFloats {
			p := p
			if math.Float64bits(p) == math.Float64bits(old) || (f.Kind() == reflect.Float32 && float64(float32(p)) != p) {
				continue
			}
			bits := math.Float64bits(p)
			check(i, "float", strconv.FormatUint(bits, 16), func() { f.SetFloat(p) }, func(ls, b *litSet) bool { return ls.floats[bits] > b.floats[bits] })
		}
		f.SetFloat(old)
	}
}

func showPayload(kind, payload string) string {
	switch kind {
	case "string":
		b, _ := hex.DecodeString(payload)
		s := strconv.Quote(string(b))
		if len(s) > 120 {
			s = s[:120] + "…"
		}
		return s
	case "float":
		bits, _ := strconv.ParseUint(payload, 16, 64)
		f := math.Float64frombits(bits)
		if f == 0 && math.Signbit(f) {
			return "-0.0"
		}
		return strconv.FormatFloat(f, 'g', -1, 64)
	}
	return payload
}

// nearest: what the text carries instead (the literal that is new against the baseline).
func nearest(kind, payload string, ls, b *litSet) string {
	switch kind {
	case "string":
		for s, k := range ls.strs {
			if k > b.strs[s] {
				q := strconv.Quote(s)
				if len(q) > 160 {
					q = q[:160] + "…"
				}
				return "; it carries " + q
			}
		}
	case "int", "uint":
		for s, k := range ls.nums {
			if k > b.nums[s] {
				return "; it carries " + s
			}
		}
	case "float":
		for bits, k := range ls.floats {
			if k > b.floats[bits] {
				return "; it carries " + showPayload("float", strconv.FormatUint(bits, 16))
			}
		}
	}
	return ""
}

// tieStrings: Lean `unquote` on every string literal of the real text = strconv's reading, and the
// literal that carries the payload = Lean `quote` of the payload.
func (sp *scalarProbe) tieStrings(rc scalarReplay, payloadHex string, ls *litSet) {
	p, _ := hex.DecodeString(payloadHex)
	for lit, val := range ls.raw {
		if len(lit) > 4000 {
			continue
		}
		if !sp.asked["u"+lit] {
			sp.asked["u"+lit] = true
			sp.askQ = append(sp.askQ, "unquote "+hex.EncodeToString([]byte(lit)))
			sp.askWant = append(sp.askWant, "ok "+hex.EncodeToString([]byte(val)))
			sp.askCase = append(sp.askCase, rc)
		}
		if val == string(p) && !sp.asked["q"+lit] {
			cmd := quoteCmd(string(p))
			if cmd == "" {
				continue
			}
			sp.asked["q"+lit] = true
			sp.askQ = append(sp.askQ, cmd+" "+payloadHex)
			sp.askWant = append(sp.askWant, "ok "+hex.EncodeToString([]byte(lit)))
			sp.askCase = append(sp.askCase, rc)
		}
	}
}

// tieInt: the text the model's `showInt` prints is the text of a numeric literal of the real output, and
// the model reads it back as the payload.
func (sp *scalarProbe) tieInt(rc scalarReplay, payload string, ls *litSet) {
	if sp.asked["i"+payload] {
		return
	}
	sp.asked["i"+payload] = true
	ans, err := sp.m.Ask("int " + payload)
	if err != nil {
		return
	}
	sp.c.Res.Traces++
	sp.c.Hit("scalar-tie:int")
	f := strings.Fields(ans)
	ok := len(f) == 3 && f[0] == "ok" && f[2] == payload
	if ok {
		t, _ := hex.DecodeString(f[1])
		ok = ls.numRaw[string(t)]
	}
	if !ok {
		var have []string
		for k := range ls.numRaw {
			have = append(have, k)
		}
		sort.Strings(have)
		sp.c.Mismatch(replayCase{Kind: "scalar", Type: rc.Type, Scalar: &rc}, "numeric literals of the real text: "+strings.Join(have, " "), ans, "the real Generator's text of an integer vs Model.EmitQuote.showInt/readInt ("+payload+")")
	}
}

// tieText: the model's text for the case occurs in the real output.
func (sp *scalarProbe) tieText(rc scalarReplay, ask, text string) {
	if sp.asked[ask] {
		return
	}
	sp.asked[ask] = true
	ans, err := sp.m.Ask(ask)
	if err != nil {
		return
	}
	sp.c.Res.Traces++
	sp.c.Hit("scalar-tie:" + strings.Fields(ask)[0])
	f := strings.Fields(ans)
	ok := len(f) == 2 && f[0] == "ok"
	if ok {
		t, _ := hex.DecodeString(f[1])
		ok = strings.Contains(text, string(t))
	}
	if !ok {
		sp.c.Mismatch(replayCase{Kind: "scalar", Type: rc.Type, Scalar: &rc}, firstLines(text, 30), ans, "the real Generator's text vs Model.EmitQuote ("+ask+")")
	}
}

// quoteCmd: which instance of the model's `quote` applies (the table of printable runes is a parameter
// of the model): all multi-byte runes printable, none printable, or mixed (no textual comparison).
func quoteCmd(p string) string {
	all, none := true, true
	for i := 0; i < len(p); {
		r, w := utf8.DecodeRuneInString(p[i:])
		if r >= utf8.RuneSelf && !(r == utf8.RuneError && w == 1) {
			if strconv.IsPrint(r) {
				none = false
			} else {
				all = false
			}
		}
		i += w
	}
	switch {
	case all:
		return "quote"
	case none:
		return "quotenp"
	}
	return ""
}

func (sp *scalarProbe) flush() {
	if sp.m == nil || len(sp.askQ) == 0 {
		return
	}
	ans, err := sp.m.AskBatch(sp.askQ)
	if err != nil {
		sp.c.Note("scalar tie: model did not answer: %v", err)
		return
	}
	for i, a := range ans {
		sp.c.Res.Traces++
		sp.c.Hit("scalar-tie:" + strings.Fields(sp.askQ[i])[0])
		if a != sp.askWant[i] {
			rc := sp.askCase[i]
			sp.c.Mismatch(replayCase{Kind: "scalar", Type: rc.Type, Scalar: &rc}, sp.askWant[i], a, "Go's reading / the real Generator's text of a string literal vs Model.EmitQuote ("+sp.askQ[i][:min(len(sp.askQ[i]), 200)]+")")
		}
	}
	sp.askQ, sp.askWant, sp.askCase = nil, nil, nil
}

func isScalarKind(k reflect.Kind) bool {
	switch k {
	case reflect.String, reflect.Bool, reflect.Float32, reflect.Float64,
		reflect.Int, reflect.Int8, reflect.Int16, reflect.Int32, reflect.Int64,
		reflect.Uint, reflect.Uint8, reflect.Uint16, reflect.Uint32, reflect.Uint64:
		return true
	}
	return false
}

// scalarStream: every scalar field of every node type found.
func scalarStream(c *vh.Ctx, m *vh.Model, inst map[string]data.GetValue, only *scalarReplay) {
	sp := &scalarProbe{c: c, m: m, asked: map[string]bool{}, bad: map[string]int{}}
	var names []string
	for n := range inst {
		names = append(names, n)
	}
	sort.Strings(names)
	fields := 0
	for _, name := range names {
		if only != nil && only.Type != name {
			continue
		}
		t := reflect.TypeOf(inst[name]).Elem()
		for i := 0; i < t.NumField(); i++ {
			if !isScalarKind(t.Field(i).Type.Kind()) || (only != nil && only.Field != t.Field(i).Name) {
				continue
			}
			fields++
			sp.probeField(name, inst[name], i, only)
			sp.flush()
		}
	}
	c.Note("scalar probe: %d scalar fields of %d node types", fields, len(names))
	if len(sp.bad) > 0 {
		var ks []string
		for k, n := range sp.bad {
			ks = append(ks, fmt.Sprintf("%s (%d payloads)", k, n))
		}
		sort.Strings(ks)
		c.Note("scalar probe: fields whose payload does not survive the generated text: %s", strings.Join(ks, ", "))
	}
}
