package c16

// Per-file state versus per-node state. The generator emits one source FILE at a
// time and keeps a few per-file values (`Generator.file`, `Generator.namespace` =
// ParsedFile.Namespace = the parser's namespace AFTER the whole file was parsed, i.e. the
// LAST namespace section). Several AST nodes carry the same kind of information per NODE (the
// namespace in force where an unresolved call / static access was written). An emitter that
// takes such a value from the generator instead of from the node produces the same text for
// every file in which all nodes agree with the file-level value — every file with zero or one
// `namespace` line, which is every file of the repository's tests and of the previous feature
// alphabet (`assemble` hoists a feature's namespace line to the top: one section per file) — and
// a wrong program for a file with several sections.
//
// The features of this file are WHOLE files (never mixed, never hoisted): k = 2..3 namespace
// sections in every layout this parser accepts (unbraced, nested name, braced, unbraced then
// braced, global code first, a namespace re-opened) x in every section the constructs whose
// meaning depends on the section's namespace: functions with the same short name in every
// section, functions that exist in one section only, forward references, closures / arrow
// functions / generators, qualified and relative names, builtins through the global fallback,
// constants, classes of namespaced library files (new, static call, instanceof, type hint, use
// alias) — and the same inside LIBRARY files with several sections. Every function and method
// answers with the label of the section it was declared in, so a call resolved against another
// section prints another label (or dies with "function not found").
//
// `// ns-expect: <text>` lines name what the interpreted run must print (non-vacuity:
// `ns:effective` / `ns:ineffective:<tag>`).

import (
	"fmt"
	"strings"

	"verif/harness/vh"
)

// nsSec: one section of a file.
type nsSec struct {
	NS     string // namespace name ("" = code before any namespace line)
	L      string // label printed by everything declared in the section
	Braced bool
	// Tail: statements that follow the closing brace of a braced section without a namespace line of
	// their own (this parser makes them part of that namespace)
	Tail  bool
	First bool // the first section of the file with this namespace (a re-opened namespace cannot redeclare)
}

type nsShape struct {
	Tag  string
	Secs func(u string) []nsSec
}

func nsName(u, l string) string { return "N" + u + l }

var nsShapes = []nsShape{
	{"two", func(u string) []nsSec {
		return []nsSec{{NS: nsName(u, "a"), L: "a"}, {NS: nsName(u, "b"), L: "b"}}
	}},
	{"three", func(u string) []nsSec {
		return []nsSec{{NS: nsName(u, "a"), L: "a"}, {NS: nsName(u, "b"), L: "b"}, {NS: nsName(u, "c"), L: "c"}}
	}},
	{"sub", func(u string) []nsSec { // a nested name: the second section lives below the first
		return []nsSec{{NS: nsName(u, "a"), L: "a"}, {NS: nsName(u, "a") + "\\Sub", L: "s"}, {NS: nsName(u, "b"), L: "b"}}
	}},
	{"sublast", func(u string) []nsSec { // the LAST section's name extends the first one's
		return []nsSec{{NS: nsName(u, "a"), L: "a"}, {NS: nsName(u, "a") + "\\Sub", L: "s"}}
	}},
	{"global-first", func(u string) []nsSec { // code before the first namespace line
		return []nsSec{{NS: "", L: "g"}, {NS: nsName(u, "a"), L: "a"}, {NS: nsName(u, "b"), L: "b"}}
	}},
	{"reopened", func(u string) []nsSec { // a; b; a again: the file's last namespace is the first one
		return []nsSec{{NS: nsName(u, "a"), L: "a"}, {NS: nsName(u, "b"), L: "b"}, {NS: nsName(u, "a"), L: "r"}}
	}},
	// braced sections: this parser parses the statements between the braces and DROPS them (nothing is
	// declared, nothing runs — on both sides); the statements after the closing brace join the namespace
	{"braced", func(u string) []nsSec {
		return []nsSec{{NS: nsName(u, "a"), L: "x", Braced: true}, {NS: nsName(u, "a"), L: "a", Tail: true}, {NS: nsName(u, "b"), L: "y", Braced: true}, {NS: nsName(u, "b"), L: "b", Tail: true}}
	}},
	{"then-braced", func(u string) []nsSec { // unbraced first, a braced one after it
		return []nsSec{{NS: nsName(u, "a"), L: "a"}, {NS: nsName(u, "b"), L: "y", Braced: true}, {NS: nsName(u, "b"), L: "b", Tail: true}}
	}},
}

func nsShapeByTag(t string) *nsShape {
	for i := range nsShapes {
		if nsShapes[i].Tag == t {
			return &nsShapes[i]
		}
	}
	return nil
}

func markFirst(secs []nsSec) []nsSec {
	seen := map[string]bool{}
	for i := range secs {
		if secs[i].Braced {
			continue // (dropped by the parser: declares nothing)
		}
		secs[i].First = !seen[secs[i].NS]
		seen[secs[i].NS] = true
	}
	return secs
}

// fq: the fully qualified call prefix of a section (`\Na\`, or `\` for global code)
func (s nsSec) fq() string {
	if s.NS == "" {
		return "\\"
	}
	return "\\" + s.NS + "\\"
}

// nsElem: what every section of the file declares and does. decl = the section's statements
// (declarations + its own top-level code); final = statements of the LAST section that call back
// into every section through qualified names; expect = texts the interpreted run must print;
// libs = library files (relative path -> source).
type nsElem struct {
	Tag  string
	Sec  func(r *vh.Rand, u string, s nsSec, all []nsSec) string
	Fin  func(u string, all []nsSec) string
	Exp  func(all []nsSec) []string
	Libs func(r *vh.Rand, u string, all []nsSec) map[string]string
	// Skip: the element makes no sense for the shape (returns true)
	Skip func(shape string) bool
}

func runAll(fn string) func(u string, all []nsSec) string {
	return func(u string, all []nsSec) string {
		var sb strings.Builder
		for _, s := range all {
			if s.Braced {
				continue // nothing is declared there
			}
			fmt.Fprintf(&sb, "echo \"fin %s:\", %s%s_%s(), \"\\n\";\n", s.L, s.fq(), fn, s.L)
		}
		return sb.String()
	}
}

// firstOf: the label of the first section with the namespace of s (whose `same` function a re-opened section calls)
func firstOf(s nsSec, all []nsSec) string {
	for _, t := range all {
		if t.NS == "" && !t.Braced {
			return t.L // a global function of that name answers first in this interpreter
		}
	}
	for _, t := range all {
		if t.NS == s.NS && !t.Braced {
			return t.L
		}
	}
	return s.L
}

var nsElems = []nsElem{
	{Tag: "same", // the same short name in every section: a call resolved elsewhere answers with another label
		Sec: func(r *vh.Rand, u string, s nsSec, all []nsSec) string {
			L := s.L
			var sb strings.Builder
			if s.First {
				fmt.Fprintf(&sb, "function same() { return '%s.same'; }\n", L)
			}
			fmt.Fprintf(&sb, "function run_%s() {\n  $c = function($x) { return same() . $x; };\n  $a = fn($x) => same() . $x;\n  $v = same();\n  $arr = [same(), 'k' => same()];\n  return same() . ',' . $c('c') . ',' . $a('a') . ',' . strtoupper(same()) . ',' . $v . ',' . implode('+', $arr) . ',' . (same() == '%s.same' ? 'eq' : 'ne') . ',' . strlen(same());\n}\n", L, firstOf(s, all))
			fmt.Fprintf(&sb, "echo \"top %s:\", same(), ',', run_%s(), \"\\n\";\n", L, L)
			return sb.String()
		},
		Fin: runAll("run"),
		Exp: func(all []nsSec) []string {
			var out []string
			for _, s := range all {
				if !s.Braced {
					out = append(out, "top "+s.L+":"+firstOf(s, all)+".same,")
				}
			}
			return out
		}},
	{Tag: "only", // a function that exists in one section only: resolved elsewhere it is not found
		Sec: func(r *vh.Rand, u string, s nsSec, all []nsSec) string {
			L := s.L
			k := n(r, 2, 9)
			return fmt.Sprintf("function only_%s($n) { return '%s.only' . $n; }\nfunction run_%s() {\n  $c = function() { return only_%s(1); };\n  $a = fn($x) => only_%s($x);\n  return only_%s(%d) . ',' . $c() . ',' . $a(3) . ',' . implode('+', array_map(fn($x) => only_%s($x), [4, 5]));\n}\necho \"top %s:\", only_%s(0), ',', run_%s(), \"\\n\";\n", L, L, L, L, L, L, k, L, L, L, L)
		},
		Fin: runAll("run"),
		Exp: func(all []nsSec) []string {
			var out []string
			for _, s := range all {
				if !s.Braced {
					out = append(out, "top "+s.L+":"+s.L+".only0,")
				}
			}
			return out
		}},
	{Tag: "fwd", // forward references and recursion inside a section
		Sec: func(r *vh.Rand, u string, s nsSec, all []nsSec) string {
			L := s.L
			return fmt.Sprintf("function first_%s($n) { return 'first>' . second_%s($n); }\nfunction second_%s($n) { return $n <= 0 ? '%s.end' : '%s' . $n . '>' . second_%s($n - 1); }\nfunction gen_%s() { yield second_%s(0); yield first_%s(1); }\nfunction run_%s() { $o = ''; foreach (gen_%s() as $v) { $o .= $v . ';'; } return first_%s(%d) . '|' . $o; }\necho \"top %s:\", run_%s(), \"\\n\";\n", L, L, L, L, L, L, L, L, L, L, L, L, n(r, 1, 3), L, L)
		},
		Fin: runAll("run"),
		Exp: func(all []nsSec) []string {
			var out []string
			for _, s := range all {
				if !s.Braced {
					out = append(out, "top "+s.L+":first>"+s.L)
				}
			}
			return out
		}},
	{Tag: "qual", // qualified names into the other sections, relative names below the own one, the global fallback
		Sec: func(r *vh.Rand, u string, s nsSec, all []nsSec) string {
			L := s.L
			var sb strings.Builder
			if s.First {
				fmt.Fprintf(&sb, "function same() { return '%s.same'; }\n", L)
			}
			fmt.Fprintf(&sb, "function q_%s() { return '%s.q'; }\n", L, L)
			fmt.Fprintf(&sb, "function run_%s() {\n  return same()", L)
			for _, t := range all {
				if t.Braced {
					continue // (this parser drops the statements of a braced namespace: nothing is declared there)
				}
				fmt.Fprintf(&sb, " . ',' . %ssame() . '/' . %sq_%s()", t.fq(), t.fq(), t.L)
				// a relative name: Sub\q_s() inside the section whose name is the prefix
				if s.NS != "" && strings.HasPrefix(t.NS, s.NS+"\\") {
					fmt.Fprintf(&sb, " . ',rel:' . %s\\q_%s()", strings.TrimPrefix(t.NS, s.NS+"\\"), t.L)
				}
			}
			sb.WriteString(" . ',' . strlen(same()) . \\strlen('xy') . strtoupper('u') . count([1, 2]);\n}\n")
			return sb.String()
		},
		Fin: runAll("run"),
		Exp: func(all []nsSec) []string {
			for _, s := range all {
				if !s.Braced {
					return []string{"fin " + s.L + ":" + firstOf(s, all) + ".same,"}
				}
			}
			return nil
		}},
	{Tag: "const", // a constant of the same name per section
		Sec: func(r *vh.Rand, u string, s nsSec, all []nsSec) string {
			L := s.L
			var sb strings.Builder
			if s.First {
				fmt.Fprintf(&sb, "const KON = '%s.kon%d';\n", L, n(r, 0, 9))
			}
			fmt.Fprintf(&sb, "const ONLY_%s = '%s.konly';\n", strings.ToUpper(L), L)
			fmt.Fprintf(&sb, "function run_%s() { return 'r' . same_%s(); }\nfunction same_%s() { return '%s'; }\n", L, L, L, L)
			fmt.Fprintf(&sb, "echo \"top %s:\", KON, ',', ONLY_%s, ',', run_%s(), \"\\n\";\n", L, strings.ToUpper(L), L)
			return sb.String()
		},
		Fin: runAll("run"),
		Exp: func(all []nsSec) []string {
			var out []string
			for _, s := range all {
				if !s.Braced && s.First {
					out = append(out, "top "+s.L+":"+s.L+".kon")
				}
			}
			return out
		}},
	{Tag: "class", // classes of namespaced library files, named without qualification in every section
		Skip: func(shape string) bool { return shape == "global-first" },
		Libs: func(r *vh.Rand, u string, all []nsSec) map[string]string {
			libs := map[string]string{}
			for _, s := range all {
				if !s.First || s.NS == "" {
					continue
				}
				dir := strings.ReplaceAll(s.NS, "\\", "/")
				libs[dir+"/Pt.php"] = fmt.Sprintf("<?php\nnamespace %s;\nclass Pt {\n  public $v;\n  function __construct($v = %d) { $this->v = $v; }\n  function who() { return '%s.Pt' . $this->v; }\n  static function make($v) { return new Pt($v); }\n  static function tag() { return '%s.tag'; }\n}\n", s.NS, n(r, 1, 9), s.L, s.L)
			}
			return libs
		},
		Sec: func(r *vh.Rand, u string, s nsSec, all []nsSec) string {
			L := s.L
			// (`instanceof $name` resolves a relative class name against the namespace the running code is in:
			// the one observer of the NAME a Namespace node carries)
			return fmt.Sprintf("function mk_%s(Pt $p) { return $p->who() . ($p instanceof Pt ? 'I' : 'n'); }\nfunction run_%s() {\n  $o = new Pt(7);\n  return $o->who() . ',' . Pt::make(8)->who() . ',' . Pt::tag() . ',' . mk_%s(new Pt()) . ',' . get_class($o);\n}\n$cn_%s = 'Pt'; $o_%s = new Pt(1);\necho \"top %s:\", $o_%s->who(), ',', Pt::tag(), ',', run_%s(), ',', ($o_%s instanceof $cn_%s) ? 'D' : 'd', \"\\n\";\n", L, L, L, L, L, L, L, L, L, L)
		},
		Fin: runAll("run"),
		Exp: func(all []nsSec) []string {
			var out []string
			for _, s := range all {
				if !s.Braced {
					out = append(out, "top "+s.L+":"+firstOf(s, all)+".Pt1,"+firstOf(s, all)+".tag,")
				}
			}
			return out
		}},
	{Tag: "use", // a `use` alias written in one section and the same alias name in the next
		Skip: func(shape string) bool { return shape == "global-first" || shape == "reopened" },
		Libs: func(r *vh.Rand, u string, all []nsSec) map[string]string {
			libs := map[string]string{}
			for _, s := range all {
				if !s.First || s.NS == "" {
					continue
				}
				dir := strings.ReplaceAll(s.NS, "\\", "/")
				libs[dir+"/Box.php"] = fmt.Sprintf("<?php\nnamespace %s;\nclass Box {\n  function who() { return '%s.Box'; }\n  static function tag() { return '%s.btag'; }\n}\n", s.NS, s.L, s.L)
			}
			return libs
		},
		Sec: func(r *vh.Rand, u string, s nsSec, all []nsSec) string {
			L := s.L
			// every section imports the Box of the NEXT section under an alias of its own
			nx := all[0]
			for i, t := range all {
				if t.L == s.L {
					nx = all[(i+1)%len(all)]
				}
			}
			return fmt.Sprintf("use %s\\Box as Other%s;\nfunction run_%s() { return (new Box())->who() . ',' . (new Other%s())->who() . ',' . Other%s::tag() . ',' . Box::tag(); }\necho \"top %s:\", run_%s(), \"\\n\";\n", nx.NS, strings.ToUpper(L), L, strings.ToUpper(L), strings.ToUpper(L), L, L)
		},
		Fin: runAll("run"),
		Exp: func(all []nsSec) []string {
			var out []string
			for _, s := range all {
				if !s.Braced {
					out = append(out, "top "+s.L+":"+s.L+".Box,")
				}
			}
			return out
		}},
}

// nsFile assembles the sections of one file.
func nsFile(r *vh.Rand, u string, secs []nsSec, e *nsElem) string {
	var sb strings.Builder
	sb.WriteString("<?php\n")
	for i, s := range secs {
		body := e.Sec(r, u, s, secs)
		fin := ""
		if i == len(secs)-1 && e.Fin != nil {
			fin = e.Fin(u, secs)
		}
		switch {
		case s.NS == "" || s.Tail:
			sb.WriteString(body + fin)
		case s.Braced:
			// (statements after the closing brace join the namespace in this parser)
			fmt.Fprintf(&sb, "namespace %s {\n%s}\n%s", s.NS, body, fin)
		default:
			fmt.Fprintf(&sb, "namespace %s;\n%s%s", s.NS, body, fin)
		}
	}
	return sb.String()
}

func nsExpectLines(exp []string) string {
	var sb strings.Builder
	for _, e := range exp {
		sb.WriteString("// ns-expect: " + e + "\n")
	}
	return sb.String()
}

// nsLibElems: the same constructs inside a LIBRARY file with several sections (library files are
// declarations only: Register() runs every library file of the build in every compiled run). The
// file lives where psr-4 finds the class of its FIRST section; the classes and functions of the
// other sections come into being with it.
type nsLibElem struct {
	Tag string
	Sec func(r *vh.Rand, u string, s nsSec, all []nsSec) string
	// Entry: the entry script (no namespace of its own); the first section's class is named first
	Entry func(u string, all []nsSec) string
	Exp   func(all []nsSec) []string
}

func libEntry(call func(s nsSec) string) func(u string, all []nsSec) string {
	return func(u string, all []nsSec) string {
		var sb strings.Builder
		for _, s := range all {
			if !s.First {
				continue
			}
			fmt.Fprintf(&sb, "echo \"lib %s:\", %s, \"\\n\";\n", s.L, call(s))
		}
		return sb.String()
	}
}

var nsLibElems = []nsLibElem{
	{Tag: "method-same", // a method calls a function whose short name exists in every section of its file
		Sec: func(r *vh.Rand, u string, s nsSec, all []nsSec) string {
			return fmt.Sprintf("function same() { return '%s.same'; }\nclass C%s {\n  function who() { $c = fn($x) => same() . $x; return same() . ',' . $c('!') . ',' . self::st(); }\n  static function st() { return 'st>' . same(); }\n}\n", s.L, s.L)
		},
		Entry: libEntry(func(s nsSec) string {
			return fmt.Sprintf("(new %sC%s())->who(), ',', %sC%s::st(), ',', %ssame()", s.fq(), s.L, s.fq(), s.L, s.fq())
		}),
		Exp: func(all []nsSec) []string {
			var out []string
			for _, s := range all {
				out = append(out, "lib "+s.L+":"+s.L+".same,"+s.L+".same!")
			}
			return out
		}},
	{Tag: "method-only", // … a function that exists in its own section only, declared after the class
		Sec: func(r *vh.Rand, u string, s nsSec, all []nsSec) string {
			return fmt.Sprintf("class C%s {\n  public $p = 'p%d';\n  function who() { return only_%s($this->p) . ',' . (function() { return only_%s('c'); })(); }\n}\nfunction only_%s($x) { return '%s.only' . $x; }\n", s.L, n(r, 0, 9), s.L, s.L, s.L, s.L)
		},
		Entry: libEntry(func(s nsSec) string { return fmt.Sprintf("(new %sC%s())->who()", s.fq(), s.L) }),
		Exp: func(all []nsSec) []string {
			var out []string
			for _, s := range all {
				out = append(out, "lib "+s.L+":"+s.L+".onlyp")
			}
			return out
		}},
	{Tag: "class-ref", // a method names a class of its own section without qualification (new / static / instanceof)
		Sec: func(r *vh.Rand, u string, s nsSec, all []nsSec) string {
			return fmt.Sprintf("class Helper {\n  function tag() { return '%s.helper'; }\n  static function st() { return '%s.hst'; }\n}\nclass C%s {\n  function who() { $h = new Helper(); return $h->tag() . ',' . Helper::st() . ',' . ($h instanceof Helper ? 'I' : 'n') . ',' . get_class($h); }\n}\n", s.L, s.L, s.L)
		},
		Entry: libEntry(func(s nsSec) string { return fmt.Sprintf("(new %sC%s())->who()", s.fq(), s.L) }),
		Exp: func(all []nsSec) []string {
			var out []string
			for _, s := range all {
				out = append(out, "lib "+s.L+":"+s.L+".helper,"+s.L+".hst,I")
			}
			return out
		}},
}

func init() {
	// magic constants: what the parser knows per NODE about the place a piece of code is written in
	// (function, class, method, file, line) — the generator knows one file name per file
	nsElems = append(nsElems, nsElem{Tag: "magic",
		Sec: func(r *vh.Rand, u string, s nsSec, all []nsSec) string {
			L := s.L
			return fmt.Sprintf("function run_%s() { $c = function() { return __FUNCTION__; }; return __FUNCTION__ . '|' . $c() . '|' . basename(__FILE__) . '|' . __LINE__; }\nfunction other_%s() { return __FUNCTION__; }\necho \"top %s:\", run_%s(), ',', other_%s(), ',', basename(__FILE__), ',', basename(__DIR__), ',', __LINE__, \"\\n\";\n", L, L, L, L, L)
		},
		Fin: runAll("run"),
		Exp: func(all []nsSec) []string {
			var out []string
			for _, s := range all {
				if !s.Braced {
					out = append(out, "run_"+s.L+"|")
				}
			}
			return out
		}})
	nsLibElems = append(nsLibElems, nsLibElem{Tag: "magic",
		Sec: func(r *vh.Rand, u string, s nsSec, all []nsSec) string {
			return fmt.Sprintf("function lf_%s() { return __FUNCTION__; }\nclass C%s {\n  function who() { return __CLASS__ . '|' . __METHOD__ . '|' . __FUNCTION__ . '|' . basename(__FILE__) . '|' . basename(__DIR__) . '|' . __LINE__ . '|' . self::st() . '|' . lf_%s(); }\n  static function st() { return __METHOD__; }\n}\n", s.L, s.L, s.L)
		},
		Entry: libEntry(func(s nsSec) string { return fmt.Sprintf("(new %sC%s())->who()", s.fq(), s.L) }),
		Exp: func(all []nsSec) []string {
			var out []string
			for _, s := range all {
				out = append(out, "C"+s.L+"|")
			}
			return out
		}})
	nsElems = append(nsElems, nsElem{Tag: "vars", // the top-level variables of all sections live in ONE scope (ParsedFile.Variables); closures capture them
		Sec: func(r *vh.Rand, u string, s nsSec, all []nsSec) string {
			L := s.L
			return fmt.Sprintf("$v_%s = '%s%d'; $shared = ($shared ?? '') . '%s';\n$cl_%s = function($x) use ($v_%s, $shared) { return $v_%s . $x . $shared; };\nfunction run_%s() { static $n = 0; $n++; $loc = '%s'; return $loc . $n; }\necho \"top %s:\", $v_%s, ',', $shared, ',', $cl_%s('!'), ',', run_%s(), \"\\n\";\n", L, L, n(r, 0, 9), L, L, L, L, L, L, L, L, L, L)
		},
		Fin: func(u string, all []nsSec) string {
			var sb strings.Builder
			for _, s := range all {
				if s.Braced {
					continue
				}
				fmt.Fprintf(&sb, "echo \"fin %s:\", $v_%s, ',', $cl_%s('?'), ',', %srun_%s(), \"\\n\";\n", s.L, s.L, s.L, s.fq(), s.L)
			}
			return sb.String()
		},
		Exp: func(all []nsSec) []string {
			var out []string
			for _, s := range all {
				if !s.Braced {
					out = append(out, "fin "+s.L+":"+s.L)
				}
			}
			return out
		}})
}

// nsMultis: feature tag -> program builder (FeatProg)
var nsMultis = map[string]func(r *vh.Rand, u, kind string) *Prog{}

func nsProg(tag string, r *vh.Rand, u, kind string, sh *nsShape, e *nsElem) *Prog {
	secs := markFirst(sh.Secs(u))
	src := nsFile(r, u, secs, e)
	if e.Exp != nil {
		src += nsExpectLines(e.Exp(secs))
	}
	p := &Prog{Name: u, Kind: kind, Tags: []string{tag}, Libs: map[string]string{}, Src: src}
	if e.Libs != nil {
		for k, v := range e.Libs(r, u, secs) {
			p.Libs[k] = v
		}
	}
	return p
}

func nsLibProg(tag string, r *vh.Rand, u, kind string, sh *nsShape, e *nsLibElem) *Prog {
	secs := markFirst(sh.Secs(u))
	var sb strings.Builder
	sb.WriteString("<?php\n")
	for _, s := range secs {
		fmt.Fprintf(&sb, "namespace %s;\n%s", s.NS, e.Sec(r, u, s, secs))
	}
	first := secs[0]
	p := &Prog{Name: u, Kind: kind, Tags: []string{tag}, Libs: map[string]string{}}
	p.Libs[strings.ReplaceAll(first.NS, "\\", "/")+"/C"+first.L+".php"] = sb.String()
	p.Src = "<?php\n" + e.Entry(u, secs) + nsExpectLines(e.Exp(secs))
	return p
}

// library files: the layouts whose sections all have a namespace, are not braced and not re-opened
var nsLibShapes = []string{"two", "three", "sub", "sublast"}

func init() {
	for i := range nsShapes {
		sh := &nsShapes[i]
		for j := range nsElems {
			e := &nsElems[j]
			if e.Skip != nil && e.Skip(sh.Tag) {
				continue
			}
			tag := "ns-" + sh.Tag + "-" + e.Tag
			group := "ns"
			if e.Libs != nil {
				group = "nscls"
			}
			nsMultis[tag] = func(r *vh.Rand, u, kind string) *Prog { return nsProg(tag, r, u, kind, sh, e) }
			features = append(features, feature{Tag: tag, Group: group, Whole: true, Gen: func(r *vh.Rand, u string) (string, map[string]string) {
				p := nsProg(tag, r, u, "feat", sh, e)
				return strings.TrimPrefix(p.Src, "<?php\n"), p.Libs
			}})
		}
	}
	for _, st := range nsLibShapes {
		sh := nsShapeByTag(st)
		for j := range nsLibElems {
			e := &nsLibElems[j]
			tag := "nslib-" + sh.Tag + "-" + e.Tag
			nsMultis[tag] = func(r *vh.Rand, u, kind string) *Prog { return nsLibProg(tag, r, u, kind, sh, e) }
			features = append(features, feature{Tag: tag, Group: "nscls", Whole: true, Gen: func(r *vh.Rand, u string) (string, map[string]string) {
				p := nsLibProg(tag, r, u, "feat", sh, e)
				return strings.TrimPrefix(p.Src, "<?php\n"), p.Libs
			}})
		}
	}
}

// nsExpectOf extracts the `// ns-expect:` texts of a source.
func nsExpectOf(src string) []string {
	var out []string
	for _, l := range strings.Split(src, "\n") {
		if strings.HasPrefix(l, "// ns-expect: ") {
			out = append(out, strings.TrimPrefix(l, "// ns-expect: "))
		}
	}
	return out
}

// nsEffect: the interpreted run of a ns program must show every section answering for itself
func nsEffect(c *vh.Ctx, p *Prog, io Obs) {
	if len(p.Tags) != 1 || !strings.HasPrefix(p.Tags[0], "ns") {
		return
	}
	for _, e := range nsExpectOf(p.Src) {
		if strings.Contains(io.Out, e) {
			c.Hit("ns:effective")
		} else {
			c.Hit("ns:ineffective:" + p.Tags[0])
			c.Note("section observer of %s does not print %q in the interpreted run: %s", p.Tags[0], e, io)
		}
	}
}
