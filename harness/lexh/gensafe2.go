package lexh

import (
	"fmt"
	"strings"

	"verif/harness/vh"
)

// GenSafe2: a richer side-effect-free program generator than GenSafe (which other harnesses rely
// on and which therefore stays as it is): classes with properties / methods / static members,
// interfaces and inheritance, class-init literals `K { p: v }`, match expressions, closures and
// arrow functions, named and spread arguments, list destructuring, do-while, compound assignment,
// heredoc, interpolation, casts, instanceof, isset/unset, break/continue, throw inside try,
// `{"k": v}` object literals. Echo is the only effect; loops have constant bounds.
//
// Every construct that takes an operand or a clause appears here so that its truncated and
// mutated forms are explored by the "accepted, then run" clause of C01.
func GenSafe2(r *vh.Rand) string {
	g := &sgen2{sgen: sgen{r: r}}
	var sb strings.Builder
	nc := r.Range(1, 2)
	for i := 0; i < nc; i++ {
		sb.WriteString(g.class(i))
	}
	nf := r.Intn(3)
	for i := 0; i < nf; i++ {
		fmt.Fprintf(&sb, "function f%d($a, $b = %d) {\n  static $calls = 0;\n  $calls++;\n%s  return %s;\n}\n", i, r.Intn(9), g.block2(2, 1), g.expr2(2))
		g.funcs = append(g.funcs, fmt.Sprintf("f%d", i))
	}
	sb.WriteString("$a = 1; $b = 2; $c = 'c'; $i = 0; $s = ''; $arr = [1, 2, 3];\n")
	sb.WriteString(g.block2(r.Range(3, 7), 0))
	return sb.String()
}

type sgen2 struct {
	sgen
	classes []string
}

func (g *sgen2) class(i int) string {
	name := fmt.Sprintf("K%d", i)
	g.classes = append(g.classes, name) // a method body may refer to its own class
	var sb strings.Builder
	if i == 0 {
		sb.WriteString("interface HasM { function m($x); }\n")
		fmt.Fprintf(&sb, "class %s implements HasM {\n", name)
	} else {
		fmt.Fprintf(&sb, "class %s extends K%d {\n", name, i-1)
	}
	fmt.Fprintf(&sb, "  public $p = %d;\n  public $q = 'q%d';\n  protected $r = [1, 2];\n  const C = %d;\n  public static $count = 0;\n", g.r.Intn(9), i, g.r.Intn(9))
	fmt.Fprintf(&sb, "  function m($x) {\n    return $x + $this->p;\n  }\n")
	fmt.Fprintf(&sb, "  function n%d($y = 1, $z = 2) {\n%s    return %s;\n  }\n", i, g.block2(1, 2), g.expr2(1))
	fmt.Fprintf(&sb, "  static function s($y) {\n    self::$count++;\n    return $y . self::C;\n  }\n}\n")
	return sb.String()
}

func (g *sgen2) cls() string { return vh.Pick(g.r, g.classes) }

func (g *sgen2) expr2(d int) string {
	if d <= 0 || g.r.Chance(25) {
		return g.atom()
	}
	switch g.r.Intn(22) {
	case 0:
		return "match (" + g.atom() + ") { 1, 2 => " + g.expr2(d-1) + ", 3 => " + g.expr2(d-1) + ", default => " + g.atom() + " }"
	case 1:
		return "(new " + g.cls() + "())->m(" + g.expr2(d-1) + ")"
	case 2:
		return g.cls() + "::s(" + g.expr2(d-1) + ")"
	case 3:
		return "(" + g.cls() + " { p: " + g.expr2(d-1) + ", q: " + g.atom() + " })->p"
	case 4:
		return "(function($x) use ($a) { return $x + $a; })(" + g.expr2(d-1) + ")"
	case 5:
		return "(fn($x) => $x * 2)(" + g.expr2(d-1) + ")"
	case 6:
		if len(g.funcs) > 0 {
			return vh.Pick(g.r, g.funcs) + "(b: " + g.expr2(d-1) + ", a: " + g.atom() + ")"
		}
	case 7:
		if len(g.funcs) > 0 {
			return vh.Pick(g.r, g.funcs) + "(...[" + g.atom() + ", " + g.atom() + "])"
		}
	case 8:
		return "(int)" + g.atom()
	case 9:
		return "(" + g.expr2(d-1) + " ?: " + g.expr2(d-1) + ")"
	case 10:
		return "(new " + g.cls() + "()) instanceof HasM"
	case 11:
		return "isset($arr[" + fmt.Sprint(g.r.Intn(4)) + "])"
	case 12:
		return "\"i={$a} j=${b} k=$arr[0]\""
	case 13:
		return g.cls() + "::C"
	case 14:
		return "{\"k\": " + g.expr2(d-1) + ", \"l\": " + g.atom() + "}"
	case 15:
		return "$arr[" + g.expr2(d-1) + " % 3]"
	case 16:
		return "count([" + g.expr2(d-1) + ", " + g.atom() + "])"
	case 17:
		return "([" + g.expr2(d-1) + ", " + g.atom() + "])[0]"
	case 18:
		return "[" + g.atom() + " => " + g.expr2(d-1) + ", 'k' => " + g.atom() + "]"
	}
	return g.expr(d)
}

func (g *sgen2) stmt2(ind int) string {
	p := strings.Repeat("  ", ind)
	if ind > 3 {
		return p + "echo " + g.expr2(1) + ";\n"
	}
	switch g.r.Intn(24) {
	case 0:
		return p + "$o = new " + g.cls() + "();\n" + p + "$o->p = " + g.expr2(1) + ";\n" + p + "echo $o->m(1), $o->q;\n"
	case 1:
		return p + "$i = 0;\n" + p + "do {\n" + p + "  $i++;\n" + g.block2(1, ind+1) + p + "} while ($i < 2);\n"
	case 2:
		return p + "[$a, $b] = [" + g.expr2(1) + ", " + g.atom() + "];\n"
	case 3:
		return p + "[, $b] = [1, " + g.atom() + "];\n"
	case 4:
		return p + vh.Pick(g.r, []string{"$a", "$b", "$i"}) + " " + vh.Pick(g.r, []string{"+=", "-=", "*=", "??=", ".="}) + " " + g.expr2(1) + ";\n"
	case 5:
		return p + "$s = <<<EOT\nline $a\n  {$b}\nEOT;\n"
	case 6:
		return p + "$arr[] = " + g.expr2(1) + ";\n"
	case 7:
		return p + "unset($arr[0]);\n" + p + "$arr = [1, 2, 3];\n"
	case 8:
		return p + "for ($i = 0; $i < 3; $i++) {\n" + p + "  if ($i == 1) {\n" + p + "    continue;\n" + p + "  }\n" + g.block2(1, ind+1) + p + "  if ($i == 2) {\n" + p + "    break;\n" + p + "  }\n" + p + "}\n"
	case 9:
		return p + "try {\n" + p + "  throw new Exception('e');\n" + p + "} catch (RuntimeException | LogicException $e) {\n" + p + "  echo 'r';\n" + p + "} catch (Exception $e) {\n" + p + "  echo $e->getMessage();\n" + p + "}\n"
	case 10:
		return p + "$f = function($x) use ($a) {\n" + g.block2(1, ind+1) + p + "  return $x;\n" + p + "};\n" + p + "echo $f(" + g.atom() + ");\n"
	case 11:
		return p + "switch (" + g.atom() + ") {\n" + p + "  case 1:\n" + p + "  case 2:\n" + g.block2(1, ind+2) + p + "    break;\n" + p + "  case 'x':\n" + p + "    echo 'x';\n" + p + "  default:\n" + g.block2(1, ind+2) + p + "}\n"
	case 12:
		return p + "foreach (['k' => 1, 'l' => 2] as $k => $v) {\n" + g.block2(1, ind+1) + p + "}\n"
	case 13:
		return p + "foreach ([[1, 2], [3, 4]] as [$x, $y]) {\n" + p + "  echo $x + $y;\n" + p + "}\n"
	case 14:
		return p + "echo " + g.expr2(2) + ", " + g.expr2(1) + ", \"\\n\";\n"
	case 15:
		return p + "$m = " + g.expr2(3) + ";\n"
	case 16:
		return p + "if (" + g.expr2(2) + ") {\n" + g.block2(1, ind+1) + p + "} elseif (" + g.expr2(1) + ") {\n" + g.block2(1, ind+1) + p + "} else {\n" + g.block2(1, ind+1) + p + "}\n"
	case 17:
		return p + "++$i;\n" + p + "$i--;\n"
	case 18:
		return p + "echo " + g.cls() + "::$count, " + g.cls() + "::C;\n"
	case 19:
		return p + "$o = " + g.cls() + " {\n" + p + "  p: " + g.expr2(1) + ",\n" + p + "  q: " + g.atom() + "\n" + p + "};\n" + p + "echo $o->p;\n"
	}
	return g.stmt(ind)
}

func (g *sgen2) block2(n, ind int) string {
	var sb strings.Builder
	for i := 0; i < n; i++ {
		sb.WriteString(g.stmt2(ind))
	}
	return sb.String()
}

// TokenCuts returns byte offsets in src that lie on (approximate) token boundaries: after each
// run of identifier characters, after each punctuation byte, and before/after white space.
func TokenCuts(src string) []int {
	var cuts []int
	isId := func(b byte) bool { return b == '_' || b == '$' || b >= '0' && b <= '9' || b >= 'a' && b <= 'z' || b >= 'A' && b <= 'Z' || b >= 0x80 }
	for i := 1; i <= len(src); i++ {
		if i == len(src) || !(isId(src[i-1]) && isId(src[i])) {
			cuts = append(cuts, i)
		}
	}
	return cuts
}

// ConstructPrelude declares what the construct snippets refer to; it is never cut.
const ConstructPrelude = `interface HasM { function m($x); }
class K0 implements HasM { public $p = 1; public $q = 'q'; const C = 3; public static $count = 0;
  function m($x) { return $x + $this->p; }
  static function s($y) { self::$count++; return $y . self::C; } }
class K1 extends K0 { function m($x) { return parent::m($x) * 2; } }
function f0($a, $b = 2) { return $a + $b; }
$a = 1; $b = 2; $c = 'c'; $i = 0; $s = ''; $arr = [1, 2, 3]; $o = new K0();
`

// ConstructSnippets: one small complete program per construct that takes an operand or a clause,
// written so that the construct's value is consumed (echoed). The C01 harness runs the prelude
// followed by EVERY token-boundary prefix, every single-token deletion and every single-token
// duplication of each snippet: the truncated / damaged forms of every construct, enumerated
// completely.
var ConstructSnippets = []string{
	`echo $a + $b * 2 - 1;`,
	`echo $a . $c . "x";`,
	`echo $a < $b, $a >= 1, $a == 1, $a !== 2, $a <=> $b;`,
	`echo $a && $b || !$c;`,
	`echo $a ? 'y' : 'n', $a ?: 'e', $zz ?? 'd';`,
	`echo -$a, ~$a, (int)'5', (string)$a;`,
	`$a += 2; $a -= 1; $a *= 3; $s .= 'x'; $zz ??= 4; echo $a, $s, $zz;`,
	`++$i; $i++; --$i; echo $i;`,
	`echo $arr[1], $arr[$a], count($arr);`,
	`$arr[] = 4; $arr[0] = 9; echo $arr[3], $arr[0];`,
	`echo ([1, 2, 3])[1] ?? 0, ([4, 5])[1];`,
	`$m = ['k' => 1, 'l' => $a, 3 => 'x']; echo $m['l'], $m[3];`,
	`$j = {"k": 1, "l": $a}; echo $j->l;`,
	`echo match ($a) { 1, 2 => 'a', 3 => 'b', default => 'c' };`,
	`$v = $zz || match ($a) { 1, 2 => 'a', default => 'c' }; echo $v;`,
	`echo (new K0())->m(2), $o->p, $o->m($a);`,
	`echo K0::s(3), K0::C, K0::$count;`,
	`$n = K0 { p: 5, q: $a }; echo $n->p, $n->q;`,
	`echo (K1 { p: $a })->m(1);`,
	`echo $o instanceof HasM, $o instanceof K1;`,
	`echo f0(1), f0(1, 2), f0(b: 3, a: 4), f0(...[5, 6]);`,
	`$f = function($x) use ($a) { return $x + $a; }; echo $f(2);`,
	`$g = fn($x) => $x * $a; echo $g(3);`,
	`$g = fn() => 7; echo $g();`,
	`echo "a@{$a}b", "c@{$a + 1}d", "e{$a}f", "g${a}h";`,
	`echo 7 % 2, 7 % 0 == 1 ? 'x' : 'y';`,
	`if (false) { echo 1 % 0, 2 / 0, 1 << -1, 0 ** -1; } echo 'alive';`,
	`if ($a > 0) { echo 'p'; } elseif ($a < 0) { echo 'n'; } else { echo 'z'; }`,
	`if ($a) echo 'one'; else echo 'two';`,
	`for ($i = 0; $i < 3; $i++) { if ($i == 1) { continue; } echo $i; }`,
	`$i = 0; while ($i < 3) { $i++; if ($i == 2) { break; } echo $i; }`,
	`$i = 0; do { $i++; echo $i; } while ($i < 2);`,
	`foreach ($arr as $k => $v) { echo $k, $v; }`,
	`foreach ([[1, 2], [3, 4]] as [$x, $y]) { echo $x + $y; }`,
	`switch ($a) { case 1: case 2: echo 'a'; break; case 'x': echo 'x'; default: echo 'd'; }`,
	`try { throw new Exception('e'); } catch (RuntimeException | LogicException $e) { echo 'r'; } catch (Exception $e) { echo $e->getMessage(); } finally { echo 'f'; }`,
	`[$x, $y] = [1, 2]; [, $z] = [3, 4]; echo $x, $y, $z;`,
	`echo "i={$a} j=$b k={$arr[0]} m={$o->p}";`,
	"$h = <<<EOT\nline $a\n  {$b}\nEOT;\necho $h;",
	`echo isset($arr[1]), isset($zz), empty($s);`,
	`unset($arr[0]); echo count($arr);`,
	`function g0($p, ...$rest) { return $p + count($rest); } echo g0(1, 2, 3);`,
	`function g1(int $p = 1, ?string $q = null): int { return $p; } echo g1(), g1(2, 'x');`,
	`class L0 { public function __construct(public int $v = 1) {} } echo (new L0(4))->v;`,
	`abstract class A0 { abstract function f(); } class B0 extends A0 { function f() { return 'bf'; } } echo (new B0())->f();`,
	`$cl = function() { static $n = 0; $n++; return $n; }; echo $cl(), $cl();`,
	`echo $a == 1 ? ($b == 2 ? 'x' : 'y') : 'z';`,
	`return; echo 'never';`,
}

// OperatorLiteralPrograms: every binary operator between two LITERAL operands from a boundary pool,
// in live code, in dead code and inside an uncalled function: a parser that evaluates anything at
// parse time (constant folding, literal normalisation) meets every literal pair here, including the
// ones whose run-time evaluation is an error (`7 % 0`, `1 << -1`, `0 ** -1`, `9223372036854775807 + 1`).
func OperatorLiteralPrograms() []string {
	ops := []string{"+", "-", "*", "/", "%", "**", ".", "<<", ">>", "&", "|", "^", "&&", "||", "??", "==", "!=", "===", "!==", "<", "<=", ">", ">=", "<=>"}
	lits := []string{"0", "1", "2", "7", "-1", "(-1)", "64", "9223372036854775807", "99999999999999999999", "0.0", "0.5", "1e308", "''", "'0'", "'a'", "\"7\"", "true", "false", "null", "[]", "[1]"}
	var out []string
	for _, op := range ops {
		for _, r := range lits {
			var sb strings.Builder
			sb.WriteString("function never_called() {\n")
			for _, l := range lits {
				fmt.Fprintf(&sb, "  $v = %s %s %s;\n", l, op, r)
			}
			sb.WriteString("}\nif (false) {\n")
			for _, l := range lits {
				fmt.Fprintf(&sb, "  echo %s %s %s;\n", l, op, r)
			}
			sb.WriteString("}\n")
			for _, l := range lits {
				fmt.Fprintf(&sb, "try { $v = %s %s %s; } catch (\\Throwable $e) { }\n", l, op, r)
			}
			sb.WriteString("echo 'done';\n")
			out = append(out, sb.String())
		}
	}
	return out
}

// NestedPrograms: every nestable construct nested d levels deep around variables (not only literals:
// speculative parses are triggered by what an element starts with). Parsing must stay within the
// time budget whatever the depth; doubling per level shows at depth ~20.
func NestedPrograms(depths []int) []string {
	type form struct{ open, close, sep string }
	forms := []form{
		{"[$a, ", "]", ""}, {"[", ", $a]", ""}, {"($a + ", ")", ""}, {"f0($a, ", ")", ""}, {"[$a => ", "]", ""}, {"['k' => ", ", 'l' => $a]", ""},
		{"($a ? ", " : $b)", ""}, {"($a ?? ", ")", ""}, {"!(", ")", ""}, {"-(", ")", ""}, {"(fn($x) => ", ")($a)", ""}, {"$arr[", "]", ""},
		{"{\"k\": ", "}", ""}, {"isset($a, ", ")", ""}, {"\"p@{", "}q\"", ""}, {"(int)(", ")", ""}, {"max($a, $b, ", ")", ""}, {"new K0(", ")", ""},
	}
	var out []string
	for _, f := range forms {
		for _, d := range depths {
			body := "1"
			for i := 0; i < d; i++ {
				body = f.open + body + f.close
			}
			out = append(out, "$a = 1; $b = 2; $arr = [0, 1];\n$x = "+body+";\necho 'parsed';\n")
		}
	}
	// statement-level nesting
	for _, d := range depths {
		var sb strings.Builder
		for i := 0; i < d; i++ {
			sb.WriteString("if ($a) { while ($b) { ")
		}
		sb.WriteString("$b = 0; ")
		for i := 0; i < d; i++ {
			sb.WriteString("} } ")
		}
		out = append(out, "$a = 1; $b = 1;\n"+sb.String()+"\necho 'parsed';\n")
	}
	return out
}
