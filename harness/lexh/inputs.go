package lexh

import (
	"os"
	"path/filepath"
	"sort"
	"strings"

	"verif/harness/vh"
)

type Input struct {
	Name string // origin (file, generator, mutation)
	Src  string
}

// Corpus: every .php/.zy file under tests/ and examples/ of the repository.
func Corpus(repo string) []Input {
	var files []string
	for _, d := range []string{"tests", "examples"} {
		filepath.Walk(filepath.Join(repo, d), func(p string, fi os.FileInfo, err error) error {
			if err == nil && !fi.IsDir() && (strings.HasSuffix(p, ".php") || strings.HasSuffix(p, ".zy")) {
				files = append(files, p)
			}
			return nil
		})
	}
	sort.Strings(files)
	var out []Input
	for _, f := range files {
		b, err := os.ReadFile(f)
		if err == nil && len(b) < 200_000 {
			rel, _ := filepath.Rel(repo, f)
			out = append(out, Input{Name: rel, Src: string(b)})
		}
	}
	return out
}

var snippets = []string{
	"$a = 1;", "$b = $a + 2 * 3;", "echo \"x {$a} y\";", "echo 'it''s';", "// line comment", "/* block\ncomment */",
	"$s = \"multi\nline\";", "$h = <<<EOT\nhello $a\nworld\nEOT;", "$n = <<<'RAW'\nraw $x\nRAW;", "if ($a > 1) { echo 1; } else { echo 2; }",
	"function f($x, $y = 2) { return $x ** $y; }", "$arr = [1, 2, 'k' => 3];", "$o->m()->p;", "A\\B\\C::d();", "\\Foo\\bar();",
	"$x = 0x1F + 0b101 + 017 + 1.5e3 + 1e-2;", "$r = 1..5;", "b'x'", "`cmd`", "$é = 'ünï';", "变量 = 1;", "$f = fn($x) => $x + 1;",
	"?>\n<b>html</b>\n<?php", "echo \"@{time()} {$o->p} $v[0]\";", "$a ??= $b ?? $c?->d;", "#!/x\n", "<?php", "?>", "　", "$", "\\", "\"", "'", "<<<",
	"/*", "//", "-1", "- 1", "1.", ".5", "1e", "1e+", "0x", "\r\n", "\n\n", "\r", "\t", "$ a", "\\ App", "$$a", "@", "#", "~", "^", "<=>", "**=", "...", "..", "?->",
}

var multibyte = []string{"é", "ü", "中", "文", "　", "😀", " ", " ", "�", "٣", "²"}
var rawBytes = []string{"\xff", "\xc0", "\xe3\x80", "\xe3", "\xf0\x9f", "\xed\xa0\x80", "\x00", "\x80", "\xc2", "\xf4\x90\x80\x80"}

// GenProgram builds a random program from snippets (mostly valid).
func GenProgram(r *vh.Rand) string {
	var sb strings.Builder
	if r.Chance(30) {
		sb.WriteString("<?php\n")
	}
	n := r.Range(1, 12)
	for i := 0; i < n; i++ {
		sb.WriteString(vh.Pick(r, snippets))
		switch r.Intn(6) {
		case 0:
			sb.WriteString("\r\n")
		case 1:
			sb.WriteString(" ")
		case 2:
			sb.WriteString("")
		default:
			sb.WriteString("\n")
		}
	}
	return sb.String()
}

// Mutate applies 1..3 seeded byte/structure mutations.
func Mutate(r *vh.Rand, src string) (string, string) {
	kinds := []string{}
	n := r.Range(1, 3)
	for i := 0; i < n; i++ {
		if len(src) == 0 {
			src = vh.Pick(r, snippets)
		}
		at := r.Intn(len(src) + 1)
		switch k := r.Intn(12); k {
		case 0: // CRLF everywhere
			src = strings.ReplaceAll(strings.ReplaceAll(src, "\r\n", "\n"), "\n", "\r\n")
			kinds = append(kinds, "crlf")
		case 1:
			src = src[:at] + vh.Pick(r, multibyte) + src[at:]
			kinds = append(kinds, "multibyte")
		case 2:
			src = src[:at] + vh.Pick(r, rawBytes) + src[at:]
			kinds = append(kinds, "rawbyte")
		case 3:
			src = src[:at] + vh.Pick(r, snippets) + src[at:]
			kinds = append(kinds, "snippet")
		case 4: // truncate
			src = src[:at]
			kinds = append(kinds, "truncate")
		case 5: // delete a span
			e := at + r.Intn(8)
			if e > len(src) {
				e = len(src)
			}
			src = src[:at] + src[e:]
			kinds = append(kinds, "delete")
		case 6: // duplicate a span
			e := at + r.Intn(16)
			if e > len(src) {
				e = len(src)
			}
			src = src[:e] + src[at:e] + src[e:]
			kinds = append(kinds, "dup")
		case 7:
			src = src[:at] + "\n" + src[at:]
			kinds = append(kinds, "newline")
		case 8:
			src = src[:at] + "\r" + src[at:]
			kinds = append(kinds, "cr")
		case 9:
			src = src[:at] + "?><i>h\n</i><?php " + src[at:]
			kinds = append(kinds, "html")
		case 10:
			if at < len(src) {
				b := []byte(src)
				b[at] = byte(r.Intn(256))
				src = string(b)
			}
			kinds = append(kinds, "flip")
		case 11:
			src = src[:at] + vh.Pick(r, []string{"\"", "'", "`", "/*", "*/", "//", "<<<X\n", "{$", "}", "$", "\\", "b'"}) + src[at:]
			kinds = append(kinds, "quote")
		}
	}
	if len(src) > 6000 {
		src = src[:6000]
	}
	return src, strings.Join(kinds, "+")
}
