// Package lexh: shared lexer/parser observation for C01 and C18.
//
// A pool of child processes runs the real lexer.Tokenize / TokenizeTemplate and
// parser.ParseString on inputs sent by the parent, so that a Go panic, a fatal
// error (stack overflow), os.Exit or a hang is observed instead of killing the
// run. The parent compares the top-level token list with the Lean model
// (vm_c01) and judges the C18 span laws directly on the Go output.
package lexh

import (
	"bufio"
	"encoding/hex"
	"encoding/json"
	"expvar"
	"fmt"
	"io"
	"os"
	"os/exec"
	"os/signal"
	"runtime"
	"runtime/debug"
	"strconv"
	"strings"
	"sync"
	"syscall"
	"time"

	"github.com/php-any/origami/data"
	"github.com/php-any/origami/lexer"
	"github.com/php-any/origami/token"

	"verif/harness/vh"
)

type Req struct {
	ID    int    `json:"id"`
	Mode  string `json:"mode"` // s | t
	Hex   string `json:"hex"`
	Lex   bool   `json:"lex"`
	Parse bool   `json:"parse"`
	Run   bool   `json:"run"` // run the accepted program (side-effect-free generated programs only)
}

type Tok struct {
	Ty, Start, End, Line int
	LitHex               string // literal bytes, hex (JSON would mangle invalid UTF-8)
	Children             int
	Lit                  string `json:"-"` // decoded in the parent
}

type Resp struct {
	ID        int    `json:"id"`
	Toks      []Tok  `json:"toks,omitempty"`
	LexPanic  string `json:"lex_panic,omitempty"`
	Parse     string `json:"parse,omitempty"` // ok | error | panic
	ParseMsg  string `json:"parse_msg,omitempty"`
	Run       string `json:"run,omitempty"` // ok | uncaught | go-panic
	RunMsg    string `json:"run_msg,omitempty"`
	LexUS     int64  `json:"lex_us"`
	ParseUS   int64  `json:"parse_us"`
	// deterministic work measures of the ParseString call (Parse requests only): heap objects
	// allocated while it ran (runtime.MemStats.Mallocs, exact: the child parses on one goroutine),
	// and — when the tree carries the verif-tagged parser hook, which publishes the expvar
	// "origami.parser.advances" — the number of forward steps of the parser position (-1 without the
	// hook) together with the number of tokens the source has (interpolation children included) and
	// their deepest bracket nesting
	ParseAllocs uint64 `json:"parse_allocs"`
	ParseAdv    int64  `json:"parse_adv"`
	ParseTokens int    `json:"parse_tokens"`
	ParseDepth  int    `json:"parse_depth"`
}

// parserAdvances reads the counter published by the parser's verif hook (-1: no hook in this tree).
func parserAdvances() int64 {
	if v := expvar.Get("origami.parser.advances"); v != nil {
		if n, err := strconv.ParseInt(v.String(), 10, 64); err == nil {
			return n
		}
	}
	return -1
}

// countTokens: tokens of src as the parser will see them, children of interpolated strings
// included, and the deepest nesting of ( [ { among them (a child list starts at its parent's depth)
func countTokens(src string) (n, depth int) {
	defer func() { recover() }()
	var walk func(ts []lexer.Token, d int)
	walk = func(ts []lexer.Token, d int) {
		for _, t := range ts {
			n++
			switch t.Type() {
			case token.LPAREN, token.LBRACKET, token.LBRACE:
				d++
				if d > depth {
					depth = d
				}
			case token.RPAREN, token.RBRACKET, token.RBRACE:
				if d > 0 {
					d--
				}
			}
			if lt, ok := t.(*lexer.LingToken); ok {
				walk(lt.Children(), d)
			}
		}
	}
	walk(lexer.NewLexer().Tokenize(src), 0)
	return
}

func init() { vh.RegisterChild("lexparse", childMain) }

func firstLine(s string) string {
	if i := strings.IndexByte(s, '\n'); i >= 0 {
		return s[:i]
	}
	return s
}

func lexOnce(mode string, src string) (toks []Tok, pan string) {
	defer func() {
		if r := recover(); r != nil {
			pan = firstLine(fmt.Sprint(r)) + " @ " + panicSite(string(debug.Stack()))
		}
	}()
	l := lexer.NewLexer()
	var ts []lexer.Token
	if mode == "t" {
		ts = l.TokenizeTemplate(src)
	} else {
		ts = l.Tokenize(src)
	}
	for _, t := range ts {
		k := Tok{Ty: int(t.Type()), Start: t.Start(), End: t.End(), Line: t.Line(), LitHex: hex.EncodeToString([]byte(t.Literal()))}
		if lt, ok := t.(*lexer.LingToken); ok {
			k.Children = len(lt.Children())
		}
		toks = append(toks, k)
	}
	return
}

// panicSite extracts the first origami frame of a stack trace (file:line).
func panicSite(stack string) string {
	lines := strings.Split(stack, "\n")
	for _, l := range lines {
		l = strings.TrimSpace(l)
		if !strings.Contains(l, ".go:") || strings.Contains(l, "/src/runtime/") || strings.Contains(l, "golang.org/toolchain") ||
			strings.Contains(l, "/verif/") || strings.Contains(l, "/go/src/") {
			continue
		}
		if strings.Contains(l, "/lexer/") || strings.Contains(l, "/parser/") || strings.Contains(l, "/node/") || strings.Contains(l, "/data/") ||
			strings.Contains(l, "/runtime/") || strings.Contains(l, "/std/") || strings.Contains(l, "/utils/") {
			if i := strings.Index(l, " +0x"); i >= 0 {
				l = l[:i]
			}
			if j := strings.LastIndex(l, "/"); j >= 0 {
				k := strings.LastIndex(l[:j], "/")
				if k >= 0 {
					return l[k+1:]
				}
			}
			return l
		}
	}
	return "?"
}

// stackFns returns the origami function names on goroutine 1's stack, outermost first.
func stackFns() []string {
	buf := make([]byte, 1<<20)
	n := runtime.Stack(buf, true)
	dump := string(buf[:n])
	i := strings.Index(dump, "goroutine 1 [")
	if i < 0 {
		return nil
	}
	dump = dump[i:]
	if j := strings.Index(dump, "\n\ngoroutine "); j >= 0 {
		dump = dump[:j]
	}
	var fns []string
	for _, l := range strings.Split(dump, "\n") {
		if strings.HasPrefix(l, "github.com/php-any/origami/") {
			fn := strings.TrimPrefix(l, "github.com/php-any/origami/")
			if k := strings.LastIndex(fn, "("); k >= 0 {
				fn = fn[:k]
			}
			fns = append(fns, fn)
		}
	}
	// reverse: outermost first
	for a, b := 0, len(fns)-1; a < b; a, b = a+1, b-1 {
		fns[a], fns[b] = fns[b], fns[a]
	}
	return fns
}

// hangSampler: on SIGUSR1 sample the main goroutine's stack a few times and report the
// deepest frame common to all samples — the function whose loop does not end.
func hangSampler() {
	ch := make(chan os.Signal, 1)
	signal.Notify(ch, syscall.SIGUSR1)
	go func() {
		<-ch
		common := stackFns()
		for k := 0; k < 6; k++ {
			time.Sleep(25 * time.Millisecond)
			s := stackFns()
			n := 0
			for n < len(common) && n < len(s) && common[n] == s[n] {
				n++
			}
			common = common[:n]
		}
		site := "?"
		if len(common) > 0 {
			site = common[len(common)-1]
		}
		fmt.Fprintf(os.Stderr, "\nHANGSITE %s\n", site)
		os.Exit(3)
	}()
}

// caseDir is the (empty, private) directory the sources are said to live in. Some annotations act on
// the directory of the file being parsed (#[CliApplication] scans it for command scripts at parse
// time): a path directly under "/" made such a parse walk the whole file system, which looked like
// a hang and, worse, ran whatever scripts it found.
var caseDir = "/nonexistent-verif-dir"

func childMain(args []string) int {
	if d := os.Getenv("VH_LEX_DIR"); d != "" {
		caseDir = d
	}
	debug.SetMaxStack(256 << 20)
	hangSampler()
	in := bufio.NewReaderSize(os.Stdin, 1<<20)
	// the protocol channel is a private duplicate of fd 1; fd 1 itself goes to /dev/null, because the
	// interpreter writes some diagnostics ("Deprecated: …", var_dump) straight to os.Stdout and a
	// stray line would be taken for the answer to the current request (and shift all later answers)
	protoFd, err := syscall.Dup(1)
	if err != nil {
		return 4
	}
	if devnull, err := os.OpenFile(os.DevNull, os.O_WRONLY, 0); err == nil {
		syscall.Dup2(int(devnull.Fd()), 1)
		os.Stdout = devnull
	}
	out := bufio.NewWriterSize(os.NewFile(uintptr(protoFd), "proto"), 1<<20)
	env := vh.NewEnv()
	data.WriteOutput = func(string) {}
	for {
		line, err := in.ReadBytes('\n')
		if len(line) == 0 && err != nil {
			return 0
		}
		var rq Req
		if json.Unmarshal(line, &rq) != nil {
			continue
		}
		b, _ := hex.DecodeString(rq.Hex)
		src := string(b)
		rs := Resp{ID: rq.ID}
		if rq.Lex {
			t0 := time.Now()
			rs.Toks, rs.LexPanic = lexOnce(rq.Mode, src)
			rs.LexUS = time.Since(t0).Microseconds()
		}
		if rq.Run {
			// parse + run on a FRESH VM: declarations register at parse time, so parsing the same
			// source twice on one VM (once to see whether it is accepted, once to run it) would
			// reject every program that declares a class as "already declared"
			fresh := vh.NewEnv()
			o := fresh.RunSource(src, caseDir+"/verif-run.zy")
			data.WriteOutput = func(string) {}
			if o.Kind == "parse-error" {
				rs.Parse = "error"
				rs.ParseMsg = o.Detail
			} else {
				rs.Parse = "ok"
				rs.Run = o.Kind
				rs.RunMsg = o.Detail
				if o.Kind == "go-panic" {
					rs.RunMsg = o.Detail + " @ " + panicSite(o.Stack)
				}
			}
		} else if rq.Parse {
			var ms0, ms1 runtime.MemStats
			runtime.ReadMemStats(&ms0)
			adv0 := parserAdvances()
			t0 := time.Now()
			func() {
				defer func() {
					if r := recover(); r != nil {
						rs.Parse = "panic"
						rs.ParseMsg = firstLine(fmt.Sprint(r)) + " @ " + panicSite(string(debug.Stack()))
					}
				}()
				p := env.Parser.Clone()
				path := caseDir + "/verif-case.zy"
				text := src
				if rq.Mode == "t" {
					path = caseDir + "/verif-case.php"
					if !strings.Contains(text, "<?php") {
						// ParseString always uses Tokenize; template sources are parsed as the CLI would parse a .php file
					}
				}
				_, acl := p.ParseString(text, path)
				if acl != nil {
					rs.Parse = "error"
					rs.ParseMsg = firstLine(acl.AsString())
				} else {
					rs.Parse = "ok"
				}
			}()
			rs.ParseUS = time.Since(t0).Microseconds()
			runtime.ReadMemStats(&ms1)
			rs.ParseAllocs = ms1.Mallocs - ms0.Mallocs
			rs.ParseAdv = -1
			if adv0 >= 0 {
				rs.ParseAdv = parserAdvances() - adv0
				rs.ParseTokens, rs.ParseDepth = countTokens(src)
			}
		}
		jb, _ := json.Marshal(rs)
		out.Write(jb)
		out.WriteByte('\n')
		out.Flush()
	}
}

// ---------------------------------------------------------------- pool

type worker struct {
	cmd *exec.Cmd
	in  io.WriteCloser
	out *bufio.Reader
}

var (
	lexDirOnce sync.Once
	lexDirPath string
)

// lexDir: one empty directory per harness process (under the system temp dir; removed by RemoveLexDir)
func lexDir() string {
	lexDirOnce.Do(func() {
		d, err := os.MkdirTemp("", "vh-lexdir-")
		if err != nil {
			d = "/nonexistent-verif-dir"
		}
		lexDirPath = d
	})
	return lexDirPath
}

// RemoveLexDir removes the directory created by lexDir (call at the end of a run)
func RemoveLexDir() {
	if lexDirPath != "" && strings.HasPrefix(lexDirPath, os.TempDir()) {
		os.RemoveAll(lexDirPath)
	}
}

func startWorker() (*worker, error) {
	cmd := exec.Command(vh.Self(), "__child", "lexparse")
	cmd.Env = append(os.Environ(), "GOMEMLIMIT=1500MiB", "GOTRACEBACK=all", "VH_LEX_DIR="+lexDir())
	in, err := cmd.StdinPipe()
	if err != nil {
		return nil, err
	}
	so, err := cmd.StdoutPipe()
	if err != nil {
		return nil, err
	}
	var errBuf tailBuf
	cmd.Stderr = &errBuf
	if err := cmd.Start(); err != nil {
		return nil, err
	}
	w := &worker{cmd: cmd, in: in, out: bufio.NewReaderSize(so, 1<<20)}
	return w, nil
}

type tailBuf struct {
	mu sync.Mutex
	b  []byte
}

func (t *tailBuf) Write(p []byte) (int, error) {
	t.mu.Lock()
	t.b = append(t.b, p...)
	if len(t.b) > 1<<16 {
		t.b = t.b[:1<<16] // keep the head: the first lines of a fatal error name it
	}
	t.mu.Unlock()
	return len(p), nil
}

func (w *worker) kill() {
	w.in.Close()
	w.cmd.Process.Kill()
	w.cmd.Wait()
}

// Verdict of one request: Resp, or died/hung.
type Verdict struct {
	Resp   *Resp
	Died   string // non-empty: the child process died (fatal error / os.Exit); head of stderr
	Hung     bool
	HangSite string // innermost origami frames of the goroutine that was running
	WallMS   int64
}

// Pool runs requests on n workers; each request has its own timeout.
type Pool struct {
	n int
}

func NewPool(n int) *Pool { return &Pool{n: n} }

// Timeout for an input of n bytes: generous c·(n+1)² bound with a floor.
func Timeout(n int) time.Duration {
	us := 2*int64(n+1)*int64(n+1)/1000 + 1 // 2 ns · n²
	d := time.Duration(us)*time.Microsecond + 3*time.Second
	if d > 60*time.Second {
		d = 60 * time.Second
	}
	return d
}

// Run processes all requests; results are returned in request order.
func (p *Pool) Run(reqs []Req) []Verdict {
	res := make([]Verdict, len(reqs))
	var next int
	var mu sync.Mutex
	var wg sync.WaitGroup
	for i := 0; i < p.n; i++ {
		wg.Add(1)
		go func() {
			defer wg.Done()
			var w *worker
			defer func() {
				if w != nil {
					w.kill()
				}
			}()
			for {
				mu.Lock()
				idx := next
				next++
				mu.Unlock()
				if idx >= len(reqs) {
					return
				}
				if w == nil {
					var err error
					w, err = startWorker()
					if err != nil {
						res[idx] = Verdict{Died: "cannot start worker: " + err.Error()}
						continue
					}
				}
				rq := reqs[idx]
				jb, _ := json.Marshal(rq)
				t0 := time.Now()
				type rd struct {
					line []byte
					err  error
				}
				ch := make(chan rd, 1)
				go func(w *worker) {
					w.in.Write(append(jb, '\n'))
					for {
						l, err := w.out.ReadBytes('\n')
						if err == nil {
							// only a JSON answer carrying this request's ID counts
							var probe struct {
								ID *int `json:"id"`
							}
							if json.Unmarshal(l, &probe) != nil || probe.ID == nil || *probe.ID != rq.ID {
								continue
							}
						}
						ch <- rd{l, err}
						return
					}
				}(w)
				select {
				case r := <-ch:
					if r.err != nil {
						w.cmd.Wait()
						eb := w.cmd.Stderr.(*tailBuf)
						msg := string(eb.b)
						if len(msg) > 400 {
							msg = msg[:400]
						}
						if msg == "" {
							msg = "child exited: " + w.cmd.ProcessState.String()
						}
						res[idx] = Verdict{Died: msg, WallMS: time.Since(t0).Milliseconds()}
						w.kill()
						w = nil
						continue
					}
					var rs Resp
					json.Unmarshal(r.line, &rs)
					for i := range rs.Toks {
						b, _ := hex.DecodeString(rs.Toks[i].LitHex)
						rs.Toks[i].Lit = string(b)
					}
					res[idx] = Verdict{Resp: &rs, WallMS: time.Since(t0).Milliseconds()}
				case <-time.After(Timeout(len(rq.Hex) / 2)):
					// ask the child where it is looping (SIGUSR1 → stack sampler)
					w.cmd.Process.Signal(syscall.SIGUSR1)
					time.Sleep(400 * time.Millisecond)
					eb := w.cmd.Stderr.(*tailBuf)
					eb.mu.Lock()
					dump := string(eb.b)
					eb.mu.Unlock()
					site := "?"
					if k := strings.LastIndex(dump, "HANGSITE "); k >= 0 {
						site = strings.TrimSpace(strings.SplitN(dump[k+9:], "\n", 2)[0])
					}
					res[idx] = Verdict{Hung: true, HangSite: site, WallMS: time.Since(t0).Milliseconds()}
					w.kill()
					w = nil
				}
			}
		}()
	}
	wg.Wait()
	return res
}

// ---------------------------------------------------------------- canonical token lists

// StringLike: after Process a string token may be STRING, HEREDOC or INTERPOLATION_TOKEN.
func canonType(ty int) int {
	switch token.TokenType(ty) {
	case token.HEREDOC, token.INTERPOLATION_TOKEN:
		return int(token.STRING)
	}
	return ty
}

func fnv(b []byte) uint64 {
	h := uint64(14695981039346656037)
	for _, c := range b {
		h ^= uint64(c)
		h *= 1099511628211
	}
	return h
}

// litComparable: the literal of a string-like token is rebuilt by Process when
// it contains interpolation/escape characters; only plain ones are compared.
func litComparable(ty int, lit string) bool {
	if canonType(ty) != int(token.STRING) {
		return true
	}
	// invalid UTF-8 inside a string is replaced by U+FFFD when Process rebuilds the literal
	return !strings.ContainsAny(lit, "$\\{@") && !strings.Contains(lit, "\uFFFD")
}

// CanonImpl renders the Go token list in the model's format (literal hash 0 when not comparable).
func CanonImpl(toks []Tok) []string {
	out := make([]string, 0, len(toks))
	for _, t := range toks {
		h := uint64(0)
		if litComparable(t.Ty, t.Lit) && token.TokenType(t.Ty) != token.HEREDOC && token.TokenType(t.Ty) != token.NOWDOC {
			h = fnv([]byte(t.Lit))
		}
		out = append(out, fmt.Sprintf("%d:%d:%d:%d:%d", canonType(t.Ty), t.Start, t.End, t.Line, h))
	}
	return out
}

// ParseModel parses a `tokens shift=n …` answer; returns canonical strings with
// the literal hash blanked where the implementation side blanks it.
func ParseModel(ans string) (kind string, shift int, toks []string) {
	if ans == "html" {
		return "html", 0, nil
	}
	if strings.HasPrefix(ans, "crash") {
		return "crash", 0, nil
	}
	if !strings.HasPrefix(ans, "tokens ") {
		return "bad:" + ans, 0, nil
	}
	parts := strings.Fields(ans[len("tokens "):])
	if len(parts) > 0 && strings.HasPrefix(parts[0], "shift=") {
		fmt.Sscanf(parts[0], "shift=%d", &shift)
		parts = parts[1:]
	}
	return "tokens", shift, parts
}

// Diff compares implementation tokens with model tokens; returns "" when equal.
func Diff(impl []Tok, model []string) string {
	ci := CanonImpl(impl)
	if len(ci) != len(model) {
		n := len(ci)
		if len(model) < n {
			n = len(model)
		}
		for i := 0; i < n; i++ {
			if d := tokDiff(impl[i], ci[i], model[i]); d != "" {
				return fmt.Sprintf("token %d: %s (and lengths %d vs %d)", i, d, len(ci), len(model))
			}
		}
		return fmt.Sprintf("token count impl=%d model=%d", len(ci), len(model))
	}
	for i := range ci {
		if d := tokDiff(impl[i], ci[i], model[i]); d != "" {
			return fmt.Sprintf("token %d: %s", i, d)
		}
	}
	return ""
}

func tokDiff(t Tok, ci, m string) string {
	if ci == m {
		return ""
	}
	fi, fm := strings.Split(ci, ":"), strings.Split(m, ":")
	if len(fm) != 5 {
		return "malformed model token " + m
	}
	// model keeps the raw type of string-like tokens
	var mty int
	fmt.Sscan(fm[0], &mty)
	fm[0] = fmt.Sprint(canonType(mty))
	if fi[4] == "0" {
		fm[4] = "0"
	}
	if strings.Join(fi, ":") == strings.Join(fm, ":") {
		return ""
	}
	return fmt.Sprintf("impl %s model %s (lit %q)", ci, m, t.Lit)
}

// ---------------------------------------------------------------- C18 span laws judged on the Go output alone

type LawViolation struct {
	Law  string
	Tok  int
	What string
}

var literalLawKinds = func() map[int]bool {
	m := map[int]bool{}
	for t := token.KEYWORD_START; t <= token.KEYWORD_END; t++ {
		m[int(t)] = true
	}
	for _, t := range []token.TokenType{token.IDENTIFIER, token.INT, token.FLOAT, token.NUMBER, token.NULL, token.TRUE, token.FALSE, token.BOOL} {
		m[int(t)] = true
	}
	return m
}()

func isOperatorType(ty int) bool {
	for _, d := range token.TokenDefinitions {
		if int(d.Type) == ty && d.WordType == token.OPERATOR {
			return true
		}
	}
	return false
}

// SpanLaws checks the four laws of C18 on a top-level token list.
func SpanLaws(src string, toks []Tok) []LawViolation {
	var v []LawViolation
	prevEnd := 0
	for i, t := range toks {
		if !(0 <= t.Start && t.Start < t.End && t.End <= len(src)) {
			v = append(v, LawViolation{"in-bounds", i, fmt.Sprintf("span [%d,%d) of %q in source of %d bytes", t.Start, t.End, t.Lit, len(src))})
			continue
		}
		if t.Start < prevEnd {
			v = append(v, LawViolation{"ordered-disjoint", i, fmt.Sprintf("span [%d,%d) starts before the previous token ends (%d)", t.Start, t.End, prevEnd)})
		}
		prevEnd = t.End
		if want := strings.Count(src[:t.Start], "\n"); t.Line != want {
			v = append(v, LawViolation{"line", i, fmt.Sprintf("token %q at [%d,%d) has line %d, %d newlines precede it", t.Lit, t.Start, t.End, t.Line, want)})
		}
		ty := t.Ty
		lawKind := literalLawKinds[ty] || (isOperatorType(ty) && token.TokenType(ty) != token.SEMICOLON) ||
			(token.TokenType(ty) == token.STRING && !strings.ContainsAny(t.Lit, "$\\{@"))
		if lawKind && t.Lit != src[t.Start:t.End] {
			v = append(v, LawViolation{"literal", i, fmt.Sprintf("token text %q but source at [%d,%d) is %q", t.Lit, t.Start, t.End, src[t.Start:t.End])})
		}
	}
	return v
}
