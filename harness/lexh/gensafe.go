package lexh

import (
	"fmt"
	"strings"

	"verif/harness/vh"
)

// GenSafe builds a side-effect-free program (echo only; loops with constant
// bounds; ints, strings, arrays, functions) that is safe to execute.
func GenSafe(r *vh.Rand) string {
	g := &sgen{r: r}
	var sb strings.Builder
	nf := r.Intn(3)
	for i := 0; i < nf; i++ {
		fmt.Fprintf(&sb, "function f%d($a, $b = %d) {\n%s  return %s;\n}\n", i, r.Intn(9), g.block(2, 1), g.expr(2))
		g.funcs = append(g.funcs, fmt.Sprintf("f%d", i))
	}
	sb.WriteString(g.block(r.Range(2, 6), 0))
	return sb.String()
}

type sgen struct {
	r     *vh.Rand
	funcs []string
	depth int
}

var svars = []string{"$a", "$b", "$c", "$i", "$s", "$arr"}

func (g *sgen) atom() string {
	switch g.r.Intn(7) {
	case 0:
		return fmt.Sprint(g.r.Intn(20))
	case 1:
		return vh.Pick(g.r, svars[:4])
	case 2:
		return vh.Pick(g.r, []string{"'x'", "\"y\"", "\"v=$a\"", "'it'"})
	case 3:
		return vh.Pick(g.r, []string{"true", "false", "null"})
	case 4:
		return "[1, 2, 3]"
	case 5:
		return fmt.Sprintf("%d.5", g.r.Intn(9))
	}
	return fmt.Sprint(-g.r.Intn(9))
}

func (g *sgen) expr(d int) string {
	if d <= 0 || g.r.Chance(30) {
		return g.atom()
	}
	switch g.r.Intn(10) {
	case 0, 1, 2:
		return g.expr(d-1) + " " + vh.Pick(g.r, []string{"+", "-", "*", ".", "<", ">", "==", "!=", "&&", "||", "<=", ">=", "===", "??", "%", "<=>"}) + " " + g.expr(d-1)
	case 3:
		return "(" + g.expr(d-1) + ")"
	case 4:
		return "!" + g.expr(d-1)
	case 5:
		return g.expr(d-1) + " ? " + g.expr(d-1) + " : " + g.expr(d-1)
	case 6:
		if len(g.funcs) > 0 {
			return vh.Pick(g.r, g.funcs) + "(" + g.expr(d-1) + ", " + g.expr(d-1) + ")"
		}
		return g.atom()
	case 7:
		return "[" + g.expr(d-1) + ", 'k' => " + g.expr(d-1) + "]"
	case 8:
		return "-" + g.atom()
	}
	return "$arr[" + fmt.Sprint(g.r.Intn(3)) + "]"
}

func (g *sgen) stmt(ind int) string {
	p := strings.Repeat("  ", ind)
	if ind > 3 {
		return p + "echo " + g.expr(1) + ";\n"
	}
	switch g.r.Intn(12) {
	case 0, 1:
		return p + vh.Pick(g.r, svars[:5]) + " = " + g.expr(2) + ";\n"
	case 2:
		return p + "echo " + g.expr(2) + ", \"\\n\";\n"
	case 3:
		return p + "if (" + g.expr(2) + ") {\n" + g.block(2, ind+1) + p + "} else {\n" + g.block(1, ind+1) + p + "}\n"
	case 4:
		v := vh.Pick(g.r, []string{"$i", "$j", "$k"})
		return p + fmt.Sprintf("for (%s = 0; %s < %d; %s++) {\n", v, v, g.r.Range(1, 4), v) + g.block(2, ind+1) + p + "}\n"
	case 5:
		return p + "foreach ([1, 2, 3] as $k => $v) {\n" + g.block(1, ind+1) + p + "}\n"
	case 6:
		return p + "$arr = [" + g.expr(1) + ", " + g.expr(1) + ", " + g.expr(1) + "];\n"
	case 7:
		return p + "switch (" + g.atom() + ") {\n" + p + "  case 1:\n" + g.block(1, ind+2) + p + "    break;\n" + p + "  default:\n" + g.block(1, ind+2) + p + "}\n"
	case 8:
		return p + "$n = 0;\n" + p + "while ($n < 3) {\n" + p + "  $n++;\n" + g.block(1, ind+1) + p + "}\n"
	case 9:
		return p + "try {\n" + g.block(1, ind+1) + p + "} catch (Exception $e) {\n" + p + "  echo 'c';\n" + p + "} finally {\n" + p + "  echo 'f';\n" + p + "}\n"
	case 10:
		return p + "$s .= " + g.expr(1) + ";\n"
	}
	return p + "$c = $a " + vh.Pick(g.r, []string{"+", "-", "*"}) + " " + g.atom() + "; // c\n"
}

func (g *sgen) block(n, ind int) string {
	var sb strings.Builder
	for i := 0; i < n; i++ {
		sb.WriteString(g.stmt(ind))
	}
	return sb.String()
}
