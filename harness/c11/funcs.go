package c11

import (
	"fmt"
	"io"
	nethttp "net/http"
	"net/http/httptest"
	"sort"
	"strconv"
	"strings"
	"sync"
	"time"

	"github.com/php-any/origami/data"
	ohttp "github.com/php-any/origami/std/net/http"

	"verif/harness/vh"
)

// gateFn is verif_gate($id): parks the calling request until the controller
// gives it its next turn. Requests that are not under control of a schedule
// (id unknown) pass straight through.
type gateFn struct {
	mu   sync.Mutex
	ctrl map[int]*reqCtl
	bar  *barrier // parallel load: requests without a controller rendezvous here
}

// barrier: rendezvous of the requests in flight of one load round. A request arriving at a
// gate waits until every other live request is parked at a gate too (or has finished), then all
// go on together: everybody has created its values before anybody uses them, with real
// goroutines racing between two gates. live is set before the round starts; a finished
// request leaves.
type barrier struct {
	mu      sync.Mutex
	cond    *sync.Cond
	live    int
	waiting int
	gen     int
}

func newBarrier() *barrier {
	b := &barrier{}
	b.cond = sync.NewCond(&b.mu)
	return b
}

func (b *barrier) begin(n int) {
	b.mu.Lock()
	b.live, b.waiting = n, 0
	b.mu.Unlock()
}

func (b *barrier) release() {
	b.gen++
	b.waiting = 0
	b.cond.Broadcast()
}

func (b *barrier) wait() {
	b.mu.Lock()
	defer b.mu.Unlock()
	if b.live <= 1 {
		return
	}
	b.waiting++
	if b.waiting >= b.live {
		b.release()
		return
	}
	g := b.gen
	for b.gen == g {
		b.cond.Wait()
	}
}

func (b *barrier) leave() {
	b.mu.Lock()
	defer b.mu.Unlock()
	if b.live > 0 {
		b.live--
	}
	if b.waiting > 0 && b.waiting >= b.live {
		b.release()
	}
}

type reqCtl struct {
	parked chan bool     // true = reached a gate, false = finished
	resume chan struct{} // controller → request: go on
}

func (g *gateFn) Call(ctx data.Context) (data.GetValue, data.Control) {
	v, _ := ctx.GetIndexValue(0)
	id := -1
	if sv, ok := v.(*data.StringValue); ok {
		if i, err := strconv.Atoi(sv.AsString()); err == nil {
			id = i
		}
	} else if n, ok := v.(data.AsInt); ok {
		if i, err := n.AsInt(); err == nil {
			id = i
		}
	}
	g.mu.Lock()
	c := g.ctrl[id]
	g.mu.Unlock()
	if c == nil {
		if g.bar != nil {
			g.bar.wait()
		}
		return nil, nil
	}
	c.parked <- true
	<-c.resume
	return nil, nil
}
func (g *gateFn) GetName() string { return "verif_gate" }
func (g *gateFn) GetParams() []data.GetValue {
	return []data.GetValue{data.NewParameter("id", 0)}
}
func (g *gateFn) GetVariables() []data.Variable {
	return []data.Variable{data.NewVariable("id", 0, nil)}
}

// strFn is verif_str($v): canonical text of a scalar the handler read
// (null, a nil Go value and the empty string are all "~").
type strFn struct{}

func canonVal(v data.GetValue) string {
	switch t := v.(type) {
	case nil:
		return "~"
	case *data.NullValue:
		return "~"
	case *data.AnyValue:
		if t.Value == nil {
			return "~"
		}
		return fmt.Sprint(t.Value)
	case data.AsString:
		s := t.AsString()
		if s == "" {
			return "~"
		}
		return s
	}
	return fmt.Sprintf("%T", v)
}

func (strFn) Call(ctx data.Context) (data.GetValue, data.Control) {
	v, _ := ctx.GetIndexValue(0)
	return data.NewStringValue(canonVal(v)), nil
}
func (strFn) GetName() string { return "verif_str" }
func (strFn) GetParams() []data.GetValue {
	return []data.GetValue{data.NewParameter("v", 0)}
}
func (strFn) GetVariables() []data.Variable {
	return []data.Variable{data.NewVariable("v", 0, nil)}
}

// attrFn is verif_attr($req, $key): the attribute `key` of the request's bag, read the way a Go
// embedder reads it — through the `attribute` method of the request's class called with ONE
// argument (from a script the one-argument form is refused before it reaches the method: the
// parameter `value` has no default). Canonical text, "~" = not set.
type attrFn struct{}

func (attrFn) Call(ctx data.Context) (data.GetValue, data.Control) {
	rv, _ := ctx.GetIndexValue(0)
	kv, _ := ctx.GetIndexValue(1)
	cv, ok := rv.(*data.ClassValue)
	if !ok || cv.Class == nil || kv == nil {
		return data.NewStringValue("?request"), nil
	}
	m, ok := cv.Class.GetMethod("attribute")
	if !ok {
		return data.NewStringValue("?method"), nil
	}
	vars := []data.Variable{data.NewVariable("key", 0, nil)}
	c2 := ctx.CreateContext(vars)
	c2.SetVariableValue(vars[0], kv)
	ret, acl := m.Call(c2)
	if acl != nil {
		return data.NewStringValue("!" + firstLine(acl.AsString())), nil
	}
	return data.NewStringValue(canonVal(ret)), nil
}
func (attrFn) GetName() string { return "verif_attr" }
func (attrFn) GetParams() []data.GetValue {
	return []data.GetValue{data.NewParameter("req", 0), data.NewParameter("key", 1)}
}
func (attrFn) GetVariables() []data.Variable {
	return []data.Variable{data.NewVariable("req", 0, nil), data.NewVariable("key", 1, nil)}
}

// hotFn is verif_hot($path, $closure): serves the path through std/net/http's exported HotHandler
// (the hot-reload route: the handler runs on a TempVM layered over the server's VM) — nothing in the
// repository constructs a HotHandler, an embedding program does, so the harness does it the same way
// ServerHandleMethod.Call builds a Handler: the closure's statement + a context made from the
// registering call's context.
type hotFn struct {
	mu     sync.Mutex
	routes map[string]nethttp.Handler
}

func (h *hotFn) Call(ctx data.Context) (data.GetValue, data.Control) {
	pv, _ := ctx.GetIndexValue(0)
	fv, _ := ctx.GetIndexValue(1)
	ps, ok1 := pv.(data.AsString)
	f, ok2 := fv.(*data.FuncValue)
	if !ok1 || !ok2 || len(f.Value.GetVariables()) < 2 {
		return nil, data.NewErrorThrow(nil, fmt.Errorf("verif_hot(path, closure($req, $res))"))
	}
	h.mu.Lock()
	h.routes[ps.AsString()] = ohttp.HotHandler{Value: f.Value, Ctx: ctx.CreateContext(f.Value.GetVariables())}
	h.mu.Unlock()
	return nil, nil
}
func (h *hotFn) GetName() string { return "verif_hot" }
func (h *hotFn) GetParams() []data.GetValue {
	return []data.GetValue{data.NewParameter("path", 0), data.NewParameter("handler", 1)}
}
func (h *hotFn) GetVariables() []data.Variable {
	return []data.Variable{data.NewVariable("path", 0, nil), data.NewVariable("handler", 1, nil)}
}

func (h *hotFn) lookup(url string) nethttp.Handler {
	if i := strings.IndexByte(url, '?'); i >= 0 {
		url = url[:i]
	}
	h.mu.Lock()
	defer h.mu.Unlock()
	return h.routes[url]
}

// server is one in-process origami HTTP server with the helper functions registered.
type server struct {
	env   *vh.HTTPEnv
	gate  *gateFn
	hot   *hotFn
	front *frontFn
	// afterTurn (round 8): called by runTurns on the controller's goroutine after every turn, while
	// every request is parked or finished — the output stream reads the process's stdout there
	afterTurn func(r int)
}

// frontFn is verif_front($server): a second Server object of the script whose routes forward to the
// first one through the script-level `$server->serveHTTP($res, $req)`; requests with Via "front"
// enter through its mux.
type frontFn struct{ mux *nethttp.ServeMux }

func (f *frontFn) Call(ctx data.Context) (data.GetValue, data.Control) {
	v, _ := ctx.GetIndexValue(0)
	if pv, ok := v.(*data.ClassValue); ok {
		if s, ok := pv.Class.(interface{ GetSource() any }); ok {
			if m, ok := s.GetSource().(*nethttp.ServeMux); ok {
				f.mux = m
			}
		}
	}
	return nil, nil
}
func (f *frontFn) GetName() string { return "verif_front" }
func (f *frontFn) GetParams() []data.GetValue {
	return []data.GetValue{data.NewParameter("s", 0)}
}
func (f *frontFn) GetVariables() []data.Variable {
	return []data.Variable{data.NewVariable("s", 0, nil)}
}

func newServer(script string) (*server, error) {
	env, o := vh.NewHTTPEnv("<?php\n")
	if o.Kind != "ok" {
		return nil, fmt.Errorf("bootstrap: %s", o.String())
	}
	g := &gateFn{ctrl: map[int]*reqCtl{}}
	hot := &hotFn{routes: map[string]nethttp.Handler{}}
	env.VM.AddFunc(g)
	env.VM.AddFunc(strFn{})
	env.VM.AddFunc(hot)
	env.VM.AddFunc(attrFn{})
	front := &frontFn{}
	env.VM.AddFunc(front)
	o = env.RunSource(script, "/verif-c11.php")
	if o.Kind != "ok" {
		return nil, fmt.Errorf("server script: %s", o.String())
	}
	if env.Mux == nil {
		return nil, fmt.Errorf("server script did not expose a mux")
	}
	return &server{env: env, gate: g, hot: hot, front: front}, nil
}

// wire is what one request looks like on the wire.
type wire struct {
	Method  string      `json:"method"`
	URL     string      `json:"url"`
	Body    string      `json:"body,omitempty"`
	Headers [][2]string `json:"headers,omitempty"`
	Cookies [][2]string `json:"cookies,omitempty"`
	// Via: "" = the server's mux (or a verif_hot route of that path), "front" = the mux of the
	// forwarding server (verif_front)
	Via string `json:"via,omitempty"`
}

func (w wire) build() *nethttp.Request {
	var rd io.Reader
	if w.Body != "" {
		rd = strings.NewReader(w.Body)
	}
	req := httptest.NewRequest(w.Method, w.URL, rd)
	if w.Body != "" {
		req.Header.Set("Content-Type", "application/x-www-form-urlencoded")
	}
	for _, h := range w.Headers {
		req.Header.Set(h[0], h[1])
	}
	for _, c := range w.Cookies {
		req.AddCookie(&nethttp.Cookie{Name: c[0], Value: c[1]})
	}
	return req
}

// resp is the client-visible outcome of one request.
type resp struct {
	Code   int
	Header string
	Body   string
	Panic  string
}

func (r resp) String() string {
	if r.Panic != "" {
		return "panic: " + r.Panic
	}
	return fmt.Sprintf("%d [%s] %s", r.Code, r.Header, r.Body)
}

func canonHeader(h nethttp.Header) string {
	var ks []string
	for k, vs := range h {
		ks = append(ks, k+":"+strings.Join(vs, ","))
	}
	sort.Strings(ks)
	return strings.Join(ks, ";")
}

// serve runs one request to completion on the calling goroutine.
func (s *server) serve(w wire) (r resp) {
	rw := httptest.NewRecorder()
	defer func() {
		if p := recover(); p != nil {
			if c, ok := p.(data.Control); ok {
				r.Panic = "control: " + firstLine(c.AsString())
			} else {
				r.Panic = firstLine(fmt.Sprint(p))
			}
		}
	}()
	if w.Via == "front" && s.front.mux != nil {
		s.front.mux.ServeHTTP(rw, w.build())
	} else if h := s.hot.lookup(w.URL); h != nil {
		h.ServeHTTP(rw, w.build())
	} else {
		s.env.Mux.ServeHTTP(rw, w.build())
	}
	return resp{Code: rw.Code, Header: canonHeader(rw.Header()), Body: rw.Body.String()}
}

func firstLine(s string) string {
	if i := strings.IndexByte(s, '\n'); i >= 0 {
		return s[:i]
	}
	return s
}

// runTurns executes a gate-level schedule: turn r = "request r runs up to its
// next gate or to its end". Exactly one request goroutine is runnable at any
// time, so the interleaving is forced (no dependence on the Go scheduler).
// Requests still parked when the turns run out are finished in index order;
// the turns actually played are returned.
func (s *server) runTurns(ids []int, reqs []wire, turns []int) (out []resp, played []int, err error) {
	n := len(reqs)
	out = make([]resp, n)
	ctl := make([]*reqCtl, n)
	started := make([]bool, n)
	done := make([]bool, n)
	s.gate.mu.Lock()
	for i := range reqs {
		ctl[i] = &reqCtl{parked: make(chan bool, 1), resume: make(chan struct{})}
		s.gate.ctrl[ids[i]] = ctl[i]
	}
	s.gate.mu.Unlock()
	defer func() {
		s.gate.mu.Lock()
		for _, id := range ids {
			delete(s.gate.ctrl, id)
		}
		s.gate.mu.Unlock()
	}()
	turn := func(r int) error {
		if r < 0 || r >= n || done[r] {
			return nil
		}
		played = append(played, r)
		if !started[r] {
			started[r] = true
			go func() {
				out[r] = s.serve(reqs[r])
				ctl[r].parked <- false
			}()
		} else {
			ctl[r].resume <- struct{}{}
		}
		select {
		case p := <-ctl[r].parked:
			if !p {
				done[r] = true
			}
		case <-time.After(20 * time.Second):
			return fmt.Errorf("request %d neither reached a gate nor finished within 20s", r)
		}
		if s.afterTurn != nil {
			s.afterTurn(r)
		}
		return nil
	}
	for _, r := range turns {
		if err = turn(r); err != nil {
			return
		}
	}
	for r := 0; r < n; r++ {
		for started[r] && !done[r] || !started[r] {
			if err = turn(r); err != nil {
				return
			}
		}
	}
	return
}
