package c11

import (
	"fmt"
	"sort"
	"strings"
)

// The boot catalogue (round 7): values that exist BEFORE any request — defined when the server
// script boots — and reach a request across a by-value boundary. Arrays and `{k: v}` objects are
// value types in this language: whatever a handler does to "its" value (and whatever the
// interpreter keeps inside the value, e.g. the foreach cursor) belongs to the request. The
// handler closure, the functions and the classes are ONE object each for every request, so a
// boundary that stops copying some kind of value makes all in-flight requests share one mutable
// value.
//
// Generated systematically: value shape × boundary × disturbance, one route `/v/boot-<b>-<v>-<d>`
// each (the kinds join the value catalogue: same servers, same oracles, same replay kind "vals",
// same load stream). Every body parks ONCE: between disturbing the value and reading it back, or
// inside the foreach that reads it.
//
// Oracle: bootWant — a small reference implementation of the ordered-map operations in Go,
// computed from the request's own parameter only — and the solo response (values.go).

// ---- value shapes

type bkv struct{ k, v string }

type bootShape struct {
	name   string
	lit    string // the literal, evaluated at boot
	nested bool
	flat   []bkv // flat shapes: the initial content
	// element syntax
	first  string // flat: l-value of the first element of $v (`%s` = variable)
	second string // flat: the second element, for unset
	addKey string // flat: l-value of a NEW element whose key depends on $x ("" = `$v[]`)
	in, li string // nested: the inner map / the inner list as expressions over the variable
}

var bootShapes = []bootShape{
	{name: "obj", lit: `{a: "1", b: "2", c: "3"}`, flat: []bkv{{"a", "1"}, {"b", "2"}, {"c", "3"}},
		first: `%s->a`, second: `%s["b"]`, addKey: `%s["n" . $x]`},
	{name: "lst", lit: `["p", "q", "r"]`, flat: []bkv{{"0", "p"}, {"1", "q"}, {"2", "r"}},
		first: `%s[0]`, second: `%s[1]`, addKey: ""},
	{name: "map", lit: `["k1" => "v1", "k2" => "v2", "k3" => "v3"]`, flat: []bkv{{"k1", "v1"}, {"k2", "v2"}, {"k3", "v3"}},
		first: `%s["k1"]`, second: `%s["k2"]`, addKey: `%s["n" . $x]`},
	{name: "nobj", lit: `{in: {u: "1", w: "2"}, li: ["e", "f"]}`, nested: true, in: `%s->in`, li: `%s->li`},
	{name: "nlst", lit: `[{u: "1", w: "2"}, ["e", "f"]]`, nested: true, in: `%s[0]`, li: `%s[1]`},
}

func bootDumpLoop(expr string, park bool) string {
	if park {
		return `$i = 0; foreach (` + expr + ` as $k => $e) { $t = $t . $k . "=" . $e . ";"; if ($i == 0) { verif_gate($g); } $i = $i + 1; } `
	}
	return `foreach (` + expr + ` as $k => $e) { $t = $t . $k . "=" . $e . ";"; } `
}

func (s bootShape) dump(v string, park bool) string {
	if s.nested {
		return bootDumpLoop(fmt.Sprintf(s.in, v), park) + `$t = $t . "/"; ` + bootDumpLoop(fmt.Sprintf(s.li, v), false)
	}
	return bootDumpLoop(v, park)
}

// ---- disturbances

var bootDisturbances = []string{"write", "add", "unset", "sort", "nested", "iter", "read"}

// bootBody: statements over the variable v (with $x, $g in scope) that leave the answer in $t.
// ok = false: the disturbance does not apply to the shape.
func bootBody(s bootShape, d string, v string) (string, bool) {
	pre := `$t = $x . ":"; `
	gate := `verif_gate($g); `
	switch d {
	case "write":
		if s.nested {
			return "", false
		}
		return pre + fmt.Sprintf(s.first, v) + ` = $x; ` + gate + s.dump(v, false), true
	case "add":
		if s.nested {
			return "", false
		}
		lv := v + `[]`
		if s.addKey != "" {
			lv = fmt.Sprintf(s.addKey, v)
		}
		return pre + lv + ` = $x; ` + gate + s.dump(v, false), true
	case "unset":
		if s.nested {
			return "", false
		}
		return pre + `unset(` + fmt.Sprintf(s.second, v) + `); ` + gate + s.dump(v, false), true
	case "sort":
		if s.nested {
			return "", false
		}
		if s.name == "lst" {
			return pre + v + `[] = "s" . $x; rsort(` + v + `); ` + gate + s.dump(v, false), true
		}
		return pre + v + `["A" . $x] = $x; ksort(` + v + `); ` + gate + s.dump(v, false), true
	case "nested":
		if !s.nested {
			return "", false
		}
		in, li := fmt.Sprintf(s.in, v), fmt.Sprintf(s.li, v)
		return pre + in + `->u = $x; ` + li + `[] = $x; ` + gate + s.dump(v, false), true
	case "iter": // read-only: parked INSIDE the foreach (the value's cursor is the only thing that moves)
		return pre + s.dump(v, true), true
	case "read": // read-only control: sees what others left behind
		return pre + gate + s.dump(v, false), true
	}
	return "", false
}

func bootDumpWant(l []bkv) string {
	var sb strings.Builder
	for _, e := range l {
		sb.WriteString(e.k + "=" + e.v + ";")
	}
	return sb.String()
}

// bootWant: the answer from the request's own parameter — reference semantics of the ordered map.
func bootWant(s bootShape, d string, x string) string {
	if s.nested {
		in := []bkv{{"u", "1"}, {"w", "2"}}
		li := []bkv{{"0", "e"}, {"1", "f"}}
		if d == "nested" {
			in[0].v = x
			li = append(li, bkv{"2", x})
		}
		return x + ":" + bootDumpWant(in) + "/" + bootDumpWant(li)
	}
	l := append([]bkv{}, s.flat...)
	switch d {
	case "write":
		l[0].v = x
	case "add":
		if s.addKey == "" {
			l = append(l, bkv{fmt.Sprint(len(l)), x})
		} else {
			l = append(l, bkv{"n" + x, x})
		}
	case "unset":
		l = append(l[:1:1], l[2:]...)
	case "sort":
		if s.name == "lst" {
			vals := []string{"s" + x}
			for _, e := range l {
				vals = append(vals, e.v)
			}
			sort.Sort(sort.Reverse(sort.StringSlice(vals)))
			l = nil
			for i, v := range vals {
				l = append(l, bkv{fmt.Sprint(i), v})
			}
		} else {
			l = append(l, bkv{"A" + x, x})
			sort.SliceStable(l, func(i, j int) bool { return l[i].k < l[j].k })
		}
	}
	return x + ":" + bootDumpWant(l)
}

// ---- boundaries

// bootBoundary: how the boot value reaches the request. build returns the boot declarations,
// the handler's use clause and the handler body for (shape, disturbance); id is unique per kind.
type bootBoundary struct {
	name   string
	what   string
	noLoad bool
	build  func(s bootShape, d string, id string) (decl, use, body string, ok bool)
}

var bootBoundaries = []bootBoundary{
	{name: "use", what: "by-value `use` capture of the handler closure itself",
		build: func(s bootShape, d, id string) (string, string, string, bool) {
			v := "$bv_" + id
			b, ok := bootBody(s, d, v)
			return v + " = " + s.lit + ";\n", v, b, ok
		}},
	{name: "inner", what: "by-value `use` capture of a closure made at boot, which the handler captures and calls",
		build: func(s bootShape, d, id string) (string, string, string, bool) {
			v, f := "$bv_"+id, "$bf_"+id
			b, ok := bootBody(s, d, v)
			return v + " = " + s.lit + ";\n" + f + " = function ($x, $g) use (" + v + ") { " + b + " return $t; };\n", f, `$t = ` + f + `($x, $g);`, ok
		}},
	{name: "arrow", what: "automatic capture of an arrow function made at boot: the handler gets the value through it",
		build: func(s bootShape, d, id string) (string, string, string, bool) {
			v, f := "$bv_"+id, "$bf_"+id
			b, ok := bootBody(s, d, "$v")
			return v + " = " + s.lit + ";\n" + f + " = fn() => " + v + ";\n", f, `$v = ` + f + `(); ` + b, ok
		}},
	{name: "default", what: "default parameter value of a function declared at boot",
		build: func(s bootShape, d, id string) (string, string, string, bool) {
			b, ok := bootBody(s, d, "$v")
			return "function bfn_" + id + "($x, $g, $v = " + s.lit + ") { " + b + " return $t; }\n", "", `$t = bfn_` + id + `($x, $g);`, ok
		}},
	{name: "mdefault", what: "default parameter value of a method of an object made at boot",
		build: func(s bootShape, d, id string) (string, string, string, bool) {
			b, ok := bootBody(s, d, "$v")
			return "class BK_" + id + " { function run($x, $g, $v = " + s.lit + ") { " + b + " return $t; } }\n$bi_" + id + " = new BK_" + id + "();\n", "$bi_" + id, `$t = $bi_` + id + `->run($x, $g);`, ok
		}},
	{name: "ret", what: "value returned by a function declared at boot",
		build: func(s bootShape, d, id string) (string, string, string, bool) {
			b, ok := bootBody(s, d, "$v")
			return "function bfn_" + id + "() { $l = " + s.lit + "; return $l; }\n", "", `$v = bfn_` + id + `(); ` + b, ok
		}},
	{name: "slocal", what: "`static` local of a function declared at boot, handed out by value", noLoad: true,
		build: func(s bootShape, d, id string) (string, string, string, bool) {
			b, ok := bootBody(s, d, "$v")
			return "function bfn_" + id + "() { static $s = " + s.lit + "; return $s; }\n", "", `$v = bfn_` + id + `(); ` + b, ok
		}},
	{name: "const", what: "class constant read into a local",
		build: func(s bootShape, d, id string) (string, string, string, bool) {
			b, ok := bootBody(s, d, "$v")
			return "class BK_" + id + " { const V = " + s.lit + "; }\n", "", `$v = BK_` + id + `::V; ` + b, ok
		}},
	{name: "sprop", what: "static property read into a local",
		build: func(s bootShape, d, id string) (string, string, string, bool) {
			b, ok := bootBody(s, d, "$v")
			return "class BK_" + id + " { static $v = " + s.lit + "; }\n", "", `$v = BK_` + id + `::$v; ` + b, ok
		}},
	{name: "iprop", what: "property of an object made at boot (captured handle) read into a local",
		build: func(s bootShape, d, id string) (string, string, string, bool) {
			b, ok := bootBody(s, d, "$v")
			return "class BK_" + id + " { public $v = " + s.lit + "; }\n$bi_" + id + " = new BK_" + id + "();\n", "$bi_" + id, `$v = $bi_` + id + `->v; ` + b, ok
		}},
	{name: "iget", what: "value returned by a getter of an object made at boot",
		build: func(s bootShape, d, id string) (string, string, string, bool) {
			b, ok := bootBody(s, d, "$v")
			return "class BK_" + id + " { public $v = " + s.lit + "; function get() { return $this->v; } }\n$bi_" + id + " = new BK_" + id + "();\n", "$bi_" + id, `$v = $bi_` + id + `->get(); ` + b, ok
		}},
	{name: "arg", what: "property of an object made at boot passed straight to a by-value parameter",
		build: func(s bootShape, d, id string) (string, string, string, bool) {
			b, ok := bootBody(s, d, "$v")
			return "class BK_" + id + " { public $v = " + s.lit + "; }\n$bi_" + id + " = new BK_" + id + "();\nfunction bfn_" + id + "($v, $x, $g) { " + b + " return $t; }\n", "$bi_" + id, `$t = bfn_` + id + `($bi_` + id + `->v, $x, $g);`, ok
		}},
	{name: "table", what: "by-value `use` capture of a closure the handler receives from a boot-made array of callbacks",
		build: func(s bootShape, d, id string) (string, string, string, bool) {
			v, f := "$bv_"+id, "$bf_"+id
			b, ok := bootBody(s, d, v)
			return v + " = " + s.lit + ";\n" + f + " = [\"cb\" => function ($x, $g) use (" + v + ") { " + b + " return $t; }];\n", f, `$h = ` + f + `["cb"]; $t = $h($x, $g);`, ok
		}},
}

// bootSkip: combinations kept out, with the reason (sequential behaviour of the pinned tree that
// is not C11's business). Key "<boundary>-<shape>-<disturbance>", `*` matches any part.
var bootSkip = map[string]string{}

func bootSkipped(b, s, d string) (string, bool) {
	for _, k := range []string{b + "-" + s + "-" + d, b + "-" + s + "-*", b + "-*-" + d, "*-" + s + "-" + d, b + "-*-*"} {
		if why, ok := bootSkip[k]; ok {
			return why, true
		}
	}
	return "", false
}

func bootKinds() []valKind {
	var out []valKind
	for _, b := range bootBoundaries {
		for _, s := range bootShapes {
			for _, d := range bootDisturbances {
				if _, skip := bootSkipped(b.name, s.name, d); skip {
					continue
				}
				name := "boot-" + b.name + "-" + s.name + "-" + d
				decl, use, body, ok := b.build(s, d, b.name+"_"+s.name+"_"+d)
				if !ok {
					continue
				}
				s, d := s, d
				out = append(out, valKind{Name: name, Decl: decl, Use: use, Body: body, Gates: 1, Boot: true, NoLoad: b.noLoad,
					Want: func(x string) string { return bootWant(s, d, x) }, Cap: bootCap(b.name, s, d)})
			}
		}
	}
	// control: an immutable value across the same boundaries (no copy needed, nothing to share)
	out = append(out, valKind{Name: "boot-use-str-read", Decl: "$bv_str = \"lbl\";\n", Use: "$bv_str", Boot: true, Gates: 1,
		Body: `$t = $x . ":" . $bv_str; $bv_str = $bv_str . $x; verif_gate($g); $t = $t . "|" . $bv_str;`,
		Want: func(x string) string { return x + ":lbl|lbl" + x }})
	return out
}

// bootExhaustive: per boot kind two requests on the same route with different data — every
// gate-level interleaving in thorough; in quick the three that differ in who is parked while the
// other passes (A parked while B runs through; A and B both parked, B released first; one after
// the other: residue) — plus three requests all parked and released in reverse order.
func bootExhaustive(thorough bool) []valCase {
	var out []valCase
	for ki, k := range valKinds() {
		if !k.Boot || k.Known != "" {
			continue
		}
		a, b, c3 := valReq{k.Name, valX(0, ki)}, valReq{k.Name, valX(1, ki)}, valReq{k.Name, valX(2, ki)}
		var turns [][]int
		if thorough {
			turns = interleavings([]int{2, 2})
		} else {
			turns = [][]int{{0, 1, 1, 0}, {0, 1, 0, 1}, {0, 0, 1, 1}}
		}
		for _, t := range turns {
			out = append(out, valCase{Reqs: []valReq{a, b}, Turns: t})
		}
		out = append(out, valCase{Reqs: []valReq{a, b, c3}, Turns: []int{0, 1, 2, 2, 1, 0}})
	}
	return out
}

// ------------------------------------------------------------ correspondence with Model.ReqCap

// capInfo: the kind as a program of Model.ReqCap — kind of value, boot content (strings, coded
// 1..n for the model), steps.
type capInfo struct {
	Kind string
	Boot []string
	Prog string
}

// bootCap: closure-capture boundaries over flat shapes, disturbances the model has steps for.
func bootCap(b string, s bootShape, d string) *capInfo {
	if s.nested || (b != "use" && b != "inner" && b != "table") {
		return nil
	}
	ci := &capInfo{Kind: "obj"}
	if s.name == "lst" {
		ci.Kind = "arr"
	}
	for _, e := range s.flat {
		ci.Boot = append(ci.Boot, e.v)
	}
	switch d {
	case "write":
		ci.Prog = "s.0 gate ra write"
	case "add":
		ci.Prog = "p gate ra write"
	case "read":
		ci.Prog = "gate ra write"
	case "iter":
		ci.Prog = "rw n gate" + strings.Repeat(" n", len(s.flat)-1) + " write"
	default:
		return nil
	}
	return ci
}

// capCorrespondence: cases whose requests all go to one such route are also run through the
// Lean model (binding discipline derived from the regenerated capture facts): the values each
// request reads back / iterates over.
func (rn *runner) capCorrespondence(cs valCase, out []resp, played []int) {
	if rn.m == nil || len(cs.Reqs) == 0 {
		return
	}
	k := valByName[cs.Reqs[0].K]
	if k.Cap == nil {
		return
	}
	code := map[string]string{}
	var boot, reqs []string
	for i, v := range k.Cap.Boot {
		code[v] = fmt.Sprint(i + 1)
		boot = append(boot, fmt.Sprint(i+1))
	}
	for _, r := range cs.Reqs {
		if r.K != k.Name {
			return
		}
		code[r.X] = r.X
		reqs = append(reqs, r.X+"#"+k.Cap.Prog)
	}
	ans, err := rn.m.Ask("cap\tgen\t" + k.Cap.Kind + "\t" + strings.Join(boot, ",") + "\t" + strings.Join(reqs, ";") + "\t" + intsCSV(played))
	if err != nil {
		rn.c.Note("model failed: %v", err)
		return
	}
	per := strings.Split(ans, ";")
	if len(per) != len(cs.Reqs) || strings.HasPrefix(ans, "bad-") {
		rn.c.Mismatch(cs, "", ans, "model answer malformed (cap)")
		return
	}
	rn.c.Res.Traces++
	for i, p := range per {
		x := cs.Reqs[i].X
		// what the request's own data give, in the model's coding
		body := strings.TrimPrefix(k.Want(x), x+":")
		var own []string
		for _, kv := range strings.Split(strings.TrimSuffix(body, ";"), ";") {
			if j := strings.Index(kv, "="); j >= 0 {
				own = append(own, code[kv[j+1:]])
			}
		}
		if p != strings.Join(own, ",") {
			// only on a tree whose capture facts say that some kind is not copied: the obligation already fails
			rn.c.Hit("cap-model-predicts-leak")
			continue
		}
		if out[i].Panic != "" {
			continue
		}
		var got []string
		for _, kv := range strings.Split(strings.TrimSuffix(strings.TrimPrefix(out[i].Body, x+":"), ";"), ";") {
			if j := strings.Index(kv, "="); j >= 0 {
				c, ok := code[kv[j+1:]]
				if !ok {
					c = "?" + kv[j+1:]
				}
				got = append(got, c)
			}
		}
		if strings.Join(got, ",") != p {
			rn.c.Mismatch(cs, fmt.Sprintf("request %d read %s (%q)", i, strings.Join(got, ","), out[i].Body), fmt.Sprintf("request %d reads %s", i, p), "served response vs Model.ReqCap under the played schedule "+intsCSV(played))
		}
	}
}
