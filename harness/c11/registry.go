package c11

import (
	"encoding/json"
	"fmt"
	"regexp"
	"strconv"
	"strings"
	"time"

	"verif/harness/vh"
)

// The registry stream (round 5): per-request state the server keeps in process-wide registries.
//
// std/net/http keeps, per request, the server's onFormat closure (requestFormatterSlots, stored by
// withResponseFormatter, read by every beginResponse) and the `$r->attribute(k, v)` bag
// (requestAttrBags) in two package-level maps; every layer of the request path (closure middleware,
// class middleware, Handler, HotHandler) ends with detachRequestAttrs. A request keeps what it
// attached only as long as its key is its own: a key that two requests in flight share (the
// request's Context(), its URL, the client address, a recycled id) makes the first to finish
// delete the entry of the other.
//
// One server with a custom onFormat envelope, onError, two closure middlewares (priority 0 and 10),
// a class middleware (priority 20) and one handler closure mounted at /g, under a group (/api/g),
// behind HotHandler (/hg) and behind a second server that forwards with `$server->serveHTTP()`
// (front). What a request does is carried in its query, so that every request of a case goes
// through the SAME route, the same client address, and — when two requests carry the same x — the
// same URL (the gate id travels in a header):
//
//	a    the answer: success | created | error | format (through the formatter) | json | write | throw
//	who  the layer that answers: h (the handler) | m2 | m1 (a middleware short-circuits)
//	cl   clone (m2 hands `$r->clone()` to $next) | withctx (`$r->withContext()`) | hclone (the handler
//	     keeps its attributes on a clone)
//	so   m2 also sets the optional attribute `opt`
//	p_<point>=1  park (verif_gate) at that point: m1pre m2pre m3pre hpre (before the answer, after the
//	     layer set its attribute) hpost m2post m1post (after the answer)
//
// Every layer sets an attribute to the request's x and reads all four attributes back after its
// park point (verif_attr: the bag read through the class's own `attribute` method); readings taken
// before the answer travel in headers X-R-<point>, those after it are appended to the body.
//
// Oracles, independent of the Lean model: (a) regWant — the response as a Go function of the
// request's own parameters (for the configurations without clone / throw), (b) the same request
// served alone on a second server, (c) no other request's x anywhere in the response.
// Correspondence: `vm_c11 reg gen …` (Model.ReqReg with the key function of the regenerated facts)
// predicts whether the final lookup of the formatter finds the slot and every attribute reading.

var regPoints = []string{"m1pre", "m2pre", "m3pre", "hpre", "hpost", "m2post", "m1post"}

var regAnswers = []string{"success", "created", "error", "format", "json", "write", "throw"}

const regScriptSrc = `<?php
use Net\Http\Server;
function rg_park($req, $pt) { if ($req->input("p_" . $pt) == "1") { verif_gate($req->header("X-G")); } }
function rg_read($req) { return verif_attr($req, "m1") . "," . verif_attr($req, "m2") . "," . verif_attr($req, "h") . "," . verif_attr($req, "opt"); }
function rg_answer($req, $res, $who) {
  $x = $req->input("x"); $a = $req->input("a");
  if ($a == "success") { $res->success(["x" => $x, "by" => $who]); }
  else if ($a == "created") { $res->success(["x" => $x], "made" . $x, 201); }
  else if ($a == "error") { $res->error("e" . $x, 404); }
  else if ($a == "format") { $res->format(422, "f" . $x, ["x" => $x, "by" => $who]); }
  else if ($a == "json") { $res->json(["x" => $x, "by" => $who]); }
  else if ($a == "throw") { throw new Exception("thrown"); } // constant text: every built-in exception instance shares ONE message object (known finding builtin-exception:shared-message), so a per-request text would make this stream re-report that defect under its own signature
  else { $res->write("w" . $x . $who); }
}
class Mw3 {
  function handle($request, $response, $next) {
    rg_park($request, "m3pre");
    $response->header("X-R-m3pre", rg_read($request));
    $next($request, $response);
  }
}
$server = new Server('127.0.0.1', 0);
$server->onFormat(function ($code, $message, $data) { return ['errno' => $code, 'msg' => $message, 'result' => $data, 'env' => 'custom']; });
$server->onError(function ($request, $response, $error) { $response->error("E" . $request->input("x"), 500); });
$server->middleware(function ($request, $response, $next) {
  $x = $request->input("x");
  $request->attribute("m1", $x);
  rg_park($request, "m1pre");
  $response->header("X-R-m1pre", rg_read($request));
  if ($request->input("who") == "m1") { rg_answer($request, $response, "m1"); } else { $next($request, $response); }
  rg_park($request, "m1post");
  $response->write("|m1post:" . rg_read($request));
}, 0);
$server->middleware(function ($request, $response, $next) {
  $x = $request->input("x");
  $request->attribute("m2", $x);
  if ($request->input("so") == "1") { $request->attribute("opt", $x); }
  rg_park($request, "m2pre");
  $response->header("X-R-m2pre", rg_read($request));
  $cl = $request->input("cl");
  if ($request->input("who") == "m2") { rg_answer($request, $response, "m2"); }
  else if ($cl == "clone") { $next($request->clone(), $response); }
  else if ($cl == "withctx") { $next($request->withContext(), $response); }
  else { $next($request, $response); }
  rg_park($request, "m2post");
  $response->write("|m2post:" . rg_read($request));
}, 10);
$server->middleware(new Mw3(), 20);
$h = function ($req, $res) {
  $x = $req->input("x");
  $q = $req;
  if ($req->input("cl") == "hclone") { $q = $req->clone(); }
  $q->attribute("h", $x);
  rg_park($req, "hpre");
  $res->header("X-R-hpre", rg_read($q));
  rg_answer($req, $res, "h");
  rg_park($req, "hpost");
  $res->write("|hpost:" . rg_read($q));
};
$server->get('/g', $h);
verif_hot('/hg', $h);
$api = $server->group('/api');
$api->get('/g', $h);
$server->get('/zz', function ($req, $res) { $res->write('z'); });
$front = new Server('127.0.0.1', 0);
$front->get('/g', function ($req, $res) use ($server) {
  $req->attribute("opt", "9");
  $server->serveHTTP($res, $req);
  $res->write("|front:" . rg_read($req));
});
verif_front($front);
verif_expose($server);
`

// ------------------------------------------------------------ cases

type regReq struct {
	A    string   `json:"a"`             // the answer
	Who  string   `json:"who,omitempty"` // "" = h
	Park []string `json:"park,omitempty"`
	X    string   `json:"x"`
	Via  string   `json:"via,omitempty"` // "" = /g on the server's mux | api | hot | front
	Cl   string   `json:"cl,omitempty"`
	So   bool     `json:"so,omitempty"`
}

// regCase: requests to the registry routes under a forced gate-level schedule (a request has one
// turn per park point it reaches + one).
type regCase struct {
	Kind    string   `json:"kind"` // "reg"
	Name    string   `json:"name,omitempty"`
	Reqs    []regReq `json:"reqs"`
	Turns   []int    `json:"turns"`
	History int      `json:"history,omitempty"` // how many cases the same server had served before
}

func (r regReq) who() string {
	if r.Via == "hot" || r.Who == "" {
		return "h"
	}
	return r.Who
}

// reached: the park points the request passes, in order
func (r regReq) reached() []string {
	thrown := r.A == "throw"
	if r.Via == "hot" {
		if thrown {
			return []string{"hpre"}
		}
		return []string{"hpre", "hpost"}
	}
	switch r.who() {
	case "m1":
		if thrown {
			return []string{"m1pre"}
		}
		return []string{"m1pre", "m1post"}
	case "m2":
		if thrown {
			return []string{"m1pre", "m2pre", "m1post"}
		}
		return []string{"m1pre", "m2pre", "m2post", "m1post"}
	}
	if thrown {
		return []string{"m1pre", "m2pre", "m3pre", "hpre", "m1post"}
	}
	return regPoints
}

// gates: the park points at which the request really parks, in order
func (r regReq) gates() []string {
	var out []string
	for _, p := range r.reached() {
		for _, q := range r.Park {
			if p == q {
				out = append(out, p)
				break
			}
		}
	}
	return out
}

func regWire(r regReq, gid int) wire {
	path := "/g"
	switch r.Via {
	case "api":
		path = "/api/g"
	case "hot":
		path = "/hg"
	}
	u := path + "?x=" + r.X + "&a=" + r.A
	if r.Who != "" && r.Who != "h" {
		u += "&who=" + r.Who
	}
	if r.Cl != "" {
		u += "&cl=" + r.Cl
	}
	if r.So {
		u += "&so=1"
	}
	for _, p := range r.Park {
		u += "&p_" + p + "=1"
	}
	w := wire{Method: "GET", URL: u}
	if r.Via == "front" {
		w.Via = "front"
	}
	if gid >= 0 {
		w.Headers = [][2]string{{"X-G", strconv.Itoa(gid)}}
	}
	return w
}

var tsRe = regexp.MustCompile(`"timestamp":\d+`)

// canonResp: the default envelope carries the wall clock
func canonResp(r resp) resp {
	r.Body = tsRe.ReplaceAllString(r.Body, `"timestamp":T`)
	return r
}

// ------------------------------------------------------------ the own-data oracle

func regEnvelope(custom bool, code int, msg, data string) string {
	if custom {
		return fmt.Sprintf(`{"errno":%d,"msg":"%s","result":%s,"env":"custom"}`, code, msg, data)
	}
	return fmt.Sprintf(`{"code":%d,"message":"%s","data":%s,"timestamp":T}`, code, msg, data)
}

// regWant: what the request's own parameters prescribe (ok=false: no such oracle for this
// configuration — clones and thrown exceptions are judged by the solo run only)
func regWant(r regReq) (resp, bool) {
	if r.Cl != "" || r.A == "throw" {
		return resp{}, false
	}
	x, who := r.X, r.who()
	custom := r.Via != "hot"
	code, body, json := 200, "", true
	switch r.A {
	case "success":
		body = regEnvelope(custom, 200, "success", fmt.Sprintf(`{"x":"%s","by":"%s"}`, x, who))
	case "created":
		code, body = 201, regEnvelope(custom, 201, "made"+x, fmt.Sprintf(`{"x":"%s"}`, x))
	case "error":
		code, body = 404, regEnvelope(custom, 404, "e"+x, "null")
	case "format":
		code, body = 422, regEnvelope(custom, 422, "f"+x, fmt.Sprintf(`{"x":"%s","by":"%s"}`, x, who))
	case "json":
		body = fmt.Sprintf(`{"x":"%s","by":"%s"}`, x, who)
	default:
		body, json = "w"+x+who, false
	}
	opt0, opt := "~", "~" // the optional attribute before / after m2 set it
	if r.Via == "front" {
		opt0, opt = "9", "9"
	}
	if r.So {
		opt = x
	}
	hdr := map[string]string{}
	if json {
		hdr["Content-Type"] = "application/json; charset=utf-8"
	}
	rd := func(m1, m2, h, o string) string { return m1 + "," + m2 + "," + h + "," + o }
	none := rd("~", "~", "~", "~")
	if r.Via == "hot" {
		hdr["X-R-Hpre"] = rd("~", "~", x, "~")
		body += "|hpost:" + rd("~", "~", x, "~")
	} else {
		hdr["X-R-M1pre"] = rd(x, "~", "~", opt0)
		switch who {
		case "m1":
			body += "|m1post:" + rd(x, "~", "~", opt0)
		case "m2":
			hdr["X-R-M2pre"] = rd(x, x, "~", opt)
			body += "|m2post:" + rd(x, x, "~", opt) + "|m1post:" + none
		default:
			hdr["X-R-M2pre"] = rd(x, x, "~", opt)
			hdr["X-R-M3pre"] = rd(x, x, "~", opt)
			hdr["X-R-Hpre"] = rd(x, x, x, opt)
			body += "|hpost:" + rd(x, x, x, opt) + "|m2post:" + none + "|m1post:" + none
		}
		if r.Via == "front" {
			body += "|front:" + none
		}
	}
	h := map[string][]string{}
	for k, v := range hdr {
		h[k] = []string{v}
	}
	return resp{Code: code, Header: canonHeader(h), Body: body}, true
}

// ------------------------------------------------------------ playing and judging

func playReg(srv *server, reqs []regReq, turns []int) ([]resp, []int, error) {
	ids := make([]int, len(reqs))
	wires := make([]wire, len(reqs))
	for i, r := range reqs {
		ids[i] = 200000 + i
		wires[i] = regWire(r, ids[i])
	}
	out, played, err := srv.runTurns(ids, wires, turns)
	for i := range out {
		out[i] = canonResp(out[i])
	}
	return out, played, err
}

type regSolo struct {
	srv *server
	got map[string]resp
}

func (s *regSolo) serve(r regReq) resp {
	w := regWire(r, -1)
	k := w.Via + " " + w.URL
	if v, ok := s.got[k]; ok {
		return v
	}
	v := canonResp(s.srv.serve(w))
	s.got[k] = v
	return v
}

type regFailure struct{ sig, what string }

// regMain: the part of the body the answer method wrote (the attribute readings follow it)
func regMain(body string) string {
	if i := strings.Index(body, "|"); i >= 0 {
		return body[:i]
	}
	return body
}

// regClass: the kind of difference between a response and its reference
func regClass(got, ref resp) string {
	gm, rm := regMain(got.Body), regMain(ref.Body)
	switch {
	case got.Panic != "" || ref.Panic != "":
		return "registry:panic"
	case strings.Contains(gm, `"env":"custom"`) != strings.Contains(rm, `"env":"custom"`):
		return "registry:envelope" // the onFormat envelope lost (or somebody else's gained)
	case gm == rm && got.Code == ref.Code:
		return "registry:attributes" // the answer itself agrees: an attribute reading differs
	}
	return "registry:response"
}

func judgeReg(solo *regSolo, reqs []regReq, out []resp, played []int) []regFailure {
	var fails []regFailure
	seen := map[string]bool{}
	add := func(sig, what string) {
		if !seen[sig] {
			seen[sig] = true
			fails = append(fails, regFailure{sig, what})
		}
	}
	for i, r := range reqs {
		got := out[i]
		w := regWire(r, -1)
		url := w.URL
		if w.Via != "" {
			url = w.Via + ":" + url
		}
		// (a) the request's own parameters
		if want, ok := regWant(r); ok && got != want {
			add(regClass(got, want), fmt.Sprintf("request %d of %d (%s) answered %s under schedule %s; from its own parameters the answer is %s", i, len(reqs), url, got, intsCSV(played), want))
			continue
		}
		// (b) the same request served alone
		alone := solo.serve(r)
		if got != alone {
			add(regClass(got, alone), fmt.Sprintf("request %d of %d (%s) answered %s under schedule %s but %s when served alone", i, len(reqs), url, got, intsCSV(played), alone))
			continue
		}
		// (c) nothing of another request
		for j, o := range reqs {
			if j != i && o.X != r.X && (strings.Contains(got.Body, o.X) || strings.Contains(got.Header, o.X)) {
				add("registry:foreign-data", fmt.Sprintf("request %d of %d (%s) answered %s under schedule %s: it carries x=%s of request %d", i, len(reqs), url, got, intsCSV(played), o.X, j))
				break
			}
		}
	}
	return fails
}

// ------------------------------------------------------------ correspondence with Model.ReqReg

// registries of the model: 0 = requestFormatterSlots (value 1 = the server's slot), 1..4 = the
// attributes m1, m2, h, opt of the bag (value = the request's x; 9 = the forwarding server's mark)

// labels of the observations: "fmt" = the lookup of the formatter that decides the envelope,
// "R-<point>:<i>" = reading i at that point, "" = not observable in the response

// regProgram: the registry operations of the request in program order (Model.ReqReg syntax), and what
// each observation of the model corresponds to in the real response ("" = not observable).
func regProgram(r regReq) (steps []string, obs []string, ok bool) {
	if r.Cl != "" || r.A == "throw" {
		return nil, nil, false
	}
	x := r.X
	who := r.who()
	parks := map[string]bool{}
	for _, p := range r.gates() {
		parks[p] = true
	}
	emit := func(s ...string) { steps = append(steps, s...) }
	lookupFmt := func(label string) { emit("l.0"); obs = append(obs, label) }
	read := func(pt string) {
		for i := 1; i <= 4; i++ {
			emit(fmt.Sprintf("l.%d", i))
			obs = append(obs, fmt.Sprintf("R-%s:%d", pt, i-1))
		}
	}
	park := func(pt string) {
		if parks[pt] {
			emit("gate")
		}
	}
	detach := func() { emit("d.0", "d.1", "d.2", "d.3", "d.4") }
	usesFmt := r.A == "success" || r.A == "created" || r.A == "error" || r.A == "format"
	fl := func(layer string) string { // the label of a formatter lookup made by `layer`
		if usesFmt && layer == who {
			return "fmt"
		}
		return ""
	}
	if r.Via == "hot" {
		lookupFmt(fl("h"))
		emit("a.3." + x)
		park("hpre")
		read("hpre")
		park("hpost")
		read("hpost")
		detach()
		emit("write")
		return steps, obs, true
	}
	if r.Via == "front" {
		lookupFmt("") // the forwarding server's Handler: beginResponse, beginRequest, its attribute
		emit("a.4.9")
	}
	emit("a.0.1") // withResponseFormatter
	lookupFmt(fl("m1"))
	emit("a.1." + x)
	park("m1pre")
	read("m1pre")
	if who != "m1" {
		lookupFmt(fl("m2"))
		emit("a.2." + x)
		if r.So {
			emit("a.4." + x)
		}
		park("m2pre")
		read("m2pre")
		if who != "m2" {
			lookupFmt("") // the class middleware
			park("m3pre")
			read("m3pre")
			lookupFmt(fl("h"))
			emit("a.3." + x)
			park("hpre")
			read("hpre")
			park("hpost")
			read("hpost")
			detach() // Handler.ServeHTTP
			detach() // the class middleware
		}
		park("m2post")
		read("m2post")
		detach()
	}
	park("m1post")
	read("m1post")
	detach()
	if r.Via == "front" {
		read("front")
		detach()
	}
	emit("write")
	return steps, obs, true
}

// regObserved: the same observations read off the real response ("?" = not present)
func regObserved(r regReq, got resp, labels []string) []string {
	hdr := map[string]string{}
	for _, kv := range strings.Split(got.Header, ";") {
		if i := strings.Index(kv, ":"); i > 0 {
			hdr[strings.ToLower(kv[:i])] = kv[i+1:]
		}
	}
	reading := func(pt string) []string {
		if v, ok := hdr["x-r-"+pt]; ok {
			return strings.Split(v, ",")
		}
		if i := strings.Index(got.Body, "|"+pt+":"); i >= 0 {
			rest := got.Body[i+len(pt)+2:]
			if j := strings.Index(rest, "|"); j >= 0 {
				rest = rest[:j]
			}
			return strings.Split(rest, ",")
		}
		return nil
	}
	out := make([]string, len(labels))
	for i, l := range labels {
		switch {
		case l == "":
			out[i] = ""
		case l == "fmt":
			main := regMain(got.Body)
			switch {
			case strings.Contains(main, `"env":"custom"`):
				out[i] = "1"
			case strings.Contains(main, `"timestamp"`):
				out[i] = "~"
			default:
				out[i] = "?"
			}
		default:
			p := strings.SplitN(strings.TrimPrefix(l, "R-"), ":", 2)
			idx, _ := strconv.Atoi(p[1])
			if rd := reading(p[0]); idx < len(rd) {
				out[i] = rd[idx]
			} else {
				out[i] = "?"
			}
		}
	}
	return out
}

func regModelLine(cs regCase, played []int) (string, [][]string, bool) {
	var progs []string
	var labels [][]string
	for _, r := range cs.Reqs {
		st, ob, ok := regProgram(r)
		if !ok {
			return "", nil, false
		}
		progs = append(progs, strings.Join(st, " "))
		labels = append(labels, ob)
	}
	return "reg\tgen\t" + strings.Join(progs, ";") + "\t" + intsCSV(played), labels, true
}

// ------------------------------------------------------------ running

func (rn *runner) runRegBatch(cases []regCase, stream string) {
	c := rn.c
	if len(cases) == 0 || rn.regDead {
		return
	}
	srv, err := newServer(regScriptSrc)
	if err != nil {
		c.Violation("registry:script", "the registry server script did not run: "+err.Error(), cases[0])
		rn.regDead = true
		return
	}
	soloSrv, err := newServer(regScriptSrc)
	if err != nil {
		c.Violation("registry:script", "the registry server script did not run (solo server): "+err.Error(), cases[0])
		return
	}
	solo := &regSolo{soloSrv, map[string]resp{}}
	type played struct {
		out   []resp
		turns []int
	}
	runs := make([]played, len(cases))
	var lines []string
	lineOf := make([]int, len(cases))
	labels := make([][][]string, len(cases))
	for j, cs := range cases {
		out, turns, err := playReg(srv, cs.Reqs, cs.Turns)
		if err != nil {
			cs.Kind = "reg"
			c.Violation("schedule:hang", err.Error(), cs)
			rn.regDead = true
			cases = cases[:j] // judge what was played before it
			break
		}
		runs[j] = played{out, turns}
		lineOf[j] = -1
		if ln, lb, ok := regModelLine(cs, turns); ok {
			lineOf[j] = len(lines)
			lines = append(lines, ln)
			labels[j] = lb
		}
	}
	var mres []string
	if rn.m != nil && len(lines) > 0 {
		mres, err = rn.m.AskBatch(lines)
		if err != nil {
			c.Note("model failed: %v", err)
			mres = nil
		}
	}
	for j, cs := range cases {
		cs.Kind = "reg"
		run := runs[j]
		c.Eval(fmt.Sprintf("reg %v %v", cs.Reqs, run.turns), len(cs.Reqs) >= 2 && !sequential(run.turns))
		c.Hit("stream:" + stream)
		c.Hit(fmt.Sprintf("requests=%d", len(cs.Reqs)))
		for _, r := range cs.Reqs {
			c.Hit("registry-answer:" + r.A)
			c.Hit("registry-answered-by:" + r.who())
			via := r.Via
			if via == "" {
				via = "mux"
			}
			c.Hit("registry-route:" + via)
			if r.Cl != "" {
				c.Hit("registry-clone:" + r.Cl)
			}
			for _, p := range r.gates() {
				c.Hit("registry-park:" + p)
			}
		}
		if sequential(run.turns) {
			c.Hit("schedule:sequential")
		} else {
			c.Hit("schedule:interleaved")
		}
		// ---- correspondence with Model.ReqReg (key function taken from the regenerated facts)
		if mres != nil && lineOf[j] >= 0 && lineOf[j] < len(mres) {
			per := strings.Split(mres[lineOf[j]], ";")
			if len(per) != len(cs.Reqs) {
				c.Mismatch(cs, "", mres[lineOf[j]], "model answer malformed (reg)")
			} else {
				c.Res.Traces++
				for i, r := range cs.Reqs {
					mv := splitVals(per[i])
					if per[i] == "" {
						mv = nil
					}
					lb := labels[j][i]
					ov := regObserved(r, run.out[i], lb)
					if len(mv) != len(lb) {
						c.Mismatch(cs, fmt.Sprintf("request %d: %d observations expected", i, len(lb)), per[i], "model answer malformed (reg)")
						break
					}
					bad := -1
					for p := range lb {
						if lb[p] != "" && ov[p] != mv[p] {
							bad = p
							break
						}
					}
					if bad >= 0 {
						c.Mismatch(cs, fmt.Sprintf("request %d: %s = %s (%s)", i, lb[bad], ov[bad], run.out[i]), fmt.Sprintf("request %d: %s = %s", i, lb[bad], mv[bad]), "served response vs Model.ReqReg under the played schedule "+intsCSV(run.turns))
						break
					}
				}
			}
		}
		// ---- the property itself
		fails := judgeReg(solo, cs.Reqs, run.out, run.turns)
		if len(fails) > 0 {
			rep := cs
			if j > 0 {
				if f2 := replayReg(cs); len(f2) == 0 {
					rep.History = j
				}
			}
			for _, f := range fails {
				what := f.what
				if rn.regViol != "" {
					what += " — the regenerated facts name: " + rn.regViol
				}
				c.Violation(f.sig, what, rep)
			}
		}
		c.SampleSome(map[string]any{"case": cs, "played": run.turns, "responses": fmt.Sprint(run.out)}, 211)
	}
}

func replayReg(cs regCase) []regFailure {
	srv, err := newServer(regScriptSrc)
	if err != nil {
		return []regFailure{{"registry:script", "the server script did not run: " + err.Error()}}
	}
	soloSrv, err := newServer(regScriptSrc)
	if err != nil {
		return []regFailure{{"registry:script", "the server script did not run: " + err.Error()}}
	}
	out, played, err := playReg(srv, cs.Reqs, cs.Turns)
	if err != nil {
		return []regFailure{{"schedule:hang", err.Error()}}
	}
	return judgeReg(&regSolo{soloSrv, map[string]resp{}}, cs.Reqs, out, played)
}

func (rn *runner) replayRegCase(raw json.RawMessage) {
	c := rn.c
	var cs regCase
	if err := json.Unmarshal(raw, &cs); err != nil {
		c.Note("bad replay: %v", err)
		return
	}
	cs.Kind = "reg"
	cs.History = 0
	c.Eval(string(raw), len(cs.Reqs) >= 2)
	c.Hit("stream:registry")
	for _, f := range replayReg(cs) {
		c.Violation(f.sig, f.what, cs)
	}
}

// ------------------------------------------------------------ generators

func regX(i int) string { return strconv.Itoa(5000 + 111*i) }

// regVictims: every answer method × every layer that answers × every park point the request passes,
// on the mux; every answer × every point under the group, through the forwarding server and behind
// HotHandler with the handler answering.
func regVictims() []regReq {
	var out []regReq
	for _, a := range regAnswers {
		for _, who := range []string{"h", "m2", "m1"} {
			base := regReq{A: a, Who: who, X: regX(0)}
			for _, p := range base.reached() {
				v := base
				v.Park = []string{p}
				out = append(out, v)
			}
		}
		for _, via := range []string{"api", "front", "hot"} {
			base := regReq{A: a, Who: "h", X: regX(0), Via: via}
			for _, p := range base.reached() {
				v := base
				v.Park = []string{p}
				out = append(out, v)
			}
		}
	}
	return out
}

// regNeighbours: what runs next to the parked request. One neighbour: every interleaving; several:
// the parked request stays parked while they run one after the other (and the mirror image).
func regNeighbours(v regReq) [][]regReq {
	same := v
	same.Park = nil
	same.X = regX(1)
	twin := same
	twin.X = v.X // identical URL, identical client address: only the *http.Request differs
	n := func(a, who, via, cl string, park ...string) regReq {
		return regReq{A: a, Who: who, Via: via, Cl: cl, X: regX(2), Park: park}
	}
	x := func(r regReq, i int) regReq { r.X = regX(i); return r }
	return [][]regReq{
		{same},
		{twin},
		{n("success", "h", "", "", "hpre")},  // straddles / outlives, depending on the interleaving
		{n("error", "m2", "", "", "m2post")}, // a middleware answers and is parked after it
		{n("format", "m1", "", "")},          // only the outermost layer runs (and detaches)
		{n("throw", "h", "", "")},            // the handler's deferred detach runs during a panic
		{n("success", "h", "", "clone")},
		{n("success", "h", "", "withctx")},
		{n("json", "h", "", "hclone", "hpre")},
		{n("created", "h", "hot", "")},
		{n("success", "h", "front", "")},
		{n("error", "h", "api", "")},
		{same, x(n("error", "h", "", ""), 3)},
		{x(n("success", "h", "", "", "hpre"), 2), x(n("throw", "m2", "", ""), 3), x(n("created", "m1", "", ""), 4)},
	}
}

func regExhaustive(thorough bool) []regCase {
	var out []regCase
	for vi, v := range regVictims() {
		for ni, ns := range regNeighbours(v) {
			// quick: the full neighbour list for the representative answers, a rotating third for the rest
			if !thorough && !(v.A == "success" || v.A == "error" || v.A == "throw") && (vi+ni)%3 != 0 {
				continue
			}
			reqs := append([]regReq{v}, ns...)
			if len(ns) == 1 {
				seg := []int{len(v.gates()) + 1, len(ns[0].gates()) + 1}
				for _, t := range interleavings(seg) {
					out = append(out, regCase{Reqs: reqs, Turns: t})
				}
				continue
			}
			// the victim parks, the neighbours run (parking ones are finished right away), the victim ends
			var turns []int
			turns = append(turns, 0)
			for i := range ns {
				for k := 0; k <= len(ns[i].gates()); k++ {
					turns = append(turns, i+1)
				}
			}
			turns = append(turns, 0)
			out = append(out, regCase{Reqs: reqs, Turns: turns})
			// mirror: the neighbours start first and park where they can, the victim runs through, they finish
			turns = nil
			for i := range ns {
				turns = append(turns, i+1)
			}
			turns = append(turns, 0, 0)
			for i := range ns {
				for k := 0; k < len(ns[i].gates()); k++ {
					turns = append(turns, i+1)
				}
			}
			out = append(out, regCase{Reqs: reqs, Turns: turns})
		}
	}
	return out
}

// regPast: the seeded shape first — a request parked in a closure middleware (between the attach and
// the handler's beginResponse) while another request to the same route finishes.
func regPast() []regCase {
	var out []regCase
	for i, p := range []string{"m1pre", "m2pre", "m3pre"} {
		for j, a := range []string{"success", "error", "format"} {
			v := regReq{A: a, X: regX(0), Park: []string{p}}
			nb := regReq{A: "success", X: regX(1 + i + j)}
			out = append(out, regCase{Name: "past: parked at " + p + " (" + a + ") while another request finishes", Reqs: []regReq{v, nb}, Turns: []int{0, 1, 0}})
		}
	}
	// attributes: parked in the handler between setting and reading them
	out = append(out, regCase{Name: "past: parked at hpre while another request finishes", Reqs: []regReq{{A: "write", X: regX(0), Park: []string{"hpre"}, So: true}, {A: "write", X: regX(1)}}, Turns: []int{0, 1, 0}})
	// 8 parked, released one by one
	var many []regReq
	var turns []int
	for i := 0; i < 8; i++ {
		many = append(many, regReq{A: regAnswers[i%4], X: regX(i), Park: []string{regPoints[i%4]}})
		turns = append(turns, i)
	}
	for i := 0; i < 8; i++ {
		turns = append(turns, 7-i)
	}
	out = append(out, regCase{Name: "past: 8 parked before their final beginResponse, released one by one", Reqs: many, Turns: turns})
	return out
}

// regRandom: 2..8 requests, random configuration and park points, random turns.
func regRandom(r *vh.Rand) regCase {
	n := r.Range(2, 5)
	if r.Chance(20) {
		n = r.Range(6, 8)
	}
	var cs regCase
	var seg []int
	for i := 0; i < n; i++ {
		q := regReq{A: vh.Pick(r, regAnswers), Who: vh.Pick(r, []string{"h", "h", "h", "m2", "m1"}), X: strconv.Itoa(5000 + r.Intn(4000))}
		switch x := r.Intn(10); {
		case x == 0:
			q.Via = "hot"
		case x == 1:
			q.Via = "front"
		case x == 2:
			q.Via = "api"
		}
		if r.Chance(20) {
			q.Cl = vh.Pick(r, []string{"clone", "withctx", "hclone"})
		}
		q.So = r.Chance(30)
		if i > 0 && r.Chance(15) {
			q.X = cs.Reqs[0].X // the same URL as request 0 (if the rest agrees)
		}
		for _, p := range q.reached() {
			if r.Chance(30) {
				q.Park = append(q.Park, p)
			}
		}
		cs.Reqs = append(cs.Reqs, q)
		seg = append(seg, len(q.gates())+1)
	}
	left := append([]int{}, seg...)
	for {
		var avail []int
		for i, l := range left {
			if l > 0 {
				avail = append(avail, i)
			}
		}
		if len(avail) == 0 {
			break
		}
		i := vh.Pick(r, avail)
		left[i]--
		cs.Turns = append(cs.Turns, i)
	}
	return cs
}

func registryStreams(rn *runner) {
	c := rn.c
	rbatch := func(cases []regCase, stream string, size int) {
		for i := 0; i < len(cases); i += size {
			j := i + size
			if j > len(cases) {
				j = len(cases)
			}
			rn.runRegBatch(cases[i:j], stream)
		}
	}
	rbatch(regPast(), "registry", 32)
	rbatch(regExhaustive(c.Thorough()), "registry", 64)
	var rnd []regCase
	for i := 0; i < c.N(300, 15000); i++ {
		rnd = append(rnd, regRandom(c.Rand))
	}
	rbatch(rnd, "registry", 64)
}

// the registry routes under real parallelism (child process, load.go): see regLoadRequests
func regLoadStreams(c *vh.Ctx) {
	for i, n := range []int{2, 3, 8, 16, 32, 64} {
		if !c.Thorough() && i%2 == 1 {
			continue
		}
		t0 := time.Now()
		runLoad(c, loadCase{Stream: "reg", Seed: c.Rand.U64() % 1000000, InFlight: n, Rounds: c.N(10, 80)})
		if time.Since(t0) > 100*time.Second { // it hung (reported as load:hang): the next size would as well
			break
		}
	}
}
