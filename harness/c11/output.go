package c11

// Round 8: the output stream. Handlers (mux, HotHandler) and a middleware that PRODUCE OUTPUT
// through every script-level output route the interpreter has (echo, echo with several operands,
// interpolation, heredoc, var_dump, var_export, inline HTML — `print`, `printf`, `print_r` do not exist on
// the pinned tree —, output from a shared function / method, the ob_* family) before, between
// and after two gates, under EVERY gate-level interleaving of two requests (nested and overlapped
// ones) and a few of three.
//
// Observation = the response (status, headers, body) AND what reached the SERVER PROCESS's stdout
// during the request's own turns: os.Stdout is pointed at a scratch file for the duration of the
// stream and read after every turn of the forced schedule (exactly one request runs during a turn,
// so whatever was written then was written by that request's code).
//
// Oracles (no model involved): (1) response and attributed stdout equal the ones of the same request
// served alone; (2) no other request's token anywhere in them; (3) after the case the process-wide
// hook data.WriteOutput still reaches the process's stdout.

import (
	"encoding/json"
	"fmt"
	"os"
	"strconv"
	"strings"

	"github.com/php-any/origami/data"
)

type outKind struct {
	Name string
	// Emit: PHP statements producing the token of tag (a, b, c); $x holds the request's id
	Emit func(tag string) string
	// Body: whole handler body after `$x`/`$g` are set (ob_* kinds); "" = emit·gate·emit·gate·emit·write
	Body string
	// Ob: uses the ob_* family, whose buffer stack is one per process on the pinned tree (known finding)
	Ob bool
}

func outKinds() []outKind {
	ks := outKindsAll()
	skip := os.Getenv("C11_OUTSKIP") // development aid: comma-separated kinds to leave out
	if skip == "" {
		return ks
	}
	var out []outKind
	for _, k := range ks {
		if !strings.Contains(","+skip+",", ","+k.Name+",") {
			out = append(out, k)
		}
	}
	return out
}

func outKindsAll() []outKind {
	q := func(f string) func(string) string {
		return func(tag string) string { return strings.ReplaceAll(f, "T", tag) }
	}
	return []outKind{
		{Name: "echo", Emit: q(`echo $x . ".T;";`)},
		{Name: "echo-list", Emit: q(`echo $x, ".T", ";";`)},
		{Name: "echo-interp", Emit: q(`echo "{$x}.T;";`)},
		{Name: "echo-heredoc", Emit: q("echo <<<EOT\n{$x}.T;\nEOT;\n")},
		{Name: "var_dump", Emit: q(`var_dump($x . ".T");`)},
		{Name: "var_export", Emit: q(`var_export($x . ".T;");`)},
		{Name: "function", Emit: q(`o_say($x, "T");`)},
		{Name: "method", Emit: q(`$o = new OSay(); $o->say($x, "T");`)},
		{Name: "static", Emit: q(`OSay::ssay($x, "T");`)},
		{Name: "closure", Emit: q(`$f = function ($t) use ($x) { echo $x . "." . $t . ";"; }; $f("T");`)},
		{Name: "loop", Emit: q(`for ($i = 0; $i < 3; $i++) { echo $x . ".T" . $i . ";"; }`)},
		{Name: "ob-clean", Ob: true, Body: `ob_start(); echo $x . ".a;"; verif_gate($g); echo $x . ".b;"; $s = ob_get_clean(); verif_gate($g); echo $x . ".c;"; $res->write("[" . $s . "]w" . $x);`},
		{Name: "ob-contents", Ob: true, Body: `ob_start(); echo $x . ".a;"; verif_gate($g); echo $x . ".b;"; $s = ob_get_contents(); ob_end_clean(); verif_gate($g); echo $x . ".c;"; $res->write("[" . $s . "]w" . $x);`},
		{Name: "ob-level", Ob: true, Body: `echo $x . ".a;"; verif_gate($g); $l = ob_get_level(); verif_gate($g); echo $x . ".c;"; $res->write("L" . $l . "w" . $x);`},
	}
}

var outLayers = []string{"mux", "hot", "mw"}

// outSkipped: output routes of the interpreter the catalogue cannot carry, with the reason.
var outSkipped = map[string]string{
	"html":  "inline HTML (node.InlineHTML → data.WriteOutput, the same hook as echo): ParseString refuses `?>…<?php` inside a function body, and a function or text brought in by `include` is there only for the first VM of a process (the solo server is the second) — sequential behaviour, the same alone and in company",
	"print": "`print`, `printf`, `print_r`, `vprintf`, `fputs` are not defined on the pinned tree; `print $x;` and `fwrite(STDOUT, …)` emit nothing",
}

func outScript() string {
	var sb strings.Builder
	sb.WriteString(`<?php
use Net\Http\Server;
function o_say($x, $t) { echo $x . "." . $t . ";"; }
class OSay {
  function say($x, $t) { echo $x . "." . $t . ";"; }
  static function ssay($x, $t) { echo $x, ".", $t, ";"; }
}
$server = new Server('127.0.0.1', 0);
$server->middleware(function ($request, $response, $next) {
  if ($request->input("mw") == "1") {
    $x = $request->input("x");
    echo $x . ".m1;";
    verif_gate($request->header("X-G"));
    $next($request, $response);
    echo $x . ".m2;";
  } else { $next($request, $response); }
}, 0);
`)
	for i, k := range outKinds() {
		body := k.Body
		if body == "" {
			body = k.Emit("a") + " verif_gate($g); " + k.Emit("b") + " verif_gate($g); " + k.Emit("c") + ` $res->write("w" . $x);`
		}
		fmt.Fprintf(&sb, "$h%d = function ($req, $res) { $x = $req->input(\"x\"); $g = $req->header(\"X-G\"); %s };\n", i, body)
		fmt.Fprintf(&sb, "$server->get('/o/%s', $h%d);\nverif_hot('/ho/%s', $h%d);\n", k.Name, i, k.Name, i)
	}
	sb.WriteString("$server->get('/zz', function ($req, $res) { $res->write('z'); });\nverif_expose($server);\n")
	return sb.String()
}

type outReq struct {
	K string `json:"k"` // output kind
	X string `json:"x"` // the request's token
	L string `json:"l"` // layer: mux | hot | mw
}

type outCase struct {
	Kind  string   `json:"kind"`
	Reqs  []outReq `json:"reqs"`
	Turns []int    `json:"turns"`
}

func outWire(r outReq, gid int) wire {
	u := "/o/" + r.K + "?x=" + r.X
	switch r.L {
	case "hot":
		u = "/ho/" + r.K + "?x=" + r.X
	case "mw":
		u += "&mw=1"
	}
	w := wire{Method: "GET", URL: u}
	if gid >= 0 {
		w.Headers = [][2]string{{"X-G", strconv.Itoa(gid)}}
	}
	return w
}

// stdoutTap points os.Stdout at a scratch file; take returns what was written since the last take.
type stdoutTap struct {
	f   *os.File
	old *os.File
	off int64
}

func newStdoutTap() (*stdoutTap, error) {
	f, err := os.CreateTemp("", "c11-stdout-*")
	if err != nil {
		return nil, err
	}
	t := &stdoutTap{f: f, old: os.Stdout}
	os.Stdout = f
	return t, nil
}

func (t *stdoutTap) take() string {
	st, err := t.f.Stat()
	if err != nil || st.Size() <= t.off {
		return ""
	}
	b := make([]byte, st.Size()-t.off)
	n, _ := t.f.ReadAt(b, t.off)
	t.off += int64(n)
	return string(b[:n])
}

func (t *stdoutTap) close() {
	os.Stdout = t.old
	name := t.f.Name()
	t.f.Close()
	os.Remove(name)
}

type outRun struct {
	out      []resp
	std      []string // stdout written during the request's own turns
	played   []int
	hookLeft string // "" = data.WriteOutput reaches the process's stdout after the case
}

const outProbe = "\x01hook-probe\x01"

// outSettle: after a case, is the process-wide hook what it was before? then put everything back
// (open buffers flushed, default writer) so that the next case starts from the same state.
func outSettle(tap *stdoutTap) (left string) {
	func() {
		defer func() {
			if p := recover(); p != nil {
				left = "writing through data.WriteOutput panicked: " + firstLine(fmt.Sprint(p))
			}
		}()
		data.WriteOutput(outProbe)
	}()
	if got := tap.take(); left == "" && got != outProbe {
		left = fmt.Sprintf("a write through data.WriteOutput after the case put %q on the process's stdout instead of the text written", got)
	}
	if data.FlushAllBuffersFn != nil {
		data.FlushAllBuffersFn()
	}
	data.ResetOutputWriter()
	tap.take()
	return
}

func playOut(srv *server, tap *stdoutTap, reqs []outReq, turns []int) (outRun, error) {
	ids := make([]int, len(reqs))
	wires := make([]wire, len(reqs))
	for i, r := range reqs {
		ids[i] = 300000 + i
		wires[i] = outWire(r, ids[i])
	}
	run := outRun{std: make([]string, len(reqs))}
	tap.take()
	srv.afterTurn = func(r int) { run.std[r] += tap.take() }
	defer func() { srv.afterTurn = nil }()
	var err error
	run.out, run.played, err = srv.runTurns(ids, wires, turns)
	if err != nil {
		return run, err
	}
	run.hookLeft = outSettle(tap)
	return run, nil
}

type outSolo struct {
	srv *server
	tap *stdoutTap
	got map[outReq][2]string
	rsp map[outReq]resp
}

func (s *outSolo) serve(r outReq) (resp, string) {
	if v, ok := s.rsp[r]; ok {
		return v, s.got[r][0]
	}
	s.srv.serve(wire{Method: "GET", URL: "/zz"})
	s.tap.take()
	v := s.srv.serve(outWire(r, -1))
	std := s.tap.take()
	outSettle(s.tap)
	s.rsp[r] = v
	s.got[r] = [2]string{std}
	return v, std
}

type outFailure struct{ sig, what string }

func outHasOb(reqs []outReq) bool {
	ob := map[string]bool{}
	for _, k := range outKinds() {
		ob[k.Name] = k.Ob
	}
	for _, r := range reqs {
		if ob[r.K] {
			return true
		}
	}
	return false
}

// outShape: how the requests' lifetimes relate under the played schedule.
func outShape(played []int, n int) string {
	first := make([]int, n)
	last := make([]int, n)
	for i := range first {
		first[i] = -1
	}
	for p, r := range played {
		if first[r] < 0 {
			first[r] = p
		}
		last[r] = p
	}
	shape := "sequential"
	for a := 0; a < n; a++ {
		for b := 0; b < n; b++ {
			if a == b || first[a] < 0 || first[b] < 0 || !(first[a] < first[b] && first[b] < last[a]) {
				continue
			}
			// b starts while a is in flight
			if last[b] > last[a] {
				return "overlapped"
			}
			// b lies inside a: nested iff a does not run between b's first and last turn
			for p := first[b]; p <= last[b]; p++ {
				if played[p] == a {
					return "overlapped"
				}
			}
			shape = "nested"
		}
	}
	return shape
}

func judgeOut(solo *outSolo, reqs []outReq, run outRun) []outFailure {
	var fails []outFailure
	ob := outHasOb(reqs)
	sig := func(s string) string {
		if ob {
			return "output:ob-shared-buffer"
		}
		return s
	}
	shape := outShape(run.played, len(reqs))
	for i, r := range reqs {
		ref, refStd := solo.serve(r)
		got := run.out[i]
		where := fmt.Sprintf("request %d (%s, layer %s) under the %s schedule %s", i, outWire(r, -1).URL, r.L, shape, intsCSV(run.played))
		if got != ref {
			fails = append(fails, outFailure{sig("output:response"), fmt.Sprintf("%s answered %s; served alone it answers %s", where, got, ref)})
		}
		if run.std[i] != refStd {
			fails = append(fails, outFailure{sig("output:stdout"), fmt.Sprintf("%s: during its own turns the server process's stdout received %q; served alone %q (response %s)", where, run.std[i], refStd, got)})
		}
		for j, o := range reqs {
			if j != i && o.X != r.X && (strings.Contains(got.Body, o.X) || strings.Contains(got.Header, o.X)) {
				fails = append(fails, outFailure{sig("output:foreign"), fmt.Sprintf("%s carries the token %s of request %d: %s", where, o.X, j, got)})
				break
			}
		}
	}
	if run.hookLeft != "" {
		fails = append(fails, outFailure{sig("output:hook-left"), fmt.Sprintf("after the %s schedule %s of %v the process-wide output hook is not what it was: %s", shape, intsCSV(run.played), reqs, run.hookLeft)})
	}
	return fails
}

func (rn *runner) runOutBatch(cases []outCase, stream string, tap *stdoutTap) {
	c := rn.c
	if len(cases) == 0 || rn.outDead {
		return
	}
	src := outScript()
	srv, err := newServer(src)
	if err != nil {
		c.Violation("output:script", "the output server script did not run: "+err.Error(), cases[0])
		return
	}
	soloSrv, err := newServer(src)
	if err != nil {
		c.Violation("output:script", "the output server script did not run (solo server): "+err.Error(), cases[0])
		return
	}
	solo := &outSolo{soloSrv, tap, map[outReq][2]string{}, map[outReq]resp{}}
	outSettle(tap)
	for _, cs := range cases {
		cs.Kind = "out"
		run, err := playOut(srv, tap, cs.Reqs, cs.Turns)
		if err != nil {
			c.Violation("schedule:hang", err.Error(), cs)
			rn.outDead = true // every further case would wait out the same 20 s
			return
		}
		shape := outShape(run.played, len(cs.Reqs))
		c.Eval(fmt.Sprintf("out %v %v", cs.Reqs, run.played), len(cs.Reqs) >= 2 && shape != "sequential")
		c.Hit("stream:" + stream)
		c.Hit(fmt.Sprintf("requests=%d", len(cs.Reqs)))
		c.Hit("output-schedule:" + shape)
		for _, r := range cs.Reqs {
			c.Hit("output-kind:" + r.K)
			c.Hit("output-layer:" + r.L)
		}
		for _, f := range judgeOut(solo, cs.Reqs, run) {
			c.Violation(f.sig, f.what, cs)
		}
		c.SampleSome(map[string]any{"case": cs, "played": run.played, "responses": fmt.Sprint(run.out), "stdout": run.std}, 307)
	}
}

func (rn *runner) replayOutCase(raw json.RawMessage) {
	c := rn.c
	var cs outCase
	if err := json.Unmarshal(raw, &cs); err != nil {
		c.Note("bad replay: %v", err)
		return
	}
	tap, err := newStdoutTap()
	if err != nil {
		c.Note("no scratch stdout: %v", err)
		return
	}
	defer tap.close()
	rn.runOutBatch([]outCase{cs}, "out", tap)
}

// ------------------------------------------------------------ generators

func outX(i int) string { return strconv.Itoa(60000 + 1371*i) }

// outExhaustive: per kind and layer two requests on the SAME route under every gate-level
// interleaving; the kind next to a plain echo handler (both orders) under the schedules that differ
// in shape; three requests parked together and released in three orders.
func outExhaustive(thorough bool) []outCase {
	var cs []outCase
	for _, k := range outKinds() {
		for _, l := range outLayers {
			nseg := 3
			if l == "mw" {
				nseg = 4
			}
			a, b := outReq{k.Name, outX(1), l}, outReq{k.Name, outX(2), l}
			all := interleavings([]int{nseg, nseg})
			if !thorough && l != "mux" {
				// quick: the non-mux layers get the schedules of distinct shape only
				var pick [][]int
				seen := map[string]int{}
				for _, t := range all {
					s := outShape(t, 2)
					if seen[s] < 3 {
						seen[s]++
						pick = append(pick, t)
					}
				}
				all = pick
			}
			for _, t := range all {
				cs = append(cs, outCase{Reqs: []outReq{a, b}, Turns: t})
			}
			e := outReq{"echo", outX(3), "mux"}
			for _, t := range [][]int{{0, 1, 0, 1, 0, 1, 0, 1}, {0, 1, 1, 0, 0, 1}, {0, 1, 1, 1, 1, 0}, {0, 0, 1, 0, 1, 1}} {
				cs = append(cs, outCase{Reqs: []outReq{a, e}, Turns: t}, outCase{Reqs: []outReq{e, a}, Turns: t})
			}
			c := outReq{k.Name, outX(4), l}
			for _, t := range [][]int{{0, 1, 2, 0, 1, 2, 0, 1, 2}, {0, 1, 2, 2, 1, 0, 2, 1, 0}, {0, 1, 2, 2, 2, 1, 1, 0, 0}} {
				cs = append(cs, outCase{Reqs: []outReq{a, b, c}, Turns: t})
			}
		}
	}
	return cs
}

func outputStreams(rn *runner) {
	tap, err := newStdoutTap()
	if err != nil {
		rn.c.Note("output stream skipped: no scratch stdout: %v", err)
		return
	}
	defer tap.close()
	if f := os.Getenv("C11_OUTDUMP"); f != "" { // development aid: write the server script to a file
		os.WriteFile(f, []byte(outScript()), 0o644)
	}
	for k := range outSkipped {
		rn.c.Hit("output-kind-skipped:" + k)
	}
	cs := outExhaustive(rn.c.Thorough())
	for i := 0; i < len(cs); i += 128 {
		rn.runOutBatch(cs[i:min(i+128, len(cs))], "out", tap)
	}
	// seeded: 2..4 requests of random kinds and layers, random interleavings
	kinds := outKinds()
	var rnd []outCase
	for i := 0; i < rn.c.N(300, 6000); i++ {
		n := 2 + rn.c.Rand.Intn(3)
		var reqs []outReq
		var pool []int
		for j := 0; j < n; j++ {
			r := outReq{kinds[rn.c.Rand.Intn(len(kinds))].Name, outX(10 + j), outLayers[rn.c.Rand.Intn(len(outLayers))]}
			if rn.c.Rand.Intn(3) == 0 && j > 0 {
				r.K, r.L = reqs[0].K, reqs[0].L
			}
			reqs = append(reqs, r)
			seg := 3
			if r.L == "mw" {
				seg = 4
			}
			for s := 0; s < seg; s++ {
				pool = append(pool, j)
			}
		}
		for p := len(pool) - 1; p > 0; p-- {
			q := rn.c.Rand.Intn(p + 1)
			pool[p], pool[q] = pool[q], pool[p]
		}
		rnd = append(rnd, outCase{Reqs: reqs, Turns: pool})
	}
	for i := 0; i < len(rnd); i += 128 {
		rn.runOutBatch(rnd[i:min(i+128, len(rnd))], "out-random", tap)
	}
}
