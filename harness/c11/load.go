package c11

import (
	"encoding/json"
	"fmt"
	"os"
	"os/exec"
	"strings"
	"sync"
	"time"

	"verif/harness/vh"
)

// Parallel load: N requests in flight at the same time (real goroutines, the Go
// scheduler decides the interleaving) against one server, each request with its
// own parameters; every response is compared with the response of the same
// request served alone beforehand. Runs in a child process: a data race on
// interpreter state could take the process down.

type loadCase struct {
	Kind     string `json:"kind"`   // "load"
	Stream   string `json:"stream"` // main | sg | vals (the value catalogue, rendezvous at the gates)
	Seed     uint64 `json:"seed"`
	InFlight int    `json:"inflight"`
	Rounds   int    `json:"rounds"`
	Procs    int    `json:"procs,omitempty"`
	Limit    int    `json:"limit,omitempty"` // depth stream: the limit the frames in flight are to exceed together
}

type loadDiff struct {
	URL   string `json:"url"`
	Got   string `json:"got"`
	Want  string `json:"want"`
	Class string `json:"class"` // own | sg
}

type loadResult struct {
	Requests int        `json:"requests"`
	Diffs    []loadDiff `json:"diffs"`
	NDiff    int        `json:"ndiff"`
	NOwn     int        `json:"nown"`
	Panics   []string   `json:"panics"`
	Routes   []string   `json:"routes"`
	Err      string     `json:"err,omitempty"`
	// depth stream: requests served one at a time AFTER the load that answer differently from the
	// same request served before it; what a process-wide call counter reads when nothing is in flight
	After []loadDiff `json:"after,omitempty"`
	Rest  int        `json:"rest"`
}

func init() { vh.RegisterChild("c11load", loadChild) }

// the handlers of the main stream: locals, loops, arrays, objects, closures, helper
// functions, the request object — no superglobals. Every response carries the request's
// own parameter in status, a header and the body.
const mainHandlers = `
class Box {
  public $v; public $items = [];
  function __construct($v) { $this->v = $v; }
  function add($x) { $this->items[] = $x; return $this; }
  function join() { $s = ""; foreach ($this->items as $i) { $s = $s . $i . "."; } return $s; }
}
class Counter { public $n = 0; function inc($by) { $this->n = $this->n + $by; return $this->n; } }
function helper($p, $q) { $loc = $p . "-" . $q; $i = 0; while ($i < 3) { $loc = $loc . $i; $i = $i + 1; } return $loc . ":" . $p; }
function fact($n) { if ($n <= 1) { return 1; } return $n * fact($n - 1); }
$outer = "O";
$server->get('/locals', function ($req, $res) {
  $x = $req->input("x");
  $acc = ""; $i = 0;
  while ($i < 20) { $acc = $acc . $x . ($i % 3); $i = $i + 1; }
  $sum = 0;
  $n = (int)$x;
  for ($j = 0; $j < 50; $j++) { $sum = $sum + $n; }
  $res->header("X-Who", $x);
  $res->status(200 + ($n % 4));
  $res->write("locals|" . $x . "|" . $acc . "|" . $sum . "|" . helper($x, "h") . "|" . fact(6));
});
$server->get('/arrays', function ($req, $res) {
  $x = $req->input("x");
  $arr = [];
  for ($j = 0; $j < 12; $j++) { $arr[] = $x . "_" . $j; }
  $map = ["a" => $x, "b" => $x . "b"];
  $map["c"] = $x . "c";
  $s = "";
  foreach ($arr as $k => $v) { $s = $s . $k . "=" . $v . ","; }
  foreach ($map as $k => $v) { $s = $s . $k . ":" . $v . ";"; }
  $res->header("X-Who", $x);
  $res->write("arrays|" . $x . "|" . $s . "|" . count($arr));
});
$server->get('/objects', function ($req, $res) {
  $x = $req->input("x");
  $b = new Box($x);
  $b->add($x)->add("m")->add($x . "z");
  $c = new Counter();
  $k = 0;
  $n = (int)$x;
  while ($k < 10) { $c->inc($n); $k = $k + 1; }
  $res->header("X-Who", $b->v);
  $res->write("objects|" . $x . "|" . $b->v . "|" . $b->join() . "|" . $c->n);
});
$server->get('/closures', function ($req, $res) use ($outer) {
  $x = $req->input("x");
  $f = function ($y) use ($x) { return $x . "+" . $y; };
  $g = function ($n) use ($f) { $r = ""; for ($i = 0; $i < $n; $i++) { $r = $r . $f($i) . ","; } return $r; };
  $outer = $outer . $x;
  $res->header("X-Who", $x);
  $res->write("closures|" . $x . "|" . $f("k") . "|" . $g(5) . "|" . $outer);
});
$server->post('/form', function ($req, $res) {
  $req->parseForm();
  $x = $req->input("x");
  $f = $req->input("f");
  $h = $req->header("X-Tag");
  $res->header("X-Who", $x);
  $res->status(201);
  $res->write("form|" . $x . "|" . $f . "|" . $h . "|" . $req->method() . "|" . $req->path() . "|" . $req->query()["x"]);
});
$server->get('/mixed', function ($req, $res) {
  $x = $req->query()["x"];
  $req->attribute("who", $x);
  $parts = [];
  $i = 0;
  while ($i < 8) {
    $b = new Box($x . $i);
    $parts[] = $b->add($i)->join();
    $i = $i + 1;
  }
  $s = "";
  foreach ($parts as $p) { $s = $s . $p; }
  $res->header("X-Who", $x);
  $res->header("X-Len", "" . count($parts));
  $res->write("mixed|" . $x . "|" . $s . "|" . helper($x, $req->header("X-Tag")));
});
`

// the known stream: the same kind of handlers reading superglobals. The body has the
// form own…#sg… : the part before '#' uses the request object only.
const sgHandlers = `
$server->get('/sgget', function ($req, $res) {
  $x = $req->input("x");
  $a = $_GET["x"];
  $i = 0; $acc = "";
  while ($i < 30) { $acc = $acc . $i; $i = $i + 1; }
  $b = $_GET["x"];
  $res->header("X-Who", $x);
  $res->write("sgget|" . $x . "|" . strlen($acc) . "#" . $a . "|" . $b . "|" . $_SERVER["QUERY_STRING"] . "|" . $_REQUEST["x"]);
});
$server->get('/sgcookie', function ($req, $res) {
  $x = $req->input("x");
  $a = $_COOKIE["c"];
  $i = 0; $acc = "";
  while ($i < 30) { $acc = $acc . $i; $i = $i + 1; }
  $res->header("X-Who", $x);
  $res->write("sgcookie|" . $x . "#" . $a . "|" . $_COOKIE["c"] . "|" . $_SERVER["HTTP_X_TAG"]);
});
`

type loadReq struct {
	w    wire
	want resp
	sg   bool
	own  string // vals stream: the body the request's own data prescribe ("" = no such oracle)
	reg  *resp  // reg stream: the whole response the request's own parameters prescribe
}

func loadRequests(r *vh.Rand, stream string, n int, limit int) []loadReq {
	var out []loadReq
	if stream == "px" {
		return pxLoadRequests(r, n)
	}
	// vals stream: a few kinds per load case, so that several in-flight requests share each route
	var valSet []valKind
	if stream == "vals" {
		var ks, bks []valKind
		for _, k := range valKinds() {
			if k.Known == "" && !k.NoLoad {
				if k.Boot {
					bks = append(bks, k)
				} else {
					ks = append(ks, k)
				}
			}
		}
		for m := r.Range(1, 4); len(valSet) < m; {
			if len(bks) > 0 && r.Chance(30) { // boot catalogue (round 7): values that exist before any request
				valSet = append(valSet, vh.Pick(r, bks))
			} else {
				valSet = append(valSet, vh.Pick(r, ks))
			}
		}
	}
	var depthSet []depthKind
	if stream == "depth" {
		for m := r.Range(1, 3); len(depthSet) < m; {
			depthSet = append(depthSet, vh.Pick(r, depthKinds()))
		}
	}
	for i := 0; i < n; i++ {
		x := fmt.Sprintf("%d", 1000+i*7+r.Intn(5))
		tag := fmt.Sprintf("t%d", i)
		var w wire
		if stream == "reg" {
			// every configuration of the registry routes; about half of the requests park somewhere
			// (rendezvous: they wait until all the others are parked or have finished and detached)
			q := regReq{A: vh.Pick(r, regAnswers), Who: vh.Pick(r, []string{"h", "h", "h", "m2", "m1"}), X: x, So: r.Chance(30)}
			switch v := r.Intn(12); {
			case v == 0:
				q.Via = "hot"
			case v == 1:
				q.Via = "front"
			case v == 2:
				q.Via = "api"
			}
			if r.Chance(15) {
				q.Cl = vh.Pick(r, []string{"clone", "withctx", "hclone"})
			}
			if r.Bool() {
				for _, p := range q.reached() {
					if r.Chance(35) {
						q.Park = append(q.Park, p)
					}
				}
			}
			lq := loadReq{w: regWire(q, -1)}
			if want, ok := regWant(q); ok {
				lq.reg = &want
			}
			out = append(out, lq)
			continue
		}
		if stream == "depth" {
			// together beyond the limit (1.3 × … 2 ×), each alone well within it
			per := (limit*13/10+r.Intn(limit*7/10+1))/n + 1
			if per > limit*3/5 {
				per = limit * 3 / 5
			}
			if per < 6 {
				per = 6
			}
			fr := mkReq(vh.Pick(r, depthSet), per-r.Intn(per/4+1), x)
			fr.Hot = r.Chance(25)
			out = append(out, loadReq{w: flightWire(fr, -1), own: flightWant(fr).Body})
			continue
		}
		if stream == "vals" {
			k := vh.Pick(r, valSet)
			q := loadReq{w: valWire(valReq{k.Name, x}, -1)}
			if k.Want != nil {
				q.own = k.Want(x)
			}
			out = append(out, q)
			continue
		}
		if stream == "sg" {
			rt := vh.Pick(r, []string{"/sgget", "/sgcookie"})
			w = wire{Method: "GET", URL: rt + "?x=" + x, Headers: [][2]string{{"X-Tag", tag}}, Cookies: [][2]string{{"c", "c" + x}}}
		} else {
			rt := vh.Pick(r, []string{"/locals", "/arrays", "/objects", "/closures", "/form", "/mixed"})
			w = wire{Method: "GET", URL: rt + "?x=" + x, Headers: [][2]string{{"X-Tag", tag}}, Cookies: [][2]string{{"c", "c" + x}}}
			if rt == "/form" {
				w.Method = "POST"
				w.Body = "f=f" + x
			}
		}
		out = append(out, loadReq{w: w, sg: stream == "sg"})
	}
	return out
}

func loadScript(stream string) string {
	h := mainHandlers
	if stream == "sg" {
		h = sgHandlers
	}
	if stream == "vals" {
		return valScript(nil)
	}
	if stream == "depth" {
		return depthScript()
	}
	if stream == "reg" {
		return regScriptSrc
	}
	if stream == "px" {
		return pxScript()
	}
	return "<?php\nuse Net\\Http\\Server;\n$server = new Server('127.0.0.1', 0);\n" + h + "\nverif_expose($server);\n"
}

func loadChild(args []string) int {
	var lc loadCase
	if len(args) < 1 || json.Unmarshal([]byte(args[0]), &lc) != nil {
		fmt.Println(`{"err":"bad arguments"}`)
		return 2
	}
	res := loadResult{}
	emit := func() int {
		b, _ := json.Marshal(res)
		fmt.Println("RESULT " + string(b))
		return 0
	}
	srv, err := newServer(loadScript(lc.Stream))
	if err != nil {
		res.Err = err.Error()
		return emit()
	}
	r := vh.NewRand(lc.Seed)
	if lc.Limit <= 0 {
		lc.Limit = 500
	}
	reqs := loadRequests(r, lc.Stream, lc.InFlight, lc.Limit)
	var pxAll []string // px stream: the x of every request of the case
	if lc.Stream == "vals" || lc.Stream == "depth" || lc.Stream == "reg" {
		// depth: every request descends, all meet at the bottom (the frames of all of them are held
		// at the same time), then they come back up racing each other
		srv.gate.bar = newBarrier()
	}
	// depth stream: requests at the limit (L counted frames: served; L+1: refused by a limit on the
	// request's own depth), served alone before the load and again after it
	var boundary []loadReq
	if lc.Stream == "depth" {
		for _, kn := range flightReps {
			for _, fr := range []int{lc.Limit, lc.Limit + 1} {
				boundary = append(boundary, loadReq{w: flightWire(mkReq(depthByName[kn], fr, "77"), -1)})
			}
		}
		for i := range boundary {
			boundary[i].want = srv.serve(boundary[i].w)
		}
	}
	// solo responses first: one request at a time
	for i := range reqs {
		reqs[i].want = srv.serve(reqs[i].w)
		res.Routes = append(res.Routes, reqs[i].w.URL)
		if lc.Stream == "px" {
			// served alone (after other requests): no panic, the request's own x in the header the handler
			// computes from n reads, nobody else's x anywhere
			reqs[i].want = canonResp(reqs[i].want)
			pxAll = append(pxAll, reqs[i].own)
			if reqs[i].want.Panic != "" {
				res.Panics = append(res.Panics, "solo "+reqs[i].w.URL+": "+reqs[i].want.Panic)
			} else if !strings.Contains(reqs[i].want.Header, "X-Who:"+reqs[i].own+"*") {
				res.NDiff++
				res.NOwn++
				res.Diffs = append(res.Diffs, loadDiff{reqs[i].w.URL, reqs[i].want.String(), "a response whose X-Who header is x=" + reqs[i].own + " read n times (served alone, after other requests)", "own"})
			}
			continue
		}
		if lc.Stream == "reg" {
			reqs[i].want = canonResp(reqs[i].want)
			if reqs[i].reg != nil && reqs[i].want != *reqs[i].reg {
				res.NDiff++
				res.NOwn++
				res.Diffs = append(res.Diffs, loadDiff{reqs[i].w.URL, reqs[i].want.String(), reqs[i].reg.String() + " (served alone, after other requests)", regClass(reqs[i].want, *reqs[i].reg)})
			}
			continue
		}
		if reqs[i].want.Panic != "" && (lc.Stream != "depth" || reqs[i].own != "") {
			res.Panics = append(res.Panics, "solo "+reqs[i].w.URL+": "+reqs[i].want.Panic)
			continue
		}
		if lc.Stream == "vals" || lc.Stream == "depth" {
			if reqs[i].own != "" && (reqs[i].want.Body != reqs[i].own || reqs[i].want.Code != 200) {
				res.NDiff++
				res.NOwn++
				res.Diffs = append(res.Diffs, loadDiff{reqs[i].w.URL, reqs[i].want.String(), "200 " + reqs[i].own + " (served alone, after other requests)", "own"})
			}
			continue
		}
		// the solo response itself must carry the request's own parameter (status line apart)
		x := reqs[i].w.URL[strings.Index(reqs[i].w.URL, "x=")+2:]
		own := strings.SplitN(reqs[i].want.Body, "#", 2)[0]
		if !strings.Contains(own+"|", "|"+x+"|") || !strings.Contains(reqs[i].want.Header, "X-Who:"+x) {
			res.NDiff++
			res.NOwn++
			res.Diffs = append(res.Diffs, loadDiff{reqs[i].w.URL, reqs[i].want.String(), "a response carrying x=" + x + " (served alone, after other requests)", "own"})
		}
	}
	if lc.Stream == "px" {
		// x values are assigned in increasing order: a foreign x in a solo response can only be an earlier one
		for i := range reqs {
			if f := pxForeign(reqs[i].want, reqs[i].own, pxAll); f != "" && reqs[i].want.Panic == "" {
				res.NDiff++
				res.NOwn++
				res.Diffs = append(res.Diffs, loadDiff{reqs[i].w.URL, reqs[i].want.String(), "no trace of x=" + f + ", the parameter of a request served before (served alone)", "foreign"})
			}
		}
	}
	var mu sync.Mutex
	for round := 0; round < lc.Rounds; round++ {
		var wg sync.WaitGroup
		start := make(chan struct{})
		if srv.gate.bar != nil {
			srv.gate.bar.begin(len(reqs))
		}
		for i := range reqs {
			wg.Add(1)
			go func(q loadReq) {
				defer wg.Done()
				<-start
				got := srv.serve(q.w)
				if lc.Stream == "reg" || lc.Stream == "px" {
					got = canonResp(got)
				}
				if srv.gate.bar != nil {
					srv.gate.bar.leave()
				}
				mu.Lock()
				defer mu.Unlock()
				res.Requests++
				// (depth stream: through HotHandler a refusal reaches the client as a panic; it is
				// compared with the solo answer like any other response)
				if got.Panic != "" && lc.Stream != "depth" && lc.Stream != "reg" {
					if len(res.Panics) < 5 {
						res.Panics = append(res.Panics, q.w.URL+": "+got.Panic)
					}
					return
				}
				if got == q.want {
					return
				}
				res.NDiff++
				class := "own"
				if q.sg && got.Code == q.want.Code && got.Header == q.want.Header &&
					strings.SplitN(got.Body, "#", 2)[0] == strings.SplitN(q.want.Body, "#", 2)[0] {
					class = "sg"
				}
				if lc.Stream == "reg" {
					class = regClass(got, q.want)
				}
				if lc.Stream == "px" && pxForeign(got, q.own, pxAll) != "" {
					class = "foreign" // another in-flight request's x in this response
				}
				if class == "own" || class == "foreign" {
					res.NOwn++
				}
				if len(res.Diffs) < 6 || ((class == "own" || class == "foreign") && res.NOwn <= 3) {
					res.Diffs = append(res.Diffs, loadDiff{q.w.URL, got.String(), q.want.String(), class})
				}
			}(reqs[i])
		}
		close(start)
		wg.Wait()
	}
	for _, b := range boundary {
		if got := srv.serve(b.w); got != b.want {
			res.After = append(res.After, loadDiff{b.w.URL, got.String(), b.want.String(), "own"})
		}
	}
	if v, ok := any(srv.env.VM).(interface {
		EnterCall() int
		LeaveCall()
	}); ok && lc.Stream == "depth" {
		res.Rest = v.EnterCall() - 1
		v.LeaveCall()
	}
	return emit()
}

func runLoad(c *vh.Ctx, lc loadCase) {
	lc.Kind = "load"
	arg, _ := json.Marshal(lc)
	cmd := exec.Command(vh.Self(), "__child", "c11load", string(arg))
	if lc.Procs > 0 {
		cmd.Env = append(os.Environ(), fmt.Sprintf("GOMAXPROCS=%d", lc.Procs))
	}
	var outb strings.Builder
	cmd.Stdout = &outb
	cmd.Stderr = &outb
	done := make(chan error, 1)
	if err := cmd.Start(); err != nil {
		c.Note("load child did not start: %v", err)
		c.Mismatch(lc, err.Error(), "", "load child did not start")
		return
	}
	go func() { done <- cmd.Wait() }()
	var werr error
	select {
	case werr = <-done:
	case <-time.After(120 * time.Second):
		cmd.Process.Kill()
		<-done
		c.Violation("load:hang", fmt.Sprintf("parallel load (%s, %d in flight × %d rounds) did not finish within 120 s", lc.Stream, lc.InFlight, lc.Rounds), lc)
		return
	}
	out := outb.String()
	c.Eval(string(arg), lc.InFlight >= 2)
	c.Hit("load:" + lc.Stream)
	c.Hit(fmt.Sprintf("load-inflight=%d", lc.InFlight))
	var res loadResult
	found := false
	for _, ln := range strings.Split(out, "\n") {
		if strings.HasPrefix(ln, "RESULT ") {
			if json.Unmarshal([]byte(ln[7:]), &res) == nil {
				found = true
			}
		}
	}
	if !found {
		kind := "exit"
		for _, ln := range strings.Split(out, "\n") {
			if strings.HasPrefix(ln, "fatal error:") || strings.HasPrefix(ln, "panic:") {
				kind = strings.SplitN(ln, ":", 2)[0] + ":" + strings.TrimSpace(strings.SplitN(ln, ":", 2)[1])
				break
			}
		}
		if len(kind) > 60 {
			kind = kind[:60]
		}
		c.Violation("load:crash:"+kind, fmt.Sprintf("the server process died under parallel load (%s stream, %d in flight × %d rounds, %v): %s", lc.Stream, lc.InFlight, lc.Rounds, werr, firstLines(out, 6)), lc)
		return
	}
	if res.Err != "" {
		c.Mismatch(lc, res.Err, "", "load child could not set up its server")
		return
	}
	c.HitN("load-requests:"+lc.Stream, res.Requests)
	for _, p := range res.Panics {
		if lc.Stream == "sg" && strings.Contains(p, "nil pointer dereference") && !strings.HasPrefix(p, "solo ") {
			// another request's ResetSuperglobals set the cache variable to nil between this
			// request's nil check / fill and its use of the variable
			c.Violation("superglobal:reset-race-nil-dereference", "a handler reading superglobals panicked under parallel load: "+p, lc)
			continue
		}
		c.Violation("load:handler-panic", "a handler panicked under parallel load: "+p, lc)
	}
	sgSeen := false
	if lc.Stream == "px" {
		c.HitN("load-px-responses-differing-from-solo", res.NDiff)
		c.HitN(fmt.Sprintf("load-px-differing:inflight=%d", lc.InFlight), res.NDiff)
		for _, d := range res.Diffs {
			sig, what := "isolation:proxy:response", "differs from the same request served alone"
			if d.Class == "foreign" {
				sig, what = "isolation:proxy:foreign-data", "carries the x of ANOTHER request in flight"
			}
			if strings.Contains(d.Want, "(served alone") { // found in the solo pass, before any load
				c.Violation(sig, fmt.Sprintf("served ALONE, after other requests of the proxy routes had finished, %s answered %q; expected %s", d.URL, clip(d.Got, 700), d.Want), lc)
				continue
			}
			c.Violation(sig, fmt.Sprintf("under parallel load (%d requests in flight on the proxy routes: every method of $req / $res called in loops at shared call sites, × %d rounds; %d of %d responses differ) the response of %s %s: got %q, served alone %q", lc.InFlight, lc.Rounds, res.NDiff, res.Requests, d.URL, what, clip(d.Got, 700), clip(d.Want, 700)), lc)
		}
		return
	}
	if lc.Stream == "reg" {
		for _, d := range res.Diffs {
			c.Violation("registry:load:"+strings.TrimPrefix(d.Class, "registry:"), fmt.Sprintf("under parallel load (%d requests in flight on the registry routes, the parked ones waiting until the others are parked or have finished, × %d rounds) %s answered %q but %q when served alone", lc.InFlight, lc.Rounds, d.URL, d.Got, d.Want), lc)
		}
		return
	}
	if lc.Stream == "depth" {
		classOf := func(url string) string {
			k := strings.SplitN(strings.TrimPrefix(strings.TrimPrefix(url, "/d/"), "/h/"), "?", 2)[0]
			return depthByName[k].Class
		}
		for _, d := range res.Diffs {
			c.Violation("inflight:load:"+classOf(d.URL), fmt.Sprintf("under parallel load (%d requests in flight, all holding their frames at the same time, × %d rounds) %s answered %q but %q when served alone", lc.InFlight, lc.Rounds, d.URL, d.Got, d.Want), lc)
		}
		for _, d := range res.After {
			c.Violation("inflight:after-load:"+classOf(d.URL), fmt.Sprintf("served alone AFTER a parallel load (%d in flight × %d rounds) %s answered %q; served alone before it %q — the answer depends on requests that have finished", lc.InFlight, lc.Rounds, d.URL, d.Got, d.Want), lc)
		}
		if res.Rest != 0 {
			c.Mismatch(lc, fmt.Sprintf("the VM's call counter reads %d with no request in flight", res.Rest), "0 (Model.ReqLimit: c = Σ d_i, C11_depth_counter_is_sum)", "process-wide counter at rest after a parallel load")
		}
		return
	}
	for _, d := range res.Diffs {
		if d.Class == "sg" {
			sgSeen = true
			c.Violation("superglobal:shared-cache", fmt.Sprintf("under parallel load (%d in flight) %s answered %q, alone %q — only the superglobal part differs", lc.InFlight, d.URL, d.Got, d.Want), lc)
		} else {
			c.Violation("isolation:load:"+strings.SplitN(strings.TrimPrefix(d.URL, "/"), "?", 2)[0], fmt.Sprintf("under parallel load (%d in flight × %d rounds) %s answered %q but %q when served alone", lc.InFlight, lc.Rounds, d.URL, d.Got, d.Want), lc)
		}
	}
	if lc.Stream == "sg" {
		c.HitN("load-sg-responses-differing-from-solo", res.NDiff)
		if sgSeen {
			c.Hit("load-sg-leak-observed")
		}
	}
}

func clip(s string, n int) string {
	if len(s) > n {
		return s[:n] + "…"
	}
	return s
}

func firstLines(s string, n int) string {
	l := strings.Split(s, "\n")
	if len(l) > n {
		l = l[:n]
	}
	return strings.Join(l, " / ")
}

func flightLimitsOrDefault(limits []int) []int {
	var out []int
	seen := map[int]bool{}
	for _, l := range limits {
		if l >= 20 && l <= 4000 && !seen[l] {
			seen[l] = true
			out = append(out, l)
		}
	}
	if len(out) == 0 {
		out = []int{500}
	}
	return out
}

// the depth catalogue under real parallelism: the frames of all in-flight requests are held at the
// same time (rendezvous at the bottom), together beyond every limit of the source
func depthLoadStreams(c *vh.Ctx, limits []int) {
	for _, l := range flightLimitsOrDefault(limits) {
		for i, n := range []int{2, 3, 8, 32, 64} {
			if !c.Thorough() && i%2 == 1 {
				continue
			}
			runLoad(c, loadCase{Stream: "depth", Seed: c.Rand.U64() % 1000000, InFlight: n, Rounds: c.N(6, 40), Limit: l})
		}
	}
}

func loadStreams(c *vh.Ctx, limits []int) {
	sizes := []int{2, 3, 8, 32, 64}
	if c.Thorough() {
		sizes = []int{2, 3, 4, 6, 8, 12, 16, 24, 32, 48, 64}
	}
	for _, n := range sizes {
		rounds := c.N(20, 300)
		runLoad(c, loadCase{Stream: "main", Seed: c.Rand.U64() % 1000000, InFlight: n, Rounds: rounds})
	}
	if c.Thorough() {
		for _, p := range []int{1, 2, 4} {
			runLoad(c, loadCase{Stream: "main", Seed: c.Rand.U64() % 1000000, InFlight: 16, Rounds: 100, Procs: p})
		}
	}
	// the value catalogue under real parallelism: all in-flight requests create their values,
	// meet at the gate, then use them while racing each other
	nv := c.N(10, 80)
	for i := 0; i < nv; i++ {
		n := []int{2, 3, 8, 16, 32, 64}[i%6]
		runLoad(c, loadCase{Stream: "vals", Seed: c.Rand.U64() % 1000000, InFlight: n, Rounds: c.N(4, 20)})
	}
	depthLoadStreams(c, limits)
	regLoadStreams(c)
	pxLoadStreams(c)
	for _, n := range []int{8, 32} {
		runLoad(c, loadCase{Stream: "sg", Seed: c.Rand.U64() % 1000000, InFlight: n, Rounds: c.N(20, 200)})
	}
}
